(** C02 — generic theory of the streaming level writer: for any entry type,
    writing the leaves one by one with [write_to_level] and finishing with
    [sum_loop] yields the root that the level-by-level specification [build]
    yields, and emits exactly the chunks of the specification. *)
From Coq Require Import List NArith ZArith Bool Lia Arith PeanoNat.
Import ListNotations.
Require Import Aurora.C02.Model Aurora.C02.Spec.

(** * Grouping *)
Section Grouping.
  Context {A : Type}.
  Implicit Types (l r g : list A) (gs : list (list A)).

  Lemma group_fuel_any k : (0 < k)%nat -> forall f1 f2 l,
    (length l <= f1)%nat -> (length l <= f2)%nat -> group_fuel f1 k l = group_fuel f2 k l.
  Proof.
    intros Hk f1; induction f1 as [|f1 IH]; intros f2 l H1 H2.
    - destruct l; [|cbn in H1; lia]. destruct f2; reflexivity.
    - destruct l as [|x t]; [destruct f2; reflexivity|].
      destruct f2 as [|f2]; [cbn in H2; lia|].
      cbn [group_fuel]. f_equal. apply IH; rewrite skipn_length; cbn [length] in *; lia.
  Qed.

  Lemma group_nil k : group k (@nil A) = [].
  Proof. reflexivity. Qed.

  Lemma group_cons_full k g l : (0 < k)%nat -> length g = k -> group k (g ++ l) = g :: group k l.
  Proof.
    intros Hk Hg. unfold group.
    destruct g as [|x g']; [cbn in Hg; lia|].
    rewrite app_length. cbn [length plus app group_fuel].
    change (x :: g' ++ l) with ((x :: g') ++ l).
    rewrite firstn_app, skipn_app, Hg, Nat.sub_diag, firstn_O, skipn_O, app_nil_r.
    rewrite firstn_all2 by lia. rewrite skipn_all2 by lia. cbn [app]. f_equal.
    apply group_fuel_any; [assumption| lia | lia].
  Qed.

  Lemma group_short k l : (0 < length l <= k)%nat -> group k l = [l].
  Proof.
    intros Hl. unfold group. destruct l as [|x t]; [cbn in Hl; lia|].
    cbn [length] in Hl. cbn [length group_fuel]. rewrite firstn_all2 by (cbn [length]; lia).
    rewrite skipn_all2 by (cbn [length]; lia). destruct (length t); reflexivity.
  Qed.

  Lemma group_concat k gs r : (0 < k)%nat -> Forall (fun g => length g = k) gs ->
    group k (concat gs ++ r) = gs ++ group k r.
  Proof.
    intros Hk Hf. induction Hf as [|g gs Hg Hf IH]; [reflexivity|].
    cbn [concat]. rewrite <- app_assoc, group_cons_full by assumption. now rewrite IH.
  Qed.

  (** streaming decomposition: full groups and the trailing partial group *)
  Definition split_step k (st : list (list A) * list A) (x : A) : list (list A) * list A :=
    if Nat.eqb (S (length (snd st))) k then (fst st ++ [snd st ++ [x]], []) else (fst st, snd st ++ [x]).
  Definition splitb k l := fold_left (split_step k) l ([], []).
  Definition fulls k l := fst (splitb k l).
  Definition tailb k l := snd (splitb k l).

  Lemma splitb_snoc k l x : splitb k (l ++ [x]) = split_step k (splitb k l) x.
  Proof. unfold splitb. now rewrite fold_left_app. Qed.

  Lemma fulls_snoc k l x : fulls k (l ++ [x]) =
    if Nat.eqb (S (length (tailb k l))) k then fulls k l ++ [tailb k l ++ [x]] else fulls k l.
  Proof. unfold fulls, tailb. rewrite splitb_snoc. unfold split_step. now destruct (Nat.eqb _ _). Qed.
  Lemma tailb_snoc k l x : tailb k (l ++ [x]) =
    if Nat.eqb (S (length (tailb k l))) k then [] else tailb k l ++ [x].
  Proof. unfold fulls, tailb. rewrite splitb_snoc. unfold split_step. now destruct (Nat.eqb _ _). Qed.

  Lemma splitb_inv k l : (0 < k)%nat ->
    concat (fulls k l) ++ tailb k l = l /\ Forall (fun g => length g = k) (fulls k l) /\ (length (tailb k l) < k)%nat.
  Proof.
    intros Hk. induction l as [|x l IH] using rev_ind.
    - cbn. repeat split; [constructor | assumption].
    - destruct IH as (Hc & Hf & Ht). rewrite fulls_snoc, tailb_snoc.
      destruct (Nat.eqb (S (length (tailb k l))) k) eqn:E.
      + apply Nat.eqb_eq in E. repeat split.
        * rewrite concat_app. cbn [concat]. rewrite !app_nil_r, app_assoc. now rewrite Hc.
        * apply Forall_app; split; [assumption|]. constructor; [|constructor]. rewrite app_length; cbn; lia.
        * cbn; lia.
      + apply Nat.eqb_neq in E. repeat split.
        * rewrite app_assoc. now rewrite Hc.
        * assumption.
        * rewrite app_length; cbn; lia.
  Qed.

  Lemma fulls_nil k : fulls k (@nil A) = []. Proof. reflexivity. Qed.
  Lemma tailb_nil k : tailb k (@nil A) = []. Proof. reflexivity. Qed.

  Lemma length_concat_uniform k gs : Forall (fun g => length g = k) gs -> length (concat gs) = (k * length gs)%nat.
  Proof. induction 1 as [|g gs Hg _ IH]; cbn; [lia|]. rewrite app_length, IH, Hg. lia. Qed.

  Lemma length_splitb k l : (0 < k)%nat -> length l = (k * length (fulls k l) + length (tailb k l))%nat.
  Proof.
    intros Hk. destruct (splitb_inv k l Hk) as (Hc & Hf & _).
    rewrite <- Hc at 1. rewrite app_length, (length_concat_uniform k) by assumption. reflexivity.
  Qed.

  Lemma group_splitb k l : (0 < k)%nat ->
    group k l = fulls k l ++ match tailb k l with [] => [] | _ :: _ => [tailb k l] end.
  Proof.
    intros Hk. destruct (splitb_inv k l Hk) as (Hc & Hf & Ht).
    rewrite <- Hc at 1. rewrite group_concat by assumption. f_equal.
    destruct (tailb k l) as [|y t] eqn:E; [reflexivity|].
    apply group_short. cbn [length] in *. lia.
  Qed.
End Grouping.

(** * The level writer against the specification *)
Section Stream.
  Context {E P : Type}.
  Variable node : list E -> E.
  Variable emit : list E -> P.
  Variable b : nat.
  Hypothesis Hb : (2 <= b)%nat.

  Let Hb0 : (0 < b)%nat. Proof. lia. Qed.

  Notation wtl := (write_to_level node emit b).
  Notation woc := (wrap_or_carry node).
  Notation nextl := (next_level node b).

  Definition F1 (xs : list E) : list E := map node (fulls b xs).

  (** the levels after the entries [xs] were written to the lowest of [S n]
      levels: level i holds the trailing partial group of the i-th "full nodes"
      list; the top level holds everything that reached it *)
  Fixpoint state_of (n : nat) (xs : list E) : list (list E) :=
    match n with
    | O => [xs]
    | S n' => tailb b xs :: state_of n' (F1 xs)
    end.

  Lemma state_of_length n xs : length (state_of n xs) = S n.
  Proof. revert xs; induction n; intros; cbn; auto. Qed.

  Lemma state_of_nil n : state_of n [] = repeat [] (S n).
  Proof.
    induction n as [|n IH]; [reflexivity|]. cbn [state_of]. unfold F1. rewrite fulls_nil, tailb_nil.
    cbn [map]. rewrite IH. reflexivity.
  Qed.

  (** chunks emitted by one write *)
  Fixpoint push_log (n : nat) (xs : list E) (x : E) : list P :=
    match n with
    | O => []
    | S n' =>
        if Nat.eqb (S (length (tailb b xs))) b
        then emit (tailb b xs ++ [x]) :: push_log n' (F1 xs) (node (tailb b xs ++ [x]))
        else []
    end.

  Lemma F1_length xs : length (F1 xs) = length (fulls b xs).
  Proof. apply map_length. Qed.

  Lemma F1_snoc xs x : F1 (xs ++ [x]) =
    if Nat.eqb (S (length (tailb b xs))) b then F1 xs ++ [node (tailb b xs ++ [x])] else F1 xs.
  Proof.
    unfold F1. rewrite fulls_snoc. destruct (Nat.eqb _ _); [|reflexivity]. now rewrite map_app.
  Qed.

  Lemma push_state_of n : forall xs x, (S (length xs) < b ^ S n)%nat ->
    exists fl, wtl (state_of n xs) x = Ok (state_of n (xs ++ [x]), push_log n xs x, fl)
               /\ (fl = true -> (b ^ n <= S (length xs))%nat).
  Proof.
    induction n as [|n IH]; intros xs x Hlen.
    - exists false. cbn [state_of write_to_level push_log]. rewrite app_length. cbn [length].
      rewrite Nat.pow_1_r in Hlen.
      replace (Nat.eqb (length xs + 1) b) with false by (symmetry; apply Nat.eqb_neq; lia).
      split; [reflexivity | discriminate].
    - cbn [state_of push_log]. rewrite F1_snoc, tailb_snoc.
      pose proof (length_splitb b xs Hb0) as Hsz.
      cbn [write_to_level]. rewrite app_length. cbn [length]. rewrite Nat.add_1_r.
      destruct (Nat.eqb (S (length (tailb b xs))) b) eqn:Eb.
      + apply Nat.eqb_eq in Eb.
        assert (Hpre : (S (length (F1 xs)) < b ^ S n)%nat).
        { rewrite F1_length. rewrite (Nat.pow_succ_r' b (S n)) in Hlen. nia. }
        destruct (IH (F1 xs) (node (tailb b xs ++ [x])) Hpre) as (fl & Hw & Hfl).
        destruct (state_of n (F1 xs)) as [|r0 r1] eqn:Er.
        { pose proof (state_of_length n (F1 xs)) as Hl. rewrite Er in Hl. discriminate. }
        rewrite Hw. exists (fl || Nat.eqb (length (r0 :: r1)) 1). split.
        * reflexivity.
        * intros Hf. pose proof (state_of_length n (F1 xs)) as Hl. rewrite Er in Hl.
          rewrite Nat.pow_succ_r'. rewrite F1_length in Hfl.
          apply orb_true_iff in Hf as [Hf|Hf].
          -- specialize (Hfl Hf). nia.
          -- apply Nat.eqb_eq in Hf. rewrite Hl in Hf. assert (n = 0)%nat by lia. subst n. cbn. nia.
      + exists false. split; [reflexivity | discriminate].
  Qed.

  (** every node chunk emitted while writing [xs] *)
  Fixpoint all_nodes (n : nat) (xs : list E) : list P :=
    match n with
    | O => []
    | S n' => map emit (fulls b xs) ++ all_nodes n' (F1 xs)
    end.

  Lemma all_nodes_snoc n : forall xs x p,
    In p (all_nodes n (xs ++ [x])) <-> In p (all_nodes n xs) \/ In p (push_log n xs x).
  Proof.
    induction n as [|n IH]; intros xs x p; cbn [all_nodes push_log]; [cbn; tauto|].
    rewrite F1_snoc, fulls_snoc.
    destruct (Nat.eqb (S (length (tailb b xs))) b).
    - rewrite !map_app, !in_app_iff. cbn [map In].
      rewrite (IH (F1 xs)). tauto.
    - rewrite !in_app_iff. cbn [In]. tauto.
  Qed.

  Lemma all_nodes_nil n : all_nodes n [] = [].
  Proof.
    induction n as [|n IH]; [reflexivity|]. cbn [all_nodes]. unfold F1. rewrite fulls_nil.
    cbn [map app]. exact IH.
  Qed.

  (** ** Sum *)
  Definition add_extra (extra : list E) (ls : list (list E)) : list (list E) :=
    match ls with L :: rest => (L ++ extra) :: rest | [] => [] end.

  Lemma add_extra_nil n xs : add_extra [] (state_of n xs) = state_of n xs.
  Proof. destruct n; cbn; now rewrite app_nil_r. Qed.

  Fixpoint iter_level (n : nat) (S0 : list E) : list E :=
    match n with O => S0 | S n' => iter_level n' (nextl S0) end.

  (** chunks of the specification: one per group of two or more, level by level *)
  Fixpoint spec_log (n : nat) (S0 : list E) : list P :=
    match n with
    | O => []
    | S n' => map emit (filter (fun g => Nat.leb 2 (length g)) (group b S0)) ++ spec_log n' (nextl S0)
    end.

  Lemma woc_node g : (2 <= length g)%nat -> woc g = node g.
  Proof. destruct g as [|x [|y t]]; cbn; intros; try lia; reflexivity. Qed.

  Lemma map_woc_fulls gs : Forall (fun g => length g = b) gs -> map woc gs = map node gs.
  Proof. induction 1 as [|g gs Hg _ IH]; [reflexivity|]. cbn [map]. rewrite IH, woc_node by lia. reflexivity. Qed.

  Lemma filter_fulls (gs : list (list E)) : Forall (fun g => length g = b) gs ->
    filter (fun g => Nat.leb 2 (length g)) gs = gs.
  Proof.
    induction 1 as [|g gs Hg _ IH]; [reflexivity|]. cbn [filter].
    replace (Nat.leb 2 (length g)) with true by (symmetry; apply Nat.leb_le; lia). now rewrite IH.
  Qed.

  (** the level above [xs ++ extra] *)
  Lemma group_with_extra xs extra : (length extra <= 1)%nat ->
    group b (xs ++ extra) = fulls b xs ++ match tailb b xs ++ extra return list (list E) with [] => [] | _ :: _ => [tailb b xs ++ extra] end.
  Proof.
    intros He. destruct (splitb_inv b xs Hb0) as (Hc & Hf & Ht).
    rewrite <- Hc at 1. rewrite <- app_assoc, group_concat by assumption. f_equal.
    destruct (tailb b xs ++ extra) as [|y t] eqn:Ey; [reflexivity|].
    apply group_short. assert (Hl := f_equal (@length _) Ey). rewrite app_length in Hl.
    cbn [length] in Hl |- *. lia.
  Qed.

  Lemma sum_loop_spec n : forall xs extra, (length extra <= 1)%nat ->
    (1 <= length (xs ++ extra) <= b ^ n)%nat ->
    exists lg, sum_loop node emit b n (add_extra extra (state_of n xs)) = Ok ([iter_level n (xs ++ extra)], lg)
      /\ (forall p, In p (all_nodes n xs) \/ In p lg <-> In p (spec_log n (xs ++ extra))).
  Proof.
    induction n as [|n IH]; intros xs extra He Hlen.
    - exists []. cbn. split; [reflexivity | tauto].
    - cbn [state_of add_extra sum_loop iter_level spec_log all_nodes].
      pose proof (length_splitb b xs Hb0) as Hsz.
      destruct (splitb_inv b xs Hb0) as (Hc & Hf & Ht).
      rewrite app_length in Hlen. rewrite Nat.pow_succ_r' in Hlen.
      unfold next_level. rewrite (group_with_extra xs extra He).
      rewrite map_app, filter_app, map_app, (map_woc_fulls _ Hf), (filter_fulls _ Hf). fold (F1 xs).
      destruct (state_of n (F1 xs)) as [|L2 r2] eqn:Er.
      { pose proof (state_of_length n (F1 xs)) as Hl. rewrite Er in Hl. discriminate. }
      remember (tailb b xs ++ extra) as Ls eqn:ELs.
      assert (HLs : length Ls = (length (tailb b xs) + length extra)%nat) by (subst Ls; apply app_length).
      destruct (Nat.eqb (length Ls) 0) eqn:E0.
      + (* empty level *)
        apply Nat.eqb_eq in E0. destruct Ls; [|discriminate]. cbn [map filter app].
        rewrite app_nil_r. rewrite <- Er.
        destruct (IH (F1 xs) [] ltac:(cbn; lia)) as (lg & Hs & Hl).
        { rewrite app_nil_r, F1_length. nia. }
        rewrite add_extra_nil, app_nil_r in Hs. exists lg. split; [exact Hs|].
        intros p. rewrite app_nil_r in Hl. rewrite !in_app_iff. cbn [In]. rewrite <- (Hl p). tauto.
      + apply Nat.eqb_neq in E0.
        destruct (negb (Nat.eqb (length Ls) b) && Nat.eqb (length Ls) 1) eqn:E1.
        * (* carry-over *)
          apply andb_true_iff in E1 as [_ E1]. apply Nat.eqb_eq in E1.
          destruct Ls as [|e [|? ?]]; try discriminate. cbn [map filter app length Nat.leb wrap_or_carry].
          change ((L2 ++ [e]) :: r2) with (add_extra [e] (L2 :: r2)). rewrite <- Er.
          destruct (IH (F1 xs) [e] ltac:(cbn; lia)) as (lg & Hs & Hl).
          { rewrite app_length, F1_length. cbn [length]. cbn [length] in HLs. nia. }
          exists lg. split; [exact Hs|].
          intros p. rewrite !in_app_iff. rewrite <- (Hl p). cbn [In]. tauto.
        * (* wrap *)
          assert (H2 : (2 <= length Ls)%nat).
          { destruct (Nat.eqb (length Ls) b) eqn:Eb; cbn in E1.
            - apply Nat.eqb_eq in Eb. lia.
            - apply Nat.eqb_neq in E1. lia. }
          assert (Hpre : (S (length (F1 xs)) < b ^ S n)%nat).
          { rewrite F1_length. rewrite Nat.pow_succ_r'.
            assert (b ^ n <> 0)%nat by (apply Nat.pow_nonzero; lia). nia. }
          destruct (push_state_of n (F1 xs) (node Ls) Hpre) as (fl & Hw & _).
          unfold wrap_level. cbv beta iota. rewrite <- Er. rewrite Hw. cbn [tl].
          destruct (IH (F1 xs ++ [node Ls]) [] ltac:(cbn; lia)) as (lg & Hs & Hl).
          { rewrite app_nil_r, app_length, F1_length. cbn [length]. nia. }
          rewrite add_extra_nil, app_nil_r in Hs. rewrite Hs.
          destruct Ls as [|e1 [|e2 Lt]]; try (cbn in H2; lia).
          remember (e1 :: e2 :: Lt) as Ls eqn:ELs2.
          assert (Hleb : Nat.leb 2 (length Ls) = true) by (apply Nat.leb_le; lia).
          cbn [map filter]. rewrite Hleb. cbn [map]. rewrite (woc_node Ls H2).
          eexists. split; [reflexivity|].
          intros p. rewrite app_nil_r in Hl. rewrite !in_app_iff. cbn [In].
          rewrite <- (Hl p). rewrite (all_nodes_snoc n (F1 xs) (node Ls) p). tauto.
  Qed.

  (** ** from the fixed number of levels to the specification's "until one is left" *)
  Lemma next_level_length_lt (S0 : list E) : (2 <= length S0)%nat -> (length (nextl S0) < length S0)%nat.
  Proof.
    intros H2. unfold next_level. rewrite map_length, (group_splitb b S0 Hb0), app_length.
    pose proof (length_splitb b S0 Hb0) as Hsz.
    destruct (splitb_inv b S0 Hb0) as (_ & _ & Ht).
    destruct (tailb b S0) as [|y t]; cbn [length] in *; nia.
  Qed.

  Lemma next_level_single e : nextl [e] = [e].
  Proof. unfold next_level. rewrite group_short by (cbn; lia). reflexivity. Qed.

  Lemma iter_level_single n e : iter_level n [e] = [e].
  Proof. induction n as [|n IH]; [reflexivity|]. cbn [iter_level]. now rewrite next_level_single. Qed.

  Lemma build_iter n : forall S0 fuel e, (length S0 <= S fuel)%nat ->
    iter_level n S0 = [e] -> build node b fuel S0 = Some e.
  Proof.
    induction n as [|n IH]; intros S0 fuel e Hf Hi.
    - cbn in Hi. subst S0. destruct fuel; reflexivity.
    - destruct S0 as [|x [|y t]].
      + cbn [iter_level] in Hi. unfold next_level in Hi. cbn in Hi.
        assert (Hnil : forall k, iter_level k [] = []).
        { induction k; cbn; [reflexivity|]. assumption. }
        rewrite Hnil in Hi. discriminate.
      + rewrite iter_level_single in Hi. injection Hi as ->. destruct fuel; reflexivity.
      + destruct fuel as [|fuel]; [cbn in Hf; lia|].
        cbn [build]. apply IH; [|exact Hi].
        pose proof (next_level_length_lt (x :: y :: t) ltac:(cbn; lia)). lia.
  Qed.
End Stream.

(** * sizes of the levels, and transport of [build] along a map *)
Section StreamSizes.
  Context {E : Type}.
  Variable node : list E -> E.
  Variable b : nat.
  Hypothesis Hb : (2 <= b)%nat.
  Let Hb0 : (0 < b)%nat. Proof. lia. Qed.
  Notation nextl := (next_level node b).

  Lemma next_level_bounds n (S0 : list E) : (1 <= length S0 <= b ^ S n)%nat ->
    (1 <= length (nextl S0) <= b ^ n)%nat.
  Proof.
    intros Hl. unfold next_level. rewrite map_length, (group_splitb b S0 Hb0), app_length.
    pose proof (length_splitb b S0 Hb0) as Hsz.
    destruct (splitb_inv b S0 Hb0) as (_ & _ & Ht).
    rewrite Nat.pow_succ_r' in Hl.
    destruct (tailb b S0) as [|y t]; cbn [length] in *; nia.
  Qed.

  Lemma iter_level_singleton n : forall S0 : list E, (1 <= length S0 <= b ^ n)%nat ->
    exists e, iter_level node b n S0 = [e].
  Proof.
    induction n as [|n IH]; intros S0 Hl.
    - cbn in Hl. destruct S0 as [|e [|? ?]]; cbn in Hl; try lia. now exists e.
    - cbn [iter_level]. apply IH. now apply next_level_bounds.
  Qed.
End StreamSizes.

Section BuildMap.
  Context {A B : Type}.
  Variable f : A -> B.
  Variable nodeA : list A -> A.
  Variable nodeB : list B -> B.
  Variable b : nat.
  Hypothesis Hf : forall l, f (nodeA l) = nodeB (map f l).

  Lemma firstn_map' k (l : list A) : firstn k (map f l) = map f (firstn k l).
  Proof. apply firstn_map. Qed.

  Lemma group_fuel_map fuel k : forall l : list A, group_fuel fuel k (map f l) = map (map f) (group_fuel fuel k l).
  Proof.
    induction fuel as [|fuel IH]; intros l; [reflexivity|].
    destruct l as [|x t]; [reflexivity|]. cbn [map group_fuel].
    change (f x :: map f t) with (map f (x :: t)).
    now rewrite firstn_map, skipn_map, IH.
  Qed.

  Lemma group_map k (l : list A) : group k (map f l) = map (map f) (group k l).
  Proof. unfold group. rewrite map_length. apply group_fuel_map. Qed.

  Lemma woc_map (g : list A) : f (wrap_or_carry nodeA g) = wrap_or_carry nodeB (map f g).
  Proof. destruct g as [|x [|y t]]; cbn [wrap_or_carry map]; try reflexivity; apply Hf. Qed.

  Lemma next_level_map (l : list A) : map f (next_level nodeA b l) = next_level nodeB b (map f l).
  Proof.
    unfold next_level. rewrite group_map, !map_map. apply map_ext. intros g. apply woc_map.
  Qed.

  Lemma build_map fuel : forall l : list A, build nodeB b fuel (map f l) = option_map f (build nodeA b fuel l).
  Proof.
    induction fuel as [|fuel IH]; intros l.
    - destruct l as [|x [|y t]]; reflexivity.
    - destruct l as [|x [|y t]]; try reflexivity.
      cbn [map build]. change (f x :: f y :: map f t) with (map f (x :: y :: t)).
      now rewrite <- next_level_map, IH.
  Qed.

  Lemma iter_level_map n : forall l : list A, map f (iter_level nodeA b n l) = iter_level nodeB b n (map f l).
  Proof. induction n as [|n IH]; intros l; [reflexivity|]. cbn [iter_level]. now rewrite IH, next_level_map. Qed.

  Context {P : Type}.
  Variable emitA : list A -> P.
  Variable emitB : list B -> P.
  Hypothesis He : forall l, emitA l = emitB (map f l).

  Lemma spec_log_map n : forall l : list A, spec_log nodeB emitB b n (map f l) = spec_log nodeA emitA b n l.
  Proof.
    induction n as [|n IH]; intros l; [reflexivity|]. cbn [spec_log].
    rewrite <- next_level_map, IH. f_equal. rewrite group_map.
    induction (group b l) as [|g gs IHg]; [reflexivity|].
    cbn [map filter]. rewrite map_length. destruct (Nat.leb 2 (length g)); cbn [map]; rewrite IHg; [|reflexivity].
    now rewrite He.
  Qed.
End BuildMap.
