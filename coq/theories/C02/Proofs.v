(** C02 — the concrete pipeline (feeder + hash-trie writer) against the
    format specification [Spec.spec_tree]. *)
From Coq Require Import List NArith ZArith Bool Lia Arith PeanoNat.
From Coq Require Import ZifyBool ZifyNat ZifyN.
Import ListNotations.
Require Import Aurora.C02.Model Aurora.C02.Spec Aurora.C02.Stream.
Ltac Zify.zify_post_hook ::= Z.div_mod_to_equations.
Ltac splits := repeat lazymatch goal with |- _ /\ _ => split end.

(** * little-endian encoding *)
Lemma le_bytes_length k n : length (le_bytes k n) = k.
Proof. revert n; induction k; intros; cbn; auto. Qed.
Lemma le64_length n : length (le64 n) = 8%nat.
Proof. apply le_bytes_length. Qed.

Lemma le_decode_le_bytes k : forall n, le_decode (le_bytes k n) = (n mod 256 ^ N.of_nat k)%N.
Proof.
  induction k as [|k IH]; intros n.
  - cbn. now rewrite N.mod_1_r.
  - cbn [le_bytes le_decode]. rewrite IH. rewrite Nat2N.inj_succ, N.pow_succ_r'.
    rewrite N.mod_mul_r; [reflexivity | lia | apply N.pow_nonzero; lia].
Qed.

Lemma le_bytes_mod k : forall n, le_bytes k (n mod 256 ^ N.of_nat k)%N = le_bytes k n.
Proof.
  induction k as [|k IH]; intros n; [reflexivity|].
  cbn [le_bytes]. rewrite Nat2N.inj_succ, N.pow_succ_r'.
  assert (Hp : (256 ^ N.of_nat k <> 0)%N) by (apply N.pow_nonzero; lia).
  rewrite N.mod_mul_r by lia.
  remember (256 ^ N.of_nat k)%N as q eqn:Eq.
  f_equal.
  - rewrite (N.mul_comm 256), N.mod_add by lia. apply N.mod_mod; lia.
  - rewrite <- (IH (n / 256)%N). f_equal. 
    rewrite (N.mul_comm 256), N.div_add by lia.
    rewrite (N.div_small (n mod 256) 256) by (apply N.mod_lt; lia). now rewrite N.add_0_l.
Qed.

Lemma le64_u64 n : le64 (u64 n) = le64 n.
Proof. unfold le64, u64. change 18446744073709551616%N with (256 ^ N.of_nat 8)%N. apply le_bytes_mod. Qed.
Lemma le_decode_le64 n : le_decode (le64 n) = u64 n.
Proof. unfold le64, u64. rewrite le_decode_le_bytes. reflexivity. Qed.

Lemma u64_add_l a c : u64 (u64 a + c) = u64 (a + c).
Proof. unfold u64. rewrite N.add_mod_idemp_l by lia. reflexivity. Qed.
Lemma u64_add_r a c : u64 (a + u64 c) = u64 (a + c).
Proof. unfold u64. rewrite N.add_mod_idemp_r by lia. reflexivity. Qed.

Lemma i64_small z : (- 2 ^ 63 <= z < 2 ^ 63)%Z -> i64 z = z.
Proof.
  intros Hz. unfold i64.
  replace ((-9223372036854775808 <=? z) && (z <? 9223372036854775808))%Z with true; [reflexivity|].
  symmetry. apply andb_true_iff. split; [apply Z.leb_le | apply Z.ltb_lt]; lia.
Qed.

Lemma chunks_of_length_bounds cs (Hcs : (0 < cs)%nat) data :
  (length data / cs <= length (chunks_of cs data) <= length data / cs + 1)%nat.
Proof.
  destruct data as [|x data]; [cbn [chunks_of length]; rewrite Nat.div_0_l by lia; lia|].
  cbn [chunks_of]. remember (x :: data) as d eqn:Ed.
  rewrite (group_splitb cs d Hcs), app_length.
  pose proof (length_splitb cs d Hcs) as Hsz.
  destruct (splitb_inv cs d Hcs) as (_ & _ & Ht).
  assert (Hq : (length d / cs = length (fulls cs d))%nat).
  { rewrite Hsz, Nat.mul_comm, Nat.div_add_l by lia. rewrite Nat.div_small by lia. lia. }
  rewrite Hq. destruct (tailb cs d); cbn [length]; lia.
Qed.


(** * trees and entries *)
Section Concrete.
  Variable H : bytes -> bytes.
  Variable cs b refLen : nat.
  Hypothesis Hcs : (0 < cs)%nat.
  Hypothesis Hb : (2 <= b)%nat.
  Hypothesis Hlen : forall x, length (H x) = refLen.

  Notation ne := (node_entry H).
  Notation np := node_payload.

  (** the entry that stands for a subtree *)
  Definition ent (t : tree) : entry := mkE (le64 (tree_span t)) (tree_ref H t).

  Lemma tree_span_node ts : tree_span (Node ts) = fold_right (fun t acc => (tree_span t + acc)%N) 0%N ts.
  Proof.
    unfold tree_span. cbn [tree_data]. induction ts as [|t ts IH]; [reflexivity|].
    cbn [flat_map fold_right]. rewrite app_length, Nat2N.inj_add. now rewrite IH.
  Qed.

  Lemma sum_spans_ent_gen ts : forall acc,
    fold_left (fun acc e => u64 (acc + le_decode (e_span e))) (map ent ts) (u64 acc)
    = u64 (acc + fold_right (fun t a => (tree_span t + a)%N) 0%N ts).
  Proof.
    induction ts as [|t ts IH]; intros acc; cbn [map fold_left fold_right].
    - now rewrite N.add_0_r.
    - cbn [ent e_span]. rewrite le_decode_le64, u64_add_r, u64_add_l, IH. f_equal. lia.
  Qed.

  Lemma sum_spans_ent ts : sum_spans (map ent ts) = u64 (tree_span (Node ts)).
  Proof.
    unfold sum_spans. change 0%N with (u64 0) at 1. rewrite sum_spans_ent_gen, tree_span_node. reflexivity.
  Qed.

  Lemma refs_ent ts : concat (map e_ref (map ent ts)) = flat_map (tree_ref H) ts.
  Proof. rewrite map_map. cbn [ent e_ref]. now rewrite flat_map_concat_map. Qed.

  Lemma np_ent ts : np (map ent ts) = tree_chunk H (Node ts).
  Proof. unfold node_payload. cbn [tree_chunk]. now rewrite sum_spans_ent, le64_u64, refs_ent. Qed.

  Lemma ne_ent ts : ent (Node ts) = ne (map ent ts).
  Proof.
    unfold node_entry, ent. rewrite np_ent, sum_spans_ent, le64_u64. reflexivity.
  Qed.

  (** * the trie writer *)
  Notation st_of := (state_of ne b).
  Notation levels_cap := 7%nat.

  Definition trie_inv (t : trie) (xs : list entry) : Prop :=
    t_levels t = st_of levels_cap xs /\ ((length xs < b ^ levels_cap)%nat -> t_full t = false).

  Lemma trie_init_inv : trie_inv trie_init [].
  Proof. split; [|reflexivity]. unfold trie_init, maxLevel. now rewrite state_of_nil. Qed.

  Lemma pow_ge_1 n : (1 <= b ^ n)%nat.
  Proof. assert (b ^ n <> 0)%nat by (apply Nat.pow_nonzero; lia). lia. Qed.

  Lemma chain_write_ok t xs span ref :
    trie_inv t xs -> (length xs < b ^ levels_cap)%nat -> length span = 8%nat -> length ref = refLen ->
    exists t', trie_chain_write H b refLen t span ref = Ok t'
      /\ trie_inv t' (xs ++ [mkE span ref])
      /\ t_log t' = t_log t ++ push_log ne np b levels_cap xs (mkE span ref).
  Proof.
    intros [Hl Hf] Hlt Hs Hr. unfold trie_chain_write. rewrite Hs, Hr.
    replace (8 + refLen)%nat with (refLen + 8)%nat by lia.
    rewrite Nat.mod_same by lia. rewrite Nat.eqb_refl. cbn [negb].
    rewrite (Hf Hlt). rewrite Nat.eqb_refl. cbn [negb]. rewrite Hl.
    assert (Hpre : (S (length xs) < b ^ S levels_cap)%nat).
    { rewrite Nat.pow_succ_r'. pose proof (pow_ge_1 levels_cap). nia. }
    destruct (push_state_of ne np b Hb levels_cap xs (mkE span ref) Hpre) as (fl & Hw & Hfl).
    rewrite Hw. eexists. split; [reflexivity|]. cbn [t_levels t_full t_log]. split; [split|]; [reflexivity| |reflexivity].
    intros Hlt'. cbn [orb]. destruct fl; [|reflexivity].
    specialize (Hfl eq_refl). rewrite app_length in Hlt'. cbn [length] in Hlt'. lia.
  Qed.

  Definition leaf_chunk (d : bytes) : bytes := le64 (N.of_nat (length d)) ++ d.
  Definition leaf_entry (d : bytes) : entry := mkE (le64 (N.of_nat (length d))) (H (leaf_chunk d)).

  Lemma leaf_entry_ent d : leaf_entry d = ent (Leaf d).
  Proof. reflexivity. Qed.

  (** the state of the whole pipeline behind the feeder after the leaf chunks [cks] *)
  Definition pipe_inv (t : trie) (cks : list bytes) : Prop :=
    trie_inv t (map leaf_entry cks)
    /\ (forall p, In p (t_log t) <-> In p (map leaf_chunk cks) \/ In p (all_nodes ne np b levels_cap (map leaf_entry cks))).

  Lemma pipe_init : pipe_inv trie_init [].
  Proof.
    split; [apply trie_init_inv|]. intros p. cbn [map t_log trie_init]. rewrite all_nodes_nil. cbn. tauto.
  Qed.

  Lemma stage_write_ok t cks d :
    pipe_inv t cks -> (length cks < b ^ levels_cap)%nat ->
    exists t', stage_write H b refLen t (le64 (N.of_nat (length d))) (leaf_chunk d) = Ok t'
      /\ pipe_inv t' (cks ++ [d]).
  Proof.
    intros [Hi Hlog] Hlt. unfold stage_write.
    assert (Hl8 : Nat.ltb (length (leaf_chunk d)) 8 = false).
    { apply Nat.ltb_ge. unfold leaf_chunk. rewrite app_length, le64_length. lia. }
    rewrite Hl8.
    set (t1 := mkT (t_levels t) (t_full t) (t_log t ++ [leaf_chunk d])).
    assert (Hi1 : trie_inv t1 (map leaf_entry cks)) by (destruct Hi; split; assumption).
    destruct (chain_write_ok t1 _ (le64 (N.of_nat (length d))) (H (leaf_chunk d)) Hi1)
      as (t' & Hw & Hi' & Hlg'); [now rewrite map_length | apply le64_length | apply Hlen |].
    exists t'. split; [exact Hw|]. split.
    - rewrite map_app. exact Hi'.
    - intros p. rewrite Hlg'. subst t1. cbn [t_log]. rewrite !map_app, !in_app_iff. cbn [map In].
      rewrite (all_nodes_snoc ne np b levels_cap (map leaf_entry cks) (leaf_entry d) p).
      rewrite (Hlog p). fold (leaf_entry d). tauto.
  Qed.

  (** * the feeder *)
  Definition uniform (cks : list bytes) : Prop := Forall (fun c => length c = cs) cks.

  Lemma feed_loop_ok : forall fuel rest dpre w t cks,
    (length rest < fuel)%nat -> (length dpre < cs)%nat ->
    (dpre = [] \/ cs <= length dpre + length rest)%nat ->
    pipe_inv t cks -> (length cks + (length dpre + length rest) / cs <= b ^ levels_cap)%nat ->
    exists early buf' w' t' newc,
      feed_loop H cs b refLen fuel dpre dpre rest w t = Ok (early, buf', w', t')
      /\ dpre ++ rest = concat newc ++ buf' /\ uniform newc /\ (length buf' < cs)%nat
      /\ pipe_inv t' (cks ++ newc)
      /\ w' = (w + Z.of_nat (cs * length newc) + (if early then Z.of_nat (length buf') else 0))%Z
      /\ (early = true -> buf' <> [])
      /\ (early = false -> newc = [] -> rest = [] /\ buf' = dpre)
      /\ (early = false -> newc <> [] -> buf' = []).
  Proof.
    induction fuel as [|fuel IH]; intros rest dpre w t cks Hfuel Hd Hpre Hp Hcap; [lia|].
    destruct rest as [|r0 rest'].
    - cbn [feed_loop]. exists false, dpre, w, t, []. rewrite !app_nil_r. cbn [concat app length].
      splits; try assumption; try constructor; try reflexivity; try lia; try congruence.
    - cbn [feed_loop]. remember (r0 :: rest') as rest eqn:Er.
      assert (Hrne : rest <> []) by (subst rest; discriminate).
      assert (Hrl : (0 < length rest)%nat) by (subst rest; cbn; lia).
      destruct (Nat.ltb (length dpre + length rest) cs) eqn:Elt.
      + apply Nat.ltb_lt in Elt. destruct Hpre as [-> | Hge]; [|lia].
        exists true, rest, (w + Z.of_nat (length rest))%Z, t, [].
        cbn [concat app length] in *. rewrite app_nil_r.
        splits; try assumption; try constructor; try reflexivity; try lia; try congruence.
      + apply Nat.ltb_ge in Elt.
        assert (Hn : Nat.min (cs - length dpre) (length rest) = (cs - length dpre)%nat) by lia.
        rewrite Hn. clear Hn. remember (cs - length dpre)%nat as n eqn:En.
        remember (dpre ++ firstn n rest) as payload eqn:Epl.
        assert (Hpl : length payload = cs).
        { subst payload. rewrite app_length, firstn_length. lia. }
        assert (Hq : (1 <= (length dpre + length rest) / cs)%nat).
        { apply Nat.div_le_lower_bound; lia. }
        destruct (stage_write_ok t cks payload Hp ltac:(lia)) as (t1 & Hw1 & Hp1).
        unfold leaf_chunk in Hw1. rewrite Hw1.
        assert (Hsk : length (skipn n rest) = (length rest - n)%nat) by apply skipn_length.
        destruct (IH (skipn n rest) [] (w + Z.of_N (N.of_nat (length payload)))%Z t1 (cks ++ [payload]))
          as (early & buf' & w' & t' & newc & Hfl & Hdec & Hun & Hbl & Hpi & Hw' & He & Hf1 & Hf2);
          [lia | cbn; lia | now left | exact Hp1 | |].
        { rewrite app_length. cbn [length]. rewrite Nat.add_0_l.
          replace (length dpre + length rest)%nat with (1 * cs + (length rest - n))%nat in Hcap by lia.
          rewrite Nat.div_add_l in Hcap by lia. rewrite Hsk. lia. }
        exists early, buf', w', t', (payload :: newc).
        split; [exact Hfl|]. split.
        { cbn [concat]. rewrite <- app_assoc, <- Hdec. subst payload. cbn [app].
          rewrite <- app_assoc, firstn_skipn. reflexivity. }
        split; [constructor; assumption|]. split; [assumption|]. split.
        { rewrite <- app_assoc in Hpi. exact Hpi. }
        split.
        { rewrite Hw'. cbn [length]. rewrite Hpl. lia. }
        split; [exact He|]. split; [discriminate|].
        intros Hef _. destruct newc as [|c newc'].
        * destruct (Hf1 Hef eq_refl) as [_ ->]. reflexivity.
        * apply Hf2; [exact Hef | discriminate].
  Qed.

  (** state of the feeder after the bytes [data] were written *)
  Definition feeder_inv (f : feeder) (data : bytes) (cks : list bytes) : Prop :=
    data = concat cks ++ f_buf f /\ uniform cks /\ (length (f_buf f) < cs)%nat
    /\ pipe_inv (f_next f) cks
    /\ (0 <= f_wrote f <= Z.of_nat (length data))%Z
    /\ (cks = [] -> f_wrote f = 0%Z)
    /\ (cks <> [] -> f_buf f = [] -> (0 < f_wrote f)%Z).

  Lemma feeder_init_inv : feeder_inv feeder_init [] [].
  Proof.
    unfold feeder_inv, feeder_init. cbn [f_buf f_wrote f_next concat app length].
    splits; try apply pipe_init; try constructor; try reflexivity; try lia; try congruence.
  Qed.

  Lemma uniform_length cks : uniform cks -> length (concat cks) = (cs * length cks)%nat.
  Proof. apply length_concat_uniform. Qed.

  Lemma feeder_write_ok f data cks s :
    feeder_inv f data cks -> (Z.of_nat (length (data ++ s)) < 2 ^ 63)%Z ->
    (length (data ++ s) / cs <= b ^ levels_cap)%nat ->
    exists f' cks', feeder_write H cs b refLen f s = Ok (f', Z.of_nat (length s))
      /\ feeder_inv f' (data ++ s) cks'.
  Proof.
    intros (Hd & Hu & Hbl & Hp & Hw & Hw0 & Hw1) H63 Hcap. unfold feeder_write.
    pose proof (uniform_length cks Hu) as Hcl.
    assert (Hdl : length data = (cs * length cks + length (f_buf f))%nat).
    { rewrite Hd at 1. rewrite app_length, Hcl. reflexivity. }
    rewrite app_length in H63, Hcap.
    destruct (Nat.ltb (length s + length (f_buf f)) cs) eqn:Elt.
    - apply Nat.ltb_lt in Elt. exists (mkF (f_buf f ++ s) (f_wrote f) (f_next f)), cks.
      split; [reflexivity|]. unfold feeder_inv. cbn [f_buf f_wrote f_next].
      split; [rewrite Hd at 1; now rewrite app_assoc|]. split; [assumption|].
      split; [rewrite app_length; lia|]. split; [assumption|].
      split; [rewrite app_length; lia|]. split; [assumption|].
      intros Hne Hnil. apply app_eq_nil in Hnil as [Hb1 _]. now apply Hw1.
    - apply Nat.ltb_ge in Elt.
      set (w0 := (if (0 <? Z.of_nat (length (f_buf f)))%Z then (- Z.of_nat (length (f_buf f)))%Z else 0%Z)).
      assert (Hw0' : w0 = (- Z.of_nat (length (f_buf f)))%Z).
      { unfold w0. destruct (0 <? Z.of_nat (length (f_buf f)))%Z eqn:E0; lia. }
      destruct (feed_loop_ok (S (length s)) s (f_buf f) w0 (f_next f) cks)
        as (early & buf' & w' & t' & newc & Hfl & Hdec & Hun & Hbl' & Hpi & Hw' & He & Hf1 & Hf2);
        [lia | lia | right; lia | assumption | |].
      { replace (length data + length s)%nat with (length cks * cs + (length (f_buf f) + length s))%nat in Hcap by lia.
        rewrite Nat.div_add_l in Hcap by lia. lia. }
      rewrite Hfl.
      assert (Hlen2 : (length (f_buf f) + length s = cs * length newc + length buf')%nat).
      { rewrite <- app_length, Hdec, app_length, (uniform_length newc Hun). reflexivity. }
      assert (Hnewc : newc <> []).
      { intros ->. cbn [length] in Hlen2. lia. }
      assert (Hret : w' = Z.of_nat (length s)).
      { rewrite Hw', Hw0'. destruct early.
        - lia.
        - rewrite (Hf2 eq_refl Hnewc) in Hlen2. cbn [length] in Hlen2. lia. }
      assert (Hdata' : data ++ s = concat (cks ++ newc) ++ buf').
      { rewrite Hd, <- app_assoc, Hdec, concat_app, <- app_assoc. reflexivity. }
      assert (Hcks' : cks ++ newc <> []).
      { intros Hx. apply app_eq_nil in Hx as [_ Hx]. contradiction. }
      destruct early.
      + exists (mkF buf' (f_wrote f) t'), (cks ++ newc). rewrite Hret. split; [reflexivity|].
        unfold feeder_inv. cbn [f_buf f_wrote f_next].
        split; [exact Hdata'|]. split; [apply Forall_app; split; assumption|].
        split; [assumption|]. split; [assumption|].
        split; [rewrite app_length; lia|]. split; [intros Hx; contradiction|].
        intros _ Hx. now destruct (He eq_refl).
      + pose proof (Hf2 eq_refl Hnewc) as Hb'. subst buf'.
        exists (mkF [] (i64 (f_wrote f + w')) t'), (cks ++ newc). rewrite Hret. split; [reflexivity|].
        assert (Hs0 : (0 < length s)%nat) by lia.
        rewrite i64_small by lia.
        unfold feeder_inv. cbn [f_buf f_wrote f_next].
        split; [exact Hdata'|]. split; [apply Forall_app; split; assumption|].
        split; [lia|]. split; [assumption|].
        split; [rewrite app_length; lia|]. split; [intros Hx; contradiction|].
        intros _ _. lia.
  Qed.

  Definition seg_lens (segs : list bytes) : list Z := map (fun s => Z.of_nat (length s)) segs.

  Lemma feed_all_ok : forall segs f data cks rets,
    feeder_inv f data cks -> (Z.of_nat (length (data ++ concat segs)) < 2 ^ 63)%Z ->
    (length (data ++ concat segs) / cs <= b ^ levels_cap)%nat ->
    exists f' cks', feed_all H cs b refLen f segs rets = Ok (f', rets ++ seg_lens segs)
      /\ feeder_inv f' (data ++ concat segs) cks'.
  Proof.
    induction segs as [|s segs IH]; intros f data cks rets Hi H63 Hcap.
    - exists f, cks. cbn [feed_all seg_lens map concat]. rewrite !app_nil_r. now split.
    - cbn [concat] in *. rewrite app_assoc in *. cbn [feed_all].
      assert (Hle : (length (data ++ s) <= length ((data ++ s) ++ concat segs))%nat) by (rewrite (app_length (data ++ s)); lia).
      destruct (feeder_write_ok f data cks s Hi) as (f1 & cks1 & Hw & Hi1); [lia| |].
      { etransitivity; [apply Nat.div_le_mono; [lia | exact Hle] | exact Hcap]. }
      rewrite Hw. destruct (IH f1 (data ++ s) cks1 (rets ++ [Z.of_nat (length s)]) Hi1 H63 Hcap) as (f' & cks' & Hfa & Hi').
      exists f', cks'. split; [|exact Hi']. rewrite Hfa. cbn [seg_lens map]. now rewrite <- app_assoc.
  Qed.

  Lemma chunks_of_nonempty data : data <> [] -> chunks_of cs data = group cs data.
  Proof. destruct data; [congruence | reflexivity]. Qed.

  Lemma trie_sum_ok t leaves :
    pipe_inv t leaves -> (1 <= length leaves <= b ^ levels_cap)%nat ->
    exists e lg, trie_sum H b t = Ok (e_ref e, lg)
      /\ iter_level ne b levels_cap (map leaf_entry leaves) = [e]
      /\ (forall p, In p lg <-> In p (map leaf_chunk leaves) \/ In p (spec_log ne np b levels_cap (map leaf_entry leaves))).
  Proof.
    intros [[Hl _] Hlog] Hlen'. unfold trie_sum. change (maxLevel - 1)%nat with levels_cap. rewrite Hl.
    destruct (sum_loop_spec ne np b Hb levels_cap (map leaf_entry leaves) []) as (lg & Hs & Hlg).
    { cbn; lia. } { rewrite app_nil_r, map_length. exact Hlen'. }
    rewrite add_extra_nil, app_nil_r in Hs. rewrite Hs.
    destruct (iter_level_singleton ne b Hb levels_cap (map leaf_entry leaves)) as (e & He).
    { rewrite map_length. exact Hlen'. }
    rewrite He. exists e, (t_log t ++ lg). split; [reflexivity|]. split; [reflexivity|].
    intros p. rewrite app_nil_r in Hlg. rewrite in_app_iff, (Hlog p), <- (Hlg p). tauto.
  Qed.

  Lemma feeder_sum_ok f data cks :
    feeder_inv f data cks -> (Z.of_nat (length data) + Z.of_nat cs + 8 < 2 ^ 63)%Z ->
    (length (chunks_of cs data) <= b ^ levels_cap)%nat ->
    exists e lg, feeder_sum H b refLen f = Ok (e_ref e, lg)
      /\ iter_level ne b levels_cap (map leaf_entry (chunks_of cs data)) = [e]
      /\ (forall p, In p lg <-> In p (map leaf_chunk (chunks_of cs data))
                              \/ In p (spec_log ne np b levels_cap (map leaf_entry (chunks_of cs data)))).
  Proof.
    intros (Hd & Hu & Hbl & Hp & Hw & Hw0 & Hw1) H63 Hcap. unfold feeder_sum.
    assert (Hfin : exists t2, pipe_inv t2 (chunks_of cs data) /\
      (match (if Nat.ltb 0 (length (f_buf f)) then
               match stage_write H b refLen (f_next f) (le64 (N.of_nat (length (f_buf f)))) (le64 (N.of_nat (length (f_buf f))) ++ f_buf f) with
               | Ok t => Ok (t, i64 (f_wrote f + Z.of_nat (length (f_buf f) + 8)))
               | Err x => Err x
               end
             else Ok (f_next f, f_wrote f)) with
       | Err x => Err x
       | Ok (t1, wrote1) =>
           match (if (wrote1 =? 0)%Z then stage_write H b refLen t1 (le64 0) (le64 0) else Ok t1) with
           | Ok t2 => trie_sum H b t2
           | Err x => Err x
           end
       end) = trie_sum H b t2).
    { destruct (f_buf f) as [|x0 buf0] eqn:Ebuf.
      - (* nothing buffered *)
        cbn [length Nat.ltb Nat.leb]. rewrite app_nil_r in Hd.
        destruct (f_wrote f =? 0)%Z eqn:Ez.
        + apply Z.eqb_eq in Ez.
          assert (Hc0 : cks = []).
          { destruct cks as [|c cks']; [reflexivity|]. specialize (Hw1 ltac:(discriminate) eq_refl). lia. }
          subst cks. cbn [concat] in Hd. subst data. cbn [chunks_of].
          destruct (stage_write_ok (f_next f) [] [] Hp) as (t2 & Hs2 & Hp2).
          { cbn [length]. pose proof (pow_ge_1 levels_cap). lia. }
          unfold leaf_chunk in Hs2. cbn [length N.of_nat] in Hs2. rewrite app_nil_r in Hs2.
          exists t2. split; [exact Hp2|]. rewrite Hs2. reflexivity.
        + apply Z.eqb_neq in Ez.
          assert (Hcne : cks <> []) by (intros ->; now apply Ez, Hw0).
          assert (Hdne : data <> []).
          { destruct cks as [|c cks']; [congruence|]. inversion Hu as [|? ? Hc _]; subst.
            destruct c; [cbn in Hc; lia | discriminate]. }
          exists (f_next f). split; [|reflexivity].
          rewrite (chunks_of_nonempty data Hdne). rewrite Hd at 1. rewrite <- (app_nil_r (concat cks)).
          rewrite group_concat by assumption. rewrite group_nil, app_nil_r. exact Hp.
      - (* flush the buffer *)
        rewrite <- Ebuf in *. assert (Hbne : f_buf f <> []) by (rewrite Ebuf; discriminate).
        assert (Hbl0 : (0 < length (f_buf f))%nat) by (rewrite Ebuf; cbn; lia).
        replace (Nat.ltb 0 (length (f_buf f))) with true by (symmetry; apply Nat.ltb_lt; exact Hbl0).
        assert (Hdne : data <> []).
        { rewrite Hd. intros Hx. apply app_eq_nil in Hx as [_ Hx]. contradiction. }
        assert (Hleaves : chunks_of cs data = cks ++ [f_buf f]).
        { rewrite (chunks_of_nonempty data Hdne). rewrite Hd at 1. rewrite group_concat by assumption.
          f_equal. apply group_short. lia. }
        rewrite Hleaves in *. rewrite app_length in Hcap. cbn [length] in Hcap.
        destruct (stage_write_ok (f_next f) cks (f_buf f) Hp ltac:(lia)) as (t1 & Hs1 & Hp1).
        unfold leaf_chunk in Hs1. rewrite Hs1.
        rewrite i64_small by lia.
        replace (f_wrote f + Z.of_nat (length (f_buf f) + 8) =? 0)%Z with false by (symmetry; apply Z.eqb_neq; lia).
        exists t1. split; [exact Hp1 | reflexivity]. }
    destruct Hfin as (t2 & Hp2 & Heq). rewrite Heq.
    apply trie_sum_ok; [exact Hp2|]. split; [|exact Hcap].
    destruct data; cbn [chunks_of length]; [lia|].
    rewrite (group_splitb cs _ Hcs), app_length.
    pose proof (length_splitb cs (n :: data) Hcs) as Hsz.
    destruct (tailb cs (n :: data)); cbn [length] in *; nia.
  Qed.

  Definition tree_emit (ts : list tree) : bytes := tree_chunk H (Node ts).

  (** everything the upload does, against the specification *)
  Theorem upload_spec segs :
    (Z.of_nat (length (concat segs)) + Z.of_nat cs + 8 < 2 ^ 63)%Z ->
    (length (chunks_of cs (concat segs)) <= b ^ levels_cap)%nat ->
    exists u t, upload H cs b refLen segs = Ok u
      /\ spec_tree cs b (concat segs) = Some t
      /\ u_root u = tree_ref H t
      /\ u_rets u = seg_lens segs
      /\ (forall p, In p (u_log u) <->
            In p (map leaf_chunk (chunks_of cs (concat segs)))
            \/ In p (spec_log Node tree_emit b levels_cap (map Leaf (chunks_of cs (concat segs))))).
  Proof.
    intros H63 Hcap. unfold upload.
    pose proof (chunks_of_length_bounds cs Hcs (concat segs)) as Hcb.
    destruct (feed_all_ok segs feeder_init [] [] [] feeder_init_inv) as (f & cks & Hfa & Hi).
    { cbn [app]. lia. } { cbn [app]. lia. }
    cbn [app] in Hfa, Hi. rewrite Hfa.
    destruct (feeder_sum_ok f (concat segs) cks Hi H63 Hcap) as (e & lg & Hs & Hit & Hlg).
    rewrite Hs. set (leaves := chunks_of cs (concat segs)) in *.
    assert (Hm : map leaf_entry leaves = map ent (map Leaf leaves)).
    { rewrite map_map. apply map_ext. intros d. apply leaf_entry_ent. }
    rewrite Hm in Hit. rewrite <- (iter_level_map ent Node ne b ne_ent) in Hit.
    destruct (iter_level Node b levels_cap (map Leaf leaves)) as [|t [|? ?]] eqn:Eit; try discriminate.
    cbn [map] in Hit. injection Hit as He.
    exists (mkU (e_ref e) (seg_lens segs) lg), t. cbn [u_root u_rets u_log].
    split; [reflexivity|]. split.
    { unfold spec_tree. fold leaves. apply (build_iter Node b Hb levels_cap); [lia | exact Eit]. }
    split; [rewrite <- He; reflexivity|]. split; [reflexivity|].
    intros p. rewrite (Hlg p), Hm.
    rewrite (spec_log_map ent Node ne b ne_ent tree_emit np) by (intros l; unfold tree_emit; now rewrite np_ent).
    reflexivity.
  Qed.
End Concrete.
