(** C02 — the buffer-and-cursor hash-trie writer of Cursor.v refines the
    level-list writer of Model.v: whenever the level-list writer succeeds, the
    concrete writer succeeds with the same chunks Put, the same [full] flag and
    a buffer whose cursor-delimited regions encode the same levels. *)
From Coq Require Import List NArith ZArith Bool Lia Arith.
From Coq Require Import ZifyBool ZifyNat ZifyN.
Import ListNotations.
Require Import Aurora.C02.Model Aurora.C02.Proofs Aurora.C02.Cursor Aurora.C02.CursorBuf.
Local Open Scope Z_scope.

Lemma nth_error_pre {A} (pre : list A) x r : nth_error (pre ++ x :: r) (length pre) = Some x.
Proof. induction pre; cbn; auto. Qed.
Lemma nth_error_pre_S {A} (pre : list A) x y r : nth_error (pre ++ x :: y :: r) (S (length pre)) = Some y.
Proof. induction pre; cbn; auto. Qed.
Lemma nth_error_pre_none {A} (pre : list A) x : nth_error (pre ++ [x]) (S (length pre)) = None.
Proof. induction pre; cbn; auto. Qed.
Lemma set_nth_pre (pre : list Z) x r v : set_nth (pre ++ x :: r) (length pre) v = pre ++ v :: r.
Proof. induction pre as [|p pre IH]; cbn; [reflexivity|]. now rewrite IH. Qed.
Lemma set_nth_pre_S (pre : list Z) x y r v : set_nth (pre ++ x :: y :: r) (S (length pre)) v = pre ++ x :: v :: r.
Proof. induction pre as [|p pre IH]; cbn; [reflexivity|]. now rewrite IH. Qed.

Section Refine.
  Variable H : bytes -> bytes.
  Variable b refLen : nat.
  Hypothesis Hlen : forall x, length (H x) = refLen.
  Notation oneRef := (Z.of_nat refLen + 8).
  Notation ne := (node_entry H).
  Notation np := node_payload.

  Definition wfe (e : entry) : Prop := length (e_span e) = 8%nat /\ length (e_ref e) = refLen.
  Definition enc_entry (e : entry) : bytes := e_span e ++ e_ref e.
  Definition enc_level (L : list entry) : bytes := flat_map enc_entry L.

  Lemma enc_level_app L1 L2 : enc_level (L1 ++ L2) = enc_level L1 ++ enc_level L2.
  Proof. apply flat_map_app. Qed.
  Lemma enc_entry_len e : wfe e -> zlen (enc_entry e) = oneRef.
  Proof. intros [H1 H2]. unfold enc_entry, zlen. rewrite app_length. lia. Qed.
  Lemma enc_level_len L : Forall wfe L -> zlen (enc_level L) = oneRef * Z.of_nat (length L).
  Proof.
    induction 1 as [|e L He _ IH]; [cbn; lia|]. cbn [enc_level flat_map length]. rewrite zlen_app.
    fold (enc_level L). rewrite IH, (enc_entry_len e He). lia.
  Qed.
  Lemma wfe_node L : wfe (ne L).
  Proof. split; [apply le64_length | apply Hlen]. Qed.

  (** levels [k..8] against the cursor suffix [c_k; ...; c_8] *)
  Fixpoint RepFrom (buf : bytes) (cs : list Z) (ls : list (list entry)) : Prop :=
    match cs, ls with
    | [], [] => True
    | [c8], [L8] => bread buf 0 c8 = Some (enc_level L8)
    | c :: ((c' :: _) as cs'), L :: ls' => bread buf c' c = Some (enc_level L) /\ RepFrom buf cs' ls'
    | _, _ => False
    end.

  Lemma RepFrom_length buf : forall cs ls, RepFrom buf cs ls -> length cs = length ls.
  Proof.
    induction cs as [|c [|c' cs'] IH]; intros [|L [|L2 ls']] Hr; cbn in *; try contradiction; try reflexivity.
    - destruct Hr as [_ Hr]. destruct cs'; contradiction.
    - destruct Hr as [_ Hr]. specialize (IH (L2 :: ls') Hr). cbn in IH. lia.
  Qed.

  (** the head cursor bounds every region *)
  Lemma RepFrom_bounds buf : forall cs ls, RepFrom buf cs ls -> forall c, hd_error cs = Some c -> 0 <= c <= zlen buf.
  Proof.
    intros [|c0 [|c' cs']] [|L ls'] Hr c Hc; cbn in *; try contradiction; try discriminate; injection Hc as <-.
    - destruct ls'; [|contradiction]. destruct (bread_len _ _ _ _ Hr) as (Hl & H0 & H1). pose proof (zlen_nonneg (enc_level L)). lia.
    - destruct Hr as [Hr _]. destruct (bread_len _ _ _ _ Hr) as (Hl & H0 & H1). pose proof (zlen_nonneg (enc_level L)). lia.
  Qed.

  (** a buffer that agrees below [c] represents the same levels below [c] *)
  Lemma RepFrom_unchanged buf buf' c : (forall lo hi, hi <= c -> bread buf' lo hi = bread buf lo hi) ->
    forall cs ls, RepFrom buf cs ls -> (forall c0, hd_error cs = Some c0 -> c0 <= c) -> RepFrom buf' cs ls.
  Proof.
    intros Hsame. induction cs as [|c0 [|c' cs'] IH]; intros [|L ls'] Hr Hle; cbn in *; try contradiction; try exact I.
    - destruct ls'; [|contradiction]. rewrite Hsame; [exact Hr | apply Hle; reflexivity].
    - destruct Hr as [Hr1 Hr2]. split; [rewrite Hsame; [exact Hr1 | apply Hle; reflexivity]|].
      apply IH; [exact Hr2|]. intros c1 Hc1. cbn in Hc1. injection Hc1 as <-.
      destruct (bread_len _ _ _ _ Hr1) as (Hl & _ & _). pose proof (zlen_nonneg (enc_level L)).
      specialize (Hle c0 eq_refl). lia.
  Qed.

  (** the decoding loop of wrapFullLevel *)
  Lemma wrap_read_ok buf : forall L lo hi k sp hs, Forall wfe L -> bread buf lo hi = Some (enc_level L) ->
    (length L < k)%nat ->
    wrap_read refLen k buf lo hi sp hs
    = Some (fold_left (fun acc e => u64 (acc + le_decode (e_span e))) L sp, hs ++ concat (map e_ref L)).
  Proof.
    induction L as [|e L IH]; intros lo hi k sp hs Hw Hb Hk; (destruct k as [|k]; [cbn in Hk; lia|]); cbn [wrap_read].
    - cbn [enc_level flat_map] in Hb. destruct (bread_len _ _ _ _ Hb) as (Hl & _ & _). cbn in Hl.
      replace (hi <=? lo) with true by (symmetry; apply Z.leb_le; unfold zlen in Hl; cbn in Hl; lia).
      cbn. now rewrite app_nil_r.
    - inversion Hw as [|? ? He Hw']; subst. cbn [enc_level flat_map] in Hb. fold (enc_level L) in Hb.
      destruct (bread_len _ _ _ _ Hb) as (Hl & H0 & H1). rewrite zlen_app, (enc_entry_len e He) in Hl.
      pose proof (zlen_nonneg (enc_level L)).
      replace (hi <=? lo) with false by (symmetry; apply Z.leb_gt; lia).
      destruct (bread_split _ _ _ _ _ Hb) as [He1 Hrest]. rewrite (enc_entry_len e He) in He1, Hrest.
      unfold enc_entry in He1. destruct (bread_split _ _ _ _ _ He1) as [Hs Hr].
      destruct He as [Hs8 Hrl]. unfold zlen in Hs, Hr. rewrite Hs8 in Hs, Hr. cbn in Hs, Hr.
      rewrite Hs, Hr. rewrite (IH (lo + oneRef) hi k _ _ Hw' Hrest ltac:(cbn in Hk; lia)).
      cbn [fold_left map concat]. now rewrite <- app_assoc.
  Qed.

  Lemma wrap_read_node buf L lo hi data : Forall wfe L -> bread buf lo hi = Some data -> data = enc_level L ->
    wrap_read refLen (S (length data)) buf lo hi 0%N [] = Some (sum_spans L, concat (map e_ref L)).
  Proof.
    intros Hw Hb ->. rewrite (wrap_read_ok buf L lo hi _ 0%N [] Hw Hb); [reflexivity|].
    pose proof (enc_level_len L Hw) as Hl. unfold zlen in Hl. nia.
  Qed.

  (** ** writeToLevel *)
  Definition head_of (cs : list Z) : Z := hd 0 cs.

  Lemma cwtl_ref : forall ls cs pre buf full log e fuel lsA lg fl,
    RepFrom buf cs ls -> Forall (Forall wfe) ls -> wfe e ->
    (length pre + length cs = 9)%nat -> (length cs < fuel)%nat ->
    head_of cs + oneRef <= zlen buf ->
    write_to_level ne np b ls e = Ok (lsA, lg, fl) ->
    exists buf' cs',
      cwrite_to_level H b refLen fuel (mkC buf (pre ++ cs) full log) (length pre) (e_span e) (e_ref e)
      = Ok (mkC buf' (pre ++ cs') (full || fl) (log ++ lg))
      /\ length cs' = length cs /\ RepFrom buf' cs' lsA /\ Forall (Forall wfe) lsA
      /\ zlen buf' = zlen buf /\ head_of cs' <= head_of cs + oneRef.
  Proof.
    induction ls as [|L rest IH]; intros cs pre buf full log e fuel lsA lg fl Hrep Hwf He Hlen9 Hfuel Hroom Hab;
      [cbn in Hab; discriminate|].
    destruct cs as [|c cs']; [cbn in Hrep; contradiction|].
    destruct fuel as [|fuel]; [cbn in Hfuel; lia|].
    inversion Hwf as [|? ? HwL Hwrest]; subst.
    cbn [write_to_level] in Hab. cbn [cwrite_to_level]. unfold cur. cbn [c_cur c_buf c_full c_log].
    rewrite nth_error_pre. cbn [head_of hd] in Hroom.
    (* the region of this level *)
    set (lo := match cs' with [] => 0 | c' :: _ => c' end).
    assert (Hreg : bread buf lo c = Some (enc_level L) /\ RepFrom buf cs' rest
                   /\ (forall c0, hd_error cs' = Some c0 -> c0 <= c)).
    { destruct cs' as [|c' cs'']; cbn [RepFrom] in Hrep.
      - destruct rest; [|contradiction]. split; [exact Hrep|]. split; [exact I|]. intros c0 Hc0; discriminate.
      - destruct Hrep as [Hr1 Hr2]. split; [exact Hr1|]. split; [exact Hr2|]. intros c0 Hc0. injection Hc0 as <-.
        destruct (bread_len _ _ _ _ Hr1) as (Hl & _ & _). pose proof (zlen_nonneg (enc_level L)). lia. }
    destruct Hreg as (Hreg & Hrest & Hle).
    destruct (bread_len _ _ _ _ Hreg) as (HlenL & Hlo0 & Hchi). pose proof (zlen_nonneg (enc_level L)) as HnnL.
    destruct He as [Hs8 Hrl].
    assert (Hzs : zlen (e_span e) = 8) by (unfold zlen; lia).
    assert (Hzr : zlen (e_ref e) = Z.of_nat refLen) by (unfold zlen; lia).
    destruct (bwrite_ok buf c (e_span e) ltac:(lia) ltac:(lia)) as (b1 & Hw1 & Hz1 & Hr1 & Hbelow1 & _).
    rewrite Hw1.
    destruct (bwrite_ok b1 (c + zlen (e_span e)) (e_ref e) ltac:(lia) ltac:(lia)) as (b2 & Hw2 & Hz2 & Hr2 & Hbelow2 & _).
    rewrite Hw2. rewrite set_nth_pre.
    (* the level now holds L ++ [e] *)
    assert (Hreg2 : bread b2 lo (c + oneRef) = Some (enc_level (L ++ [e]))).
    { rewrite enc_level_app. cbn [enc_level flat_map]. rewrite app_nil_r. unfold enc_entry.
      apply (bread_join b2 lo c); [rewrite Hbelow2 by lia; rewrite Hbelow1 by lia; exact Hreg|].
      apply (bread_join b2 c (c + zlen (e_span e))); [rewrite Hbelow2 by lia; exact Hr1|].
      replace (c + oneRef) with (c + zlen (e_span e) + zlen (e_ref e)) by lia. exact Hr2. }
    assert (Hrest2 : RepFrom b2 cs' rest).
    { apply (RepFrom_unchanged buf b2 c); [intros; rewrite Hbelow2 by lia; apply Hbelow1; lia | exact Hrest | exact Hle]. }
    assert (HwL' : Forall wfe (L ++ [e])) by (apply Forall_app; split; [exact HwL | constructor; [now split | constructor]]).
    pose proof (enc_level_len _ HwL') as HlenL'. rewrite app_length in HlenL'. cbn [length] in HlenL'.
    destruct (bread_len _ _ _ _ Hreg2) as (HlenR2 & _ & _).
    (* levelSize *)
    assert (Hls : level_size (mkC b2 (pre ++ (c + zlen (e_span e) + zlen (e_ref e)) :: cs') full log) (length pre)
                  = Some (oneRef * Z.of_nat (length L + 1))).
    { unfold level_size, cur. cbn [c_cur]. destruct cs' as [|c' cs''].
      - cbn [length] in Hlen9. replace (Nat.eqb (length pre) 8) with true by (symmetry; apply Nat.eqb_eq; lia).
        replace 8%nat with (length pre) by lia. rewrite nth_error_pre. f_equal. subst lo. lia.
      - cbn [length] in Hlen9. replace (Nat.eqb (length pre) 8) with false by (symmetry; apply Nat.eqb_neq; lia).
        rewrite nth_error_pre, nth_error_pre_S. f_equal. subst lo. lia. }
    rewrite Hls. rewrite app_length in Hab. cbn [length] in Hab.
    assert (Hcmp : (oneRef * Z.of_nat (length L + 1) =? oneRef * Z.of_nat b) = Nat.eqb (length L + 1) b).
    { destruct (Nat.eqb (length L + 1) b) eqn:E.
      - apply Nat.eqb_eq in E. apply Z.eqb_eq. rewrite E. reflexivity.
      - apply Nat.eqb_neq in E. apply Z.eqb_neq. nia. }
    rewrite Hcmp. destruct (Nat.eqb (length L + 1) b) eqn:Eb.
    - (* wrapFullLevel *)
      destruct rest as [|L2 r2]; [discriminate|].
      destruct cs' as [|c' cs'']; [cbn in Hrest2; contradiction|].
      destruct (write_to_level ne np b (L2 :: r2) (ne (L ++ [e]))) as [[[rest' lg'] fl']|] eqn:Eab; [|discriminate].
      injection Hab as <- <- <-.
      unfold cur. cbn [c_cur c_buf c_full c_log]. rewrite nth_error_pre_S, nth_error_pre.
      subst lo. replace (c + zlen (e_span e) + zlen (e_ref e)) with (c + oneRef) by lia.
      rewrite Hreg2.
      rewrite (wrap_read_node b2 (L ++ [e]) c' (c + oneRef) _ HwL' Hreg2 eq_refl).
      fold (np (L ++ [e])).
      assert (Hpre' : pre ++ (c + oneRef) :: c' :: cs'' = (pre ++ [c + oneRef]) ++ c' :: cs'') by (now rewrite <- app_assoc).
      rewrite Hpre'. replace (S (length pre)) with (length (pre ++ [c + oneRef])) by (rewrite app_length; cbn; lia).
      cbn [length] in Hlen9, Hfuel.
      destruct (IH (c' :: cs'') (pre ++ [c + oneRef]) b2 full (log ++ [np (L ++ [e])]) (ne (L ++ [e])) fuel rest' lg' fl'
                  Hrest2 Hwrest (wfe_node _)) as (b3 & cs3 & Hc3 & Hl3 & Hrep3 & Hwf3 & Hz3 & Hhd3).
      { rewrite app_length. cbn [length]. lia. } { cbn [length]. lia. }
      { cbn [head_of hd]. specialize (Hle c' eq_refl). lia. } { exact Eab. }
      cbn [e_span e_ref node_entry] in Hc3. unfold bytes in Hc3 |- *. rewrite Hc3.
      destruct cs3 as [|cn cs3']; [cbn in Hl3; discriminate|].
      unfold cur. cbn [c_cur c_buf c_full c_log].
      rewrite nth_error_pre. rewrite <- app_assoc. cbn [app]. rewrite set_nth_pre.
      exists b3, (cn :: cn :: cs3'). split.
      { assert (Hlr : length (L2 :: r2) = length (c' :: cs'')) by (symmetry; exact (RepFrom_length _ _ _ Hrest2)).
        cbn [length] in Hlr.
        assert (Hflag : (full || fl' || Nat.eqb (length (pre ++ [c + oneRef])) 8) = (full || (fl' || Nat.eqb (length r2) 0))).
        { rewrite <- orb_assoc. f_equal. f_equal. rewrite app_length. cbn [length].
          destruct (Nat.eqb_spec (length pre + 1) 8), (Nat.eqb_spec (length r2) 0); try reflexivity; lia. }
        rewrite Hflag. rewrite <- app_assoc. reflexivity. }
      pose proof (RepFrom_bounds b3 _ _ Hrep3 cn eq_refl) as Hcn.
      split; [cbn [length] in *; lia|]. split.
      { cbn [RepFrom]. split; [apply bread_empty; exact Hcn | exact Hrep3]. }
      split; [constructor; [constructor | exact Hwf3]|]. split; [lia|].
      cbn [head_of hd] in *. specialize (Hle c' eq_refl). lia.
    - (* no wrap *)
      injection Hab as <- <- <-. exists b2, ((c + oneRef) :: cs').
      replace (c + zlen (e_span e) + zlen (e_ref e)) with (c + oneRef) by lia.
      rewrite orb_false_r, app_nil_r. split; [reflexivity|]. split; [reflexivity|]. split.
      { destruct cs' as [|c' cs'']; cbn [RepFrom].
        - destruct rest; [|cbn in Hrest2; contradiction]. subst lo. exact Hreg2.
        - subst lo. split; [exact Hreg2 | exact Hrest2]. }
      split; [constructor; assumption|]. split; [lia|]. cbn [head_of hd]. lia.
  Qed.

  (** ** Sum *)
  Lemma zrem_mul k : Z.rem (oneRef * k) oneRef = 0.
  Proof. rewrite Z.mul_comm. apply Z.rem_mul. lia. Qed.

  Lemma cmp_len (n m : nat) : (oneRef * Z.of_nat n =? oneRef * Z.of_nat m) = Nat.eqb n m.
  Proof.
    destruct (Nat.eqb n m) eqn:E.
    - apply Nat.eqb_eq in E. subst. apply Z.eqb_refl.
    - apply Nat.eqb_neq in E. apply Z.eqb_neq. nia.
  Qed.

  Lemma cwrap_ref L L2 r2 c c' cs'' pre buf full log ls' lg fl :
    bread buf c' c = Some (enc_level L) -> (1 <= length L)%nat -> Forall wfe L ->
    RepFrom buf (c' :: cs'') (L2 :: r2) -> Forall (Forall wfe) (L2 :: r2) ->
    (length pre + length (c :: c' :: cs'') = 9)%nat ->
    wrap_level ne np b L (L2 :: r2) = Ok (ls', lg, fl) ->
    exists buf3 cn cs3 full3 rest',
      cwrap_full_level H b refLen (mkC buf (pre ++ c :: c' :: cs'') full log) (length pre)
      = Ok (mkC buf3 (pre ++ cn :: cn :: cs3) full3 (log ++ lg))
      /\ ls' = [] :: rest' /\ RepFrom buf3 (cn :: cs3) rest' /\ Forall (Forall wfe) rest'
      /\ length (cn :: cs3) = length (c' :: cs'').
  Proof.
    intros HregL HL1 HwL Hrest Hwrest Hlen9 Hab. unfold wrap_level in Hab.
    destruct (write_to_level ne np b (L2 :: r2) (ne L)) as [[[rest' lg'] fl']|] eqn:Eab; [|discriminate].
    injection Hab as <- <- <-.
    unfold cwrap_full_level, cur. cbn [c_cur c_buf c_full c_log].
    rewrite nth_error_pre_S, nth_error_pre, HregL.
    rewrite (wrap_read_node buf L c' c _ HwL HregL eq_refl).
    assert (Hpre' : pre ++ c :: c' :: cs'' = (pre ++ [c]) ++ c' :: cs'') by (now rewrite <- app_assoc).
    rewrite Hpre'. replace (S (length pre)) with (length (pre ++ [c])) by (rewrite app_length; cbn; lia).
    destruct (bread_len _ _ _ _ HregL) as (HlenL & Hc'0 & Hcz). rewrite (enc_level_len L HwL) in HlenL.
    cbn [length] in Hlen9.
    destruct (cwtl_ref (L2 :: r2) (c' :: cs'') (pre ++ [c]) buf full (log ++ [np L]) (ne L) 10 rest' lg' fl'
                Hrest Hwrest (wfe_node _)) as (b3 & cs3 & Hc3 & Hl3 & Hrep3 & Hwf3 & Hz3 & _).
    { rewrite app_length. cbn [length]. lia. } { cbn [length]. lia. }
    { cbn [head_of hd]. nia. } { exact Eab. }
    cbn [e_span e_ref node_entry] in Hc3. unfold node_payload, bytes in Hc3 |- *. rewrite Hc3.
    destruct cs3 as [|cn cs3']; [cbn in Hl3; discriminate|].
    unfold cur. cbn [c_cur c_buf c_full c_log]. rewrite nth_error_pre. rewrite <- app_assoc. cbn [app]. rewrite set_nth_pre.
    exists b3, cn, cs3', (full || fl' || Nat.eqb (length (pre ++ [c])) 8), rest'.
    split; [rewrite <- app_assoc; reflexivity|]. split; [reflexivity|]. split; [exact Hrep3|]. split; [exact Hwf3 | exact Hl3].
  Qed.

  Lemma csum_ref : forall n ls cs pre buf full log top lg,
    RepFrom buf cs ls -> Forall (Forall wfe) ls ->
    (length pre + length cs = 9)%nat -> (n < length cs)%nat ->
    sum_loop ne np b n ls = Ok (top, lg) ->
    exists buf' pre' cs' full',
      csum_loop H b refLen n (mkC buf (pre ++ cs) full log) (length pre)
      = Ok (mkC buf' (pre' ++ cs') full' (log ++ lg))
      /\ length pre' = (length pre + n)%nat /\ (length pre' + length cs' = 9)%nat
      /\ RepFrom buf' cs' top /\ Forall (Forall wfe) top.
  Proof.
    induction n as [|n IH]; intros ls cs pre buf full log top lg Hrep Hwf Hlen9 Hn Hab.
    - cbn in Hab. injection Hab as <- <-. exists buf, pre, cs, full. cbn [csum_loop]. rewrite app_nil_r, Nat.add_0_r.
      repeat split; assumption.
    - cbn [sum_loop] in Hab. destruct ls as [|L [|L2 r2]]; try discriminate.
      destruct cs as [|c [|c' cs'']]; try (cbn in Hrep; contradiction).
      cbn [RepFrom] in Hrep. destruct Hrep as [HregL Hrest].
      inversion Hwf as [|? ? HwL Hwrest]; subst.
      cbn [length] in Hlen9, Hn.
      destruct (bread_len _ _ _ _ HregL) as (HlenL & Hc'0 & Hcz). rewrite (enc_level_len L HwL) in HlenL.
      cbn [csum_loop]. unfold level_size, cur. cbn [c_cur].
      replace (Nat.eqb (length pre) 8) with false by (symmetry; apply Nat.eqb_neq; lia).
      rewrite nth_error_pre, nth_error_pre_S.
      replace (c - c') with (oneRef * Z.of_nat (length L)) by lia.
      rewrite zrem_mul, Z.eqb_refl. cbn [negb].
      replace (oneRef * Z.of_nat (length L) =? 0) with (Nat.eqb (length L) 0)
        by (rewrite <- (cmp_len (length L) 0); f_equal; lia).
      assert (Hpre1 : forall x r, pre ++ c :: x :: r = (pre ++ [c]) ++ x :: r) by (intros; now rewrite <- app_assoc).
      destruct (Nat.eqb (length L) 0) eqn:E0.
      + (* empty level *)
        rewrite Hpre1. replace (S (length pre)) with (length (pre ++ [c])) by (rewrite app_length; cbn; lia).
        destruct (IH (L2 :: r2) (c' :: cs'') (pre ++ [c]) buf full log top lg Hrest Hwrest) as (buf' & pre' & cs' & full' & Hs & Hl1 & Hl2 & Hr & Hw).
        { rewrite app_length. cbn [length]. lia. } { cbn [length]. lia. } { exact Hab. }
        exists buf', pre', cs', full'. split; [exact Hs|]. rewrite app_length in Hl1. cbn [length] in Hl1.
        repeat split; try assumption; lia.
      + rewrite cmp_len.
        replace (oneRef * Z.of_nat (length L) =? oneRef) with (Nat.eqb (length L) 1)
          by (rewrite <- (cmp_len (length L) 1); f_equal; lia).
        destruct (Nat.eqb (length L) b) eqn:Eb; cbn [negb andb] in Hab |- *.
        * (* full level: wrap *)
          assert (HLge : (1 <= length L)%nat) by (apply Nat.eqb_neq in E0; lia).
          destruct (wrap_level ne np b L (L2 :: r2)) as [[[ls' lgw] flw]|] eqn:Ew; [|discriminate].
          destruct (cwrap_ref L L2 r2 c c' cs'' pre buf full log ls' lgw flw HregL HLge HwL Hrest Hwrest ltac:(cbn [length]; lia) Ew)
            as (buf3 & cn & cs3 & full3 & rest' & Hcw & -> & Hrep3 & Hwf3 & Hl3).
          rewrite Hcw. cbn [tl] in Hab.
          destruct (sum_loop ne np b n rest') as [[top' lg']|] eqn:Es; [|discriminate]. injection Hab as <- <-.
          assert (Hpre2 : pre ++ cn :: cn :: cs3 = (pre ++ [cn]) ++ cn :: cs3) by (now rewrite <- app_assoc).
          rewrite Hpre2. replace (S (length pre)) with (length (pre ++ [cn])) by (rewrite app_length; cbn; lia).
          cbn [length] in Hl3.
          destruct (IH rest' (cn :: cs3) (pre ++ [cn]) buf3 full3 (log ++ lgw) top' lg' Hrep3 Hwf3) as (buf' & pre' & cs' & full' & Hs & Hl1 & Hl2 & Hr & Hw).
          { rewrite app_length. cbn [length]. lia. } { cbn [length]. lia. } { exact Es. }
          exists buf', pre', cs', full'. rewrite <- (app_assoc log) in Hs. split; [exact Hs|]. rewrite app_length in Hl1. cbn [length] in Hl1.
          repeat split; try assumption; lia.
        * destruct (Nat.eqb (length L) 1) eqn:E1.
          -- (* carry-over: h.cursors[i+1] = h.cursors[i] *)
             unfold set_cur. cbn [c_buf c_cur c_full c_log]. rewrite set_nth_pre_S.
             rewrite Hpre1. replace (S (length pre)) with (length (pre ++ [c])) by (rewrite app_length; cbn; lia).
             destruct (IH ((L2 ++ L) :: r2) (c :: cs'') (pre ++ [c]) buf full log top lg) as (buf' & pre' & cs' & full' & Hs & Hl1 & Hl2 & Hr & Hw).
             { destruct cs'' as [|c'' cs3]; cbn [RepFrom] in Hrest |- *.
               - destruct r2; [|contradiction]. rewrite enc_level_app. exact (bread_join _ _ _ _ _ _ Hrest HregL).
               - destruct Hrest as [Hr2 Hr3]. split; [|exact Hr3]. rewrite enc_level_app. exact (bread_join _ _ _ _ _ _ Hr2 HregL). }
             { inversion Hwrest; subst. constructor; [apply Forall_app; split; assumption | assumption]. }
             { rewrite app_length. cbn [length]. lia. } { cbn [length]. lia. } { exact Hab. }
             exists buf', pre', cs', full'. split; [exact Hs|]. rewrite app_length in Hl1. cbn [length] in Hl1.
             repeat split; try assumption; lia.
          -- (* partial level: wrap *)
             assert (HLge : (1 <= length L)%nat) by (apply Nat.eqb_neq in E0; lia).
             destruct (wrap_level ne np b L (L2 :: r2)) as [[[ls' lgw] flw]|] eqn:Ew; [|discriminate].
             destruct (cwrap_ref L L2 r2 c c' cs'' pre buf full log ls' lgw flw HregL HLge HwL Hrest Hwrest ltac:(cbn [length]; lia) Ew)
               as (buf3 & cn & cs3 & full3 & rest' & Hcw & -> & Hrep3 & Hwf3 & Hl3).
             rewrite Hcw. cbn [tl] in Hab.
             destruct (sum_loop ne np b n rest') as [[top' lg']|] eqn:Es; [|discriminate]. injection Hab as <- <-.
             assert (Hpre2 : pre ++ cn :: cn :: cs3 = (pre ++ [cn]) ++ cn :: cs3) by (now rewrite <- app_assoc).
             rewrite Hpre2. replace (S (length pre)) with (length (pre ++ [cn])) by (rewrite app_length; cbn; lia).
             cbn [length] in Hl3.
             destruct (IH rest' (cn :: cs3) (pre ++ [cn]) buf3 full3 (log ++ lgw) top' lg' Hrep3 Hwf3) as (buf' & pre' & cs' & full' & Hs & Hl1 & Hl2 & Hr & Hw).
             { rewrite app_length. cbn [length]. lia. } { cbn [length]. lia. } { exact Es. }
             exists buf', pre', cs', full'. rewrite <- (app_assoc log) in Hs. split; [exact Hs|]. rewrite app_length in Hl1. cbn [length] in Hl1.
             repeat split; try assumption; lia.
  Qed.
End Refine.
