(** C02 — model of the upload pipeline
      pkg/file/pipeline/feeder/feeder.go      (chunkFeeder.Write / Sum)
      pkg/file/pipeline/bmt/bmt.go + store/store.go (one "stage": hash, Put, forward)
      pkg/file/pipeline/hashtrie/hashtrie.go  (ChainWrite / writeToLevel / wrapFullLevel / Sum)
    Definitions only.

    Abstraction level of the hash-trie writer: the code keeps all levels in one
    byte buffer delimited by nine cursors; here a level is the list of
    [(span bytes, reference)] entries that lie between its two cursors.  The
    operations are transcribed one-to-one on that view:
      - [writeToLevel]   appends one entry and wraps the level when it holds
                         [branching] entries,
      - [wrapFullLevel]  decodes and sums the spans (uint64), concatenates the
                         references, hands [span ++ refs] to the short pipeline
                         (hash + Put), writes the result one level up, empties
                         the level, sets [full] when level 8 was written,
      - [Sum]            for levels 1..7: skip / wrap / carry-over by cursor
                         merge (the entry is appended to the level above) / wrap,
                         then level 8 must hold exactly one entry.
    Accesses beyond the ninth cursor are explicit [EPanic] outcomes.

    The hash of a chunk ([bmt] stage: BMT over [data[8:]] keyed by [data[:8]])
    is the abstract function [H : bytes -> bytes] applied to the whole
    [span ++ payload] string; it is a [Section] variable.  *)
From Coq Require Import List NArith ZArith Bool Arith.
Import ListNotations.

Definition bytes := list N.

(** [binary.LittleEndian.PutUint64(b, uint64(n))]: the eight low-order bytes *)
Fixpoint le_bytes (k : nat) (n : N) : bytes :=
  match k with O => [] | S k' => (n mod 256)%N :: le_bytes k' (n / 256)%N end.
Definition le64 (n : N) : bytes := le_bytes 8 n.
(** [binary.LittleEndian.Uint64] *)
Fixpoint le_decode (l : bytes) : N :=
  match l with [] => 0%N | x :: t => (x + 256 * le_decode t)%N end.
Definition u64 (n : N) : N := (n mod 18446744073709551616)%N.       (* 2^64 *)
(** int64 wrap-around *)
Definition i64 (z : Z) : Z :=                                   (* 2^63, 2^64 *)
  if ((-9223372036854775808 <=? z) && (z <? 9223372036854775808))%Z then z
  else ((z + 9223372036854775808) mod 18446744073709551616 - 9223372036854775808)%Z.

Inductive err :=
| EInconsistentRefs   (* hashtrie.errInconsistentRefs *)
| ETrieFull           (* hashtrie.errTrieFull *)
| EInvalidData        (* bmt.errInvalidData *)
| EUnmodelled         (* entry whose length is a multiple of, but not equal to, refSize+8: outside the level-list view *)
| EPanic              (* index out of range (tenth cursor) *)
| EHang.              (* feeder loop that makes no progress (chunk size 0) *)

Inductive res (A : Type) := Ok (a : A) | Err (e : err).
Arguments Ok {A} a. Arguments Err {A} e.

(** * The level machinery, generic in the entry type.

    [E] entries, [node g] the entry written one level up when the group [g] is
    wrapped, [emit g] the chunk handed to the short pipeline ([Put]) for it. *)
Section Levels.
  Context {E P : Type}.
  Variable node : list E -> E.
  Variable emit : list E -> P.
  Variable b : nat.                       (* h.branching *)

  (** result of a write: new levels (from the written level upwards), chunks
      emitted in order, whether [h.full] was set *)
  Definition wres := res (list (list E) * list P * bool).

  (** [writeToLevel(level, e)] on the suffix [ls] of levels starting at [level];
      [wrapFullLevel] is inlined (it is the [if] branch). *)
  Fixpoint write_to_level (ls : list (list E)) (e : E) {struct ls} : wres :=
    match ls with
    | [] => Err EPanic                                    (* h.cursors[9] *)
    | L :: rest =>
        let L' := L ++ [e] in
        if Nat.eqb (length L') b then
          match rest with
          | [] => Err EPanic                              (* wrapFullLevel(8): h.cursors[level+1] *)
          | _ :: _ =>
              match write_to_level rest (node L') with
              | Ok (rest', lg, fl) => Ok ([] :: rest', emit L' :: lg, fl || Nat.eqb (length rest) 1)
              | Err x => Err x
              end
          end
        else Ok (L' :: rest, [], false)
    end.

  (** [wrapFullLevel(level)] called from [Sum] on a level holding [L] *)
  Definition wrap_level (L : list E) (rest : list (list E)) : wres :=
    match rest with
    | [] => Err EPanic
    | _ :: _ =>
        match write_to_level rest (node L) with
        | Ok (rest', lg, fl) => Ok ([] :: rest', emit L :: lg, fl || Nat.eqb (length rest) 1)
        | Err x => Err x
        end
    end.

  (** the [for i := 1; i < maxLevel; i++] loop of [Sum]: [n] iterations left,
      [ls] = levels from [i] upwards.  Returns the levels from [maxLevel]
      upwards and the chunks emitted. *)
  Fixpoint sum_loop (n : nat) (ls : list (list E)) {struct n} : res (list (list E) * list P) :=
    match n with
    | O => Ok (ls, [])
    | S n' =>
        match ls with
        | L :: ((L2 :: r2) as rest) =>
            let l := length L in
            if Nat.eqb l 0 then sum_loop n' rest
            else if negb (Nat.eqb l b) && Nat.eqb l 1 then
              sum_loop n' ((L2 ++ L) :: r2)               (* h.cursors[i+1] = h.cursors[i] *)
            else
              match wrap_level L rest with
              | Ok (ls', lg, _) =>
                  match sum_loop n' (tl ls') with
                  | Ok (top, lg') => Ok (top, lg ++ lg')
                  | Err x => Err x
                  end
              | Err x => Err x
              end
        | _ => Err EPanic
        end
    end.
End Levels.

(** * The concrete pipeline *)
Section Pipeline.
  Variable H : bytes -> bytes.            (* chunk hash: span-prefixed chunk data -> reference *)
  Variable cs : nat.                      (* chunk size (feeder size, boson.ChunkSize) *)
  Variable b : nat.                       (* branching *)
  Variable refLen : nat.                  (* h.refSize *)

  (** one entry of a level: the 8 span bytes and the reference as they lie in the buffer *)
  Record entry := mkE { e_span : bytes; e_ref : bytes }.

  Definition sum_spans (L : list entry) : N :=
    fold_left (fun acc e => u64 (acc + le_decode (e_span e))) L 0%N.
  (** [hashes = append(spb, hashes...)] *)
  Definition node_payload (L : list entry) : bytes :=
    le64 (sum_spans L) ++ concat (map e_ref L).
  (** short pipeline: [args.Span = spb], [args.Ref = H(args.Data)] *)
  Definition node_entry (L : list entry) : entry :=
    mkE (le64 (sum_spans L)) (H (node_payload L)).

  Definition maxLevel : nat := 8.

  Record trie := mkT {
    t_levels : list (list entry);         (* index 0 = level 1 ... index 7 = level 8 *)
    t_full : bool;
    t_log : list bytes                    (* chunk data passed to storage.Putter.Put, oldest first *)
  }.
  Definition trie_init : trie := mkT (repeat [] maxLevel) false [].

  (** [hashTrieWriter.ChainWrite] *)
  Definition trie_chain_write (t : trie) (span ref : bytes) : res trie :=
    let l := (length span + length ref)%nat in
    if negb (Nat.eqb (l mod (refLen + 8)) 0) then Err EInconsistentRefs
    else if t_full t then Err ETrieFull
    else if negb (Nat.eqb l (refLen + 8)) then Err EUnmodelled
    else
      match write_to_level node_entry node_payload b (t_levels t) (mkE span ref) with
      | Ok (ls, lg, fl) => Ok (mkT ls (t_full t || fl) (t_log t ++ lg))
      | Err x => Err x
      end.

  (** [hashTrieWriter.Sum] *)
  Definition trie_sum (t : trie) : res (bytes * list bytes) :=
    match sum_loop node_entry node_payload b (maxLevel - 1) (t_levels t) with
    | Ok (top, lg) =>
        match top with
        | [e] :: _ => Ok (e_ref e, t_log t ++ lg)        (* levelSize(8) == oneRef; data[8:] *)
        | [] => Err EPanic
        | _ :: _ => Err EInconsistentRefs
        end
    | Err x => Err x
    end.

  (** bmtWriter.ChainWrite ; storeWriter.ChainWrite ; next.ChainWrite *)
  Definition stage_write (t : trie) (span data : bytes) : res trie :=
    if Nat.ltb (length data) 8 then Err EInvalidData
    else trie_chain_write (mkT (t_levels t) (t_full t) (t_log t ++ [data])) span (H data).

  Record feeder := mkF { f_buf : bytes (* f.buffer[:f.bufferIdx] *); f_wrote : Z; f_next : trie }.
  Definition feeder_init : feeder := mkF [] 0%Z trie_init.

  (** the [for i := 0; i < len(b);] loop of [Write].  [dpre] = content of
      [d[span:span+sp]] (the bytes taken over from the buffer in the first
      iteration), [buf] = current [f.buffer[:f.bufferIdx]], [rest] = [b[i:]],
      [w] = the running count.  Returns [(early, buf, w, next)]. *)
  Fixpoint feed_loop (fuel : nat) (dpre buf rest : bytes) (w : Z) (t : trie) {struct fuel}
    : res (bool * bytes * Z * trie) :=
    match rest with
    | [] => Ok (false, buf, w, t)
    | _ :: _ =>
        match fuel with
        | O => Err EHang
        | S fuel' =>
            if Nat.ltb (length dpre + length rest) cs then
              Ok (true, rest, (w + Z.of_nat (length rest))%Z, t)      (* copy(f.buffer, b[i:]); return w + n *)
            else
              let n := Nat.min (cs - length buf) (length rest) in   (* copy(d[span+f.bufferIdx:], b[i:]) *)
              let payload := dpre ++ firstn n rest in
              let sp := N.of_nat (length payload) in
              match stage_write t (le64 sp) (le64 sp ++ payload) with
              | Ok t' => feed_loop fuel' [] [] (skipn n rest) (w + Z.of_N sp)%Z t'
              | Err x => Err x
              end
        end
    end.

  (** [chunkFeeder.Write]: new state and the returned count *)
  Definition feeder_write (f : feeder) (bs : bytes) : res (feeder * Z) :=
    if Nat.ltb (length bs + length (f_buf f)) cs then
      Ok (mkF (f_buf f ++ bs) (f_wrote f) (f_next f), Z.of_nat (length bs))
    else
      let sp := Z.of_nat (length (f_buf f)) in
      let w := if (0 <? sp)%Z then (- sp)%Z else 0%Z in
      match feed_loop (S (length bs)) (f_buf f) (f_buf f) bs w (f_next f) with
      | Ok (true, buf, ret, t) => Ok (mkF buf (f_wrote f) t, ret)      (* early return: [wrote] not updated *)
      | Ok (false, buf, ret, t) => Ok (mkF buf (i64 (f_wrote f + ret)) t, ret)
      | Err x => Err x
      end.

  (** [chunkFeeder.Sum]: root reference and everything that was Put *)
  Definition feeder_sum (f : feeder) : res (bytes * list bytes) :=
    let r1 :=
      if Nat.ltb 0 (length (f_buf f)) then
        let sp := N.of_nat (length (f_buf f)) in
        match stage_write (f_next f) (le64 sp) (le64 sp ++ f_buf f) with
        | Ok t => Ok (t, i64 (f_wrote f + Z.of_nat (length (f_buf f) + 8)))
        | Err x => Err x
        end
      else Ok (f_next f, f_wrote f) in
    match r1 with
    | Err x => Err x
    | Ok (t1, wrote1) =>
        let r2 :=
          if (wrote1 =? 0)%Z then stage_write t1 (le64 0) (le64 0)   (* span of an empty file *)
          else Ok t1 in
        match r2 with
        | Ok t2 => trie_sum t2
        | Err x => Err x
        end
    end.

  (** a sequence of [Write] calls followed by [Sum] *)
  Fixpoint feed_all (f : feeder) (segs : list bytes) (rets : list Z) : res (feeder * list Z) :=
    match segs with
    | [] => Ok (f, rets)
    | s :: segs' =>
        match feeder_write f s with
        | Ok (f', r) => feed_all f' segs' (rets ++ [r])
        | Err x => Err x
        end
    end.

  Record upload_result := mkU { u_root : bytes; u_rets : list Z; u_log : list bytes }.
  Definition upload (segs : list bytes) : res upload_result :=
    match feed_all feeder_init segs [] with
    | Ok (f, rets) =>
        match feeder_sum f with
        | Ok (root, lg) => Ok (mkU root rets lg)
        | Err x => Err x
        end
    | Err x => Err x
    end.
End Pipeline.
