(** C02 — whenever the level-list pipeline of Model.v succeeds, the pipeline over
    the buffer-and-cursor writer ([cupload]) returns the same result, provided
    the shared buffer has room for eight full levels. *)
From Coq Require Import List NArith ZArith Bool Lia Arith.
From Coq Require Import ZifyBool ZifyNat ZifyN.
Import ListNotations.
Require Import Aurora.C02.Model Aurora.C02.Proofs Aurora.C02.Cursor Aurora.C02.CursorBuf Aurora.C02.CursorProofs Aurora.C02.CursorPipe.
Local Open Scope Z_scope.

(** * the generic feeder: two writers that simulate each other give the same upload *)
Section GSim.
  Variable H : bytes -> bytes.
  Variable cs refLen : nat.
  Hypothesis Hlen : forall x, length (H x) = refLen.
  Variables T1 T2 : Type.
  Variable put1 : T1 -> bytes -> T1.  Variable cw1 : T1 -> bytes -> bytes -> res T1.  Variable sm1 : T1 -> res (bytes * list bytes).
  Variable put2 : T2 -> bytes -> T2.  Variable cw2 : T2 -> bytes -> bytes -> res T2.  Variable sm2 : T2 -> res (bytes * list bytes).
  Variable Rel : T1 -> T2 -> Prop.
  Hypothesis Hput : forall t1 t2 d, Rel t1 t2 -> Rel (put1 t1 d) (put2 t2 d).
  Hypothesis Hcw : forall t1 t2 span ref t2', Rel t1 t2 -> length span = 8%nat -> length ref = refLen ->
    cw2 t2 span ref = Ok t2' -> exists t1', cw1 t1 span ref = Ok t1' /\ Rel t1' t2'.
  Hypothesis Hsm : forall t1 t2 r, Rel t1 t2 -> sm2 t2 = Ok r -> sm1 t1 = Ok r.

  Notation st1 := (gstage_write H T1 put1 cw1).
  Notation st2 := (gstage_write H T2 put2 cw2).

  Lemma gstage_sim t1 t2 sp data t2' : Rel t1 t2 -> st2 t2 (le64 sp) data = Ok t2' ->
    exists t1', st1 t1 (le64 sp) data = Ok t1' /\ Rel t1' t2'.
  Proof.
    unfold gstage_write. intros HR Hs. destruct (Nat.ltb (length data) 8); [discriminate|].
    exact (Hcw _ _ _ _ _ (Hput _ _ data HR) (le64_length sp) (Hlen data) Hs).
  Qed.

  Lemma gfeed_loop_sim : forall fuel dpre buf rest w t1 t2 r2 buf' w' t2',
    Rel t1 t2 -> gfeed_loop H cs T2 put2 cw2 fuel dpre buf rest w t2 = Ok (r2, buf', w', t2') ->
    exists t1', gfeed_loop H cs T1 put1 cw1 fuel dpre buf rest w t1 = Ok (r2, buf', w', t1') /\ Rel t1' t2'.
  Proof.
    induction fuel as [|fuel IH]; intros dpre buf rest w t1 t2 r2 buf' w' t2' HR Hl; destruct rest as [|x rest'].
    - cbn in Hl |- *. injection Hl as <- <- <- <-. now exists t1.
    - cbn in Hl. discriminate.
    - cbn in Hl |- *. injection Hl as <- <- <- <-. now exists t1.
    - cbn [gfeed_loop] in Hl |- *. destruct (Nat.ltb _ cs).
      + injection Hl as <- <- <- <-. now exists t1.
      + destruct (st2 t2 _ _) as [t2m|] eqn:Es; [|discriminate].
        destruct (gstage_sim _ _ _ _ _ HR Es) as (t1m & Hs1 & HRm). rewrite Hs1. exact (IH _ _ _ _ _ _ _ _ _ _ HRm Hl).
  Qed.

  Definition FRel (f1 : gfeeder T1) (f2 : gfeeder T2) : Prop :=
    g_buf T1 f1 = g_buf T2 f2 /\ g_wrote T1 f1 = g_wrote T2 f2 /\ Rel (g_next T1 f1) (g_next T2 f2).

  Lemma gfeeder_write_sim f1 f2 bs f2' r : FRel f1 f2 ->
    gfeeder_write H cs T2 put2 cw2 f2 bs = Ok (f2', r) ->
    exists f1', gfeeder_write H cs T1 put1 cw1 f1 bs = Ok (f1', r) /\ FRel f1' f2'.
  Proof.
    intros (Hb & Hw & HR) Hs. unfold gfeeder_write in *. rewrite Hb, Hw.
    destruct (Nat.ltb _ cs).
    - injection Hs as <- <-. eexists. split; [reflexivity|]. now repeat split.
    - destruct (gfeed_loop H cs T2 put2 cw2 _ _ _ _ _ _) as [[[[e bf] w'] t2m]|] eqn:El; [|discriminate].
      destruct (gfeed_loop_sim _ _ _ _ _ _ _ _ _ _ _ HR El) as (t1m & Hl1 & HRm). rewrite Hl1.
      destruct e; injection Hs as <- <-; eexists; (split; [reflexivity|]); now repeat split.
  Qed.

  Lemma gfeed_all_sim : forall segs f1 f2 rets f2' rets', FRel f1 f2 ->
    gfeed_all H cs T2 put2 cw2 f2 segs rets = Ok (f2', rets') ->
    exists f1', gfeed_all H cs T1 put1 cw1 f1 segs rets = Ok (f1', rets') /\ FRel f1' f2'.
  Proof.
    induction segs as [|s segs IH]; intros f1 f2 rets f2' rets' HF Hs; cbn [gfeed_all] in *.
    - injection Hs as <- <-. now exists f1.
    - destruct (gfeeder_write H cs T2 put2 cw2 f2 s) as [[f2m r]|] eqn:Ew; [|discriminate].
      destruct (gfeeder_write_sim _ _ _ _ _ HF Ew) as (f1m & Hw1 & HFm). rewrite Hw1. exact (IH _ _ _ _ _ HFm Hs).
  Qed.

  Lemma gfeeder_sum_sim f1 f2 r : FRel f1 f2 -> gfeeder_sum H T2 put2 cw2 sm2 f2 = Ok r ->
    gfeeder_sum H T1 put1 cw1 sm1 f1 = Ok r.
  Proof.
    intros (Hb & Hw & HR) Hs. unfold gfeeder_sum in *. rewrite Hb, Hw.
    destruct (Nat.ltb 0 (length (g_buf T2 f2))).
    - destruct (st2 (g_next T2 f2) _ _) as [t2a|] eqn:E1; [|discriminate].
      destruct (gstage_sim _ _ _ _ _ HR E1) as (t1a & Hs1 & HRa). rewrite Hs1.
      destruct (_ =? 0)%Z.
      + destruct (st2 t2a _ _) as [t2b|] eqn:E2; [|discriminate].
        destruct (gstage_sim _ _ 0%N _ _ HRa E2) as (t1b & Hs2 & HRb). rewrite Hs2. exact (Hsm _ _ _ HRb Hs).
      + exact (Hsm _ _ _ HRa Hs).
    - destruct (_ =? 0)%Z.
      + destruct (st2 (g_next T2 f2) _ _) as [t2b|] eqn:E2; [|discriminate].
        destruct (gstage_sim _ _ 0%N _ _ HR E2) as (t1b & Hs2 & HRb). rewrite Hs2. exact (Hsm _ _ _ HRb Hs).
      + exact (Hsm _ _ _ HR Hs).
  Qed.

  Lemma gupload_sim t1 t2 segs u : Rel t1 t2 ->
    gupload H cs T2 put2 cw2 sm2 t2 segs = Ok u -> gupload H cs T1 put1 cw1 sm1 t1 segs = Ok u.
  Proof.
    intros HR Hu. unfold gupload in *.
    destruct (gfeed_all H cs T2 put2 cw2 _ segs []) as [[f2 rets]|] eqn:Ea; [|discriminate].
    assert (HF0 : FRel (mkG T1 [] 0 t1) (mkG T2 [] 0 t2)) by (unfold FRel; cbn; auto).
    destruct (gfeed_all_sim segs _ _ _ _ _ HF0 Ea) as (f1 & Ha1 & HF).
    rewrite Ha1. destruct (gfeeder_sum H T2 put2 cw2 sm2 f2) as [[root lg]|] eqn:Es; [|discriminate].
    now rewrite (gfeeder_sum_sim _ _ _ HF Es).
  Qed.
End GSim.

(** * the generic feeder over the level-list writer is Model.upload *)
Section GAbs.
  Variable H : bytes -> bytes.
  Variable cs b refLen : nat.
  Definition aput (t : trie) (d : bytes) : trie := mkT (t_levels t) (t_full t) (t_log t ++ [d]).
  Notation gw := (gstage_write H trie aput (trie_chain_write H b refLen)).

  Lemma gstage_abs t span data : gw t span data = stage_write H b refLen t span data.
  Proof. reflexivity. Qed.

  Definition f_of (g : gfeeder trie) : feeder := mkF (g_buf trie g) (g_wrote trie g) (g_next trie g).
  Definition g_of (f : feeder) : gfeeder trie := mkG trie (f_buf f) (f_wrote f) (f_next f).

  Lemma gfeed_loop_abs : forall fuel dpre buf rest w t,
    gfeed_loop H cs trie aput (trie_chain_write H b refLen) fuel dpre buf rest w t = feed_loop H cs b refLen fuel dpre buf rest w t.
  Proof.
    induction fuel as [|fuel IH]; intros; destruct rest; reflexivity.
  Qed.

  Lemma gfeeder_write_abs g bs :
    gfeeder_write H cs trie aput (trie_chain_write H b refLen) g bs
    = match feeder_write H cs b refLen (f_of g) bs with Ok (f, r) => Ok (g_of f, r) | Err x => Err x end.
  Proof.
    unfold gfeeder_write, feeder_write. destruct g as [gb gw' gn]. cbn [f_of g_buf g_wrote g_next f_buf f_wrote f_next].
    destruct (Nat.ltb _ cs); [reflexivity|]. rewrite gfeed_loop_abs.
    destruct (feed_loop _ _ _ _ _ _ _ _ _ _) as [[[[e bf] w'] t]|]; [|reflexivity]. destruct e; reflexivity.
  Qed.

  Lemma gfeed_all_abs : forall segs g rets,
    gfeed_all H cs trie aput (trie_chain_write H b refLen) g segs rets
    = match feed_all H cs b refLen (f_of g) segs rets with Ok (f, r) => Ok (g_of f, r) | Err x => Err x end.
  Proof.
    induction segs as [|s segs IH]; intros g rets; cbn [gfeed_all feed_all].
    - destruct g; reflexivity.
    - rewrite gfeeder_write_abs. destruct (feeder_write _ _ _ _ _ _) as [[f r]|]; [|reflexivity].
      rewrite IH. destruct f; reflexivity.
  Qed.

  Lemma gfeeder_sum_abs g : gfeeder_sum H trie aput (trie_chain_write H b refLen) (trie_sum H b) g = feeder_sum H b refLen (f_of g).
  Proof. destruct g; reflexivity. Qed.

  Lemma gupload_abs segs :
    gupload H cs trie aput (trie_chain_write H b refLen) (trie_sum H b) trie_init segs = upload H cs b refLen segs.
  Proof.
    unfold gupload, upload. rewrite gfeed_all_abs. change (f_of (mkG trie [] 0 trie_init)) with feeder_init.
    destruct (feed_all _ _ _ _ _ _ _) as [[f rets]|]; [|reflexivity].
    rewrite gfeeder_sum_abs. destruct f; reflexivity.
  Qed.
End GAbs.

(** * the two writers simulate each other *)
Section Writers.
  Variable H : bytes -> bytes.
  Variable b refLen : nat.
  Hypothesis Hlen : forall x, length (H x) = refLen.
  Hypothesis Hb1 : (1 <= b)%nat.
  Notation oneRef := (Z.of_nat refLen + 8).
  Notation wfe := (wfe refLen).

  Definition small (ls : list (list entry)) : Prop := Forall (fun L => (length L < b)%nat) ls.

  Definition CRep (tc : ctrie) (ta : trie) : Prop :=
    exists c0 cs, c_cur tc = c0 :: cs /\ length cs = 8%nat
      /\ RepFrom (c_buf tc) cs (t_levels ta) /\ Forall (Forall wfe) (t_levels ta) /\ small (t_levels ta)
      /\ c_full tc = t_full ta /\ c_log tc = t_log ta
      /\ 8 * Z.of_nat b * oneRef <= zlen (c_buf tc).

  Lemma RepFrom_head buf : forall cs ls, RepFrom buf cs ls -> Forall (Forall wfe) ls -> small ls ->
    head_of cs <= oneRef * (Z.of_nat b - 1) * Z.of_nat (length ls).
  Proof.
    induction cs as [|c [|c' cs'] IH]; intros [|L ls'] Hr Hw Hs; cbn [RepFrom] in Hr; try contradiction.
    - cbn. lia.
    - destruct ls'; [|contradiction]. inversion Hw; subst. inversion Hs; subst.
      destruct (bread_len _ _ _ _ Hr) as (Hl & _ & _). rewrite (enc_level_len refLen L) in Hl by assumption.
      cbn [head_of hd length]. nia.
    - destruct Hr as [Hr1 Hr2]. inversion Hw; subst. inversion Hs; subst.
      specialize (IH ls' Hr2 ltac:(assumption) ltac:(assumption)).
      destruct (bread_len _ _ _ _ Hr1) as (Hl & _ & _). rewrite (enc_level_len refLen L) in Hl by assumption.
      cbn [head_of hd length] in *. nia.
  Qed.

  Lemma wtl_small : forall ls e ls' lg fl, small ls ->
    write_to_level (node_entry H) node_payload b ls e = Ok (ls', lg, fl) -> small ls'.
  Proof.
    induction ls as [|L rest IH]; intros e ls' lg fl Hs Hw; [discriminate|]. cbn [write_to_level] in Hw.
    inversion Hs as [|? ? HL Hrest]; subst. rewrite app_length in Hw. cbn [length] in Hw.
    destruct (Nat.eqb (length L + 1) b) eqn:Eb.
    - destruct rest as [|L2 r2]; [discriminate|].
      destruct (write_to_level _ _ _ (L2 :: r2) _) as [[[r' lg'] fl']|] eqn:Ew; [|discriminate]. injection Hw as <- <- <-.
      constructor; [cbn; lia | exact (IH _ _ _ _ Hrest Ew)].
    - injection Hw as <- <- <-. apply Nat.eqb_neq in Eb. constructor; [rewrite app_length; cbn [length]; lia | exact Hrest].
  Qed.

  Lemma cput_rep tc ta d : CRep tc ta -> CRep (cput tc d) (aput ta d).
  Proof.
    intros (c0 & cs & H1 & H2 & H3 & H4 & H5 & H6 & H7 & H8). exists c0, cs. unfold cput, aput.
    cbn [c_cur c_buf c_full c_log t_levels t_full t_log]. rewrite H7. repeat split; assumption.
  Qed.

  Lemma chain_write_ref tc ta span ref ta' : CRep tc ta -> length span = 8%nat -> length ref = refLen ->
    trie_chain_write H b refLen ta span ref = Ok ta' ->
    exists tc', ctrie_chain_write H b refLen tc span ref = Ok tc' /\ CRep tc' ta'.
  Proof.
    intros (c0 & cs & Hc & Hl8 & Hrep & Hwf & Hsm & Hfull & Hlog & Hroom) Hs Hr Hw.
    unfold trie_chain_write in Hw. unfold ctrie_chain_write. rewrite Hfull.
    destruct (negb (Nat.eqb ((length span + length ref) mod (refLen + 8)) 0)); [discriminate|].
    destruct (t_full ta); [discriminate|].
    destruct (negb (Nat.eqb (length span + length ref) (refLen + 8))); [discriminate|].
    destruct (write_to_level _ _ _ (t_levels ta) (mkE span ref)) as [[[ls' lg] fl]|] eqn:Ew; [|discriminate].
    injection Hw as <-.
    destruct tc as [buf cur0 fullc logc]. cbn [c_cur c_buf c_full c_log] in *. subst cur0 fullc logc.
    pose proof (RepFrom_head buf cs _ Hrep Hwf Hsm) as Hhead.
    rewrite <- (RepFrom_length H refLen Hlen _ _ _ Hrep), Hl8 in Hhead.
    destruct (cwtl_ref H b refLen Hlen (t_levels ta) cs [c0] buf false (t_log ta) (mkE span ref) 10 ls' lg fl Hrep Hwf)
      as (buf' & cs' & Hcw & Hl' & Hrep' & Hwf' & Hz' & _).
    { now split. } { cbn [length]. lia. } { lia. } { nia. } { exact Ew. }
    cbn [e_span e_ref length app] in Hcw. rewrite Hcw. eexists. split; [reflexivity|].
    exists c0, cs'. cbn [c_cur c_buf c_full c_log t_levels t_full t_log app].
    repeat split; try assumption; try lia. exact (wtl_small _ _ _ _ _ Hsm Ew).
  Qed.

  Lemma sum_ref tc ta r : CRep tc ta -> trie_sum H b ta = Ok r -> ctrie_sum H b refLen tc = Ok r.
  Proof.
    intros (c0 & cs & Hc & Hl8 & Hrep & Hwf & Hsm & Hfull & Hlog & Hroom) Hs.
    unfold trie_sum in Hs. unfold ctrie_sum. change (maxLevel - 1)%nat with 7%nat in Hs.
    destruct (sum_loop _ _ _ 7 (t_levels ta)) as [[top lg]|] eqn:Esl; [|discriminate].
    destruct tc as [buf cur0 fullc logc]. cbn [c_cur c_buf c_full c_log] in *. subst cur0 fullc logc.
    destruct (csum_ref H b refLen Hlen 7 (t_levels ta) cs [c0] buf (t_full ta) (t_log ta) top lg Hrep Hwf)
      as (buf' & pre' & cs' & full' & Hcs & Hp1 & Hp2 & Hrep' & Hwf'); [cbn [length]; lia | lia | exact Esl |].
    cbn [length app] in Hcs. rewrite Hcs.
    cbn [length] in Hp1. assert (Hcl : length cs' = 1%nat) by lia.
    destruct cs' as [|c8 [|? ?]]; try discriminate.
    destruct top as [|L8 [|? ?]]; cbn [RepFrom] in Hrep'; try contradiction.
    unfold level_size, cur. cbn [c_cur c_buf c_log]. replace 8%nat with (length pre') by lia.
    rewrite Nat.eqb_refl, nth_error_pre.
    inversion Hwf' as [|? ? HwL8 _]; subst.
    destruct (bread_len _ _ _ _ Hrep') as (Hl & _ & _). rewrite (enc_level_len refLen L8 HwL8) in Hl.
    replace c8 with (oneRef * Z.of_nat (length L8)) by lia.
    replace (oneRef * Z.of_nat (length L8) =? oneRef) with (Nat.eqb (length L8) 1)
      by (rewrite <- (cmp_len refLen (length L8) 1); f_equal; lia).
    destruct L8 as [|e [|? ?]]; try discriminate.
    cbn [length Nat.eqb negb]. replace (oneRef * Z.of_nat 1) with c8 by (cbn [length] in Hl; lia).
    rewrite Hrep'. injection Hs as <-. cbn [enc_level flat_map]. rewrite app_nil_r. unfold enc_entry.
    inversion HwL8 as [|? ? [Hs8 Hr8] _]; subst. cbn [length] in Hp1.
    rewrite skipn_app, skipn_all2 by lia. replace (length pre' - length (e_span e))%nat with 0%nat by lia. reflexivity.
  Qed.

  Lemma CRep_init buflen : 8 * Z.of_nat b * oneRef <= Z.of_nat buflen -> CRep (ctrie_init buflen) trie_init.
  Proof.
    intros Hroom. exists 0, (repeat 0 8). unfold ctrie_init, trie_init, maxLevel. cbn [c_cur c_buf c_full c_log t_levels t_full t_log repeat].
    assert (Hz : zlen (repeat 0%N buflen) = Z.of_nat buflen) by (unfold zlen; now rewrite repeat_length).
    splits; try reflexivity.
    - cbn [RepFrom]. repeat split; apply bread_empty; rewrite Hz; lia.
    - repeat constructor.
    - repeat constructor; cbn; lia.
    - rewrite Hz. exact Hroom.
  Qed.
End Writers.

(** * the theorem *)
Theorem cupload_refines : forall (H : bytes -> bytes) (cs b refLen buflen : nat),
  (forall x, length (H x) = refLen) -> (1 <= b)%nat ->
  (8 * Z.of_nat b * (Z.of_nat refLen + 8) <= Z.of_nat buflen) ->
  forall segs u, upload H cs b refLen segs = Ok u -> cupload H cs b refLen buflen segs = Ok u.
Proof.
  intros H cs b refLen buflen Hlen Hb1 Hroom segs u Hu. unfold cupload.
  rewrite <- (gupload_abs H cs b refLen) in Hu.
  apply (gupload_sim H cs refLen Hlen ctrie trie cput (ctrie_chain_write H b refLen) (ctrie_sum H b refLen)
           aput (trie_chain_write H b refLen) (trie_sum H b) (CRep b refLen)) with (t2 := trie_init).
  - intros. now apply cput_rep.
  - intros t1 t2 span ref t2' HR Hs Hr Hw. exact (chain_write_ref H b refLen Hlen Hb1 t1 t2 span ref t2' HR Hs Hr Hw).
  - intros t1 t2 r HR Hs. exact (sum_ref H b refLen Hlen Hb1 t1 t2 r HR Hs).
  - now apply CRep_init.
  - exact Hu.
Qed.
