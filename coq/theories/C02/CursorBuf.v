(** C02 — reads and writes on the shared buffer. *)
From Coq Require Import List NArith ZArith Bool Lia Arith.
From Coq Require Import ZifyBool ZifyNat ZifyN.
Import ListNotations.
Require Import Aurora.C02.Model Aurora.C02.Cursor.
Local Open Scope Z_scope.

Lemma zlen_app {A} (x y : list A) : zlen (x ++ y) = zlen x + zlen y.
Proof. unfold zlen. rewrite app_length. lia. Qed.
Lemma zlen_nonneg {A} (x : list A) : 0 <= zlen x.
Proof. unfold zlen. lia. Qed.

(** [bread buf lo hi = Some X] iff [buf = P ++ X ++ S] with [|P| = lo], [hi = lo + |X|] *)
Lemma bread_intro (P X S : bytes) : bread (P ++ X ++ S) (zlen P) (zlen P + zlen X) = Some X.
Proof.
  unfold bread. rewrite !zlen_app.
  pose proof (zlen_nonneg P). pose proof (zlen_nonneg X). pose proof (zlen_nonneg S).
  replace ((0 <=? zlen P) && (zlen P <=? zlen P + zlen X) && (zlen P + zlen X <=? zlen P + (zlen X + zlen S))) with true
    by (symmetry; rewrite !andb_true_iff, !Z.leb_le; lia).
  f_equal. unfold zlen. rewrite Nat2Z.id. rewrite skipn_app, Nat.sub_diag, skipn_O, skipn_all2 by lia. cbn [app].
  replace (Z.to_nat (Z.of_nat (length P) + Z.of_nat (length X) - Z.of_nat (length P))) with (length X) by lia.
  rewrite firstn_app, Nat.sub_diag, firstn_O, firstn_all, app_nil_r. reflexivity.
Qed.

Lemma bread_elim buf lo hi X : bread buf lo hi = Some X ->
  exists P S, buf = P ++ X ++ S /\ zlen P = lo /\ hi = lo + zlen X.
Proof.
  unfold bread. destruct ((0 <=? lo) && (lo <=? hi) && (hi <=? zlen buf)) eqn:E; [|discriminate].
  rewrite !andb_true_iff, !Z.leb_le in E. destruct E as [[H0 H1] H2]. unfold zlen in *. intros Heq. injection Heq as <-.
  exists (firstn (Z.to_nat lo) buf), (skipn (Z.to_nat (hi - lo)) (skipn (Z.to_nat lo) buf)).
  split; [|split].
  - rewrite firstn_skipn, firstn_skipn. reflexivity.
  - rewrite firstn_length. lia.
  - rewrite firstn_length, skipn_length. lia.
Qed.

Lemma bread_len buf lo hi X : bread buf lo hi = Some X -> zlen X = hi - lo /\ 0 <= lo /\ hi <= zlen buf.
Proof.
  intros Hb. destruct (bread_elim _ _ _ _ Hb) as (P & S & -> & HP & ->).
  rewrite !zlen_app. pose proof (zlen_nonneg P). pose proof (zlen_nonneg S). lia.
Qed.

Lemma app_eq_len {A} (a b c d : list A) : a ++ b = c ++ d -> length a = length c -> a = c /\ b = d.
Proof.
  revert c; induction a as [|x a IH]; intros [|y c] Heq Hl; cbn in *; try discriminate; [now split|].
  injection Heq as -> Heq. destruct (IH c Heq ltac:(lia)) as [-> ->]. now split.
Qed.

(** splitting a read *)
Lemma bread_split buf lo hi (A B : bytes) : bread buf lo hi = Some (A ++ B) ->
  bread buf lo (lo + zlen A) = Some A /\ bread buf (lo + zlen A) hi = Some B.
Proof.
  intros Hb. destruct (bread_elim _ _ _ _ Hb) as (P & S & -> & HP & ->). subst lo. split.
  - rewrite <- app_assoc. apply (bread_intro P A (B ++ S)).
  - rewrite zlen_app. replace (P ++ (A ++ B) ++ S) with ((P ++ A) ++ B ++ S) by (now rewrite <- !app_assoc).
    rewrite <- zlen_app. replace (zlen (P ++ A) + zlen B) with (zlen (P ++ A) + zlen B) by reflexivity.
    rewrite Z.add_assoc. rewrite <- (zlen_app P A). apply (bread_intro (P ++ A) B S).
Qed.

Lemma bread_join buf lo mid hi (A B : bytes) : bread buf lo mid = Some A -> bread buf mid hi = Some B ->
  bread buf lo hi = Some (A ++ B).
Proof.
  intros H1 H2. destruct (bread_elim _ _ _ _ H1) as (P & S & -> & HP & ->).
  destruct (bread_elim _ _ _ _ H2) as (P2 & S2 & Heq & HP2 & ->).
  assert (Hsplit : P2 = P ++ A /\ S = B ++ S2).
  { replace (P ++ A ++ S) with ((P ++ A) ++ S) in Heq by (now rewrite <- app_assoc).
    destruct (app_eq_len (P ++ A) S P2 (B ++ S2) Heq) as [E1 E2]; [|now split].
    unfold zlen in *. rewrite app_length. lia. }
  destruct Hsplit as [-> ->]. subst lo.
  replace (P ++ A ++ B ++ S2) with (P ++ (A ++ B) ++ S2) by (now rewrite <- !app_assoc).
  replace (zlen P + zlen A + zlen B) with (zlen P + zlen (A ++ B)) by (rewrite zlen_app; lia).
  apply bread_intro.
Qed.

Lemma bread_empty buf c : 0 <= c <= zlen buf -> bread buf c c = Some [].
Proof.
  intros Hc. unfold bread. replace ((0 <=? c) && (c <=? c) && (c <=? zlen buf)) with true
    by (symmetry; rewrite !andb_true_iff, !Z.leb_le; lia).
  rewrite Z.sub_diag. reflexivity.
Qed.

Lemma bread_app_l (P X Y : bytes) lo hi : hi <= zlen P -> bread (P ++ X) lo hi = bread (P ++ Y) lo hi.
Proof.
  intros Hh. unfold bread. rewrite !zlen_app. pose proof (zlen_nonneg X). pose proof (zlen_nonneg Y).
  destruct ((0 <=? lo) && (lo <=? hi)) eqn:E.
  - rewrite andb_true_iff, !Z.leb_le in E. destruct E as [E0 E1].
    replace (hi <=? zlen P + zlen X) with true by (symmetry; apply Z.leb_le; lia).
    replace (hi <=? zlen P + zlen Y) with true by (symmetry; apply Z.leb_le; lia). cbn [andb]. f_equal.
    unfold zlen in *. rewrite !skipn_app, !firstn_app, skipn_length.
    replace (Z.to_nat (hi - lo) - (length P - Z.to_nat lo))%nat with 0%nat by lia. cbn [firstn]. reflexivity.
  - reflexivity.
Qed.

Lemma bread_app_r (P Q S : bytes) lo hi : zlen P = zlen Q -> zlen P <= lo -> bread (P ++ S) lo hi = bread (Q ++ S) lo hi.
Proof.
  intros Hl Hlo. unfold bread. rewrite !zlen_app, Hl.
  destruct ((0 <=? lo) && (lo <=? hi) && (hi <=? zlen Q + zlen S)); [|reflexivity]. f_equal.
  unfold zlen in *. rewrite !skipn_app. rewrite (skipn_all2 P), (skipn_all2 Q) by lia. cbn [app].
  replace (length P) with (length Q) by lia. reflexivity.
Qed.

Lemma split3 (buf : bytes) (c n : nat) : (c + n <= length buf)%nat ->
  exists P M S, buf = P ++ M ++ S /\ length P = c /\ length M = n
                /\ P = firstn c buf /\ S = skipn (c + n) buf.
Proof.
  intros Hl. exists (firstn c buf), (firstn n (skipn c buf)), (skipn (c + n) buf).
  split; [|split; [|split; [|split]]]; try reflexivity.
  - rewrite <- (firstn_skipn c buf) at 1. f_equal. rewrite <- (firstn_skipn n (skipn c buf)) at 1. f_equal.
    clear. revert buf. induction c as [|c IH]; intros buf; [reflexivity|].
    destruct buf; [now rewrite !skipn_nil|]. cbn [skipn plus]. apply IH.
  - rewrite firstn_length. lia.
  - rewrite firstn_length, skipn_length. lia.
Qed.

(** writes *)
Lemma bwrite_ok buf c d : 0 <= c -> c + zlen d <= zlen buf ->
  exists buf', bwrite buf c d = Some buf' /\ zlen buf' = zlen buf
    /\ bread buf' c (c + zlen d) = Some d
    /\ (forall lo hi, hi <= c -> bread buf' lo hi = bread buf lo hi)
    /\ (forall lo hi, c + zlen d <= lo -> bread buf' lo hi = bread buf lo hi).
Proof.
  intros H0 H1. unfold bwrite.
  replace ((0 <=? c) && (c + zlen d <=? zlen buf)) with true by (symmetry; rewrite andb_true_iff, !Z.leb_le; lia).
  destruct (split3 buf (Z.to_nat c) (length d)) as (P & M & S & Hbuf & HP & HM & EP & ES).
  { unfold zlen in *. lia. }
  rewrite <- EP, <- ES. eexists. split; [reflexivity|].
  assert (HPz : zlen P = c) by (unfold zlen; lia).
  split; [rewrite Hbuf, !zlen_app; unfold zlen; lia|]. split.
  - rewrite <- HPz. apply bread_intro.
  - split; intros lo hi Hr; rewrite Hbuf.
    + apply bread_app_l. lia.
    + rewrite !app_assoc. apply bread_app_r; rewrite !zlen_app; unfold zlen in *; lia.
Qed.
