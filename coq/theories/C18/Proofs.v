(** C18 — lemmas about the state-store models. *)
From Coq Require Import List NArith ZArith Bool Lia Arith Sorting.Sorted Permutation.
Import ListNotations.
From Coq Require Import ZifyBool ZifyNat ZifyN.
Require Import Aurora.C18.KV Aurora.C18.Model.
Local Open Scope N_scope.
Ltac Zify.zify_post_hook ::= Z.div_mod_to_equations.

(** * the specification walk *)

Definition continues (cb : cbfun) (i : nat) (l : list kv) : Prop :=
  forall j k v, nth_error l j = Some (k, v) -> cb (i + j)%nat k v = (false, None).

Lemma continues_tail cb i e l : continues cb i (e :: l) -> continues cb (S i) l.
Proof. intros H j k v Hn. specialize (H (S j) k v Hn). now rewrite Nat.add_succ_r in H. Qed.

Lemma walk_all cb : forall l i, continues cb i l -> walk cb i l = (l, None).
Proof.
  induction l as [|[k v] l IH]; intros i H; cbn; [reflexivity|].
  pose proof (H 0%nat k v eq_refl) as H0. rewrite Nat.add_0_r in H0. rewrite H0.
  rewrite (IH (S i)); [reflexivity|]. eapply continues_tail; eauto.
Qed.

Lemma walk_halt cb k v l2 stop err : forall l1 i,
  continues cb i l1 -> cb (i + length l1)%nat k v = (stop, err) -> (stop = true \/ err <> None) ->
  walk cb i (l1 ++ (k, v) :: l2) = (l1 ++ [(k, v)], err).
Proof.
  induction l1 as [|[k1 v1] l1 IH]; intros i Hc Hcb Hh; cbn.
  - cbn in Hcb. rewrite Nat.add_0_r in Hcb. rewrite Hcb. destruct err as [e|]; [reflexivity|].
    destruct Hh as [->|Hh]; [reflexivity | congruence].
  - pose proof (Hc 0%nat k1 v1 eq_refl) as H0. rewrite Nat.add_0_r in H0. rewrite H0.
    rewrite (IH (S i)); [reflexivity | eapply continues_tail; eauto | | exact Hh].
    cbn in Hcb. now rewrite Nat.add_succ_r in Hcb.
Qed.

(** every walk is one of the two shapes above *)
Lemma walk_shape cb : forall l i,
  (continues cb i l /\ walk cb i l = (l, None)) \/
  (exists l1 k v l2 stop err, l = l1 ++ (k, v) :: l2 /\ continues cb i l1 /\
     cb (i + length l1)%nat k v = (stop, err) /\ (stop = true \/ err <> None) /\
     walk cb i l = (l1 ++ [(k, v)], err)).
Proof.
  induction l as [|[k v] l IH]; intros i.
  - left. split; [|reflexivity]. intros j k v Hn. destruct j; discriminate.
  - destruct (cb i k v) as [stop err] eqn:E.
    assert (Hhalt : stop = true \/ err <> None ->
      exists l1 k0 v0 l2 stop0 err0, (k, v) :: l = l1 ++ (k0, v0) :: l2 /\ continues cb i l1 /\
        cb (i + length l1)%nat k0 v0 = (stop0, err0) /\ (stop0 = true \/ err0 <> None) /\
        walk cb i ((k, v) :: l) = (l1 ++ [(k0, v0)], err0)).
    { intros Hh. exists [], k, v, l, stop, err. cbn. rewrite Nat.add_0_r. repeat split; auto.
      - intros j k' v' Hn. destruct j; discriminate.
      - rewrite E. destruct err; [reflexivity|]. destruct Hh as [->|Hh]; [reflexivity|congruence]. }
    destruct err as [e|]; [right; apply Hhalt; right; discriminate|].
    destruct stop; [right; apply Hhalt; now left|].
    destruct (IH (S i)) as [[Hc Hw]|(l1 & k0 & v0 & l2 & stop0 & err0 & Hl & Hc & Hcb & Hh & Hw)].
    + left. assert (Hc' : continues cb i ((k, v) :: l)).
      { intros [|j] k' v' Hn; cbn in Hn.
        - inversion Hn; subst. now rewrite Nat.add_0_r.
        - rewrite Nat.add_succ_r. now apply Hc. }
      split; [exact Hc'|]. now apply walk_all.
    + right. exists ((k, v) :: l1), k0, v0, l2, stop0, err0. subst l.
      assert (Hc' : continues cb i ((k, v) :: l1)).
      { intros [|j] k' v' Hn; cbn in Hn.
        - inversion Hn; subst. now rewrite Nat.add_0_r.
        - rewrite Nat.add_succ_r. now apply Hc. }
      repeat split; auto.
      * cbn. now rewrite Nat.add_succ_r.
      * apply (walk_halt cb k0 v0 l2 stop0 err0 ((k, v) :: l1) i Hc'); [|exact Hh].
        cbn. now rewrite Nat.add_succ_r.
Qed.

(** * the leveldb store *)

Lemma ldb_loop_walk cb : forall fuel i c, (length (cur_rest c) < fuel)%nat ->
  ldb_loop fuel cb i c = Some (walk cb i (cur_rest c)).
Proof.
  induction fuel as [|f IH]; intros i c Hf; [lia|].
  destruct c as [l|r|b [k v] a]; cbn [ldb_loop cur_valid cur_rest walk]; try reflexivity.
  cbn [cur_key cur_value fst snd]. destruct (cb i k v) as [stop [e|]]; [reflexivity|].
  destruct stop; [reflexivity|].
  assert (Hr : cur_rest (cur_next (CAt b (k, v) a)) = a) by (destruct a; reflexivity).
  rewrite IH by (rewrite Hr; cbn in Hf; lia). rewrite Hr.
  destruct (walk cb (S i) a); reflexivity.
Qed.

Definition keys_bytes (db : list kv) : Prop := Forall isbytes (keys_of db).

(** entries of a sorted store under a prefix, in order *)
Definition matching (p : bytes) (db : list kv) : list kv := filter (fun e => has_prefix p (fst e)) db.

Lemma filter_ext_in' {A} (f g : A -> bool) l : (forall x, In x l -> f x = g x) -> filter f l = filter g l.
Proof.
  induction l as [|x l IH]; cbn; intros H; [reflexivity|].
  rewrite (H x) by now left. rewrite IH; [reflexivity|]. intros y Hy. apply H. now right.
Qed.

Lemma filter_filter_id {A} (f g : A -> bool) l : (forall x, g x = true -> f x = true) -> filter f (filter g l) = filter g l.
Proof.
  intros H. induction l as [|x l IH]; cbn; [reflexivity|].
  destruct (g x) eqn:E; [|exact IH]. cbn. rewrite (H x E). now rewrite IH.
Qed.

Lemma ldb_search_rest db p : sorted_db db -> keys_bytes db -> isbytes p ->
  cur_rest (ldb_search db p) = matching p db.
Proof.
  intros Hs Hk Hp. unfold ldb_search.
  rewrite seek_from_rest by (apply filter_sorted; exact Hs).
  unfold range_items. rewrite filter_filter_id.
  - unfold matching. apply filter_ext_in'. intros [k v] Hin. cbn [fst].
    apply prefix_range; [exact Hp|]. unfold keys_bytes in Hk. rewrite Forall_forall in Hk.
    apply Hk. change k with (fst (k, v)). now apply in_map.
  - intros [k v]. cbn [fst]. unfold in_range. intros H. now apply andb_true_iff in H as [H _].
Qed.

Lemma filter_length_le {A} (f : A -> bool) l : (length (filter f l) <= length l)%nat.
Proof. induction l as [|x l IH]; cbn; [lia|]. destruct (f x); cbn; lia. Qed.

Lemma deferred_close_id e : deferred_close e = e.
Proof. destruct e; reflexivity. Qed.

Theorem ldb_iterate_spec db p cb : sorted_db db -> keys_bytes db -> isbytes p ->
  ldb_iterate db p cb = Some (walk cb 0 (matching p db)).
Proof.
  intros Hs Hk Hp. unfold ldb_iterate, ldb_iterate_gen.
  rewrite ldb_loop_walk; rewrite (ldb_search_rest db p Hs Hk Hp).
  - destruct (walk cb 0 (matching p db)) as [vis e]. now rewrite deferred_close_id.
  - unfold matching. pose proof (@filter_length_le kv (fun e => has_prefix p (fst e)) db) as Hle. unfold kv in *. lia.
Qed.

(** the code before the repair: whatever the callback returned, the caller sees nil *)
Lemma ldb_iterate_unrepaired_loses_error db p cb vis e : sorted_db db -> keys_bytes db -> isbytes p ->
  walk cb 0 (matching p db) = (vis, Some e) ->
  ldb_iterate_gen deferred_close_unrepaired db p cb = Some (vis, None).
Proof.
  intros Hs Hk Hp Hw. unfold ldb_iterate_gen.
  rewrite ldb_loop_walk; rewrite (ldb_search_rest db p Hs Hk Hp).
  - now rewrite Hw.
  - unfold matching. pose proof (@filter_length_le kv (fun e => has_prefix p (fst e)) db) as Hle. unfold kv in *. lia.
Qed.

Lemma matching_sorted p db : sorted_db db -> sorted_db (matching p db).
Proof. apply filter_sorted. Qed.

Lemma matching_get p db k : sorted_db db ->
  db_get k (matching p db) = if has_prefix p k then db_get k db else None.
Proof.
  intros Hs. unfold matching. rewrite db_get_filter by (apply sorted_nodup; exact Hs).
  cbn [fst]. destruct (db_get k db); destruct (has_prefix p k); reflexivity.
Qed.

(** * the mock store *)

Lemma m_put_get k k' v m : db_get k (m_put k' v m) = if beq k k' then Some v else db_get k m.
Proof.
  induction m as [|[k2 v2] t IH]; cbn.
  - destruct (beq k k'); reflexivity.
  - destruct (beq k' k2) eqn:E; cbn.
    + apply beq_eq in E; subst k2. destruct (beq k k'); reflexivity.
    + rewrite IH. destruct (beq k k') eqn:E1; [|reflexivity].
      apply beq_eq in E1; subst k'. now rewrite E.
Qed.

Lemma m_put_keys k v m x : In x (keys_of (m_put k v m)) <-> x = k \/ In x (keys_of m).
Proof.
  induction m as [|[k2 v2] t IH]; cbn; [intuition|].
  destruct (beq k k2) eqn:E; cbn.
  - apply beq_eq in E; subst k2. intuition.
  - fold (keys_of (m_put k v t)). rewrite IH. fold (keys_of t). intuition.
Qed.

Lemma m_put_nodup k v m : NoDup (keys_of m) -> NoDup (keys_of (m_put k v m)).
Proof.
  induction m as [|[k2 v2] t IH]; cbn; intros H; [repeat constructor; auto|].
  inversion H as [|? ? Hni Hnd]; subst. destruct (beq k k2) eqn:E; cbn.
  - apply beq_eq in E; subst k2. now constructor.
  - constructor; [|now apply IH]. fold (keys_of (m_put k v t)). rewrite m_put_keys.
    intros [->|Hin]; [now rewrite beq_refl in E | contradiction].
Qed.

Lemma mock_loop_walk m cb : forall keys i,
  mock_loop m cb i keys = walk cb i (map (fun k => (k, map_index m k)) keys).
Proof.
  induction keys as [|k t IH]; intros i; cbn; [reflexivity|].
  destruct (cb i k (map_index m k)) as [stop [e|]]; [reflexivity|].
  destruct stop; [reflexivity|]. now rewrite IH.
Qed.

Lemma insert_key_in k l x : In x (insert_key k l) <-> x = k \/ In x l.
Proof.
  induction l as [|y t IH]; cbn; [intuition|].
  destruct (ble k y); cbn; [intuition|]. rewrite IH. intuition.
Qed.

Lemma sort_keys_in l x : In x (sort_keys l) <-> In x l.
Proof.
  induction l as [|y t IH]; cbn; [tauto|]. rewrite insert_key_in, IH. intuition.
Qed.

Lemma insert_key_sorted k l : ~ In k l -> sorted_keys l -> sorted_keys (insert_key k l).
Proof.
  unfold sorted_keys. induction l as [|y t IH]; cbn; intros Hni Hs; [repeat constructor|].
  inversion Hs as [|? ? Hs' Hall]; subst.
  destruct (ble k y) eqn:E.
  - apply ble_lt_or_eq in E as [E|E]; [|subst; exfalso; apply Hni; now left].
    constructor; [exact Hs|]. constructor; [exact E|]. rewrite Forall_forall in *.
    intros x Hx. eapply bcmp_lt_trans; [exact E | now apply Hall].
  - constructor; [apply IH; [tauto | exact Hs']|]. rewrite Forall_forall in *. intros x Hx.
    apply insert_key_in in Hx as [->|Hx]; [|now apply Hall].
    unfold bltP. unfold ble in E. rewrite bcmp_opp. destruct (bcmp k y); try discriminate. reflexivity.
Qed.

Lemma sort_keys_sorted l : NoDup l -> sorted_keys (sort_keys l).
Proof.
  induction l as [|y t IH]; cbn; intros H; [constructor|].
  inversion H as [|? ? Hni Hnd]; subst. apply insert_key_sorted; [|now apply IH].
  now rewrite sort_keys_in.
Qed.

Lemma filter_nodup {A} (f : A -> bool) l : NoDup l -> NoDup (filter f l).
Proof.
  induction 1 as [|x l Hni Hnd IH]; cbn; [constructor|].
  destruct (f x); [|exact IH]. constructor; [|exact IH]. intros Hin. apply filter_In in Hin. tauto.
Qed.

(** the entries the repaired mock walks over *)
Definition mock_entries (m : list kv) (p : bytes) : list kv :=
  map (fun k => (k, map_index m k)) (sort_keys (filter (has_prefix p) (keys_of m))).

Lemma keys_of_map_pair (f : bytes -> bytes) l : keys_of (map (fun k => (k, f k)) l) = l.
Proof. unfold keys_of. rewrite map_map. cbn. apply map_id. Qed.

Lemma mock_entries_sorted m p : NoDup (keys_of m) -> sorted_db (mock_entries m p).
Proof.
  intros H. unfold sorted_db, mock_entries. rewrite keys_of_map_pair.
  apply sort_keys_sorted. now apply filter_nodup.
Qed.

Lemma db_get_map_pair (f : bytes -> bytes) l k :
  db_get k (map (fun k => (k, f k)) l) = if existsb (beq k) l then Some (f k) else None.
Proof.
  induction l as [|x t IH]; cbn; [reflexivity|].
  destruct (beq k x) eqn:E; cbn; [apply beq_eq in E; now subst|exact IH].
Qed.

Lemma existsb_beq_in k l : existsb (beq k) l = true <-> In k l.
Proof.
  rewrite existsb_exists. split.
  - intros [x [Hx E]]. apply beq_eq in E. now subst.
  - intros H. exists k. split; [exact H | apply beq_refl].
Qed.

Lemma mock_entries_get m p k : NoDup (keys_of m) ->
  db_get k (mock_entries m p) = if has_prefix p k then db_get k m else None.
Proof.
  intros Hnd. unfold mock_entries. rewrite db_get_map_pair.
  destruct (existsb (beq k) (sort_keys (filter (has_prefix p) (keys_of m)))) eqn:E.
  - apply existsb_beq_in in E. rewrite sort_keys_in in E. apply filter_In in E as [Hin Hp].
    rewrite Hp. unfold map_index. destruct (db_get k m) eqn:G; [reflexivity|].
    exfalso. unfold keys_of in Hin. apply in_map_iff in Hin as [[k' v] [Hk Hin]]. cbn in Hk; subst k'.
    apply (db_in_get _ _ _ Hnd) in Hin. congruence.
  - destruct (has_prefix p k) eqn:Hp; [|reflexivity].
    destruct (db_get k m) eqn:G; [|reflexivity]. exfalso.
    apply db_get_in in G. apply (in_map fst) in G. cbn in G.
    assert (Hin : In k (sort_keys (filter (has_prefix p) (keys_of m)))).
    { rewrite sort_keys_in. apply filter_In. split; assumption. }
    apply existsb_beq_in in Hin. congruence.
Qed.

Lemma mock_iterate_spec m p cb : mock_iterate m p cb = walk cb 0 (mock_entries m p).
Proof. unfold mock_iterate, mock_entries. apply mock_loop_walk. Qed.

(** the order of the underlying Go map is irrelevant *)
Lemma mock_iterate_perm m m' p cb : NoDup (keys_of m) -> NoDup (keys_of m') ->
  (forall k, db_get k m = db_get k m') -> mock_iterate m p cb = mock_iterate m' p cb.
Proof.
  intros H1 H2 Hext. rewrite !mock_iterate_spec. f_equal.
  apply sorted_db_ext; try now apply mock_entries_sorted.
  intros k. rewrite !mock_entries_get by assumption. now rewrite Hext.
Qed.

(** * content after a history *)

Definition write_of (o : op) (k : bytes) : option (option bytes) :=
  match o with
  | OPut k' v => if beq k k' then Some (Some (encode v)) else None
  | ODel k' => if beq k k' then Some None else None
  | _ => None
  end.
Definition upd (k : bytes) (cur : option bytes) (o : op) : option bytes :=
  match write_of o k with Some w => w | None => cur end.
(** value under [k] after history [h], starting from [c0]: the last write wins *)
Definition content_from (c0 : option bytes) (h : list op) (k : bytes) : option bytes := fold_left (upd k) h c0.

Definition writes_key (o : op) (k : bytes) : Prop :=
  match o with OPut k' _ | ODel k' => k' = k | _ => False end.
Definition op_bytes (o : op) : Prop :=
  match o with OPut k _ | OGet k _ | ODel k | OIter k _ => isbytes k | OReopen => True end.

(** invariant of the leveldb model *)
Definition ldb_inv (db : list kv) : Prop :=
  sorted_db db /\ keys_bytes db /\ db_get schema_key db = Some schema_current.

Fixpoint isbytesb (l : bytes) : bool := match l with [] => true | x :: t => (x <? 256) && isbytesb t end.
Lemma isbytesb_ok l : isbytesb l = true -> isbytes l.
Proof.
  induction l as [|x t IH]; cbn; intros H; [constructor|].
  apply andb_true_iff in H as [H1 H2]. constructor; [now apply N.ltb_lt | now apply IH].
Qed.

Lemma schema_key_bytes : isbytes schema_key.
Proof. apply isbytesb_ok. vm_compute. reflexivity. Qed.

Lemma keys_bytes_put k v db : isbytes k -> keys_bytes db -> keys_bytes (db_put k v db).
Proof.
  unfold keys_bytes. rewrite !Forall_forall. intros Hk H x Hx. apply keys_put_in in Hx as [->|Hx]; auto.
Qed.
Lemma keys_bytes_del k db : keys_bytes db -> keys_bytes (db_del k db).
Proof.
  unfold keys_bytes. rewrite !Forall_forall. intros H x Hx. apply H. eapply keys_del_in; eauto.
Qed.

Lemma ldb_inv_init : ldb_inv ldb_init.
Proof.
  split; [|split].
  - unfold sorted_db, sorted_keys. cbn. repeat constructor.
  - unfold keys_bytes. cbn. constructor; [apply schema_key_bytes | constructor].
  - reflexivity.
Qed.

Lemma ldb_open_inv db : ldb_inv db -> ldb_open db = Some db.
Proof.
  intros (_ & _ & Hg). unfold ldb_open. rewrite Hg. unfold get_migrations. now rewrite beq_refl.
Qed.

Lemma ldb_step_inv db o : ldb_inv db -> op_bytes o -> ~ writes_key o schema_key ->
  exists db', fst (ldb_step (Some db) o) = Some db' /\ ldb_inv db' /\
    forall k, db_get k db' = upd k (db_get k db) o.
Proof.
  intros (Hs & Hk & Hg) Hb Hw. destruct o as [k v|k ty|k|p cb|]; cbn [ldb_step].
  - exists (db_put k (encode v) db). cbn [op_bytes writes_key] in Hb, Hw. repeat split.
    + now apply db_put_sorted.
    + now apply keys_bytes_put.
    + rewrite db_get_put. destruct (beq schema_key k) eqn:E; [apply beq_eq in E; congruence | exact Hg].
    + intros k'. rewrite db_get_put. unfold upd, write_of. destruct (beq k' k); reflexivity.
  - exists db. repeat split; auto.
  - exists (db_del k db). cbn [op_bytes writes_key] in Hb, Hw. assert (Hnd : NoDup (keys_of db)) by now apply sorted_nodup. repeat split.
    + now apply db_del_sorted.
    + now apply keys_bytes_del.
    + rewrite db_get_del by exact Hnd. destruct (beq schema_key k) eqn:E; [apply beq_eq in E; congruence | exact Hg].
    + intros k'. rewrite db_get_del by exact Hnd. unfold upd, write_of. destruct (beq k' k); reflexivity.
  - exists db. cbn [op_bytes] in Hb. rewrite (ldb_iterate_spec db p (cb_of cb) Hs Hk Hb).
    destruct (walk (cb_of cb) 0 (matching p db)). repeat split; auto.
  - exists db. rewrite ldb_open_inv by (repeat split; auto). repeat split; auto.
Qed.

Lemma run_fst_app {S} (step : S -> op -> S * obs) h : forall s,
  fst (run step s h) = fold_left (fun s o => fst (step s o)) h s.
Proof.
  induction h as [|o t IH]; intros s; cbn; [reflexivity|].
  destruct (step s o) as [s1 b] eqn:E1. destruct (run step s1 t) as [s2 bs] eqn:E2. cbn.
  rewrite <- IH, E2. reflexivity.
Qed.

Lemma ldb_run_inv : forall h db, ldb_inv db -> Forall op_bytes h -> Forall (fun o => ~ writes_key o schema_key) h ->
  exists db', fst (run ldb_step (Some db) h) = Some db' /\ ldb_inv db' /\
    forall k, db_get k db' = content_from (db_get k db) h k.
Proof.
  induction h as [|o t IH]; intros db Hi Hb Hw.
  - exists db. cbn. auto.
  - inversion Hb as [|? ? Hb1 Hb2]; inversion Hw as [|? ? Hw1 Hw2]; subst.
    destruct (ldb_step_inv db o Hi Hb1 Hw1) as (db1 & E1 & Hi1 & Hc1).
    destruct (IH db1 Hi1 Hb2 Hw2) as (db2 & E2 & Hi2 & Hc2).
    exists db2. split; [|split; [exact Hi2|]].
    + cbn [run]. destruct (ldb_step (Some db) o) as [s1 b] eqn:Es. cbn [fst] in E1. subst s1.
      destruct (run ldb_step (Some db1) t) as [s2 bs]. exact E2.
    + intros k. rewrite Hc2. unfold content_from. cbn. now rewrite Hc1.
Qed.

(** invariant of the mock model: the Go map has one entry per key *)
Lemma mock_step_inv m o : NoDup (keys_of m) ->
  NoDup (keys_of (fst (mock_step m o))) /\ forall k, db_get k (fst (mock_step m o)) = upd k (db_get k m) o.
Proof.
  intros Hnd. destruct o as [k v|k ty|k|p cb|]; cbn [mock_step fst].
  - split; [now apply m_put_nodup|]. intros k'. rewrite m_put_get. unfold upd, write_of. destruct (beq k' k); reflexivity.
  - split; auto.
  - split; [now apply db_del_nodup|]. intros k'. rewrite db_get_del by exact Hnd. unfold upd, write_of. destruct (beq k' k); reflexivity.
  - destruct (mock_iterate m p (cb_of cb)). cbn. split; auto.
  - split; auto.
Qed.

Lemma mock_run_inv : forall h m, NoDup (keys_of m) ->
  NoDup (keys_of (fst (run mock_step m h))) /\ forall k, db_get k (fst (run mock_step m h)) = content_from (db_get k m) h k.
Proof.
  induction h as [|o t IH]; intros m Hnd; [cbn; auto|].
  destruct (mock_step_inv m o Hnd) as [Hnd1 Hc1].
  cbn [run]. destruct (mock_step m o) as [m1 b] eqn:E1. cbn [fst] in Hnd1, Hc1.
  destruct (IH m1 Hnd1) as [Hnd2 Hc2]. destruct (run mock_step m1 t) as [m2 bs]. cbn [fst] in *.
  split; [exact Hnd2|]. intros k. rewrite Hc2. unfold content_from. cbn. now rewrite Hc1.
Qed.

Lemma mock_init_nodup : NoDup (keys_of mock_init).
Proof. cbn. repeat constructor. auto. Qed.

(** * both stores, same observations *)

(** a history that stays away from the two stores' own schema entries *)
Definition op_clean (o : op) : Prop :=
  match o with
  | OPut k _ | OGet k _ | ODel k => k <> schema_key /\ k <> mock_schema_key
  | OIter p _ => has_prefix p schema_key = false /\ has_prefix p mock_schema_key = false
  | OReopen => False
  end.

Definition sim (db m : list kv) : Prop :=
  ldb_inv db /\ NoDup (keys_of m) /\
  (forall k, k <> schema_key -> k <> mock_schema_key -> db_get k db = db_get k m).

Lemma sim_iterate db m p cb : sim db m -> isbytes p ->
  has_prefix p schema_key = false -> has_prefix p mock_schema_key = false ->
  ldb_iterate db p cb = Some (mock_iterate m p cb).
Proof.
  intros ((Hs & Hk & Hg) & Hnd & Hext) Hp H1 H2.
  rewrite (ldb_iterate_spec db p cb Hs Hk Hp), mock_iterate_spec. do 2 f_equal.
  apply sorted_db_ext; [now apply matching_sorted | now apply mock_entries_sorted |].
  intros k. rewrite (matching_get p db k Hs), (mock_entries_get m p k Hnd).
  destruct (has_prefix p k) eqn:E; [|reflexivity].
  apply Hext; intros ->; congruence.
Qed.

Lemma sim_step db m o : sim db m -> op_bytes o -> op_clean o ->
  snd (ldb_step (Some db) o) = snd (mock_step m o) /\
  exists db', fst (ldb_step (Some db) o) = Some db' /\ sim db' (fst (mock_step m o)).
Proof.
  intros Hsim Hb Hc. pose proof Hsim as (Hi & Hnd & Hext).
  assert (Hw : ~ writes_key o schema_key).
  { destruct o; cbn [writes_key op_clean] in *; try tauto; intros ->; tauto. }
  destruct (ldb_step_inv db o Hi Hb Hw) as (db' & E & Hi' & Hc').
  destruct (mock_step_inv m o Hnd) as [Hnd' Hm'].
  split.
  - destruct o as [k v|k ty|k|p cb|]; cbn [ldb_step mock_step snd op_clean op_bytes] in *; try reflexivity.
    + destruct Hc as [Hc1 Hc2]. now rewrite (Hext k Hc1 Hc2).
    + destruct Hc as [Hc1 Hc2]. rewrite (sim_iterate db m p (cb_of cb) Hsim Hb Hc1 Hc2).
      destruct (mock_iterate m p (cb_of cb)). reflexivity.
    + contradiction.
  - exists db'. split; [exact E|]. split; [exact Hi'|]. split; [exact Hnd'|].
    intros k Hk1 Hk2. rewrite Hc', Hm'. unfold upd. destruct (write_of o k); [reflexivity|]. now apply Hext.
Qed.

Lemma sim_run : forall h db m, sim db m -> Forall op_bytes h -> Forall op_clean h ->
  snd (run ldb_step (Some db) h) = snd (run mock_step m h).
Proof.
  induction h as [|o t IH]; intros db m Hsim Hb Hc; [reflexivity|].
  inversion Hb as [|? ? Hb1 Hb2]; inversion Hc as [|? ? Hc1 Hc2]; subst.
  destruct (sim_step db m o Hsim Hb1 Hc1) as (Ho & db' & E & Hsim').
  cbn [run]. destruct (ldb_step (Some db) o) as [s1 b1]. destruct (mock_step m o) as [m1 b2].
  cbn [fst snd] in *. subst s1 b2.
  specialize (IH db' m1 Hsim' Hb2 Hc2).
  destruct (run ldb_step (Some db') t) as [s2 bs1]. destruct (run mock_step m1 t) as [m2 bs2].
  cbn [snd] in *. now subst.
Qed.

Lemma sim_init : sim ldb_init mock_init.
Proof.
  split; [apply ldb_inv_init|]. split; [apply mock_init_nodup|].
  intros k H1 H2. cbn [ldb_init mock_init db_get].
  apply beq_neq in H1, H2. now rewrite H1, H2.
Qed.

(** * JSON uint64 round trip *)

Lemma digits_fuel_acc : forall f n acc, digits_fuel f n acc = digits_fuel f n [] ++ acc.
Proof.
  induction f as [|f IH]; intros n acc; cbn [digits_fuel]; [reflexivity|].
  destruct (n / 10 =? 0); [reflexivity|].
  rewrite (IH (n / 10) (48 + n mod 10 :: acc)), (IH (n / 10) [48 + n mod 10]).
  now rewrite <- app_assoc.
Qed.

Lemma mod10_digit n : is_digit (48 + n mod 10) = true.
Proof.
  unfold is_digit. pose proof (N.mod_lt n 10 ltac:(discriminate)) as H.
  apply andb_true_iff. split; apply N.leb_le; lia.
Qed.

Lemma digits_fuel_digits : forall f n, forallb is_digit (digits_fuel f n []) = true.
Proof.
  induction f as [|f IH]; intros n; cbn [digits_fuel]; [reflexivity|].
  destruct (n / 10 =? 0).
  - cbn [forallb]. now rewrite mod10_digit.
  - rewrite digits_fuel_acc, forallb_app, IH. cbn [forallb]. now rewrite mod10_digit.
Qed.

Lemma digits_value_snoc s d : digits_value (s ++ [d]) = digits_value s * 10 + (d - 48).
Proof. unfold digits_value. now rewrite fold_left_app. Qed.

Lemma digits_fuel_value : forall f n, n < 10 ^ N.of_nat f -> digits_value (digits_fuel f n []) = n.
Proof.
  induction f as [|f IH]; intros n Hn.
  - cbn in Hn. assert (n = 0) by lia. subst. reflexivity.
  - cbn [digits_fuel]. rewrite Nat2N.inj_succ, N.pow_succ_r' in Hn.
    pose proof (N.div_mod n 10 ltac:(discriminate)) as Hdm.
    pose proof (N.mod_lt n 10 ltac:(discriminate)) as Hm.
    destruct (n / 10 =? 0) eqn:E.
    + apply N.eqb_eq in E. unfold digits_value. cbn [fold_left]. lia.
    + rewrite digits_fuel_acc, digits_value_snoc, IH; [lia|].
      apply N.div_lt_upper_bound; [discriminate | lia].
Qed.

Lemma digits_fuel_head : forall f n, n <> 0 -> n < 10 ^ N.of_nat f ->
  exists d t, digits_fuel f n [] = d :: t /\ d <> 48.
Proof.
  induction f as [|f IH]; intros n Hn0 Hn.
  - cbn in Hn. lia.
  - cbn [digits_fuel]. rewrite Nat2N.inj_succ, N.pow_succ_r' in Hn.
    pose proof (N.div_mod n 10 ltac:(discriminate)) as Hdm.
    pose proof (N.mod_lt n 10 ltac:(discriminate)) as Hm.
    destruct (n / 10 =? 0) eqn:E.
    + apply N.eqb_eq in E. exists (48 + n mod 10), []. split; [reflexivity|]. lia.
    + apply N.eqb_neq in E. destruct (IH (n / 10) E) as (d & t & Hd & Hne).
      { apply N.div_lt_upper_bound; [discriminate | lia]. }
      rewrite digits_fuel_acc, Hd. exists d, (t ++ [48 + n mod 10]). split; [reflexivity | exact Hne].
Qed.

Lemma digit_not_ws d : is_digit d = true -> is_ws d = false.
Proof.
  unfold is_digit, is_ws. intros H. apply andb_true_iff in H as [H1 H2].
  apply N.leb_le in H1, H2.
  repeat (apply orb_false_iff; split); apply N.eqb_neq; lia.
Qed.

Lemma drop_ws_digits s : forallb is_digit s = true -> drop_ws s = s.
Proof.
  destruct s as [|d t]; cbn; [reflexivity|]. intros H. apply andb_true_iff in H as [H _].
  now rewrite (digit_not_ws d H).
Qed.

Lemma forallb_rev {A} (f : A -> bool) l : forallb f (rev l) = forallb f l.
Proof.
  induction l as [|x l IH]; cbn; [reflexivity|]. rewrite forallb_app, IH. cbn.
  rewrite andb_true_r. apply andb_comm.
Qed.

Lemma trim_ws_digits s : forallb is_digit s = true -> trim_ws s = s.
Proof.
  intros H. unfold trim_ws. rewrite (drop_ws_digits s H).
  rewrite drop_ws_digits by (now rewrite forallb_rev). apply rev_involutive.
Qed.

Lemma two64_lt_pow : two64 < 10 ^ N.of_nat 20.
Proof. vm_compute. reflexivity. Qed.

Theorem u64_roundtrip n : n < two64 -> decode TU64 (encode (VU64 n)) = GVal (VU64 n).
Proof.
  intros Hn. cbn [decode encode]. unfold dec_digits.
  assert (Hlt : n < 10 ^ N.of_nat 20) by (pose proof two64_lt_pow; lia).
  pose proof (digits_fuel_digits 20 n) as Hd.
  pose proof (digits_fuel_value 20 n Hlt) as Hv.
  rewrite (trim_ws_digits _ Hd).
  remember (digits_fuel 20 n []) as s eqn:Es.
  assert (Hhead : exists d t, s = d :: t /\ ((d =? 48) && negb (Nat.eqb (length t) 0) = false) /\ is_digit d = true).
  { destruct (N.eq_dec n 0) as [->|Hn0].
    - subst s. exists 48, []. split; [reflexivity|]. split; reflexivity.
    - destruct (digits_fuel_head 20 n Hn0 Hlt) as (d & t & Hs & Hne). rewrite <- Es in Hs.
      exists d, t. split; [exact Hs|]. split.
      + apply N.eqb_neq in Hne. now rewrite Hne.
      + rewrite Hs in Hd. cbn in Hd. now apply andb_true_iff in Hd as [Hd _]. }
  destruct Hhead as (d & t & Hs & Hlz & Hdig).
  assert (Hnull : beq s null_lit = false).
  { apply beq_neq. intros Heq. rewrite Hs in Heq. unfold null_lit in Heq. inversion Heq; subst d.
    discriminate Hdig. }
  rewrite Hnull. unfold parse_u64. rewrite Hs. rewrite <- Hs. rewrite Hlz, Hd, Hv.
  apply N.ltb_lt in Hn. rewrite Hn. reflexivity.
Qed.

Lemma raw_roundtrip b : decode TRaw (encode (VRaw b)) = GVal (VRaw b).
Proof. reflexivity. Qed.

(** * statements used by Props.v *)

Definition valid_val (v : val) : Prop := match v with VRaw _ => True | VU64 n => n < two64 end.

Lemma value_roundtrip v : valid_val v -> decode (ty_of v) (encode v) = GVal v.
Proof. destruct v as [b|n]; intros H; [apply raw_roundtrip | now apply u64_roundtrip]. Qed.

Definition untouched (k : bytes) (h : list op) : Prop := Forall (fun o => ~ writes_key o k) h.

Lemma content_untouched k : forall h c0, untouched k h -> content_from c0 h k = c0.
Proof.
  induction h as [|o t IH]; intros c0 H; [reflexivity|].
  inversion H as [|? ? H1 H2]; subst. unfold content_from in *. cbn [fold_left].
  assert (E : upd k c0 o = c0).
  { unfold upd, write_of. destruct o as [k' v|k' ty|k'|p cb|]; cbn [writes_key] in H1; try reflexivity;
      (destruct (beq k k') eqn:E; [apply beq_eq in E; congruence | reflexivity]). }
  rewrite E. now apply IH.
Qed.

Lemma content_after_put k v h1 h2 c0 : untouched k h2 ->
  content_from c0 (h1 ++ OPut k v :: h2) k = Some (encode v).
Proof.
  intros H. unfold content_from. rewrite fold_left_app. cbn [fold_left].
  unfold upd at 2. cbn [write_of]. rewrite beq_refl. now apply content_untouched.
Qed.

Lemma content_after_del k h1 h2 c0 : untouched k h2 ->
  content_from c0 (h1 ++ ODel k :: h2) k = None.
Proof.
  intros H. unfold content_from. rewrite fold_left_app. cbn [fold_left].
  unfold upd at 2. cbn [write_of]. rewrite beq_refl. now apply content_untouched.
Qed.

(** observation of one more operation after a history *)
Definition obs_after {S} (step : S -> op -> S * obs) (s0 : S) (h : list op) (o : op) : obs :=
  snd (step (fst (run step s0 h)) o).

Definition ldb_content (h : list op) (k : bytes) : option bytes := content_from (db_get k ldb_init) h k.
Definition mock_content (h : list op) (k : bytes) : option bytes := content_from (db_get k mock_init) h k.

(** [M] is THE list of entries under prefix [p] of the map [content]: strictly
    ascending keys, and exactly the bindings of [content] whose key has the prefix *)
Definition is_prefix_listing (content : bytes -> option bytes) (p : bytes) (M : list kv) : Prop :=
  sorted_db M /\ forall k v, In (k, v) M <-> has_prefix p k = true /\ content k = Some v.

Lemma listing_of_get (M : list kv) (content : bytes -> option bytes) p :
  sorted_db M -> (forall k, db_get k M = if has_prefix p k then content k else None) ->
  is_prefix_listing content p M.
Proof.
  intros Hs Hg. split; [exact Hs|]. intros k v. split.
  - intros Hin. apply (db_in_get _ _ _ (sorted_nodup _ Hs)) in Hin. rewrite Hg in Hin.
    destruct (has_prefix p k); [auto | discriminate].
  - intros [Hp Hc]. apply db_get_in. rewrite Hg, Hp. exact Hc.
Qed.

Lemma listing_unique content p M1 M2 :
  is_prefix_listing content p M1 -> is_prefix_listing content p M2 -> M1 = M2.
Proof.
  intros [Hs1 H1] [Hs2 H2]. apply sorted_db_ext; auto. intros k.
  destruct (db_get k M1) as [v|] eqn:E1.
  - apply db_get_in in E1. apply H1 in E1. apply H2 in E1.
    symmetry. now apply db_in_get; [apply sorted_nodup|].
  - destruct (db_get k M2) as [v|] eqn:E2; [|reflexivity].
    apply db_get_in in E2. apply H2 in E2. apply H1 in E2.
    apply (db_in_get _ _ _ (sorted_nodup _ Hs1)) in E2. congruence.
Qed.

Definition hist_ok (h : list op) : Prop := Forall op_bytes h /\ untouched schema_key h.

Lemma untouched_iff k h : untouched k h <-> Forall (fun o => ~ writes_key o k) h.
Proof. reflexivity. Qed.

Lemma ldb_after h : hist_ok h ->
  exists db, fst (ldb_run h) = Some db /\ ldb_inv db /\ forall k, db_get k db = ldb_content h k.
Proof. intros [Hb Hu]. exact (ldb_run_inv h ldb_init ldb_inv_init Hb Hu). Qed.

Lemma mock_after h :
  NoDup (keys_of (fst (mock_run h))) /\ forall k, db_get k (fst (mock_run h)) = mock_content h k.
Proof. exact (mock_run_inv h mock_init mock_init_nodup). Qed.

Lemma ldb_get_put_delete h k : hist_ok h ->
  exists db, fst (ldb_run h) = Some db /\ db_get k db = ldb_content h k.
Proof. intros H. destruct (ldb_after h H) as (db & E & _ & Hc). exists db. auto. Qed.

Lemma ldb_read_back h1 h2 k v : hist_ok (h1 ++ OPut k v :: h2) -> untouched k h2 -> valid_val v ->
  obs_after ldb_step (Some ldb_init) (h1 ++ OPut k v :: h2) (OGet k (ty_of v)) = BGet (GVal v).
Proof.
  intros H Hu Hv. destruct (ldb_after _ H) as (db & E & _ & Hc). unfold obs_after. fold (ldb_run (h1 ++ OPut k v :: h2)).
  rewrite E. cbn [ldb_step snd]. rewrite Hc. unfold ldb_content. rewrite content_after_put by exact Hu.
  unfold get_obs. now rewrite value_roundtrip.
Qed.

Lemma mock_read_back h1 h2 k v : untouched k h2 -> valid_val v ->
  obs_after mock_step mock_init (h1 ++ OPut k v :: h2) (OGet k (ty_of v)) = BGet (GVal v).
Proof.
  intros Hu Hv. destruct (mock_after (h1 ++ OPut k v :: h2)) as [_ Hc]. unfold obs_after.
  fold (mock_run (h1 ++ OPut k v :: h2)). cbn [mock_step snd]. rewrite Hc. unfold mock_content.
  rewrite content_after_put by exact Hu. unfold get_obs. now rewrite value_roundtrip.
Qed.

Lemma ldb_deleted_absent h1 h2 k ty : hist_ok (h1 ++ ODel k :: h2) -> untouched k h2 ->
  obs_after ldb_step (Some ldb_init) (h1 ++ ODel k :: h2) (OGet k ty) = BGet GNotFound.
Proof.
  intros H Hu. destruct (ldb_after _ H) as (db & E & _ & Hc). unfold obs_after. fold (ldb_run (h1 ++ ODel k :: h2)).
  rewrite E. cbn [ldb_step snd]. rewrite Hc. unfold ldb_content. now rewrite content_after_del.
Qed.

Lemma mock_deleted_absent h1 h2 k ty : untouched k h2 ->
  obs_after mock_step mock_init (h1 ++ ODel k :: h2) (OGet k ty) = BGet GNotFound.
Proof.
  intros Hu. destruct (mock_after (h1 ++ ODel k :: h2)) as [_ Hc]. unfold obs_after.
  fold (mock_run (h1 ++ ODel k :: h2)). cbn [mock_step snd]. rewrite Hc. unfold mock_content.
  now rewrite content_after_del.
Qed.

Lemma ldb_iterate_listing h p cb : hist_ok h -> isbytes p ->
  exists db M, fst (ldb_run h) = Some db /\ is_prefix_listing (ldb_content h) p M /\
    ldb_iterate db p cb = Some (walk cb 0 M).
Proof.
  intros H Hp. destruct (ldb_after h H) as (db & E & (Hs & Hk & Hg) & Hc).
  exists db, (matching p db). split; [exact E|]. split.
  - apply listing_of_get; [now apply matching_sorted|]. intros k. rewrite matching_get by exact Hs. now rewrite Hc.
  - now apply ldb_iterate_spec.
Qed.

Lemma mock_iterate_listing h p cb :
  exists M, is_prefix_listing (mock_content h) p M /\ mock_iterate (fst (mock_run h)) p cb = walk cb 0 M.
Proof.
  destruct (mock_after h) as [Hnd Hc]. exists (mock_entries (fst (mock_run h)) p). split.
  - apply listing_of_get; [now apply mock_entries_sorted|]. intros k. rewrite mock_entries_get by exact Hnd. now rewrite Hc.
  - apply mock_iterate_spec.
Qed.

Lemma ldb_reopen_keeps h : hist_ok h ->
  exists db, fst (ldb_run h) = Some db /\ ldb_step (Some db) OReopen = (Some db, BReopen true).
Proof.
  intros H. destruct (ldb_after h H) as (db & E & Hi & _). exists db. split; [exact E|].
  cbn [ldb_step]. now rewrite ldb_open_inv.
Qed.

Lemma same_map h : Forall op_bytes h -> Forall op_clean h -> snd (ldb_run h) = snd (mock_run h).
Proof. intros Hb Hc. exact (sim_run h ldb_init mock_init sim_init Hb Hc). Qed.
