(** C18/C19 shared — byte strings with Go's [bytes.Compare] order, the
    ordered key/value backend (the contract of goleveldb the repo code relies
    on: a map whose iterators enumerate keys in ascending byte order), and the
    iterator/cursor state machine of goleveldb's [dbIter]
    (SOI / positioned / EOI with Seek, Next, Prev, First, Last).

    Definitions and their basic lemmas.  Bytes are [N] (< 256 is a
    hypothesis where it matters: [isbytes]). *)
From Coq Require Import List NArith Bool Lia Arith Sorting.Sorted Permutation.
Import ListNotations.
Local Open Scope N_scope.

Definition bytes := list N.
Definition kv := (bytes * bytes)%type.
Definition isbyte (b : N) : Prop := b < 256.
Definition isbytes (l : bytes) : Prop := Forall isbyte l.

(** [bytes.Compare] *)
Fixpoint bcmp (a b : bytes) : comparison :=
  match a, b with
  | [], [] => Eq
  | [], _ :: _ => Lt
  | _ :: _, [] => Gt
  | x :: a', y :: b' => match N.compare x y with Eq => bcmp a' b' | c => c end
  end.
Definition blt (a b : bytes) : bool := match bcmp a b with Lt => true | _ => false end.
Definition ble (a b : bytes) : bool := match bcmp a b with Gt => false | _ => true end.
Definition beq (a b : bytes) : bool := match bcmp a b with Eq => true | _ => false end.

(** [bytes.HasPrefix k p] / [strings.HasPrefix] *)
Fixpoint has_prefix (p k : bytes) : bool :=
  match p, k with
  | [], _ => true
  | _ :: _, [] => false
  | x :: p', y :: k' => N.eqb x y && has_prefix p' k'
  end.

Lemma bcmp_refl a : bcmp a a = Eq.
Proof. induction a as [|x a IH]; cbn; [reflexivity|]. now rewrite N.compare_refl. Qed.

Lemma bcmp_eq a : forall b, bcmp a b = Eq <-> a = b.
Proof.
  induction a as [|x a IH]; intros [|y b]; cbn; split; intros H; try reflexivity; try discriminate.
  - destruct (N.compare x y) eqn:E; try discriminate. apply N.compare_eq_iff in E. apply IH in H. now subst.
  - inversion H; subst. rewrite N.compare_refl. now apply IH.
Qed.

Lemma beq_eq a b : beq a b = true <-> a = b.
Proof. unfold beq. rewrite <- bcmp_eq. destruct (bcmp a b); split; intros; congruence. Qed.
Lemma beq_refl a : beq a a = true.
Proof. now apply beq_eq. Qed.
Lemma beq_neq a b : beq a b = false <-> a <> b.
Proof. rewrite <- beq_eq. destruct (beq a b); split; intros; congruence. Qed.
Lemma beq_sym a b : beq a b = beq b a.
Proof. destruct (beq a b) eqn:E1, (beq b a) eqn:E2; try reflexivity.
  - apply beq_eq in E1. subst. now rewrite beq_refl in E2.
  - apply beq_eq in E2. subst. now rewrite beq_refl in E1. Qed.

Lemma bcmp_opp a : forall b, bcmp b a = CompOpp (bcmp a b).
Proof.
  induction a as [|x a IH]; intros [|y b]; cbn; try reflexivity.
  rewrite (N.compare_antisym x y). destruct (N.compare x y); cbn; auto.
Qed.

Lemma bcmp_lt_trans a : forall b c, bcmp a b = Lt -> bcmp b c = Lt -> bcmp a c = Lt.
Proof.
  induction a as [|x a IH]; intros [|y b] [|z c]; cbn; intros H1 H2; try discriminate; try reflexivity.
  destruct (N.compare x y) eqn:E1; try discriminate.
  - apply N.compare_eq_iff in E1; subst y.
    destruct (N.compare x z) eqn:E2; try discriminate; try reflexivity. eapply IH; eauto.
  - destruct (N.compare y z) eqn:E2; try discriminate.
    + apply N.compare_eq_iff in E2; subst z. now rewrite E1.
    + rewrite N.compare_lt_iff in E1, E2. assert (E : x < z) by lia. unfold N.lt in E. now rewrite E.
Qed.

Lemma bcmp_lt_irrefl a : bcmp a a <> Lt.
Proof. now rewrite bcmp_refl. Qed.

Lemma blt_lt a b : blt a b = true <-> bcmp a b = Lt.
Proof. unfold blt. destruct (bcmp a b); split; intros; congruence. Qed.
Lemma ble_spec a b : ble a b = negb (blt b a).
Proof. unfold ble, blt. rewrite (bcmp_opp a b). destruct (bcmp a b); reflexivity. Qed.
Lemma ble_lt_or_eq a b : ble a b = true <-> bcmp a b = Lt \/ a = b.
Proof. unfold ble. rewrite <- bcmp_eq. destruct (bcmp a b); split; intros H; try reflexivity; auto; try discriminate; destruct H; discriminate. Qed.

Lemma has_prefix_refl p : has_prefix p p = true.
Proof. induction p as [|x p IH]; cbn; [reflexivity|]. now rewrite N.eqb_refl. Qed.
Lemma has_prefix_app p s : has_prefix p (p ++ s) = true.
Proof. induction p as [|x p IH]; cbn; [reflexivity|]. now rewrite N.eqb_refl. Qed.
Lemma has_prefix_split p : forall k, has_prefix p k = true <-> exists s, k = p ++ s.
Proof.
  induction p as [|x p IH]; intros k; cbn.
  - split; [intros _; now exists k | reflexivity].
  - destruct k as [|y k]; [split; [discriminate | intros [s Hs]; discriminate]|].
    rewrite andb_true_iff, N.eqb_eq, IH. split.
    + intros [-> [s ->]]. now exists s.
    + intros [s Hs]. inversion Hs; subst. split; [reflexivity | now exists s].
Qed.

(** ** [util.BytesPrefix]: the half-open key range of a prefix *)

(** the [Limit] of [util.BytesPrefix(p)]: [p] cut after its last byte below
    0xff, that byte incremented; [None] (= nil, unbounded) when there is none *)
Fixpoint prefix_limit (p : bytes) : option bytes :=
  match p with
  | [] => None
  | x :: rest =>
      match prefix_limit rest with
      | Some l => Some (x :: l)
      | None => if x <? 255 then Some [x + 1] else None
      end
  end.

Definition below (k : bytes) (lim : option bytes) : bool :=
  match lim with None => true | Some l => blt k l end.

(** [Range{Start, Limit}] membership of goleveldb: Start <= k < Limit *)
Definition in_range (start : bytes) (lim : option bytes) (k : bytes) : bool :=
  ble start k && below k lim.

Lemma prefix_range p : forall k, isbytes p -> isbytes k ->
  in_range p (prefix_limit p) k = has_prefix p k.
Proof.
  unfold in_range. induction p as [|x p IH]; intros k Hp Hk.
  - cbn. destruct k; reflexivity.
  - destruct k as [|y k]; [reflexivity|].
    inversion Hp as [|? ? Hx Hp']; inversion Hk as [|? ? Hy Hk']; subst.
    specialize (IH k Hp' Hk'). unfold isbyte in Hx, Hy.
    cbn [prefix_limit has_prefix]. unfold below in *. unfold ble, blt in *. cbn [bcmp].
    destruct (N.compare x y) eqn:E.
    + apply N.compare_eq_iff in E; subst y. rewrite N.eqb_refl. cbn [andb].
      destruct (prefix_limit p) as [l|].
      * cbn [bcmp]. rewrite N.compare_refl. exact IH.
      * destruct (x <? 255) eqn:Ex.
        -- cbn [bcmp]. assert (E : (x ?= x + 1) = Lt) by (apply N.compare_lt_iff; lia). rewrite E.
           rewrite <- IH. now rewrite andb_true_r.
        -- exact IH.
    + rewrite N.compare_lt_iff in E. assert (Hne : (x =? y) = false) by (apply N.eqb_neq; lia).
      rewrite Hne. cbn [andb].
      destruct (prefix_limit p) as [l|].
      * cbn [bcmp]. assert (E2 : (y ?= x) = Gt) by (apply N.compare_gt_iff; lia). now rewrite E2.
      * destruct (x <? 255) eqn:Ex.
        -- cbn [bcmp]. destruct (N.compare y (x + 1)) eqn:E2.
           ++ destruct k; reflexivity.
           ++ rewrite N.compare_lt_iff in E2. lia.
           ++ reflexivity.
        -- apply N.ltb_ge in Ex. lia.
    + rewrite N.compare_gt_iff in E. assert (Hne : (x =? y) = false) by (apply N.eqb_neq; lia).
      rewrite Hne. reflexivity.
Qed.

(** ** the ordered backend: association list, keys strictly ascending *)

Definition keys_of (db : list kv) : list bytes := map fst db.
Definition bltP (a b : bytes) : Prop := bcmp a b = Lt.
Definition sorted_keys (l : list bytes) : Prop := StronglySorted bltP l.
Definition sorted_db (db : list kv) : Prop := sorted_keys (keys_of db).

(** first entry with the key (Go map lookup / leveldb Get) *)
Fixpoint db_get (k : bytes) (db : list kv) : option bytes :=
  match db with
  | [] => None
  | (k', v) :: t => if beq k k' then Some v else db_get k t
  end.

(** ordered insert-or-replace (leveldb Put) *)
Fixpoint db_put (k v : bytes) (db : list kv) : list kv :=
  match db with
  | [] => [(k, v)]
  | (k', v') :: t =>
      match bcmp k k' with
      | Eq => (k, v) :: t
      | Lt => (k, v) :: (k', v') :: t
      | Gt => (k', v') :: db_put k v t
      end
  end.

(** remove the entry with the key (leveldb Delete, Go [delete(m,k)]) *)
Fixpoint db_del (k : bytes) (db : list kv) : list kv :=
  match db with
  | [] => []
  | (k', v') :: t => if beq k k' then t else (k', v') :: db_del k t
  end.

Lemma db_get_put k k' v db : db_get k (db_put k' v db) = if beq k k' then Some v else db_get k db.
Proof.
  induction db as [|[k2 v2] t IH]; cbn.
  - destruct (beq k k'); reflexivity.
  - destruct (bcmp k' k2) eqn:E; cbn.
    + apply bcmp_eq in E; subst k2. destruct (beq k k'); reflexivity.
    + destruct (beq k k'); reflexivity.
    + rewrite IH. destruct (beq k k') eqn:E1; [|reflexivity].
      apply beq_eq in E1; subst k'. unfold beq. now rewrite E.
Qed.

Lemma keys_put_in k v db x : In x (keys_of (db_put k v db)) <-> x = k \/ In x (keys_of db).
Proof.
  induction db as [|[k2 v2] t IH]; cbn.
  - intuition.
  - destruct (bcmp k k2) eqn:E; cbn.
    + apply bcmp_eq in E; subst k2. intuition.
    + intuition.
    + fold (keys_of (db_put k v t)). rewrite IH. fold (keys_of t). intuition.
Qed.

Lemma db_put_sorted k v db : sorted_db db -> sorted_db (db_put k v db).
Proof.
  unfold sorted_db, sorted_keys. induction db as [|[k2 v2] t IH]; cbn; intros H.
  - repeat constructor.
  - inversion H as [|? ? Ht Hall]; subst. destruct (bcmp k k2) eqn:E; cbn.
    + apply bcmp_eq in E; subst k2. now constructor.
    + constructor; [exact H|]. constructor; [exact E|].
      rewrite Forall_forall in *. intros x Hx. eapply bcmp_lt_trans; [exact E | now apply Hall].
    + constructor; [now apply IH|]. rewrite Forall_forall in *. intros x Hx.
      fold (keys_of (db_put k v t)) in Hx. apply keys_put_in in Hx as [->|Hx].
      * unfold bltP. rewrite bcmp_opp, E. reflexivity.
      * now apply Hall.
Qed.

Lemma keys_del_in k db x : In x (keys_of (db_del k db)) -> In x (keys_of db).
Proof.
  induction db as [|[k2 v2] t IH]; cbn; [tauto|].
  destruct (beq k k2); cbn; intuition.
Qed.

Lemma db_del_sorted k db : sorted_db db -> sorted_db (db_del k db).
Proof.
  unfold sorted_db, sorted_keys. induction db as [|[k2 v2] t IH]; cbn; intros H; [constructor|].
  inversion H as [|? ? Ht Hall]; subst. destruct (beq k k2); [exact Ht|]. cbn.
  constructor; [now apply IH|]. rewrite Forall_forall in *. intros x Hx. apply Hall.
  eapply keys_del_in; exact Hx.
Qed.

Lemma sorted_nodup l : sorted_keys l -> NoDup l.
Proof.
  induction 1 as [|x l Hs IH Hall]; constructor; [|exact IH].
  intros Hin. rewrite Forall_forall in Hall. apply Hall in Hin. now apply bcmp_lt_irrefl in Hin.
Qed.

Lemma db_get_notin k db : ~ In k (keys_of db) -> db_get k db = None.
Proof.
  induction db as [|[k2 v2] t IH]; cbn; [reflexivity|]. intros H.
  destruct (beq k k2) eqn:E; [apply beq_eq in E; subst; tauto|]. apply IH. tauto.
Qed.

Lemma db_get_in k v db : db_get k db = Some v -> In (k, v) db.
Proof.
  induction db as [|[k2 v2] t IH]; cbn; [discriminate|].
  destruct (beq k k2) eqn:E; [apply beq_eq in E; subst; intros [= ->]; now left|]. intros H; right; now apply IH.
Qed.

Lemma db_in_get k v db : NoDup (keys_of db) -> In (k, v) db -> db_get k db = Some v.
Proof.
  induction db as [|[k2 v2] t IH]; cbn; [tauto|]. intros Hnd [H|H].
  - inversion H; subst. now rewrite beq_refl.
  - inversion Hnd as [|? ? Hni Hnd']; subst.
    destruct (beq k k2) eqn:E.
    + apply beq_eq in E; subst k2. exfalso. apply Hni. change k with (fst (k, v)). now apply in_map.
    + now apply IH.
Qed.

Lemma db_get_del k k' db : NoDup (keys_of db) ->
  db_get k (db_del k' db) = if beq k k' then None else db_get k db.
Proof.
  induction db as [|[k2 v2] t IH]; cbn; intros Hnd.
  - destruct (beq k k'); reflexivity.
  - inversion Hnd as [|? ? Hni Hnd']; subst.
    destruct (beq k' k2) eqn:E.
    + apply beq_eq in E; subst k2. destruct (beq k k') eqn:E2; [|reflexivity].
      apply beq_eq in E2; subst k'. now apply db_get_notin.
    + cbn. rewrite (IH Hnd'). destruct (beq k k2) eqn:E2; [|reflexivity].
      apply beq_eq in E2; subst k2. rewrite beq_sym in E. now rewrite E.
Qed.

Lemma db_del_nodup k db : NoDup (keys_of db) -> NoDup (keys_of (db_del k db)).
Proof.
  induction db as [|[k2 v2] t IH]; cbn; intros Hnd; [constructor|].
  inversion Hnd as [|? ? Hni Hnd']; subst. destruct (beq k k2); [exact Hnd'|]. cbn.
  constructor; [|now apply IH]. intros Hin. apply Hni. eapply keys_del_in; exact Hin.
Qed.

(** two strictly ascending association lists with the same lookups are equal *)
Lemma sorted_db_ext (a : list kv) : forall b, sorted_db a -> sorted_db b ->
  (forall k, db_get k a = db_get k b) -> a = b.
Proof.
  unfold sorted_db, sorted_keys.
  induction a as [|[k v] a IH]; intros [|[k2 v2] b] Ha Hb Hext.
  - reflexivity.
  - specialize (Hext k2). cbn in Hext. now rewrite beq_refl in Hext.
  - specialize (Hext k). cbn in Hext. now rewrite beq_refl in Hext.
  - cbn in Ha, Hb. inversion Ha as [|? ? Ha' Hla]; inversion Hb as [|? ? Hb' Hlb]; subst.
    rewrite Forall_forall in Hla, Hlb.
    assert (Hk : k = k2).
    { destruct (bcmp k k2) eqn:E.
      - now apply bcmp_eq.
      - exfalso. pose proof (Hext k) as H. cbn in H. rewrite beq_refl in H.
        assert (E2 : beq k k2 = false) by (unfold beq; now rewrite E). rewrite E2 in H.
        symmetry in H. apply db_get_in in H. apply (in_map fst) in H. cbn in H.
        apply Hlb in H. unfold bltP in H. rewrite bcmp_opp, E in H. discriminate.
      - exfalso. pose proof (Hext k2) as H. cbn in H. rewrite beq_refl in H.
        assert (E2 : beq k2 k = false) by (unfold beq; rewrite bcmp_opp, E; reflexivity). rewrite E2 in H.
        apply db_get_in in H. apply (in_map fst) in H. cbn in H.
        apply Hla in H. unfold bltP in H. rewrite H in E. discriminate. }
    subst k2. pose proof (Hext k) as Hv. cbn in Hv. rewrite beq_refl in Hv. inversion Hv; subst v2.
    f_equal. apply IH; auto. intros x. specialize (Hext x). cbn in Hext.
    destruct (beq x k) eqn:E; [|exact Hext].
    apply beq_eq in E; subst x.
    rewrite !db_get_notin; auto.
    + intros Hin. apply Hlb in Hin. now apply bcmp_lt_irrefl in Hin.
    + intros Hin. apply Hla in Hin. now apply bcmp_lt_irrefl in Hin.
Qed.

(** entries of a range, in order (what [NewIterator(rng)] enumerates) *)
Definition range_items (start : bytes) (lim : option bytes) (db : list kv) : list kv :=
  filter (fun e => in_range start lim (fst e)) db.

Lemma filter_sorted (f : kv -> bool) db : sorted_db db -> sorted_db (filter f db).
Proof.
  unfold sorted_db, sorted_keys. induction db as [|e t IH]; cbn; intros H; [constructor|].
  inversion H as [|? ? Ht Hall]; subst. destruct (f e); [|now apply IH]. cbn.
  constructor; [now apply IH|]. rewrite Forall_forall in *. intros x Hx. apply Hall.
  unfold keys_of in *. rewrite in_map_iff in *. destruct Hx as [y [Hy Hin]]. exists y. split; [exact Hy|].
  apply filter_In in Hin. tauto.
Qed.

Lemma db_get_filter (f : kv -> bool) k db : NoDup (keys_of db) ->
  db_get k (filter f db) = match db_get k db with Some v => if f (k, v) then Some v else None | None => None end.
Proof.
  induction db as [|[k2 v2] t IH]; cbn; intros Hnd; [reflexivity|].
  inversion Hnd as [|? ? Hni Hnd']; subst.
  destruct (beq k k2) eqn:E.
  - apply beq_eq in E; subst k2. destruct (f (k, v2)) eqn:Ef; cbn.
    + now rewrite beq_refl.
    + rewrite (IH Hnd'). rewrite db_get_notin; auto.
  - destruct (f (k2, v2)); cbn; [rewrite E|]; now apply IH.
Qed.

(** ** goleveldb [dbIter] as a zipper *)

Inductive cursor :=
| CSOI (items : list kv)                                  (* before the first entry *)
| CEOI (rev_items : list kv)                              (* after the last entry *)
| CAt (before_rev : list kv) (cur : kv) (after : list kv).

Definition cur_items (c : cursor) : list kv :=
  match c with CSOI l => l | CEOI r => rev r | CAt b x a => rev b ++ x :: a end.
Definition cur_valid (c : cursor) : bool := match c with CAt _ _ _ => true | _ => false end.
(** [Key()]/[Value()] return nil when not positioned *)
Definition cur_entry (c : cursor) : option kv := match c with CAt _ x _ => Some x | _ => None end.
Definition cur_key (c : cursor) : bytes := match c with CAt _ x _ => fst x | _ => [] end.
Definition cur_value (c : cursor) : bytes := match c with CAt _ x _ => snd x | _ => [] end.

Definition cur_first (l : list kv) : cursor := match l with [] => CEOI [] | x :: a => CAt [] x a end.
Definition cur_last (l : list kv) : cursor := match rev l with [] => CSOI [] | x :: b => CAt b x [] end.

Fixpoint seek_from (b : list kv) (l : list kv) (k : bytes) : cursor :=
  match l with
  | [] => CEOI b
  | x :: a => if ble k (fst x) then CAt b x a else seek_from (x :: b) a k
  end.
Definition cur_seek (c : cursor) (k : bytes) : cursor := seek_from [] (cur_items c) k.
Definition cur_next (c : cursor) : cursor :=
  match c with
  | CSOI l => cur_first l
  | CEOI r => CEOI r
  | CAt b x [] => CEOI (x :: b)
  | CAt b x (y :: a) => CAt (x :: b) y a
  end.
Definition cur_prev (c : cursor) : cursor :=
  match c with
  | CSOI l => CSOI l
  | CEOI r => cur_last (rev r)
  | CAt [] x a => CSOI (x :: a)
  | CAt (p :: b) x a => CAt b p (x :: a)
  end.
Definition cur_to_last (c : cursor) : cursor := cur_last (cur_items c).

(** remaining entries from the cursor position forward *)
Definition cur_rest (c : cursor) : list kv :=
  match c with CSOI _ => [] | CEOI _ => [] | CAt _ x a => x :: a end.

Lemma seek_from_items b l k : cur_items (seek_from b l k) = rev b ++ l.
Proof.
  revert b; induction l as [|x a IH]; intros b; cbn.
  - now rewrite app_nil_r.
  - destruct (ble k (fst x)); cbn; [reflexivity|]. rewrite IH. cbn. now rewrite <- app_assoc.
Qed.

(** on a sorted list, seeking lands on the entries [>= k] *)
Lemma seek_from_rest b l k : sorted_db l ->
  cur_rest (seek_from b l k) = filter (fun e => ble k (fst e)) l.
Proof.
  unfold sorted_db, sorted_keys. revert b; induction l as [|x a IH]; intros b Hs; cbn; [reflexivity|].
  cbn in Hs. inversion Hs as [|? ? Hs' Hall]; subst.
  destruct (ble k (fst x)) eqn:E.
  - cbn. f_equal. symmetry. rewrite Forall_forall in Hall.
    assert (Hf : forall e, In e a -> (fun e => ble k (fst e)) e = true).
    { intros e He. apply (in_map fst) in He. apply Hall in He. apply ble_lt_or_eq.
      apply ble_lt_or_eq in E as [E|E]; [left; eapply bcmp_lt_trans; eauto | subst; now left]. }
    clear - Hf. induction a as [|y a IH]; cbn; [reflexivity|].
    rewrite Hf by now left. f_equal. apply IH. intros e He. apply Hf. now right.
  - now apply IH.
Qed.

(** ** iteration callbacks (shared by the state stores and shed.Index.Iterate) *)

(** what a [storage.StateIterFunc] returns on its [i]-th call: (stop, err);
    err is an error code chosen by the caller *)
Definition cbfun := nat -> bytes -> bytes -> (bool * option N).

(** the specification-level walk over a list of entries: call the callback
    on each entry in turn; an error ends the walk and is the result; stop ends
    it with no error.  Returns the entries the callback was called on. *)
Fixpoint walk (cb : cbfun) (i : nat) (l : list kv) : list kv * option N :=
  match l with
  | [] => ([], None)
  | (k, v) :: t =>
      let '(stop, err) := cb i k v in
      match err with
      | Some e => ([(k, v)], Some e)
      | None => if stop then ([(k, v)], None)
                else let '(vis, r) := walk cb (S i) t in ((k, v) :: vis, r)
      end
  end.

(** data description of a callback (what the harness can run) *)
Inductive cbspec :=
| CbNever                                            (* always (false, nil) *)
| CbAt (n : nat) (stop : bool) (err : option N)      (* (stop, err) on the n-th call (0-based) *)
| CbKey (k : bytes) (stop : bool) (err : option N).  (* (stop, err) when called with key k *)
Definition cb_of (s : cbspec) : cbfun :=
  fun i k _ =>
    match s with
    | CbNever => (false, None)
    | CbAt n stop err => if Nat.eqb i n then (stop, err) else (false, None)
    | CbKey k' stop err => if beq k k' then (stop, err) else (false, None)
    end.

