(** C18 — property theorems only.  "Both state-store implementations behave
    as the same string-keyed map".  The models are those of the code after
    proposed/C18/fix-state-iter-err.patch and proposed/C18/fix-mock-order.patch.

    Vocabulary (Model.v / Proofs.v):
    - a history [h] is any list of [OPut k v | OGet k ty | ODel k | OIter p cb | OReopen];
    - [ldb_run h] / [mock_run h]: final state and observations of the leveldb / mock model;
    - [ldb_content h k] / [mock_content h k]: the value the LAST write of [h] to [k] left
      (Put: the encoded value, Delete: nothing), or the fresh store's own entry;
    - [hist_ok h]: keys are byte strings and [h] never writes the leveldb store's internal
      entry "statestore_schema" (the only reserved key);
    - [walk cb 0 M]: call the callback on the entries of [M] in order until it stops or fails. *)
From Coq Require Import List NArith Bool.
Import ListNotations.
Require Import Aurora.C18.KV Aurora.C18.Model Aurora.C18.Proofs.
Local Open Scope N_scope.

(** a value read back equals the value written (typed: raw bytes through
    Marshal/UnmarshalBinary, uint64 through encoding/json), whatever happened
    before and whatever happened since to OTHER keys — in both stores *)
Theorem C18_read_back : forall (h1 h2 : list op) (k : bytes) (v : val),
  hist_ok (h1 ++ OPut k v :: h2) -> untouched k h2 -> valid_val v ->
  obs_after ldb_step (Some ldb_init) (h1 ++ OPut k v :: h2) (OGet k (ty_of v)) = BGet (GVal v) /\
  obs_after mock_step mock_init (h1 ++ OPut k v :: h2) (OGet k (ty_of v)) = BGet (GVal v).
Proof. intros h1 h2 k v H Hu Hv. exact (conj (ldb_read_back h1 h2 k v H Hu Hv) (mock_read_back h1 h2 k v Hu Hv)). Qed.
Print Assumptions C18_read_back.

(** deleted keys are absent *)
Theorem C18_deleted_absent : forall (h1 h2 : list op) (k : bytes) (ty : gty),
  hist_ok (h1 ++ ODel k :: h2) -> untouched k h2 ->
  obs_after ldb_step (Some ldb_init) (h1 ++ ODel k :: h2) (OGet k ty) = BGet GNotFound /\
  obs_after mock_step mock_init (h1 ++ ODel k :: h2) (OGet k ty) = BGet GNotFound.
Proof. intros h1 h2 k ty H Hu. exact (conj (ldb_deleted_absent h1 h2 k ty H Hu) (mock_deleted_absent h1 h2 k ty Hu)). Qed.
Print Assumptions C18_deleted_absent.

(** after ANY history the store is the map "last write wins" *)
Theorem C18_get_put_delete : forall (h : list op) (k : bytes),
  (hist_ok h -> exists db, fst (ldb_run h) = Some db /\ db_get k db = ldb_content h k) /\
  db_get k (fst (mock_run h)) = mock_content h k.
Proof. intros h k. exact (conj (ldb_get_put_delete h k) (proj2 (mock_after h) k)). Qed.
Print Assumptions C18_get_put_delete.

(** prefix iteration after any history: the callback is walked over THE
    ascending listing of the bindings whose key has the prefix *)
Theorem C18_iterate_sorted_prefix : forall (h : list op) (p : bytes) (cb : cbfun),
  (hist_ok h -> isbytes p ->
     exists db M, fst (ldb_run h) = Some db /\ is_prefix_listing (ldb_content h) p M /\
       ldb_iterate db p cb = Some (walk cb 0 M)) /\
  (exists M, is_prefix_listing (mock_content h) p M /\
       mock_iterate (fst (mock_run h)) p cb = walk cb 0 M).
Proof. intros h p cb. exact (conj (ldb_iterate_listing h p cb) (mock_iterate_listing h p cb)). Qed.
Print Assumptions C18_iterate_sorted_prefix.

(** the listing is unique: "exactly the matching keys in ascending byte order" *)
Theorem C18_listing_unique : forall content p M1 M2,
  is_prefix_listing content p M1 -> is_prefix_listing content p M2 -> M1 = M2.
Proof. exact listing_unique. Qed.
Print Assumptions C18_listing_unique.

(** what a walk is: either the callback never asks to end, every entry is
    visited and the result is nil; or the visit ends AT the first entry on which
    the callback returns stop or an error, and that callback's error (nil for a
    plain stop) is the result of Iterate *)
Theorem C18_iterate_error_propagates : forall (cb : cbfun) (M : list kv),
  (continues cb 0 M /\ walk cb 0 M = (M, None)) \/
  (exists M1 k v M2 stop err, M = M1 ++ (k, v) :: M2 /\ continues cb 0 M1 /\
     cb (length M1) k v = (stop, err) /\ (stop = true \/ err <> None) /\
     walk cb 0 M = (M1 ++ [(k, v)], err)).
Proof. intros cb M. exact (walk_shape cb M 0). Qed.
Print Assumptions C18_iterate_error_propagates.

(** values survive closing and reopening the persistent store *)
Theorem C18_reopen : forall h : list op, hist_ok h ->
  exists db, fst (ldb_run h) = Some db /\ ldb_step (Some db) OReopen = (Some db, BReopen true).
Proof. exact ldb_reopen_keeps. Qed.
Print Assumptions C18_reopen.

(** both implementations: identical observations on every history that
    stays away from the two stores' own schema entries *)
Theorem C18_same_map : forall h : list op,
  Forall op_bytes h -> Forall op_clean h -> snd (ldb_run h) = snd (mock_run h).
Proof. exact same_map. Qed.
Print Assumptions C18_same_map.

(** the mock's result does not depend on the (unspecified) order of the Go map *)
Theorem C18_mock_order_irrelevant : forall m m' p cb,
  NoDup (keys_of m) -> NoDup (keys_of m') -> (forall k, db_get k m = db_get k m') ->
  mock_iterate m p cb = mock_iterate m' p cb.
Proof. exact mock_iterate_perm. Qed.
Print Assumptions C18_mock_order_irrelevant.

(** non-vacuity: a concrete history meets every hypothesis and exercises
    sorted iteration with a failing callback and a reopen *)
Example C18_hyps_satisfiable :
  let h := [OPut [98] (VRaw [1]); OPut [97; 98] (VU64 18446744073709551615); OPut [97] (VRaw []);
            ODel [98]; OReopen; OIter [97] (CbAt 1 false (Some 7)); OGet [97; 98] TU64] in
  isbytesb [97] = true /\ forallb (fun o => match o with OPut k _ | OGet k _ | ODel k | OIter k _ => isbytesb k | OReopen => true end) h = true /\
  snd (ldb_run h) = [BOk; BOk; BOk; BOk; BReopen true;
                     BIter [([97], []); ([97; 98], [49;56;52;52;54;55;52;52;48;55;51;55;48;57;53;53;49;54;49;53])] (Some 7);
                     BGet (GVal (VU64 18446744073709551615))] /\
  valid_val (VU64 18446744073709551615).
Proof. vm_compute. repeat split; reflexivity. Qed.
