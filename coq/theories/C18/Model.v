(** C18 — model of the two state stores:
      pkg/statestore/leveldb/leveldb.go (+ migration.go, over pkg/shed/leveldb/leveldb.go)
      pkg/statestore/mock/store.go
    as they are AFTER the two repairs proposed/C18/fix-state-iter-err.patch and
    proposed/C18/fix-mock-order.patch.  Definitions only.

    Keys are Go strings = byte strings.  Values: the harness uses two Go types,
    a [BinaryMarshaler] carrying raw bytes ([VRaw]) and [uint64] through
    encoding/json ([VU64]). *)
From Coq Require Import Ascii String.
From Coq Require Import List NArith Bool.
Import ListNotations.
Require Import Aurora.C18.KV.
Local Open Scope N_scope.

(** * value encoding (Put: MarshalBinary / json.Marshal; Get: UnmarshalBinary / json.Unmarshal) *)

Inductive val := VRaw (b : bytes) | VU64 (n : N).
Inductive gty := TRaw | TU64.
Definition ty_of (v : val) : gty := match v with VRaw _ => TRaw | VU64 _ => TU64 end.

(** json.Marshal(uint64): decimal digits, most significant first *)
Fixpoint digits_fuel (fuel : nat) (n : N) (acc : bytes) : bytes :=
  match fuel with
  | O => acc
  | S f => let acc' := (48 + n mod 10) :: acc in
           if n / 10 =? 0 then acc' else digits_fuel f (n / 10) acc'
  end.
Definition dec_digits (n : N) : bytes := digits_fuel 20 n [].

Definition encode (v : val) : bytes :=
  match v with VRaw b => b | VU64 n => dec_digits n end.

(** json.Unmarshal(data, *uint64): surrounding JSON white space is skipped;
    the literal null leaves the target untouched and returns nil; a JSON number
    that strconv.ParseUint(…, 10, 64) accepts is stored; everything else
    (syntax error, fraction/exponent/sign, string, overflow) is an error. *)
Definition is_ws (b : N) : bool := (b =? 32) || (b =? 9) || (b =? 10) || (b =? 13).
Fixpoint drop_ws (s : bytes) : bytes :=
  match s with x :: t => if is_ws x then drop_ws t else s | [] => [] end.
Definition trim_ws (s : bytes) : bytes := rev (drop_ws (rev (drop_ws s))).
Definition is_digit (b : N) : bool := (48 <=? b) && (b <=? 57).
Definition digits_value (s : bytes) : N := fold_left (fun a d => a * 10 + (d - 48)) s 0.
Definition two64 : N := 18446744073709551616.
Definition parse_u64 (s : bytes) : option N :=
  match s with
  | [] => None
  | d :: t =>
      let leading_zero := (d =? 48) && negb (Nat.eqb (length t) 0) in
      if forallb is_digit s && negb leading_zero && (digits_value s <? two64)
      then Some (digits_value s) else None
  end.

Inductive gres :=
| GNotFound                 (* storage.ErrNotFound *)
| GVal (v : val)            (* nil error, target holds v *)
| GUnchanged                (* nil error, target untouched (JSON null) *)
| GErr.                     (* any other error *)

Definition null_lit : bytes := [110; 117; 108; 108].
Definition decode (ty : gty) (data : bytes) : gres :=
  match ty with
  | TRaw => GVal (VRaw data)
  | TU64 => let s := trim_ws data in
            if beq s null_lit then GUnchanged
            else match parse_u64 s with Some n => GVal (VU64 n) | None => GErr end
  end.

(** * leveldb state store *)

Definition bytes_of_string (s : string) : bytes := map (fun a => N_of_ascii a) (list_ascii_of_string s).

Definition schema_key : bytes := bytes_of_string "statestore_schema".
Definition schema_grace : bytes := bytes_of_string "grace".
Definition schema_kademlia : bytes := bytes_of_string "kademlia-metrics".
Definition schema_current : bytes := schema_kademlia.
Definition km_prefix1 : bytes := bytes_of_string "peer-last-seen-timestamp".
Definition km_prefix2 : bytes := bytes_of_string "peer-total-connection-duration".

(** [LevelDB.Search(Query{Prefix: p, MatchPrefix: true})]:
    [NewIterator(util.BytesPrefix(p))] then [Seek(p)] *)
Definition ldb_search (db : list kv) (p : bytes) : cursor :=
  seek_from [] (range_items p (prefix_limit p) db) p.

(** the loop of [store.Iterate]:
      for ; iter.Valid(); iter.Next() { stop, err := iterFunc(iter.Key(), iter.Value()); … }
      return iter.Error()
    [None] = fuel exhausted (never happens with fuel > number of entries) *)
Fixpoint ldb_loop (fuel : nat) (cb : cbfun) (i : nat) (c : cursor) : option (list kv * option N) :=
  match fuel with
  | O => None
  | S f =>
      if cur_valid c then
        let k := cur_key c in let v := cur_value c in
        let '(stop, err) := cb i k v in
        match err with
        | Some e => Some ([(k, v)], Some e)            (* return err *)
        | None =>
            if stop then Some ([(k, v)], None)         (* break; return iter.Error() *)
            else match ldb_loop f cb (S i) (cur_next c) with
                 | Some (vis, r) => Some ((k, v) :: vis, r)
                 | None => None
                 end
        end
      else Some ([], None)                             (* return iter.Error() = nil *)
  end.

(** the deferred function of the REPAIRED [Iterate]:
      if cerr := iter.Close(); err == nil { err = cerr }
    ([Iterator.Close] of the shed leveldb driver always returns nil). *)
Definition iter_close_err : option N := None.
Definition deferred_close (err : option N) : option N :=
  match err with None => iter_close_err | Some _ => err end.
(** the deferred function before the repair: [err = iter.Close()] *)
Definition deferred_close_unrepaired (err : option N) : option N := iter_close_err.

Definition ldb_iterate_gen (dc : option N -> option N) (db : list kv) (p : bytes) (cb : cbfun) : option (list kv * option N) :=
  let c := ldb_search db p in
  match ldb_loop (S (length db)) cb 0 c with
  | Some (vis, err) => Some (vis, dc err)
  | None => None
  end.
Definition ldb_iterate := ldb_iterate_gen deferred_close.

(** ** opening a store: [migrate] of leveldb.go and migration.go *)

Inductive migration_fn := MigNoop | MigKademlia.
Definition schema_migrations : list (bytes * migration_fn) :=
  [(schema_grace, MigNoop); (schema_kademlia, MigKademlia)].

(** [getMigrations(currentSchema, targetSchema, all)]; [None] = error *)
Fixpoint get_migrations_loop (cur tgt : bytes) (all : list (bytes * migration_fn))
    (foundCur foundTgt : bool) (acc : list (bytes * migration_fn)) : option (list (bytes * migration_fn)) :=
  match all with
  | [] => if negb foundCur then None else if negb foundTgt then None else Some acc
  | (name, fn) :: rest =>
      if beq name cur then
        if foundCur then None                                   (* "found schema name for the second time" *)
        else get_migrations_loop cur tgt rest true foundTgt acc (* continue *)
      else
        let foundTgt' := if beq name tgt then true else foundTgt in
        get_migrations_loop cur tgt rest foundCur foundTgt' (if foundCur then acc ++ [(name, fn)] else acc)
  end.
Definition get_migrations (cur : bytes) : option (list (bytes * migration_fn)) :=
  if beq cur schema_current then Some []
  else get_migrations_loop cur schema_current schema_migrations false false [].

(** [collectKeys] (through [Iterate], callback never stops) + [deleteKeys] *)
Definition delete_prefix (db : list kv) (p : bytes) : option (list kv) :=
  match ldb_iterate db p (fun _ _ _ => (false, None)) with
  | Some (vis, None) =>
      Some (fold_left (fun d e => db_del (fst e) d) (filter (fun e => has_prefix p (fst e)) vis) db)
  | _ => None
  end.
Definition run_migration (fn : migration_fn) (db : list kv) : option (list kv) :=
  match fn with
  | MigNoop => Some db
  | MigKademlia =>
      match delete_prefix db km_prefix1 with
      | Some db1 => delete_prefix db1 km_prefix2
      | None => None
      end
  end.
Fixpoint run_migrations (ms : list (bytes * migration_fn)) (db : list kv) : option (list kv) :=
  match ms with
  | [] => Some db
  | (name, fn) :: rest =>
      match run_migration fn db with
      | Some db' => run_migrations rest (db_put schema_key name db')
      | None => None
      end
  end.

(** [migrate(s)] on the key/value content found when opening; [None] = the
    constructor returns an error (and closes the database) *)
Definition ldb_open (db : list kv) : option (list kv) :=
  let '(sn, db1) := match db_get schema_key db with
                    | Some name => (name, db)
                    | None => (schema_current, db_put schema_key schema_current db)
                    end in
  match get_migrations sn with
  | Some ms => run_migrations ms db1
  | None => None
  end.

Definition ldb_init : list kv := [(schema_key, schema_current)].

(** * mock state store (a Go map under an RWMutex) *)

(** Go map assignment: the association list is the map in SOME order (the
    order of a Go map is unspecified; [Proofs.mock_iterate_perm] shows that
    nothing below depends on it) *)
Fixpoint m_put (k v : bytes) (m : list kv) : list kv :=
  match m with
  | [] => [(k, v)]
  | (k', v') :: t => if beq k k' then (k, v) :: t else (k', v') :: m_put k v t
  end.

(** sort.Strings, as insertion sort *)
Fixpoint insert_key (k : bytes) (l : list bytes) : list bytes :=
  match l with
  | [] => [k]
  | x :: t => if ble k x then k :: x :: t else x :: insert_key k t
  end.
Definition sort_keys (l : list bytes) : list bytes := fold_right insert_key [] l.

(** the loop of the REPAIRED mock [Iterate] over the sorted matching keys:
    [v := s.store[k]] (zero value when absent), copy, callback *)
Definition map_index (m : list kv) (k : bytes) : bytes :=
  match db_get k m with Some v => v | None => [] end.
Fixpoint mock_loop (m : list kv) (cb : cbfun) (i : nat) (keys : list bytes) : list kv * option N :=
  match keys with
  | [] => ([], None)
  | k :: t =>
      let v := map_index m k in
      let '(stop, err) := cb i k v in
      match err with
      | Some e => ([(k, v)], Some e)
      | None => if stop then ([(k, v)], None)
                else let '(vis, r) := mock_loop m cb (S i) t in ((k, v) :: vis, r)
      end
  end.
Definition mock_iterate (m : list kv) (p : bytes) (cb : cbfun) : list kv * option N :=
  mock_loop m cb 0 (sort_keys (filter (has_prefix p) (keys_of m))).

Definition mock_schema_key : bytes := bytes_of_string "schema_name".
(** json.Marshal("mock_schema") *)
Definition mock_schema_val : bytes := [34] ++ bytes_of_string "mock_schema" ++ [34].
Definition mock_init : list kv := [(mock_schema_key, mock_schema_val)].

(** * histories *)

Inductive op :=
| OPut (k : bytes) (v : val)
| OGet (k : bytes) (ty : gty)
| ODel (k : bytes)
| OIter (p : bytes) (cb : cbspec)
| OReopen.                         (* Close + NewStateStore on the same directory (persistent store only) *)

Inductive obs :=
| BOk                               (* nil error of Put / Delete *)
| BGet (r : gres)
| BIter (vis : list kv) (err : option N)
| BReopen (ok : bool)
| BClosed                           (* operation not executed: the store failed to reopen *)
| BStuck.                           (* model ran out of fuel: never *)

Definition get_obs (raw : option bytes) (ty : gty) : obs :=
  BGet (match raw with None => GNotFound | Some b => decode ty b end).

(** leveldb store; state [None] = no open store (a reopen failed) *)
Definition ldb_step (s : option (list kv)) (o : op) : option (list kv) * obs :=
  match s with
  | None => (None, BClosed)
  | Some db =>
      match o with
      | OPut k v => (Some (db_put k (encode v) db), BOk)
      | OGet k ty => (Some db, get_obs (db_get k db) ty)
      | ODel k => (Some (db_del k db), BOk)
      | OIter p cb =>
          match ldb_iterate db p (cb_of cb) with
          | Some (vis, err) => (Some db, BIter vis err)
          | None => (Some db, BStuck)
          end
      | OReopen =>
          match ldb_open db with
          | Some db' => (Some db', BReopen true)
          | None => (None, BReopen false)
          end
      end
  end.

(** mock store; [OReopen] is not an operation of the mock (never generated) *)
Definition mock_step (m : list kv) (o : op) : list kv * obs :=
  match o with
  | OPut k v => (m_put k (encode v) m, BOk)
  | OGet k ty => (m, get_obs (db_get k m) ty)
  | ODel k => (db_del k m, BOk)
  | OIter p cb => let '(vis, err) := mock_iterate m p (cb_of cb) in (m, BIter vis err)
  | OReopen => (m, BClosed)
  end.

Fixpoint run {S} (step : S -> op -> S * obs) (s : S) (h : list op) : S * list obs :=
  match h with
  | [] => (s, [])
  | o :: t => let '(s1, b) := step s o in let '(s2, bs) := run step s1 t in (s2, b :: bs)
  end.

Definition ldb_run (h : list op) := run ldb_step (Some ldb_init) h.
Definition mock_run (h : list op) := run mock_step mock_init h.
