(** C18 — correspondence: the harness runs one history on a real store
    (leveldb in memory, leveldb on disk with reopen, or the mock) and records
    the observation of every operation; [check_case] re-runs the history on
    the model and compares observation lists. *)
From Coq Require Import List NArith Bool.
Import ListNotations.
Require Import Aurora.Base.Corr.
Require Export Aurora.C18.KV Aurora.C18.Model.
Local Open Scope N_scope.

Inductive case :=
| CaseLdb (h : list op) (o : list obs)      (* pkg/statestore/leveldb *)
| CaseMock (h : list op) (o : list obs).    (* pkg/statestore/mock *)

Definition val_eqb (a b : val) : bool :=
  match a, b with
  | VRaw x, VRaw y => bytes_eqb x y
  | VU64 x, VU64 y => N.eqb x y
  | _, _ => false
  end.
Definition gres_eqb (a b : gres) : bool :=
  match a, b with
  | GNotFound, GNotFound | GUnchanged, GUnchanged | GErr, GErr => true
  | GVal x, GVal y => val_eqb x y
  | _, _ => false
  end.
Definition kv_eqb : kv -> kv -> bool := pair_eqb bytes_eqb bytes_eqb.
Definition obs_eqb (a b : obs) : bool :=
  match a, b with
  | BOk, BOk | BClosed, BClosed => true
  | BGet x, BGet y => gres_eqb x y
  | BIter v1 e1, BIter v2 e2 => list_eqb kv_eqb v1 v2 && option_eqb N.eqb e1 e2
  | BReopen x, BReopen y => Bool.eqb x y
  | _, _ => false
  end.

Definition model_obs (c : case) : list obs :=
  match c with
  | CaseLdb h _ => snd (ldb_run h)
  | CaseMock h _ => snd (mock_run h)
  end.
Definition seen_obs (c : case) : list obs :=
  match c with CaseLdb _ o | CaseMock _ o => o end.

Definition check_case (c : case) : bool := list_eqb obs_eqb (model_obs c) (seen_obs c).

(** first differing position: (index, model, observed) *)
Fixpoint first_diff (i : nat) (a b : list obs) : option (nat * option obs * option obs) :=
  match a, b with
  | [], [] => None
  | x :: a', y :: b' => if obs_eqb x y then first_diff (S i) a' b' else Some (i, Some x, Some y)
  | x :: _, [] => Some (i, Some x, None)
  | [], y :: _ => Some (i, None, Some y)
  end.
Definition explain_case (c : case) := first_diff 0 (model_obs c) (seen_obs c).
