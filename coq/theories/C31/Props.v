(** C31 — property theorems only (first stage). *)
From Coq Require Import List NArith ZArith Bool.
Import ListNotations.
Require Import Aurora.C31.Model.
Local Open Scope N_scope.

Definition witness : list op :=
  [ORestart {| cv_lists := Some [1]; cv_trans := []; cv_bal := Some 1000%Z; cv_paid := Some 0%Z |};
   OHandshake 10 1 (Some 5%Z); OTraffic 10 100%Z; OPay 10 50%Z true true].

(** F-bigint-alias: [issue] as it stood in the pinned tree.  After Init the record's
    retrieveChainTraffic, retrieveChequeTraffic (and, before the first credit, retrieveTraffic)
    are ONE big.Int; the in-place Add of [issue] raises "what the peer cashed" by the amount of
    the cheque and the available balance returns to its value before the traffic was credited. *)
Theorem C31_inplace_refuted :
  let s := snd (run heap_mem true (init_state heap_mem) witness) in
  (exists t, get 1 (recs s) = Some t /\ nread (hp s) (f_rchain t) = 100%Z) /\ available_balance heap_mem s = 1000%Z.
Proof. vm_compute. split; [eexists; split; reflexivity | reflexivity]. Qed.
Print Assumptions C31_inplace_refuted.
