(** C31 — property theorems only.  [HM] is the location-heap reading of traffic.go (what Go
    does: fields hold pointers), [VM] the immutable-value reading of the same program text;
    [false] selects the repaired [issue] (proposed/C31/fix-bigint-alias.patch), [true] the
    in-place Add of the pinned tree.  Histories are arbitrary lists of operations (registration,
    credited traffic, pay attempts with failing signer/delivery, 24 h refresh, cash-out receipts,
    restarts) with arbitrary chain answers, started from the empty store. *)
From Coq Require Import List NArith ZArith Bool.
Import ListNotations.
Require Import Aurora.C31.Model Aurora.C31.Heap Aurora.C31.Refine Aurora.C31.Value Aurora.C31.Payout Aurora.C31.Main.
Local Open Scope N_scope.

(** no operation of a running process ever changes the value of an allocated big.Int: all
    updates are fresh allocations and pointer copies (this is what makes the sharing harmless) *)
Theorem C31_no_write_through : forall (h : list op) (o : op),
  is_restart o = false ->
  let s := hreach h in let s' := snd (step HM false s o) in
  next (hp s) <= next (hp s') /\ forall l, l < next (hp s) -> nread (hp s') l = nread (hp s) l.
Proof. exact no_write_through. Qed.
Print Assumptions C31_no_write_through.

(** every pointer stored in a reachable record is allocated (the default value of [nread] is never used) *)
Theorem C31_heap_wf : forall (h : list op) a t,
  get a (recs (hreach h)) = Some t ->
  let n := next (hp (hreach h)) in
  f_pb t < n /\ f_rchain t < n /\ f_tchain t < n /\ f_rcheque t < n /\ f_tcheque t < n /\ f_rtraffic t < n /\ f_ttraffic t < n
  /\ bal (hreach h) < n.
Proof. exact heap_wf. Qed.
Print Assumptions C31_heap_wf.

(** issuing a cheque (any outcome: below threshold, insufficient funds, signer or delivery failure,
    success), crediting traffic and registering never change what any peer has cashed *)
Theorem C31_chain_record_stable : forall (h : list op) (o : op) a t,
  chain_free o = true ->
  let s := hreach h in let s' := snd (step HM false s o) in
  get a (recs s) = Some t ->
  exists t', get a (recs s') = Some t' /\ nread (hp s') (f_rchain t') = nread (hp s) (f_rchain t).
Proof. exact chain_record_stable. Qed.
Print Assumptions C31_chain_record_stable.

(** a pay attempt never changes the reported available balance *)
Theorem C31_pay_keeps_available : forall (h : list op) p th sg dl,
  let s := hreach h in
  available_balance HM (snd (step HM false s (OPay p th sg dl))) = available_balance HM s.
Proof. exact pay_keeps_available. Qed.
Print Assumptions C31_pay_keeps_available.

(** over every history the heap run produces the outputs of the immutable-value reading, its
    reported available balance is that reading's  chain balance + cashed amounts - traffic owed,
    and every field holds the value the value reading holds *)
Theorem C31_available_formula : forall (h : list op),
  fst (run HM false (init_state HM) h) = fst (run VM false (init_state VM) h) /\
  available_balance HM (hreach h)
  = (bal (vreach h) + (vsum f_rchain (recs (vreach h)) - vsum f_rtraffic (recs (vreach h))))%Z /\
  forall a t, get a (recs (hreach h)) = Some t ->
    exists tv, get a (recs (vreach h)) = Some tv /\ rec_vals HM (hp (hreach h)) t = rec_vals VM tt tv.
Proof. exact refines_value_reading. Qed.
Print Assumptions C31_available_formula.

(** a cheque goes to the chain address registered for the paid overlay and its cumulative payout
    is exactly the record of the traffic owed to it (so it never exceeds it) *)
Theorem C31_payout_is_owed : forall (h : list op) p th sg dl a x d,
  let s := hreach h in let r := step HM false s (OPay p th sg dl) in
  o_emit (fst r) = Some (a, x, d) ->
  get p (m_pb s) = Some a /\ exists t', get a (recs (snd r)) = Some t' /\ x = nread (hp (snd r)) (f_rtraffic t').
Proof. exact payout_is_owed. Qed.
Print Assumptions C31_payout_is_owed.

(** over ALL histories — restarts and 24 h refreshes included — with positive payment thresholds, in which
    every restart could read the chain's peer lists (a node whose Init fails does not start: pkg/node/chain.go):
    every cheque handed to a peer is strictly above the last cheque DELIVERED to that peer (delivered payouts
    strictly increase; a failed delivery may be retried with the same payout).  Init restores the sent-cheque
    total as max(chain value, last sent cheque) for every address of the peer list, which contains every address
    with a last sent cheque. *)
Theorem C31_payout_increasing : forall (h : list op),
  Forall restart_lists_ok h -> Forall threshold_pos h ->
  emits_above (fun _ => None) (fst (run HM false (init_state HM) h)).
Proof. exact payout_increasing_all. Qed.
Print Assumptions C31_payout_increasing.

(** the cash-out receipt path: the records of other peers keep their cashed value; when the receipt is
    successful and the chain answers, the cashed record of the peer is EXACTLY the chain's value (the
    sent-cheque total the handler persists beforehand is only the fallback for a failing chain call); without
    a successful receipt nothing changes *)
Theorem C31_cashout_cashed_record : forall (h : list op) p ck rc bs tr bp,
  let s := hreach h in let s' := snd (step HM false s (OCashout p ck rc bs tr bp)) in
  (forall a' t, get p (m_pb s) <> Some a' -> get a' (recs s) = Some t ->
     exists t', get a' (recs s') = Some t' /\ nread (hp s') (f_rchain t') = nread (hp s) (f_rchain t)) /\
  (forall a b x, get p (m_pb s) = Some a -> ck = true -> rc = Some 1 -> bs = Some b -> snd tr = Some x ->
     exists t', get a (recs s') = Some t' /\ nread (hp s') (f_rchain t') = x) /\
  (ck = false \/ rc <> Some 1 \/ bs = None ->
     forall a t, get a (recs s) = Some t ->
       exists t', get a (recs s') = Some t' /\ nread (hp s') (f_rchain t') = nread (hp s) (f_rchain t)).
Proof. exact cashout_cashed_record. Qed.
Print Assumptions C31_cashout_cashed_record.

Definition witness : list op :=
  [ORestart {| cv_lists := Some [1]; cv_trans := []; cv_bal := Some 1000%Z; cv_paid := Some 0%Z |};
   OHandshake 10 1 (Some 5%Z); OTraffic 10 100%Z; OPay 10 50%Z true true].

(** F-bigint-alias: [issue] as it stood in the pinned tree.  After Init the record's
    retrieveChainTraffic, retrieveChequeTraffic (and, before the first credit, retrieveTraffic)
    are ONE big.Int; the in-place Add of [issue] raises "what the peer cashed" by the amount of the
    cheque and the available balance returns to its value before the traffic was credited, while
    the value reading says 0 cashed and 900 available.  Replayed on the Go code (notes/C31.md). *)
Theorem C31_inplace_refuted :
  let s := snd (run HM true (init_state HM) witness) in
  (exists t, get 1 (recs s) = Some t /\ nread (hp s) (f_rchain t) = 100%Z) /\ available_balance HM s = 1000%Z /\
  available_balance VM (vreach witness) = 900%Z.
Proof. vm_compute. split; [eexists; split; reflexivity | split; reflexivity]. Qed.
Print Assumptions C31_inplace_refuted.

(** non-vacuity: on the witness history the repaired model shares one location between three
    fields, emits one cheque of 100, keeps cashed = 0 and reports 900; the hypotheses of the
    payout theorem hold for it *)
Example C31_witness_repaired :
  let '(outs, s) := run HM false (init_state HM) witness in
  map o_emit outs = [None; None; None; Some (1, 100%Z, true)] /\
  (exists t, get 1 (recs s) = Some t /\ f_rchain t = f_tchain t + 1 /\ nread (hp s) (f_rchain t) = 0%Z /\ nread (hp s) (f_rcheque t) = 100%Z) /\
  available_balance HM s = 900%Z /\ Forall restart_lists_ok witness /\ Forall threshold_pos witness.
Proof.
  vm_compute. split; [reflexivity|]. split; [eexists; repeat split; reflexivity|]. split; [reflexivity|].
  split; repeat constructor; discriminate.
Qed.

(** why [restart_lists_ok] is a hypothesis: if Init fails on the peer lists and the process nevertheless went
    on (the node does not: it exits), records and address book stay empty; a re-registered peer gets a zero
    record and (once a cash-out receipt has brought a chain balance) the next cheque (10) is below the one delivered before the restart (100) *)
Example C31_failed_init_continued :
  let cv := {| cv_lists := Some [1]; cv_trans := []; cv_bal := Some 1000%Z; cv_paid := Some 0%Z |} in
  let bad := {| cv_lists := None; cv_trans := []; cv_bal := Some 1000%Z; cv_paid := Some 0%Z |} in
  map o_emit (fst (run HM false (init_state HM)
     [ORestart cv; OHandshake 10 1 (Some 5%Z); OTraffic 10 100%Z; OPay 10 50%Z true true;
      ORestart bad; OHandshake 10 1 (Some 5%Z);
      OCashout 10 true (Some 1) (Some 1000%Z) (Some 0%Z, Some 0%Z) (Some 5%Z);   (* brings a chain balance *)
      OTraffic 10 10%Z; OPay 10 5%Z true true]))
  = [None; None; None; Some (1, 100%Z, true); None; None; None; None; Some (1, 10%Z, true)].
Proof. vm_compute. reflexivity. Qed.
