(** C31 — the heap run of the repaired program simulates its immutable-value reading:
    same outputs, same field values, and no step changes an allocated location. *)
From Coq Require Import List NArith ZArith Bool Lia.
Import ListNotations.
Require Import Aurora.C31.Model Aurora.C31.Heap.
Local Open Scope N_scope.

Lemma alloc_ok h v l h' : alloc HM h v = (l, h') -> ok h' l v /\ hext h h'.
Proof. intros E. apply alloc_spec in E. tauto. Qed.

Ltac alloc_step :=
  match goal with
  | |- context [alloc HM ?h ?v] =>
      let l := fresh "l" in let h' := fresh "h" in let E := fresh "E" in
      destruct (alloc HM h v) as [l h'] eqn:E; apply alloc_ok in E; destruct E as [? ?]
  end.
Ltac solve_hext := eauto 8 using hext_refl, hext_trans.
Ltac solve_ok :=
  first [ eassumption
        | eapply ok_ext; [|eassumption]; solve_hext
        | apply max_loc_sim; solve_ok
        | eapply ok_ext; [|apply max_loc_sim; solve_ok]; solve_hext ].
Ltac split_trel T := destruct T as (?&?&?&?&?&?&?&?).
Ltac mk_trel :=
  unfold trel; cbn [f_pb f_rchain f_tchain f_rcheque f_tcheque f_rtraffic f_ttraffic f_status];
  repeat (split; [solve_ok|]); try assumption; try reflexivity.

Lemma new_traffic_sim h :
  let r := new_traffic HM h in hext h (snd r) /\ trel (snd r) (fst r) (fst (new_traffic VM tt)).
Proof.
  unfold new_traffic at 1 2. repeat alloc_step. cbn [fst snd]. split; [solve_hext|].
  cbn. mk_trel.
Qed.

Ltac split5 := split; [|split; [|split; [|split]]].

Lemma get_traffic_sim s v a : sim s v ->
  let r := get_traffic HM s a in let rv := get_traffic VM v a in
  sim (snd r) (snd rv) /\ hext (hp s) (hp (snd r)) /\ trel (hp (snd r)) (fst r) (fst rv) /\
  get a (recs (snd r)) = Some (fst r) /\ get a (recs (snd rv)) = Some (fst rv).
Proof.
  intros (R & B & E1 & E2 & E3). pose proof (rrel_get _ _ _ a R) as G. unfold get_traffic.
  destruct (get a (recs s)) as [t|] eqn:Gs, (get a (recs v)) as [tv|] eqn:Gv; try contradiction; cbn [fst snd].
  - split5; auto using hext_refl. split5; auto.
  - pose proof (new_traffic_sim (hp s)) as N. cbn zeta in N.
    destruct (new_traffic HM (hp s)) as [t h1]. destruct (new_traffic VM (hp v)) as [tv hv] eqn:Nv.
    assert (Nv' : new_traffic VM tt = (tv, hv)) by (destruct (hp v); exact Nv).
    rewrite Nv' in N. cbn [fst snd] in *. destruct N as [X T].
    cbn [hp recs bal m_pb m_bp dk]. rewrite !get_set_same.
    split5; auto. split5; cbn [hp recs bal m_pb m_bp dk]; auto.
    + apply rrel_set; auto. eapply rrel_ext; eauto.
    + eapply ok_ext; eauto.
Qed.

(** unpack the result of [get_traffic] on both sides *)
Ltac get_traffic_step s v a Hsim :=
  let G := fresh "G" in
  pose proof (get_traffic_sim s v a Hsim) as G; cbn zeta in G;
  let t := fresh "t" in let s1 := fresh "s" in let tv := fresh "tv" in let v1 := fresh "v" in
  destruct (get_traffic HM s a) as [t s1]; destruct (get_traffic VM v a) as [tv v1]; cbn [fst snd] in G;
  let S1 := fresh "S" in let X := fresh "X" in let T := fresh "T" in let G1 := fresh "Gh" in let G2 := fresh "Gv" in
  destruct G as (S1 & X & T & G1 & G2).

Lemma chain_update_sim s v a tr : sim s v ->
  sim (chain_update HM s a tr) (chain_update VM v a tr) /\ hext (hp s) (hp (chain_update HM s a tr)).
Proof.
  intros Hsim. unfold chain_update. get_traffic_step s v a Hsim.
  destruct S as (R & B & E1 & E2 & E3). rewrite <- E3.
  destruct (fst tr) as [x|], (snd tr) as [y|]; cbn [d_chain_transfer d_chain_retrieve];
    repeat alloc_step; cbn [alloc value_mem]; split_trel T;
    (split; [|solve_hext]); unfold sim; cbn [hp recs bal m_pb m_bp dk];
    (split5; auto; [apply rrel_set; [eapply rrel_ext; [|eassumption]; solve_hext | mk_trel] | solve_ok]).
Qed.

Lemma cheque_update_sim s v a : sim s v ->
  sim (cheque_update HM s a) (cheque_update VM v a) /\ hext (hp s) (hp (cheque_update HM s a)).
Proof.
  intros Hsim. unfold cheque_update. get_traffic_step s v a Hsim.
  destruct S as (R & B & E1 & E2 & E3). rewrite <- E3.
  destruct (get a (d_last_send (dk s0))) as [x|], (get a (d_last_recv (dk s0))) as [y|];
    repeat alloc_step; cbn [alloc value_mem]; split_trel T;
    (split; [|solve_hext]); unfold sim; cbn [hp recs bal m_pb m_bp dk];
    (split5; auto; [apply rrel_set; [eapply rrel_ext; [|eassumption]; solve_hext | mk_trel] | solve_ok]).
Qed.

Ltac rw_reads :=
  cbn [read heap_mem value_mem] in *;
  repeat match goal with Hk : ok ?h ?l _ |- context [nread ?h ?l] => rewrite (proj2 Hk) end.
Ltac close_sim :=
  unfold sim; cbn [hp recs bal m_pb m_bp dk];
  (split5; auto; [apply rrel_set; [eapply rrel_ext; [|eassumption]; solve_hext | mk_trel] | solve_ok]).

Lemma init_fold_sim cv l : forall s v, sim s v ->
  let f M := fun (s : state M) a => cheque_update M (chain_update M s a (trans_of cv a)) a in
  sim (fold_left (f HM) l s) (fold_left (f VM) l v) /\ hext (hp s) (hp (fold_left (f HM) l s)).
Proof.
  induction l as [|a l IH]; intros s v Hsim; cbn [fold_left].
  - split; auto using hext_refl.
  - destruct (chain_update_sim s v a (trans_of cv a) Hsim) as [S1 X1].
    destruct (cheque_update_sim _ _ a S1) as [S2 X2].
    destruct (IH _ _ S2) as [S3 X3]. split; auto. solve_hext.
Qed.

Lemma traffic_init_sim s v cv : sim s v ->
  fst (traffic_init HM s cv) = fst (traffic_init VM v cv) /\
  sim (snd (traffic_init HM s cv)) (snd (traffic_init VM v cv)) /\ hext (hp s) (hp (snd (traffic_init HM s cv))).
Proof.
  intros Hsim. unfold traffic_init. destruct (cv_lists cv) as [l|]; [|cbn; auto using hext_refl].
  assert (Ed : dk s = dk v) by apply Hsim. rewrite <- Ed.
  destruct (init_fold_sim cv (address_list (dk s) l) s v Hsim) as [S1 X1]. cbn zeta in S1, X1.
  match type of S1 with sim ?a ?b => remember a as s1 eqn:Es1; remember b as v1 eqn:Ev1 end. clear Es1 Ev1.
  destruct (cv_bal cv) as [b|]; [|cbn; auto].
  alloc_step. cbn [alloc value_mem].
  assert (S2 : sim {| hp := h; recs := recs s1; bal := l0; m_pb := m_pb s1; m_bp := m_bp s1; dk := dk s1 |}
                   {| hp := hp v1; recs := recs v1; bal := b; m_pb := m_pb v1; m_bp := m_bp v1; dk := dk v1 |}).
  { destruct S1 as (R & B & E1 & E2 & E3). unfold sim; cbn [hp recs bal m_pb m_bp dk]. split5; auto. eapply rrel_ext; eauto. }
  destruct (cv_paid cv); cbn [fst snd hp]; (split; [reflexivity|split; [exact S2|solve_hext]]).
Qed.

Lemma init_book_sim s v : sim s v -> sim (init_book HM s) (init_book VM v).
Proof.
  intros (R & B & E1 & E2 & E3). unfold init_book, sim; cbn [hp recs bal m_pb m_bp dk]. rewrite E1, E2, E3. split5; auto.
Qed.

Lemma svc_init_sim s v cv : sim s v ->
  fst (svc_init HM s cv) = fst (svc_init VM v cv) /\
  sim (snd (svc_init HM s cv)) (snd (svc_init VM v cv)) /\ hext (hp s) (hp (snd (svc_init HM s cv))).
Proof.
  intros Hsim. unfold svc_init. destruct (traffic_init_sim s v cv Hsim) as (Ee & S1 & X1).
  destruct (traffic_init HM s cv) as [e s1]. destruct (traffic_init VM v cv) as [e' v1]. cbn [fst snd] in *. subst e'.
  destruct e; cbn [fst snd]; auto. split; [reflexivity|]. split; [apply init_book_sim; auto|exact X1].
Qed.

Lemma update_peer_balance_sim s v a b : sim s v ->
  fst (update_peer_balance HM s a b) = fst (update_peer_balance VM v a b) /\
  sim (snd (update_peer_balance HM s a b)) (snd (update_peer_balance VM v a b)) /\
  hext (hp s) (hp (snd (update_peer_balance HM s a b))).
Proof.
  intros Hsim. unfold update_peer_balance. destruct b as [b|]; [|cbn; auto using hext_refl].
  get_traffic_step s v a Hsim. destruct S as (R & B & E1 & E2 & E3).
  alloc_step. cbn [alloc value_mem fst snd]. split_trel T. split; [reflexivity|]. split; [close_sim|cbn [hp]; solve_hext].
Qed.

Lemma handshake_sim s v p a b : sim s v ->
  fst (handshake HM s p a b) = fst (handshake VM v p a b) /\
  sim (snd (handshake HM s p a b)) (snd (handshake VM v p a b)) /\ hext (hp s) (hp (snd (handshake HM s p a b))).
Proof.
  intros Hsim. unfold handshake. destruct Hsim as (R & B & E1 & E2 & E3). rewrite <- E1, <- E2, <- E3.
  destruct (get p (m_pb s)) as [a'|].
  - apply update_peer_balance_sim. unfold sim; auto.
  - destruct (get a (m_bp s)); [cbn; split; [reflexivity|split; [unfold sim; auto|apply hext_refl]]|].
    match goal with |- context [update_peer_balance HM ?s1 a b] =>
      match goal with |- context [update_peer_balance VM ?v1 a b] =>
        assert (S1 : sim s1 v1) by (unfold sim; cbn [hp recs bal m_pb m_bp dk]; split5; auto);
        exact (update_peer_balance_sim s1 v1 a b S1)
      end end.
Qed.

Lemma put_retrieve_sim s v p am : sim s v ->
  fst (put_retrieve HM s p am) = fst (put_retrieve VM v p am) /\
  sim (snd (put_retrieve HM s p am)) (snd (put_retrieve VM v p am)) /\ hext (hp s) (hp (snd (put_retrieve HM s p am))).
Proof.
  intros Hsim. unfold put_retrieve. assert (E1 : m_pb s = m_pb v) by apply Hsim. rewrite <- E1.
  destruct (get p (m_pb s)) as [a|]; [|cbn; auto using hext_refl].
  get_traffic_step s v a Hsim. destruct S as (R & B & E1' & E2 & E3). split_trel T. rw_reads.
  alloc_step. cbn [alloc value_mem fst snd]. rw_reads. rewrite <- E3.
  split; [reflexivity|]. split; [close_sim|cbn [hp]; solve_hext].
Qed.

Lemma put_transfer_sim s v p am : sim s v ->
  fst (put_transfer HM s p am) = fst (put_transfer VM v p am) /\
  sim (snd (put_transfer HM s p am)) (snd (put_transfer VM v p am)) /\ hext (hp s) (hp (snd (put_transfer HM s p am))).
Proof.
  intros Hsim. unfold put_transfer. assert (E1 : m_pb s = m_pb v) by apply Hsim. rewrite <- E1.
  destruct (get p (m_pb s)) as [a|]; [|cbn; auto using hext_refl].
  get_traffic_step s v a Hsim. destruct S as (R & B & E1' & E2 & E3). split_trel T. rw_reads.
  alloc_step. cbn [alloc value_mem fst snd]. rw_reads. rewrite <- E3.
  split; [reflexivity|]. split; [close_sim|cbn [hp]; solve_hext].
Qed.

Lemma issue_sim s v a t tv balance sg dl : sim s v -> trel (hp s) t tv ->
  fst (issue HM false s a t balance sg dl) = fst (issue VM false v a tv balance sg dl) /\
  sim (snd (issue HM false s a t balance sg dl)) (snd (issue VM false v a tv balance sg dl)) /\
  hext (hp s) (hp (snd (issue HM false s a t balance sg dl))).
Proof.
  intros Hsim T. unfold issue. rewrite (available_sim _ _ Hsim).
  destruct (available_balance VM v <? balance)%Z; [cbn; auto using hext_refl|].
  destruct Hsim as (R & B & E1 & E2 & E3). split_trel T. rw_reads.
  alloc_step. cbn [alloc value_mem with_hp hp recs bal m_pb m_bp dk]. rw_reads.
  assert (S1 : sim {| hp := h; recs := recs s; bal := bal s; m_pb := m_pb s; m_bp := m_bp s; dk := dk s |}
                   {| hp := hp v; recs := recs v; bal := bal v; m_pb := m_pb v; m_bp := m_bp v; dk := dk v |}).
  { unfold sim; cbn [hp recs bal m_pb m_bp dk]. split5; auto; [eapply rrel_ext; eauto|solve_ok]. }
  destruct sg; cbn [negb]; [|cbn [fst snd hp]; auto].
  destruct dl; cbn [negb]; [|cbn [fst snd hp]; auto].
  cbn [fst snd hp]. rewrite <- E3. split; [reflexivity|]. split; [close_sim|auto].
Qed.

Lemma pay_sim s v p th sg dl : sim s v ->
  fst (pay HM false s p th sg dl) = fst (pay VM false v p th sg dl) /\
  sim (snd (pay HM false s p th sg dl)) (snd (pay VM false v p th sg dl)) /\
  hext (hp s) (hp (snd (pay HM false s p th sg dl))).
Proof.
  intros Hsim. unfold pay. assert (E1 : m_pb s = m_pb v) by apply Hsim. rewrite <- E1.
  destruct (get p (m_pb s)) as [a|]; [|cbn; auto using hext_refl].
  get_traffic_step s v a Hsim. pose proof T as T'. split_trel T'. rw_reads.
  destruct (th <=? f_rtraffic tv - f_rcheque tv)%Z.
  - destruct (issue_sim s0 v0 a t tv (f_rtraffic tv - f_rcheque tv)%Z sg dl S T) as (A & B & C).
    split; [exact A|]. split; [exact B|solve_hext].
  - cbn [fst snd]. auto.
Qed.

Lemma set_status_sim s v a st : sim s v ->
  sim (set_status HM s a st) (set_status VM v a st) /\ hp (set_status HM s a st) = hp s.
Proof.
  intros (R & B & E1 & E2 & E3). unfold set_status. pose proof (rrel_get _ _ _ a R) as G.
  destruct (get a (recs s)) as [t|], (get a (recs v)) as [tv|]; try contradiction.
  - unfold put_traffic, with_recs. cbn [hp]. split; [|reflexivity]. split_trel G.
    unfold sim; cbn [hp recs bal m_pb m_bp dk]. split5; auto. apply rrel_set; auto. mk_trel.
  - split; [unfold sim; auto|reflexivity].
Qed.

Lemma cashout_sim s v p ck rc bs tr bp : sim s v ->
  fst (cashout HM s p ck rc bs tr bp) = fst (cashout VM v p ck rc bs tr bp) /\
  sim (snd (cashout HM s p ck rc bs tr bp)) (snd (cashout VM v p ck rc bs tr bp)) /\
  hext (hp s) (hp (snd (cashout HM s p ck rc bs tr bp))).
Proof.
  intros Hsim. unfold cashout. assert (E1 : m_pb s = m_pb v) by apply Hsim. rewrite <- E1.
  destruct (get p (m_pb s)) as [a|]; [|cbn; auto using hext_refl].
  get_traffic_step s v a Hsim.
  destruct ck; cbn [negb]; [|cbn [fst snd]; auto].
  destruct (set_status_sim s0 v0 a 1 S) as [S1 H1]. destruct (set_status_sim _ _ a 0 S1) as [S2 H2].
  remember (set_status HM (set_status HM s0 a 1) a 0) as s2 eqn:Es2.
  remember (set_status VM (set_status VM v0 a 1) a 0) as v2 eqn:Ev2.
  assert (X2 : hext (hp s) (hp s2)) by (rewrite H2, H1; exact X). clear Es2 Ev2 S1 H1 H2.
  assert (Hdef : fst (ENone, s2) = fst (ENone, v2) /\ sim (snd (ENone, s2)) (snd (ENone, v2)) /\ hext (hp s) (hp (snd (ENone, s2))))
    by (cbn [fst snd]; auto).
  destruct rc as [[|[q|q|]]|]; try exact Hdef. clear Hdef.
  get_traffic_step s2 v2 a S2. pose proof T0 as T'. split_trel T'. rw_reads.
  unfold with_dk. assert (E3 : dk s1 = dk v1) by apply S0. rewrite <- E3.
  destruct S0 as (R & B & E1' & E2' & _).
  destruct bs as [b|].
  2:{ cbn [fst snd hp]. split; [reflexivity|]. split; [|solve_hext]. unfold sim; cbn [hp recs bal m_pb m_bp dk]. split5; auto. }
  alloc_step. cbn [alloc value_mem hp recs bal m_pb m_bp dk].
  match goal with |- context [chain_update HM ?sa a tr] =>
    match goal with |- context [chain_update VM ?va a tr] => remember sa as sa0 eqn:Esa; remember va as va0 eqn:Eva end end.
  assert (Sa : sim sa0 va0).
  { subst sa0 va0. unfold sim; cbn [hp recs bal m_pb m_bp dk]. split5; auto. eapply rrel_ext; eauto. }
  assert (Xa : hext (hp s1) (hp sa0)) by (subst sa0; cbn [hp]; auto).
  clear Esa Eva.
  destruct (chain_update_sim sa0 va0 a tr Sa) as [Sb Xb].
  destruct (update_peer_balance_sim _ _ a bp Sb) as (_ & Sc & Xc).
  cbn [fst snd]. split; [reflexivity|]. split; [exact Sc|solve_hext].
Qed.

(** one step (any operation but a restart): same output, related states, nothing allocated changes *)
Definition is_restart (o : op) : bool := match o with ORestart _ => true | _ => false end.

Lemma boot_sim d : sim (boot HM d) (boot VM d).
Proof.
  unfold boot. alloc_step. cbn [alloc value_mem]. unfold sim; cbn [hp recs bal m_pb m_bp dk].
  split5; auto. constructor.
Qed.

Lemma step_sim s v o : sim s v ->
  fst (step HM false s o) = fst (step VM false v o) /\
  sim (snd (step HM false s o)) (snd (step VM false v o)) /\
  (is_restart o = false -> hext (hp s) (hp (snd (step HM false s o)))).
Proof.
  intros Hsim. destruct o as [p a b|p am|p am|p th sg dl|cv|cv|p ck rc bs tr bp]; cbn [step is_restart].
  - destruct (handshake_sim s v p a b Hsim) as (A & B & C).
    destruct (handshake HM s p a b), (handshake VM v p a b). cbn [fst snd] in *. subst. auto.
  - destruct (put_retrieve_sim s v p am Hsim) as (A & B & C).
    destruct (put_retrieve HM s p am), (put_retrieve VM v p am). cbn [fst snd] in *. subst. auto.
  - destruct (put_transfer_sim s v p am Hsim) as (A & B & C).
    destruct (put_transfer HM s p am), (put_transfer VM v p am). cbn [fst snd] in *. subst. auto.
  - destruct (pay_sim s v p th sg dl Hsim) as (A & B & C). auto.
  - destruct (svc_init_sim s v cv Hsim) as (A & B & C).
    destruct (svc_init HM s cv), (svc_init VM v cv). cbn [fst snd] in *. subst. auto.
  - assert (Ed : dk s = dk v) by apply Hsim. rewrite <- Ed.
    destruct (svc_init_sim _ _ cv (boot_sim (dk s))) as (A & B & C).
    destruct (svc_init HM (boot HM (dk s)) cv), (svc_init VM (boot VM (dk s)) cv). cbn [fst snd] in *. subst.
    split; [reflexivity|]. split; [auto|discriminate].
  - destruct (cashout_sim s v p ck rc bs tr bp Hsim) as (A & B & C).
    destruct (cashout HM s p ck rc bs tr bp), (cashout VM v p ck rc bs tr bp). cbn [fst snd] in *. subst. auto.
Qed.

Lemma run_sim : forall h s v, sim s v ->
  fst (run HM false s h) = fst (run VM false v h) /\ sim (snd (run HM false s h)) (snd (run VM false v h)).
Proof.
  induction h as [|o t IH]; intros s v Hsim; cbn [run]; [auto|].
  destruct (step_sim s v o Hsim) as (A & B & _).
  destruct (step HM false s o) as [r s1], (step VM false v o) as [r' v1]. cbn [fst snd] in *. subst r'.
  destruct (IH _ _ B) as [C D].
  destruct (run HM false s1 t) as [rs s2], (run VM false v1 t) as [rs' v2]. cbn [fst snd] in *. subst. auto.
Qed.

Lemma init_sim : sim (init_state HM) (init_state VM).
Proof. apply boot_sim. Qed.
