(** C31 — lemmas about the immutable-value reading of the program ([value_mem]). *)
From Coq Require Import List NArith ZArith Bool Lia.
Import ListNotations.
Require Import Aurora.C31.Model Aurora.C31.Heap.
Local Open Scope N_scope.

Definition vsum (f : traffic VM -> Z) (r : list (addr * traffic VM)) : Z := sum_field VM tt f r.

Lemma fold_sum_acc (f : traffic VM -> Z) r : forall acc,
  fold_left (fun acc (kv : addr * traffic VM) => (acc + f (snd kv))%Z) r acc
  = (acc + fold_left (fun acc (kv : addr * traffic VM) => (acc + f (snd kv))%Z) r 0)%Z.
Proof.
  induction r as [|x r IH]; intros acc; cbn [fold_left]; [lia|].
  rewrite IH, (IH (0 + f (snd x))%Z). lia.
Qed.
Lemma vsum_cons f x r : vsum f (x :: r) = (f (snd x) + vsum f r)%Z.
Proof. unfold vsum, sum_field. cbn [fold_left read VM]. rewrite fold_sum_acc. lia. Qed.
Lemma vsum_nil f : vsum f [] = 0%Z.
Proof. reflexivity. Qed.

Lemma vsum_set_some f a t t' r : get a r = Some t -> vsum f (set a t' r) = (vsum f r - f t + f t')%Z.
Proof.
  induction r as [|[k x] r IH]; cbn [get set]; [discriminate|].
  destruct (a =? k) eqn:E; intros G.
  - inversion G; subst. rewrite !vsum_cons. cbn [snd]. lia.
  - rewrite !vsum_cons, IH by auto. cbn [snd]. lia.
Qed.
Lemma vsum_set_none f a t' r : get a r = None -> vsum f (set a t' r) = (vsum f r + f t')%Z.
Proof.
  induction r as [|[k x] r IH]; cbn [get set]; intros G.
  - rewrite vsum_cons, vsum_nil. cbn [snd]. lia.
  - destruct (a =? k) eqn:E; [discriminate|]. rewrite !vsum_cons, IH by auto. cbn [snd]. lia.
Qed.

Lemma available_V v : available_balance VM v = (bal v + (vsum f_rchain (recs v) - vsum f_rtraffic (recs v)))%Z.
Proof. destruct v as [[] r b p q d]. reflexivity. Qed.

Definition zero_rec : traffic VM := @Build_traffic VM 0%Z 0%Z 0%Z 0%Z 0%Z 0%Z 0%Z 0.

(** getTraffic in the value reading *)
Lemma get_traffic_V v a t v1 :
  get_traffic VM v a = (t, v1) ->
  get a (recs v1) = Some t /\
  (forall a', a' <> a -> get a' (recs v1) = get a' (recs v)) /\
  (match get a (recs v) with Some t0 => t = t0 | None => t = zero_rec end) /\
  vsum f_rchain (recs v1) = vsum f_rchain (recs v) /\ vsum f_rtraffic (recs v1) = vsum f_rtraffic (recs v) /\
  bal v1 = bal v /\ m_pb v1 = m_pb v /\ m_bp v1 = m_bp v /\ dk v1 = dk v.
Proof.
  unfold get_traffic. destruct (get a (recs v)) as [t0|] eqn:G.
  - intros E; inversion E; subst. rewrite G. repeat split; auto.
  - cbn. intros E; inversion E; subst; clear E. cbn [recs bal m_pb m_bp dk].
    rewrite get_set_same. repeat split; auto.
    + intros a' Hne. now rewrite get_set_other.
    + rewrite vsum_set_none by auto. cbn. lia.
    + rewrite vsum_set_none by auto. cbn. lia.
Qed.

Definition rchain_of (v : vstate) (a : addr) : option Z := option_map f_rchain (get a (recs v)).

(** operations that do not consult the chain keep every "cashed" record *)
Definition keeps_cashed (v v' : vstate) : Prop :=
  forall a x, rchain_of v a = Some x -> rchain_of v' a = Some x.

Lemma keeps_cashed_refl v : keeps_cashed v v.
Proof. intros a x; auto. Qed.
Lemma keeps_cashed_trans v1 v2 v3 : keeps_cashed v1 v2 -> keeps_cashed v2 v3 -> keeps_cashed v1 v3.
Proof. intros A B a x Hx; auto. Qed.

Lemma get_traffic_keeps v a t v1 : get_traffic VM v a = (t, v1) -> keeps_cashed v v1.
Proof.
  intros E. destruct (get_traffic_V _ _ _ _ E) as (G1 & G2 & G3 & _). intros a' x. unfold rchain_of.
  destruct (N.eq_dec a' a) as [->|Hne]; [|now rewrite G2].
  rewrite G1. destruct (get a (recs v)); [now subst|discriminate].
Qed.

(** replacing the record of [a] by one with the same cashed value *)
Lemma set_keeps (v : vstate) a t t' :
  get a (recs v) = Some t -> forall v', recs v' = set a t' (recs v) -> f_rchain t' = f_rchain t ->
  keeps_cashed v v'.
Proof.
  intros G v' Er E a' x. unfold rchain_of. rewrite Er.
  destruct (N.eq_dec a' a) as [->|Hne]; [|now rewrite get_set_other].
  rewrite get_set_same, G. cbn. now rewrite E.
Qed.

Lemma update_peer_balance_keeps v a b : keeps_cashed v (snd (update_peer_balance VM v a b)).
Proof.
  unfold update_peer_balance. destruct b as [b|]; [|apply keeps_cashed_refl].
  destruct (get_traffic VM v a) as [t v1] eqn:E. cbn [alloc VM snd].
  eapply keeps_cashed_trans; [eapply get_traffic_keeps; eauto|].
  destruct (get_traffic_V _ _ _ _ E) as (G1 & _). eapply (set_keeps v1); [exact G1|reflexivity|reflexivity].
Qed.

Lemma handshake_keeps v p a b : keeps_cashed v (snd (handshake VM v p a b)).
Proof.
  unfold handshake. destruct (get p (m_pb v)); [apply update_peer_balance_keeps|].
  destruct (get a (m_bp v)); [apply keeps_cashed_refl|].
  match goal with |- keeps_cashed _ (snd (update_peer_balance VM ?v1 a b)) =>
    apply (keeps_cashed_trans v v1); [intros a' x; auto|apply update_peer_balance_keeps] end.
Qed.

Lemma put_retrieve_keeps v p am : keeps_cashed v (snd (put_retrieve VM v p am)).
Proof.
  unfold put_retrieve. destruct (get p (m_pb v)) as [a|]; [|apply keeps_cashed_refl].
  destruct (get_traffic VM v a) as [t v1] eqn:E. cbn [alloc VM snd].
  eapply keeps_cashed_trans; [eapply get_traffic_keeps; eauto|].
  destruct (get_traffic_V _ _ _ _ E) as (G1 & _). eapply (set_keeps v1); [exact G1|reflexivity|reflexivity].
Qed.
Lemma put_transfer_keeps v p am : keeps_cashed v (snd (put_transfer VM v p am)).
Proof.
  unfold put_transfer. destruct (get p (m_pb v)) as [a|]; [|apply keeps_cashed_refl].
  destruct (get_traffic VM v a) as [t v1] eqn:E. cbn [alloc VM snd].
  eapply keeps_cashed_trans; [eapply get_traffic_keeps; eauto|].
  destruct (get_traffic_V _ _ _ _ E) as (G1 & _). eapply (set_keeps v1); [exact G1|reflexivity|reflexivity].
Qed.

(** [issue] in the value reading: the cheque carries exactly the traffic owed, the record's
    cashed value and the available balance are untouched *)
Lemma issue_V (v : vstate) a (t : traffic VM) sg dl :
  get a (recs v) = Some t ->
  let balance := (f_rtraffic t - f_rcheque t)%Z in
  let r := issue VM false v a t balance sg dl in
  keeps_cashed v (snd r) /\ available_balance VM (snd r) = available_balance VM v /\
  bal (snd r) = bal v /\ m_pb (snd r) = m_pb v /\
  (forall x d, o_emit (fst r) = Some (x, d) -> x = (a, f_rtraffic t)) /\
  (o_emit (fst r) <> None -> exists t', get a (recs (snd r)) = Some t' /\ f_rtraffic t' = f_rtraffic t /\
                                        (f_rcheque t' = f_rcheque t \/ (f_rcheque t' = f_rtraffic t /\ o_err (fst r) = ENone))).
Proof.
  intros G. cbn zeta. unfold issue.
  destruct (available_balance VM v <? f_rtraffic t - f_rcheque t)%Z.
  { cbn. repeat split; auto using keeps_cashed_refl; try discriminate; congruence. }
  cbn [alloc VM read with_hp hp recs bal m_pb m_bp dk].
  replace (f_rcheque t + (f_rtraffic t - f_rcheque t))%Z with (f_rtraffic t) by lia.
  destruct sg; cbn [negb].
  2:{ cbn. destruct v. repeat split; auto using keeps_cashed_refl; try discriminate; congruence. }
  destruct dl; cbn [negb].
  2:{ cbn [fst snd o_emit o_err]. destruct v as [hv rv bv pv qv dv]. cbn [recs] in G. repeat split; auto using keeps_cashed_refl.
      - intros x d E. inversion E; reflexivity.
      - intros _. exists t. cbn [recs]. auto. }
  cbn [fst snd o_emit o_err recs bal m_pb].
  assert (Emax : max_loc VM (hp v) (f_rtraffic t) (f_rtraffic t) = f_rtraffic t).
  { unfold max_loc. cbn [read VM]. now rewrite Z.ltb_irrefl. }
  rewrite Emax. repeat split; auto.
  - eapply (set_keeps v); [exact G|reflexivity|reflexivity].
  - rewrite !available_V. cbn [bal recs]. rewrite !(vsum_set_some _ _ _ _ _ G). cbn. lia.
  - intros x d E. inversion E; reflexivity.
  - intros _. eexists. rewrite get_set_same. split; [reflexivity|]. cbn. auto.
Qed.

Lemma pay_V (v : vstate) p th sg dl :
  let r := pay VM false v p th sg dl in
  keeps_cashed v (snd r) /\ available_balance VM (snd r) = available_balance VM v /\
  (forall a x d, o_emit (fst r) = Some (a, x, d) ->
     get p (m_pb v) = Some a /\ exists t', get a (recs (snd r)) = Some t' /\ x = f_rtraffic t').
Proof.
  cbn zeta. unfold pay. destruct (get p (m_pb v)) as [a|] eqn:Gp.
  2:{ cbn. split; [apply keeps_cashed_refl|]. split; auto. discriminate. }
  destruct (get_traffic VM v a) as [t v1] eqn:E.
  destruct (get_traffic_V _ _ _ _ E) as (G1 & G2 & G3 & S1 & S2 & B1 & P1 & _).
  cbn [read VM].
  assert (Av : available_balance VM v1 = available_balance VM v) by (rewrite !available_V; congruence).
  destruct (th <=? f_rtraffic t - f_rcheque t)%Z.
  - destruct (issue_V v1 a t sg dl G1) as (K & A & _ & _ & Em & Ex). cbn zeta in *.
    split; [eapply keeps_cashed_trans; [eapply get_traffic_keeps; eauto|exact K]|].
    split; [congruence|].
    intros a' x d Ee. pose proof (Em _ _ Ee) as Ep. inversion Ep; subst a' x. split; auto.
    destruct Ex as (t' & Gt' & Et' & _); [congruence|]. exists t'. auto.
  - cbn [fst snd o_emit out_err]. split; [eapply get_traffic_keeps; eauto|]. split; auto. discriminate.
Qed.
