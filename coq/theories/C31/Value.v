(** C31 — lemmas about the immutable-value reading of the program ([value_mem]). *)
From Coq Require Import List NArith ZArith Bool Lia.
Import ListNotations.
Require Import Aurora.C31.Model Aurora.C31.Heap.
Local Open Scope N_scope.

Definition vsum (f : traffic VM -> Z) (r : list (addr * traffic VM)) : Z := sum_field VM tt f r.

Lemma fold_sum_acc (f : traffic VM -> Z) r : forall acc,
  fold_left (fun acc (kv : addr * traffic VM) => (acc + f (snd kv))%Z) r acc
  = (acc + fold_left (fun acc (kv : addr * traffic VM) => (acc + f (snd kv))%Z) r 0)%Z.
Proof.
  induction r as [|x r IH]; intros acc; cbn [fold_left]; [lia|].
  rewrite IH, (IH (0 + f (snd x))%Z). lia.
Qed.
Lemma vsum_cons f x r : vsum f (x :: r) = (f (snd x) + vsum f r)%Z.
Proof. unfold vsum, sum_field. cbn [fold_left read VM]. rewrite fold_sum_acc. lia. Qed.
Lemma vsum_nil f : vsum f [] = 0%Z.
Proof. reflexivity. Qed.

Lemma vsum_set_some f a t t' r : get a r = Some t -> vsum f (set a t' r) = (vsum f r - f t + f t')%Z.
Proof.
  induction r as [|[k x] r IH]; cbn [get set]; [discriminate|].
  destruct (a =? k) eqn:E; intros G.
  - inversion G; subst. rewrite !vsum_cons. cbn [snd]. lia.
  - rewrite !vsum_cons, IH by auto. cbn [snd]. lia.
Qed.
Lemma vsum_set_none f a t' r : get a r = None -> vsum f (set a t' r) = (vsum f r + f t')%Z.
Proof.
  induction r as [|[k x] r IH]; cbn [get set]; intros G.
  - rewrite vsum_cons, vsum_nil. cbn [snd]. lia.
  - destruct (a =? k) eqn:E; [discriminate|]. rewrite !vsum_cons, IH by auto. cbn [snd]. lia.
Qed.

Lemma available_V v : available_balance VM v = (bal v + (vsum f_rchain (recs v) - vsum f_rtraffic (recs v)))%Z.
Proof. destruct v as [[] r b p q d]. reflexivity. Qed.

Definition zero_rec : traffic VM := @Build_traffic VM 0%Z 0%Z 0%Z 0%Z 0%Z 0%Z 0%Z 0.

(** getTraffic in the value reading *)
Lemma get_traffic_V v a t v1 :
  get_traffic VM v a = (t, v1) ->
  get a (recs v1) = Some t /\
  (forall a', a' <> a -> get a' (recs v1) = get a' (recs v)) /\
  (match get a (recs v) with Some t0 => t = t0 | None => t = zero_rec end) /\
  vsum f_rchain (recs v1) = vsum f_rchain (recs v) /\ vsum f_rtraffic (recs v1) = vsum f_rtraffic (recs v) /\
  bal v1 = bal v /\ m_pb v1 = m_pb v /\ m_bp v1 = m_bp v /\ dk v1 = dk v.
Proof.
  unfold get_traffic. destruct (get a (recs v)) as [t0|] eqn:G.
  - intros E; inversion E; subst. rewrite G. repeat split; auto.
  - cbn. intros E; inversion E; subst; clear E. cbn [recs bal m_pb m_bp dk].
    rewrite get_set_same. repeat split; auto.
    + intros a' Hne. now rewrite get_set_other.
    + rewrite vsum_set_none by auto. cbn. lia.
    + rewrite vsum_set_none by auto. cbn. lia.
Qed.

Definition rchain_of (v : vstate) (a : addr) : option Z := option_map f_rchain (get a (recs v)).

(** operations that do not consult the chain keep every "cashed" record *)
Definition keeps_cashed (v v' : vstate) : Prop :=
  forall a x, rchain_of v a = Some x -> rchain_of v' a = Some x.

Lemma keeps_cashed_refl v : keeps_cashed v v.
Proof. intros a x; auto. Qed.
Lemma keeps_cashed_trans v1 v2 v3 : keeps_cashed v1 v2 -> keeps_cashed v2 v3 -> keeps_cashed v1 v3.
Proof. intros A B a x Hx; auto. Qed.

Lemma get_traffic_keeps v a t v1 : get_traffic VM v a = (t, v1) -> keeps_cashed v v1.
Proof.
  intros E. destruct (get_traffic_V _ _ _ _ E) as (G1 & G2 & G3 & _). intros a' x. unfold rchain_of.
  destruct (N.eq_dec a' a) as [->|Hne]; [|now rewrite G2].
  rewrite G1. destruct (get a (recs v)); [now subst|discriminate].
Qed.

(** replacing the record of [a] by one with the same cashed value *)
Lemma set_keeps (v : vstate) a t t' :
  get a (recs v) = Some t -> forall v', recs v' = set a t' (recs v) -> f_rchain t' = f_rchain t ->
  keeps_cashed v v'.
Proof.
  intros G v' Er E a' x. unfold rchain_of. rewrite Er.
  destruct (N.eq_dec a' a) as [->|Hne]; [|now rewrite get_set_other].
  rewrite get_set_same, G. cbn. now rewrite E.
Qed.

Lemma update_peer_balance_keeps v a b : keeps_cashed v (snd (update_peer_balance VM v a b)).
Proof.
  unfold update_peer_balance. destruct b as [b|]; [|apply keeps_cashed_refl].
  destruct (get_traffic VM v a) as [t v1] eqn:E. cbn [alloc VM snd].
  eapply keeps_cashed_trans; [eapply get_traffic_keeps; eauto|].
  destruct (get_traffic_V _ _ _ _ E) as (G1 & _). eapply (set_keeps v1); [exact G1|reflexivity|reflexivity].
Qed.

Lemma handshake_keeps v p a b : keeps_cashed v (snd (handshake VM v p a b)).
Proof.
  unfold handshake. destruct (get p (m_pb v)); [apply update_peer_balance_keeps|].
  destruct (get a (m_bp v)); [apply keeps_cashed_refl|].
  match goal with |- keeps_cashed _ (snd (update_peer_balance VM ?v1 a b)) =>
    apply (keeps_cashed_trans v v1); [intros a' x; auto|apply update_peer_balance_keeps] end.
Qed.

Lemma put_retrieve_keeps v p am : keeps_cashed v (snd (put_retrieve VM v p am)).
Proof.
  unfold put_retrieve. destruct (get p (m_pb v)) as [a|]; [|apply keeps_cashed_refl].
  destruct (get_traffic VM v a) as [t v1] eqn:E. cbn [alloc VM snd].
  eapply keeps_cashed_trans; [eapply get_traffic_keeps; eauto|].
  destruct (get_traffic_V _ _ _ _ E) as (G1 & _). eapply (set_keeps v1); [exact G1|reflexivity|reflexivity].
Qed.
Lemma put_transfer_keeps v p am : keeps_cashed v (snd (put_transfer VM v p am)).
Proof.
  unfold put_transfer. destruct (get p (m_pb v)) as [a|]; [|apply keeps_cashed_refl].
  destruct (get_traffic VM v a) as [t v1] eqn:E. cbn [alloc VM snd].
  eapply keeps_cashed_trans; [eapply get_traffic_keeps; eauto|].
  destruct (get_traffic_V _ _ _ _ E) as (G1 & _). eapply (set_keeps v1); [exact G1|reflexivity|reflexivity].
Qed.

(** [issue] in the value reading: the cheque carries exactly the traffic owed, the record's
    cashed value and the available balance are untouched *)
Lemma issue_V (v : vstate) a (t : traffic VM) sg dl :
  get a (recs v) = Some t ->
  let balance := (f_rtraffic t - f_rcheque t)%Z in
  let r := issue VM false v a t balance sg dl in
  keeps_cashed v (snd r) /\ available_balance VM (snd r) = available_balance VM v /\
  bal (snd r) = bal v /\ m_pb (snd r) = m_pb v /\
  (forall x d, o_emit (fst r) = Some (x, d) -> x = (a, f_rtraffic t)) /\
  (o_emit (fst r) <> None -> exists t', get a (recs (snd r)) = Some t' /\ f_rtraffic t' = f_rtraffic t /\
                                        (f_rcheque t' = f_rcheque t \/ (f_rcheque t' = f_rtraffic t /\ o_err (fst r) = ENone))).
Proof.
  intros G. cbn zeta. unfold issue.
  destruct (available_balance VM v <? f_rtraffic t - f_rcheque t)%Z.
  { cbn. repeat split; auto using keeps_cashed_refl; try discriminate; congruence. }
  cbn [alloc VM read with_hp hp recs bal m_pb m_bp dk].
  replace (f_rcheque t + (f_rtraffic t - f_rcheque t))%Z with (f_rtraffic t) by lia.
  destruct sg; cbn [negb].
  2:{ cbn. destruct v. repeat split; auto using keeps_cashed_refl; try discriminate; congruence. }
  destruct dl; cbn [negb].
  2:{ cbn [fst snd o_emit o_err]. destruct v as [hv rv bv pv qv dv]. cbn [recs] in G. repeat split; auto using keeps_cashed_refl.
      - intros x d E. inversion E; reflexivity.
      - intros _. exists t. cbn [recs]. auto. }
  cbn [fst snd o_emit o_err recs bal m_pb].
  assert (Emax : max_loc VM (hp v) (f_rtraffic t) (f_rtraffic t) = f_rtraffic t).
  { unfold max_loc. cbn [read VM]. now rewrite Z.ltb_irrefl. }
  rewrite Emax. repeat split; auto.
  - eapply (set_keeps v); [exact G|reflexivity|reflexivity].
  - rewrite !available_V. cbn [bal recs]. rewrite !(vsum_set_some _ _ _ _ _ G). cbn. lia.
  - intros x d E. inversion E; reflexivity.
  - intros _. eexists. rewrite get_set_same. split; [reflexivity|]. cbn. auto.
Qed.

Lemma pay_V (v : vstate) p th sg dl :
  let r := pay VM false v p th sg dl in
  keeps_cashed v (snd r) /\ available_balance VM (snd r) = available_balance VM v /\
  (forall a x d, o_emit (fst r) = Some (a, x, d) ->
     get p (m_pb v) = Some a /\ exists t', get a (recs (snd r)) = Some t' /\ x = f_rtraffic t').
Proof.
  cbn zeta. unfold pay. destruct (get p (m_pb v)) as [a|] eqn:Gp.
  2:{ cbn. split; [apply keeps_cashed_refl|]. split; auto. discriminate. }
  destruct (get_traffic VM v a) as [t v1] eqn:E.
  destruct (get_traffic_V _ _ _ _ E) as (G1 & G2 & G3 & S1 & S2 & B1 & P1 & _).
  cbn [read VM].
  assert (Av : available_balance VM v1 = available_balance VM v) by (rewrite !available_V; congruence).
  destruct (th <=? f_rtraffic t - f_rcheque t)%Z.
  - destruct (issue_V v1 a t sg dl G1) as (K & A & _ & _ & Em & Ex). cbn zeta in *.
    split; [eapply keeps_cashed_trans; [eapply get_traffic_keeps; eauto|exact K]|].
    split; [congruence|].
    intros a' x d Ee. pose proof (Em _ _ Ee) as Ep. inversion Ep; subst a' x. split; auto.
    destruct Ex as (t' & Gt' & Et' & _); [congruence|]. exists t'. auto.
  - cbn [fst snd o_emit out_err]. split; [eapply get_traffic_keeps; eauto|]. split; auto. discriminate.
Qed.

(** ---- the cash-out receipt path ---- *)
Definition keeps_except (v v' : vstate) (a : addr) : Prop :=
  forall a' x, a' <> a -> rchain_of v a' = Some x -> rchain_of v' a' = Some x.
Lemma keeps_to_except v v' a : keeps_cashed v v' -> keeps_except v v' a.
Proof. intros K a' x _. apply K. Qed.
Lemma keeps_except_trans v1 v2 v3 a : keeps_except v1 v2 a -> keeps_except v2 v3 a -> keeps_except v1 v3 a.
Proof. intros A B a' x Hne Hx. auto. Qed.
Lemma keeps_same_recs (v v' : vstate) : recs v' = recs v -> keeps_cashed v v'.
Proof. intros E a x. unfold rchain_of. now rewrite E. Qed.

Lemma set_status_keeps v a st : keeps_cashed v (set_status VM v a st).
Proof.
  unfold set_status. destruct (get a (recs v)) as [t|] eqn:G; [|apply keeps_cashed_refl].
  unfold put_traffic, with_recs. eapply (set_keeps v); [exact G|reflexivity|reflexivity].
Qed.

Lemma chain_update_V v a tr :
  let v2 := chain_update VM v a tr in
  keeps_except v v2 a /\ (forall x, snd tr = Some x -> rchain_of v2 a = Some x) /\
  (snd tr = None -> rchain_of v2 a = Some (get0 a (d_chain_retrieve (dk v)))).
Proof.
  cbn zeta. unfold chain_update. destruct (get_traffic VM v a) as [t v1] eqn:E.
  destruct (get_traffic_V _ _ _ _ E) as (G1 & G2 & _ & _ & _ & _ & _ & _ & Ed).
  assert (K : forall (v2 : vstate) t2, recs v2 = set a t2 (recs v1) -> keeps_except v v2 a).
  { intros v2 t2 Er a' x Hne Hx. unfold rchain_of in *. rewrite Er, get_set_other, G2 by auto. exact Hx. }
  destruct (fst tr) as [y|], (snd tr) as [x|]; cbn [alloc VM dk d_chain_retrieve d_chain_transfer]; rewrite ?Ed;
    (split; [eapply K; reflexivity|]); unfold rchain_of; cbn [recs]; rewrite get_set_same; cbn [option_map f_rchain];
    split; intros; try discriminate; try congruence; auto.
Qed.

Lemma cashout_V v p ck rc bs tr bp :
  let v' := snd (cashout VM v p ck rc bs tr bp) in
  (forall a' x, get p (m_pb v) <> Some a' -> rchain_of v a' = Some x -> rchain_of v' a' = Some x) /\
  (forall a b x, get p (m_pb v) = Some a -> ck = true -> rc = Some 1 -> bs = Some b -> snd tr = Some x -> rchain_of v' a = Some x) /\
  (ck = false \/ rc <> Some 1 \/ bs = None -> keeps_cashed v v').
Proof.
  cbn zeta. unfold cashout. destruct (get p (m_pb v)) as [a|] eqn:Gp.
  2:{ cbn [snd]. split; [auto|]. split; [discriminate|]. intros _; apply keeps_cashed_refl. }
  destruct (get_traffic VM v a) as [t0 v1] eqn:E1. pose proof (get_traffic_keeps _ _ _ _ E1) as K1.
  destruct ck; cbn [negb].
  2:{ cbn [snd]. split; [intros a' x _; apply K1|]. split; [discriminate|]. intros _; exact K1. }
  pose proof (set_status_keeps v1 a 1) as K2. pose proof (set_status_keeps (set_status VM v1 a 1) a 0) as K3.
  remember (set_status VM (set_status VM v1 a 1) a 0) as v2 eqn:Ev2. clear Ev2.
  assert (K12 : keeps_cashed v v2) by (eapply keeps_cashed_trans; [exact K1|eapply keeps_cashed_trans; eauto]).
  assert (Hdef : (forall a' x, Some a <> Some a' -> rchain_of v a' = Some x -> rchain_of v2 a' = Some x) /\
                 (forall a0 b x, Some a = Some a0 -> true = true -> rc = Some 1 -> bs = Some b -> snd tr = Some x -> rchain_of v2 a0 = Some x) \/ True).
  { right. exact Logic.I. } clear Hdef.
  destruct rc as [[|[q|q|]]|]; cbn [snd];
    try (split; [intros a' x _; apply K12|]; split; [discriminate|]; intros _; exact K12).
  destruct (get_traffic VM v2 a) as [t2 v3] eqn:E3. pose proof (get_traffic_keeps _ _ _ _ E3) as K4.
  unfold with_dk. cbn [read VM].
  destruct bs as [b|].
  2:{ cbn [snd]. assert (K : keeps_cashed v3 {| hp := hp v3; recs := recs v3; bal := bal v3; m_pb := m_pb v3; m_bp := m_bp v3;
            dk := {| d_pb := d_pb (dk v3); d_bp := d_bp (dk v3); d_last_send := d_last_send (dk v3); d_last_recv := d_last_recv (dk v3);
                     d_retrieve := d_retrieve (dk v3); d_transfer := d_transfer (dk v3);
                     d_chain_retrieve := set a (f_rcheque t2) (d_chain_retrieve (dk v3));
                     d_chain_transfer := set a (f_tcheque t2) (d_chain_transfer (dk v3)) |} |}) by (apply keeps_same_recs; reflexivity).
      assert (K' := keeps_cashed_trans _ _ _ K12 (keeps_cashed_trans _ _ _ K4 K)).
      split; [intros a' x _; apply K'|]. split; [discriminate|]. intros _; exact K'. }
  cbn [alloc VM hp recs bal m_pb m_bp dk snd].
  match goal with |- context [chain_update VM ?va a tr] => remember va as v4 eqn:Ev4 end.
  assert (K5 : keeps_cashed v3 v4) by (subst v4; apply keeps_same_recs; reflexivity). clear Ev4.
  destruct (chain_update_V v4 a tr) as (X1 & X2 & _). cbn zeta in *.
  pose proof (update_peer_balance_keeps (chain_update VM v4 a tr) a bp) as K6.
  assert (K14 : keeps_cashed v v4) by (eapply keeps_cashed_trans; [exact K12|eapply keeps_cashed_trans; eauto]).
  split; [|split].
  - intros a' x Hne Hx. apply K6. apply X1; [congruence|]. apply K14. exact Hx.
  - intros a0 b0 x Ea _ _ _ Ex. inversion Ea; subst a0. apply K6. apply X2. exact Ex.
  - intros [H|[H|H]]; congruence.
Qed.
