(** C31 — cumulative payouts, in the immutable-value reading, over histories without a restart
    after start-up: every cheque handed to the peer is strictly above the last cheque that was
    DELIVERED to that peer (so delivered payouts strictly increase; a failed delivery may be
    retried with the same payout). *)
From Coq Require Import List NArith ZArith Bool Lia.
Import ListNotations.
Require Import Aurora.C31.Model Aurora.C31.Heap Aurora.C31.Refine Aurora.C31.Value.
Local Open Scope N_scope.

Definition lastmap := addr -> option Z.
Definition upd (m : lastmap) (a : addr) (x : Z) : lastmap := fun a' => if a' =? a then Some x else m a'.

Record Inv (v : vstate) (m : lastmap) : Prop := {
  inv_disk : forall a, get a (d_last_send (dk v)) = m a;
  inv_cheque : forall a t y, get a (recs v) = Some t -> m a = Some y -> (y <= f_rcheque t)%Z;
  inv_rec : forall a y, m a = Some y -> get a (recs v) <> None
}.

(** replacing (or adding) the record of [a] by one whose sent-cheque total is not below the last delivered payout *)
Lemma inv_set v m a (t' : traffic VM) v' :
  Inv v m -> recs v' = set a t' (recs v) -> d_last_send (dk v') = d_last_send (dk v) ->
  (forall y, m a = Some y -> (y <= f_rcheque t')%Z) -> Inv v' m.
Proof.
  intros [I1 I2 I3] Er Ed C. constructor.
  - intros a'. rewrite Ed. apply I1.
  - intros a' t y G My. rewrite Er in G. destruct (N.eq_dec a' a) as [->|Hne].
    + rewrite get_set_same in G. inversion G; subst. auto.
    + rewrite get_set_other in G by auto. eauto.
  - intros a' y My. rewrite Er. destruct (N.eq_dec a' a) as [->|Hne].
    + rewrite get_set_same. discriminate.
    + rewrite get_set_other by auto. eauto.
Qed.

Ltac use_inv_set := eapply inv_set; [eassumption|reflexivity|reflexivity|cbn [f_rcheque]; eauto].

Lemma inv_same_recs v m v' : Inv v m -> recs v' = recs v -> d_last_send (dk v') = d_last_send (dk v) -> Inv v' m.
Proof. intros [I1 I2 I3] Er Ed. constructor; intros; rewrite ?Er, ?Ed in *; eauto. Qed.

Lemma get_traffic_inv v m a t v1 :
  Inv v m -> get_traffic VM v a = (t, v1) ->
  Inv v1 m /\ get a (recs v1) = Some t /\ dk v1 = dk v /\ m_pb v1 = m_pb v /\ (forall y, m a = Some y -> (y <= f_rcheque t)%Z).
Proof.
  intros I E. pose proof I as [I1 I2 I3]. unfold get_traffic in E. destruct (get a (recs v)) as [t0|] eqn:G.
  - inversion E; subst. split5; auto. intros y My. eauto.
  - cbn in E. inversion E; subst; clear E. cbn [recs dk m_pb]. rewrite get_set_same.
    assert (C : forall y, m a = Some y -> (y <= 0)%Z) by (intros y My; exfalso; eapply I3; eauto).
    split5; auto. use_inv_set. 
Qed.

Lemma update_peer_balance_inv v m a b : Inv v m -> Inv (snd (update_peer_balance VM v a b)) m.
Proof.
  intros I. unfold update_peer_balance. destruct b as [b|]; auto.
  destruct (get_traffic VM v a) as [t v1] eqn:E. destruct (get_traffic_inv _ _ _ _ _ I E) as (I1 & G & _ & _ & C).
  cbn [alloc VM snd]. use_inv_set.
Qed.

Lemma chain_update_inv v m a tr : Inv v m -> Inv (chain_update VM v a tr) m.
Proof.
  intros I. unfold chain_update. destruct (get_traffic VM v a) as [t v1] eqn:E.
  destruct (get_traffic_inv _ _ _ _ _ I E) as (I1 & G & _ & _ & C).
  destruct (fst tr), (snd tr); cbn [alloc VM]; (use_inv_set).
Qed.

Lemma max_loc_ge (u : heap VM) (a b : Z) : (a <= max_loc VM u a b /\ b <= max_loc VM u a b)%Z.
Proof. unfold max_loc. cbn [read VM]. destruct (Z.ltb_spec a b); lia. Qed.

Lemma cheque_update_inv v m a : Inv v m -> Inv (cheque_update VM v a) m.
Proof.
  intros I. unfold cheque_update. destruct (get_traffic VM v a) as [t v1] eqn:E.
  destruct (get_traffic_inv _ _ _ _ _ I E) as (I1 & G & Ed & _ & C).
  pose proof (inv_disk _ _ I1 a) as D.
  destruct (get a (d_last_send (dk v1))) as [x|] eqn:Gx, (get a (d_last_recv (dk v1))) as [y|];
    cbn [alloc VM]; (eapply inv_set; [eassumption|reflexivity|reflexivity|]); cbn [f_rcheque]; intros z Mz; rewrite <- D in Mz; inversion Mz; subst;
    match goal with |- (_ <= max_loc VM ?u ?p ?q)%Z => pose proof (max_loc_ge u p q); lia end.
Qed.

Lemma init_fold_inv cv m l : forall v, Inv v m ->
  Inv (fold_left (fun (s : state VM) a => cheque_update VM (chain_update VM s a (trans_of cv a)) a) l v) m.
Proof.
  induction l as [|a l IH]; intros v I; cbn [fold_left]; auto.
  apply IH. apply cheque_update_inv. apply chain_update_inv. exact I.
Qed.

Lemma svc_init_inv v m cv : Inv v m -> Inv (snd (svc_init VM v cv)) m.
Proof.
  intros I. unfold svc_init, traffic_init. destruct (cv_lists cv) as [l|]; [|exact I].
  pose proof (init_fold_inv cv m (address_list (dk v) l) v I) as I1.
  match type of I1 with Inv ?x _ => remember x as v1 eqn:Ev1 end. clear Ev1.
  destruct (cv_bal cv) as [b|]; [|exact I1].
  cbn [alloc VM]. destruct (cv_paid cv); cbn [snd]; [unfold init_book|]; eapply inv_same_recs; eauto.
Qed.

Lemma set_status_inv v m a st : Inv v m -> Inv (set_status VM v a st) m.
Proof.
  intros I. unfold set_status. destruct (get a (recs v)) as [t|] eqn:G; auto.
  unfold put_traffic, with_recs. eapply inv_set; [eassumption|reflexivity|reflexivity|]. cbn [f_rcheque]. intros y My. eapply inv_cheque; eauto.
Qed.

Lemma cashout_inv v m p ck rc bs tr bp : Inv v m -> Inv (snd (cashout VM v p ck rc bs tr bp)) m.
Proof.
  intros I. unfold cashout. destruct (get p (m_pb v)) as [a|]; auto.
  destruct (get_traffic VM v a) as [t v1] eqn:E. destruct (get_traffic_inv _ _ _ _ _ I E) as (I1 & _).
  destruct ck; cbn [negb]; auto.
  pose proof (set_status_inv _ _ a 0 (set_status_inv _ _ a 1 I1)) as I2.
  remember (set_status VM (set_status VM v1 a 1) a 0) as v2 eqn:Ev2. clear Ev2.
  destruct rc as [[|[q|q|]]|]; auto.
  destruct (get_traffic VM v2 a) as [t2 v3] eqn:E2. destruct (get_traffic_inv _ _ _ _ _ I2 E2) as (I3 & _).
  unfold with_dk. cbn [read VM].
  match goal with |- context [match bs with Some _ => _ | None => (ENone, ?va) end] =>
    assert (I4 : Inv va m) by (eapply inv_same_recs; eauto) end.
  destruct bs as [b|]; [|exact I4]. cbn [alloc VM snd hp recs bal m_pb m_bp dk].
  apply update_peer_balance_inv. apply chain_update_inv. eapply inv_same_recs; [exact I4|reflexivity|reflexivity].
Qed.

Lemma handshake_inv v m p a b : Inv v m -> Inv (snd (handshake VM v p a b)) m.
Proof.
  intros I. unfold handshake. destruct (get p (m_pb v)); [apply update_peer_balance_inv; auto|].
  destruct (get a (m_bp v)); auto. apply update_peer_balance_inv. eapply inv_same_recs; eauto.
Qed.

Lemma put_retrieve_inv v m p am : Inv v m -> Inv (snd (put_retrieve VM v p am)) m.
Proof.
  intros I. unfold put_retrieve. destruct (get p (m_pb v)) as [a|]; auto.
  destruct (get_traffic VM v a) as [t v1] eqn:E. destruct (get_traffic_inv _ _ _ _ _ I E) as (I1 & G & _ & _ & C).
  cbn [alloc VM snd]. use_inv_set.
Qed.
Lemma put_transfer_inv v m p am : Inv v m -> Inv (snd (put_transfer VM v p am)) m.
Proof.
  intros I. unfold put_transfer. destruct (get p (m_pb v)) as [a|]; auto.
  destruct (get_traffic VM v a) as [t v1] eqn:E. destruct (get_traffic_inv _ _ _ _ _ I E) as (I1 & G & _ & _ & C).
  cbn [alloc VM snd]. use_inv_set.
Qed.

(** what one output says about the cheque handed out, given the last delivered payouts [m] *)
Definition emit_ok (m : lastmap) (o : out) : Prop :=
  match o_emit o with
  | Some (a, x, _) => match m a with Some y => (y < x)%Z | None => True end
  | None => True
  end.
Definition after_out (m : lastmap) (o : out) : lastmap :=
  match o_emit o with
  | Some (a, x, true) => upd m a x
  | _ => m
  end.

Lemma pay_inv v m p th sg dl : Inv v m -> (0 < th)%Z ->
  let r := pay VM false v p th sg dl in emit_ok m (fst r) /\ Inv (snd r) (after_out m (fst r)).
Proof.
  intros I Hth. cbn zeta. unfold pay. destruct (get p (m_pb v)) as [a|]; [|split; [exact I0|exact I] || (split; [cbv; exact Logic.I|exact I])].
  destruct (get_traffic VM v a) as [t v1] eqn:E. destruct (get_traffic_inv _ _ _ _ _ I E) as (I1 & G & _ & _ & C).
  cbn [read VM]. destruct (Z.leb_spec th (f_rtraffic t - f_rcheque t)); [|split; [cbv; exact Logic.I|exact I1]].
  unfold issue, emit_ok, after_out. destruct (available_balance VM v1 <? f_rtraffic t - f_rcheque t)%Z; [split; [exact Logic.I|exact I1]|].
  cbn [alloc VM read with_hp hp recs bal m_pb m_bp dk].
  replace (f_rcheque t + (f_rtraffic t - f_rcheque t))%Z with (f_rtraffic t) by lia.
  assert (Hlt : match m a with Some y => (y < f_rtraffic t)%Z | None => True end).
  { destruct (m a) as [y|] eqn:My; auto. specialize (C y eq_refl). lia. }
  destruct sg; cbn [negb fst snd o_emit]; [|split; [exact Logic.I|eapply inv_same_recs; eauto]].
  destruct dl; cbn [negb fst snd o_emit]; [|split; [exact Hlt|eapply inv_same_recs; eauto]].
  split; [exact Hlt|].
  pose proof I1 as [J1 J2 J3]. constructor; cbn [dk d_last_send recs].
  - intros a'. unfold upd. destruct (N.eq_dec a' a) as [->|Hne].
    + now rewrite get_set_same, N.eqb_refl.
    + rewrite get_set_other by auto. apply N.eqb_neq in Hne. rewrite Hne. apply J1.
  - intros a' t' y Gt My. unfold upd in My. destruct (N.eq_dec a' a) as [->|Hne].
    + rewrite N.eqb_refl in My. inversion My; subst. rewrite get_set_same in Gt. inversion Gt; subst. cbn. lia.
    + rewrite get_set_other in Gt by auto. apply N.eqb_neq in Hne. rewrite Hne in My. eauto.
  - intros a' y My. unfold upd in My. destruct (N.eq_dec a' a) as [->|Hne].
    + rewrite get_set_same. discriminate.
    + rewrite get_set_other by auto. apply N.eqb_neq in Hne. rewrite Hne in My. eauto.
Qed.

Definition threshold_pos (o : op) : Prop := match o with OPay _ th _ _ => (0 < th)%Z | _ => True end.

Lemma step_inv v m o : Inv v m -> is_restart o = false -> threshold_pos o ->
  let r := step VM false v o in emit_ok m (fst r) /\ Inv (snd r) (after_out m (fst r)).
Proof.
  intros I Hr Ht. destruct o as [p a b|p am|p am|p th sg dl|cv|cv|p ck rc bs tr bp]; cbn [step]; try discriminate.
  - pose proof (handshake_inv v m p a b I). destruct (handshake VM v p a b). split; [exact Logic.I|auto].
  - pose proof (put_retrieve_inv v m p am I). destruct (put_retrieve VM v p am). split; [exact Logic.I|auto].
  - pose proof (put_transfer_inv v m p am I). destruct (put_transfer VM v p am). split; [exact Logic.I|auto].
  - apply pay_inv; auto.
  - pose proof (svc_init_inv v m cv I). destruct (svc_init VM v cv). split; [exact Logic.I|auto].
  - pose proof (cashout_inv v m p ck rc bs tr bp I). destruct (cashout VM v p ck rc bs tr bp). split; [exact Logic.I|auto].
Qed.

(** along a list of outputs *)
Fixpoint emits_above (m : lastmap) (outs : list out) : Prop :=
  match outs with
  | [] => True
  | o :: t => emit_ok m o /\ emits_above (after_out m o) t
  end.

Lemma run_inv : forall h v m, Inv v m ->
  forallb (fun o => negb (is_restart o)) h = true -> Forall threshold_pos h ->
  emits_above m (fst (run VM false v h)).
Proof.
  induction h as [|o t IH]; intros v m I Hr Ht; cbn [run]; [exact Logic.I|].
  cbn [forallb] in Hr. apply andb_true_iff in Hr as [Hr1 Hr2]. apply negb_true_iff in Hr1. inversion Ht; subst.
  destruct (step_inv v m o I Hr1 H1) as [A B]. destruct (step VM false v o) as [r v1]. cbn [fst snd] in *.
  specialize (IH v1 _ B Hr2 H2). destruct (run VM false v1 t) as [rs v2]. cbn [fst snd] in *. split; auto.
Qed.

Lemma inv_init : Inv (init_state VM) (fun _ => None).
Proof. constructor; cbn; intros; try discriminate; auto. Qed.

(** ---- restarts ----
    A restart forgets the records; Init rebuilds one for every address of the peer list, which
    contains every address with a last sent cheque (repo commit 0d61be5), with a sent-cheque
    total that is at least that cheque (restore = max(chain, cheque)).  *)
Definition W (v : vstate) (m : lastmap) : Prop :=
  (forall a, get a (d_last_send (dk v)) = m a) /\
  (forall a t y, get a (recs v) = Some t -> m a = Some y -> (y <= f_rcheque t)%Z).
Definition has_rec (v : vstate) (a : addr) : Prop := get a (recs v) <> None.

Lemma Inv_W v m : Inv v m -> W v m.
Proof. intros [I1 I2 I3]. split; auto. Qed.

Lemma chain_update_frame v a tr :
  let v2 := chain_update VM v a tr in
  d_last_send (dk v2) = d_last_send (dk v) /\
  (forall a', a' <> a -> get a' (recs v2) = get a' (recs v)) /\ has_rec v2 a.
Proof.
  cbn zeta. unfold chain_update. destruct (get_traffic VM v a) as [t v1] eqn:E.
  destruct (get_traffic_V _ _ _ _ E) as (G1 & G2 & _ & _ & _ & _ & _ & _ & Ed).
  destruct (fst tr), (snd tr); cbn [alloc VM dk recs d_last_send]; rewrite Ed;
    (split; [reflexivity|]); (split; [intros a' Hne; rewrite get_set_other by auto; apply G2; auto|]);
    unfold has_rec; cbn [recs]; rewrite get_set_same; discriminate.
Qed.

Lemma cheque_update_frame v a :
  has_rec v a ->
  let v3 := cheque_update VM v a in
  d_last_send (dk v3) = d_last_send (dk v) /\
  (forall a', a' <> a -> get a' (recs v3) = get a' (recs v)) /\
  exists t3, get a (recs v3) = Some t3 /\ forall y, get a (d_last_send (dk v)) = Some y -> (y <= f_rcheque t3)%Z.
Proof.
  intros Hr. cbn zeta. unfold cheque_update, get_traffic. unfold has_rec in Hr.
  destruct (get a (recs v)) as [t|] eqn:G; [|congruence].
  destruct (get a (d_last_send (dk v))) as [x|] eqn:Gx, (get a (d_last_recv (dk v))) as [z|];
    cbn [alloc VM dk recs]; (split; [reflexivity|]);
    (split; [intros a' Hne; now rewrite get_set_other by auto|]);
    eexists; rewrite get_set_same; (split; [reflexivity|]); cbn [f_rcheque]; intros y Ey; inversion Ey; subst;
    match goal with |- (_ <= max_loc VM ?u ?p ?q)%Z => pose proof (max_loc_ge u p q); lia end.
Qed.

Lemma init_one_W v m a tr :
  W v m -> let v' := cheque_update VM (chain_update VM v a tr) a in
  W v' m /\ has_rec v' a /\ (forall a', has_rec v a' -> has_rec v' a').
Proof.
  intros [W1 W2]. cbn zeta.
  destruct (chain_update_frame v a tr) as (D2 & O2 & R2). cbn zeta in *.
  remember (chain_update VM v a tr) as v2 eqn:E2. clear E2.
  destruct (cheque_update_frame v2 a R2) as (D3 & O3 & t3 & G3 & C3). cbn zeta in *.
  remember (cheque_update VM v2 a) as v3 eqn:E3. clear E3.
  split; [split|split].
  - intros a'. rewrite D3, D2. apply W1.
  - intros a' t y G My. destruct (N.eq_dec a' a) as [->|Hne].
    + rewrite G3 in G. inversion G; subst. apply C3. rewrite D2, W1. exact My.
    + rewrite O3, O2 in G by auto. eauto.
  - unfold has_rec. rewrite G3. discriminate.
  - intros a' Hr. unfold has_rec in *. destruct (N.eq_dec a' a) as [->|Hne]; [rewrite G3; discriminate|].
    now rewrite O3, O2 by auto.
Qed.

Lemma init_fold_W cv m l : forall v, W v m ->
  let v' := fold_left (fun (s : state VM) a => cheque_update VM (chain_update VM s a (trans_of cv a)) a) l v in
  W v' m /\ (forall a, In a l -> has_rec v' a) /\ (forall a, has_rec v a -> has_rec v' a).
Proof.
  induction l as [|a l IH]; intros v Hw; cbn [fold_left].
  - split; [exact Hw|]. split; [intros a []|auto].
  - destruct (init_one_W v m a (trans_of cv a) Hw) as (W1 & R1 & M1). cbn zeta in *.
    destruct (IH _ W1) as (W2 & R2 & M2). cbn zeta in *. split; [exact W2|]. split.
    + intros a' [<-|Hin]; auto.
    + intros a' Hr. auto.
Qed.

Lemma mem_n_In k l : mem_n k l = true <-> In k l.
Proof.
  induction l as [|x t IH]; cbn; [split; [discriminate|tauto]|]. rewrite orb_true_iff, N.eqb_eq, IH. split; intros [H|H]; auto.
Qed.
Lemma dedup_into_incl l : forall acc x, In x acc \/ In x l -> In x (dedup_into acc l).
Proof.
  induction l as [|y t IH]; intros acc x [H|H]; cbn [dedup_into]; auto; try contradiction.
  - destruct (mem_n y acc); apply IH; left; auto. apply in_or_app; auto.
  - destruct (mem_n y acc) eqn:E.
    + destruct H as [<-|H]; apply IH; [left; now apply mem_n_In|right; auto].
    + destruct H as [<-|H]; apply IH; [left; apply in_or_app; right; left; reflexivity|right; auto].
Qed.

Lemma get_In_keys {A} a (l : list (N * A)) x : get a l = Some x -> In a (map fst l).
Proof.
  induction l as [|[k v] t IH]; cbn; [discriminate|]. destruct (a =? k) eqn:E; intros G.
  - apply N.eqb_eq in E. auto.
  - right; auto.
Qed.

(** a restart whose peer lists could be read re-establishes the invariant *)
Lemma restart_inv v m cv : W v m -> cv_lists cv <> None -> Inv (snd (svc_init VM (boot VM (dk v)) cv)) m.
Proof.
  intros [W1 W2] Hl. unfold svc_init, traffic_init. destruct (cv_lists cv) as [l|]; [|congruence].
  assert (Wb : W (boot VM (dk v)) m). { split; [exact W1|]. intros a t y G. discriminate. }
  change (dk (boot VM (dk v))) with (dk v).
  destruct (init_fold_W cv m (address_list (dk v) l) _ Wb) as ([F1 F2] & F3 & _). cbn zeta in *.
  match type of F1 with forall a, get a (d_last_send (dk ?x)) = _ => remember x as v1 eqn:Ev1 end. clear Ev1.
  assert (I1 : Inv v1 m).
  { constructor; auto. intros a y My. apply F3. unfold address_list. apply dedup_into_incl. right.
    rewrite <- W1 in My. apply in_or_app; right. apply in_or_app; right. apply in_or_app; left. eapply get_In_keys; eauto. }
  destruct (cv_bal cv) as [b|]; [|exact I1].
  cbn [alloc VM]. destruct (cv_paid cv); cbn [snd]; [unfold init_book|]; eapply inv_same_recs; eauto.
Qed.

Definition restart_lists_ok (o : op) : Prop := match o with ORestart cv => cv_lists cv <> None | _ => True end.

Lemma step_inv_all v m o : Inv v m -> restart_lists_ok o -> threshold_pos o ->
  let r := step VM false v o in emit_ok m (fst r) /\ Inv (snd r) (after_out m (fst r)).
Proof.
  intros I Hr Ht. destruct (is_restart o) eqn:E; [|apply step_inv; auto].
  destruct o; try discriminate. cbn [step]. cbn in Hr.
  pose proof (restart_inv v m cv (Inv_W _ _ I) Hr) as J.
  destruct (svc_init VM (boot VM (dk v)) cv) as [e v']. split; [exact Logic.I|exact J].
Qed.

Lemma run_inv_all : forall h v m, Inv v m -> Forall restart_lists_ok h -> Forall threshold_pos h ->
  emits_above m (fst (run VM false v h)).
Proof.
  induction h as [|o t IH]; intros v m I Hr Ht; cbn [run]; [exact Logic.I|].
  inversion Hr; subst. inversion Ht; subst.
  destruct (step_inv_all v m o I H1 H3) as [A B]. destruct (step VM false v o) as [r v1]. cbn [fst snd] in *.
  specialize (IH v1 _ B H2 H4). destruct (run VM false v1 t) as [rs v2]. cbn [fst snd] in *. split; auto.
Qed.
