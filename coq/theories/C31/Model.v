(** C31 — model of the per-peer traffic records of pkg/settlement/traffic/traffic.go with the
    *big.Int ALIASING made explicit (DESIGN.md section 4).

    The fields of [Traffic] are *big.Int: the model stores LOCATIONS in them; a Go
    assignment [t.f = x] copies a location, [new(big.Int).Add/Sub(..)], [big.NewInt] and every
    value decoded from the chain client or the state store allocate a fresh location, and the
    one mutating call of the file, [cumulativePayout.Add(cumulativePayout, balance)] in [issue],
    writes through a location.

    The whole model is written ONCE, over an abstract memory [mem] (Section variable [M]):
      - [heap_mem]  : locations are numbers, the heap is an association list  — what Go does;
      - [value_mem] : a "location" IS its value, allocation is the identity   — the immutable-value
                      reading of the same program text (the specification the heap run is compared
                      with in Proofs.v; an in-place write cannot be expressed there).
    [inplace = true] is [issue] as it stood in the pinned tree (F-bigint-alias); [inplace = false]
    is the repaired code (proposed/C31/fix-bigint-alias.patch).

    Transcribed: newTraffic/getTraffic, trafficInit (getAllAddress, replaceTraffic,
    trafficPeerChainUpdate, trafficPeerChequeUpdate, maxBigint), Init/TrafficInit,
    PutRetrieveTraffic, PutTransferTraffic, retrieveTraffic, Pay, issue, putSendCheque,
    AvailableBalance, CashCheque + the receipt loop of cashChequeReceiptUpdate, UpdatePeerBalance,
    Handshake with an empty signature (registration), the address book (in memory and persisted).
    The state store is part of the state ([disk], plain values: JSON round trip).
    Not modelled: state-store failures, Handshake carrying a signed cheque, ReceiveCheque (C30),
    pub/sub notifications, the locks (sequential histories).

    Definitions only (computable). *)
From Coq Require Import List NArith ZArith Bool.
Import ListNotations.
Local Open Scope N_scope.

Definition addr := N.
Definition peer := N.

(** association lists keyed by N: first match; [set] overwrites in place or appends *)
Fixpoint get {V} (k : N) (l : list (N * V)) : option V :=
  match l with
  | [] => None
  | (k', v) :: t => if k =? k' then Some v else get k t
  end.
Fixpoint set {V} (k : N) (v : V) (l : list (N * V)) : list (N * V) :=
  match l with
  | [] => [(k, v)]
  | (k', v') :: t => if k =? k' then (k, v) :: t else (k', v') :: set k v t
  end.
Definition get0 (k : N) (l : list (N * Z)) : Z := match get k l with Some v => v | None => 0%Z end.

Fixpoint mem_n (k : N) (l : list N) : bool :=
  match l with [] => false | x :: t => (k =? x) || mem_n k t end.
(** de-duplication keeping first occurrences (a Go map keyed by address) *)
Fixpoint dedup_into (acc l : list N) : list N :=
  match l with
  | [] => acc
  | x :: t => if mem_n x acc then dedup_into acc t else dedup_into (acc ++ [x]) t
  end.

(** ---- abstract memory ---- *)
Record mem := {
  loc : Type;
  heap : Type;
  hempty : heap;
  alloc : heap -> Z -> loc * heap;     (* big.NewInt / new(big.Int).Op(..) / decoded value *)
  read : heap -> loc -> Z;
  add_to : heap -> loc -> Z -> heap    (* x.Add(x, d) on the big.Int at a location *)
}.

(** what Go does: numbered cells *)
Record nheap := { cells : list (N * Z); next : N }.
Definition nread (h : nheap) (l : N) : Z := get0 l (cells h).
(* a location that was never allocated reads 0; Proofs.v shows every location stored in a
   reachable state is allocated, so this value is never used *)
Definition heap_mem : mem :=
  {| loc := N; heap := nheap;
     hempty := {| cells := []; next := 0 |};
     alloc := fun h v => (next h, {| cells := (next h, v) :: cells h; next := next h + 1 |});
     read := nread;
     add_to := fun h l d => {| cells := set l (nread h l + d)%Z (cells h); next := next h |} |}.

(** immutable values *)
Definition value_mem : mem :=
  {| loc := Z; heap := unit; hempty := tt;
     alloc := fun h v => (v, h);
     read := fun _ l => l;
     add_to := fun h _ _ => h |}.

(** ---- the state store (plain values) ---- *)
Record disk := {
  d_pb : list (peer * addr);            (* boson_peer_beneficiary_-<peer> *)
  d_bp : list (addr * peer);            (* boson_beneficiary_peer_-<addr> *)
  d_last_send : list (addr * Z);        (* traffic_last_send_cheque__<addr>: CumulativePayout *)
  d_last_recv : list (addr * Z);        (* traffic_last_received_cheque__<addr> *)
  d_retrieve : list (addr * Z);         (* retrieved_traffic__<addr> *)
  d_transfer : list (addr * Z);         (* transferred_traffic__<addr> *)
  d_chain_retrieve : list (addr * Z);   (* chain_retrieved_traffic__<addr> *)
  d_chain_transfer : list (addr * Z)    (* chain_transferred_traffic__<addr> *)
}.
Definition disk0 : disk :=
  {| d_pb := []; d_bp := []; d_last_send := []; d_last_recv := []; d_retrieve := []; d_transfer := [];
     d_chain_retrieve := []; d_chain_transfer := [] |}.

(** ---- what the chain stub answers during one operation ---- *)
Record chainview := {
  cv_lists : option (list addr);   (* RetrievedAddress ++ TransferredAddress; None: one of the calls failed *)
  cv_trans : list (addr * (option Z * option Z));
     (* per peer a: (TransAmount(a, self), TransAmount(self, a)) = (transferred total, retrieved total);
        None = the call fails; peers not listed answer (Some 0, Some 0) *)
  cv_bal : option Z;               (* BalanceOf(self) *)
  cv_paid : option Z               (* TransferredTotal(self) *)
}.
Definition trans_of (cv : chainview) (a : addr) : option Z * option Z :=
  match get a (cv_trans cv) with Some x => x | None => (Some 0%Z, Some 0%Z) end.

(** error classes / outputs *)
Inductive err :=
| ENone
| EUnknown         (* ErrNoCheque / ErrUnknownBeneficary: peer not in the address book *)
| EInsufficient    (* ErrInsufficientFunds *)
| ESign | EEmit    (* signer / EmitCheque failed *)
| EChainLists | EChainBalance | EChainPaidOut   (* trafficInit / UpdatePeerBalance chain errors *)
| ECash            (* cashout.CashCheque failed *)
| EExists.         (* Handshake: "overlay is exists" *)

Record out := {
  o_err : err;
  o_emit : option (addr * Z * bool);   (* EmitCheque(recipient, payout as marshalled, delivered) *)
  o_notify : option Z                  (* notifyPaymentFunc(peer, amount) *)
}.
Definition out_err (e : err) : out := {| o_err := e; o_emit := None; o_notify := None |}.

Inductive op :=
| OHandshake (p : peer) (a : addr) (bal : option Z)       (* Handshake(p, a, SignedCheque{}); BalanceOf(chain address of p) *)
| OTraffic (p : peer) (amount : Z)                        (* PutRetrieveTraffic *)
| OTransfer (p : peer) (amount : Z)                       (* PutTransferTraffic *)
| OPay (p : peer) (threshold : Z) (sign_ok deliver_ok : bool)
| ORefresh (cv : chainview)                               (* TrafficInit() on the running service (24 h ticker) *)
| ORestart (cv : chainview)                               (* new process: traffic.New + Init() over the same store *)
| OCashout (p : peer) (cash_ok : bool) (receipt : option N)   (* CashCheque; WaitForReceipt status, None = error *)
           (bal_self : option Z) (tr : option Z * option Z) (bal_peer : option Z).

Section Model.
Variable M : mem.
Variable inplace : bool.

Record traffic := {
  f_pb : loc M;         (* trafficPeerBalance *)
  f_rchain : loc M;     (* retrieveChainTraffic  — what the peer cashed from us on chain *)
  f_tchain : loc M;     (* transferChainTraffic *)
  f_rcheque : loc M;    (* retrieveChequeTraffic — cumulative payout of the cheques we sent *)
  f_tcheque : loc M;    (* transferChequeTraffic *)
  f_rtraffic : loc M;   (* retrieveTraffic       — total traffic we owe *)
  f_ttraffic : loc M;   (* transferTraffic *)
  f_status : N
}.

Record state := {
  hp : heap M;
  recs : list (addr * traffic);     (* trafficPeers.trafficPeers *)
  bal : loc M;                      (* trafficPeers.balance *)
  m_pb : list (peer * addr);        (* addressBook.peerBeneficiary (in memory) *)
  m_bp : list (addr * peer);        (* addressBook.beneficiaryPeer *)
  dk : disk
}.

Definition with_hp (s : state) (h : heap M) : state :=
  {| hp := h; recs := recs s; bal := bal s; m_pb := m_pb s; m_bp := m_bp s; dk := dk s |}.
Definition with_recs (s : state) (r : list (addr * traffic)) : state :=
  {| hp := hp s; recs := r; bal := bal s; m_pb := m_pb s; m_bp := m_bp s; dk := dk s |}.
Definition with_dk (s : state) (d : disk) : state :=
  {| hp := hp s; recs := recs s; bal := bal s; m_pb := m_pb s; m_bp := m_bp s; dk := d |}.
Definition with_bal (s : state) (l : loc M) : state :=
  {| hp := hp s; recs := recs s; bal := l; m_pb := m_pb s; m_bp := m_bp s; dk := dk s |}.

(** traffic.New: empty map, balance = big.NewInt(0) *)
Definition boot (d : disk) : state :=
  let '(l, h) := alloc M (hempty M) 0%Z in
  {| hp := h; recs := []; bal := l; m_pb := []; m_bp := []; dk := d |}.

(** newTraffic: seven big.NewInt(0) *)
Definition new_traffic (h : heap M) : traffic * heap M :=
  let '(l0, h) := alloc M h 0%Z in let '(l1, h) := alloc M h 0%Z in let '(l2, h) := alloc M h 0%Z in
  let '(l3, h) := alloc M h 0%Z in let '(l4, h) := alloc M h 0%Z in let '(l5, h) := alloc M h 0%Z in
  let '(l6, h) := alloc M h 0%Z in
  ({| f_pb := l0; f_rchain := l1; f_tchain := l2; f_rcheque := l3; f_tcheque := l4; f_rtraffic := l5;
      f_ttraffic := l6; f_status := 0 |}, h).

(** getTraffic: the record of [a], created on first use *)
Definition get_traffic (s : state) (a : addr) : traffic * state :=
  match get a (recs s) with
  | Some t => (t, s)
  | None => let '(t, h) := new_traffic (hp s) in
            (t, {| hp := h; recs := set a t (recs s); bal := bal s; m_pb := m_pb s; m_bp := m_bp s; dk := dk s |})
  end.
Definition put_traffic (s : state) (a : addr) (t : traffic) : state := with_recs s (set a t (recs s)).

(** maxBigint(a, b): returns one of the two POINTERS *)
Definition max_loc (h : heap M) (a b : loc M) : loc M := if (read M h a <? read M h b)%Z then b else a.

(** trafficPeerChainUpdate(a) with the chain answers [tr] = (transferred, retrieved) *)
Definition chain_update (s : state) (a : addr) (tr : option Z * option Z) : state :=
  let '(t, s) := get_traffic s a in
  let d := dk s in
  let '(transfer_total, d) :=
    match fst tr with
    | None => (get0 a (d_chain_transfer d), d)
    | Some v => (v, {| d_pb := d_pb d; d_bp := d_bp d; d_last_send := d_last_send d; d_last_recv := d_last_recv d;
                       d_retrieve := d_retrieve d; d_transfer := d_transfer d; d_chain_retrieve := d_chain_retrieve d;
                       d_chain_transfer := set a v (d_chain_transfer d) |})
    end in
  let '(retrieved_total, d) :=
    match snd tr with
    | None => (get0 a (d_chain_retrieve d), d)
    | Some v => (v, {| d_pb := d_pb d; d_bp := d_bp d; d_last_send := d_last_send d; d_last_recv := d_last_recv d;
                       d_retrieve := d_retrieve d; d_transfer := d_transfer d; d_chain_retrieve := set a v (d_chain_retrieve d);
                       d_chain_transfer := d_chain_transfer d |})
    end in
  let '(lt, h) := alloc M (hp s) transfer_total in
  let '(lr, h) := alloc M h retrieved_total in
  let t' := {| f_pb := f_pb t; f_rchain := lr; f_tchain := lt; f_rcheque := f_rcheque t; f_tcheque := f_tcheque t;
               f_rtraffic := f_rtraffic t; f_ttraffic := f_ttraffic t; f_status := f_status t |} in
  {| hp := h; recs := set a t' (recs s); bal := bal s; m_pb := m_pb s; m_bp := m_bp s; dk := d |}.

(** trafficPeerChequeUpdate(a); the last cheques and stored totals are decoded from the store *)
Definition cheque_update (s : state) (a : addr) : state :=
  let '(t, s) := get_traffic s a in
  let d := dk s in
  let h := hp s in
  let rq := f_rchain t in let rt := f_rchain t in
  let tq := f_tchain t in let tt_ := f_tchain t in
  let '(rt, rq, h) :=
    match get a (d_last_send d) with
    | Some v => let '(c, h) := alloc M h v in (max_loc h rt c, max_loc h rq c, h)
    | None => (rt, rq, h)
    end in
  let '(tt_, tq, h) :=
    match get a (d_last_recv d) with
    | Some v => let '(c, h) := alloc M h v in (max_loc h tt_ c, max_loc h tq c, h)
    | None => (tt_, tq, h)
    end in
  let '(lr, h) := alloc M h (get0 a (d_retrieve d)) in
  let rt := max_loc h rt lr in
  let '(lx, h) := alloc M h (get0 a (d_transfer d)) in
  let tt_ := max_loc h tt_ lx in
  let t' := {| f_pb := f_pb t; f_rchain := f_rchain t; f_tchain := f_tchain t; f_rcheque := rq; f_tcheque := tq;
               f_rtraffic := rt; f_ttraffic := tt_; f_status := f_status t |} in
  {| hp := h; recs := set a t' (recs s); bal := bal s; m_pb := m_pb s; m_bp := m_bp s; dk := d |}.

(** the peer list of trafficInit: addresses with a stored retrieve/transfer total, addresses of the
    last sent / received cheques (repo commit "restore peers known only through their cheques"),
    then the chain's lists (getAllAddress) *)
Definition address_list (d : disk) (l : list addr) : list addr :=
  dedup_into [] (map fst (d_retrieve d) ++ map fst (d_transfer d) ++ map fst (d_last_send d) ++ map fst (d_last_recv d) ++ l).

(** trafficInit *)
Definition traffic_init (s : state) (cv : chainview) : err * state :=
  match cv_lists cv with
  | None => (EChainLists, s)
  | Some l =>
      let s := fold_left (fun s a => cheque_update (chain_update s a (trans_of cv a)) a) (address_list (dk s) l) s in
      match cv_bal cv with
      | None => (EChainBalance, s)
      | Some b =>
          let '(lb, h) := alloc M (hp s) b in
          let s := {| hp := h; recs := recs s; bal := lb; m_pb := m_pb s; m_bp := m_bp s; dk := dk s |} in
          match cv_paid cv with
          | None => (EChainPaidOut, s)
          | Some _ => (ENone, s)
          end
      end
  end.

(** InitAddressBook: load both persisted maps into memory *)
Definition init_book (s : state) : state :=
  {| hp := hp s; recs := recs s; bal := bal s;
     m_pb := fold_left (fun m kv => set (fst kv) (snd kv) m) (d_pb (dk s)) (m_pb s);
     m_bp := fold_left (fun m kv => set (fst kv) (snd kv) m) (d_bp (dk s)) (m_bp s);
     dk := dk s |}.

(** Init / TrafficInit *)
Definition svc_init (s : state) (cv : chainview) : err * state :=
  match traffic_init s cv with
  | (ENone, s) => (ENone, init_book s)
  | (e, s) => (e, s)
  end.

(** AvailableBalance: balance + (sum retrieveChainTraffic - sum retrieveTraffic) over all records *)
Definition sum_field (h : heap M) (f : traffic -> loc M) (r : list (addr * traffic)) : Z :=
  fold_left (fun acc kv => (acc + read M h (f (snd kv)))%Z) r 0%Z.
Definition available_balance (s : state) : Z :=
  (read M (hp s) (bal s) + (sum_field (hp s) f_rchain (recs s) - sum_field (hp s) f_rtraffic (recs s)))%Z.

(** UpdatePeerBalance for a known chain address *)
Definition update_peer_balance (s : state) (a : addr) (b : option Z) : err * state :=
  match b with
  | None => (EChainBalance, s)
  | Some v =>
      let '(t, s) := get_traffic s a in
      let '(l, h) := alloc M (hp s) v in
      let t' := {| f_pb := l; f_rchain := f_rchain t; f_tchain := f_tchain t; f_rcheque := f_rcheque t;
                   f_tcheque := f_tcheque t; f_rtraffic := f_rtraffic t; f_ttraffic := f_ttraffic t; f_status := f_status t |} in
      (ENone, {| hp := h; recs := set a t' (recs s); bal := bal s; m_pb := m_pb s; m_bp := m_bp s; dk := dk s |})
  end.

Definition set_status (s : state) (a : addr) (st : N) : state :=
  match get a (recs s) with
  | None => s
  | Some t => put_traffic s a {| f_pb := f_pb t; f_rchain := f_rchain t; f_tchain := f_tchain t; f_rcheque := f_rcheque t;
                                 f_tcheque := f_tcheque t; f_rtraffic := f_rtraffic t; f_ttraffic := f_ttraffic t; f_status := st |}
  end.

(** Handshake(p, a, SignedCheque{}) *)
Definition handshake (s : state) (p : peer) (a : addr) (b : option Z) : err * state :=
  match get p (m_pb s) with
  | Some a' => update_peer_balance s a' b
  | None =>
      match get a (m_bp s) with
      | Some _ => (EExists, s)
      | None =>
          let d := dk s in
          let d' := {| d_pb := set p a (d_pb d); d_bp := set a p (d_bp d); d_last_send := d_last_send d;
                       d_last_recv := d_last_recv d; d_retrieve := d_retrieve d; d_transfer := d_transfer d;
                       d_chain_retrieve := d_chain_retrieve d; d_chain_transfer := d_chain_transfer d |} in
          let s := {| hp := hp s; recs := recs s; bal := bal s; m_pb := set p a (m_pb s); m_bp := set a p (m_bp s); dk := d' |} in
          update_peer_balance s a b
      end
  end.

(** PutRetrieveTraffic / PutTransferTraffic *)
Definition put_retrieve (s : state) (p : peer) (amount : Z) : err * state :=
  match get p (m_pb s) with
  | None => (EUnknown, s)
  | Some a =>
      let '(t, s) := get_traffic s a in
      let '(l, h) := alloc M (hp s) (read M (hp s) (f_rtraffic t) + amount)%Z in
      let t' := {| f_pb := f_pb t; f_rchain := f_rchain t; f_tchain := f_tchain t; f_rcheque := f_rcheque t;
                   f_tcheque := f_tcheque t; f_rtraffic := l; f_ttraffic := f_ttraffic t; f_status := f_status t |} in
      let d := dk s in
      let d' := {| d_pb := d_pb d; d_bp := d_bp d; d_last_send := d_last_send d; d_last_recv := d_last_recv d;
                   d_retrieve := set a (read M h l) (d_retrieve d); d_transfer := d_transfer d;
                   d_chain_retrieve := d_chain_retrieve d; d_chain_transfer := d_chain_transfer d |} in
      (ENone, {| hp := h; recs := set a t' (recs s); bal := bal s; m_pb := m_pb s; m_bp := m_bp s; dk := d' |})
  end.
Definition put_transfer (s : state) (p : peer) (amount : Z) : err * state :=
  match get p (m_pb s) with
  | None => (EUnknown, s)
  | Some a =>
      let '(t, s) := get_traffic s a in
      let '(l, h) := alloc M (hp s) (read M (hp s) (f_ttraffic t) + amount)%Z in
      let t' := {| f_pb := f_pb t; f_rchain := f_rchain t; f_tchain := f_tchain t; f_rcheque := f_rcheque t;
                   f_tcheque := f_tcheque t; f_rtraffic := f_rtraffic t; f_ttraffic := l; f_status := f_status t |} in
      let d := dk s in
      let d' := {| d_pb := d_pb d; d_bp := d_bp d; d_last_send := d_last_send d; d_last_recv := d_last_recv d;
                   d_retrieve := d_retrieve d; d_transfer := set a (read M h l) (d_transfer d);
                   d_chain_retrieve := d_chain_retrieve d; d_chain_transfer := d_chain_transfer d |} in
      (ENone, {| hp := h; recs := set a t' (recs s); bal := bal s; m_pb := m_pb s; m_bp := m_bp s; dk := d' |})
  end.

(** issue + putSendCheque, entered with the record [t] of [a] and balance = retrieveTraffic - retrieveChequeTraffic *)
Definition issue (s : state) (a : addr) (t : traffic) (balance : Z) (sign_ok deliver_ok : bool) : out * state :=
  let notify := Some balance in          (* the deferred notifyPaymentFunc runs on every exit *)
  if (available_balance s <? balance)%Z then ({| o_err := EInsufficient; o_emit := None; o_notify := notify |}, s) else
  (* cumulativePayout *)
  let '(lp, h) :=
    if inplace then (f_rcheque t, add_to M (hp s) (f_rcheque t) balance)
    else alloc M (hp s) (read M (hp s) (f_rcheque t) + balance)%Z in
  let s := with_hp s h in
  if negb sign_ok then ({| o_err := ESign; o_emit := None; o_notify := notify |}, s) else
  let emit := Some (a, read M h lp, deliver_ok) in
  if negb deliver_ok then ({| o_err := EEmit; o_emit := emit; o_notify := notify |}, s) else
  (* putSendCheque *)
  let t' := {| f_pb := f_pb t; f_rchain := f_rchain t; f_tchain := f_tchain t; f_rcheque := lp; f_tcheque := f_tcheque t;
               f_rtraffic := max_loc h (f_rtraffic t) lp; f_ttraffic := f_ttraffic t; f_status := f_status t |} in
  let d := dk s in
  let d' := {| d_pb := d_pb d; d_bp := d_bp d; d_last_send := set a (read M h lp) (d_last_send d); d_last_recv := d_last_recv d;
               d_retrieve := d_retrieve d; d_transfer := d_transfer d;
               d_chain_retrieve := d_chain_retrieve d; d_chain_transfer := d_chain_transfer d |} in
  ({| o_err := ENone; o_emit := emit; o_notify := notify |},
   {| hp := h; recs := set a t' (recs s); bal := bal s; m_pb := m_pb s; m_bp := m_bp s; dk := d' |}).

(** Pay *)
Definition pay (s : state) (p : peer) (threshold : Z) (sign_ok deliver_ok : bool) : out * state :=
  match get p (m_pb s) with
  | None => (out_err EUnknown, s)
  | Some a =>
      let '(t, s) := get_traffic s a in
      let balance := (read M (hp s) (f_rtraffic t) - read M (hp s) (f_rcheque t))%Z in
      if (threshold <=? balance)%Z then issue s a t balance sign_ok deliver_ok
      else (out_err ENone, s)
  end.

(** CashCheque + one turn of the receipt loop *)
Definition cashout (s : state) (p : peer) (cash_ok : bool) (receipt : option N)
           (bal_self : option Z) (tr : option Z * option Z) (bal_peer : option Z) : err * state :=
  match get p (m_pb s) with
  | None => (EUnknown, s)
  | Some a =>
      let '(_, s) := get_traffic s a in
      if negb cash_ok then (ECash, s) else
      (* status := Operation; then, in the receipt loop, status := UnOperation *)
      let s := set_status (set_status s a 1) a 0 in
      match receipt with
      | Some 1 =>
          let '(t, s) := get_traffic s a in
          let d := dk s in
          let d' := {| d_pb := d_pb d; d_bp := d_bp d; d_last_send := d_last_send d; d_last_recv := d_last_recv d;
                       d_retrieve := d_retrieve d; d_transfer := d_transfer d;
                       d_chain_retrieve := set a (read M (hp s) (f_rcheque t)) (d_chain_retrieve d);
                       d_chain_transfer := set a (read M (hp s) (f_tcheque t)) (d_chain_transfer d) |} in
          let s := with_dk s d' in
          match bal_self with
          | None => (ENone, s)
          | Some b =>
              let '(lb, h) := alloc M (hp s) b in
              let s := {| hp := h; recs := recs s; bal := lb; m_pb := m_pb s; m_bp := m_bp s; dk := dk s |} in
              let s := chain_update s a tr in
              (ENone, snd (update_peer_balance s a bal_peer))
          end
      | _ => (ENone, s)
      end
  end.

Definition step (s : state) (o : op) : out * state :=
  match o with
  | OHandshake p a b => let '(e, s) := handshake s p a b in (out_err e, s)
  | OTraffic p am => let '(e, s) := put_retrieve s p am in (out_err e, s)
  | OTransfer p am => let '(e, s) := put_transfer s p am in (out_err e, s)
  | OPay p th sg dl => pay s p th sg dl
  | ORefresh cv => let '(e, s) := svc_init s cv in (out_err e, s)
  | ORestart cv => let '(e, s) := svc_init (boot (dk s)) cv in (out_err e, s)
  | OCashout p ck rc bs tr bp => let '(e, s) := cashout s p ck rc bs tr bp in (out_err e, s)
  end.

Fixpoint run (s : state) (h : list op) : list out * state :=
  match h with
  | [] => ([], s)
  | o :: t => let '(r, s1) := step s o in let '(rs, s2) := run s1 t in (r :: rs, s2)
  end.

(** field values of a record, in declaration order *)
Definition rec_vals (h : heap M) (t : traffic) : list Z :=
  map (read M h) [f_pb t; f_rchain t; f_tchain t; f_rcheque t; f_tcheque t; f_rtraffic t; f_ttraffic t].

End Model.

Arguments f_pb {M}. Arguments f_rchain {M}. Arguments f_tchain {M}. Arguments f_rcheque {M}.
Arguments f_tcheque {M}. Arguments f_rtraffic {M}. Arguments f_ttraffic {M}. Arguments f_status {M}.
Arguments hp {M}. Arguments recs {M}. Arguments bal {M}. Arguments m_pb {M}. Arguments m_bp {M}. Arguments dk {M}.

(** the two instances *)
Definition hstate := state heap_mem.
Definition vstate := state value_mem.
Definition init_state (M : mem) : state M := boot M disk0.
