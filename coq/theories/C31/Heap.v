(** C31 — the heap instance: allocation laws, frames, and the relation between a heap state
    and a value state ("every location stored in a field is allocated and holds the value the
    immutable-value reading of the program holds there"). *)
From Coq Require Import List NArith ZArith Bool Lia.
Import ListNotations.
Require Import Aurora.C31.Model.
Local Open Scope N_scope.

Notation HM := heap_mem.
Notation VM := value_mem.

(** ---- association lists ---- *)
Lemma get_set_same {A} k (v : A) l : get k (set k v l) = Some v.
Proof.
  induction l as [|[k' v'] t IH]; cbn [set get].
  - now rewrite N.eqb_refl.
  - destruct (k =? k') eqn:E; cbn [get]; rewrite ?N.eqb_refl, ?E; auto.
Qed.
Lemma get_set_other {A} k k' (v : A) l : k' <> k -> get k' (set k v l) = get k' l.
Proof.
  intros Hne. induction l as [|[k2 v2] t IH]; cbn [set get].
  - apply N.eqb_neq in Hne. now rewrite Hne.
  - destruct (k =? k2) eqn:E; cbn [get].
    + apply N.eqb_eq in E; subst k2. apply N.eqb_neq in Hne. now rewrite Hne.
    + destruct (k' =? k2); auto.
Qed.

(** ---- heap extension: nothing allocated is ever changed ---- *)
Definition hext (h h' : nheap) : Prop :=
  next h <= next h' /\ forall l, l < next h -> nread h' l = nread h l.
Lemma hext_refl h : hext h h.
Proof. split; [lia|auto]. Qed.
Lemma hext_trans h1 h2 h3 : hext h1 h2 -> hext h2 h3 -> hext h1 h3.
Proof. intros [A1 B1] [A2 B2]. split; [lia|]. intros l Hl. rewrite B2 by lia. auto. Qed.

(** location [l] is allocated in [h] and holds [v] *)
Definition ok (h : nheap) (l : N) (v : Z) : Prop := l < next h /\ nread h l = v.
Lemma ok_ext h h' l v : hext h h' -> ok h l v -> ok h' l v.
Proof. intros [A B] [C D]. split; [lia|]. rewrite B; auto. Qed.

Lemma alloc_spec h v l h' :
  alloc HM h v = (l, h') -> ok h' l v /\ hext h h' /\ l = next h /\ next h' = next h + 1.
Proof.
  cbn. intros E. inversion E; subst l h'; clear E. unfold ok, hext, nread, get0. cbn [cells next get].
  rewrite N.eqb_refl. repeat split; try lia.
  intros l Hl. destruct (l =? next h) eqn:El; [apply N.eqb_eq in El; lia|reflexivity].
Qed.

(** ---- relation between a heap record and a value record ---- *)
Definition trel (h : nheap) (t : traffic HM) (tv : traffic VM) : Prop :=
  ok h (f_pb t) (f_pb tv) /\ ok h (f_rchain t) (f_rchain tv) /\ ok h (f_tchain t) (f_tchain tv) /\
  ok h (f_rcheque t) (f_rcheque tv) /\ ok h (f_tcheque t) (f_tcheque tv) /\
  ok h (f_rtraffic t) (f_rtraffic tv) /\ ok h (f_ttraffic t) (f_ttraffic tv) /\ f_status t = f_status tv.
Lemma trel_ext h h' t tv : hext h h' -> trel h t tv -> trel h' t tv.
Proof. intros E (A&B&C&D&F&G&I&J). unfold trel. repeat (split; [eapply ok_ext; eassumption|]). exact J. Qed.

Definition rrel (h : nheap) (r : list (addr * traffic HM)) (rv : list (addr * traffic VM)) : Prop :=
  Forall2 (fun x y => fst x = fst y /\ trel h (snd x) (snd y)) r rv.
Lemma rrel_ext h h' r rv : hext h h' -> rrel h r rv -> rrel h' r rv.
Proof.
  intros E R. induction R as [|x y r rv [K T] R IH]; constructor; auto. split; auto. eapply trel_ext; eauto.
Qed.
Lemma rrel_get h r rv a : rrel h r rv ->
  match get a r, get a rv with
  | Some t, Some tv => trel h t tv
  | None, None => True
  | _, _ => False
  end.
Proof.
  intros R. induction R as [|[k t] [k' tv] r rv [K T] R IH]; cbn [get]; auto.
  cbn in K. subst k'. destruct (a =? k); auto.
Qed.
Lemma rrel_set h r rv a t tv : rrel h r rv -> trel h t tv -> rrel h (set a t r) (set a tv rv).
Proof.
  intros R T. induction R as [|[k t0] [k' tv0] r rv [K T0] R IH]; cbn [set].
  - constructor; [split; auto|constructor].
  - cbn in K. subst k'. destruct (a =? k).
    + constructor; [split|]; auto.
    + constructor; [split|]; auto.
Qed.
Lemma rrel_keys h r rv : rrel h r rv -> map fst r = map fst rv.
Proof. intros R. induction R as [|x y r rv [K T] R IH]; cbn; congruence. Qed.

(** ---- the simulation relation ---- *)
Definition sim (s : hstate) (v : vstate) : Prop :=
  rrel (hp s) (recs s) (recs v) /\ ok (hp s) (bal s) (bal v) /\
  m_pb s = m_pb v /\ m_bp s = m_bp v /\ dk s = dk v.

Lemma sum_field_sim h r rv (f : traffic HM -> N) (fv : traffic VM -> Z) :
  rrel h r rv -> (forall t tv, trel h t tv -> nread h (f t) = fv tv) ->
  forall acc, fold_left (fun acc kv => (acc + nread h (f (snd kv)))%Z) r acc
            = fold_left (fun acc kv => (acc + fv (snd kv))%Z) rv acc.
Proof.
  intros R Hf. induction R as [|x y r rv [K T] R IH]; intros acc; cbn [fold_left]; auto.
  rewrite (Hf _ _ T). apply IH.
Qed.

Lemma available_sim s v : sim s v -> available_balance HM s = available_balance VM v.
Proof.
  intros (R & [_ B] & _). unfold available_balance, sum_field. cbn [read HM VM].
  rewrite (sum_field_sim _ _ _ f_rchain f_rchain R), (sum_field_sim _ _ _ f_rtraffic f_rtraffic R).
  - now rewrite B.
  - intros t tv (_&_&_&_&_&[_ E]&_). exact E.
  - intros t tv (_&[_ E]&_). exact E.
Qed.

Lemma max_loc_sim h (u : heap VM) a b va vb :
  ok h a va -> ok h b vb -> ok h (max_loc HM h a b) (max_loc VM u va vb).
Proof.
  intros [A1 A2] [B1 B2]. unfold max_loc. cbn [read HM VM]. rewrite A2, B2.
  destruct (va <? vb)%Z; split; auto.
Qed.
