(** C31 — correspondence: the harness drives the real traffic service (stub chain / cash-out /
    protocol, real cheque store, address book and signer over an in-memory state store) with a
    history; after every operation it records the error class, the cheque handed to EmitCheque
    (payout as marshalled, delivered or not), the amount passed to the payment notification and
    AvailableBalance(); at the end it dumps every Traffic record — the seven values, the cash
    status, and WHICH FIELDS SHARE ONE *big.Int (pointer identity, numbered canonically) — the
    service balance and the relevant state-store entries.  [check_case] recomputes all of it with
    the heap instance of the model (repaired [issue]). *)
From Coq Require Import List NArith ZArith Bool.
Import ListNotations.
Require Import Aurora.Base.Corr.
Require Export Aurora.C31.Model.
Local Open Scope N_scope.

Definition class (e : err) : N :=
  match e with
  | ENone => 0 | EUnknown => 1 | EInsufficient => 2 | ESign => 3 | EEmit => 4
  | EChainLists => 5 | EChainBalance => 6 | EChainPaidOut => 7 | ECash => 8 | EExists => 9
  end.

(** per operation: class, emitted (recipient, payout, delivered), notified amount, AvailableBalance() afterwards *)
Definition obs := (N * option (addr * Z * bool) * option Z * Z)%type.

Record final := {
  fin_recs : list (addr * (list Z * N));          (* sorted by address: seven values, status *)
  fin_alias : list N;                             (* for the 7*n field pointers in that order, then the service
                                                     balance pointer: index of the first occurrence of the same pointer *)
  fin_bal : Z;
  fin_disk : list (addr * (option Z * Z * Z * Z * Z))
     (* per address of the universe: last sent cheque, stored retrieve / transfer totals, stored chain retrieve / transfer *)
}.

Inductive case := CHist (h : list (op * obs)) (fin : final).

Definition CV (l : option (list addr)) (t : list (addr * (option Z * option Z))) (b p : option Z) : chainview :=
  {| cv_lists := l; cv_trans := t; cv_bal := b; cv_paid := p |}.
Definition FIN r a b d : final := {| fin_recs := r; fin_alias := a; fin_bal := b; fin_disk := d |}.

(** run of the heap model, keeping the available balance after every step *)
Fixpoint hrun (s : hstate) (h : list op) : list obs * hstate :=
  match h with
  | [] => ([], s)
  | o :: t =>
      let '(r, s1) := step heap_mem false s o in
      let '(rs, s2) := hrun s1 t in
      ((class (o_err r), o_emit r, o_notify r, available_balance heap_mem s1) :: rs, s2)
  end.

Fixpoint index_of (x : N) (l : list N) (i : N) : N :=
  match l with [] => i | y :: t => if x =? y then i else index_of x t (i + 1) end.
Definition canon (l : list N) : list N := map (fun x => index_of x l 0) l.

Definition rec_locs (t : traffic heap_mem) : list N :=
  [f_pb t; f_rchain t; f_tchain t; f_rcheque t; f_tcheque t; f_rtraffic t; f_ttraffic t].

Definition model_final (s : hstate) (keys : list addr) (univ : list addr) : option final :=
  let look := map (fun a => get a (recs s)) keys in
  if forallb (fun o => match o with Some _ => true | None => false end) look && (length keys =? length (recs s))%nat then
    let ts := flat_map (fun o => match o with Some t => [t] | None => [] end) look in
    Some {| fin_recs := map (fun at_ => (fst at_, (rec_vals heap_mem (hp s) (snd at_), f_status (snd at_)))) (combine keys ts);
            fin_alias := canon (flat_map rec_locs ts ++ [bal s]);
            fin_bal := nread (hp s) (bal s);
            fin_disk := map (fun a => (a, (get a (d_last_send (dk s)), get0 a (d_retrieve (dk s)), get0 a (d_transfer (dk s)),
                                           get0 a (d_chain_retrieve (dk s)), get0 a (d_chain_transfer (dk s))))) univ |}
  else None.

Definition emit_eqb (a b : addr * Z * bool) : bool :=
  let '(x, p, d) := a in let '(x', p', d') := b in (x =? x') && Z.eqb p p' && Bool.eqb d d'.
Definition obs_eqb (a b : obs) : bool :=
  let '(c, e, n, v) := a in let '(c', e', n', v') := b in
  (c =? c') && option_eqb emit_eqb e e' && option_eqb Z.eqb n n' && Z.eqb v v'.
Definition rec_eqb (a b : addr * (list Z * N)) : bool :=
  (fst a =? fst b) && list_eqb Z.eqb (fst (snd a)) (fst (snd b)) && (snd (snd a) =? snd (snd b)).
Definition disk_eqb (a b : addr * (option Z * Z * Z * Z * Z)) : bool :=
  let '(x, (l, r, t, cr, ct)) := a in let '(x', (l', r', t', cr', ct')) := b in
  (x =? x') && option_eqb Z.eqb l l' && Z.eqb r r' && Z.eqb t t' && Z.eqb cr cr' && Z.eqb ct ct'.
Definition final_eqb (a b : final) : bool :=
  list_eqb rec_eqb (fin_recs a) (fin_recs b) && list_eqb N.eqb (fin_alias a) (fin_alias b)
  && Z.eqb (fin_bal a) (fin_bal b) && list_eqb disk_eqb (fin_disk a) (fin_disk b).

Definition model_of (c : case) : list obs * option final :=
  match c with
  | CHist h fin =>
      let '(os, s) := hrun (init_state heap_mem) (map fst h) in
      (os, model_final s (map fst (fin_recs fin)) (map fst (fin_disk fin)))
  end.

Definition check_case (c : case) : bool :=
  match c with
  | CHist h fin =>
      let '(os, mf) := model_of c in
      list_eqb obs_eqb os (map snd h) && option_eqb final_eqb mf (Some fin)
  end.

Definition explain_case (c : case) :=
  match c with CHist h fin => (model_of c, (map snd h, fin)) end.
