(** C31 — the statements of Props.v, proved from Refine / Value / Payout. *)
From Coq Require Import List NArith ZArith Bool Lia.
Import ListNotations.
Require Import Aurora.C31.Model Aurora.C31.Heap Aurora.C31.Refine Aurora.C31.Value Aurora.C31.Payout.
Local Open Scope N_scope.

Definition hreach (h : list op) : hstate := snd (run HM false (init_state HM) h).
Definition vreach (h : list op) : vstate := snd (run VM false (init_state VM) h).

Lemma reach_sim h : sim (hreach h) (vreach h) /\ fst (run HM false (init_state HM) h) = fst (run VM false (init_state VM) h).
Proof. destruct (run_sim h _ _ init_sim) as [A B]. split; auto. Qed.

(** 1. nothing allocated is ever modified; every location stored in a record is allocated *)
Lemma no_write_through h o :
  is_restart o = false ->
  let s := hreach h in let s' := snd (step HM false s o) in
  next (hp s) <= next (hp s') /\ forall l, l < next (hp s) -> nread (hp s') l = nread (hp s) l.
Proof.
  intros Hr. cbn zeta. destruct (reach_sim h) as [S _]. destruct (step_sim _ _ o S) as (_ & _ & X). exact (X Hr).
Qed.

Lemma heap_wf h a t :
  get a (recs (hreach h)) = Some t ->
  let n := next (hp (hreach h)) in
  f_pb t < n /\ f_rchain t < n /\ f_tchain t < n /\ f_rcheque t < n /\ f_tcheque t < n /\ f_rtraffic t < n /\ f_ttraffic t < n
  /\ bal (hreach h) < n.
Proof.
  intros G. destruct (reach_sim h) as [(R & B & _) _]. pose proof (rrel_get _ _ _ a R) as T. rewrite G in T.
  destruct (get a (recs (vreach h))) as [tv|]; [|contradiction].
  destruct T as ([A1 _]&[A2 _]&[A3 _]&[A4 _]&[A5 _]&[A6 _]&[A7 _]&_). destruct B as [B1 _]. cbn zeta. tauto.
Qed.

(** transport of the "cashed" records between the two readings *)
Lemma rchain_h2v s v a t : sim s v -> get a (recs s) = Some t -> rchain_of v a = Some (nread (hp s) (f_rchain t)).
Proof.
  intros (R & _) G. pose proof (rrel_get _ _ _ a R) as T. rewrite G in T. unfold rchain_of.
  destruct (get a (recs v)) as [tv|]; [|contradiction]. destruct T as (_&[_ E]&_). cbn. now rewrite E.
Qed.
Lemma rchain_v2h s v a x : sim s v -> rchain_of v a = Some x ->
  exists t, get a (recs s) = Some t /\ nread (hp s) (f_rchain t) = x.
Proof.
  intros (R & _) G. pose proof (rrel_get _ _ _ a R) as T. unfold rchain_of in G.
  destruct (get a (recs v)) as [tv|]; [|discriminate]. destruct (get a (recs s)) as [t|]; [|contradiction].
  destruct T as (_&[_ E]&_). cbn in G. inversion G; subst. eauto.
Qed.

Definition chain_free (o : op) : bool :=
  match o with OPay _ _ _ _ | OTraffic _ _ | OTransfer _ _ | OHandshake _ _ _ => true | _ => false end.

Lemma step_keeps_cashed v o : chain_free o = true -> keeps_cashed v (snd (step VM false v o)).
Proof.
  destruct o as [p a b|p am|p am|p th sg dl|cv|cv|p ck rc bs tr bp]; cbn [chain_free step]; try discriminate; intros _.
  - pose proof (handshake_keeps v p a b). destruct (handshake VM v p a b). auto.
  - pose proof (put_retrieve_keeps v p am). destruct (put_retrieve VM v p am). auto.
  - pose proof (put_transfer_keeps v p am). destruct (put_transfer VM v p am). auto.
  - apply pay_V.
Qed.

(** 2. issuing (and crediting traffic, registering) never changes what a peer has cashed *)
Lemma chain_record_stable h o a t :
  chain_free o = true ->
  let s := hreach h in let s' := snd (step HM false s o) in
  get a (recs s) = Some t ->
  exists t', get a (recs s') = Some t' /\ nread (hp s') (f_rchain t') = nread (hp s) (f_rchain t).
Proof.
  intros Hc. cbn zeta. intros G. destruct (reach_sim h) as [S _]. destruct (step_sim _ _ o S) as (_ & S' & _).
  eapply rchain_v2h; [exact S'|]. apply step_keeps_cashed; auto. eapply rchain_h2v; eauto.
Qed.

(** 3. a pay attempt, whatever its outcome, leaves the reported available balance as it was *)
Lemma pay_keeps_available h p th sg dl :
  let s := hreach h in
  available_balance HM (snd (step HM false s (OPay p th sg dl))) = available_balance HM s.
Proof.
  cbn zeta. destruct (reach_sim h) as [S _]. destruct (step_sim _ _ (OPay p th sg dl) S) as (_ & S' & _).
  rewrite (available_sim _ _ S'), (available_sim _ _ S). cbn [step]. apply pay_V.
Qed.

(** 4. the heap run computes what the immutable-value reading computes *)
Lemma refines_value_reading h :
  fst (run HM false (init_state HM) h) = fst (run VM false (init_state VM) h) /\
  available_balance HM (hreach h)
  = (bal (vreach h) + (vsum f_rchain (recs (vreach h)) - vsum f_rtraffic (recs (vreach h))))%Z /\
  forall a t, get a (recs (hreach h)) = Some t ->
    exists tv, get a (recs (vreach h)) = Some tv /\
      rec_vals HM (hp (hreach h)) t = rec_vals VM tt tv.
Proof.
  destruct (reach_sim h) as [S E]. split; [exact E|]. split.
  - rewrite (available_sim _ _ S). apply available_V.
  - intros a t G. destruct S as (R & _). pose proof (rrel_get _ _ _ a R) as T. rewrite G in T.
    destruct (get a (recs (vreach h))) as [tv|]; [|contradiction]. exists tv. split; auto.
    destruct T as ([_ A1]&[_ A2]&[_ A3]&[_ A4]&[_ A5]&[_ A6]&[_ A7]&_).
    unfold rec_vals. cbn [map read HM VM]. congruence.
Qed.

(** 5. a cheque carries exactly the traffic owed to the peer registered for the paid overlay *)
Lemma payout_is_owed h p th sg dl a x d :
  let s := hreach h in let r := step HM false s (OPay p th sg dl) in
  o_emit (fst r) = Some (a, x, d) ->
  get p (m_pb s) = Some a /\ exists t', get a (recs (snd r)) = Some t' /\ x = nread (hp (snd r)) (f_rtraffic t').
Proof.
  cbn zeta. intros Ee. destruct (reach_sim h) as [S _]. destruct (step_sim _ _ (OPay p th sg dl) S) as (Eo & S' & _).
  rewrite Eo in Ee. cbn [step] in *. destruct (pay_V (vreach h) p th sg dl) as (_ & _ & Hp). cbn zeta in Hp.
  destruct (Hp _ _ _ Ee) as (Gp & tv' & Gt & Ex). split.
  - destruct S as (_ & _ & E1 & _). now rewrite E1.
  - destruct S' as (R & _). pose proof (rrel_get _ _ _ a R) as T. rewrite Gt in T.
    destruct (get a (recs (snd (pay HM false (hreach h) p th sg dl)))) as [t'|]; [|contradiction].
    exists t'. split; auto. destruct T as (_&_&_&_&_&[_ A6]&_). now rewrite A6.
Qed.

(** 6. between restarts: every cheque handed out is strictly above the last one delivered to that peer *)
Definition no_restart (h : list op) : bool := forallb (fun o => negb (is_restart o)) h.

Lemma payout_increasing cv0 h :
  no_restart h = true -> Forall threshold_pos h ->
  emits_above (fun _ => None) (fst (run HM false (init_state HM) (ORestart cv0 :: h))).
Proof.
  intros Hn Ht. rewrite (proj2 (reach_sim (ORestart cv0 :: h))).
  change (run VM false (init_state VM) (ORestart cv0 :: h)) with (run VM false (init_state VM) (ORefresh cv0 :: h)).
  apply run_inv; [apply inv_init| |constructor; [exact Logic.I|exact Ht]].
  cbn [forallb is_restart negb andb]. exact Hn.
Qed.

(** 6'. payouts over histories WITH restarts and refreshes *)
Lemma payout_increasing_all h :
  Forall restart_lists_ok h -> Forall threshold_pos h ->
  emits_above (fun _ => None) (fst (run HM false (init_state HM) h)).
Proof.
  intros Hr Ht. rewrite (proj2 (reach_sim h)). apply run_inv_all; auto. apply inv_init.
Qed.

(** 7. the cash-out receipt path and the cashed records *)
Lemma step_cashout_V v p ck rc bs tr bp :
  snd (step VM false v (OCashout p ck rc bs tr bp)) = snd (cashout VM v p ck rc bs tr bp).
Proof. cbn [step]. destruct (cashout VM v p ck rc bs tr bp). reflexivity. Qed.

Lemma cashout_cashed_record h p ck rc bs tr bp :
  let s := hreach h in let s' := snd (step HM false s (OCashout p ck rc bs tr bp)) in
  (forall a' t, get p (m_pb s) <> Some a' -> get a' (recs s) = Some t ->
     exists t', get a' (recs s') = Some t' /\ nread (hp s') (f_rchain t') = nread (hp s) (f_rchain t)) /\
  (forall a b x, get p (m_pb s) = Some a -> ck = true -> rc = Some 1 -> bs = Some b -> snd tr = Some x ->
     exists t', get a (recs s') = Some t' /\ nread (hp s') (f_rchain t') = x) /\
  (ck = false \/ rc <> Some 1 \/ bs = None ->
     forall a t, get a (recs s) = Some t ->
       exists t', get a (recs s') = Some t' /\ nread (hp s') (f_rchain t') = nread (hp s) (f_rchain t)).
Proof.
  cbn zeta. destruct (reach_sim h) as [S _]. destruct (step_sim _ _ (OCashout p ck rc bs tr bp) S) as (_ & S' & _).
  rewrite step_cashout_V in S'. destruct (cashout_V (vreach h) p ck rc bs tr bp) as (C1 & C2 & C3). cbn zeta in *.
  assert (Ep : m_pb (hreach h) = m_pb (vreach h)) by apply S. rewrite Ep.
  split; [|split].
  - intros a' t Hne G. eapply rchain_v2h; [exact S'|]. apply C1; auto. eapply rchain_h2v; eauto.
  - intros a b x Ga Hck Hrc Hbs Htr. eapply rchain_v2h; [exact S'|]. eapply C2; eauto.
  - intros Hc a t G. eapply rchain_v2h; [exact S'|]. apply C3; auto. eapply rchain_h2v; eauto.
Qed.
