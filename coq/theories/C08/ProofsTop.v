(** C08 — statements assembled from ProofsArith and ProofsEnc in the form used by Props.v *)
From Coq Require Import List NArith ZArith Bool Lia.
Import ListNotations.
Require Import Aurora.C08.Model Aurora.C08.ProofsArith Aurora.C08.ProofsEnc Aurora.C08.ProofsTrie.
Local Open Scope N_scope.

Section Top.
Variable H : list N -> list N.

(** with padding configured: exact padded length for every payload that fits, an error otherwise *)
Lemma enc_length (e : enc) data pad :
  (0 < length (e_key e))%nat -> (forall x, (length (e_key e) <= length (H x))%nat) ->
  (0 < e_padding e)%Z ->
  ((Z.of_nat (length data) <= e_padding e)%Z ->
     exists ct e1, encrypt H e data pad = Ok (ct, e1) /\ Z.of_nat (length ct) = e_padding e) /\
  ((e_padding e < Z.of_nat (length data))%Z -> encrypt H e data pad = Err).
Proof.
  intros Hkl Hd Hp. split.
  - intros Hfit.
    destruct (enc_roundtrip H e Hkl Hd data pad (or_intror Hfit)) as (ct & e1 & E & L & _).
    exists ct, e1. split; [exact E|]. rewrite L. unfold out_len.
    destruct (Z.ltb_spec 0 (e_padding e)); lia.
  - intros Hlong. apply enc_too_long; [exact Hkl|lia].
Qed.

Variables chunk branching refsize : N.
Hypothesis Hchunk : chunk = refsize * branching.
Hypothesis Hb : 2 <= branching.
Hypothesis Hrs : 1 <= refsize.
Hypothesis Hcw : 2 * chunk <= W64.

(** what the encrypting writer stores for a chunk (span S, payload) is always
    8 + chunk bytes, and the decrypting store returns exactly span ++ payload:
    - leaf: S = |payload| <= chunk
    - intermediate: chunk < S <= 2^64 - chunk and the payload is refsize bytes
      per reference of the root of a tree of S bytes *)
Lemma chunk_restored key S payload pad :
  (0 < length key)%nat -> (forall x, (length key <= length (H x))%nat) ->
  (S = N.of_nat (length payload) /\ S <= chunk) \/
  (chunk < S /\ S + chunk <= W64 /\
   exists r, root_refs chunk branching S = Some r /\ N.of_nat (length payload) = refsize * r) ->
  exists stored,
    encrypt_chunk_stored H chunk refsize key (le64 S ++ payload) pad = Ok stored /\
    length stored = (8 + N.to_nat chunk)%nat /\
    decrypt_chunk_data H chunk refsize stored key = Ok (le64 S ++ payload).
Proof.
  intros Hkl Hd Hcase.
  assert (HS : S < W64 /\ N.of_nat (length payload) <= chunk /\
               recover chunk refsize S = Some (N.of_nat (length payload))).
  { destruct Hcase as [[ES Hle]|(Hgt & Hnw & r & Hr & Hlen)].
    - split; [lia|]. split; [lia|].
      unfold recover. rewrite (recover_leaf chunk branching refsize Hchunk Hb Hrs Hcw S Hle).
      cbn. congruence.
    - destruct (recover_intermediate_props chunk branching refsize Hchunk Hb Hrs Hcw S Hgt Hnw)
        as (r' & Hr' & Hrb & Hrec).
      rewrite Hr in Hr'. injection Hr' as <-.
      split; [lia|]. split; [nia|]. rewrite Hrec, Hlen. reflexivity. }
  destruct HS as (HSw & Hple & Hrec).
  apply chunk_roundtrip; try assumption.
  - apply le_bytes_length.
  - rewrite le64_decode by exact HSw. exact Hrec.
Qed.

(** the writer's stored reference counts and the reader's recovered lengths agree, for every file size *)
Definition agrees (e : N * N) : Prop :=
  chunk < fst e /\ root_refs chunk branching (fst e) = Some (snd e) /\
  2 <= snd e <= branching /\ recover chunk refsize (fst e) = Some (refsize * snd e).

Lemma writer_reader_agree (proc : N -> N) size :
  W64 <= chunk * branching ^ 7 ->
  0 < size -> size + chunk <= W64 ->
  exists em, trie_run p_span proc (N.to_nat branching) (leaf_spans chunk size) = Ok (size, em) /\ Forall agrees em.
Proof.
  intros HK Hpos Hnw.
  assert (Hc2 : 2 <= chunk) by nia.
  assert (Hbn : (2 <= N.to_nat branching)%nat) by lia.
  assert (Hcap : size < F chunk (N.to_nat branching) 7).
  { unfold F. rewrite N2Nat.id. change (N.of_nat 7) with 7. lia. }
  destruct (trie_agree chunk (N.to_nat branching) size proc Hc2 Hbn ltac:(lia) Hcap Hpos) as (em & E & Hem).
  exists em. split; [exact E|].
  eapply Forall_impl; [|exact Hem].
  intros [sp k] (H1 & H2 & H3). cbn [fst snd] in *. rewrite N2Nat.id in H3.
  destruct (recover_intermediate_props chunk branching refsize Hchunk Hb Hrs Hcw sp H1 ltac:(lia)) as (r & Hr & Hrb & Hrec).
  rewrite H3 in Hr. injection Hr as <-.
  unfold agrees. cbn [fst snd]. auto.
Qed.

End Top.
