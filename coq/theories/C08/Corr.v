(** C08 — correspondence.  The harness runs the REAL pkg/encryption code with a
    toy hash (defined identically here), the REAL decrypting store
    (real Keccak; compared at the level of outcome and returned length, which
    depend only on the decrypted span and the lengths) and the REAL hashtrie
    writer with a recording short pipeline; [check_case] recomputes the model's
    answer for the same inputs. *)
From Coq Require Import List NArith ZArith Bool.
From Coq Require String Ascii.
Import ListNotations.
Require Import Aurora.Base.Corr Aurora.Consts Aurora.C08.Model.
Local Open Scope N_scope.

Definition chunk : N := Z.to_N Consts.boson_ChunkSize.
Definition refsize : N := Z.to_N (Consts.boson_HashSize + Consts.encryption_KeyLength).
Definition hashsize : nat := Z.to_nat Consts.boson_HashSize.

(** byte strings are written by the harness as hex string literals (a list of
    several hundred [N] literals per case is slow to parse) *)
Definition hexval (c : Ascii.ascii) : N :=
  let n := Ascii.N_of_ascii c in
  if n <? 58 then n - 48 else if n <? 71 then n - 55 else n - 87.
Fixpoint hex (s : String.string) : list N :=
  match s with
  | String.String a (String.String b r) => (16 * hexval a + hexval b) :: hex r
  | _ => []
  end.

(** toy hash, the same function as [toyHash] in harness/cmd/c08/main.go
    (uint32 arithmetic; written with bit operations, which vm_compute evaluates
    much faster than [mod]/[/]) *)
Definition m32 (x : N) : N := N.land x 4294967295.
Definition toy_acc (l : list N) : N := fold_left (fun a b => m32 (a * 131 + b + 1)) l 7.
Fixpoint toy_out (a : N) (n : nat) (jk : N) : list N :=
  match n with
  | O => []
  | S k => N.land (N.shiftr (m32 (m32 (a + jk) * 1029)) 16) 255 :: toy_out a k (jk + 2654435761)
  end.
Definition toy_hash (hlen : nat) (l : list N) : list N := toy_out (toy_acc l) hlen 0.

Definition digest (l : list N) : N := fold_left (fun a b => N.land (a * 33 + b + 1) 281474976710655) l 0.
(** deterministic payload pattern, the same as [pattern] in the harness *)
Fixpoint pattern_from (seed : N) (n : nat) (i : N) : list N :=
  match n with O => [] | S k => N.land (seed + i * 7 + N.shiftr i 8) 255 :: pattern_from seed k (i + 1) end.
Definition pattern (seed len : N) : list N := pattern_from seed (N.to_nat len) 0.

Inductive robs (A : Type) : Type := ROk (a : A) | RErr | RPanic | RHang.
Arguments ROk {A} a. Arguments RErr {A}. Arguments RPanic {A}. Arguments RHang {A}.

Definition res_eqb {A} (e : A -> A -> bool) (m : res A) (o : robs A) : bool :=
  match m, o with
  | Ok a, ROk b => e a b
  | Err, RErr | Panic, RPanic | Hang, RHang => true
  | _, _ => false
  end.
Definition to_robs {A} (m : res A) : robs A :=
  match m with Ok a => ROk a | Err => RErr | Panic => RPanic | Hang => RHang end.
Definition res_map {A B} (f : A -> B) (m : res A) : res B :=
  match m with Ok a => Ok (f a) | Err => Err | Panic => Panic | Hang => Hang end.

(** one call on an Encryption object and what was observed *)
Inductive opobs :=
| OEnc (data : list N) (obs : robs (list N))      (* Encrypt *)
| ODec (data : list N) (obs : robs (list N))      (* Decrypt *)
| OReset                                          (* Reset *)
| OTrans (i : Z) (inp : list N) (outlen : nat) (obs : robs (list N)).  (* Transcrypt(i, in, out) *)

Inductive case :=
| CEnc (hlen : nat) (key : list N) (padding : Z) (initCtr : N) (ops : list opobs)
| CEncPat (hlen : nat) (key : list N) (padding : Z) (initCtr : N) (seed len : N) (obs : robs (N * N))
    (* Encrypt of [pattern seed len]: (ciphertext length, digest of its first [len] bytes) *)
| CStrip (sp dlen : N) (obs : robs N)
    (* decryptChunkData on a chunk whose decrypted span is S and whose data part has dlen bytes: returned length *)
| CGet (reflen : nat) (found : bool) (datalen : N) (sp : N) (obs : robs N)
    (* decryptingStore.Get: reference length, getter hit, stored data length, decrypted span: returned data length *)
| CTrie (b : nat) (runs : list (N * nat)) (obs : robs (N * list (N * N)))
    (* hashtrie writer with branching b fed the leaf spans [runs] (run-length), then Sum:
       root span and the (span, references) of every intermediate chunk handed to the short pipeline.
       The recording pipeline returns Data whose first 8 bytes are the span xor [stub_mask]
       (as an encrypting stage would) and leaves args.Span alone. *)
| CTrieEnc (runs : list (N * nat)) (obs : robs (N * list (N * N))).
    (* hashtrie writer at the production encrypted parameters over the REAL short chain
       encryption writer -> bmt writer -> store writer, fed leaf references with the spans [runs];
       every stored intermediate chunk read back through the REAL decrypting store, in order of
       creation: (decrypted span, restored payload length in bytes); root span *)

(** padding oracle read back from the observed ciphertext (relational) *)
Definition pad_of (data ct : list N) : nat -> N := fun i => nth i (skipn (length data) ct) 0.

Definition is_nil {A} (l : list A) : bool := match l with [] => true | _ => false end.

Fixpoint run_ops (H : list N -> list N) (e : enc) (ops : list opobs) : bool :=
  match ops with
  | [] => true
  | OReset :: r => run_ops H (reset e) r
  | OEnc data obs :: r =>
      let pad := match obs with ROk ct => pad_of data ct | _ => fun _ => 0 end in
      match encrypt H e data pad with
      | Ok (ct, e') => res_eqb bytes_eqb (Ok ct) obs && run_ops H e' r
      | Err => res_eqb bytes_eqb Err obs && run_ops H e r          (* rejected before any counter use *)
      | Panic => res_eqb bytes_eqb Panic obs && is_nil r           (* object state undefined afterwards *)
      | Hang => res_eqb bytes_eqb Hang obs && is_nil r
      end
  | ODec data obs :: r =>
      match decrypt H e data with
      | Ok (pt, e') => res_eqb bytes_eqb (Ok pt) obs && run_ops H e' r
      | Err => res_eqb bytes_eqb Err obs && run_ops H e r
      | Panic => res_eqb bytes_eqb Panic obs && is_nil r
      | Hang => res_eqb bytes_eqb Hang obs && is_nil r
      end
  | OTrans i inp outlen obs :: r =>
      let pad := match obs with ROk ct => pad_of inp ct | _ => fun _ => 0 end in
      res_eqb bytes_eqb (transcrypt H (e_key e) (e_initCtr e) i inp outlen pad) obs && run_ops H e r
  end.

(** length-level view of strip_padding / decrypt_chunk_data / store_get
    (proved equal to the length of the model's result in ProofsEnc.v) *)
Definition strip_len (sp dlen : N) : res N :=
  match recover chunk refsize sp with
  | None => Hang
  | Some len => if dlen <? len then Panic else Ok (8 + len)
  end.
Definition dcd_len (datalen sp : N) : res N :=
  if datalen <? 8 then Panic
  else if (datalen - 8 =? chunk) then strip_len sp (datalen - 8) else Err.
Definition get_len (reflen : nat) (found : bool) (datalen sp : N) : res N :=
  if Nat.eqb reflen hashsize then (if found then Ok datalen else Err)
  else if Nat.eqb reflen (N.to_nat refsize) then (if found then dcd_len datalen sp else Err)
  else Err.

Definition expand_runs (runs : list (N * nat)) : list N :=
  flat_map (fun r => repeat (fst r) (snd r)) runs.

Definition stub_mask : N := 11936128518282651045.   (* 0xA5A5A5A5A5A5A5A5 *)
Definition stub_proc (s : N) : N := N.lxor s stub_mask.
Definition enc_branching : nat := N.to_nat (Z.to_N Consts.boson_Branches / 2).
(** the writer forwards args.Span, so what the stages did to Data[:8] does not matter; the model is
    nevertheless run with the stub's processing function so that a model forwarding Data[:8]
    would reproduce exactly what such an implementation does *)
Definition model_trie (b : nat) (runs : list (N * nat)) := trie_run p_span stub_proc b (expand_runs runs).
Definition model_trie_enc (runs : list (N * nat)) : res (N * list (N * N)) :=
  res_map (fun r => (fst r, map (fun e => (fst e, refsize * snd e)) (snd r))) (model_trie enc_branching runs).

Definition pairN_eqb := pair_eqb N.eqb N.eqb.
Definition trie_eqb := pair_eqb N.eqb (list_eqb pairN_eqb).

Definition model_enc_pat (hlen : nat) key padding initCtr seed len : res (N * N) :=
  res_map (fun p => (N.of_nat (length (fst p)), digest (firstn (N.to_nat len) (fst p))))
          (encrypt (toy_hash hlen) (mkEnc key padding initCtr 0) (pattern seed len) (fun _ => 0)).

Definition check_case (c : case) : bool :=
  match c with
  | CEnc hlen key padding initCtr ops => run_ops (toy_hash hlen) (mkEnc key padding initCtr 0) ops
  | CEncPat hlen key padding initCtr seed len obs => res_eqb pairN_eqb (model_enc_pat hlen key padding initCtr seed len) obs
  | CStrip sp dlen obs => res_eqb N.eqb (strip_len sp dlen) obs
  | CGet reflen found datalen sp obs => res_eqb N.eqb (get_len reflen found datalen sp) obs
  | CTrie b runs obs => res_eqb trie_eqb (model_trie b runs) obs
  | CTrieEnc runs obs => res_eqb trie_eqb (model_trie_enc runs) obs
  end.

(** printed on a mismatch: the model's view next to the observation *)
Inductive explain :=
| XEnc (ops_ok : list bool)
| XPat (m : robs (N * N)) (o : robs (N * N))
| XLen (m : robs N) (o : robs N)
| XTrie (m : robs (N * list (N * N))) (o : robs (N * list (N * N))).

Fixpoint prefixes_ok (H : list N -> list N) (e : enc) (done rest : list opobs) : list bool :=
  match rest with
  | [] => []
  | o :: r => run_ops H e (done ++ [o]) :: prefixes_ok H e (done ++ [o]) r
  end.

Definition explain_case (c : case) : explain :=
  match c with
  | CEnc hlen key padding initCtr ops => XEnc (prefixes_ok (toy_hash hlen) (mkEnc key padding initCtr 0) [] ops)
  | CEncPat hlen key padding initCtr seed len obs => XPat (to_robs (model_enc_pat hlen key padding initCtr seed len)) obs
  | CStrip sp dlen obs => XLen (to_robs (strip_len sp dlen)) obs
  | CGet reflen found datalen sp obs => XLen (to_robs (get_len reflen found datalen sp)) obs
  | CTrie b runs obs => XTrie (to_robs (model_trie b runs)) obs
  | CTrieEnc runs obs => XTrie (to_robs (model_trie_enc runs)) obs
  end.
