(** C08 — the hashtrie writer (level bookkeeping) stores, for every
    intermediate chunk, exactly as many references as the root of a tree of
    that chunk's span holds; hence the reader's length-recovery loop returns the
    stored length.  For every file size, by invariants over the write phase
    and over the loop of Sum (carry-over included). *)
From Coq Require Import List NArith ZArith Bool Lia.
From Coq Require Import ZifyBool ZifyNat ZifyN.
Import ListNotations.
Require Import Aurora.C08.Model Aurora.C08.ProofsArith.
Local Open Scope N_scope.

Fixpoint sumN (l : list N) : N := match l with [] => 0 | x :: t => x + sumN t end.
Fixpoint tot (ls : list (list N)) : N := match ls with [] => 0 | l :: up => sumN l + tot up end.

Lemma sumN_app a b : sumN (a ++ b) = sumN a + sumN b.
Proof. induction a; cbn; lia. Qed.

Lemma sum64_from : forall l a, a + sumN l < W64 ->
  fold_left (fun a s => u64 (a + s)) l a = a + sumN l.
Proof.
  induction l as [|x l IH]; intros a Ha; cbn [fold_left sumN] in *.
  - lia.
  - unfold u64 at 2. rewrite (N.mod_small (a + x)) by lia. rewrite IH by lia. lia.
Qed.
Lemma sum64_eq l : sumN l < W64 -> sum64 l = sumN l.
Proof. intros Hl. unfold sum64. rewrite sum64_from by lia. lia. Qed.

Section Trie.
Variable c : N.          (* chunk size *)
Variable b : nat.        (* branching *)
Variable size : N.       (* file size: bound on every sum *)
Variable proc : N -> N.  (* what the stages do to Data[:8]; irrelevant because args.Span is forwarded *)
Let bN := N.of_nat b.
Hypothesis Hc : 2 <= c.
Hypothesis Hb : (2 <= b)%nat.
Hypothesis Hsz64 : size < W64.

Definition F (i : nat) : N := c * bN ^ N.of_nat i.
Hypothesis Hcap : size < F 7.

Lemma bN_ge2 : 2 <= bN. Proof. unfold bN. lia. Qed.
Lemma F_S i : F (S i) = bN * F i.
Proof. unfold F. replace (N.of_nat (S i)) with (N.succ (N.of_nat i)) by lia. rewrite N.pow_succ_r'. lia. Qed.
Lemma F_pos i : 0 < F i.
Proof. unfold F. pose proof bN_ge2. assert (0 < bN ^ N.of_nat i) by (apply N.neq_0_lt_0, N.pow_nonzero; lia). nia. Qed.
Lemma F_mono i j : (i <= j)%nat -> F i <= F j.
Proof.
  intros Hij. unfold F. apply N.mul_le_mono_l. apply N.pow_le_mono_r; [pose proof bN_ge2; lia|lia].
Qed.
Lemma F_0 : F 0 = c. Proof. unfold F. cbn. lia. Qed.

Definition full_lvl (i : nat) (l : list N) : Prop := Forall (fun s => s = F i) l.
Definition good_lvl (i : nat) (l : list N) : Prop :=
  exists l' t, l = l' ++ [t] /\ full_lvl i l' /\ 0 < t <= F i.

Lemma full_sum i l : full_lvl i l -> sumN l = N.of_nat (length l) * F i.
Proof. induction 1 as [|x l Hx _ IH]; cbn [sumN length]; [lia|]. rewrite IH, Hx. lia. Qed.

Definition egood (e : N * N) : Prop :=
  c < fst e /\ fst e <= size /\ root_refs c bN (fst e) = Some (snd e).

(** the chunk made from a level: (k-1) full references and a last one in
    (0, F i] has height i+1 and exactly k references *)
Lemma emit_ok i l :
  good_lvl i l -> (2 <= length l <= b)%nat -> sumN l <= size ->
  egood (sumN l, N.of_nat (length l)).
Proof.
  intros (l' & t & -> & Hfull & Ht) Hlen Hs.
  rewrite app_length in *. cbn [length] in *.
  rewrite sumN_app in *. cbn [sumN] in *. rewrite (full_sum i l' Hfull) in *.
  remember (N.of_nat (length l')) as k eqn:Ek.
  assert (Hk : 1 <= k <= bN - 1) by (unfold bN; lia).
  remember (k * F i + (t + 0)) as S eqn:ES.
  pose proof (F_pos i) as HFp. pose proof (F_S i) as HFS. pose proof bN_ge2 as Hb2.
  assert (HS1 : F i < S) by nia.
  assert (HS2 : S <= F (Datatypes.S i)) by nia.
  assert (HcF : c <= F i) by (rewrite <- F_0; apply F_mono; lia).
  unfold egood. cbn [fst snd].
  split; [lia|]. split; [exact Hs|].
  rewrite (root_refs_is_closed c bN Hc Hb2 S) by lia.
  unfold root_refs_closed, height.
  assert (Hfuel : S <= c * bN ^ N.of_nat 64).
  { assert (HP : 18446744073709551616 <= bN ^ 64).
    { change 18446744073709551616 with (2 ^ 64). apply N.pow_le_mono_l. lia. }
    change (N.of_nat 64) with 64.
    remember (bN ^ 64) as P eqn:EP. clear EP.
    assert (HSW : S < 18446744073709551616) by (rewrite <- W64_val; lia).
    clear - HP HSW Hc. nia. }
  destruct (height_from_spec c bN Hc Hb2 64 c S ltac:(lia) Hfuel) as [H1 H2].
  remember (height_from 64 bN c S) as h eqn:Eh.
  assert (Hh : h = Datatypes.S i).
  { destruct (Nat.lt_trichotomy h (Datatypes.S i)) as [Hlt|[Heq|Hgt]]; [|exact Heq|].
    - assert (F h <= F i) by (apply F_mono; lia). unfold F in H at 1. lia.
    - specialize (H2 (Datatypes.S i) Hgt). fold (F (Datatypes.S i)) in H2. lia. }
  rewrite Hh. replace (Datatypes.S i - 1)%nat with i by lia. fold (F i).
  f_equal. apply N.le_antisymm.
  - apply (proj2 (cdiv_le_iff S (F i) _ HFp)).
    replace (N.of_nat (length l' + 1)) with (k + 1) by lia.
    clear - ES Ht. nia.
  - destruct (N.le_gt_cases (N.of_nat (length l' + 1)) (cdiv S (F i))) as [|Hlt]; [assumption|].
    assert (Hle : cdiv S (F i) <= k) by lia.
    apply (proj1 (cdiv_le_iff S (F i) k HFp)) in Hle. clear - Hle ES Ht. nia.
Qed.

(** ---- level invariants *)
Fixpoint AllFull (i : nat) (ls : list (list N)) : Prop :=
  match ls with
  | [] => True
  | l :: up => full_lvl i l /\ (length l < b)%nat /\ AllFull (S i) up
  end.

Definition Shape (i : nat) (ls : list (list N)) : Prop :=
  exists k l up, ls = repeat [] k ++ l :: up /\ good_lvl (i + k) l /\ (length l <= b)%nat /\ AllFull (S (i + k)) up.

Lemma Shape_cons_nil i ls : Shape (S i) ls -> Shape i ([] :: ls).
Proof.
  intros (k & l & up & -> & Hg & Hl & Ha). exists (S k), l, up.
  replace (i + S k)%nat with (S i + k)%nat by lia. auto.
Qed.

Lemma allfull_shape : forall ls i, AllFull i ls -> 0 < tot ls -> Shape i ls.
Proof.
  induction ls as [|l up IH]; intros i Ha Ht; cbn [tot] in Ht; [lia|].
  destruct Ha as (Hf & Hl & Hup).
  destruct l as [|x l] using rev_ind.
  - apply Shape_cons_nil. apply IH; [exact Hup|cbn in Ht; lia].
  - clear IHl. exists O, (l ++ [x]), up. replace (i + 0)%nat with i by lia. cbn [repeat app].
    split; [reflexivity|]. split; [|split; [lia|exact Hup]].
    apply Forall_app in Hf as [Hf1 Hf2]. inversion Hf2; subst.
    exists l, (F i). pose proof (F_pos i). repeat split; auto; lia.
Qed.

Lemma full_lvl_ge i l : full_lvl i l -> l <> [] -> F i <= sumN l.
Proof. intros Hf Hne. destruct Hf; [congruence|]. cbn. subst. lia. Qed.

(** ---- writeToLevel into all-full levels *)
Lemma write_gen : forall ls i sp,
  AllFull i ls -> (i + length ls = 8)%nat -> ls <> [] ->
  0 < sp <= F i -> tot ls + sp <= size ->
  exists ls' em fl,
    write_levels p_span proc b (S i) ls sp = Ok (ls', em, fl) /\
    Shape i ls' /\ tot ls' = tot ls + sp /\ Forall egood em /\ length ls' = length ls.
Proof.
  induction ls as [|l up IH]; intros i sp Ha Hlen Hne Hsp Htot; [congruence|].
  destruct Ha as (Hf & Hl & Hup). cbn [tot] in Htot. cbn [length] in Hlen.
  cbn [write_levels p_span short_pipeline]. rewrite app_length. cbn [length].
  assert (Hgood : good_lvl i (l ++ [sp])) by (exists l, sp; auto).
  destruct (Nat.eqb_spec (length l + 1) b) as [Hwrap|Hno].
  - (* wrap *)
    assert (Es : sum64 (l ++ [sp]) = sumN (l ++ [sp])).
    { apply sum64_eq. rewrite sumN_app. cbn. lia. }
    rewrite Es. remember (sumN (l ++ [sp])) as s eqn:Eqs.
    assert (Hs : s = sumN l + sp) by (subst s; rewrite sumN_app; cbn; lia).
    assert (Hsle : s <= F (S i)).
    { rewrite Hs, (full_sum i l Hf), F_S. unfold bN. nia. }
    assert (Hspos : 0 < s) by lia.
    assert (Hupne : up <> []).
    { intros ->. cbn in Hlen. assert (i = 7%nat) by lia. subst i.
      assert (l <> []) by (intros ->; cbn in Hwrap; lia).
      pose proof (full_lvl_ge 7 l Hf H). lia. }
    destruct (IH (S i) s Hup ltac:(lia) Hupne ltac:(lia) ltac:(lia)) as (up' & em & fl & E & Hsh & Ht & Hem & Hl').
    rewrite E.
    exists ([] :: up'), ((s, N.of_nat (length l + 1)) :: em), (fl || Nat.eqb (S (S i)) 8).
    split; [reflexivity|]. split; [apply Shape_cons_nil; exact Hsh|].
    split; [cbn [tot sumN]; lia|]. split; [|cbn; lia].
    constructor; [|exact Hem].
    pose proof (emit_ok i (l ++ [sp]) Hgood) as Hok.
    rewrite app_length in Hok. cbn [length] in Hok. rewrite <- Eqs in Hok.
    apply Hok; lia.
  - exists ((l ++ [sp]) :: up), [], false.
    split; [reflexivity|]. split; [|split; [|split; [constructor|reflexivity]]].
    + exists O, (l ++ [sp]), up. replace (i + 0)%nat with i by lia. cbn [repeat app].
      rewrite app_length. cbn [length]. repeat split; auto; lia.
    + cbn [tot]. rewrite sumN_app. cbn. lia.
Qed.

(** a full reference into all-full levels keeps them all-full and never reaches level 8 *)
Lemma write_full : forall ls i,
  AllFull i ls -> (i + length ls = 8)%nat ->
  tot ls + F i <= size ->
  exists ls' em,
    write_levels p_span proc b (S i) ls (F i) = Ok (ls', em, false) /\
    AllFull i ls' /\ tot ls' = tot ls + F i /\ Forall egood em /\ length ls' = length ls.
Proof.
  induction ls as [|l up IH]; intros i Ha Hlen Htot.
  - cbn [length] in Hlen. assert (Ei : i = 8%nat) by lia. subst i. cbn [tot] in Htot. pose proof (F_mono 7 8 ltac:(lia)). lia.
  - destruct Ha as (Hf & Hl & Hup). cbn [tot] in Htot. cbn [length] in Hlen.
    cbn [write_levels p_span short_pipeline]. rewrite app_length. cbn [length].
    assert (Hfull' : full_lvl i (l ++ [F i])).
    { apply Forall_app. split; [exact Hf|]. constructor; auto. }
    destruct (Nat.eqb_spec (length l + 1) b) as [Hwrap|Hno].
    + assert (Es : sum64 (l ++ [F i]) = sumN (l ++ [F i])).
      { apply sum64_eq. rewrite sumN_app. cbn. lia. }
      rewrite Es. remember (sumN (l ++ [F i])) as s eqn:Eqs.
      assert (Hs : s = F (S i)).
      { subst s. rewrite (full_sum i _ Hfull'), app_length, F_S. cbn [length]. unfold bN. lia. }
      assert (Hs2 : s = sumN l + F i) by (subst s; rewrite sumN_app; cbn; lia).
      rewrite Hs.
      destruct (IH (S i) Hup ltac:(lia) ltac:(lia)) as (up' & em & E & Hall & Ht & Hem & Hl').
      rewrite E.
      assert (Hi6 : Nat.eqb (S (S i)) 8 = false).
      { apply Nat.eqb_neq. intros Hi. assert (i = 6%nat) by lia. subst i. lia. }
      rewrite Hi6. cbn [orb].
      exists ([] :: up'), ((F (S i), N.of_nat (length l + 1)) :: em).
      split; [reflexivity|]. split; [|split; [|split]].
      * cbn [AllFull]. split; [constructor|]. split; [cbn; lia|exact Hall].
      * cbn [tot sumN]. lia.
      * constructor; [|exact Hem].
        assert (Hgood : good_lvl i (l ++ [F i])).
        { exists l, (F i). pose proof (F_pos i). repeat split; auto; lia. }
        pose proof (emit_ok i (l ++ [F i]) Hgood) as Hok.
        rewrite app_length in Hok. cbn [length] in Hok. rewrite <- Eqs, Hs in Hok.
        apply Hok; lia.
      * cbn. lia.
    + exists ((l ++ [F i]) :: up), [].
      split; [reflexivity|]. split; [|split; [|split; [constructor|reflexivity]]].
      * cbn [AllFull]. rewrite app_length. cbn [length]. repeat split; auto; lia.
      * cbn [tot]. rewrite sumN_app. cbn. lia.
Qed.

(** ---- the loop of Sum *)
Lemma last_cons_ne {A} (a : A) l d : l <> [] -> last (a :: l) d = last l d.
Proof. destruct l; [congruence|reflexivity]. Qed.

Lemma sum_phase : forall n i ls,
  Shape i ls -> (i + length ls = 8)%nat -> (S n = length ls)%nat -> tot ls <= size ->
  exists ls' em fl,
    sum_levels p_span proc n b (S i) ls = Ok (ls', em, fl) /\ Forall egood em /\ last ls' [] = [tot ls].
Proof.
  induction n as [|n IH]; intros i ls Hsh Hlen Hn Htot.
  - (* only the top level is left *)
    destruct ls as [|top [|x r]]; cbn in Hn; try lia.
    destruct Hsh as (k & l & up & E & Hg & Hl & Hup).
    destruct k; cbn in E.
    2:{ destruct k; cbn in E; discriminate. }
    injection E as -> <-. cbn in Hlen. assert (i = 7%nat) by lia. subst i.
    destruct Hg as (l' & t & -> & Hf & Ht).
    destruct l' as [|y l'].
    + exists [[t]], [], false. cbn. replace (t + 0 + 0) with t by lia. auto.
    + inversion Hf; subst. cbn [tot sumN app] in Htot. replace (7 + 0)%nat with 7%nat in * by lia. lia.
  - destruct ls as [|l0 rest]; [cbn in Hn; lia|].
    cbn [length] in Hn, Hlen.
    assert (Hrest : rest <> []) by (destruct rest; cbn in Hn; [lia|congruence]).
    cbn [sum_levels].
    destruct Hsh as (k & l & up & E & Hg & Hl & Hup).
    destruct k as [|k]; cbn [repeat app] in E.
    + injection E as -> ->. replace (i + 0)%nat with i in * by lia.
      destruct Hg as (l' & t & El & Hf & Ht).
      destruct l' as [|y l'].
      * (* a single reference: carried over unchanged *)
        subst l. cbn [app] in *. unfold sum_action. cbn [length].
        replace (Nat.eqb b 1) with false by (symmetry; apply Nat.eqb_neq; lia).
        destruct up as [|nxt up']; [congruence|].
        destruct Hup as (Hfn & Hln & Hup').
        assert (Hsh' : Shape (S i) ((nxt ++ [t]) :: up')).
        { exists O, (nxt ++ [t]), up'. replace (S i + 0)%nat with (S i) by lia. cbn [repeat app].
          split; [reflexivity|]. split; [|split; [rewrite app_length; cbn; lia|exact Hup']].
          exists nxt, t. pose proof (F_mono i (S i) ltac:(lia)). repeat split; auto; lia. }
        destruct (IH (S i) ((nxt ++ [t]) :: up') Hsh' ltac:(cbn in *; lia) ltac:(cbn in *; lia)) as (up2 & em2 & fl2 & E2 & Hem2 & Hlast).
        { cbn [tot sumN] in *. rewrite sumN_app. cbn [sumN]. lia. }
        rewrite E2. exists ([] :: up2), ([] ++ em2), (false || fl2).
        split; [reflexivity|]. split; [exact Hem2|].
        assert (up2 <> []) by (intros ->; cbn in Hlast; discriminate).
        rewrite last_cons_ne by assumption. rewrite Hlast.
        cbn [tot sumN]. rewrite sumN_app. cbn [sumN]. f_equal. lia.
      * (* two or more: wrap *)
        assert (Hlen2 : (2 <= length l)%nat) by (subst l; cbn [length app]; rewrite app_length; cbn; lia).
        unfold sum_action.
        destruct (length l) as [|[|m]] eqn:Elen; try lia.
        unfold wrap_level. cbn [p_span short_pipeline].
        assert (Hsl : sumN l <= size) by (cbn [tot] in Htot; lia).
        rewrite (sum64_eq l) by lia.
        assert (Hgl : good_lvl i l) by (exists (y :: l'), t; auto).
        assert (Hsle : 0 < sumN l <= F (S i)).
        { rewrite El, sumN_app, (full_sum i _ Hf), F_S. cbn [sumN].
          assert (N.of_nat (length (y :: l')) + 1 <= bN).
          { unfold bN. pose proof Elen as El2. rewrite El, app_length in El2. cbn [length] in *. lia. }
          nia. }
        destruct (write_gen up (S i) (sumN l) Hup ltac:(lia) Hrest ltac:(lia) ltac:(cbn [tot] in Htot; lia))
          as (up1 & em1 & fl1 & E1 & Hsh1 & Ht1 & Hem1 & Hl1).
        rewrite E1.
        destruct (IH (S i) up1 Hsh1 ltac:(lia) ltac:(lia) ltac:(cbn [tot] in Htot; lia)) as (up2 & em2 & fl2 & E2 & Hem2 & Hlast).
        rewrite E2.
        eexists ([] :: up2), _, _. split; [reflexivity|]. split.
        { apply Forall_app. split; [|exact Hem2]. constructor; [|exact Hem1].
          apply (emit_ok i l Hgl); lia. }
        assert (up2 <> []) by (intros ->; cbn in Hlast; discriminate).
        rewrite last_cons_ne by assumption. rewrite Hlast, Ht1. cbn [tot]. f_equal. lia.
    + (* empty level *)
      injection E as -> ->.
      unfold sum_action. cbn [length].
      assert (Hsh' : Shape (S i) (repeat [] k ++ l :: up)).
      { exists k, l, up. replace (S i + k)%nat with (i + S k)%nat by lia. auto. }
      destruct (IH (S i) _ Hsh' ltac:(lia) ltac:(lia) ltac:(cbn [tot sumN] in Htot; lia)) as (up2 & em2 & fl2 & E2 & Hem2 & Hlast).
      rewrite E2. exists ([] :: up2), ([] ++ em2), (false || fl2).
      split; [reflexivity|]. split; [exact Hem2|].
      assert (up2 <> []) by (intros ->; cbn in Hlast; discriminate).
      rewrite last_cons_ne by assumption. rewrite Hlast. cbn [tot sumN]. f_equal.
Qed.

(** ---- the write phase over the leaves of a file *)
Definition TInv (t : trie) : Prop :=
  AllFull 0 (t_levels t) /\ length (t_levels t) = 8%nat /\ t_full t = false /\ Forall egood (t_emit t).

Lemma feed_full : forall m t,
  TInv t -> tot (t_levels t) + N.of_nat m * c <= size ->
  exists t', trie_feed p_span proc b t (repeat c m) = Ok t' /\ TInv t' /\
             tot (t_levels t') = tot (t_levels t) + N.of_nat m * c.
Proof.
  induction m as [|m IH]; intros t Hinv Htot.
  - exists t. split; [reflexivity|]. split; [exact Hinv|]. lia.
  - destruct Hinv as (Ha & Hl & Hfull & Hem).
    cbn [repeat trie_feed]. unfold trie_write. rewrite Hfull.
    destruct (write_full (t_levels t) 0 Ha ltac:(lia) ltac:(rewrite F_0; lia)) as (ls' & em & E & Hall & Ht & Hem' & Hl').
    rewrite F_0 in E, Ht. rewrite E.
    destruct (IH (mkTrie ls' (false || false) (t_emit t ++ em))) as (t' & E' & Hinv' & Ht').
    + unfold TInv. cbn [t_levels t_full t_emit].
      split; [exact Hall|]. split; [lia|]. split; [reflexivity|]. apply Forall_app; auto.
    + cbn [t_levels]. lia.
    + exists t'. split; [exact E'|]. split; [exact Hinv'|]. cbn [t_levels] in Ht'. lia.
Qed.

Lemma trie_feed_app : forall a t d,
  trie_feed p_span proc b t (a ++ d) =
  match trie_feed p_span proc b t a with Ok t' => trie_feed p_span proc b t' d | Err => Err | Panic => Panic | Hang => Hang end.
Proof.
  induction a as [|x a IH]; intros t d; cbn [app trie_feed]; [reflexivity|].
  destruct (trie_write p_span proc b t x); auto.
Qed.

Lemma AllFull_init : AllFull 0 (repeat [] 8).
Proof. cbn. repeat split; try constructor; lia. Qed.

(** every non-empty file: the root reference spans the file, and every
    intermediate chunk handed to the short pipeline carries exactly
    root_refs(span) references *)
Theorem trie_agree :
  0 < size ->
  exists em, trie_run p_span proc b (leaf_spans c size) = Ok (size, em) /\ Forall egood em.
Proof.
  intros Hpos. unfold trie_run, leaf_spans.
  remember (size / c) as q eqn:Eq. remember (size mod c) as r eqn:Er.
  assert (Hdm : size = c * q + r /\ r < c).
  { subst q r. split; [apply N.div_mod; lia|apply N.mod_lt; lia]. }
  destruct Hdm as [Hdm Hr].
  rewrite trie_feed_app.
  assert (Hinit : TInv trie_init).
  { unfold TInv, trie_init. cbn [t_levels t_full t_emit]. split; [apply AllFull_init|]. repeat split; auto. }
  destruct (feed_full (N.to_nat q) trie_init Hinit) as (t1 & E1 & (Ha1 & Hl1 & Hf1 & Hem1) & Ht1).
  { cbn. lia. }
  rewrite E1. replace (tot (t_levels trie_init)) with 0 in Ht1 by reflexivity.
  rewrite N2Nat.id in Ht1.
  destruct (N.eqb_spec r 0) as [Hr0|Hr0].
  - (* a multiple of the chunk size *)
    replace (size =? 0) with false by (symmetry; apply N.eqb_neq; lia).
    cbn [negb andb trie_feed]. unfold trie_sum.
    assert (Hsh : Shape 0 (t_levels t1)) by (apply allfull_shape; [exact Ha1|lia]).
    destruct (sum_phase 7 0 (t_levels t1) Hsh ltac:(lia) ltac:(lia) ltac:(lia)) as (ls' & em & fl & E & Hem & Hlast).
    rewrite E, Hlast. exists (t_emit t1 ++ em). cbn [t_emit].
    split; [f_equal; f_equal; lia|]. apply Forall_app; auto.
  - cbn [andb trie_feed]. unfold trie_write. rewrite Hf1.
    assert (Hne : t_levels t1 <> []) by (intros E; rewrite E in Hl1; cbn in Hl1; lia).
    destruct (write_gen (t_levels t1) 0 r Ha1 ltac:(lia) Hne ltac:(rewrite F_0; lia) ltac:(lia))
      as (ls1 & em1 & fl1 & E & Hsh & Ht & Hem & Hl).
    rewrite E. unfold trie_sum. cbn [t_levels t_full t_emit].
    destruct (sum_phase 7 0 ls1 Hsh ltac:(lia) ltac:(lia) ltac:(lia)) as (ls' & em & fl & E2 & Hem2 & Hlast).
    rewrite E2, Hlast. exists ((t_emit t1 ++ em1) ++ em). cbn [t_emit].
    split; [f_equal; f_equal; lia|]. repeat (apply Forall_app; split); auto.
Qed.

End Trie.
