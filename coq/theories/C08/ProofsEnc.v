(** C08 — encryption is invertible, padding has the exact length, and the
    decrypting store strips it exactly.  The hash [H] is arbitrary; the only
    hypothesis is that its digests are at least as long as the key (the code
    indexes [segmentKey[j]] for [j < keyLen]). *)
From Coq Require Import List NArith ZArith Bool Lia.
Import ListNotations.
Require Import Aurora.C08.Model.
Local Open Scope N_scope.

Lemma lxor_cancel x k : N.lxor (N.lxor x k) k = x.
Proof. rewrite N.lxor_assoc, N.lxor_nilpotent, N.lxor_0_r. reflexivity. Qed.

Lemma xor_seg_ok : forall inp sk, (length inp <= length sk)%nat ->
  exists r, xor_seg inp sk = Ok r /\ length r = length inp /\ xor_seg r sk = Ok inp.
Proof.
  induction inp as [|a inp IH]; intros sk Hl.
  - exists []. cbn. auto.
  - destruct sk as [|k sk]; [cbn in Hl; lia|].
    destruct (IH sk) as (r & E & L & E2); [cbn in Hl; lia|].
    exists (N.lxor a k :: r). cbn. rewrite E. cbn. rewrite E2, lxor_cancel, L. auto.
Qed.

(** a longer segment that starts with the ciphertext of [a] decrypts to [a] followed by something *)
Lemma xor_seg_app_prefix : forall a ra b sk,
  xor_seg a sk = Ok ra -> (length a + length b <= length sk)%nat ->
  exists rb, xor_seg (ra ++ b) sk = Ok (a ++ rb) /\ length rb = length b.
Proof.
  induction a as [|x a IH]; intros ra b sk E Hl.
  - cbn in E. injection E as <-. cbn [app].
    destruct (xor_seg_ok b sk) as (r & E1 & L & _); [cbn in Hl; lia|].
    exists r. auto.
  - destruct sk as [|k sk]; [cbn in E; discriminate|].
    cbn in E. destruct (xor_seg a sk) as [r| | |] eqn:Ea; try discriminate.
    injection E as <-.
    destruct (IH r b sk Ea) as (rb & E1 & L); [cbn in Hl; lia|].
    exists rb. cbn. rewrite E1, lxor_cancel. auto.
Qed.

Section Enc.
Variable H : list N -> list N.
Variable key : list N.
Variable initCtr : N.
Let kl := length key.
Hypothesis Hkl : (0 < kl)%nat.
Hypothesis Hdigest : forall x, (kl <= length (H x))%nat.

Lemma seg_key_len ctr : (kl <= length (seg_key H key ctr))%nat.
Proof. unfold seg_key. apply Hdigest. Qed.

Lemma transform_loop_total : forall fuel idx inp, (length inp <= fuel)%nat ->
  exists out idx', transform_loop H fuel key initCtr kl idx inp = Ok (out, idx') /\ length out = length inp.
Proof.
  induction fuel as [|f IH]; intros idx inp Hf.
  - destruct inp; [|cbn in Hf; lia]. exists [], idx. auto.
  - destruct inp as [|d ds]; [exists [], idx; auto|].
    remember (d :: ds) as inp eqn:Einp.
    assert (Hne : (1 <= length inp)%nat) by (subst inp; cbn; lia).
    destruct (xor_seg_ok (firstn kl inp) (seg_key H key (ctr_of idx initCtr))) as (r & E & L & _).
    { rewrite firstn_length. pose proof (seg_key_len (ctr_of idx initCtr)). lia. }
    destruct (IH (idx + 1)%Z (skipn kl inp)) as (rest & idx' & E2 & L2).
    { rewrite skipn_length. lia. }
    exists (r ++ rest), idx'.
    rewrite Einp. cbn [transform_loop]. rewrite <- Einp. rewrite E, E2.
    split; [reflexivity|].
    rewrite app_length, L, L2, firstn_length, skipn_length. lia.
Qed.

Lemma transform_roundtrip : forall fuel1 idx data P fuel2,
  (length data <= fuel1)%nat -> (length data + length P <= fuel2)%nat ->
  exists out idx1 pt idx2,
    transform_loop H fuel1 key initCtr kl idx data = Ok (out, idx1) /\
    length out = length data /\
    transform_loop H fuel2 key initCtr kl idx (out ++ P) = Ok (pt, idx2) /\
    length pt = (length data + length P)%nat /\
    firstn (length data) pt = data.
Proof.
  induction fuel1 as [|f IH]; intros idx data P fuel2 Hf1 Hf2.
  - destruct data; [|cbn in Hf1; lia].
    destruct (transform_loop_total fuel2 idx P) as (pt & idx2 & E & L); [cbn in Hf2; lia|].
    exists [], idx, pt, idx2. cbn. auto.
  - destruct data as [|d ds].
    { destruct (transform_loop_total fuel2 idx P) as (pt & idx2 & E & L); [cbn in Hf2; lia|].
      exists [], idx, pt, idx2. cbn. auto. }
    remember (d :: ds) as data eqn:Edata.
    assert (Hne : (1 <= length data)%nat) by (subst data; cbn; lia).
    remember (seg_key H key (ctr_of idx initCtr)) as K eqn:EK.
    assert (HK : (kl <= length K)%nat) by (subst K; apply seg_key_len).
    destruct (xor_seg_ok (firstn kl data) K) as (t & Et & Lt & Et2).
    { rewrite firstn_length. lia. }
    destruct fuel2 as [|f2]; [lia|].
    destruct (Nat.le_gt_cases kl (length data)) as [Hge|Hlt].
    + (* a whole segment *)
      assert (Ltk : length t = kl) by (rewrite Lt, firstn_length; lia).
      destruct (IH (idx + 1)%Z (skipn kl data) P f2) as (out' & idx1 & pt' & idx2 & E1 & L1 & E2 & L2 & F2).
      { rewrite skipn_length. lia. }
      { rewrite skipn_length. lia. }
      exists (t ++ out'), idx1, (firstn kl data ++ pt'), idx2.
      split; [|split; [|split; [|split]]].
      * rewrite Edata. cbn [transform_loop]. rewrite <- Edata, <- EK, Et, E1. reflexivity.
      * rewrite app_length, L1, Lt, firstn_length, skipn_length. lia.
      * assert (Hnn : exists y ys, (t ++ out') ++ P = y :: ys).
        { destruct t as [|y ys]; [cbn in Ltk; lia|]. cbn. eauto. }
        destruct Hnn as (y & ys & Eyy).
        rewrite Eyy. cbn [transform_loop]. rewrite <- Eyy.
        rewrite <- app_assoc.
        rewrite firstn_app, skipn_app.
        rewrite (firstn_all2 t) by lia. rewrite (skipn_all2 t) by lia.
        replace (kl - length t)%nat with O by lia.
        cbn [firstn skipn app]. rewrite app_nil_r.
        rewrite <- EK, Et2, E2. reflexivity.
      * rewrite app_length, L2, firstn_length, skipn_length. lia.
      * rewrite firstn_app, firstn_length.
        replace (Nat.min kl (length data)) with kl by lia.
        rewrite firstn_firstn. replace (Nat.min (length data) kl) with kl by lia.
        replace (length data - kl)%nat with (length (skipn kl data)) by (rewrite skipn_length; lia).
        rewrite F2. apply firstn_skipn.
    + (* the last, partial segment: decrypted as part of a longer one *)
      assert (Efd : firstn kl data = data) by (apply firstn_all2; lia).
      assert (Esd : skipn kl data = []) by (apply skipn_all2; lia).
      rewrite Efd in *.
      destruct (xor_seg_app_prefix data t (firstn (kl - length t) P) K Et) as (rb & Erb & Lrb).
      { rewrite firstn_length. lia. }
      destruct (transform_loop_total f2 (idx + 1)%Z (skipn (kl - length t) P)) as (pt2 & idx2 & E2 & L2).
      { rewrite skipn_length. lia. }
      exists t, (idx + 1)%Z, ((data ++ rb) ++ pt2), idx2.
      split; [|split; [|split; [|split]]].
      * rewrite Edata. cbn [transform_loop]. rewrite <- Edata, <- EK, Efd, Et, Esd.
        destruct f; cbn [transform_loop]; rewrite app_nil_r; reflexivity.
      * exact Lt.
      * assert (Hnn : exists y ys, t ++ P = y :: ys).
        { destruct t as [|y ys]; [cbn in Lt; lia|]. cbn. eauto. }
        destruct Hnn as (y & ys & Eyy).
        rewrite Eyy. cbn [transform_loop]. rewrite <- Eyy.
        rewrite firstn_app, skipn_app.
        rewrite (firstn_all2 t) by lia. rewrite (skipn_all2 t) by lia.
        cbn [app]. rewrite <- EK, Erb, E2. reflexivity.
      * rewrite !app_length, Lrb, L2, firstn_length, skipn_length. lia.
      * rewrite <- app_assoc. rewrite firstn_app.
        rewrite firstn_all. replace (length data - length data)%nat with O by lia.
        cbn [firstn]. apply app_nil_r.
Qed.

End Enc.

(** ------------------------------------------------------------------ *)
(** Encrypt / Decrypt of one object *)

Section Obj.
Variable H : list N -> list N.
Variable e : enc.
Hypothesis Hkl : (0 < length (e_key e))%nat.
Hypothesis Hdigest : forall x, (length (e_key e) <= length (H x))%nat.

Definition out_len (e : enc) (n : nat) : nat :=
  if (0 <? e_padding e)%Z then Z.to_nat (e_padding e) else n.

Lemma pad_bytes_length pad n : length (pad_bytes pad n) = n.
Proof. unfold pad_bytes. rewrite map_length, seq_length. reflexivity. Qed.

(** invertible for every payload that fits, every counter state, every padding oracle *)
Lemma enc_roundtrip data pad :
  ((e_padding e <= 0) \/ (Z.of_nat (length data) <= e_padding e))%Z ->
  exists ct e1,
    encrypt H e data pad = Ok (ct, e1) /\
    length ct = out_len e (length data) /\
    exists pt e2,
      decrypt H e ct = Ok (pt, e2) /\ length pt = length ct /\ firstn (length data) pt = data.
Proof.
  intros Hfit.
  remember (pad_bytes pad (Z.to_nat ((if (0 <? e_padding e)%Z then e_padding e else Z.of_nat (length data)) - Z.of_nat (length data)))) as P eqn:EP.
  destruct (transform_roundtrip H (e_key e) (e_initCtr e) Hkl Hdigest (length data) (e_index e) data P (length data + length P))
    as (out & idx1 & pt & idx2 & E1 & L1 & E2 & L2 & F); [lia|lia|].
  assert (LP : length P = (out_len e (length data) - length data)%nat).
  { subst P. rewrite pad_bytes_length. unfold out_len. destruct (0 <? e_padding e)%Z eqn:Ep; lia. }
  assert (Hol : (length data <= out_len e (length data))%nat).
  { unfold out_len. destruct (Z.ltb_spec 0 (e_padding e)); lia. }
  exists (out ++ P), (set_index e idx1).
  split; [|split].
  - unfold encrypt.
    replace ((0 <? e_padding e)%Z && (e_padding e <? Z.of_nat (length data))%Z) with false.
    2:{ symmetry. apply andb_false_iff. destruct Hfit; [left|right]; lia. }
    unfold transform. rewrite E1. rewrite <- EP. reflexivity.
  - rewrite app_length, L1, LP. lia.
  - exists pt, (set_index e idx2). split; [|split].
    + unfold decrypt.
      replace ((0 <? e_padding e)%Z && negb (Z.of_nat (length (out ++ P)) =? e_padding e)%Z) with false.
      2:{ symmetry. apply andb_false_iff. destruct (Z.ltb_spec 0 (e_padding e)) as [Hp|Hp]; [right|left; reflexivity].
          apply negb_false_iff, Z.eqb_eq. rewrite app_length, L1, LP.
          unfold out_len. destruct (Z.ltb_spec 0 (e_padding e)); lia. }
      unfold transform. rewrite app_length, L1. rewrite E2. reflexivity.
    + rewrite L2, app_length, L1. reflexivity.
    + exact F.
Qed.

(** a payload longer than the padding is rejected *)
Lemma enc_too_long data pad :
  (0 < e_padding e < Z.of_nat (length data))%Z -> encrypt H e data pad = Err.
Proof.
  intros Hp. unfold encrypt.
  replace ((0 <? e_padding e)%Z && (e_padding e <? Z.of_nat (length data))%Z) with true; [reflexivity|].
  symmetry. apply andb_true_iff. lia.
Qed.

(** Decrypt never panics or hangs under the same hypotheses *)
Lemma dec_total data :
  exists r, decrypt H e data = r /\ r <> Panic /\ r <> Hang.
Proof.
  unfold decrypt.
  destruct ((0 <? e_padding e)%Z && negb (Z.of_nat (length data) =? e_padding e)%Z).
  - exists Err. repeat split; discriminate.
  - unfold transform.
    destruct (transform_loop_total H (e_key e) (e_initCtr e) Hkl Hdigest (length data) (e_index e) data (le_n _)) as (out & idx' & E & _).
    rewrite E. eexists. split; [reflexivity|]. split; discriminate.
Qed.

End Obj.

(** ------------------------------------------------------------------ *)
(** chunk level: EncryptChunk + pipeline writer, then decryptChunkData *)

Lemma le_bytes_decode : forall n x, x < 256 ^ N.of_nat n -> le_decode (le_bytes n x) = x.
Proof.
  induction n as [|n IH]; intros x Hx.
  - cbn in *. lia.
  - cbn [le_bytes le_decode].
    replace (N.of_nat (S n)) with (N.succ (N.of_nat n)) in Hx by lia.
    rewrite N.pow_succ_r' in Hx.
    rewrite IH.
    + pose proof (N.div_mod x 256 ltac:(lia)). lia.
    + apply N.div_lt_upper_bound; lia.
Qed.

Lemma le64_decode x : x < W64 -> le_decode (le64 x) = x.
Proof. intros Hx. apply le_bytes_decode. exact Hx. Qed.

Lemma le_bytes_length n x : length (le_bytes n x) = n.
Proof. revert x. induction n; intros; cbn; auto. Qed.

Section Chunk.
Variable H : list N -> list N.
Variables chunk refsize : N.
Variable key : list N.
Hypothesis Hkl : (0 < length key)%nat.
Hypothesis Hdigest : forall x, (length key <= length (H x))%nat.

(** the stored form always has 8 + ChunkSize bytes, and the decrypting store
    gives back span ++ payload exactly, whenever the length-recovery loop
    yields the payload length *)
Lemma chunk_roundtrip span payload pad :
  length span = 8%nat -> N.of_nat (length payload) <= chunk ->
  recover chunk refsize (le_decode span) = Some (N.of_nat (length payload)) ->
  exists stored,
    encrypt_chunk_stored H chunk refsize key (span ++ payload) pad = Ok stored /\
    length stored = (8 + N.to_nat chunk)%nat /\
    decrypt_chunk_data H chunk refsize stored key = Ok (span ++ payload).
Proof.
  intros Hs Hp Hrec.
  assert (F8 : firstn 8 (span ++ payload) = span).
  { rewrite firstn_app, firstn_all2 by lia. replace (8 - length span)%nat with O by lia. cbn. apply app_nil_r. }
  assert (S8 : skipn 8 (span ++ payload) = payload).
  { rewrite skipn_app, skipn_all2 by lia. replace (8 - length span)%nat with O by lia. reflexivity. }
  destruct (enc_roundtrip H (span_enc chunk refsize key) Hkl Hdigest span pad) as (es & e1 & Ees & Les & ps & e2 & Dps & Lps & Fps).
  { left. cbn. lia. }
  destruct (enc_roundtrip H (data_enc chunk key) Hkl Hdigest payload pad) as (ed & e3 & Eed & Led & pd & e4 & Dpd & Lpd & Fpd).
  { right. cbn. lia. }
  assert (Les8 : length es = 8%nat) by (rewrite Les; unfold out_len; cbn; exact Hs).
  assert (Ledc : length ed = N.to_nat chunk).
  { rewrite Led. unfold out_len. cbn [data_enc e_padding].
    destruct (Z.ltb_spec 0 (Z.of_N chunk)); lia. }
  assert (Eps : ps = span).
  { rewrite <- Fps. symmetry. apply firstn_all2. lia. }
  subst ps.
  exists (es ++ ed). split; [|split].
  - unfold encrypt_chunk_stored, encrypt_chunk.
    replace (Nat.ltb (length (span ++ payload)) 8) with false
      by (symmetry; apply Nat.ltb_ge; rewrite app_length; lia).
    rewrite F8, S8, Ees, Eed. reflexivity.
  - rewrite app_length. lia.
  - unfold decrypt_chunk_data.
    replace (Nat.ltb (length (es ++ ed)) 8) with false
      by (symmetry; apply Nat.ltb_ge; rewrite app_length; lia).
    assert (F8' : firstn 8 (es ++ ed) = es).
    { rewrite firstn_app, firstn_all2 by lia. replace (8 - length es)%nat with O by lia. cbn. apply app_nil_r. }
    assert (S8' : skipn 8 (es ++ ed) = ed).
    { rewrite skipn_app, skipn_all2 by lia. replace (8 - length es)%nat with O by lia. reflexivity. }
    rewrite F8', S8', Dps, Dpd.
    unfold strip_padding. rewrite Hrec.
    replace (N.of_nat (length pd) <? N.of_nat (length payload)) with false
      by (symmetry; apply N.ltb_ge; lia).
    rewrite Nat2N.id, Fpd. reflexivity.
Qed.

End Chunk.
