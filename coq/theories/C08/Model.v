(** C08 — model of pkg/encryption/encryption.go, pkg/encryption/chunk_encryption.go,
    pkg/encryption/store/decrypt_store.go and of the level bookkeeping of
    pkg/file/pipeline/hashtrie/hashtrie.go (which spans / how many references the
    writer stores per intermediate chunk).  Definitions only; proofs in Proofs*.v.

    Bytes are [N].  The hash is a parameter [H] of every function that uses it
    (the Go code receives it as [hashFunc]).  Go's fixed-width arithmetic is
    written out: [uint32(i)+initCtr], and the [uint64] length-recovery loop.
    Outcomes are explicit: [Err] (a returned error), [Panic] (run-time panic),
    [Hang] (a loop that never exits). *)
From Coq Require Import List NArith ZArith Bool.
Import ListNotations.
Local Open Scope N_scope.

Inductive res (A : Type) : Type := Ok (a : A) | Err | Panic | Hang.
Arguments Ok {A} a.
Arguments Err {A}.
Arguments Panic {A}.
Arguments Hang {A}.

Definition W32 : N := 4294967296.
Definition W64 : N := 18446744073709551616.
Definition u32 (x : N) : N := x mod W32.
Definition u64 (x : N) : N := x mod W64.
(** [uint32(i)] of a Go [int] *)
Definition u32z (i : Z) : N := Z.to_N (i mod 4294967296)%Z.

Fixpoint le_bytes (n : nat) (x : N) : list N :=
  match n with O => [] | S k => x mod 256 :: le_bytes k (x / 256) end.
Definition le32 (x : N) : list N := le_bytes 4 x.
Definition le64 (x : N) : list N := le_bytes 8 x.
(** binary.LittleEndian.Uint64 (on the bytes given) *)
Fixpoint le_decode (l : list N) : N :=
  match l with [] => 0 | b :: t => b + 256 * le_decode t end.

(** ------------------------------------------------------------------ *)
(** * encryption.go *)

Record enc := mkEnc {
  e_key : list N;       (* key; keyLen = len(key) *)
  e_padding : Z;        (* int; > 0 means fixed padding *)
  e_initCtr : N;        (* uint32 *)
  e_index : Z           (* int, counter index; survives calls until Reset *)
}.

Definition set_index (e : enc) (i : Z) : enc := mkEnc (e_key e) (e_padding e) (e_initCtr e) i.
Definition reset (e : enc) : enc := set_index e 0%Z.

(** [uint32(i)+e.initCtr] *)
Definition ctr_of (i : Z) (initCtr : N) : N := u32 (u32z i + initCtr).

Section WithHash.
Variable H : list N -> list N.

(** two rounds of hashing: H(H(key ++ le32 ctr)) *)
Definition seg_key (key : list N) (ctr : N) : list N := H (H (key ++ le32 ctr)).

(** [for j := 0; j < len(in); j++ { out[j] = in[j] ^ segmentKey[j] }];
    an index beyond the digest is a run-time panic *)
Fixpoint xor_seg (inp sk : list N) : res (list N) :=
  match inp with
  | [] => Ok []
  | x :: inp' =>
      match sk with
      | [] => Panic
      | k :: sk' =>
          match xor_seg inp' sk' with
          | Ok r => Ok (N.lxor x k :: r)
          | Err => Err | Panic => Panic | Hang => Hang
          end
      end
  end.

(** padding bytes come from crypto/rand: an oracle [pad : position -> byte] *)
Definition pad_bytes (pad : nat -> N) (n : nat) : list N := map pad (seq 0 n).

(** exported [Transcrypt(i, in, out)] with [len(out) = outlen] *)
Definition transcrypt (key : list N) (initCtr : N) (i : Z) (inp : list N) (outlen : nat) (pad : nat -> N)
  : res (list N) :=
  match xor_seg inp (seg_key key (ctr_of i initCtr)) with
  | Ok r => if Nat.ltb outlen (length inp) then Panic else Ok (r ++ pad_bytes pad (outlen - length inp))
  | Err => Err | Panic => Panic | Hang => Hang
  end.

(** [transform]: [for i := 0; i < inLength; i += keyLen] — with keyLen = 0 and a
    non-empty input the loop never advances; [fuel] = number of iterations
    allowed ([length inp] suffices when keyLen > 0), running out is [Hang]. *)
Fixpoint transform_loop (fuel : nat) (key : list N) (initCtr : N) (kl : nat) (idx : Z) (inp : list N)
  : res (list N * Z) :=
  match inp with
  | [] => Ok ([], idx)
  | _ :: _ =>
      match fuel with
      | O => Hang
      | S f =>
          match xor_seg (firstn kl inp) (seg_key key (ctr_of idx initCtr)) with
          | Ok r =>
              match transform_loop f key initCtr kl (idx + 1)%Z (skipn kl inp) with
              | Ok (rest, idx') => Ok (r ++ rest, idx')
              | Err => Err | Panic => Panic | Hang => Hang
              end
          | Err => Err | Panic => Panic | Hang => Hang
          end
      end
  end.

Definition transform (e : enc) (inp : list N) : res (list N * Z) :=
  transform_loop (length inp) (e_key e) (e_initCtr e) (length (e_key e)) (e_index e) inp.

Definition encrypt (e : enc) (data : list N) (pad : nat -> N) : res (list N * enc) :=
  let len := Z.of_nat (length data) in
  let fixed := (0 <? e_padding e)%Z in
  if fixed && (e_padding e <? len)%Z then Err
  else
    let outlen := if fixed then e_padding e else len in
    match transform e data with
    | Ok (out, idx') => Ok (out ++ pad_bytes pad (Z.to_nat (outlen - len)), set_index e idx')
    | Err => Err | Panic => Panic | Hang => Hang
    end.

Definition decrypt (e : enc) (data : list N) : res (list N * enc) :=
  let len := Z.of_nat (length data) in
  if (0 <? e_padding e)%Z && negb (len =? e_padding e)%Z then Err
  else
    match transform e data with
    | Ok (out, idx') => Ok (out, set_index e idx')
    | Err => Err | Panic => Panic | Hang => Hang
    end.

(** ------------------------------------------------------------------ *)
(** * chunk_encryption.go / decrypt_store.go, parametric in chunk size and reference size *)

Variable chunk : N.     (* boson.ChunkSize *)
Variable refsize : N.   (* boson.HashSize + encryption.KeyLength *)

Definition span_enc (key : list N) : enc := mkEnc key 0 (u32 (chunk / refsize)) 0.
Definition data_enc (key : list N) : enc := mkEnc key (Z.of_N chunk) 0 0.

(** EncryptChunk(chunkData) with the generated key passed in; returns (encryptedSpan, encryptedData) *)
Definition encrypt_chunk (key : list N) (chunkData : list N) (pad : nat -> N) : res (list N * list N) :=
  if Nat.ltb (length chunkData) 8 then Panic
  else
    match encrypt (span_enc key) (firstn 8 chunkData) pad with
    | Ok (es, _) =>
        match encrypt (data_enc key) (skipn 8 chunkData) pad with
        | Ok (ed, _) => Ok (es, ed)
        | Err => Err | Panic => Panic | Hang => Hang
        end
    | Err => Err | Panic => Panic | Hang => Hang
    end.

(** what the encrypting pipeline writer stores: span ++ data (pkg/file/pipeline/encryption) *)
Definition encrypt_chunk_stored (key chunkData : list N) (pad : nat -> N) : res (list N) :=
  match encrypt_chunk key chunkData pad with
  | Ok (es, ed) => Ok (es ++ ed)
  | Err => Err | Panic => Panic | Hang => Hang
  end.

End WithHash.

(** the length-recovery loop of decryptChunkData on uint64:
      for length > ChunkSize { length += ChunkSize-1; length /= ChunkSize; length *= refSize }
    returns the final length and the number of iterations; [None] = out of fuel *)
Definition recover_step (chunk refsize x : N) : N :=
  u64 (u64 (x + (chunk - 1)) / chunk * refsize).

Fixpoint recover_loop (fuel : nat) (chunk refsize x : N) : option (N * nat) :=
  if chunk <? x then
    match fuel with
    | O => None
    | S f =>
        match recover_loop f chunk refsize (recover_step chunk refsize x) with
        | Some (r, k) => Some (r, S k)
        | None => None
        end
    end
  else Some (x, O).

Definition loop_fuel : nat := 64.
Definition recover (chunk refsize x : N) : option N :=
  option_map fst (recover_loop loop_fuel chunk refsize x).

Section Store.
Variable H : list N -> list N.
Variable chunk refsize : N.

(** the part of decryptChunkData after the two Decrypt calls *)
Definition strip_padding (dspan ddata : list N) : res (list N) :=
  match recover chunk refsize (le_decode dspan) with
  | None => Hang
  | Some len =>
      (* make([]byte, length+8); copy(c[8:], decryptedData[:length]) *)
      if N.of_nat (length ddata) <? len then Panic
      else Ok (dspan ++ firstn (N.to_nat len) ddata)
  end.

Definition decrypt_chunk_data (chunkData key : list N) : res (list N) :=
  if Nat.ltb (length chunkData) 8 then Panic   (* chunkData[8:] *)
  else
    match decrypt H (span_enc chunk refsize key) (firstn 8 chunkData) with
    | Ok (dspan, _) =>
        match decrypt H (data_enc chunk key) (skipn 8 chunkData) with
        | Ok (ddata, _) => strip_padding dspan ddata
        | Err => Err | Panic => Panic | Hang => Hang
        end
    | Err => Err | Panic => Panic | Hang => Hang
    end.

(** decryptingStore.Get: [stored] is the result of the wrapped getter for the
    first [hashsize] bytes of the reference ([None] = its error) *)
Definition store_get (hashsize : nat) (ref : list N) (getter : list N -> option (list N)) : res (list N) :=
  if Nat.eqb (length ref) hashsize then
    match getter ref with Some d => Ok d | None => Err end
  else if Nat.eqb (length ref) (N.to_nat refsize) then
    match getter (firstn hashsize ref) with
    | Some d => decrypt_chunk_data d (skipn hashsize ref)
    | None => Err
    end
  else Err.
End Store.

(** ------------------------------------------------------------------ *)
(** * hashtrie.go — level bookkeeping (spans only)

    A level is the list of the spans of the references it currently holds
    (level 1 first).  [emit] collects, for every intermediate chunk handed to
    the short pipeline, its span and its number of references (the stored
    payload is [refsize * refs] bytes before the encryption writer pads it). *)

Record trie := mkTrie {
  t_levels : list (list N);     (* 8 levels *)
  t_full : bool;
  t_emit : list (N * N)         (* (span, number of references), in order of creation *)
}.

Definition trie_init : trie := mkTrie (repeat [] 8) false [].

Definition sum64 (l : list N) : N := fold_left (fun a s => u64 (a + s)) l 0.

(** What comes back from the short pipeline (encryption -> bmt -> store, or
    bmt -> store) for a wrapped level: [PipeWriteArgs.Span] is the plaintext
    span the writer put in; [PipeWriteArgs.Data[:8]] has been PROCESSED by the
    stages — in the encrypted pipeline it is the ciphertext of the span.
    [proc] is that processing seen as a function on the span value (identity
    in the plain pipeline).  wrapFullLevel forwards [args.Span] to the parent
    level: [sel = p_span].  The functions are parametric in [sel] so that the
    dependence is explicit (see [C08_span_must_be_plaintext]). *)
Record pargs := mkPargs { p_span : N; p_data8 : N }.
Definition short_pipeline (proc : N -> N) (s : N) : pargs := mkPargs s (proc s).

Section TrieWriter.
Variable sel : pargs -> N.
Variable proc : N -> N.


(** writeToLevel on the levels from the written one upwards; [lvl] is the
    number of the first level of [ls].  Returns the new levels, the chunks
    emitted, and whether the trie became full (a wrap into level 8).
    Level 9 does not exist: wrapping level 8 indexes cursors[9] -> panic. *)
Fixpoint write_levels (branching : nat) (lvl : nat) (ls : list (list N)) (sp : N)
  : res (list (list N) * list (N * N) * bool) :=
  match ls with
  | [] => Panic
  | l :: up =>
      let l' := l ++ [sp] in
      if Nat.eqb (length l') branching then
        let s := sum64 l' in
        match write_levels branching (S lvl) up (sel (short_pipeline proc s)) with
        | Ok (up', em, fl) => Ok ([] :: up', (s, N.of_nat (length l')) :: em, fl || Nat.eqb (S lvl) 8)
        | Err => Err | Panic => Panic | Hang => Hang
        end
      else Ok (l' :: up, [], false)
  end.

(** ChainWrite of one (span, ref, key) triple *)
Definition trie_write (branching : nat) (t : trie) (sp : N) : res trie :=
  if t_full t then Err
  else
    match write_levels branching 1 (t_levels t) sp with
    | Ok (ls, em, fl) => Ok (mkTrie ls (t_full t || fl) (t_emit t ++ em))
    | Err => Err | Panic => Panic | Hang => Hang
    end.

(** wrapFullLevel(lvl) called from Sum on level contents [l] with the levels
    above [up]; returns the new upper levels (the level itself becomes empty) *)
Definition wrap_level (branching lvl : nat) (l : list N) (up : list (list N))
  : res (list (list N) * list (N * N) * bool) :=
  let s := sum64 l in
  match write_levels branching (S lvl) up (sel (short_pipeline proc s)) with
  | Ok (up', em, fl) => Ok (up', (s, N.of_nat (length l)) :: em, fl || Nat.eqb (S lvl) 8)
  | Err => Err | Panic => Panic | Hang => Hang
  end.

(** what Sum does with level [lvl] holding [l]: nothing (empty), carry-over of
    a single reference ([cursors[i+1] = cursors[i]]: the level's data is
    appended to the next level's), or wrap.  [l == fullChunk] is tested before
    [l == oneRef]. *)
Definition sum_action (branching lvl : nat) (l : list N) (up : list (list N))
  : res (list (list N) * list (N * N) * bool) :=
  match length l with
  | O => Ok (up, [], false)
  | 1%nat =>
      if Nat.eqb branching 1 then wrap_level branching lvl l up
      else match up with
           | nxt :: up' => Ok ((nxt ++ l) :: up', [], false)
           | [] => Panic
           end
  | _ => wrap_level branching lvl l up
  end.

(** the loop of Sum, [n] levels still to visit; [ls] starts at level [lvl] *)
Fixpoint sum_levels (n : nat) (branching lvl : nat) (ls : list (list N)) {struct n}
  : res (list (list N) * list (N * N) * bool) :=
  match n with
  | O => Ok (ls, [], false)
  | S n' =>
      match ls with
      | [] => Panic
      | l :: up =>
          match sum_action branching lvl l up with
          | Ok (up1, em, fl) =>
              match sum_levels n' branching (S lvl) up1 with
              | Ok (up2, em2, fl2) => Ok ([] :: up2, em ++ em2, fl || fl2)
              | Err => Err | Panic => Panic | Hang => Hang
              end
          | Err => Err | Panic => Panic | Hang => Hang
          end
      end
  end.

(** Sum: returns the span of the root reference (level 8 must hold exactly one) *)
Definition trie_sum (branching : nat) (t : trie) : res (N * trie) :=
  match sum_levels 7 branching 1 (t_levels t) with
  | Ok (ls, em, fl) =>
      match last ls [] with
      | [root] => Ok (root, mkTrie ls (t_full t || fl) (t_emit t ++ em))
      | _ => Err
      end
  | Err => Err | Panic => Panic | Hang => Hang
  end.

(** feed a list of leaf spans then Sum *)
Fixpoint trie_feed (branching : nat) (t : trie) (spans : list N) : res trie :=
  match spans with
  | [] => Ok t
  | s :: r =>
      match trie_write branching t s with
      | Ok t' => trie_feed branching t' r
      | Err => Err | Panic => Panic | Hang => Hang
      end
  end.

Definition trie_run (branching : nat) (spans : list N) : res (N * list (N * N)) :=
  match trie_feed branching trie_init spans with
  | Ok t =>
      match trie_sum branching t with
      | Ok (root, t') => Ok (root, t_emit t')
      | Err => Err | Panic => Panic | Hang => Hang
      end
  | Err => Err | Panic => Panic | Hang => Hang
  end.

End TrieWriter.

(** the leaf spans the feeder produces for a file of [size] bytes:
    full chunks then the remainder; the empty file is one chunk of span 0 *)
Definition leaf_spans (chunk size : N) : list N :=
  let q := size / chunk in
  let r := size mod chunk in
  repeat chunk (N.to_nat q) ++ (if (r =? 0) && negb (size =? 0) then [] else [r]).

(** ------------------------------------------------------------------ *)
(** * tree-shape arithmetic (specification side, independent of the writer) *)

Definition cdiv (n d : N) : N := (n + d - 1) / d.

(** number of chunks on each level of a left-full [branching]-ary tree over
    [n] leaves: n, ceil(n/b), ceil(n/b^2), ... down to 1 *)
Fixpoint level_counts (fuel : nat) (branching n : N) : list N :=
  match fuel with
  | O => [n]
  | S f => if n <=? 1 then [n] else n :: level_counts f branching (cdiv n branching)
  end.

(** references held by the root = the count on the level just below the root *)
Fixpoint penultimate (l : list N) : option N :=
  match l with
  | [] => None
  | [x] => None
  | [x; y] => Some x
  | x :: t => penultimate t
  end.

Definition root_refs (chunk branching size : N) : option N :=
  penultimate (level_counts 64 branching (cdiv size chunk)).

(** closed form: height h = least h with size <= chunk * b^h; root holds ceil(size / (chunk*b^(h-1))) *)
Fixpoint height_from (fuel : nat) (branching cap size : N) : nat :=
  match fuel with
  | O => O
  | S f => if size <=? cap then O else S (height_from f branching (cap * branching) size)
  end.
Definition height (chunk branching size : N) : nat := height_from 64 branching chunk size.
Definition root_refs_closed (chunk branching size : N) : N :=
  cdiv size (chunk * branching ^ N.of_nat (height chunk branching size - 1)).
