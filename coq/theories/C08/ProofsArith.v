(** C08 — arithmetic of the length-recovery loop of decryptChunkData, for all
    uint64 inputs, parametric in chunk = refsize * branching. *)
From Coq Require Import List NArith ZArith Bool Lia.
From Coq Require Import ZifyBool ZifyNat ZifyN.
Import ListNotations.
Require Import Aurora.C08.Model.
Local Open Scope N_scope.

Lemma W64_val : W64 = 18446744073709551616. Proof. reflexivity. Qed.
Global Opaque W64.

Lemma cdiv_pred n d : 0 < d -> 1 <= n -> cdiv n d = (n - 1) / d + 1.
Proof.
  intros Hd Hn. unfold cdiv.
  replace (n + d - 1) with ((n - 1) + 1 * d) by lia.
  rewrite N.div_add by lia. reflexivity.
Qed.

Lemma cdiv_small n d : 1 <= n -> n <= d -> cdiv n d = 1.
Proof.
  intros Hn Hd. rewrite cdiv_pred by lia. rewrite N.div_small by lia. reflexivity.
Qed.

Lemma cdiv_ge2 n d : 0 < d -> d < n -> 2 <= cdiv n d.
Proof.
  intros Hd Hn. rewrite cdiv_pred by lia.
  assert (1 <= (n - 1) / d); [|lia].
  apply N.div_le_lower_bound; lia.
Qed.

Lemma cdiv_le n d : 0 < d -> 1 <= n -> cdiv n d <= n.
Proof.
  intros Hd Hn. rewrite cdiv_pred by lia.
  assert ((n - 1) / d <= n - 1); [|lia].
  apply N.div_le_upper_bound; nia.
Qed.

Lemma cdiv_scale r m b : 0 < r -> 0 < b -> cdiv (r * m) (r * b) = cdiv m b.
Proof.
  intros Hr Hb. unfold cdiv.
  assert (exists b', b = b' + 1) as [b' ->] by (exists (b - 1); lia).
  assert (exists r', r = r' + 1) as [r' ->] by (exists (r - 1); lia).
  rewrite <- N.div_div by lia.
  f_equal.
  replace ((r' + 1) * m + (r' + 1) * (b' + 1) - 1) with (r' + (m + b') * (r' + 1)) by nia.
  rewrite N.div_add by lia. rewrite N.div_small by lia. lia.
Qed.

(** ceil(ceil(n/a)/b) = ceil(n/(a*b)) *)
Lemma cdiv_cdiv n a b : 0 < a -> 0 < b -> cdiv (cdiv n a) b = cdiv n (a * b).
Proof.
  intros Ha Hb.
  destruct (N.eq_dec n 0) as [->|Hn].
  - unfold cdiv. cbn [N.add].
    rewrite (N.div_small (a - 1) a) by lia. cbn [N.add].
    rewrite !N.div_small by nia. reflexivity.
  - rewrite (cdiv_pred n a) by lia. rewrite (cdiv_pred n (a * b)) by nia.
    rewrite (cdiv_pred ((n - 1) / a + 1) b Hb (N.le_add_l 1 ((n - 1) / a))).
    rewrite N.add_sub.
    rewrite N.div_div by lia. reflexivity.
Qed.

Section Arith.
Variables chunk branching refsize : N.
Hypothesis Hchunk : chunk = refsize * branching.
Hypothesis Hb : 2 <= branching.
Hypothesis Hrs : 1 <= refsize.
Hypothesis Hcw : 2 * chunk <= W64.

Lemma u64_small x : x < W64 -> u64 x = x.
Proof. intros; unfold u64; apply N.mod_small; assumption. Qed.

(** one iteration without wrap-around *)
Lemma recover_step_nowrap x :
  chunk < x -> x + chunk <= W64 ->
  recover_step chunk refsize x = refsize * cdiv x chunk /\ refsize * cdiv x chunk <= x - 1.
Proof.
  intros Hx Hw.
  assert (Hc2 : 2 * refsize <= chunk) by nia.
  assert (Hbound : refsize * cdiv x chunk <= x - 1).
  { rewrite cdiv_pred by lia.
    remember ((x - 1) / chunk) as q eqn:Eq.
    assert (Hq : chunk * q <= x - 1) by (subst q; apply N.mul_div_le; lia).
    nia. }
  split; [|exact Hbound].
  unfold recover_step.
  rewrite (u64_small (x + (chunk - 1))) by lia.
  replace (x + (chunk - 1)) with (x + chunk - 1) by lia.
  fold (cdiv x chunk).
  rewrite u64_small by lia. lia.
Qed.

(** one iteration in the wrap-around region: the sum overflows, the quotient is 0 *)
Lemma recover_step_wrap x :
  x < W64 -> W64 < x + chunk -> recover_step chunk refsize x = 0.
Proof.
  intros Hx Hw. unfold recover_step.
  assert (E : u64 (x + (chunk - 1)) = x + (chunk - 1) - W64).
  { unfold u64. symmetry. apply (N.mod_unique _ _ 1); lia. }
  rewrite E. rewrite N.div_small by lia. reflexivity.
Qed.

Lemma recover_loop_S f x :
  recover_loop (S f) chunk refsize x =
  if chunk <? x then
    match recover_loop f chunk refsize (recover_step chunk refsize x) with
    | Some (r, k) => Some (r, S k)
    | None => None
    end
  else Some (x, O).
Proof. reflexivity. Qed.

Lemma level_counts_one f : level_counts f branching 1 = [1].
Proof. destruct f; reflexivity. Qed.

(** the loop started on [refsize * m] (m chunks on the level below) walks up
    the level counts of the tree and stops at the count below the root *)
Lemma recover_loop_counts : forall (f : nat) (m : N),
  2 <= m -> m <= 2 ^ N.of_nat f -> refsize * m + chunk <= W64 ->
  exists r k,
    recover_loop f chunk refsize (refsize * m) = Some (refsize * r, k) /\
    penultimate (level_counts (S f) branching m) = Some r /\
    2 <= r <= branching /\ (k <= f)%nat.
Proof.
  induction f as [|f IH]; intros m Hm Hf Hw.
  - cbn in Hf. lia.
  - destruct (N.leb_spec m branching) as [Hle|Hgt].
    + exists m, O.
      assert (Hlt : (chunk <? refsize * m) = false) by (apply N.ltb_ge; nia).
      split; [|split; [|split]].
      * cbn [recover_loop]. rewrite Hlt. reflexivity.
      * change (level_counts (S (S f)) branching m)
          with (if m <=? 1 then [m] else m :: level_counts (S f) branching (cdiv m branching)).
        destruct (N.leb_spec m 1); [lia|].
        rewrite cdiv_small by lia. rewrite level_counts_one. reflexivity.
      * lia.
      * lia.
    + assert (Hx : chunk < refsize * m) by nia.
      destruct (recover_step_nowrap (refsize * m) Hx Hw) as [Est Hbd].
      rewrite Hchunk in Est at 2. rewrite cdiv_scale in Est by lia.
      remember (cdiv m branching) as m' eqn:Em'.
      assert (Hm'2 : 2 <= m') by (subst m'; apply cdiv_ge2; lia).
      assert (Hm'le : m' <= m) by (subst m'; apply cdiv_le; lia).
      assert (Hm'f : m' <= 2 ^ N.of_nat f).
      { subst m'. rewrite cdiv_pred by lia.
        assert ((m - 1) / branching < 2 ^ N.of_nat f); [|lia].
        apply N.div_lt_upper_bound; [lia|].
        replace (N.of_nat (S f)) with (N.succ (N.of_nat f)) in Hf by lia.
        rewrite N.pow_succ_r' in Hf. nia. }
      destruct (IH m' Hm'2 Hm'f ltac:(nia)) as (r & k & Hl & Hp & Hr & Hk).
      exists r, (S k).
      assert (Hlt : (chunk <? refsize * m) = true) by (apply N.ltb_lt; lia).
      split; [|split; [|split]].
      * cbn [recover_loop]. rewrite Hlt, Est, Hl. reflexivity.
      * change (level_counts (S (S f)) branching m)
          with (if m <=? 1 then [m] else m :: level_counts (S f) branching (cdiv m branching)).
        destruct (N.leb_spec m 1); [lia|]. rewrite <- Em'.
        destruct (level_counts (S f) branching m') as [|a [|b2 t]] eqn:El; cbn in Hp; try discriminate.
        cbn [penultimate]. exact Hp.
      * exact Hr.
      * lia.
Qed.

(** iteration count: m <= b^(K+1) needs at most K further iterations *)
Lemma recover_loop_iter : forall (f : nat) (m : N) (K : nat) r k,
  1 <= m -> refsize * m + chunk <= W64 ->
  recover_loop f chunk refsize (refsize * m) = Some (r, k) ->
  m <= branching ^ N.of_nat (S K) -> (k <= K)%nat.
Proof.
  induction f as [|f IH]; intros m K r k Hm Hw Hl HK.
  - cbn [recover_loop] in Hl. destruct (chunk <? refsize * m); [discriminate|].
    injection Hl as _ <-. lia.
  - cbn [recover_loop] in Hl.
    destruct (N.ltb_spec chunk (refsize * m)) as [Hx|Hx].
    + destruct (recover_step_nowrap (refsize * m) Hx Hw) as [Est Hbd].
      rewrite Hchunk in Est at 2. rewrite cdiv_scale in Est by lia.
      rewrite Est in Hl.
      destruct (recover_loop f chunk refsize (refsize * cdiv m branching)) as [[r' k']|] eqn:El; [|discriminate].
      injection Hl as <- <-.
      assert (Hmb : branching < m) by nia.
      destruct K as [|K].
      { change (N.of_nat 1) with 1 in HK. rewrite N.pow_1_r in HK. lia. }
      assert (Hm'le : cdiv m branching <= m) by (apply cdiv_le; lia).
      assert (k' <= K)%nat; [|lia].
      apply (IH (cdiv m branching) K r' k'); [| nia | exact El |].
      * assert (2 <= cdiv m branching) by (apply cdiv_ge2; lia). lia.
      * rewrite cdiv_pred by lia.
        assert ((m - 1) / branching < branching ^ N.of_nat (S K)); [|lia].
        apply N.div_lt_upper_bound; [lia|].
        replace (N.of_nat (S (S K))) with (N.succ (N.of_nat (S K))) in HK by lia.
        rewrite N.pow_succ_r' in HK. nia.
    + injection Hl as _ <-. lia.
Qed.

(** leaf chunks (and the empty file): the span is the length *)
Lemma recover_leaf x : x <= chunk -> recover_loop loop_fuel chunk refsize x = Some (x, O).
Proof.
  intros Hx. unfold loop_fuel. change 64%nat with (S 63). rewrite recover_loop_S.
  destruct (N.ltb_spec chunk x); [lia|reflexivity].
Qed.

(** intermediate chunks, no wrap-around: every span in (chunk, 2^64 - chunk] *)
Lemma recover_intermediate x :
  chunk < x -> x + chunk <= W64 ->
  exists r k,
    recover_loop loop_fuel chunk refsize x = Some (refsize * r, S k) /\
    root_refs chunk branching x = Some r /\ 2 <= r <= branching /\ (k <= 63)%nat.
Proof.
  intros Hx Hw.
  destruct (recover_step_nowrap x Hx Hw) as [Est Hbd].
  remember (cdiv x chunk) as m eqn:Em.
  assert (Hm2 : 2 <= m) by (subst m; apply cdiv_ge2; lia).
  assert (Hmf : m <= 2 ^ N.of_nat 63).
  { subst m. rewrite cdiv_pred by lia.
    assert ((x - 1) / chunk < 2 ^ N.of_nat 63); [|lia].
    apply N.div_lt_upper_bound; [lia|].
    change (2 ^ N.of_nat 63) with 9223372036854775808.
    rewrite W64_val in *. nia. }
  destruct (recover_loop_counts 63 m Hm2 Hmf ltac:(lia)) as (r & k & Hl & Hp & Hr & Hk).
  exists r, k.
  assert (Hlt : (chunk <? x) = true) by (apply N.ltb_lt; lia).
  split; [|split; [|split]].
  - unfold loop_fuel. change 64%nat with (S 63). rewrite recover_loop_S, Hlt, Est, Hl. reflexivity.
  - unfold root_refs. rewrite <- Em. exact Hp.
  - exact Hr.
  - exact Hk.
Qed.

Lemma recover_intermediate_props x :
  chunk < x -> x + chunk <= W64 ->
  exists r, root_refs chunk branching x = Some r /\ 2 <= r <= branching /\
            recover chunk refsize x = Some (refsize * r).
Proof.
  intros Hx Hw. destruct (recover_intermediate x Hx Hw) as (r & k & Hl & Hr & Hb2 & _).
  exists r. split; [exact Hr|]. split; [exact Hb2|].
  unfold recover. rewrite Hl. reflexivity.
Qed.

(** the wrap-around region (2^64 - chunk, 2^64): one iteration, result 0 *)
Lemma recover_wrap x :
  x < W64 -> W64 < x + chunk -> recover_loop loop_fuel chunk refsize x = Some (0, 1%nat).
Proof.
  intros Hx Hw.
  assert (Hlt : (chunk <? x) = true) by (apply N.ltb_lt; lia).
  unfold loop_fuel. change 64%nat with (S 63). rewrite recover_loop_S, Hlt, (recover_step_wrap x Hx Hw).
  change 63%nat with (S 62). rewrite recover_loop_S.
  destruct (N.ltb_spec chunk 0); [lia|reflexivity].
Qed.

(** all uint64 inputs: the loop exits, within K+1 iterations when
    2^64 <= chunk * branching^(K+1), and the result is at most chunk *)
Lemma recover_total (K : nat) x :
  W64 <= chunk * branching ^ N.of_nat (S K) ->
  x < W64 ->
  exists r k, recover_loop loop_fuel chunk refsize x = Some (r, k) /\ r <= chunk /\ (k <= S K)%nat.
Proof.
  intros HK Hx.
  destruct (N.le_gt_cases x chunk) as [Hle|Hgt].
  - exists x, O. rewrite recover_leaf by lia. split; [reflexivity|split; lia].
  - destruct (N.le_gt_cases (x + chunk) W64) as [Hnw|Hwr].
    + destruct (recover_intermediate x Hgt Hnw) as (r & k & Hl & _ & Hr & _).
      exists (refsize * r), (S k). split; [exact Hl|]. split; [nia|].
      (* iteration bound *)
      destruct (recover_step_nowrap x Hgt Hnw) as [Est Hbd].
      assert (Hlt : (chunk <? x) = true) by (apply N.ltb_lt; lia).
      unfold loop_fuel in Hl. change 64%nat with (S 63) in Hl. rewrite recover_loop_S in Hl.
      rewrite Hlt, Est in Hl.
      destruct (recover_loop 63 chunk refsize (refsize * cdiv x chunk)) as [[r' k']|] eqn:El; [|discriminate].
      injection Hl as _ <-.
      assert (k' <= K)%nat; [|lia].
      apply (recover_loop_iter 63 (cdiv x chunk) K r' k'); [| lia | exact El |].
      * assert (2 <= cdiv x chunk) by (apply cdiv_ge2; lia). lia.
      * rewrite cdiv_pred by lia.
        assert ((x - 1) / chunk < branching ^ N.of_nat (S K)); [|lia].
        apply N.div_lt_upper_bound; lia.
    + exists 0, 1%nat. rewrite (recover_wrap x Hx Hwr). split; [reflexivity|split; lia].
Qed.

End Arith.

(** ------------------------------------------------------------------ *)
(** closed form of the tree-shape count: with h the least height such that
    size <= chunk * b^h, the root holds ceil(size / (chunk * b^(h-1))) references *)
Lemma cdiv_le_iff n d k : 0 < d -> (cdiv n d <= k <-> n <= d * k).
Proof.
  intros Hd. destruct (N.eq_dec n 0) as [->|Hn].
  - unfold cdiv. cbn [N.add]. rewrite N.div_small by lia. split; lia.
  - rewrite cdiv_pred by lia. split; intros Hk.
    + assert (Hlt : (n - 1) / d < k) by lia.
      assert (n - 1 < d * k); [|lia].
      destruct (N.lt_ge_cases (n - 1) (d * k)) as [|Hge]; [assumption|].
      assert (k <= (n - 1) / d) by (apply N.div_le_lower_bound; lia). lia.
    + assert ((n - 1) / d < k); [|lia].
      apply N.div_lt_upper_bound; lia.
Qed.

Section Closed.
Variables chunk branching : N.
Hypothesis Hc : 2 <= chunk.
Hypothesis Hb : 2 <= branching.

Lemma level_counts_closed : forall (f : nat) (x q : N),
  1 <= q -> 2 <= cdiv x q -> cdiv x q <= 2 ^ N.of_nat f ->
  penultimate (level_counts (S f) branching (cdiv x q)) =
  Some (cdiv x (q * branching ^ N.of_nat (height_from f branching (q * branching) x))).
Proof.
  induction f as [|f IH]; intros x q Hq Hm Hf.
  - cbn in Hf. lia.
  - change (level_counts (S (S f)) branching (cdiv x q))
      with (if cdiv x q <=? 1 then [cdiv x q]
            else cdiv x q :: level_counts (S f) branching (cdiv (cdiv x q) branching)).
    destruct (N.leb_spec (cdiv x q) 1); [lia|].
    cbn [height_from].
    destruct (N.leb_spec x (q * branching)) as [Hle|Hgt].
    + assert (Hmb : cdiv x q <= branching) by (apply cdiv_le_iff; lia).
      rewrite (cdiv_small (cdiv x q) branching) by lia. rewrite level_counts_one.
      cbn [penultimate N.of_nat]. rewrite N.pow_0_r, N.mul_1_r. reflexivity.
    + rewrite cdiv_cdiv by lia.
      assert (Hm2 : 2 <= cdiv x (q * branching)).
      { destruct (N.lt_ge_cases (cdiv x (q * branching)) 2) as [Hlt|]; [|assumption].
        assert (cdiv x (q * branching) <= 1) by lia.
        apply cdiv_le_iff in H0; nia. }
      assert (Hm'f : cdiv x (q * branching) <= 2 ^ N.of_nat f).
      { rewrite <- cdiv_cdiv by lia.
        rewrite (cdiv_pred (cdiv x q)) by lia.
        assert ((cdiv x q - 1) / branching < 2 ^ N.of_nat f); [|lia].
        apply N.div_lt_upper_bound; [lia|].
        replace (N.of_nat (S f)) with (N.succ (N.of_nat f)) in Hf by lia.
        rewrite N.pow_succ_r' in Hf. nia. }
      specialize (IH x (q * branching) ltac:(nia) Hm2 Hm'f).
      destruct (level_counts (S f) branching (cdiv x (q * branching))) as [|a [|b2 t]] eqn:El;
        cbn in IH; try discriminate.
      cbn [penultimate]. rewrite IH. f_equal. f_equal.
      replace (N.of_nat (S (height_from f branching (q * branching * branching) x)))
        with (N.succ (N.of_nat (height_from f branching (q * branching * branching) x))) by lia.
      rewrite N.pow_succ_r'. lia.
Qed.

Lemma height_from_S f cap x :
  height_from (S f) branching cap x =
  if x <=? cap then O else S (height_from f branching (cap * branching) x).
Proof. reflexivity. Qed.

Lemma root_refs_is_closed x :
  chunk < x -> x < W64 -> root_refs chunk branching x = Some (root_refs_closed chunk branching x).
Proof.
  intros Hx Hw. unfold root_refs, root_refs_closed, height.
  assert (Hf : cdiv x chunk <= 2 ^ N.of_nat 63).
  { rewrite cdiv_pred by lia.
    assert ((x - 1) / chunk < 2 ^ N.of_nat 63); [|lia].
    apply N.div_lt_upper_bound; [lia|].
    change (2 ^ N.of_nat 63) with 9223372036854775808.
    rewrite W64_val in Hw. nia. }
  change 64%nat with (S 63).
  remember 63%nat as f eqn:Ef. clear Ef.
  rewrite level_counts_closed; [| lia | apply cdiv_ge2; lia | exact Hf].
  rewrite height_from_S. destruct (N.leb_spec x chunk); [lia|].
  rewrite Nat.sub_succ, Nat.sub_0_r. reflexivity.
Qed.

(** [height] is the least h with x <= chunk * b^h (given enough fuel) *)
Lemma height_from_spec : forall (f : nat) (cap x : N),
  1 <= cap -> x <= cap * branching ^ N.of_nat f ->
  let h := height_from f branching cap x in
  x <= cap * branching ^ N.of_nat h /\ (forall h', (h' < h)%nat -> cap * branching ^ N.of_nat h' < x).
Proof.
  induction f as [|f IH]; intros cap x Hcap Hf; cbn [height_from].
  - cbn in Hf. split; [cbn; lia|]. intros h' Hh'. lia.
  - destruct (N.leb_spec x cap) as [Hle|Hgt].
    + split; [cbn; lia|]. intros h' Hh'. lia.
    + replace (N.of_nat (S f)) with (N.succ (N.of_nat f)) in Hf by lia.
      rewrite N.pow_succ_r' in Hf.
      destruct (IH (cap * branching) x ltac:(nia) ltac:(lia)) as [H1 H2].
      split.
      * replace (N.of_nat (S (height_from f branching (cap * branching) x)))
          with (N.succ (N.of_nat (height_from f branching (cap * branching) x))) by lia.
        rewrite N.pow_succ_r'. lia.
      * intros [|h'] Hh'.
        { cbn. lia. }
        specialize (H2 h' ltac:(lia)).
        replace (N.of_nat (S h')) with (N.succ (N.of_nat h')) by lia.
        rewrite N.pow_succ_r'. lia.
Qed.

End Closed.
