(** C08 — property theorems only. *)
From Coq Require Import List NArith ZArith Bool Lia.
Import ListNotations.
Require Import Aurora.Consts Aurora.C08.Model Aurora.C08.ProofsArith Aurora.C08.ProofsEnc Aurora.C08.ProofsTop.
Local Open Scope N_scope.

Definition chunk : N := Z.to_N Consts.boson_ChunkSize.
Definition refsize : N := Z.to_N (Consts.boson_HashSize + Consts.encryption_KeyLength).
(** the encrypted pipeline builds its hashtrie writer with boson.Branches/2 *)
Definition branching : N := Z.to_N Consts.boson_Branches / 2.

(** side conditions on the constants, re-checked by computation on every run *)
Lemma consts_ok_C08 :
  (chunk =? refsize * branching) && (2 <=? branching) && (1 <=? refsize) && (2 * chunk <=? W64)
  && (W64 <=? chunk * branching ^ 4) && (refsize =? Z.to_N Consts.encryption_ReferenceSize)
  && (W64 =? 2 ^ 64)
  && (0 <=? Consts.boson_ChunkSize)%Z && (0 <=? Consts.boson_HashSize)%Z && (0 <=? Consts.encryption_KeyLength)%Z = true.
Proof. vm_compute. reflexivity. Qed.
Lemma side_chunk : chunk = refsize * branching. Proof. vm_compute. reflexivity. Qed.
Lemma side_b : 2 <= branching. Proof. vm_compute. discriminate. Qed.
Lemma side_rs : 1 <= refsize. Proof. vm_compute. discriminate. Qed.
Lemma side_w : 2 * chunk <= W64. Proof. vm_compute. discriminate. Qed.
Lemma side_c2 : 2 <= chunk. Proof. vm_compute. discriminate. Qed.
Lemma side_k : W64 <= chunk * branching ^ N.of_nat 4. Proof. vm_compute. discriminate. Qed.

Lemma side_k7 : W64 <= chunk * branching ^ 7. Proof. vm_compute. discriminate. Qed.
Lemma side_c1 : 1 <= chunk. Proof. vm_compute. discriminate. Qed.
Lemma side_fuel : forall x, x < W64 -> x <= chunk * branching ^ N.of_nat 64.
Proof.
  intros x Hx. apply N.lt_le_incl. eapply N.lt_le_trans; [exact Hx|]. vm_compute. discriminate.
Qed.

(** ---- encryption.go: invertible, exact padded length.
    [H] is any hash whose digests are at least as long as the key (the code
    indexes the digest up to keyLen); every key, padding, initial counter and
    counter index (all fields of [e]), every padding oracle. *)
Theorem C08_roundtrip : forall (H : list N -> list N) (e : enc),
  (0 < length (e_key e))%nat -> (forall x, (length (e_key e) <= length (H x))%nat) ->
  forall (data : list N) (pad : nat -> N),
  (e_padding e <= 0 \/ Z.of_nat (length data) <= e_padding e)%Z ->
  exists ct e1,
    encrypt H e data pad = Ok (ct, e1) /\
    length ct = out_len e (length data) /\
    exists pt e2, decrypt H e ct = Ok (pt, e2) /\ length pt = length ct /\ firstn (length data) pt = data.
Proof. exact enc_roundtrip. Qed.
Print Assumptions C08_roundtrip.

Theorem C08_length : forall (H : list N -> list N) (e : enc) (data : list N) (pad : nat -> N),
  (0 < length (e_key e))%nat -> (forall x, (length (e_key e) <= length (H x))%nat) ->
  (0 < e_padding e)%Z ->
  ((Z.of_nat (length data) <= e_padding e)%Z ->
     exists ct e1, encrypt H e data pad = Ok (ct, e1) /\ Z.of_nat (length ct) = e_padding e) /\
  ((e_padding e < Z.of_nat (length data))%Z -> encrypt H e data pad = Err).
Proof. exact enc_length. Qed.
Print Assumptions C08_length.

(** for ALL uint64 inputs the loop of decryptChunkData exits after at most 4
    iterations with a length of at most ChunkSize (so [decryptedData[:length]] is in range) *)
Theorem C08_loop_terminates : forall x : N, x < W64 ->
  exists r k, recover_loop loop_fuel chunk refsize x = Some (r, k) /\ r <= chunk /\ (k <= 4)%nat.
Proof. exact (fun x => recover_total chunk branching refsize side_chunk side_b side_rs side_w 3 x side_k). Qed.
Print Assumptions C08_loop_terminates.

(** leaf chunks (span = data length <= ChunkSize), and the empty file: the span is the length kept *)
Theorem C08_recover_leaf : forall x : N, x <= chunk -> recover chunk refsize x = Some x.
Proof.
  exact (fun x Hx => f_equal (option_map fst) (recover_leaf chunk branching refsize side_chunk side_b side_rs side_w x Hx)).
Qed.
Print Assumptions C08_recover_leaf.

(** intermediate chunks: for every span in (ChunkSize, 2^64 - ChunkSize] — a superset of
    ChunkSize < S < 2^63 — the recovered length is refsize * (number of references the root of
    a tree of S bytes holds), and that number is between 2 and the branching factor *)
Theorem C08_recover_intermediate : forall x : N, chunk < x -> x + chunk <= W64 ->
  exists r, root_refs chunk branching x = Some r /\ 2 <= r <= branching /\
            recover chunk refsize x = Some (refsize * r).
Proof. exact (recover_intermediate_props chunk branching refsize side_chunk side_b side_rs side_w). Qed.
Print Assumptions C08_recover_intermediate.

(** the tree-shape count in closed form: with h the least height such that
    S <= ChunkSize * b^h, the root holds ceil(S / (ChunkSize * b^(h-1))) references *)
Theorem C08_refs_closed_form : forall x : N, chunk < x -> x < W64 ->
  root_refs chunk branching x = Some (cdiv x (chunk * branching ^ N.of_nat (height chunk branching x - 1))) /\
  x <= chunk * branching ^ N.of_nat (height chunk branching x) /\
  (forall h', (h' < height chunk branching x)%nat -> chunk * branching ^ N.of_nat h' < x).
Proof.
  exact (fun x Hx Hw => conj (root_refs_is_closed chunk branching side_c2 side_b x Hx Hw)
          (height_from_spec chunk branching side_c2 side_b 64 chunk x side_c1 (side_fuel x Hw))).
Qed.
Print Assumptions C08_refs_closed_form.

(** outside every file size (spans are below 2^63 in the joiner): in the last
    ChunkSize values of uint64 the addition wraps and the recovered length is 0 *)
Theorem C08_recover_wrap_region : forall x : N, x < W64 -> W64 < x + chunk ->
  recover_loop loop_fuel chunk refsize x = Some (0, 1%nat).
Proof. exact (recover_wrap chunk branching refsize side_chunk side_b side_rs side_w). Qed.
Print Assumptions C08_recover_wrap_region.

(** ---- chunk_encryption.go + pipeline encryption writer + decrypt_store.go:
    the stored form has exactly SpanSize + ChunkSize bytes and the decrypting
    store restores span ++ payload exactly — the data length for a leaf,
    refsize bytes per child reference for an intermediate chunk *)
Theorem C08_chunk_restored : forall (H : list N -> list N) (key : list N) (S : N) (payload : list N) (pad : nat -> N),
  (0 < length key)%nat -> (forall x, (length key <= length (H x))%nat) ->
  (S = N.of_nat (length payload) /\ S <= chunk) \/
  (chunk < S /\ S + chunk <= W64 /\
   exists r, root_refs chunk branching S = Some r /\ N.of_nat (length payload) = refsize * r) ->
  exists stored,
    encrypt_chunk_stored H chunk refsize key (le64 S ++ payload) pad = Ok stored /\
    length stored = (8 + N.to_nat chunk)%nat /\
    decrypt_chunk_data H chunk refsize stored key = Ok (le64 S ++ payload).
Proof. exact (fun H => chunk_restored H chunk branching refsize side_chunk side_b side_rs side_w). Qed.
Print Assumptions C08_chunk_restored.

(** ---- hashtrie.go (encrypted pipeline: branching = Branches/2, 64-byte references):
    for EVERY non-empty file size up to 2^64 - ChunkSize, feeding the writer the
    leaf spans of the file and calling Sum yields a root reference spanning the
    file, and every intermediate chunk it hands to the short pipeline carries
    exactly the number of references that the reader recovers from its span:
    recovered length = refsize * stored references.  [proc] is whatever the stages of the short
    pipeline (encryption!) did to the first 8 bytes of the chunk data: the writer forwards the
    plaintext [args.Span] ([p_span]), so the statement holds for every [proc]. *)
Theorem C08_writer_reader_agree : forall (proc : N -> N) (size : N), 0 < size -> size + chunk <= W64 ->
  exists em,
    trie_run p_span proc (N.to_nat branching) (leaf_spans chunk size) = Ok (size, em) /\
    Forall (fun e => chunk < fst e /\ root_refs chunk branching (fst e) = Some (snd e) /\
                     2 <= snd e <= branching /\
                     recover chunk refsize (fst e) = Some (refsize * snd e)) em.
Proof. exact (fun proc size => writer_reader_agree chunk branching refsize side_chunk side_b side_rs side_w proc size side_k7). Qed.
Print Assumptions C08_writer_reader_agree.

(** ... and it has to: a writer that forwards [args.Data[:8]] instead ([p_data8]) — correct
    only when the stages leave the span alone — stores a wrong span one level up as soon as the
    data was processed (encrypted pipeline), already for three leaf chunks at branching 2:
    the root span is not the file size. *)
Theorem C08_span_must_be_plaintext :
  exists (proc : N -> N) (size : N) root em,
    trie_run p_data8 proc 2 (leaf_spans 128 size) = Ok (root, em) /\ root <> size /\
    (forall proc', exists em', trie_run p_span proc' 2 (leaf_spans 128 size) = Ok (size, em')).
Proof.
  exists (fun s => N.lxor s 11936128518282651045), 384, 128,
         [(256, 2); (11936128518282650917, 2)].
  split; [vm_compute; reflexivity|]. split; [discriminate|].
  intros proc'. eexists. vm_compute. reflexivity.
Qed.
Print Assumptions C08_span_must_be_plaintext.

(** non-vacuity: a concrete hash with 32-byte digests, a 32-byte key, a payload
    that is padded, and spans on three tree heights *)
Example C08_hyps_satisfiable :
  let H := fun l : list N => repeat (N.of_nat (length l) + 7) 32 in
  let e := mkEnc (repeat 5 32) 100 4294967295 3 in
  (0 < length (e_key e))%nat /\ (forall x, (length (e_key e) <= length (H x))%nat) /\
  (exists ct e1, encrypt H e (repeat 9 70) (fun _ => 1) = Ok (ct, e1) /\ length ct = 100%nat /\
     exists pt e2, decrypt H e ct = Ok (pt, e2) /\ firstn 70 pt = repeat 9 70) /\
  root_refs chunk branching (chunk + 1) = Some 2 /\
  root_refs chunk branching (chunk * branching + 1) = Some 2 /\
  root_refs chunk branching (chunk * branching * 7) = Some 7 /\
  recover chunk refsize (chunk * branching * branching * 5 + 1) = Some (refsize * 6) /\
  trie_run p_span (fun s => s + 1) 2 (leaf_spans 128 (128 * 5 + 3)) = Ok (643, [(256, 2); (256, 2); (512, 2); (131, 2); (643, 2)]).
Proof.
  cbn zeta. split; [cbn; lia|]. split; [intros x; rewrite repeat_length; cbn; lia|].
  split; [|vm_compute; repeat split; reflexivity].
  eexists _, _. split; [vm_compute; reflexivity|]. split; [reflexivity|].
  eexists _, _. split; [vm_compute; reflexivity|]. vm_compute. reflexivity.
Qed.
