(** C08 — property theorems only. *)
From Coq Require Import List NArith ZArith Bool.
Import ListNotations.
Require Import Aurora.Consts Aurora.C08.Model Aurora.C08.ProofsArith.
Local Open Scope N_scope.

Definition chunk : N := Z.to_N Consts.boson_ChunkSize.
Definition refsize : N := Z.to_N (Consts.boson_HashSize + Consts.encryption_KeyLength).
(** the encrypted pipeline builds its hashtrie writer with boson.Branches/2 *)
Definition branching : N := Z.to_N Consts.boson_Branches / 2.

(** side conditions on the constants, re-checked by computation on every run *)
Lemma consts_ok_C08 :
  (chunk =? refsize * branching) && (2 <=? branching) && (1 <=? refsize) && (2 * chunk <=? W64)
  && (W64 <=? chunk * branching ^ 4) && (refsize =? Z.to_N Consts.encryption_ReferenceSize)
  && (W64 =? 2 ^ 64)
  && (0 <=? Consts.boson_ChunkSize)%Z && (0 <=? Consts.boson_HashSize)%Z && (0 <=? Consts.encryption_KeyLength)%Z = true.
Proof. vm_compute. reflexivity. Qed.
Lemma side_chunk : chunk = refsize * branching. Proof. vm_compute. reflexivity. Qed.
Lemma side_b : 2 <= branching. Proof. vm_compute. discriminate. Qed.
Lemma side_rs : 1 <= refsize. Proof. vm_compute. discriminate. Qed.
Lemma side_w : 2 * chunk <= W64. Proof. vm_compute. discriminate. Qed.
Lemma side_k : W64 <= chunk * branching ^ N.of_nat 4. Proof. vm_compute. discriminate. Qed.

(** for ALL uint64 inputs the loop of decryptChunkData exits after at most 4
    iterations with a length of at most ChunkSize (so [decryptedData[:length]] is in range) *)
Theorem C08_loop_terminates : forall x : N, x < W64 ->
  exists r k, recover_loop loop_fuel chunk refsize x = Some (r, k) /\ r <= chunk /\ (k <= 4)%nat.
Proof. exact (fun x => recover_total chunk branching refsize side_chunk side_b side_rs side_w 3 x side_k). Qed.
Print Assumptions C08_loop_terminates.

(** leaf chunks (span = data length <= ChunkSize), and the empty file: the span is the length kept *)
Theorem C08_recover_leaf : forall x : N, x <= chunk -> recover chunk refsize x = Some x.
Proof.
  exact (fun x Hx => f_equal (option_map fst) (recover_leaf chunk branching refsize side_chunk side_b side_rs side_w x Hx)).
Qed.
Print Assumptions C08_recover_leaf.

(** intermediate chunks: for every span in (ChunkSize, 2^64 - ChunkSize] — a superset of
    ChunkSize < S < 2^63 — the recovered length is refsize * (number of references the root of
    a tree of S bytes holds), and that number is between 2 and the branching factor *)
Theorem C08_recover_intermediate : forall x : N, chunk < x -> x + chunk <= W64 ->
  exists r, root_refs chunk branching x = Some r /\ 2 <= r <= branching /\
            recover chunk refsize x = Some (refsize * r).
Proof. exact (recover_intermediate_props chunk branching refsize side_chunk side_b side_rs side_w). Qed.
Print Assumptions C08_recover_intermediate.
