(** C08 — the length-level functions used by the correspondence for the
    decrypting store ([Corr.strip_len], [Corr.dcd_len], [Corr.get_len]) are
    the lengths of what the model functions return (for any hash whose digests
    cover the key; the decrypted span is the only thing the hash decides). *)
From Coq Require Import List NArith ZArith Bool Lia.
Import ListNotations.
Require Import Aurora.C08.Model Aurora.C08.ProofsEnc Aurora.C08.Corr.
Local Open Scope N_scope.

Definition lenN (d : list N) : N := N.of_nat (length d).

Lemma chunk_pos : 0 < chunk. Proof. vm_compute. reflexivity. Qed.

Lemma strip_len_ok dspan ddata :
  length dspan = 8%nat ->
  res_map lenN (strip_padding chunk refsize dspan ddata) = strip_len (le_decode dspan) (lenN ddata).
Proof.
  intros H8. unfold strip_padding, strip_len, lenN.
  destruct (recover chunk refsize (le_decode dspan)) as [len|]; [|reflexivity].
  destruct (N.ltb_spec (N.of_nat (length ddata)) len) as [Hlt|Hge]; [reflexivity|].
  cbn [res_map]. f_equal. rewrite app_length, firstn_length, H8. lia.
Qed.

Section WithHash.
Variable H : list N -> list N.
Variable key : list N.
Hypothesis Hkl : (0 < length key)%nat.
Hypothesis Hdigest : forall x, (length key <= length (H x))%nat.

Lemma dcd_len_ok cd :
  exists S, res_map lenN (decrypt_chunk_data H chunk refsize cd key) = dcd_len (lenN cd) S.
Proof.
  unfold decrypt_chunk_data, dcd_len, lenN.
  destruct (Nat.ltb_spec (length cd) 8) as [Hlt|Hge].
  - exists 0. replace (N.of_nat (length cd) <? 8) with true by (symmetry; apply N.ltb_lt; lia). reflexivity.
  - replace (N.of_nat (length cd) <? 8) with false by (symmetry; apply N.ltb_ge; lia).
    (* span part: padding 0, always decrypts to 8 bytes *)
    unfold decrypt at 1. cbn [span_enc e_padding]. change (0 <? 0)%Z with false. cbn [andb].
    unfold transform. cbn [span_enc e_key e_initCtr e_index].
    destruct (transform_loop_total H key (u32 (chunk / refsize)) Hkl Hdigest (length (firstn 8 cd)) 0%Z (firstn 8 cd) (le_n _))
      as (dspan & idx & E & L).
    rewrite E. rewrite firstn_length in L.
    assert (L8 : length dspan = 8%nat) by lia.
    exists (le_decode dspan).
    unfold decrypt. cbn [data_enc e_padding].
    replace (0 <? Z.of_N chunk)%Z with true by (symmetry; apply Z.ltb_lt; pose proof chunk_pos; lia).
    rewrite skipn_length. cbn [andb].
    destruct (Z.eqb_spec (Z.of_nat (length cd - 8)) (Z.of_N chunk)) as [He|Hne]; cbn [negb].
    + replace (N.of_nat (length cd) - 8 =? chunk) with true by (symmetry; apply N.eqb_eq; lia).
      unfold transform. cbn [data_enc e_key e_initCtr e_index].
      destruct (transform_loop_total H key 0 Hkl Hdigest (length (skipn 8 cd)) 0%Z (skipn 8 cd) (le_n _))
        as (ddata & idx2 & E2 & L2).
      rewrite E2. cbv beta iota. change (fun d : list N => N.of_nat (length d)) with lenN.
      rewrite strip_len_ok by exact L8. unfold lenN. rewrite L2, skipn_length.
      f_equal. lia.
    + replace (N.of_nat (length cd) - 8 =? chunk) with false by (symmetry; apply N.eqb_neq; lia).
      reflexivity.
Qed.

(** decryptingStore.Get *)
Lemma get_len_ok ref getter :
  skipn hashsize ref = key ->
  exists S,
    res_map lenN (store_get H chunk refsize hashsize ref getter) =
    get_len (length ref)
            (match getter (if Nat.eqb (length ref) hashsize then ref else firstn hashsize ref) with Some _ => true | None => false end)
            (match getter (if Nat.eqb (length ref) hashsize then ref else firstn hashsize ref) with Some d => lenN d | None => 0 end) S.
Proof.
  intros Hk. unfold store_get, get_len.
  destruct (Nat.eqb (length ref) hashsize).
  - exists 0. destruct (getter ref); reflexivity.
  - destruct (Nat.eqb (length ref) (N.to_nat refsize)).
    + destruct (getter (firstn hashsize ref)) as [d|]; [|exists 0; reflexivity].
      rewrite Hk. apply dcd_len_ok.
    + exists 0. destruct (getter (firstn hashsize ref)); reflexivity.
Qed.

End WithHash.
