#!/bin/bash
# Build one harness binary against the repo under test:  tools/hbuild.sh c20  -> .work/bin/c20
set -eu
cd "$(dirname "$0")/.."
WORK=${VERIF_WORK:-$PWD/.work}; REPO=${VERIF_REPO:-/repo}
export GOFLAGS=-mod=mod GOPROXY=off GOSUMDB=off GOTOOLCHAIN=local
mkdir -p "$WORK/bin"
sed "s#=> /repo#=> $REPO#" harness/go.mod > "$WORK/harness.mod"
cat "$REPO/go.sum" > "$WORK/harness.sum"; [ -f harness/go.sum.extra ] && cat harness/go.sum.extra >> "$WORK/harness.sum"
cd harness && go build -modfile="$WORK/harness.mod" -tags verif -ldflags=-checklinkname=0 ${HB_FLAGS:-} -o "$WORK/bin/$1" "./cmd/$1"
