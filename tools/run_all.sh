#!/bin/bash
# Runs every claimed check (quick by default) N at a time and prints a summary.
#   tools/run_all.sh [quick|thorough] [parallel=4] [ids...]
cd "$(dirname "$0")/.."
TIER=${1:-quick}; PAR=${2:-4}; shift 2 2>/dev/null
IDS="$*"
[ -z "$IDS" ] && IDS=$(python3 -c "import json; print(' '.join(c['property_id'] for c in json.load(open('MANIFEST.json'))['checks']))")
mkdir -p .work/runall
printf '%s\n' $IDS | xargs -P "$PAR" -I{} sh -c './check {} --tier '"$TIER"' > .work/runall/{}.log 2>&1; echo "{} exit=$?"' | sort
grep -h "^VIOLATION\|^KNOWN-FINDING" .work/runall/*.log 2>/dev/null
