#!/bin/bash
# Developer loop: sync coq/theories into the work tree and build the given property's Coq files
# (everything in theories/<dir>/ including Props.v), printing the first error.
#   tools/coqdev.sh C20          tools/coqdev.sh C20 Proofs   (single file)
set -u
cd "$(dirname "$0")/.."
WORK=${VERIF_WORK:-$PWD/.work}; REPO=${VERIF_REPO:-/repo}
export GOFLAGS=-mod=mod GOPROXY=off GOSUMDB=off GOTOOLCHAIN=local
mkdir -p "$WORK/bin" "$WORK/coq"
exec 9>"$WORK/build.lock"; flock 9
rsync -a --delete --exclude='*.vo' --exclude='*.vok' --exclude='*.vos' --exclude='*.glob' --exclude='.*.aux' --exclude=Consts.v --exclude=.lia.cache coq/theories/ "$WORK/coq/theories/"
[ -x "$WORK/bin/constgen" ] || (cd tools/constgen && go build -o "$WORK/bin/constgen" .)
"$WORK/bin/constgen" "$REPO" props > "$WORK/coq/theories/Consts.v.new"
cmp -s "$WORK/coq/theories/Consts.v.new" "$WORK/coq/theories/Consts.v" 2>/dev/null && rm "$WORK/coq/theories/Consts.v.new" || mv "$WORK/coq/theories/Consts.v.new" "$WORK/coq/theories/Consts.v"
cd "$WORK/coq"
{ cat "$OLDPWD/coq/_CoqProject.head"; find theories -name '*.v' | sort; } > _CoqProject.new
cmp -s _CoqProject.new _CoqProject 2>/dev/null && rm _CoqProject.new || { mv _CoqProject.new _CoqProject; coq_makefile -f _CoqProject -o Makefile >/dev/null; }
D=$1
if [ $# -ge 2 ]; then T="theories/$D/$2.vo"; else T=$(ls theories/$D/*.v | sed 's/\.v$/.vo/'); fi
timeout ${COQ_TIMEOUT:-1800} make -j16 $T 2>&1 | grep -v '^make\|^COQDEP\|^CLEAN' | tail -n ${COQ_TAIL:-40}
exit ${PIPESTATUS[0]}
