#!/usr/bin/env python3
"""Regenerates /verif/MANIFEST.json from props/*.json (one file per claimed property)."""
import json, glob, os, subprocess
ROOT = os.path.dirname(os.path.dirname(os.path.abspath(__file__)))
props = [json.loads(l) for l in open(os.path.join(ROOT, "properties.jsonl"))]
ids = [p["id"] for p in props]
cfgs = {}
for f in sorted(glob.glob(os.path.join(ROOT, "props", "C*.json"))):
    c = json.load(open(f)); cfgs[c["id"]] = c
na_file = os.path.join(ROOT, "props", "not_applicable.json")
na = json.load(open(na_file)) if os.path.exists(na_file) else []
hooks = []
hf = os.path.join(ROOT, "MANIFEST.hooks")
if os.path.exists(hf):
    hooks = [l.split()[0] for l in open(hf) if l.strip() and not l.startswith("#")]
checks = []
integrated = {l.strip() for l in open(os.path.join(ROOT, "props", "CLAIMED")) if l.strip() and not l.startswith("#")}
for i in ids:
    if i not in cfgs or i not in integrated:
        continue
    c = cfgs[i]
    checks.append({
        "property_id": i,
        "quick_cmd": "./check %s --tier quick" % i,
        "thorough_cmd": "./check %s --tier thorough" % i,
        "evidence_file": "/verif/evidence/%s.json" % i,
        "replay_cmd_template": "./check %s --replay {path}" % i,
        "engine": "coq-proof+correspondence",
        "level_claimed": {"category": "proof", "text": c["level_text"], "design_ref": c.get("design_ref", "DESIGN.md 6/" + i)},
        "level_note": c["level_note"],
        "technique": c["technique"],
    })
claimed = {c["property_id"] for c in checks}
nal = [e for e in na if e["property_id"] not in claimed]
for i in ids:
    if i not in claimed and i not in {e["property_id"] for e in nal}:
        nal.append({"property_id": i, "reason": "not yet claimed: model/theorems/harness for this property are not built yet (work in progress; see DESIGN.md section 6)"})
m = {
    "version": 1,
    "setup_cmd": "./setup.sh",
    "hooks": {
        "guard": "verif",
        "enable": "go build -tags verif (harness binaries under /verif/harness are built with -tags verif -ldflags=-checklinkname=0 against /repo's working tree)",
        "baseline_off_cmd": json.load(open("/root/.vp/BASELINE.json"))["cmd"] if os.path.exists("/root/.vp/BASELINE.json") else "",
        "source_commits": hooks,
        "add_only": True,
    },
    "engines": [{"name": "coq-proof+correspondence", "path": "/verif/check", "serves_properties": sorted(claimed),
                 "kind_free_text": "Coq 8.16.1 theorems over hand-written Gallina models (coq/theories/Cxx), constants re-extracted from Go source (tools/constgen), differential correspondence Go implementation vs model evaluated by vm_compute (harness/cmd/cxx), independent oracle on the implementation"}],
    "checks": checks,
    "not_applicable": nal,
    "notes": "All checks: ./check <id>. Known findings: known_findings.json. Seeded breakage corpus: seeded/.",
}
json.dump(m, open(os.path.join(ROOT, "MANIFEST.json"), "w"), indent=1)
print("claimed", len(checks), "not claimed", len(nal))
