#!/bin/bash
# Copies /verif/hooks/** (add-only *_verif.go files, build tag verif) into a repo tree.
#   tools/install_hooks.sh /tmp/wt-x
set -eu
cd "$(dirname "$0")/.."
DST=${1:?target repo tree}
[ -d hooks ] || exit 0
(cd hooks && find . -type f -name '*_verif.go') | while read -r f; do
  mkdir -p "$DST/$(dirname "$f")"
  if [ -e "$DST/$f" ] && ! cmp -s "hooks/$f" "$DST/$f"; then echo "updating $f"; fi
  cp "hooks/$f" "$DST/$f"
done
