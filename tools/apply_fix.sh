#!/bin/bash
# Coordinator: apply one proposed fix patch to /repo, build, run tests of listed packages, commit.
#   tools/apply_fix.sh proposed/C18/fix-x.patch "fix: subject" "body" ./pkg/a/... [./pkg/b/...]
set -u
P=/verif/$1; SUBJ=$2; BODY=$3; shift 3
export GOFLAGS=-mod=mod GOPROXY=off GOSUMDB=off GOTOOLCHAIN=local
cd /repo
git apply --check "$P" || { echo "PATCH DOES NOT APPLY: $P"; exit 1; }
git apply "$P"
FILES=$(git diff --name-only)
for d in $(for f in $FILES; do dirname "$f"; done | sort -u); do go build "./$d/" || { echo "BUILD FAILED"; git checkout -- .; exit 1; }; done
if [ $# -gt 0 ]; then
  go test -vet=off -count=1 -ldflags=-checklinkname=0 ${TEST_TAGS:+-tags $TEST_TAGS} "$@" 2>&1 | tail -15 | tee /tmp/apply_fix.log
  if grep -q "^FAIL\|^--- FAIL" /tmp/apply_fix.log; then echo "TESTS FAILED (check whether they fail without the patch too)"; fi
fi
git commit -qam "$SUBJ

$BODY"
echo "committed $(git rev-parse --short HEAD): $SUBJ"
