#!/usr/bin/env python3
"""tools/seed_prep.py C33 1 -> creates worktree /tmp/seed-C33-1 (at /repo HEAD), /tmp/seedout-C33-1, /tmp/seedprompt-C33-1.txt"""
import json, sys, subprocess, os
props = {json.loads(l)['id']: json.loads(l) for l in open('/verif/properties.jsonl')}
t = open('/verif/tools/seeder_prompt.md').read()
for a in sys.argv[1:]:
    pid, n = a.split(':') if ':' in a else (a, '1')
    p = props[pid]
    wt = "/tmp/seed-%s-%s" % (pid, n); out = "/tmp/seedout-%s-%s" % (pid, n)
    s = (t.replace("{WT}", wt).replace("{OUT}", out).replace("{ID}", pid).replace("{TITLE}", p['title'])
          .replace("{STATEMENT}", p['statement']).replace("{QUANT}", p['quantifier']['text'])
          .replace("{FILES}", ", ".join(p['anchors']['files'])))
    open("/tmp/seedprompt-%s-%s.txt" % (pid, n), "w").write(s)
    subprocess.run(["git", "-C", "/repo", "worktree", "add", "--detach", wt, "HEAD"], stdout=subprocess.DEVNULL, stderr=subprocess.DEVNULL)
    # remove verif hook files from the seeder's view? they are build-tagged and harmless; keep.
    os.makedirs(out, exist_ok=True)
    print(pid, n, wt)
