// constgen: the constants translator. Reads /verif/props/*.json, collects the
// "consts" entries ({"pkg": "pkg/boson", "name": "MaxPO"}), evaluates each Go
// constant (or package-level var with a constant initialiser) from the CURRENT
// source under the repo root, and prints Consts.v on stdout:
//
//	Definition boson_MaxPO : Z := 31.
//
// Non-integer constants (gcTargetRatio = 0.9) are emitted as a pair
// (numerator, denominator) : Z * Z.
//
// The evaluator is deliberately small: literals, identifiers of the same
// package (incl. iota), selector expressions into other packages of the repo
// or `time`, unary/binary operators, parentheses and type conversions.
package main

import (
	"encoding/json"
	"fmt"
	"go/ast"
	"go/constant"
	"go/parser"
	"go/token"
	"os"
	"path/filepath"
	"sort"
	"strings"
)

const module = "github.com/gauss-project/aurorafs/"

type want struct {
	Pkg  string `json:"pkg"`
	Name string `json:"name"`
	As   string `json:"as,omitempty"`
}

type pkgInfo struct {
	dir   string
	name  string
	decls map[string]*decl
}
type decl struct {
	expr    ast.Expr
	iota    int
	imports map[string]string // local name -> import path
}

var (
	repo  string
	cache = map[string]*pkgInfo{}
	fset  = token.NewFileSet()
)

func load(rel string) (*pkgInfo, error) {
	if p, ok := cache[rel]; ok {
		return p, nil
	}
	dir := filepath.Join(repo, rel)
	ents, err := os.ReadDir(dir)
	if err != nil {
		return nil, err
	}
	p := &pkgInfo{dir: dir, decls: map[string]*decl{}}
	for _, e := range ents {
		n := e.Name()
		if !strings.HasSuffix(n, ".go") || strings.HasSuffix(n, "_test.go") || strings.HasSuffix(n, "_verif.go") {
			continue
		}
		f, err := parser.ParseFile(fset, filepath.Join(dir, n), nil, parser.ParseComments)
		if err != nil {
			return nil, err
		}
		skip := false
		for _, cg := range f.Comments {
			if cg.Pos() < f.Package {
				for _, c := range cg.List {
					if strings.HasPrefix(c.Text, "//go:build") && (strings.Contains(c.Text, "ignore") || strings.Contains(c.Text, "wiredtiger")) {
						skip = true
					}
				}
			}
		}
		if skip {
			continue
		}
		p.name = f.Name.Name
		imps := map[string]string{}
		for _, im := range f.Imports {
			path := strings.Trim(im.Path.Value, `"`)
			local := filepath.Base(path)
			if im.Name != nil {
				local = im.Name.Name
			}
			imps[local] = path
		}
		for _, d := range f.Decls {
			gd, ok := d.(*ast.GenDecl)
			if !ok || (gd.Tok != token.CONST && gd.Tok != token.VAR) {
				continue
			}
			var last []ast.Expr
			for i, s := range gd.Specs {
				vs := s.(*ast.ValueSpec)
				vals := vs.Values
				if gd.Tok == token.CONST {
					if len(vals) == 0 {
						vals = last
					} else {
						last = vals
					}
				}
				for k, nm := range vs.Names {
					if k < len(vals) {
						p.decls[nm.Name] = &decl{expr: vals[k], iota: i, imports: imps}
					}
				}
			}
		}
	}
	cache[rel] = p
	return p, nil
}

var timeConsts = map[string]int64{
	"Nanosecond": 1, "Microsecond": 1e3, "Millisecond": 1e6, "Second": 1e9, "Minute": 60e9, "Hour": 3600e9,
}

func eval(p *pkgInfo, d *decl, e ast.Expr, depth int) (constant.Value, error) {
	if depth > 50 {
		return nil, fmt.Errorf("too deep")
	}
	switch x := e.(type) {
	case *ast.BasicLit:
		v := constant.MakeFromLiteral(x.Value, x.Kind, 0)
		if v.Kind() == constant.Unknown {
			return nil, fmt.Errorf("bad literal %s", x.Value)
		}
		return v, nil
	case *ast.ParenExpr:
		return eval(p, d, x.X, depth+1)
	case *ast.Ident:
		if x.Name == "iota" {
			return constant.MakeInt64(int64(d.iota)), nil
		}
		if x.Name == "true" || x.Name == "false" {
			return constant.MakeBool(x.Name == "true"), nil
		}
		dd, ok := p.decls[x.Name]
		if !ok {
			return nil, fmt.Errorf("unknown identifier %s in %s", x.Name, p.dir)
		}
		return eval(p, dd, dd.expr, depth+1)
	case *ast.SelectorExpr:
		id, ok := x.X.(*ast.Ident)
		if !ok {
			return nil, fmt.Errorf("unsupported selector")
		}
		path, ok := d.imports[id.Name]
		if !ok {
			return nil, fmt.Errorf("unknown package %s", id.Name)
		}
		if path == "time" {
			if v, ok := timeConsts[x.Sel.Name]; ok {
				return constant.MakeInt64(v), nil
			}
			return nil, fmt.Errorf("time.%s", x.Sel.Name)
		}
		if strings.HasPrefix(path, module) {
			q, err := load(strings.TrimPrefix(path, module))
			if err != nil {
				return nil, err
			}
			dd, ok := q.decls[x.Sel.Name]
			if !ok {
				return nil, fmt.Errorf("unknown %s.%s", path, x.Sel.Name)
			}
			return eval(q, dd, dd.expr, depth+1)
		}
		return nil, fmt.Errorf("foreign package %s", path)
	case *ast.UnaryExpr:
		v, err := eval(p, d, x.X, depth+1)
		if err != nil {
			return nil, err
		}
		return constant.UnaryOp(x.Op, v, 0), nil
	case *ast.BinaryExpr:
		a, err := eval(p, d, x.X, depth+1)
		if err != nil {
			return nil, err
		}
		b, err := eval(p, d, x.Y, depth+1)
		if err != nil {
			return nil, err
		}
		switch x.Op {
		case token.SHL, token.SHR:
			s, _ := constant.Uint64Val(b)
			return constant.Shift(a, x.Op, uint(s)), nil
		case token.QUO:
			if a.Kind() == constant.Int && b.Kind() == constant.Int {
				return constant.BinaryOp(a, token.QUO_ASSIGN, b), nil // integer division
			}
		}
		return constant.BinaryOp(a, x.Op, b), nil
	case *ast.CallExpr:
		// type conversion T(x) with one argument: value unchanged (the
		// properties never rely on a truncating constant conversion)
		if len(x.Args) == 1 {
			return eval(p, d, x.Args[0], depth+1)
		}
	}
	return nil, fmt.Errorf("unsupported expression %T", e)
}

func main() {
	if len(os.Args) < 3 {
		fmt.Fprintln(os.Stderr, "usage: constgen <repo> <props-dir>")
		os.Exit(2)
	}
	repo = os.Args[1]
	files, _ := filepath.Glob(filepath.Join(os.Args[2], "*.json"))
	sort.Strings(files)
	seen := map[string]bool{}
	var wants []want
	for _, f := range files {
		b, err := os.ReadFile(f)
		if err != nil {
			continue
		}
		var cfg struct {
			Consts []want `json:"consts"`
		}
		if err := json.Unmarshal(b, &cfg); err != nil {
			fmt.Fprintf(os.Stderr, "constgen: skipping %s: %v\n", f, err)
			continue
		}
		for _, w := range cfg.Consts {
			k := w.Pkg + "." + w.Name
			if !seen[k] {
				seen[k] = true
				wants = append(wants, w)
			}
		}
	}
	sort.Slice(wants, func(i, j int) bool { return wants[i].Pkg+"."+wants[i].Name < wants[j].Pkg+"."+wants[j].Name })
	var sb strings.Builder
	sb.WriteString("(* GENERATED by tools/constgen from the Go source on every run. Do not edit. *)\nFrom Coq Require Import ZArith.\nLocal Open Scope Z_scope.\n")
	fail := false
	for _, w := range wants {
		p, err := load(w.Pkg)
		var v constant.Value
		if err == nil {
			dd, ok := p.decls[w.Name]
			if !ok {
				err = fmt.Errorf("no such constant")
			} else {
				v, err = eval(p, dd, dd.expr, 0)
			}
		}
		name := w.As
		if name == "" {
			name = filepath.Base(w.Pkg) + "_" + w.Name
		}
		if err != nil {
			fmt.Fprintf(os.Stderr, "constgen: %s.%s: %v\n", w.Pkg, w.Name, err)
			fmt.Fprintf(&sb, "(* MISSING %s.%s: %v *)\n", w.Pkg, w.Name, err)
			fail = true
			continue
		}
		switch v.Kind() {
		case constant.Int:
			s := v.ExactString()
			if strings.HasPrefix(s, "-") {
				s = "(" + s + ")"
			}
			fmt.Fprintf(&sb, "Definition %s : Z := %s.\n", name, s)
		case constant.Float:
			num, den := constant.Num(v), constant.Denom(v)
			fmt.Fprintf(&sb, "Definition %s : Z * Z := (%s, %s).\n", name, num.ExactString(), den.ExactString())
		case constant.Bool:
			fmt.Fprintf(&sb, "Definition %s : bool := %v.\n", name, constant.BoolVal(v))
		default:
			fmt.Fprintf(&sb, "(* UNSUPPORTED kind for %s.%s *)\n", w.Pkg, w.Name)
			fail = true
		}
	}
	fmt.Print(sb.String())
	if fail {
		os.Exit(3)
	}
}
