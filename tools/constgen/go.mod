module constgen

go 1.17
