#!/usr/bin/env python3
"""tools/add_fixed.py Cxx <commit> "<what failed>" [sig]  -> appends a 'fixed' entry to known_findings.json"""
import json, sys
f = '/verif/known_findings.json'
d = json.load(open(f))
pid, commit, what = sys.argv[1:4]
sig = sys.argv[4] if len(sys.argv) > 4 else ""
d['findings'].append({"property": pid, "status": "fixed", "commit": commit, "sig": sig, "what": what,
                      "line": "fixed: property=%s %s %s" % (pid, commit, what)})
json.dump(d, open(f, 'w'), indent=1)
