#!/bin/bash
# Coordinator: copy the named hook files (paths relative to repo root) from /verif/hooks into /repo and commit.
#   tools/commit_hooks.sh "message suffix" pkg/a/x_verif.go pkg/b/y_verif.go
set -eu
MSG=$1; shift
cd /repo
for f in "$@"; do mkdir -p "$(dirname "$f")"; cp "/verif/hooks/$f" "$f"; head -1 "$f" | grep -q '^//go:build verif' || { echo "$f lacks build tag"; exit 1; }; git add "$f"; done
export GOFLAGS=-mod=mod GOPROXY=off GOSUMDB=off GOTOOLCHAIN=local
for f in "$@"; do go build -tags verif "./$(dirname "$f")/" || { echo "hook build failed: $f"; exit 1; }; done
git diff --cached --quiet && { echo "hooks already up to date"; exit 0; }
git commit -qm "verif hooks: $MSG (build tag verif, add-only)"
H=$(git rev-parse --short HEAD)
echo "$H $* ($MSG)" >> /verif/MANIFEST.hooks
echo "committed $H"
