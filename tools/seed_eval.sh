#!/bin/bash
# Evaluate one independently produced breaking change:  tools/seed_eval.sh C20 1 [extra check ids...]
#  - uses the seeder's worktree /tmp/seed-<id>-<n> (patch applied, demo in place) and /tmp/seedout-<id>-<n>/
#  - confirms: demo fails with the patch, passes without, existing tests pass with the patch
#  - runs ./check <id> against the patched worktree (hooks installed), records the verdict
#  - stores everything under /verif/seeded/<id>-<n>/
set -u
ID=$1; N=$2; shift 2; EXTRA="$*"
WT=/tmp/seed-$ID-$N; OUT=/tmp/seedout-$ID-$N; DST=/verif/seeded/$ID-$N
export GOFLAGS=-mod=mod GOPROXY=off GOSUMDB=off GOTOOLCHAIN=local
cd /verif
mkdir -p "$DST"
cp "$OUT"/* "$DST"/ 2>/dev/null
DEMO=$(python3 -c "import json;print(json.load(open('$OUT/meta.json'))['demo_cmd'])")
TESTS=$(python3 -c "import json,re;print(re.split(r'\s{2,}\(', json.load(open('$OUT/meta.json'))['existing_tests_cmd'])[0])")  # drop a trailing '  (explanation)'
SKIP=$(echo "$DEMO" | grep -o '\-run [^ ]*' | head -1 | awk '{print $2}' | tr -d "'\"")
[ -n "$SKIP" ] && TESTS=$(echo "$TESTS" | sed "s/go test /go test -skip '$SKIP' /")
git -C "$WT" checkout -- . ; git -C "$WT" apply "$OUT/patch.diff" || { echo "patch does not apply on clean tree"; exit 2; }
echo "== demo with patch (expect FAIL)"; (eval "$DEMO") > "$DST/demo_with.log" 2>&1; W=$?; tail -3 "$DST/demo_with.log"
echo "== existing tests with patch (expect PASS)"; (eval "$TESTS") > "$DST/tests_with.log" 2>&1; T=$?; tail -3 "$DST/tests_with.log"
git -C "$WT" apply -R "$OUT/patch.diff" || { echo "cannot reverse patch"; exit 2; }
echo "== demo without patch (expect PASS)"; (eval "$DEMO") > "$DST/demo_without.log" 2>&1; WO=$?; tail -3 "$DST/demo_without.log"
git -C "$WT" apply "$OUT/patch.diff"
tools/install_hooks.sh "$WT"
RES=""
for C in $ID $EXTRA; do
  echo "== ./check $C against patched tree"
  VERIF_REPO=$WT VERIF_WORK=/verif/.work-seed-$ID-$N VERIF_EVIDENCE_DIR=/verif/.work-seed-$ID-$N/evidence ./check $C > "$DST/check_$C.log" 2>&1; R=$?
  grep "^VIOLATION\|^KNOWN" "$DST/check_$C.log"; echo "check $C exit=$R"
  RES="$RES \"$C\": {\"exit\": $R, \"violation_line\": $(grep -m1 '^VIOLATION' "$DST/check_$C.log" | python3 -c 'import json,sys; print(json.dumps(sys.stdin.read().strip()))')},"
done
python3 - <<PY
import json
m=json.load(open("$DST/meta.json"))
m["confirmed_by_coordinator"]={"demo_fails_with_patch": $W!=0, "demo_passes_without": $WO==0, "existing_tests_pass_with_patch": $T==0}
m["checks_run"]={ ${RES%,} }
m["what_i_ran"]="tools/seed_eval.sh $ID $N $EXTRA (demo with/without patch, existing tests with patch, ./check with VERIF_REPO=patched worktree + hooks)"
json.dump(m,open("$DST/meta.json","w"),indent=1)
print(json.dumps(m["confirmed_by_coordinator"]), json.dumps(m["checks_run"]))
PY
rm -rf /verif/.work-seed-$ID-$N
