#!/bin/bash
# Re-run checks against an already confirmed seeded change after a check was strengthened:
#   tools/seed_recheck.sh C36 1 [extra check ids]   (uses seeded/<id>-<n>/patch.diff on a fresh worktree of /repo HEAD)
set -u
ID=$1; N=$2; shift 2; EXTRA="$*"
WT=/tmp/recheck-$ID-$N; DST=/verif/seeded/$ID-$N
cd /verif
git -C /repo worktree add --detach "$WT" HEAD >/dev/null 2>&1
git -C "$WT" apply "$DST/patch.diff" || { echo "patch no longer applies"; git -C /repo worktree remove --force "$WT"; exit 2; }
tools/install_hooks.sh "$WT" >/dev/null
RES=""
for C in $ID $EXTRA; do
  VERIF_REPO=$WT VERIF_WORK=/verif/.work-recheck-$ID-$N VERIF_EVIDENCE_DIR=/verif/.work-recheck-$ID-$N/evidence ./check $C > "$DST/recheck_$C.log" 2>&1; R=$?
  echo "recheck $C exit=$R $(grep -m1 '^VIOLATION' "$DST/recheck_$C.log")"
  RES="$RES \"$C\": {\"exit\": $R, \"violation_line\": $(grep -m1 '^VIOLATION' "$DST/recheck_$C.log" | python3 -c 'import json,sys; print(json.dumps(sys.stdin.read().strip()))')},"
done
python3 - <<PY
import json
m=json.load(open("$DST/meta.json"))
m["first_evaluation"]=m.get("first_evaluation") or m.get("checks_run")
m["checks_run"]={ ${RES%,} }
m["coordinator_note"]="missed at first evaluation; check strengthened; re-run shown here"
json.dump(m,open("$DST/meta.json","w"),indent=1)
PY
git -C /repo worktree remove --force "$WT"; rm -rf /verif/.work-recheck-$ID-$N
