package routesim

import (
	"testing"
	"time"
)

func TestProf(t *testing.T) {
	adj := [][]bool{{false, true, false}, {true, false, true}, {false, true, false}}
	for k := 0; k < 3; k++ {
		t0 := time.Now()
		n, err := New(uint64(k), adj)
		if err != nil {
			t.Fatal(err)
		}
		t.Log("new", time.Since(t0))
		t0 = time.Now()
		n.Close()
		t.Log("close", time.Since(t0))
	}
}
