// Package routesim builds small networks of REAL routetab.Service instances (real
// kademlia, real route table and pending table, in-memory leveldb state store) whose only
// artificial part is the transport: every stream a service opens is captured as one message
// of a "soup", and the caller decides which message is delivered next (by calling the real
// protocol handler of the destination) or lost.  Everything is synchronous and
// deterministic given the seed (node keys are derived from the seed).
package routesim

import (
	"bytes"
	"context"
	"crypto/sha256"
	"errors"
	"fmt"
	"io"
	"sync"

	"github.com/gauss-project/aurorafs/pkg/addressbook"
	"github.com/gauss-project/aurorafs/pkg/aurora"
	"github.com/gauss-project/aurorafs/pkg/boson"
	"github.com/gauss-project/aurorafs/pkg/crypto"
	discmock "github.com/gauss-project/aurorafs/pkg/discovery/mock"
	"github.com/gauss-project/aurorafs/pkg/logging"
	"github.com/gauss-project/aurorafs/pkg/p2p"
	p2pmock "github.com/gauss-project/aurorafs/pkg/p2p/mock"
	"github.com/gauss-project/aurorafs/pkg/p2p/protobuf"
	"github.com/gauss-project/aurorafs/pkg/routetab"
	"github.com/gauss-project/aurorafs/pkg/routetab/pb"
	"github.com/gauss-project/aurorafs/pkg/shed"
	sldb "github.com/gauss-project/aurorafs/pkg/shed/leveldb"
	"github.com/gauss-project/aurorafs/pkg/statestore/leveldb"
	mockstate "github.com/gauss-project/aurorafs/pkg/statestore/mock"
	"github.com/gauss-project/aurorafs/pkg/subscribe"
	"github.com/gauss-project/aurorafs/pkg/topology/kademlia"
	"github.com/gauss-project/aurorafs/pkg/topology/lightnode"
	ma "github.com/multiformats/go-multiaddr"
)

const NetworkID uint64 = 0

var registerOnce sync.Once

// Msg is one captured stream: the single protobuf message written to it.
type Msg struct {
	From, To int
	Stream   string // onRouteReq | onRouteResp | relay | ...
	Data     []byte // varint-delimited protobuf as written
}

type Node struct {
	Idx     int
	Overlay boson.Address
	Addr    *aurora.Address
	Svc     *routetab.Service
	Kad     *kademlia.Kad
	Book    addressbook.Interface
	closers []io.Closer
}

type Net struct {
	Nodes   []*Node
	Soup    []Msg
	Relayed []Msg // streams opened for anything but route requests / responses (relay hand-overs)
	Adj     [][]bool
	byAddr  map[string]int
	cancel  context.CancelFunc
	Ctx     context.Context
}

// capture stream: collects what the service writes; reading returns EOF (the services
// never read on the streams they open for route requests / responses).
type outStream struct {
	net      *Net
	from, to int
	name     string
	buf      bytes.Buffer
	done     bool
	mu       sync.Mutex
}

func (s *outStream) Read(p []byte) (int, error) { return 0, io.EOF }
func (s *outStream) Write(p []byte) (int, error) {
	s.mu.Lock()
	defer s.mu.Unlock()
	return s.buf.Write(p)
}
func (s *outStream) Close() error                 { return nil }
func (s *outStream) FullClose() error             { return nil }
func (s *outStream) Reset() error                 { return nil }
func (s *outStream) Headers() p2p.Headers         { return nil }
func (s *outStream) ResponseHeaders() p2p.Headers { return nil }

// delivery stream: the handler reads the captured bytes from it
type inStream struct{ r *bytes.Reader }

func (s *inStream) Read(p []byte) (int, error)   { return s.r.Read(p) }
func (s *inStream) Write(p []byte) (int, error)  { return len(p), nil }
func (s *inStream) Close() error                 { return nil }
func (s *inStream) FullClose() error             { return nil }
func (s *inStream) Reset() error                 { return nil }
func (s *inStream) Headers() p2p.Headers         { return nil }
func (s *inStream) ResponseHeaders() p2p.Headers { return nil }

type streamer struct {
	net  *Net
	from int
}

// pending out-streams of the current handler call; flushed into the soup by the caller
type flushList struct {
	mu sync.Mutex
	l  []*outStream
}

var pendingOut flushList

func (st *streamer) NewStream(ctx context.Context, address boson.Address, h p2p.Headers, protocol, version, stream string) (p2p.Stream, error) {
	to, ok := st.net.byAddr[address.ByteString()]
	if !ok || !st.net.Adj[st.from][to] {
		return nil, errors.New("routesim: not connected")
	}
	s := &outStream{net: st.net, from: st.from, to: to, name: stream}
	pendingOut.mu.Lock()
	pendingOut.l = append(pendingOut.l, s)
	pendingOut.mu.Unlock()
	return s, nil
}
func (st *streamer) NewRelayStream(ctx context.Context, address boson.Address, h p2p.Headers, protocol, version, stream string, midCall bool) (p2p.Stream, error) {
	return nil, errors.New("routesim: relay streams not simulated")
}
func (st *streamer) NewConnChainRelayStream(ctx context.Context, target boson.Address, h p2p.Headers, protocolName, protocolVersion, streamName string) (p2p.Stream, error) {
	return nil, errors.New("routesim: relay streams not simulated")
}

// flush moves what was written since the last flush into the soup (in order of stream creation)
// and returns the new messages.
func (n *Net) flush() []Msg {
	pendingOut.mu.Lock()
	l := pendingOut.l
	pendingOut.l = nil
	pendingOut.mu.Unlock()
	var out []Msg
	for _, s := range l {
		s.mu.Lock()
		data := append([]byte{}, s.buf.Bytes()...)
		s.mu.Unlock()
		if len(data) == 0 {
			continue
		}
		m := Msg{From: s.from, To: s.to, Stream: s.name, Data: data}
		if s.name != "onRouteReq" && s.name != "onRouteResp" {
			n.Relayed = append(n.Relayed, m)
			continue
		}
		out = append(out, m)
	}
	n.Soup = append(n.Soup, out...)
	return out
}

// KeyBytes derives node i's private key from the seed.
func keyBytes(seed uint64, i int) []byte {
	h := sha256.Sum256([]byte(fmt.Sprintf("routesim-%d-%d", seed, i)))
	return h[:]
}

// New builds n services and connects them according to adj (symmetric).
func New(seed uint64, adj [][]bool) (*Net, error) {
	registerOnce.Do(func() { shed.Register("leveldb", sldb.Driver{}) })
	ctx, cancel := context.WithCancel(context.Background())
	net := &Net{Adj: adj, byAddr: map[string]int{}, cancel: cancel, Ctx: ctx}
	logger := logging.New(io.Discard, 0)
	for i := range adj {
		pk := crypto.Secp256k1PrivateKeyFromBytes(keyBytes(seed, i))
		signer := crypto.NewDefaultSigner(pk)
		overlay, err := crypto.NewOverlayAddress(pk.PublicKey, NetworkID)
		if err != nil {
			return nil, err
		}
		mu, err := ma.NewMultiaddr("/ip4/127.0.0.1/tcp/1634/dns/" + overlay.String())
		if err != nil {
			return nil, err
		}
		addr, err := aurora.NewAddress(signer, mu, overlay, NetworkID)
		if err != nil {
			return nil, err
		}
		metricsDB, err := shed.NewDB("", nil)
		if err != nil {
			return nil, err
		}
		st1 := mockstate.NewStateStore() // address book only (Get/Put); the route table gets leveldb
		st2, err := leveldb.NewInMemoryStateStore(logger)
		if err != nil {
			return nil, err
		}
		ab := addressbook.New(st1)
		p2ps := p2pmock.New(
			p2pmock.WithConnectFunc(func(ctx context.Context, underlay ma.Multiaddr) (*p2p.Peer, error) {
				return nil, errors.New("routesim: no dialing")
			}),
			p2pmock.WithDisconnectFunc(func(boson.Address, string) error { return nil }),
		)
		kad, err := kademlia.New(overlay, ab, discmock.NewDiscovery(), p2ps, nil, nil, nil, metricsDB, logger, subscribe.NewSubPub(),
			kademlia.Options{BinMaxPeers: 10, NodeMode: aurora.NewModel().SetMode(aurora.FullNode)})
		if err != nil {
			return nil, err
		}
		p2ps.SetPickyNotifier(kad)
		svc := routetab.New(overlay, ctx, p2ps, &streamer{net: net, from: i}, ab, NetworkID, lightnode.NewContainer(overlay), kad, st2, logger, routetab.Options{})
		nd := &Node{Idx: i, Overlay: overlay, Addr: addr, Svc: svc, Kad: kad, Book: ab, closers: []io.Closer{metricsDB, st1, st2}}
		net.Nodes = append(net.Nodes, nd)
		net.byAddr[overlay.ByteString()] = i
	}
	for i := range adj {
		for j := range adj {
			if i != j && adj[i][j] {
				a, b := net.Nodes[i], net.Nodes[j]
				if err := a.Book.Put(b.Overlay, *b.Addr); err != nil {
					return nil, err
				}
				if err := a.Kad.Connected(ctx, p2p.Peer{Address: b.Overlay, Mode: aurora.NewModel().SetMode(aurora.FullNode)}, true); err != nil {
					return nil, err
				}
			}
		}
	}
	return net, nil
}

// Close stops the services.  Kad.Close waits 5 s for a manage loop that was never started
// (kademlia.Start is not called: the topology is set by Connected), so it runs in the background;
// the databases (4 MiB write buffers each) are closed right away so that memory does not pile up
// when many networks are built in a row — Kad.Close's final metrics flush then just gets an error.
func (n *Net) Close() {
	n.cancel()
	for _, nd := range n.Nodes {
		for _, c := range nd.closers {
			_ = c.Close()
		}
		go func(nd *Node) {
			defer func() { _ = recover() }()
			_ = nd.Kad.Close()
		}(nd)
	}
	n.Nodes = nil
	n.Soup = nil
}

// Index of an overlay address (-1 if it is not a node of this network).
func (n *Net) Index(a []byte) int {
	if i, ok := n.byAddr[string(a)]; ok {
		return i
	}
	return -1
}

func (n *Net) handler(to int, name string) p2p.HandlerFunc {
	for _, sp := range n.Nodes[to].Svc.Protocol().StreamSpecs {
		if sp.Name == name {
			return sp.Handler
		}
	}
	return nil
}

// Deliver removes soup message i and runs the destination's real handler on it; returns the
// messages the handler sent (already appended to the soup).
func (n *Net) Deliver(i int) ([]Msg, error) {
	m := n.Soup[i]
	n.Soup = append(n.Soup[:i:i], n.Soup[i+1:]...)
	h := n.handler(m.To, m.Stream)
	if h == nil {
		return nil, fmt.Errorf("routesim: no handler for %s", m.Stream)
	}
	err := h(n.Ctx, p2p.Peer{Address: n.Nodes[m.From].Overlay, Mode: aurora.NewModel().SetMode(aurora.FullNode)}, &inStream{r: bytes.NewReader(m.Data)})
	return n.flush(), err
}

// Lose removes soup message i.
func (n *Net) Lose(i int) { n.Soup = append(n.Soup[:i:i], n.Soup[i+1:]...) }

// StartFind runs the sending half of FindRoute at node i (hook VerifStartFind).
func (n *Net) StartFind(i, target int) ([]int, []Msg) {
	fw := n.Nodes[i].Svc.VerifStartFind(n.Ctx, n.Nodes[target].Overlay)
	var ix []int
	for _, a := range fw {
		ix = append(ix, n.Index(a.Bytes()))
	}
	return ix, n.flush()
}

// PendingOut is the number of streams opened since the last flush.
func (n *Net) PendingOut() int {
	pendingOut.mu.Lock()
	defer pendingOut.mu.Unlock()
	return len(pendingOut.l)
}

// RelayHandler returns node i's real handler of the given relay stream.
func (n *Net) RelayHandler(i int, name string) p2p.HandlerFunc { return n.handler(i, name) }

// NewInStream wraps bytes as the stream a handler reads from.
func NewInStream(data []byte) p2p.Stream { return &inStream{r: bytes.NewReader(data)} }

// Flush exposes flush for callers that invoke service methods themselves (FindRoute).
func (n *Net) Flush() []Msg { return n.flush() }

// Decoded view of a route request / response.
type Decoded struct {
	Kind   string // req | resp
	Target int
	Alpha  int32
	UType  int32
	Paths  [][]int // item indices (-1: not a node)
}

func (n *Net) Decode(m Msg) (Decoded, error) {
	r := protobuf.NewReader(&inStream{r: bytes.NewReader(m.Data)})
	conv := func(ps []*pb.Path) [][]int {
		var out [][]int
		for _, p := range ps {
			var it []int
			for _, b := range p.Items {
				it = append(it, n.Index(b))
			}
			out = append(out, it)
		}
		return out
	}
	switch m.Stream {
	case "onRouteReq":
		var req pb.RouteReq
		if err := r.ReadMsg(&req); err != nil {
			return Decoded{}, err
		}
		return Decoded{Kind: "req", Target: n.Index(req.Dest), Alpha: req.Alpha, UType: req.UType, Paths: conv(req.Paths)}, nil
	case "onRouteResp":
		var resp pb.RouteResp
		if err := r.ReadMsg(&resp); err != nil {
			return Decoded{}, err
		}
		return Decoded{Kind: "resp", Target: n.Index(resp.Dest), UType: resp.UType, Paths: conv(resp.Paths)}, nil
	}
	return Decoded{}, fmt.Errorf("routesim: unknown stream %s", m.Stream)
}
