// Package hx is the shared part of every per-property harness binary:
// one PRNG (splitmix64) from which every random choice derives, Coq literal
// emitters, the case/oracle bookkeeping, and the result files the python
// driver (`/verif/check`) reads.
//
// A harness binary
//   - generates cases from the seed (corpus first),
//   - runs the implementation on each case,
//   - evaluates the property's own oracle on the implementation's observable
//     result (Violation),
//   - records the case as a Coq term `(input, observed)` for the
//     correspondence check evaluated inside Coq by vm_compute.
package hx

import (
	"encoding/json"
	"flag"
	"fmt"
	"os"
	"path/filepath"
	"sort"
	"strings"
	"time"
)

// ---------------------------------------------------------------- PRNG

type Rand struct{ s uint64 }

func NewRand(seed uint64) *Rand { return &Rand{s: seed*0x9E3779B97F4A7C15 + 0x1234567} }

func (r *Rand) U64() uint64 {
	r.s += 0x9E3779B97F4A7C15
	z := r.s
	z = (z ^ (z >> 30)) * 0xBF58476D1CE4E5B9
	z = (z ^ (z >> 27)) * 0x94D049BB133111EB
	return z ^ (z >> 31)
}

// Intn returns a value in [0,n).
func (r *Rand) Intn(n int) int {
	if n <= 0 {
		return 0
	}
	return int(r.U64() % uint64(n))
}
func (r *Rand) Bool() bool     { return r.U64()&1 == 1 }
func (r *Rand) Chance(p, q int) bool { return r.Intn(q) < p }
func (r *Rand) Bytes(n int) []byte {
	b := make([]byte, n)
	for i := range b {
		b[i] = byte(r.U64())
	}
	return b
}
func (r *Rand) Pick(xs []int) int { return xs[r.Intn(len(xs))] }

// Fork derives an independent generator (so that adding a choice in one
// sub-generator does not shift the others).
func (r *Rand) Fork(tag uint64) *Rand { return NewRand(r.U64() ^ tag) }

// ---------------------------------------------------------------- Coq literals

func CoqN(v uint64) string  { return fmt.Sprintf("%d%%N", v) }
func CoqZ(v int64) string {
	if v < 0 {
		return fmt.Sprintf("(%d)%%Z", v)
	}
	return fmt.Sprintf("%d%%Z", v)
}
func CoqNat(v int) string { return fmt.Sprintf("%d%%nat", v) }
func CoqBool(b bool) string {
	if b {
		return "true"
	}
	return "false"
}

// CoqBytes renders a byte string as `list N`.
func CoqBytes(b []byte) string {
	if len(b) == 0 {
		return "(@nil N)"
	}
	var sb strings.Builder
	sb.WriteString("[")
	for i, x := range b {
		if i > 0 {
			sb.WriteByte(';')
		}
		fmt.Fprintf(&sb, "%d", x)
	}
	sb.WriteString("]%N")
	return sb.String()
}

func CoqList(elems []string, ty string) string {
	if len(elems) == 0 {
		return "(@nil (" + ty + "))"
	}
	return "[" + strings.Join(elems, "; ") + "]"
}
func CoqBytesList(bs [][]byte) string {
	el := make([]string, len(bs))
	for i, b := range bs {
		el[i] = CoqBytes(b)
	}
	return CoqList(el, "list N")
}
func CoqNList(vs []uint64) string {
	el := make([]string, len(vs))
	for i, v := range vs {
		el[i] = CoqN(v)
	}
	return CoqList(el, "N")
}
func CoqZList(vs []int64) string {
	el := make([]string, len(vs))
	for i, v := range vs {
		el[i] = CoqZ(v)
	}
	return CoqList(el, "Z")
}
func CoqBoolList(vs []bool) string {
	el := make([]string, len(vs))
	for i, v := range vs {
		el[i] = CoqBool(v)
	}
	return CoqList(el, "bool")
}
func CoqPair(a, b string) string       { return "(" + a + ", " + b + ")" }
func CoqTuple(xs ...string) string     { return "(" + strings.Join(xs, ", ") + ")" }
func CoqSome(a string) string          { return "(Some " + a + ")" }
func CoqApp(f string, xs ...string) string {
	return "(" + f + " " + strings.Join(xs, " ") + ")"
}

// ---------------------------------------------------------------- run bookkeeping

type Violation struct {
	Sig    string      `json:"sig"`    // narrow, stable signature of WHAT fails (matched against known_findings.json)
	Detail string      `json:"detail"` // human-readable
	Case   interface{} `json:"case"`   // replayable input (JSON)
	Impl   interface{} `json:"impl"`   // what the implementation returned
	Want   interface{} `json:"want"`   // what the property demands
}

type Case struct {
	Coq  string      `json:"coq"`  // Coq term of type <Module>.case
	JSON interface{} `json:"json"` // same case, JSON (for replay files and samples)
	Key  string      `json:"-"`    // canonical key for distinctness
	Nontrivial bool  `json:"-"`
}

type Result struct {
	Property    string                 `json:"property"`
	Tier        string                 `json:"tier"`
	Seed        uint64                 `json:"seed"`
	CoqModule   string                 `json:"coq_module"`   // e.g. Aurora.C20.Corr  (must define case, check_case, explain_case)
	Evaluations int                    `json:"evaluations"`
	Distinct    int                    `json:"distinct_nontrivial"`
	Rule        string                 `json:"rule"`
	Samples     []interface{}          `json:"samples"`
	Histogram   map[string]int         `json:"histogram"`
	Violations  []Violation            `json:"violations"`
	OracleChecks int                   `json:"oracle_checks"`
	Extra       map[string]interface{} `json:"extra,omitempty"`
	NumCases    int                    `json:"num_cases"`
	Notes       []string               `json:"notes,omitempty"`
	WallS       float64                `json:"wall_s"`
}

type Run struct {
	Property string
	Tier     string
	Seed     uint64
	Out      string
	Replay   string
	R        *Rand
	res      Result
	cases    []Case
	seen     map[string]bool
	start    time.Time
	maxSamples int
}

// Start parses the common flags: --seed N --tier quick|thorough --out DIR [--replay FILE]
func Start(property, coqModule, rule string) *Run {
	seed := flag.Uint64("seed", 1, "PRNG seed")
	tier := flag.String("tier", "quick", "quick|thorough")
	out := flag.String("out", ".", "output directory")
	replay := flag.String("replay", "", "replay file")
	flag.Parse()
	r := &Run{Property: property, Tier: *tier, Seed: *seed, Out: *out, Replay: *replay,
		R: NewRand(*seed), seen: map[string]bool{}, start: time.Now(), maxSamples: 6}
	r.res = Result{Property: property, Tier: *tier, Seed: *seed, CoqModule: coqModule, Rule: rule,
		Histogram: map[string]int{}, Extra: map[string]interface{}{}}
	if err := os.MkdirAll(*out, 0o755); err != nil {
		panic(err)
	}
	return r
}

func (r *Run) Thorough() bool { return r.Tier == "thorough" }

// N picks the case count for the tier.
func (r *Run) N(quick, thorough int) int {
	if r.Thorough() {
		return thorough
	}
	return quick
}

func (r *Run) Hist(k string)            { r.res.Histogram[k]++ }
func (r *Run) HistN(k string, n int)    { r.res.Histogram[k] += n }
func (r *Run) Note(s string)            { r.res.Notes = append(r.res.Notes, s) }
func (r *Run) SetExtra(k string, v interface{}) { r.res.Extra[k] = v }
func (r *Run) OracleChecked(n int)      { r.res.OracleChecks += n }

// AddCase records one executed case. key: canonical string for distinctness;
// nontrivial: reaches the property's interesting region by the stated rule.
// coq may be "" when the case is only oracle-checked (not part of the
// Coq correspondence).
func (r *Run) AddCase(coq string, js interface{}, key string, nontrivial bool) {
	r.res.Evaluations++
	if !r.seen[key] {
		r.seen[key] = true
		if nontrivial {
			r.res.Distinct++
			if len(r.res.Samples) < r.maxSamples {
				r.res.Samples = append(r.res.Samples, js)
			}
		}
	}
	if coq != "" {
		r.cases = append(r.cases, Case{Coq: coq, JSON: js, Key: key, Nontrivial: nontrivial})
	}
}

func (r *Run) Violate(v Violation) { r.res.Violations = append(r.res.Violations, v) }

// Finish writes cases_<k>.v shards (<= shard cases each), cases.json and result.json.
func (r *Run) Finish() {
	const shard = 400
	nsh := 0
	for i := 0; i < len(r.cases); i += shard {
		j := i + shard
		if j > len(r.cases) {
			j = len(r.cases)
		}
		var sb strings.Builder
		fmt.Fprintf(&sb, "(* generated by harness %s seed=%d tier=%s: cases %d..%d *)\n", r.Property, r.Seed, r.Tier, i, j-1)
		fmt.Fprintf(&sb, "From Coq Require Import List ZArith NArith String. Import ListNotations.\n")
		fmt.Fprintf(&sb, "From Aurora Require Import Base.Corr.\nRequire Import %s.\nLocal Open Scope string_scope.\n", r.res.CoqModule)
		fmt.Fprintf(&sb, "Definition cases : list %s.case := [\n", r.res.CoqModule)
		for k := i; k < j; k++ {
			sb.WriteString("  ")
			sb.WriteString(r.cases[k].Coq)
			if k < j-1 {
				sb.WriteString(";")
			}
			sb.WriteString("\n")
		}
		fmt.Fprintf(&sb, "].\n")
		fmt.Fprintf(&sb, "Definition M := Eval vm_compute in (mismatch_idx %s.check_case cases).\n", r.res.CoqModule)
		fmt.Fprintf(&sb, "Print M.\n")
		fmt.Fprintf(&sb, "Definition E := Eval vm_compute in (match M with nil => None | i :: _ => option_map %s.explain_case (nth_error cases i) end).\nPrint E.\n", r.res.CoqModule)
		if err := os.WriteFile(filepath.Join(r.Out, fmt.Sprintf("cases_%d.v", nsh)), []byte(sb.String()), 0o644); err != nil {
			panic(err)
		}
		nsh++
	}
	cj := make([]interface{}, len(r.cases))
	for i, c := range r.cases {
		cj[i] = map[string]interface{}{"json": c.JSON, "coq": c.Coq}
	}
	writeJSON(filepath.Join(r.Out, "cases.json"), cj)
	r.res.NumCases = len(r.cases)
	r.res.WallS = time.Since(r.start).Seconds()
	if r.res.Samples == nil {
		r.res.Samples = []interface{}{}
	}
	if r.res.Violations == nil {
		r.res.Violations = []Violation{}
	}
	r.res.Extra["shards"] = nsh
	writeJSON(filepath.Join(r.Out, "result.json"), r.res)
}

func writeJSON(path string, v interface{}) {
	b, err := json.MarshalIndent(v, "", " ")
	if err != nil {
		panic(err)
	}
	if err := os.WriteFile(path, b, 0o644); err != nil {
		panic(err)
	}
}

// ReadReplay loads the `case` member of a replay file into v.
func (r *Run) ReadReplay(v interface{}) error {
	b, err := os.ReadFile(r.Replay)
	if err != nil {
		return err
	}
	var wrap struct {
		Case json.RawMessage `json:"case"`
	}
	if err := json.Unmarshal(b, &wrap); err != nil {
		return err
	}
	return json.Unmarshal(wrap.Case, v)
}

// CorpusFiles lists /verif/corpus/<property>/*.json (sorted); the directory of
// the binary's caller is /verif.
func CorpusFiles(property string) []string {
	root := os.Getenv("VERIF_ROOT")
	if root == "" {
		root = "/verif"
	}
	m, _ := filepath.Glob(filepath.Join(root, "corpus", property, "*.json"))
	sort.Strings(m)
	return m
}

// Hex helper for JSON cases.
func Hex(b []byte) string { return fmt.Sprintf("%x", b) }

// Guard runs f and converts a panic into (true, message).
func Guard(f func()) (panicked bool, msg string) {
	defer func() {
		if e := recover(); e != nil {
			panicked = true
			msg = fmt.Sprint(e)
		}
	}()
	f()
	return
}

// WithTimeout runs f in a goroutine; returns false if it did not finish in d
// (a hang becomes an observable, never a stuck check).
func WithTimeout(d time.Duration, f func()) bool {
	done := make(chan struct{})
	go func() { defer close(done); f() }()
	select {
	case <-done:
		return true
	case <-time.After(d):
		return false
	}
}
