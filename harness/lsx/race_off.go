//go:build !race

package lsx

// RaceEnabled: the binary was built with -race (thorough tier): volumes are scaled down.
const RaceEnabled = false
