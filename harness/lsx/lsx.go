// Package lsx is the shared harness library for the localstore properties
// (C11, C13; reusable for C12, C14..C16): it opens a real localstore.DB on
// leveldb (in memory or on disk) with the verif hooks installed (pinned clock,
// background collection worker stopped, synchronous collection with an
// interleaving point), executes replayable operations, and renders every
// operation / observation / canonical index dump as a term of
// Aurora.C11.Corr (compact form: addresses are indexes into the history's
// address universe).
package lsx

import (
	"context"
	"encoding/hex"
	"errors"
	"fmt"
	"io"
	"os"
	"strings"
	"sync"

	"github.com/gauss-project/aurorafs/pkg/aurora"
	"github.com/gauss-project/aurorafs/pkg/boson"
	"github.com/gauss-project/aurorafs/pkg/chunkinfo"
	"github.com/gauss-project/aurorafs/pkg/localstore"
	"github.com/gauss-project/aurorafs/pkg/logging"
	"github.com/gauss-project/aurorafs/pkg/retrieval/aco"
	"github.com/gauss-project/aurorafs/pkg/sctx"
	"github.com/gauss-project/aurorafs/pkg/shed"
	"github.com/gauss-project/aurorafs/pkg/shed/driver"
	sldb "github.com/gauss-project/aurorafs/pkg/shed/leveldb"
	"github.com/gauss-project/aurorafs/pkg/storage"
	"verifharness/hx"
)

var regOnce sync.Once

// Register makes the leveldb shed driver available (it is only registered
// by the repo under build tag `leveldb`).
func Register() {
	regOnce.Do(func() {
		for _, d := range shed.Drivers() {
			if d == "leveldb" {
				return
			}
		}
		shed.Register("leveldb", sldb.Driver{})
	})
}

// ---------------------------------------------------------------- replayable history

// Ch is one chunk of a put: address index and data.
type Ch struct {
	A int    `json:"a"`
	D string `json:"d"` // hex
}

// PyrEnt is one (cid, number) entry of a pyramid.
type PyrEnt struct {
	A int `json:"a"`
	N int `json:"n"`
}

// Pyr is what the chunkinfo stub knows about one root during a collection run.
type Pyr struct {
	Root   int      `json:"root"`
	Chunks []PyrEnt `json:"chunks"`
}

// Op is one operation on the store. Root: -1 = no root hash in the context.
type Op struct {
	K     string `json:"k"` // put get getmulti has hasmulti set gc reopen
	T     int64  `json:"t,omitempty"`
	Mode  int    `json:"mode"`
	Root  int    `json:"root"`
	Chs   []Ch   `json:"chs,omitempty"`
	A     int    `json:"a,omitempty"`
	Addrs []int  `json:"addrs,omitempty"`
	// gc
	BatchSize uint64 `json:"batchsize,omitempty"`
	Pyr       []Pyr  `json:"pyr,omitempty"`
	Inner     []Op   `json:"inner,omitempty"` // executed at the interleaving point (candidate selection done, eviction not started)
}

// Hist is a replayable history.
type Hist struct {
	Kind string   `json:"kind"`
	Base string   `json:"base"` // hex base key
	Cap  uint64   `json:"cap"`
	Disk bool     `json:"disk"`
	Univ []string `json:"univ"` // hex addresses
	Ops  []Op     `json:"ops"`
	// batch-vs-sequence twin: index of the put that is replaced by single puts on the twin store (-1 none)
	Twin int `json:"twin"`
}

// ---------------------------------------------------------------- chunkinfo stub

type stub struct {
	mu  sync.Mutex
	pyr map[string][]*chunkinfo.PyramidCidNum
}

func (s *stub) FindChunkInfo(context.Context, []byte, boson.Address, []boson.Address) bool {
	return false
}
func (s *stub) GetChunkInfo(boson.Address, boson.Address) []aco.Route { return nil }
func (s *stub) GetChunkInfoDiscoverOverlays(boson.Address) []aurora.ChunkInfoOverlay {
	return nil
}
func (s *stub) GetChunkInfoServerOverlays(boson.Address) []aurora.ChunkInfoOverlay { return nil }
func (s *stub) CancelFindChunkInfo(boson.Address)                                  {}
func (s *stub) OnChunkTransferred(boson.Address, boson.Address, boson.Address, boson.Address) error {
	return nil
}
func (s *stub) Init(context.Context, []byte, boson.Address) bool { return false }
func (s *stub) GetChunkPyramid(root boson.Address) []*chunkinfo.PyramidCidNum {
	s.mu.Lock()
	defer s.mu.Unlock()
	return s.pyr[root.ByteString()]
}
func (s *stub) IsDiscover(boson.Address) bool { return false }
func (s *stub) GetFileList(boson.Address) ([]map[string]interface{}, []boson.Address) {
	return nil, nil
}

// DelFile: unknown root -> storage.ErrNotFound (what chunkinfo.getPyramid
// yields); otherwise run the callback and forget the file when it succeeded.
func (s *stub) DelFile(root boson.Address, del func() error) error {
	s.mu.Lock()
	_, ok := s.pyr[root.ByteString()]
	s.mu.Unlock()
	if !ok {
		return storage.ErrNotFound
	}
	if err := del(); err != nil {
		return err
	}
	s.mu.Lock()
	delete(s.pyr, root.ByteString())
	s.mu.Unlock()
	return nil
}
func (s *stub) DelDiscover(boson.Address)                                      {}
func (s *stub) OnChunkRetrieved(boson.Address, boson.Address, boson.Address) error { return nil }
func (s *stub) GetChunkInfoSource(boson.Address) aurora.ChunkInfoSourceApi {
	return aurora.ChunkInfoSourceApi{}
}
func (s *stub) ManifestView(context.Context, string, string, int) (*chunkinfo.ManifestNode, error) {
	return nil, errors.New("stub")
}
func (s *stub) GetManifest(string, string, int) *chunkinfo.ManifestNode { return nil }

// ---------------------------------------------------------------- store under test

// Store is one localstore.DB under test plus the recorder.
type Store struct {
	H     *Hist
	DB    *localstore.DB
	disc  *stub
	univ  [][]byte
	idx   map[string]int
	path  string
	Steps []string // Coq terms (cop, cobs, cdump)
	// last dump / observation, for the oracles
	Last    localstore.VerifDump
	LastRun bool // a collection is running (dump taken at the interleaving point or inside)
	Trace   []StepInfo

	prevParts dumpParts
	havePrev  bool
}

// StepInfo is what the oracles look at.
type StepInfo struct {
	Op      Op
	Kind    string // put get ... gcbegin gcend reopen
	Err     uint64
	Exist   []bool
	Data    [][]byte
	Bools   []bool
	Trig    bool
	Started bool
	Coll    uint64
	Done    bool
	Dump    localstore.VerifDump
	Running bool
	Inner   bool // executed at the interleaving point of a collection
}

// nowVal is the pinned clock: every operation sets it before the call
// (operations are executed one at a time, also with twin stores).
var nowVal int64

func discardLogger() logging.Logger { return logging.New(io.Discard, 0) }

func unhex(s string) []byte { b, _ := hex.DecodeString(s); return b }

// Open creates the store for a history (fresh database).
func Open(h *Hist) (*Store, error) {
	Register()
	st := &Store{H: h, idx: map[string]int{}, disc: &stub{pyr: map[string][]*chunkinfo.PyramidCidNum{}}}
	for i, u := range h.Univ {
		b := unhex(u)
		st.univ = append(st.univ, b)
		st.idx[string(b)] = i
	}
	if h.Disk {
		dir, err := os.MkdirTemp(os.Getenv("VERIF_WORKDIR"), "ls-")
		if err != nil {
			return nil, err
		}
		st.path = dir
	}
	if err := st.open(); err != nil {
		return nil, err
	}
	return st, nil
}

func (st *Store) open() error {
	db, err := localstore.New(st.path, unhex(st.H.Base), &localstore.Options{Capacity: st.H.Cap, Driver: `leveldb:{"WriteBuffer":262144,"BlockCacheCapacity":262144}`}, logging.New(io.Discard, 0))
	if err != nil {
		return err
	}
	db.VerifStopGCWorker()
	db.SetChunkInfo(st.disc)
	st.DB = db
	localstore.VerifSetNow(func() int64 { return nowVal })
	return nil
}

// Close closes the database and removes an on-disk directory.
func (st *Store) Close() {
	if st.DB != nil {
		_ = st.DB.Close()
		st.DB = nil
	}
	if st.path != "" {
		_ = os.RemoveAll(st.path)
	}
}

func (st *Store) addr(i int) boson.Address {
	if i < 0 || i >= len(st.univ) {
		return boson.NewAddress([]byte{0xEE, 0xEE, 0xEE})
	}
	return boson.NewAddress(st.univ[i])
}
func (st *Store) ctx(root int) context.Context {
	if root < 0 {
		return context.Background()
	}
	return sctx.SetRootHash(context.Background(), st.addr(root))
}

func errClass(err error) uint64 {
	switch {
	case err == nil:
		return 0
	case errors.Is(err, driver.ErrNotFound):
		return 1
	case errors.Is(err, storage.ErrNotFound):
		return 2
	case errors.Is(err, localstore.ErrInvalidMode):
		return 3
	}
	return 9
}

// ---------------------------------------------------------------- Coq rendering
// (monomorphic constructors of Aurora.C11.Corr: nl = E | C a t, rows = RE | R2.. | RD.. | RB.. | RP..)

func u64(t int64) uint64 { return uint64(t) }

func (st *Store) ai(b []byte) string {
	if i, ok := st.idx[string(b)]; ok {
		return fmt.Sprint(i)
	}
	return "99999"
}
func coqRoot(r int) string {
	if r < 0 {
		return "NoRoot"
	}
	return fmt.Sprintf("(Root %d)", r)
}

// nlOf renders numbers as a right-nested nl term.
func nlOf(xs []uint64) string {
	if len(xs) == 0 {
		return "E"
	}
	var sb strings.Builder
	for _, x := range xs {
		fmt.Fprintf(&sb, "(C %d ", x)
	}
	sb.WriteString("E")
	sb.WriteString(strings.Repeat(")", len(xs)))
	return sb.String()
}
func coqIdxList(l []int) string {
	xs := make([]uint64, len(l))
	for i, x := range l {
		xs[i] = uint64(x)
	}
	return nlOf(xs)
}
func coqRawBytes(b []byte) string {
	xs := make([]uint64, len(b))
	for i, x := range b {
		xs[i] = uint64(x)
	}
	return nlOf(xs)
}
func coqBools(l []bool) string {
	xs := make([]uint64, len(l))
	for i, x := range l {
		if x {
			xs[i] = 1
		}
	}
	return nlOf(xs)
}

// rowsOf nests row constructors: each element is "R2 a b" etc. without the tail.
func rowsOf(rows []string) string {
	if len(rows) == 0 {
		return "RE"
	}
	var sb strings.Builder
	for _, r := range rows {
		sb.WriteString("(")
		sb.WriteString(r)
		sb.WriteString(" ")
	}
	sb.WriteString("RE")
	sb.WriteString(strings.Repeat(")", len(rows)))
	return sb.String()
}

type dumpParts struct{ data, access, gc, pin, bins string }

func (st *Store) coqDump(d localstore.VerifDump, running bool, dirty []boson.Address) string {
	var p dumpParts
	var rs []string
	for _, e := range d.Data {
		rs = append(rs, fmt.Sprintf("RD %s %d %d %s", st.ai(e.Address), e.BinID, u64(e.StoreTimestamp), coqRawBytes(e.Data)))
	}
	p.data = rowsOf(rs)
	rs = nil
	for _, e := range d.Access {
		rs = append(rs, fmt.Sprintf("R2 %s %d", st.ai(e.Address), u64(e.AccessTimestamp)))
	}
	p.access = rowsOf(rs)
	rs = nil
	for _, e := range d.GC {
		rs = append(rs, fmt.Sprintf("R4 %d %d %s %d", u64(e.AccessTimestamp), e.BinID, st.ai(e.Address), e.GCounter))
	}
	p.gc = rowsOf(rs)
	rs = nil
	for _, e := range d.Pin {
		rs = append(rs, fmt.Sprintf("R2 %s %d", st.ai(e.Address), e.PinCounter))
	}
	p.pin = rowsOf(rs)
	rs = nil
	for _, e := range d.BinIDs {
		rs = append(rs, fmt.Sprintf("R2 %d %d", e.PO, e.ID))
	}
	p.bins = rowsOf(rs)
	f := func(cur, prev string) string {
		if st.havePrev && cur == prev {
			return "Same"
		}
		return "(Now " + cur + ")"
	}
	out := fmt.Sprintf("(D %s %s %s %s %s %d %s ", f(p.data, st.prevParts.data), f(p.access, st.prevParts.access),
		f(p.gc, st.prevParts.gc), f(p.pin, st.prevParts.pin), f(p.bins, st.prevParts.bins), d.GCSize, hx.CoqBool(running))
	ds := make([]uint64, len(dirty))
	for i, a := range dirty {
		if k, ok := st.idx[string(a.Bytes())]; ok {
			ds[i] = uint64(k)
		} else {
			ds[i] = 99999
		}
	}
	out += nlOf(ds) + ")"
	st.prevParts = p
	st.havePrev = true
	return out
}

func (st *Store) record(cop, cobs string, info StepInfo) {
	d, err := st.DB.VerifDump()
	if err != nil {
		panic(err)
	}
	running, dirty := st.DB.VerifGCState()
	info.Dump = d
	info.Running = running
	st.Last = d
	st.LastRun = running
	st.Steps = append(st.Steps, "("+cop+") ("+cobs+") "+st.coqDump(d, running, dirty))
	st.Trace = append(st.Trace, info)
}

// ---------------------------------------------------------------- execution

// Exec runs one operation on the real store and records it.
func (st *Store) Exec(op Op, inner bool) {
	nowVal = op.T
	switch op.K {
	case "put":
		chs := make([]boson.Chunk, len(op.Chs))
		cs := make([]string, len(op.Chs))
		for i, c := range op.Chs {
			chs[i] = boson.NewChunk(st.addr(c.A), unhex(c.D))
			cs[i] = fmt.Sprintf("RB %d %s", c.A, coqRawBytes(unhex(c.D)))
		}
		exist, err := st.DB.Put(st.ctx(op.Root), storage.ModePut(op.Mode), chs...)
		trig := st.DB.VerifGCTriggered()
		ec := errClass(err)
		if err != nil {
			exist = nil
		}
		st.record(fmt.Sprintf("KPut %d %d %s %s", u64(op.T), op.Mode, coqRoot(op.Root), rowsOf(cs)),
			fmt.Sprintf("QPut %d %s %s", ec, coqBools(exist), hx.CoqBool(trig)),
			StepInfo{Op: op, Kind: "put", Err: ec, Exist: exist, Trig: trig, Inner: inner})
	case "get":
		ch, err := st.DB.Get(st.ctx(op.Root), storage.ModeGet(op.Mode), st.addr(op.A))
		st.DB.VerifWaitUpdateGC()
		ec := errClass(err)
		var data []byte
		if err == nil {
			data = ch.Data()
		}
		st.record(fmt.Sprintf("KGet %d %d %s %d", u64(op.T), op.Mode, coqRoot(op.Root), op.A),
			fmt.Sprintf("QGet %d %s", ec, coqRawBytes(data)),
			StepInfo{Op: op, Kind: "get", Err: ec, Data: [][]byte{data}, Inner: inner})
	case "getmulti":
		addrs := make([]boson.Address, len(op.Addrs))
		for i, a := range op.Addrs {
			addrs[i] = st.addr(a)
		}
		chs, err := st.DB.GetMulti(st.ctx(op.Root), storage.ModeGet(op.Mode), addrs...)
		st.DB.VerifWaitUpdateGC()
		ec := errClass(err)
		var datas [][]byte
		ds := []string{}
		if err == nil {
			for _, c := range chs {
				datas = append(datas, c.Data())
				ds = append(ds, "RB 0 "+coqRawBytes(c.Data()))
			}
		}
		st.record(fmt.Sprintf("KGetMulti %d %d %s", u64(op.T), op.Mode, coqIdxList(op.Addrs)),
			fmt.Sprintf("QGetMulti %d %s", ec, rowsOf(ds)),
			StepInfo{Op: op, Kind: "getmulti", Err: ec, Data: datas, Inner: inner})
	case "has":
		b, err := st.DB.Has(context.Background(), storage.ModeHas(op.Mode), st.addr(op.A))
		ec := errClass(err)
		st.record(fmt.Sprintf("KHas %d %d", op.Mode, op.A), fmt.Sprintf("QHas %d %s", ec, hx.CoqBool(b)),
			StepInfo{Op: op, Kind: "has", Err: ec, Bools: []bool{b}, Inner: inner})
	case "hasmulti":
		addrs := make([]boson.Address, len(op.Addrs))
		for i, a := range op.Addrs {
			addrs[i] = st.addr(a)
		}
		bs, err := st.DB.HasMulti(context.Background(), storage.ModeHas(op.Mode), addrs...)
		ec := errClass(err)
		if err != nil {
			bs = nil
		}
		st.record(fmt.Sprintf("KHasMulti %d %s", op.Mode, coqIdxList(op.Addrs)), fmt.Sprintf("QHasMulti %d %s", ec, coqBools(bs)),
			StepInfo{Op: op, Kind: "hasmulti", Err: ec, Bools: bs, Inner: inner})
	case "set":
		addrs := make([]boson.Address, len(op.Addrs))
		for i, a := range op.Addrs {
			addrs[i] = st.addr(a)
		}
		err := st.DB.Set(st.ctx(op.Root), storage.ModeSet(op.Mode), addrs...)
		trig := st.DB.VerifGCTriggered()
		ec := errClass(err)
		st.record(fmt.Sprintf("KSet %d %d %s %s", u64(op.T), op.Mode, coqRoot(op.Root), coqIdxList(op.Addrs)),
			fmt.Sprintf("QSet %d %s", ec, hx.CoqBool(trig)),
			StepInfo{Op: op, Kind: "set", Err: ec, Trig: trig, Inner: inner})
	case "gc":
		if inner {
			return // a collection cannot start inside a collection (single worker)
		}
		st.disc.mu.Lock()
		st.disc.pyr = map[string][]*chunkinfo.PyramidCidNum{}
		ps := []string{}
		for _, p := range op.Pyr {
			var l []*chunkinfo.PyramidCidNum
			cs := []string{}
			for _, c := range p.Chunks {
				l = append(l, &chunkinfo.PyramidCidNum{Cid: st.addr(c.A), Number: c.N})
				cs = append(cs, fmt.Sprintf("R2 %d %d", c.A, c.N))
			}
			st.disc.pyr[st.addr(p.Root).ByteString()] = l
			ps = append(ps, fmt.Sprintf("RP %d %s", p.Root, rowsOf(cs)))
		}
		st.disc.mu.Unlock()
		bs := op.BatchSize
		if bs == 0 {
			bs = 10000
		}
		prev := localstore.VerifSetGCBatchSize(bs)
		target := st.DB.VerifGCTarget()
		begin := fmt.Sprintf("KGcBegin %d %d", target, bs)
		started := false
		coll, done, err := st.DB.VerifCollectGarbage(func() {
			started = true
			st.record(begin, "QGcBegin true", StepInfo{Op: op, Kind: "gcbegin", Started: true})
			for _, in := range op.Inner {
				st.Exec(in, true)
			}
		})
		localstore.VerifSetGCBatchSize(prev)
		_ = st.DB.VerifGCTriggered()
		if !started {
			ec := errClass(err)
			if ec != 0 || coll != 0 || !done {
				// not expressible as "nothing to do": record as a started=false step with a poisoned observation
				st.record(begin, fmt.Sprintf("QGcEnd %d %s", coll+1000000+ec, hx.CoqBool(done)), StepInfo{Op: op, Kind: "gcbegin", Err: ec})
				return
			}
			st.record(begin, "QGcBegin false", StepInfo{Op: op, Kind: "gcbegin", Started: false, Done: true})
			return
		}
		ec := errClass(err)
		cobs := fmt.Sprintf("QGcEnd %d %s", coll, hx.CoqBool(done))
		if ec != 0 {
			cobs = fmt.Sprintf("QGcEnd %d %s", 1000000+ec, hx.CoqBool(done))
		}
		st.record(fmt.Sprintf("KGcEnd %s", rowsOf(ps)), cobs,
			StepInfo{Op: op, Kind: "gcend", Err: ec, Coll: coll, Done: done})
	case "reopen":
		if inner || st.path == "" {
			return
		}
		if err := st.DB.Close(); err != nil {
			panic(err)
		}
		if err := st.open(); err != nil {
			panic(err)
		}
		st.record("KReopen", "QReopen", StepInfo{Op: op, Kind: "reopen"})
	default:
		panic("unknown op " + op.K)
	}
}

// CoqCase renders the recorded history as a term of Aurora.C11.Corr.case.
func (st *Store) CoqCase() string {
	var sb strings.Builder
	sb.WriteString("(CHist ")
	sb.WriteString(coqRawBytes(unhex(st.H.Base)))
	fmt.Fprintf(&sb, " %d ", st.H.Cap)
	for _, u := range st.univ {
		sb.WriteString("(UC ")
		sb.WriteString(coqRawBytes(u))
		sb.WriteString(" ")
	}
	sb.WriteString("UE")
	sb.WriteString(strings.Repeat(")", len(st.univ)))
	sb.WriteString("\n")
	for _, s := range st.Steps {
		sb.WriteString("  (SC ")
		sb.WriteString(s)
		sb.WriteString("\n")
	}
	sb.WriteString("  SE")
	sb.WriteString(strings.Repeat(")", len(st.Steps)))
	sb.WriteString(")%N")
	return sb.String()
}

// Run executes a whole history on a fresh store and returns it (closed).
func Run(h *Hist) (*Store, error) {
	st, err := Open(h)
	if err != nil {
		return nil, err
	}
	for _, op := range h.Ops {
		st.Exec(op, false)
	}
	st.Close()
	return st, nil
}

// GCSum is the total of the GCounter values of a dump.
func GCSum(d localstore.VerifDump) uint64 {
	var s uint64
	for _, e := range d.GC {
		s += e.GCounter
	}
	return s
}
