package lsx

import (
	"bytes"
	"context"
	"fmt"
	"reflect"

	"github.com/gauss-project/aurorafs/pkg/localstore"
	"github.com/gauss-project/aurorafs/pkg/storage"
	"verifharness/hx"
)

// ---------------------------------------------------------------- C11: reference map

// Ref is the independent reference of C11: which bytes are stored under
// which address, and the pin counters (removal honours them). It is driven by
// the operations and by whether the implementation reported success; it never
// looks at the model.
type Ref struct {
	Data map[int][]byte
	Pin  map[int]uint64
	Dead bool // a collection ran: the reference no longer applies
}

func NewRef() *Ref { return &Ref{Data: map[int][]byte{}, Pin: map[int]uint64{}} }

func distinct(l []int) []int {
	seen := map[int]bool{}
	var o []int
	for _, x := range l {
		if !seen[x] {
			seen[x] = true
			o = append(o, x)
		}
	}
	return o
}

// Apply advances the reference over one executed step and reports what the
// implementation got wrong (narrow signatures).
func (rf *Ref) Apply(st *Store, info StepInfo, run *hx.Run, hist *Hist) {
	viol := func(sig, detail string, impl, want interface{}) {
		run.Violate(hx.Violation{Sig: sig, Detail: detail, Case: hist, Impl: impl, Want: want})
	}
	if rf.Dead {
		return
	}
	op := info.Op
	switch info.Kind {
	case "gcbegin", "gcend":
		rf.Dead = true
		return
	case "put":
		// the lock-free fast path answers before the mode is looked at
		if info.Err != 0 {
			break // a failed put is no put: the audit below checks that nothing changed
		}
		want := make([]bool, len(op.Chs))
		seen := map[int]bool{}
		for i, c := range op.Chs {
			_, present := rf.Data[c.A]
			want[i] = present || seen[c.A]
			if !seen[c.A] {
				if !present {
					rf.Data[c.A] = unhex(c.D)
					if op.Mode == int(storage.ModePutRequestPin) {
						rf.Pin[c.A]++
					}
				}
				if op.Mode == int(storage.ModePutUploadPin) {
					rf.Pin[c.A]++
				}
			}
			seen[c.A] = true
		}
		run.OracleChecked(1)
		if !reflect.DeepEqual(want, info.Exist) {
			viol(fmt.Sprintf("put:exists-flags:mode%d", op.Mode), fmt.Sprintf("Put returned exist=%v, chunks already present (or repeated in the call) are %v", info.Exist, want), info.Exist, want)
		}
	case "set":
		if info.Err != 0 {
			break
		}
		for _, a := range distinct(op.Addrs) {
			switch storage.ModeSet(op.Mode) {
			case storage.ModeSetRemove:
				if rf.Pin[a] > 1 {
					rf.Pin[a]--
				} else {
					delete(rf.Pin, a)
					delete(rf.Data, a)
				}
			case storage.ModeSetPin:
				rf.Pin[a]++
			case storage.ModeSetUnpin:
				if rf.Pin[a] > 1 {
					rf.Pin[a]--
				} else {
					delete(rf.Pin, a)
				}
			}
		}
	case "get":
		run.OracleChecked(1)
		d, present := rf.Data[op.A]
		switch storage.ModeGet(op.Mode) {
		case storage.ModeGetRequest, storage.ModeGetSync, storage.ModeGetLookup:
			if present != (info.Err == 0) {
				viol("get:found-iff-stored", fmt.Sprintf("Get(mode %d) err class %d, stored=%v", op.Mode, info.Err, present), info.Err, present)
			} else if present && !bytes.Equal(d, info.Data[0]) {
				viol("get:exact-bytes", fmt.Sprintf("Get returned %x, stored %x", info.Data[0], d), hx.Hex(info.Data[0]), hx.Hex(d))
			}
		}
	case "getmulti":
		run.OracleChecked(1)
		all := true
		for _, a := range op.Addrs {
			if _, ok := rf.Data[a]; !ok {
				all = false
			}
		}
		if m := storage.ModeGet(op.Mode); m == storage.ModeGetRequest || m == storage.ModeGetSync || m == storage.ModeGetLookup {
			if all != (info.Err == 0) {
				viol("getmulti:found-iff-all-stored", fmt.Sprintf("GetMulti err class %d, all stored=%v", info.Err, all), info.Err, all)
			} else if all {
				for i, a := range op.Addrs {
					if !bytes.Equal(rf.Data[a], info.Data[i]) {
						viol("getmulti:exact-bytes", fmt.Sprintf("GetMulti[%d] returned %x, stored %x", i, info.Data[i], rf.Data[a]), nil, nil)
					}
				}
			}
		}
	case "has":
		run.OracleChecked(1)
		if info.Err == 0 {
			_, inData := rf.Data[op.A]
			_, inPin := rf.Pin[op.A]
			want := inData
			if op.Mode == int(storage.ModeHasPin) {
				want = inPin
			}
			if want != info.Bools[0] {
				viol(fmt.Sprintf("has:mode%d", op.Mode), fmt.Sprintf("Has=%v want %v", info.Bools[0], want), info.Bools[0], want)
			}
		}
	case "hasmulti":
		run.OracleChecked(1)
		if info.Err == 0 {
			for i, a := range op.Addrs {
				_, want := rf.Data[a]
				if op.Mode == int(storage.ModeHasPin) {
					_, want = rf.Pin[a]
				}
				if want != info.Bools[i] {
					viol(fmt.Sprintf("hasmulti:mode%d", op.Mode), fmt.Sprintf("HasMulti[%d]=%v want %v", i, info.Bools[i], want), nil, nil)
				}
			}
		}
	}
	// audit through the public API (pure reads: Has, Get Lookup, Has pin): every
	// address of the universe is present with its exact bytes iff the reference has it
	ctx := context.Background()
	for i := range st.univ {
		run.OracleChecked(1)
		has, err := st.DB.Has(ctx, storage.ModeHasChunk, st.addr(i))
		d, ok := rf.Data[i]
		if err != nil || has != ok {
			viol("audit:has-iff-put-and-not-removed", fmt.Sprintf("after %s: Has(addr %d)=%v (err %v), reference says %v", info.Kind, i, has, err, ok), has, ok)
			rf.Dead = true
			return
		}
		ch, err := st.DB.Get(ctx, storage.ModeGetLookup, st.addr(i))
		if ok != (err == nil) {
			viol("audit:get-iff-put-and-not-removed", fmt.Sprintf("after %s: Get(addr %d) err=%v, reference says stored=%v", info.Kind, i, err, ok), nil, nil)
			rf.Dead = true
			return
		}
		if ok && !bytes.Equal(ch.Data(), d) {
			viol("audit:exact-bytes", fmt.Sprintf("after %s: Get(addr %d)=%x, first stored %x", info.Kind, i, ch.Data(), d), hx.Hex(ch.Data()), hx.Hex(d))
			rf.Dead = true
			return
		}
		pinned, err := st.DB.Has(ctx, storage.ModeHasPin, st.addr(i))
		_, wp := rf.Pin[i]
		if err != nil || pinned != wp {
			viol("audit:pinned-iff-pin-count-positive", fmt.Sprintf("after %s (mode %d): HasPin(addr %d)=%v, reference pin count %d", info.Kind, info.Op.Mode, i, pinned, rf.Pin[i]), pinned, wp)
			rf.Dead = true
			return
		}
	}
	// pin counters themselves (dump)
	for _, e := range info.Dump.Pin {
		i, ok := st.idx[string(e.Address)]
		if ok && rf.Pin[i] != e.PinCounter {
			viol("audit:pin-counter", fmt.Sprintf("after %s (mode %d): pin counter of addr %d is %d, reference %d", info.Kind, info.Op.Mode, i, e.PinCounter, rf.Pin[i]), e.PinCounter, rf.Pin[i])
			rf.Dead = true
			return
		}
	}
}

// ---------------------------------------------------------------- C11: batch = sequence

// TwinCompare re-runs the history prefix on a second store, replaces the
// put at index k by one put per chunk, and compares results and full dumps.
// Returns "" or the signature class of the difference.
func TwinCompare(h *Hist, k int, a *Store) (sig, detail string, err error) {
	hb := *h
	hb.Ops = nil
	b, err := Open(&hb)
	if err != nil {
		return "", "", err
	}
	defer b.Close()
	for _, op := range h.Ops[:k] {
		b.Exec(op, false)
	}
	// the step of the batch on store a: steps are 1:1 with ops as long as no gc op precedes (api kind)
	ia := a.Trace[k]
	op := h.Ops[k]
	var exist []bool
	var firstErr uint64
	for _, c := range op.Chs {
		single := op
		single.Chs = []Ch{c}
		n := len(b.Trace)
		b.Exec(single, false)
		ib := b.Trace[n]
		if ib.Err != 0 && firstErr == 0 {
			firstErr = ib.Err
		}
		exist = append(exist, ib.Exist...)
	}
	db, _ := b.DB.VerifDump()
	class := fmt.Sprintf("mode%d", op.Mode)
	if op.Root >= 0 {
		class += "-with-context"
	} else {
		class += "-no-context"
	}
	dups := len(distinctCh(op.Chs)) != len(op.Chs)
	if dups {
		class += "-duplicates"
	}
	// the two families that are recorded as known findings get ONE stable signature each
	family := func(what string) string {
		pinMode := op.Mode == int(storage.ModePutUploadPin) || op.Mode == int(storage.ModePutRequestPin)
		if what == "pin-index" && pinMode && dups {
			return "batch-vs-seq:pin-mode-duplicate-pinned-once"
		}
		if op.Root >= 0 && (what == "error" || what == "gc-accounting") {
			return "batch-vs-seq:context-bookkeeping-reads-committed-state"
		}
		return "batch-vs-seq:" + what + ":" + class
	}
	switch {
	case (ia.Err != 0) != (firstErr != 0):
		return family("error"), fmt.Sprintf("%s: batch err class %d, one-at-a-time err class %d", class, ia.Err, firstErr), nil
	case ia.Err != 0:
		return "", "", nil
	case !reflect.DeepEqual(ia.Exist, exist):
		return family("exists"), fmt.Sprintf("%s: batch exist=%v, one-at-a-time %v", class, ia.Exist, exist), nil
	case !reflect.DeepEqual(ia.Dump, db):
		what := "state"
		switch {
		case !reflect.DeepEqual(ia.Dump.Data, db.Data):
			what = "data-index"
		case !reflect.DeepEqual(ia.Dump.Pin, db.Pin):
			what = "pin-index"
		case !reflect.DeepEqual(ia.Dump.GC, db.GC) || ia.Dump.GCSize != db.GCSize || !reflect.DeepEqual(ia.Dump.Access, db.Access):
			what = "gc-accounting"
		}
		return family(what), fmt.Sprintf("%s: after batch: %+v\nafter one-at-a-time: %+v", class, ia.Dump, db), nil
	}
	return "", "", nil
}

func distinctCh(l []Ch) []int {
	var x []int
	for _, c := range l {
		x = append(x, c.A)
	}
	return distinct(x)
}

// ---------------------------------------------------------------- C13: counter oracle

// Counter is the oracle of C13 over a recorded trace: outside a collection
// run gcSize equals the total of the GCounter values (and a reopen neither
// changes it nor finds a different total); after a run that reports done the
// total does not exceed the capacity. The FIRST step that breaks the
// equation in a history is classified; later steps of that history are
// tainted and only counted.
type Counter struct {
	held    bool
	started bool
	Tainted bool
	prev    localstore.VerifDump
	gcPrev  localstore.VerifDump // dump before the running collection's end
}

func NewCounter() *Counter { return &Counter{held: true} }

func newChunks(op Op, prev localstore.VerifDump, st *Store) int {
	have := map[string]bool{}
	for _, e := range prev.Data {
		have[string(e.Address)] = true
	}
	n := 0
	for _, a := range distinctCh(op.Chs) {
		if !have[string(st.addr(a).Bytes())] {
			n++
		}
	}
	return n
}

func (c *Counter) classify(st *Store, info StepInfo) string {
	op := info.Op
	ctxs := "no-context"
	if op.Root >= 0 {
		ctxs = "with-context"
	}
	switch info.Kind {
	case "put":
		if info.Err != 0 {
			return fmt.Sprintf("put-failed:mode%d-%s", op.Mode, ctxs)
		}
		if op.Root >= 0 && len(op.Chs) >= 2 {
			return "batch-under-context"
		}
		return fmt.Sprintf("put-single:mode%d-%s", op.Mode, ctxs)
	case "set":
		if info.Err != 0 {
			return fmt.Sprintf("set-failed:mode%d-%s", op.Mode, ctxs)
		}
		if op.Mode == int(storage.ModeSetSync) {
			return "set-sync"
		}
		if op.Root >= 0 && len(op.Addrs) >= 2 {
			return "batch-under-context"
		}
		return fmt.Sprintf("set-single:mode%d-%s", op.Mode, ctxs)
	case "gcend":
		if len(info.Dump.GC) == len(c.gcPrev.GC) && GCSum(info.Dump) == GCSum(c.gcPrev) {
			return "gc-force-clean"
		}
		return "gc-accounting"
	}
	return info.Kind
}

// Step feeds one recorded step.
func (c *Counter) Step(st *Store, info StepInfo, run *hx.Run, hist *Hist) {
	viol := func(sig, detail string, impl, want interface{}) {
		run.Violate(hx.Violation{Sig: sig, Detail: detail, Case: hist, Impl: impl, Want: want})
	}
	d := info.Dump
	defer func() {
		c.prev = d
		if info.Kind != "gcend" {
			c.gcPrev = d
		}
	}()
	if (info.Kind == "gcend" || info.Kind == "gcbegin" && !info.Started) && info.Err == 0 && info.Done {
		// bounded after quiescence (also a run that found nothing to do has quiesced)
		run.OracleChecked(1)
		if sum := GCSum(d); sum > st.H.Cap {
			cls := "counter-diverged"
			if info.Kind == "gcend" && c.classify(st, info) == "gc-force-clean" {
				cls = "gc-force-clean"
			}
			viol("bounded:"+cls, fmt.Sprintf("collection returned done with gcSize %d but the gc index still records %d cached chunks, capacity %d", d.GCSize, sum, st.H.Cap), sum, st.H.Cap)
		}
	}
	if info.Running {
		return // inside a run the equation is not claimed
	}
	if c.Tainted {
		run.Hist("c13.tainted-steps")
		return
	}
	run.OracleChecked(1)
	sum := GCSum(d)
	if info.Kind == "reopen" {
		if d.GCSize != c.prev.GCSize || d.GCSize != sum {
			viol("counter:reopen", fmt.Sprintf("reopen: gcSize %d -> %d, recount %d", c.prev.GCSize, d.GCSize, sum), d.GCSize, sum)
			c.Tainted = true
		}
		return
	}
	if d.GCSize != sum {
		c.Tainted = true
		viol("counter:"+c.classify(st, info), fmt.Sprintf("after %s (mode %d, root %d, %d chunks/addrs, err class %d): gcSize=%d but total of GCounter=%d (before: gcSize=%d total=%d)",
			info.Kind, info.Op.Mode, info.Op.Root, len(info.Op.Chs)+len(info.Op.Addrs), info.Err, d.GCSize, sum, c.prev.GCSize, GCSum(c.prev)), d.GCSize, sum)
	}
}
