package lsx

import (
	"fmt"

	"github.com/gauss-project/aurorafs/pkg/localstore"
	"verifharness/hx"
)

// Generator of histories. Operations are generated ONLINE against the real
// store (the last canonical dump steers the choice: remove what exists, unpin
// what is pinned, collect when the counter is above the target), and the
// resulting Hist replays deterministically.

// File is a generator-level notion: a root and the chunks fetched under it
// (with repetitions: a file may contain the same chunk twice).
type File struct {
	Root   int
	Chunks []int
}

type Gen struct {
	R     *hx.Rand
	Kind  string // "api" (C11: every mode, no collection) | "cache" (C13: files, pins, collection, reopen)
	St    *Store
	H     *Hist
	Files []File
	t     int64
	datas map[int]string
	After func(g *Gen, info StepInfo) // audit hook, called after every recorded step
	seen  int
}

func flipBit(b []byte, bit int) []byte {
	c := append([]byte{}, b...)
	c[bit/8] ^= 0x80 >> uint(bit%8)
	return c
}

// NewGen creates the universe and opens the store.
func NewGen(r *hx.Rand, kind string, capacity uint64, disk bool) (*Gen, error) {
	// address length: mostly 4 bytes (keeps the Coq terms small; localstore does not
	// care), every eighth history full 32-byte addresses
	alen := 4
	if r.Chance(1, 8) {
		alen = 32
	}
	base := r.Bytes(alen)
	n := 6 + r.Intn(3)
	univ := []string{}
	have := map[string]bool{}
	style := r.Intn(10)
	pos := []int{r.Intn(4), 4 + r.Intn(6), 12 + r.Intn(12)}
	for len(univ) < n {
		var a []byte
		switch {
		case style == 0: // short addresses, 1..3 bytes
			a = r.Bytes(1 + r.Intn(3))
		case style == 1 && len(univ) == n-1: // one empty (non-nil when used as a root) address
			a = []byte{}
		default:
			// same bin for several addresses: flip one of three bit positions of the base key, random tail
			p := pos[r.Intn(3)]
			a = flipBit(base, p)
			for k := p/8 + 1; k < alen; k++ {
				a[k] = byte(r.U64())
			}
		}
		if have[string(a)] {
			continue
		}
		have[string(a)] = true
		univ = append(univ, hx.Hex(a))
	}
	h := &Hist{Kind: kind, Base: hx.Hex(base), Cap: capacity, Disk: disk, Univ: univ, Twin: -1}
	st, err := Open(h)
	if err != nil {
		return nil, err
	}
	g := &Gen{R: r, Kind: kind, St: st, H: h, t: 100 + int64(r.Intn(50)), datas: map[int]string{}}
	// files for the cache kind: 2-3 roots with overlapping chunk sets
	nf := 2 + r.Intn(2)
	for f := 0; f < nf; f++ {
		file := File{Root: f}
		for k := 0; k < 1+r.Intn(4); k++ {
			file.Chunks = append(file.Chunks, nf+r.Intn(n-nf))
		}
		if r.Chance(1, 4) && len(file.Chunks) > 0 { // a repeated chunk
			file.Chunks = append(file.Chunks, file.Chunks[0])
		}
		g.Files = append(g.Files, file)
	}
	return g, nil
}

func (g *Gen) tick() int64 {
	switch x := g.R.Intn(100); {
	case x < 80:
		g.t += 1 + int64(g.R.Intn(3))
	case x < 90: // same instant
	case x < 93:
		return 0
	case x < 95:
		return -1 - int64(g.R.Intn(5))
	case x < 97:
		return g.t - 1 - int64(g.R.Intn(20)) // clock going backwards
	default:
		g.t += 1000
	}
	return g.t
}

func (g *Gen) data(a int) string {
	if d, ok := g.datas[a]; ok && !g.R.Chance(1, 8) {
		return d
	}
	d := hx.Hex(g.R.Bytes(1 + g.R.Intn(3)))
	if _, ok := g.datas[a]; !ok {
		g.datas[a] = d
	}
	return d
}

func (g *Gen) n() int { return len(g.H.Univ) }

func (g *Gen) present() []int {
	var l []int
	for _, e := range g.St.Last.Data {
		if i, ok := g.St.idx[string(e.Address)]; ok {
			l = append(l, i)
		}
	}
	return l
}
func (g *Gen) pinned() []int {
	var l []int
	for _, e := range g.St.Last.Pin {
		if i, ok := g.St.idx[string(e.Address)]; ok {
			l = append(l, i)
		}
	}
	return l
}
func (g *Gen) pick(l []int) int {
	if len(l) == 0 || g.R.Chance(1, 5) {
		return g.R.Intn(g.n())
	}
	return l[g.R.Intn(len(l))]
}
func (g *Gen) root() int {
	switch x := g.R.Intn(10); {
	case x < 3:
		return -1
	case x < 8:
		return g.R.Intn(2) // two favourite roots so that contexts collide
	default:
		return g.R.Intn(g.n())
	}
}

// Do executes and records one operation.
func (g *Gen) Do(op Op) {
	before := len(g.St.Trace)
	g.H.Ops = append(g.H.Ops, op)
	g.St.Exec(op, false)
	if g.After != nil {
		for _, info := range g.St.Trace[before:] {
			g.After(g, info)
		}
	}
}

// apiOp: one operation of the C11 mix.
func (g *Gen) apiOp() Op {
	r := g.R
	switch x := r.Intn(100); {
	case x < 40:
		mode := r.Intn(4)
		if r.Chance(1, 40) {
			mode = 7
		}
		n := 1
		if r.Bool() {
			n = 2 + r.Intn(3)
		}
		op := Op{K: "put", T: g.tick(), Mode: mode, Root: g.root()}
		for i := 0; i < n; i++ {
			a := r.Intn(g.n())
			if i > 0 && r.Chance(1, 6) {
				a = op.Chs[r.Intn(i)].A // duplicate inside the call
			}
			if i == 0 && op.Root >= 0 && r.Chance(1, 3) {
				a = op.Root // the root chunk itself first
			}
			op.Chs = append(op.Chs, Ch{A: a, D: g.data(a)})
		}
		return op
	case x < 55:
		mode := r.Intn(4)
		if r.Chance(1, 30) {
			mode = 9
		}
		return Op{K: "get", T: g.tick(), Mode: mode, Root: g.root(), A: g.pick(g.present())}
	case x < 60:
		op := Op{K: "getmulti", T: g.tick(), Mode: r.Intn(4), Root: g.root()}
		for i := 0; i < 1+r.Intn(3); i++ {
			op.Addrs = append(op.Addrs, g.pick(g.present()))
		}
		return op
	case x < 65:
		return Op{K: "has", Mode: r.Pick([]int{0, 1, 1, 1, 5}), A: r.Intn(g.n()), Root: -1}
	case x < 70:
		op := Op{K: "hasmulti", Mode: r.Pick([]int{0, 1, 1, 5}), Root: -1}
		for i := 0; i < 1+r.Intn(4); i++ {
			op.Addrs = append(op.Addrs, r.Intn(g.n()))
		}
		return op
	default:
		mode := r.Pick([]int{1, 1, 1, 1, 2, 2, 2, 3, 3, 3, 0, 1, 2, 3})
		if r.Chance(1, 40) {
			mode = 8
		}
		op := Op{K: "set", T: g.tick(), Mode: mode, Root: g.root()}
		n := 1
		if r.Chance(3, 10) {
			n = 2 + r.Intn(2)
		}
		for i := 0; i < n; i++ {
			var a int
			switch mode {
			case 3:
				a = g.pick(g.pinned())
			default:
				a = g.pick(g.present())
			}
			op.Addrs = append(op.Addrs, a)
		}
		return op
	}
}

func (g *Gen) file() File { return g.Files[g.R.Intn(len(g.Files))] }

// pyramids the chunkinfo stub knows: the generator's files (sometimes one is
// unknown, sometimes the list contains the root itself or a wrong number)
func (g *Gen) pyramids() []Pyr {
	var ps []Pyr
	for _, f := range g.Files {
		if g.R.Chance(1, 8) {
			continue // chunkinfo does not know this file
		}
		cnt := map[int]int{}
		order := []int{}
		for _, c := range f.Chunks {
			if cnt[c] == 0 {
				order = append(order, c)
			}
			cnt[c]++
		}
		p := Pyr{Root: f.Root}
		for _, c := range order {
			if g.R.Chance(1, 10) {
				continue // shared chunk left out by getUnRepeatChunk
			}
			p.Chunks = append(p.Chunks, PyrEnt{A: c, N: cnt[c]})
		}
		if g.R.Chance(1, 10) {
			p.Chunks = append(p.Chunks, PyrEnt{A: f.Root, N: 1})
		}
		ps = append(ps, p)
	}
	return ps
}

// cacheOp: one operation of the C13 mix: single-chunk request puts under a
// file context, gets, pin/unpin of whole files chunk by chunk, removals,
// (rarely) batched calls, collection runs with accesses at the interleaving
// point, reopen.
func (g *Gen) cacheOps() []Op {
	r := g.R
	f := g.file()
	all := append([]int{f.Root}, f.Chunks...)
	switch x := r.Intn(100); {
	case x < 30: // fetch (part of) a file: root first, then chunks, one put per chunk
		var ops []Op
		k := 1 + r.Intn(len(all))
		for _, c := range all[:k] {
			ops = append(ops, Op{K: "put", T: g.tick(), Mode: 0, Root: f.Root, Chs: []Ch{{A: c, D: g.data(c)}}})
		}
		return ops
	case x < 36: // batched request put (known finding class)
		op := Op{K: "put", T: g.tick(), Mode: r.Pick([]int{0, 0, 3}), Root: f.Root}
		for _, c := range all {
			op.Chs = append(op.Chs, Ch{A: c, D: g.data(c)})
		}
		return []Op{op}
	case x < 48:
		c := all[r.Intn(len(all))]
		return []Op{{K: "get", T: g.tick(), Mode: 0, Root: r.Pick([]int{f.Root, f.Root, -1}), A: c}}
	case x < 58: // pin the file chunk by chunk (as pinning.CreatePin does through the traversal)
		var ops []Op
		for _, c := range all {
			ops = append(ops, Op{K: "set", T: g.tick(), Mode: 2, Root: f.Root, Addrs: []int{c}})
		}
		return ops
	case x < 66: // unpin
		var ops []Op
		for _, c := range all {
			ops = append(ops, Op{K: "set", T: g.tick(), Mode: 3, Root: f.Root, Addrs: []int{c}})
		}
		return ops
	case x < 72: // removal of one chunk under the file context
		return []Op{{K: "set", T: g.tick(), Mode: 1, Root: r.Pick([]int{f.Root, f.Root, -1}), Addrs: []int{g.pick(g.present())}}}
	case x < 75: // upload / pinned upload without context
		c := r.Intn(g.n())
		return []Op{{K: "put", T: g.tick(), Mode: r.Pick([]int{1, 2}), Root: -1, Chs: []Ch{{A: c, D: g.data(c)}}}}
	case x < 78: // anything from the API mix
		return []Op{g.apiOp()}
	case x < 82:
		if g.H.Disk {
			return []Op{{K: "reopen", Root: -1}}
		}
		return nil
	default:
		// a collection only does something above the target: most of the time fetch instead
		if target := uint64(float64(g.H.Cap) * 0.9); g.St.Last.GCSize <= target && !r.Chance(1, 6) {
			var ops []Op
			for _, c := range all {
				ops = append(ops, Op{K: "put", T: g.tick(), Mode: 0, Root: f.Root, Chs: []Ch{{A: c, D: g.data(c)}}})
			}
			return ops
		}
		op := Op{K: "gc", Root: -1, Pyr: g.pyramids()}
		if r.Chance(1, 6) {
			op.BatchSize = uint64(1 + r.Intn(4))
		}
		if r.Chance(1, 2) { // accesses racing with the eviction
			for i := 0; i < 1+r.Intn(2); i++ {
				ff := g.file()
				switch r.Intn(4) {
				case 0:
					op.Inner = append(op.Inner, Op{K: "get", T: g.tick(), Mode: 0, Root: ff.Root, A: ff.Root})
				case 1:
					c := ff.Chunks[r.Intn(len(ff.Chunks))]
					op.Inner = append(op.Inner, Op{K: "put", T: g.tick(), Mode: 0, Root: ff.Root, Chs: []Ch{{A: c, D: g.data(c)}}})
				case 2:
					op.Inner = append(op.Inner, Op{K: "set", T: g.tick(), Mode: 2, Root: ff.Root, Addrs: []int{ff.Root}})
				default:
					op.Inner = append(op.Inner, Op{K: "get", T: g.tick(), Mode: 0, Root: -1, A: ff.Root})
				}
			}
		}
		return []Op{op}
	}
}

// Steps generates about n operations.
func (g *Gen) Steps(n int) {
	for len(g.H.Ops) < n {
		if g.Kind == "api" {
			g.Do(g.apiOp())
		} else {
			for _, op := range g.cacheOps() {
				g.Do(op)
			}
		}
	}
}

// Key is a canonical string of a history for distinctness.
func (h *Hist) Key() string { return fmt.Sprintf("%s|%v|%v", h.Base, h.Cap, h.Ops) }

var _ = localstore.ErrInvalidMode
