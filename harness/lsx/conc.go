package lsx

import (
	"bytes"
	"context"
	"fmt"
	"sync"
	"sync/atomic"
	"time"

	"github.com/gauss-project/aurorafs/pkg/boson"
	"github.com/gauss-project/aurorafs/pkg/chunkinfo"
	"github.com/gauss-project/aurorafs/pkg/localstore"
	"github.com/gauss-project/aurorafs/pkg/sctx"
	"github.com/gauss-project/aurorafs/pkg/storage"
	"verifharness/hx"
)

// Concurrency layer (C11: racing single-chunk Puts of one new address;
// C13: overlapping request-mode Gets of one cached file). The schedule is the
// Go scheduler's, so these cases are oracle-only (no Coq term): the model side
// is the interleaving model of coq/theories/C11/Conc.v and C13/Conc.v, whose
// theorems quantify over all schedules. To make the calls really overlap, a
// large unrelated batched Put keeps batchMu busy and the racing calls are
// released while VerifBatchMuHeld() is true.

// ConcCase is the replayable description of one concurrency case.
type ConcCase struct {
	Kind    string `json:"kind"` // conc-put | conc-get
	Seed    uint64 `json:"seed"`
	Mode    int    `json:"mode"`
	Threads int    `json:"threads"`
	Rounds  int    `json:"rounds"`
	Ctx     bool   `json:"ctx"`
}

var concClock int64

func concStore(capacity uint64, base []byte) (*localstore.DB, *stub, error) {
	Register()
	disc := &stub{pyr: map[string][]*chunkinfo.PyramidCidNum{}}
	db, err := localstore.New("", base, &localstore.Options{Capacity: capacity, Driver: `leveldb:{"WriteBuffer":4194304,"BlockCacheCapacity":262144}`}, discardLogger())
	if err != nil {
		return nil, nil, err
	}
	db.VerifStopGCWorker()
	db.SetChunkInfo(disc)
	// a clock that advances on every reading: concurrent calls get distinct instants
	localstore.VerifSetNow(func() int64 { return atomic.AddInt64(&concClock, 1) })
	return db, disc, nil
}

// busy starts a large unrelated batched upload and returns once it holds
// batchMu (or has already finished); wait() joins it.
func busy(db *localstore.DB, r *hx.Rand, n int) (held bool, wait func()) {
	chs := make([]boson.Chunk, n)
	for i := range chs {
		chs[i] = boson.NewChunk(boson.NewAddress(r.Bytes(32)), r.Bytes(8))
	}
	done := make(chan struct{})
	go func() {
		defer close(done)
		_, _ = db.Put(context.Background(), storage.ModePutUpload, chs...)
	}()
	for i := 0; i < 200000; i++ {
		if db.VerifBatchMuHeld() {
			held = true
			break
		}
		select {
		case <-done:
			return false, func() {}
		default:
		}
	}
	return held, func() { <-done }
}

// busySize: chunks of the batched Put that keeps batchMu busy (smaller under -race, where every write is ~10x slower)
func busySize(r *hx.Rand) int {
	if RaceEnabled {
		return 300 + r.Intn(300)
	}
	return 1500 + r.Intn(1500)
}

func counterHolds(d localstore.VerifDump) bool { return d.GCSize == GCSum(d) }

// binsConsistent: with no removal in the history, every bin's counter equals
// the number of stored chunks of that bin and the bin ids inside a bin are 1..n.
func binsConsistent(db *localstore.DB, d localstore.VerifDump) string {
	cnt := map[uint8]uint64{}
	seen := map[[2]uint64]bool{}
	for _, e := range d.Data {
		po := db.VerifPO(boson.NewAddress(e.Address))
		cnt[po]++
		k := [2]uint64{uint64(po), e.BinID}
		if seen[k] {
			return fmt.Sprintf("bin id %d used twice in bin %d", e.BinID, po)
		}
		seen[k] = true
	}
	bins := map[uint8]uint64{}
	for _, b := range d.BinIDs {
		bins[b.PO] = b.ID
	}
	for po, n := range cnt {
		if bins[po] != n {
			return fmt.Sprintf("bin %d: counter %d, %d chunks stored", po, bins[po], n)
		}
	}
	return ""
}

// ConcPuts: rounds of N goroutines putting the same new address (different
// bytes each) in one single-chunk call, released together while batchMu is busy.
func ConcPuts(run *hx.Run, cc ConcCase) {
	r := hx.NewRand(cc.Seed)
	db, _, err := concStore(1<<40, r.Bytes(32))
	if err != nil {
		panic(err)
	}
	defer db.Close()
	viol := func(sig, detail string, impl, want interface{}) {
		run.Violate(hx.Violation{Sig: sig, Detail: detail, Case: cc, Impl: impl, Want: want})
	}
	ctx := context.Background()
	var root boson.Address
	if cc.Ctx { // a cached root so that request puts are accounted to a file
		root = boson.NewAddress(r.Bytes(32))
		ctx = sctx.SetRootHash(ctx, root)
		if _, err := db.Put(ctx, storage.ModePutRequest, boson.NewChunk(root, []byte{1})); err != nil {
			panic(err)
		}
	}
	overlapped := 0
	for round := 0; round < cc.Rounds; round++ {
		addr := boson.NewAddress(r.Bytes(32))
		held, wait := busy(db, r, busySize(r))
		if held {
			overlapped++
		}
		var wg sync.WaitGroup
		start := make(chan struct{})
		exist := make([]bool, cc.Threads)
		errs := make([]error, cc.Threads)
		for i := 0; i < cc.Threads; i++ {
			wg.Add(1)
			go func(i int) {
				defer wg.Done()
				<-start
				ex, err := db.Put(ctx, storage.ModePut(cc.Mode), boson.NewChunk(addr, []byte{byte(i + 1), byte(round)}))
				errs[i] = err
				if err == nil {
					exist[i] = ex[0]
				}
			}(i)
		}
		close(start)
		wg.Wait()
		wait()
		run.OracleChecked(3)
		winners := []int{}
		for i := range exist {
			if errs[i] != nil {
				viol("concurrent-put:error", fmt.Sprintf("round %d: Put failed: %v", round, errs[i]), nil, nil)
				return
			}
			if !exist[i] {
				winners = append(winners, i)
			}
		}
		if len(winners) != 1 {
			viol("concurrent-put:exists-flags", fmt.Sprintf("mode %d ctx=%v round %d: %d of %d concurrent single-chunk Puts of one new address reported exist=false (exactly one must)", cc.Mode, cc.Ctx, round, len(winners), cc.Threads), exist, "exactly one false")
			return
		}
		ch, err := db.Get(context.Background(), storage.ModeGetLookup, addr)
		if err != nil || !bytes.Equal(ch.Data(), []byte{byte(winners[0] + 1), byte(round)}) {
			viol("concurrent-put:stored-bytes", fmt.Sprintf("round %d: stored bytes are not those of the call that reported exist=false (err %v)", round, err), nil, nil)
			return
		}
		d, err := db.VerifDump()
		if err != nil {
			panic(err)
		}
		if msg := binsConsistent(db, d); msg != "" {
			viol("concurrent-put:index-consistency", fmt.Sprintf("mode %d round %d: %s", cc.Mode, round, msg), nil, nil)
			return
		}
		if !counterHolds(d) {
			viol("concurrent-put:counter", fmt.Sprintf("mode %d ctx=%v round %d: gcSize %d, total of GCounter %d", cc.Mode, cc.Ctx, round, d.GCSize, GCSum(d)), d.GCSize, GCSum(d))
			return
		}
		if cc.Ctx {
			n := 0
			for _, e := range d.GC {
				if bytes.Equal(e.Address, root.Bytes()) {
					n++
					if e.GCounter != uint64(round+2) {
						viol("concurrent-put:gcounter", fmt.Sprintf("round %d: GCounter of the file is %d, %d chunks were cached under it", round, e.GCounter, round+2), e.GCounter, round+2)
						return
					}
				}
			}
			if n != 1 {
				viol("concurrent-put:gc-entries-per-root", fmt.Sprintf("round %d: %d gc entries for the file", round, n), n, 1)
				return
			}
		}
	}
	run.Hist(fmt.Sprintf("conc-put.mode%d.ctx=%v", cc.Mode, cc.Ctx))
	run.HistN("conc-put.rounds-overlapping-a-writer", overlapped)
	run.AddCase("", cc, fmt.Sprintf("conc-put|%d|%d|%d|%v", cc.Seed, cc.Mode, cc.Threads, cc.Ctx), overlapped > 0)
}

// ConcGets: a cached file (root + chunks put one by one under its context);
// rounds of N request-mode Gets of its chunks issued while batchMu is busy, so
// that their updateGC goroutines overlap.
func ConcGets(run *hx.Run, cc ConcCase) {
	r := hx.NewRand(cc.Seed)
	db, _, err := concStore(1<<40, r.Bytes(32))
	if err != nil {
		panic(err)
	}
	defer db.Close()
	viol := func(sig, detail string, impl, want interface{}) {
		run.Violate(hx.Violation{Sig: sig, Detail: detail, Case: cc, Impl: impl, Want: want})
	}
	// two cached files; the second one is only a bystander
	mk := func(n int) (boson.Address, []boson.Address) {
		root := boson.NewAddress(r.Bytes(32))
		all := []boson.Address{root}
		for i := 0; i < n; i++ {
			all = append(all, boson.NewAddress(r.Bytes(32)))
		}
		ctx := sctx.SetRootHash(context.Background(), root)
		for i, a := range all {
			if _, err := db.Put(ctx, storage.ModePutRequest, boson.NewChunk(a, []byte{byte(i)})); err != nil {
				panic(err)
			}
		}
		return root, all
	}
	root, all := mk(3 + r.Intn(4))
	mk(2)
	before, _ := db.VerifDump()
	overlapped := 0
	for round := 0; round < cc.Rounds; round++ {
		held, wait := busy(db, r, busySize(r))
		if held {
			overlapped++
		}
		ctx := sctx.SetRootHash(context.Background(), root)
		var wg sync.WaitGroup
		start := make(chan struct{})
		for i := 0; i < cc.Threads; i++ {
			wg.Add(1)
			a := all[r.Intn(len(all))]
			go func() {
				defer wg.Done()
				<-start
				_, _ = db.Get(ctx, storage.ModeGetRequest, a)
			}()
		}
		close(start)
		wg.Wait()
		time.Sleep(200 * time.Microsecond) // let the updateGC goroutines reach the lock
		wait()
		db.VerifWaitUpdateGC()
		d, err := db.VerifDump()
		if err != nil {
			panic(err)
		}
		run.OracleChecked(3)
		n := 0
		var cnt uint64
		var ts int64
		for _, e := range d.GC {
			if bytes.Equal(e.Address, root.Bytes()) {
				n++
				cnt = e.GCounter
				ts = e.AccessTimestamp
			}
		}
		if n != 1 {
			viol("concurrent-get:gc-entries-per-root", fmt.Sprintf("round %d: %d gc entries for the root of the file after %d overlapping request-mode Gets (exactly one must remain)", round, n, cc.Threads), n, 1)
			return
		}
		if cnt != uint64(len(all)) {
			viol("concurrent-get:gcounter", fmt.Sprintf("round %d: GCounter %d, %d chunks cached", round, cnt, len(all)), cnt, len(all))
			return
		}
		if !counterHolds(d) || d.GCSize != before.GCSize {
			viol("concurrent-get:counter", fmt.Sprintf("round %d: gcSize %d (before %d), total of GCounter %d", round, d.GCSize, before.GCSize, GCSum(d)), d.GCSize, GCSum(d))
			return
		}
		ok := false
		for _, e := range d.Access {
			if bytes.Equal(e.Address, root.Bytes()) && e.AccessTimestamp == ts {
				ok = true
			}
		}
		if !ok {
			viol("concurrent-get:access-index", fmt.Sprintf("round %d: access timestamp of the root differs from the key of its gc entry", round), nil, nil)
			return
		}
	}
	run.Hist("conc-get.cases")
	run.HistN("conc-get.rounds-overlapping-a-writer", overlapped)
	run.AddCase("", cc, fmt.Sprintf("conc-get|%d|%d", cc.Seed, cc.Threads), overlapped > 0)
}
