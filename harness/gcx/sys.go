// Package gcx is the harness library of C12 / C16: a complete node-local stack
// of the REAL components the two properties are anchored in,
//
//	localstore.DB  <-  recording storage.Storer  <-  netstore.Store  <-  traversal, chunkinfo, api
//	                                              <-  pinning (directly on the recording store)
//
// wired as pkg/node wires them (chunkinfo.New over the traversal and the
// netstore, DB.SetChunkInfo, netstore.SetChunkInfo, api.New), with the network
// replaced by a table of chunks ("remote") behind a retrieval stub that does
// what retrieval.RetrieveChunk does once a delivery has arrived
// (chunkinfo.OnChunkRetrieved, then Put(ModePutRequest) under the file context).
//
// The recording store logs every state-changing localstore call (Put, Set,
// Get/GetMulti in ModeGetRequest) with its result and the canonical index dump
// taken right after it; the clock of localstore is a counter advanced per
// recorded call.  Collection runs are driven through DB.VerifCollectGarbage.
package gcx

import (
	"bytes"
	"context"
	"errors"
	"fmt"
	"io"
	"net/http"
	"net/http/httptest"
	"sort"
	"strings"
	"sync"
	"time"

	"github.com/gauss-project/aurorafs/pkg/api"
	"github.com/gauss-project/aurorafs/pkg/aurora"
	"github.com/gauss-project/aurorafs/pkg/routetab"
	"github.com/gauss-project/aurorafs/pkg/boson"
	"github.com/gauss-project/aurorafs/pkg/chunkinfo"
	"github.com/gauss-project/aurorafs/pkg/file/joiner"
	"github.com/gauss-project/aurorafs/pkg/localstore"
	"github.com/gauss-project/aurorafs/pkg/logging"
	"github.com/gauss-project/aurorafs/pkg/netstore"
	"github.com/gauss-project/aurorafs/pkg/pinning"
	"github.com/gauss-project/aurorafs/pkg/sctx"
	"github.com/gauss-project/aurorafs/pkg/shed/driver"
	stateldb "github.com/gauss-project/aurorafs/pkg/statestore/leveldb"
	"github.com/gauss-project/aurorafs/pkg/storage"
	"github.com/gauss-project/aurorafs/pkg/subscribe"
	"github.com/gauss-project/aurorafs/pkg/traversal"
	"verifharness/lsx"
)

// ---------------------------------------------------------------- recording store

// Call is one recorded localstore call.
type Call struct {
	K     string // put get getmulti set
	T     int64  // value of the clock during the call
	Mode  int
	Root  []byte // nil: no root hash in the context
	Addrs [][]byte
	Datas [][]byte // put
	Err   uint64   // 0 ok, 1 driver.ErrNotFound, 2 storage.ErrNotFound, 3 invalid mode, 9 other
	Exist []bool   // put
	Out   [][]byte // get / getmulti
	Trig  bool
	Dump  localstore.VerifDump
	// gc bookkeeping after the call
	Running bool
	Dirty   []boson.Address
}

func errClass(err error) uint64 {
	switch {
	case err == nil:
		return 0
	case errors.Is(err, driver.ErrNotFound):
		return 1
	case errors.Is(err, storage.ErrNotFound):
		return 2
	case errors.Is(err, localstore.ErrInvalidMode):
		return 3
	}
	return 9
}

// clock of localstore (package-global in localstore: one system at a time uses it)
var nowVal int64

// Rec wraps the DB and records.
type Rec struct {
	mu    sync.Mutex
	db    *localstore.DB
	Calls []Call
	Quiet bool // do not record (set-up phases)
}

func (r *Rec) root(ctx context.Context) []byte {
	h := sctx.GetRootHash(ctx)
	if h.IsZero() {
		return nil
	}
	return append([]byte{}, h.Bytes()...)
}

func (r *Rec) done(c Call) {
	if r.Quiet {
		return
	}
	d, err := r.db.VerifDump()
	if err != nil {
		panic(err)
	}
	c.Dump = d
	c.Running, c.Dirty = r.db.VerifGCState()
	r.Calls = append(r.Calls, c)
}

func (r *Rec) Put(ctx context.Context, mode storage.ModePut, chs ...boson.Chunk) ([]bool, error) {
	r.mu.Lock()
	defer r.mu.Unlock()
	nowVal++
	exist, err := r.db.Put(ctx, mode, chs...)
	c := Call{K: "put", T: nowVal, Mode: int(mode), Root: r.root(ctx), Err: errClass(err), Trig: r.db.VerifGCTriggered()}
	for _, ch := range chs {
		c.Addrs = append(c.Addrs, append([]byte{}, ch.Address().Bytes()...))
		c.Datas = append(c.Datas, append([]byte{}, ch.Data()...))
	}
	if err == nil {
		c.Exist = append([]bool{}, exist...)
	}
	r.done(c)
	return exist, err
}

func (r *Rec) Get(ctx context.Context, mode storage.ModeGet, addr boson.Address) (boson.Chunk, error) {
	if mode != storage.ModeGetRequest {
		return r.db.Get(ctx, mode, addr) // no effect on the state
	}
	r.mu.Lock()
	defer r.mu.Unlock()
	nowVal++
	ch, err := r.db.Get(ctx, mode, addr)
	r.db.VerifWaitUpdateGC()
	c := Call{K: "get", T: nowVal, Mode: int(mode), Root: r.root(ctx), Addrs: [][]byte{append([]byte{}, addr.Bytes()...)}, Err: errClass(err)}
	if err == nil {
		c.Out = [][]byte{append([]byte{}, ch.Data()...)}
	}
	r.done(c)
	return ch, err
}

func (r *Rec) GetMulti(ctx context.Context, mode storage.ModeGet, addrs ...boson.Address) ([]boson.Chunk, error) {
	if mode != storage.ModeGetRequest {
		return r.db.GetMulti(ctx, mode, addrs...)
	}
	r.mu.Lock()
	defer r.mu.Unlock()
	nowVal++
	chs, err := r.db.GetMulti(ctx, mode, addrs...)
	r.db.VerifWaitUpdateGC()
	c := Call{K: "getmulti", T: nowVal, Mode: int(mode), Err: errClass(err)}
	for _, a := range addrs {
		c.Addrs = append(c.Addrs, append([]byte{}, a.Bytes()...))
	}
	if err == nil {
		for _, ch := range chs {
			c.Out = append(c.Out, append([]byte{}, ch.Data()...))
		}
	}
	r.done(c)
	return chs, err
}

func (r *Rec) Has(ctx context.Context, mode storage.ModeHas, addr boson.Address) (bool, error) {
	return r.db.Has(ctx, mode, addr)
}
func (r *Rec) HasMulti(ctx context.Context, mode storage.ModeHas, addrs ...boson.Address) ([]bool, error) {
	return r.db.HasMulti(ctx, mode, addrs...)
}

func (r *Rec) Set(ctx context.Context, mode storage.ModeSet, addrs ...boson.Address) error {
	r.mu.Lock()
	defer r.mu.Unlock()
	nowVal++
	err := r.db.Set(ctx, mode, addrs...)
	c := Call{K: "set", T: nowVal, Mode: int(mode), Root: r.root(ctx), Err: errClass(err), Trig: r.db.VerifGCTriggered()}
	for _, a := range addrs {
		c.Addrs = append(c.Addrs, append([]byte{}, a.Bytes()...))
	}
	r.done(c)
	return err
}

func (r *Rec) Close() error { return nil }

// Take returns and clears the recorded calls.
func (r *Rec) Take() []Call {
	r.mu.Lock()
	defer r.mu.Unlock()
	c := r.Calls
	r.Calls = nil
	return c
}

// ---------------------------------------------------------------- retrieval stub (the network)

type retr struct {
	sys *Sys
}

var errOffline = errors.New("gcx: chunk not available from the network")

// RetrieveChunk: what retrieval.RetrieveChunk does after the delivery was read
// and validated: report the source to chunkinfo, then cache the chunk under the
// file context.
func (r *retr) RetrieveChunk(ctx context.Context, rootAddr, chunkAddr boson.Address) (boson.Chunk, error) {
	s := r.sys
	data, ok := s.Remote[chunkAddr.ByteString()]
	if !ok || !s.Online {
		return nil, errOffline
	}
	chunk := boson.NewChunk(chunkAddr, data)
	if err := s.CI.OnChunkRetrieved(chunkAddr, rootAddr, s.Peer); err != nil {
		return nil, fmt.Errorf("retrieval: report chunk source: %v", err)
	}
	if _, err := s.W.Put(sctx.SetRootHash(ctx, rootAddr), storage.ModePutRequest, chunk); err != nil {
		return nil, fmt.Errorf("retrieval: storage put cache:%v", err)
	}
	return chunk, nil
}
func (r *retr) GetRouteScore(int64) map[string]int64 { return nil }

// ---------------------------------------------------------------- route table stub: no peer is reachable
// (chunkinfo asks a peer for a pyramid it does not know: pyramidCheck -> doFindChunkPyramid)

type noRoute struct{}

var errNoRoute = errors.New("gcx: no route")

func (noRoute) GetRoute(context.Context, boson.Address) ([]*routetab.Path, error) { return nil, errNoRoute }
func (noRoute) FindRoute(context.Context, boson.Address, ...time.Duration) ([]*routetab.Path, error) {
	return nil, errNoRoute
}
func (noRoute) DelRoute(context.Context, boson.Address) error { return nil }
func (noRoute) Connect(context.Context, boson.Address) error   { return errNoRoute }
func (noRoute) GetTargetNeighbor(context.Context, boson.Address, int) ([]boson.Address, error) {
	return nil, errNoRoute
}
func (noRoute) IsNeighbor(boson.Address) bool { return false }
func (noRoute) FindUnderlay(context.Context, boson.Address, ...time.Duration) (*aurora.Address, error) {
	return nil, errNoRoute
}

// ---------------------------------------------------------------- what localstore sees as db.discover
// the REAL chunkinfo, behind a wrapper that lets the harness act right before a
// DelFile call of a collection run and right after it (interleaving points inside a run)

type discWrap struct {
	chunkinfo.Interface
	sys *Sys
}

func (w *discWrap) DelFile(root boson.Address, del func() error) error {
	real := func() error { return w.Interface.DelFile(root, del) }
	if f := w.sys.OnDelFile; f != nil {
		return f(root, real)
	}
	return real()
}

// ---------------------------------------------------------------- the system

// Sys is one node-local stack.
type Sys struct {
	Base   []byte
	Cap    uint64
	DB     *localstore.DB
	W      *Rec
	NS     *netstore.Store
	Trav   traversal.Traverser
	Pin    *pinning.Service
	CI     *chunkinfo.ChunkInfo
	API    http.Handler
	State  storage.StateStorer
	Self   boson.Address
	Peer   boson.Address     // the overlay the network answers as
	Remote map[string][]byte // chunks the network can deliver (key: raw address)
	Online bool
	// OnDelFile, when set, is called for every DelFile of a collection run instead of the real one (which it gets as `real`)
	OnDelFile func(root boson.Address, real func() error) error
	apiSvc    api.Service
}

// New builds the stack on a fresh in-memory store.
func New(base []byte, capacity uint64) (*Sys, error) {
	lsx.Register()
	log := logging.New(io.Discard, 0)
	s := &Sys{Base: base, Cap: capacity, Remote: map[string][]byte{}, Online: true}
	s.Self = boson.NewAddress(base)
	peer := append([]byte{}, base...)
	peer[len(peer)-1] ^= 0xff
	s.Peer = boson.NewAddress(peer)
	db, err := localstore.New("", base, &localstore.Options{Capacity: capacity, Driver: `leveldb:{"WriteBuffer":262144,"BlockCacheCapacity":262144}`}, log)
	if err != nil {
		return nil, err
	}
	db.VerifStopGCWorker()
	localstore.VerifSetNow(func() int64 { return nowVal })
	s.DB = db
	s.W = &Rec{db: db}
	st, err := stateldb.NewInMemoryStateStore(log)
	if err != nil {
		return nil, err
	}
	s.State = st
	s.NS = netstore.New(s.W, &retr{sys: s}, log, s.Self)
	s.Trav = traversal.New(s.NS)
	s.Pin = pinning.NewService(s.W, st, s.Trav)
	s.CI = chunkinfo.New(s.Self, nil, log, s.Trav, st, s.NS, noRoute{}, nil, nil, subscribe.NewSubPub())
	db.SetChunkInfo(&discWrap{Interface: s.CI, sys: s})
	s.NS.SetChunkInfo(s.CI)
	s.apiSvc = api.New(s.NS, nil, s.Self, s.CI, s.Trav, s.Pin, nil, log, nil, nil, nil, nil, nil, nil, api.Options{})
	s.API = s.apiSvc
	return s, nil
}

func (s *Sys) Close() {
	if s.apiSvc != nil {
		_ = s.apiSvc.Close()
	}
	if s.DB != nil {
		_ = s.DB.Close()
	}
	if s.State != nil {
		_ = s.State.Close()
	}
}

// ---- API calls (httptest)

func (s *Sys) do(method, path string, hdr map[string]string, body []byte) (int, []byte) {
	var rd io.Reader = http.NoBody
	if body != nil {
		rd = bytes.NewReader(body)
	}
	req := httptest.NewRequest(method, path, rd)
	for k, v := range hdr {
		req.Header.Set(k, v)
	}
	w := httptest.NewRecorder()
	s.API.ServeHTTP(w, req)
	return w.Code, w.Body.Bytes()
}

func refOf(body []byte) (boson.Address, error) {
	i := bytes.Index(body, []byte(`"reference":"`))
	if i < 0 {
		return boson.ZeroAddress, fmt.Errorf("no reference in %q", body)
	}
	b := body[i+len(`"reference":"`):]
	j := bytes.IndexByte(b, '"')
	return boson.ParseHexAddress(string(b[:j]))
}

func pinHdr(h map[string]string, pin bool) map[string]string {
	if pin {
		h["Aurora-Pin"] = "true"
	}
	return h
}

// UploadAurora: POST /aurora?name=... (fileUploadHandler: file + manifest, registers the file with chunkinfo).
func (s *Sys) UploadAurora(name string, content []byte, pin bool) (boson.Address, int, error) {
	code, body := s.do("POST", "/aurora?name="+name, pinHdr(map[string]string{"Content-Type": "application/octet-stream"}, pin), content)
	if code != http.StatusCreated {
		return boson.ZeroAddress, code, fmt.Errorf("upload aurora: %d %s", code, body)
	}
	a, err := refOf(body)
	return a, code, err
}

// UploadBytes: POST /bytes (raw file, NOT registered with chunkinfo).
func (s *Sys) UploadBytes(content []byte, pin bool) (boson.Address, int, error) {
	code, body := s.do("POST", "/bytes", pinHdr(map[string]string{"Content-Type": "application/octet-stream"}, pin), content)
	if code != http.StatusCreated {
		return boson.ZeroAddress, code, fmt.Errorf("upload bytes: %d %s", code, body)
	}
	a, err := refOf(body)
	return a, code, err
}

// UploadChunk: POST /chunks (one content-addressed chunk: span ++ payload).
func (s *Sys) UploadChunk(data []byte, pin bool) (boson.Address, int, error) {
	code, body := s.do("POST", "/chunks", pinHdr(map[string]string{"Content-Type": "application/octet-stream"}, pin), data)
	if code != http.StatusCreated && code != http.StatusOK {
		return boson.ZeroAddress, code, fmt.Errorf("upload chunk: %d %s", code, body)
	}
	a, err := refOf(body)
	return a, code, err
}

// Delete: DELETE /aurora/{root} (auroraDeleteHandler).
func (s *Sys) Delete(root boson.Address) int {
	code, _ := s.do("DELETE", "/aurora/"+root.String(), map[string]string{}, nil)
	return code
}

// PinRoot / UnpinRoot: POST / DELETE /pins/{root}.
func (s *Sys) PinRoot(root boson.Address) int {
	code, _ := s.do("POST", "/pins/"+root.String(), map[string]string{}, nil)
	return code
}
func (s *Sys) UnpinRoot(root boson.Address) int {
	code, _ := s.do("DELETE", "/pins/"+root.String(), map[string]string{}, nil)
	return code
}

// ---- download side

// FetchPyramid: the node receives the pyramid (edge chunks) of root from the network.
func (s *Sys) FetchPyramid(root boson.Address, pyramid map[string][]byte) error {
	return s.CI.VerifGCOnPyramid(context.Background(), root, s.Peer, pyramid)
}

// FetchChunk: netstore.Get of one chunk under the file context, in ModeGetRequest
// (what the joiner of a download does); a miss goes to the network.
func (s *Sys) FetchChunk(root, addr boson.Address) error {
	_, err := s.NS.Get(sctx.SetRootHash(context.Background(), root), storage.ModeGetRequest, addr)
	return err
}

// ReadFile reads a (non-manifest) file reference through the joiner over the
// netstore as downloadHandler does; withRoot: under the file context (misses go to the network).
func (s *Sys) ReadFile(ctxRoot *boson.Address, ref boson.Address, mode storage.ModeGet) ([]byte, error) {
	ctx := context.Background()
	if ctxRoot != nil {
		ctx = sctx.SetRootHash(ctx, *ctxRoot)
	}
	j, _, err := joiner.New(ctx, s.NS, mode, ref)
	if err != nil {
		return nil, err
	}
	return io.ReadAll(j)
}

// ---- traversal views (used for the catalogue and by the oracles)

// Leaves: the data chunk addresses of root in traversal order with repeats (GetChunkHashes, flattened).
func (s *Sys) Leaves(root boson.Address) ([][]byte, error) {
	h, _, err := s.Trav.GetChunkHashes(context.Background(), root, nil)
	if err != nil {
		return nil, err
	}
	var out [][]byte
	for _, l := range h {
		for _, b := range l {
			out = append(out, append([]byte{}, b...))
		}
	}
	return out, nil
}

// Edges: GetPyramid (hex address -> span ++ payload).
func (s *Sys) Edges(root boson.Address) (map[string][]byte, error) {
	return s.Trav.GetPyramid(context.Background(), root)
}

// ---- pyramid tables

type PyramidDump struct {
	Roots  []string // hex, sorted
	Hash   map[string][2]uint
	Chunks []string // hex, sorted
	Count  map[string]uint
}

func (s *Sys) Pyramid() PyramidDump {
	d := s.CI.VerifGCPyramidDump()
	p := PyramidDump{Hash: d.HashData, Count: d.Chunk}
	for k := range d.HashData {
		p.Roots = append(p.Roots, k)
	}
	for k := range d.Chunk {
		p.Chunks = append(p.Chunks, k)
	}
	sort.Strings(p.Roots)
	sort.Strings(p.Chunks)
	return p
}

// HasChunk / PinCount through the public store API.
func (s *Sys) HasChunk(a []byte) bool {
	ok, _ := s.DB.Has(context.Background(), storage.ModeHasChunk, boson.NewAddress(a))
	return ok
}

func hexOf(b []byte) string { return fmt.Sprintf("%x", b) }

var _ = strings.Repeat
