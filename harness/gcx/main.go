package gcx

import (
	"verifharness/hx"
)

// RunHist executes one history with the given oracle and records the case.
func RunHist(run *hx.Run, h *Hist, orc Oracle) {
	r, err := NewRunner(h, run)
	if err != nil {
		panic(err)
	}
	r.Orc = orc
	for _, op := range h.Ops {
		r.Exec(op, false)
	}
	nontrivial := r.Recycled > 0
	if _, ok := orc.(*C16Oracle); ok {
		nontrivial = r.Recycled > 0 || r.Deleted > 0
	}
	run.HistN("steps", r.NSteps)
	run.AddCase(r.CoqCase(), h, h.Key(), nontrivial)
	r.Close()
}

// Main: replay, or corpus + generated histories.
func Main(run *hx.Run, orc Oracle, quick, thorough int) {
	if run.Replay != "" {
		var h Hist
		if err := run.ReadReplay(&h); err != nil {
			panic(err)
		}
		RunHist(run, &h, orc)
		run.Finish()
		return
	}
	for _, h := range Corpus() {
		RunHist(run, h, orc)
	}
	for i := 0; i < run.N(quick, thorough); i++ {
		RunHist(run, Generate(run.R.Fork(uint64(i))), orc)
	}
	run.Finish()
}
