package gcx

import (
	"bytes"
	"context"
	"encoding/hex"
	"fmt"
	"os"
	"sort"
	"strings"

	"github.com/gauss-project/aurorafs/pkg/boson"
	"github.com/gauss-project/aurorafs/pkg/localstore"
	"github.com/gauss-project/aurorafs/pkg/sctx"
	"github.com/gauss-project/aurorafs/pkg/storage"
	"verifharness/hx"
)

// ---------------------------------------------------------------- replayable history

const BlockSize = boson.ChunkSize

// FileSpec describes one file: 256 KiB blocks by id (equal ids = identical
// chunks) plus an optional partial last block.
type FileSpec struct {
	Name   string `json:"name"`
	Kind   string `json:"kind"` // aurora: POST /aurora (manifest root, registered with chunkinfo); bytes: POST /bytes (bare root)
	Blocks []int  `json:"blocks"`
	Tail   int    `json:"tail,omitempty"` // bytes of a final partial block (content id 1000+len)
}

// Op is one high-level operation on the node.
type Op struct {
	K         string `json:"k"` // upload upchunk fetchpyr fetch read pin unpin pinset unpinset putpin delete gc transfer offline online
	F         int    `json:"f"`
	Pin       bool   `json:"pin,omitempty"`
	Leaves    []int  `json:"leaves,omitempty"` // fetch / pinset / unpinset / putpin: indexes into the file's chunk set (pinset etc.: empty = every chunk)
	NoCtx     bool   `json:"noctx,omitempty"`  // pinset / unpinset: no file context in the call
	L         int    `json:"l,omitempty"`      // upchunk: index into the file's chunk set
	BatchSize uint64 `json:"batchsize,omitempty"`
	Inner     []Op   `json:"inner,omitempty"` // gc: executed inside the run, at the point At (f = -1: on the candidate itself)
	At        string `json:"at,omitempty"`    // gc: "" after candidate selection; "entry": right before the AtK-th DelFile call; "after": right after it
	AtK       int    `json:"atk,omitempty"`
}

type Hist struct {
	Kind  string     `json:"kind"`
	Base  string     `json:"base"`
	Cap   uint64     `json:"cap"`
	Files []FileSpec `json:"files"`
	Ops   []Op       `json:"ops"`
}

func (h *Hist) Key() string { return fmt.Sprintf("%s|%d|%v|%v", h.Base, h.Cap, h.Files, h.Ops) }

func blockContent(id int, n int) []byte {
	b := make([]byte, n)
	x := uint64(id)*0x9E3779B97F4A7C15 + 0xABCDEF
	for i := 0; i+8 <= n; i += 8 {
		x ^= x << 13
		x ^= x >> 7
		x ^= x << 17
		b[i], b[i+1], b[i+2], b[i+3] = byte(x), byte(x>>8), byte(x>>16), byte(x>>24)
		b[i+4], b[i+5], b[i+6], b[i+7] = byte(x>>32), byte(x>>40), byte(x>>48), byte(x>>56)
	}
	return b
}

func (f *FileSpec) Content() []byte {
	var out []byte
	for _, id := range f.Blocks {
		out = append(out, blockContent(id, BlockSize)...)
	}
	if f.Tail > 0 {
		out = append(out, blockContent(1000+f.Tail, (f.Tail+7)/8*8)[:f.Tail]...)
	}
	return out
}

// ---------------------------------------------------------------- what the source node knows about a file

type FileInfo struct {
	Spec    FileSpec
	Content []byte
	Root    boson.Address
	Inner   boson.Address     // bare root of the content (== Root for kind bytes)
	Leaves  [][]byte          // traversal order with repeats
	Edges   [][]byte          // sorted
	EdgeMap map[string][]byte // GetPyramid of the source node
	Set     [][]byte          // every chunk once: distinct leaves in order, then edges that are not leaves
}

func inList(a []byte, l [][]byte) bool {
	for _, x := range l {
		if bytes.Equal(a, x) {
			return true
		}
	}
	return false
}

// ---------------------------------------------------------------- runner

type Oracle interface {
	// called around collection runs and deletions
	Before(r *Runner, kind string, op Op)
	After(r *Runner, kind string, op Op, ok bool)
}

type Runner struct {
	H      *Hist
	R, S   *Sys
	Files  []FileInfo
	Univ   [][]byte
	idx    map[string]int
	Steps  []string
	Run    *hx.Run
	Orc    Oracle
	Uploaded map[string]bool // addresses stored by a local upload call (Put in an upload mode that stored the chunk)
	// bookkeeping of the oracles, from the recorded calls (not from the model):
	CachedUnder map[string]map[string]bool // root -> chunks stored by a request-mode put under that file context
	CtxPins     map[string]map[string]int  // root -> chunk -> pins made minus unpins made under that file context
	Inflated    map[string]bool            // root -> its gc counter may legitimately exceed "cached minus context-pinned": an unpin or a removal
	//                                         happened under its context (unpin re-adds; removals leave the share of chunks other files keep)

	prev     localstore.VerifDump
	prevCI   string
	prevRoots map[string]bool
	// collection run in progress: what the oracle needs about the interleaving points
	GcEntries []GcEntry
	PinDelta  map[string]int64 // pin count changes made by the operations injected into the run
	candFile  int
	// statistics
	Recycled int
	Deleted  int
	NSteps   int
}

func unhex(s string) []byte { b, _ := hex.DecodeString(s); return b }

// NewRunner builds the source node (all files uploaded there) and the node under test.
func NewRunner(h *Hist, run *hx.Run) (*Runner, error) {
	base := unhex(h.Base)
	R, err := New(base, 1000000)
	if err != nil {
		return nil, err
	}
	R.W.Quiet = true
	r := &Runner{H: h, R: R, Run: run, idx: map[string]int{}, Uploaded: map[string]bool{}, prevRoots: map[string]bool{}, prevCI: "(CiNow RE RE)",
		CachedUnder: map[string]map[string]bool{}, CtxPins: map[string]map[string]int{}, Inflated: map[string]bool{}}
	for _, fs := range h.Files {
		fi := FileInfo{Spec: fs, Content: fs.Content()}
		inner, _, err := R.UploadBytes(fi.Content, false)
		if err != nil {
			return nil, err
		}
		fi.Inner = inner
		if fs.Kind == "aurora" {
			root, _, err := R.UploadAurora(fs.Name, fi.Content, false)
			if err != nil {
				return nil, err
			}
			fi.Root = root
		} else {
			fi.Root = inner
		}
		if fi.Leaves, err = R.Leaves(fi.Root); err != nil {
			return nil, err
		}
		if fi.EdgeMap, err = R.Edges(fi.Root); err != nil {
			return nil, err
		}
		var ks []string
		for k := range fi.EdgeMap {
			ks = append(ks, k)
		}
		sort.Strings(ks)
		for _, k := range ks {
			fi.Edges = append(fi.Edges, unhex(k))
		}
		for _, l := range fi.Leaves {
			if !inList(l, fi.Set) {
				fi.Set = append(fi.Set, l)
			}
		}
		for _, e := range fi.Edges {
			if !inList(e, fi.Leaves) {
				fi.Set = append(fi.Set, e)
			}
		}
		r.Files = append(r.Files, fi)
	}
	d, err := R.DB.VerifDump()
	if err != nil {
		return nil, err
	}
	remote := map[string][]byte{}
	for _, e := range d.Data {
		remote[string(e.Address)] = e.Data
		r.Univ = append(r.Univ, e.Address)
	}
	for i, u := range r.Univ {
		r.idx[string(u)] = i
	}
	S, err := New(base, h.Cap)
	if err != nil {
		return nil, err
	}
	S.Remote = remote
	r.S = S
	return r, nil
}

func (r *Runner) Close() {
	if r.S != nil {
		r.S.Close()
	}
	if r.R != nil {
		r.R.Close()
	}
}

// ---------------------------------------------------------------- Coq rendering (constructors of Aurora.C11.Corr / Aurora.C12.Corr)

func (r *Runner) ai(b []byte) string {
	if i, ok := r.idx[string(b)]; ok {
		return fmt.Sprint(i)
	}
	return "99999"
}
func nlOf(xs []string) string {
	if len(xs) == 0 {
		return "E"
	}
	var sb strings.Builder
	for _, x := range xs {
		sb.WriteString("(C ")
		sb.WriteString(x)
		sb.WriteString(" ")
	}
	sb.WriteString("E")
	sb.WriteString(strings.Repeat(")", len(xs)))
	return sb.String()
}
func (r *Runner) nlAddrs(l [][]byte) string {
	xs := make([]string, len(l))
	for i, a := range l {
		xs[i] = r.ai(a)
	}
	return nlOf(xs)
}
func nlBytes(b []byte) string {
	xs := make([]string, len(b))
	for i, x := range b {
		xs[i] = fmt.Sprint(x)
	}
	return nlOf(xs)
}
func nlBools(l []bool) string {
	xs := make([]string, len(l))
	for i, x := range l {
		if x {
			xs[i] = "1"
		} else {
			xs[i] = "0"
		}
	}
	return nlOf(xs)
}
func rowsOf(rows []string) string {
	if len(rows) == 0 {
		return "RE"
	}
	var sb strings.Builder
	for _, x := range rows {
		sb.WriteString("(")
		sb.WriteString(x)
		sb.WriteString(" ")
	}
	sb.WriteString("RE")
	sb.WriteString(strings.Repeat(")", len(rows)))
	return sb.String()
}
func (r *Runner) coqRoot(root []byte) string {
	if root == nil {
		return "NoRoot"
	}
	return "(Root " + r.ai(root) + ")"
}

// token of a payload: the universe index of the address it belongs to; the real
// bytes are compared here, against what the source node holds.
func (r *Runner) token(addr, data []byte) string {
	want, ok := r.S.Remote[string(addr)]
	if !ok || !bytes.Equal(want, data) {
		return "(C 88888 E)"
	}
	return "(C " + r.ai(addr) + " E)"
}

func gcKey(e localstore.VerifGCEntry) string {
	return fmt.Sprintf("%d|%d|%x", uint64(e.AccessTimestamp), e.BinID, e.Address)
}

// diff of two dumps as a GD term
func (r *Runner) coqDiff(prev, cur localstore.VerifDump, running bool, dirty []boson.Address) string {
	var du, dd, au, ad, gu, gd, pu, pd, bu []string
	pm := map[string]localstore.VerifDataEntry{}
	for _, e := range prev.Data {
		pm[string(e.Address)] = e
	}
	cm := map[string]bool{}
	for _, e := range cur.Data {
		cm[string(e.Address)] = true
		p, ok := pm[string(e.Address)]
		if !ok || p.BinID != e.BinID || p.StoreTimestamp != e.StoreTimestamp || !bytes.Equal(p.Data, e.Data) {
			du = append(du, fmt.Sprintf("RD %s %d %d %s", r.ai(e.Address), e.BinID, uint64(e.StoreTimestamp), r.token(e.Address, e.Data)))
		}
	}
	for _, e := range prev.Data {
		if !cm[string(e.Address)] {
			dd = append(dd, r.ai(e.Address))
		}
	}
	pa := map[string]int64{}
	for _, e := range prev.Access {
		pa[string(e.Address)] = e.AccessTimestamp
	}
	ca := map[string]bool{}
	for _, e := range cur.Access {
		ca[string(e.Address)] = true
		if v, ok := pa[string(e.Address)]; !ok || v != e.AccessTimestamp {
			au = append(au, fmt.Sprintf("R2 %s %d", r.ai(e.Address), uint64(e.AccessTimestamp)))
		}
	}
	for _, e := range prev.Access {
		if !ca[string(e.Address)] {
			ad = append(ad, r.ai(e.Address))
		}
	}
	pg := map[string]uint64{}
	for _, e := range prev.GC {
		pg[gcKey(e)] = e.GCounter
	}
	cg := map[string]bool{}
	for _, e := range cur.GC {
		cg[gcKey(e)] = true
		if v, ok := pg[gcKey(e)]; !ok || v != e.GCounter {
			gu = append(gu, fmt.Sprintf("R4 %d %d %s %d", uint64(e.AccessTimestamp), e.BinID, r.ai(e.Address), e.GCounter))
		}
	}
	for _, e := range prev.GC {
		if !cg[gcKey(e)] {
			gd = append(gd, fmt.Sprintf("R4 %d %d %s 0", uint64(e.AccessTimestamp), e.BinID, r.ai(e.Address)))
		}
	}
	pp := map[string]uint64{}
	for _, e := range prev.Pin {
		pp[string(e.Address)] = e.PinCounter
	}
	cp := map[string]bool{}
	for _, e := range cur.Pin {
		cp[string(e.Address)] = true
		if v, ok := pp[string(e.Address)]; !ok || v != e.PinCounter {
			pu = append(pu, fmt.Sprintf("R2 %s %d", r.ai(e.Address), e.PinCounter))
		}
	}
	for _, e := range prev.Pin {
		if !cp[string(e.Address)] {
			pd = append(pd, r.ai(e.Address))
		}
	}
	pb := map[uint8]uint64{}
	for _, e := range prev.BinIDs {
		pb[e.PO] = e.ID
	}
	for _, e := range cur.BinIDs {
		if v, ok := pb[e.PO]; !ok || v != e.ID {
			bu = append(bu, fmt.Sprintf("R2 %d %d", e.PO, e.ID))
		}
	}
	ds := make([]string, len(dirty))
	for i, a := range dirty {
		ds[i] = r.ai(a.Bytes())
	}
	return fmt.Sprintf("(GD %s %s %s %s %s %s %s %s %s %d %s %s)", rowsOf(du), nlOf(dd), rowsOf(au), nlOf(ad), rowsOf(gu), rowsOf(gd),
		rowsOf(pu), nlOf(pd), rowsOf(bu), cur.GCSize, hx.CoqBool(running), nlOf(ds))
}

func (r *Runner) coqCI(p PyramidDump) string {
	var hs, cs []string
	for _, k := range p.Roots {
		v := p.Hash[k]
		hs = append(hs, fmt.Sprintf("R4 %s %d %d 0", r.ai(unhex(k)), v[0], v[1]))
	}
	for _, k := range p.Chunks {
		cs = append(cs, fmt.Sprintf("R2 %s %d", r.ai(unhex(k)), p.Count[k]))
	}
	return "(CiNow " + rowsOf(hs) + " " + rowsOf(cs) + ")"
}

// emit one step. ci: "" = not compared at this step (CiSkip), otherwise the table term.
func (r *Runner) emit(cop, cobs string, cur localstore.VerifDump, running bool, dirty []boson.Address, ci string) {
	c := "CiSkip"
	if ci != "" {
		if ci == r.prevCI {
			c = "CiSame"
		} else {
			c = ci
			r.prevCI = ci
		}
	}
	r.Steps = append(r.Steps, fmt.Sprintf("(%s) (%s) %s %s", cop, cobs, r.coqDiff(r.prev, cur, running, dirty), c))
	r.prev = cur
	r.NSteps++
	r.prune(cur)
}

// prune forgets the per-context bookkeeping of chunks that are no longer stored.
func (r *Runner) prune(d localstore.VerifDump) {
	have := map[string]bool{}
	for _, e := range d.Data {
		have[string(e.Address)] = true
	}
	for _, m := range r.CachedUnder {
		for a := range m {
			if !have[a] {
				delete(m, a)
			}
		}
	}
	for _, m := range r.CtxPins {
		for a := range m {
			if !have[a] {
				delete(m, a)
			}
		}
	}
}

// track updates the per-context bookkeeping from one recorded call.
func (r *Runner) track(c Call) {
	if c.Root != nil && c.K == "set" && (storage.ModeSet(c.Mode) == storage.ModeSetUnpin || storage.ModeSet(c.Mode) == storage.ModeSetRemove) {
		r.Inflated[string(c.Root)] = true
	}
	if c.Err != 0 || c.Root == nil {
		return
	}
	root := string(c.Root)
	if r.CachedUnder[root] == nil {
		r.CachedUnder[root] = map[string]bool{}
	}
	if r.CtxPins[root] == nil {
		r.CtxPins[root] = map[string]int{}
	}
	seen := map[string]bool{}
	switch c.K {
	case "put":
		for i, a := range c.Addrs {
			as := string(a)
			if seen[as] {
				continue
			}
			seen[as] = true
			stored := i < len(c.Exist) && !c.Exist[i]
			switch storage.ModePut(c.Mode) {
			case storage.ModePutRequest:
				if stored {
					r.CachedUnder[root][as] = true
				}
			case storage.ModePutRequestPin:
				if stored {
					r.CachedUnder[root][as] = true
					r.CtxPins[root][as]++
				}
			case storage.ModePutUploadPin:
				r.CtxPins[root][as]++
			}
		}
	case "set":
		for _, a := range c.Addrs {
			as := string(a)
			switch storage.ModeSet(c.Mode) {
			case storage.ModeSetPin:
				r.CtxPins[root][as]++
			case storage.ModeSetUnpin:
				if r.CtxPins[root][as] > 0 {
					r.CtxPins[root][as]--
				} else {
					r.Inflated[root] = true
				}
			}
		}
	}
}

func (r *Runner) emitCall(c Call) {
	r.track(c)
	running, dirty := c.Running, c.Dirty
	switch c.K {
	case "put":
		cs := make([]string, len(c.Addrs))
		for i := range c.Addrs {
			cs[i] = fmt.Sprintf("RB %s %s", r.ai(c.Addrs[i]), r.token(c.Addrs[i], c.Datas[i]))
			if c.Err == 0 && (c.Mode == int(storage.ModePutUpload) || c.Mode == int(storage.ModePutUploadPin)) {
				r.Uploaded[string(c.Addrs[i])] = true
			}
		}
		r.emit(fmt.Sprintf("XLs (KPut %d %d %s %s)", uint64(c.T), c.Mode, r.coqRoot(c.Root), rowsOf(cs)),
			fmt.Sprintf("YLs (QPut %d %s %s)", c.Err, nlBools(c.Exist), hx.CoqBool(c.Trig)), c.Dump, running, dirty, "")
		r.Run.Hist(fmt.Sprintf("call.put.mode%d", c.Mode))
	case "get":
		d := "E"
		if c.Err == 0 {
			d = r.token(c.Addrs[0], c.Out[0])
		}
		r.emit(fmt.Sprintf("XLs (KGet %d %d %s %s)", uint64(c.T), c.Mode, r.coqRoot(c.Root), r.ai(c.Addrs[0])),
			fmt.Sprintf("YLs (QGet %d %s)", c.Err, d), c.Dump, running, dirty, "")
		r.Run.Hist("call.get-request")
	case "getmulti":
		var ds []string
		if c.Err == 0 {
			for i := range c.Out {
				ds = append(ds, "RB 0 "+r.token(c.Addrs[i], c.Out[i]))
			}
		}
		r.emit(fmt.Sprintf("XLs (KGetMulti %d %d %s)", uint64(c.T), c.Mode, r.nlAddrs(c.Addrs)),
			fmt.Sprintf("YLs (QGetMulti %d %s)", c.Err, rowsOf(ds)), c.Dump, running, dirty, "")
	case "set":
		r.emit(fmt.Sprintf("XLs (KSet %d %d %s %s)", uint64(c.T), c.Mode, r.coqRoot(c.Root), r.nlAddrs(c.Addrs)),
			fmt.Sprintf("YLs (QSet %d %s)", c.Err, hx.CoqBool(c.Trig)), c.Dump, running, dirty, "")
		r.Run.Hist(fmt.Sprintf("call.set.mode%d", c.Mode))
	}
}

// after a high-level operation: the recorded calls as XLs steps, then one XReg
// per root that chunkinfo registered meanwhile, then the table comparison.
func (r *Runner) flush() {
	for _, c := range r.S.W.Take() {
		r.emitCall(c)
	}
	p := r.S.Pyramid()
	var added []string
	cur := map[string]bool{}
	for _, k := range p.Roots {
		cur[k] = true
		if !r.prevRoots[k] {
			added = append(added, k)
		}
	}
	r.prevRoots = cur
	running, dirty := r.S.DB.VerifGCState()
	for i, k := range added {
		ci := ""
		if i == len(added)-1 {
			ci = r.coqCI(p)
		}
		r.emit("XReg "+r.ai(unhex(k)), "YDone", r.prev, running, dirty, ci)
		r.Run.Hist("step.register")
	}
	if len(added) == 0 && r.coqCI(p) != r.prevCI && len(r.Steps) > 0 {
		// tables changed without a registration: not expressible by a step of the model -> compare at a no-op step
		r.emit("XLs (KHas 1 0)", "YLs (QHas 0 "+hx.CoqBool(r.S.HasChunk(r.Univ[0]))+")", r.prev, running, dirty, r.coqCI(p))
	}
}

// ---------------------------------------------------------------- execution

// GcEntry: the store right before one DelFile call of a run (after an injected operation, if any).
type GcEntry struct {
	Root  string
	S     Snap
	Dirty bool  // the root was in dirtyAddresses
	Post  *Snap // after an operation injected right after the call
}

func (r *Runner) file(i int) *FileInfo {
	if i == -1 && r.candFile >= 0 && r.candFile < len(r.Files) {
		return &r.Files[r.candFile]
	}
	if i < 0 || i >= len(r.Files) {
		return &r.Files[0]
	}
	return &r.Files[i]
}

// pick: the chunks of the file at the given indexes of its chunk set (none given: every chunk, distinct)
func (r *Runner) pick(f *FileInfo, idx []int) []boson.Address {
	var out []boson.Address
	if len(idx) == 0 {
		for _, c := range f.Set {
			out = append(out, boson.NewAddress(c))
		}
		return out
	}
	seen := map[int]bool{}
	for _, i := range idx {
		i = i % len(f.Set)
		if !seen[i] {
			seen[i] = true
			out = append(out, boson.NewAddress(f.Set[i]))
		}
	}
	return out
}

func (r *Runner) Exec(op Op, inner bool) {
	f := r.file(op.F)
	r.Run.Hist("op." + op.K)
	switch op.K {
	case "upload":
		if f.Spec.Kind == "aurora" {
			_, _, _ = r.S.UploadAurora(f.Spec.Name, f.Content, op.Pin)
		} else {
			_, _, _ = r.S.UploadBytes(f.Content, op.Pin)
		}
		r.flush()
	case "upchunk":
		a := f.Root.Bytes() // L < 0: the root chunk
		if op.L >= 0 {
			a = f.Set[op.L%len(f.Set)]
		}
		_, _, _ = r.S.UploadChunk(r.S.Remote[string(a)], op.Pin)
		r.flush()
	case "fetchpyr":
		if err := r.S.FetchPyramid(f.Root, f.EdgeMap); err != nil {
			r.Run.Hist("fetchpyr.error")
			if os.Getenv("GCX_DEBUG") != "" {
				fmt.Fprintln(os.Stderr, "fetchpyr:", err)
			}
		}
		r.flush()
	case "fetch":
		for _, l := range op.Leaves {
			if err := r.S.FetchChunk(f.Root, boson.NewAddress(f.Set[l%len(f.Set)])); err != nil {
				r.Run.Hist("fetch.error")
				if os.Getenv("GCX_DEBUG") != "" {
					fmt.Fprintln(os.Stderr, "fetch:", err)
				}
			}
		}
		r.flush()
	case "read":
		_ = r.S.FetchChunk(f.Root, f.Root)
		_, _ = r.S.ReadFile(&f.Root, f.Inner, storage.ModeGetRequest)
		r.flush()
	case "pin":
		r.S.PinRoot(f.Root)
		r.flush()
	case "unpin":
		r.S.UnpinRoot(f.Root)
		r.flush()
	case "pinset", "unpinset":
		// ONE Set call with several addresses (chunks of the file), under the file context unless NoCtx
		mode := storage.ModeSetPin
		if op.K == "unpinset" {
			mode = storage.ModeSetUnpin
		}
		ctx := context.Background()
		if !op.NoCtx {
			ctx = sctx.SetRootHash(ctx, f.Root)
		}
		_ = r.S.NS.Set(ctx, mode, r.pick(f, op.Leaves)...)
		r.flush()
	case "putpin":
		// ONE Put call in ModePutRequestPin with several chunks of the file, under the file context
		var chs []boson.Chunk
		for _, a := range r.pick(f, op.Leaves) {
			chs = append(chs, boson.NewChunk(a, r.S.Remote[a.ByteString()]))
		}
		_, _ = r.S.NS.Put(sctx.SetRootHash(context.Background(), f.Root), storage.ModePutRequestPin, chs...)
		r.flush()
	case "transfer":
		_ = r.S.CI.OnChunkTransferred(boson.NewAddress(f.Leaves[0]), f.Root, r.S.Peer, r.S.Self)
		r.flush()
	case "offline":
		r.S.Online = false
	case "online":
		r.S.Online = true
	case "delete":
		if inner {
			return
		}
		if r.Orc != nil {
			r.Orc.Before(r, "delete", op)
		}
		code := r.S.Delete(f.Root)
		calls := r.S.W.Take()
		// the order in which the closure went through the pyramid: distinct addresses of the
		// Set(ModeSetRemove) calls; the last call is the removal of the root itself
		var order [][]byte
		r.Inflated[f.Root.ByteString()] = true
		for i, c := range calls {
			r.track(c)
			if c.K != "set" || c.Mode != int(storage.ModeSetRemove) || len(c.Addrs) != 1 {
				order = append(order, []byte("unexpected call"))
				continue
			}
			if i == len(calls)-1 && bytes.Equal(c.Addrs[0], f.Root.Bytes()) {
				break
			}
			if len(order) == 0 || !bytes.Equal(order[len(order)-1], c.Addrs[0]) {
				order = append(order, c.Addrs[0])
			}
		}
		d, err := r.S.DB.VerifDump()
		if err != nil {
			panic(err)
		}
		p := r.S.Pyramid()
		r.prevRoots = map[string]bool{}
		for _, k := range p.Roots {
			r.prevRoots[k] = true
		}
		running, dirty := r.S.DB.VerifGCState()
		r.emit(fmt.Sprintf("XDelete %s %s", r.ai(f.Root.Bytes()), r.nlAddrs(order)), "YDel "+hx.CoqBool(code == 200), d, running, dirty, r.coqCI(p))
		r.Run.Hist(fmt.Sprintf("delete.status%d", code))
		if code == 200 {
			r.Deleted++
		}
		if r.Orc != nil {
			r.Orc.After(r, "delete", op, code == 200)
		}
	case "gc":
		if inner {
			return
		}
		if r.Orc != nil {
			r.Orc.Before(r, "gc", op)
		}
		bs := op.BatchSize
		if bs == 0 {
			bs = 10000
		}
		prevBS := localstore.VerifSetGCBatchSize(bs)
		target := r.S.DB.VerifGCTarget()
		begin := fmt.Sprintf("XGcBegin %d %d", target, bs)
		started := false
		gcBefore := len(r.prev.GC)
		r.GcEntries = nil
		r.PinDelta = map[string]int64{}
		fileOf := func(root []byte) int {
			for i := range r.Files {
				if bytes.Equal(r.Files[i].Root.Bytes(), root) {
					return i
				}
			}
			return -1
		}
		inject := func(root []byte) {
			r.candFile = fileOf(root)
			if r.candFile < 0 {
				return
			}
			pre := r.Snap()
			for _, in := range op.Inner {
				r.Exec(in, true)
			}
			post := r.Snap()
			for c, n := range post.Pin {
				if n != pre.Pin[c] {
					r.PinDelta[c] += int64(n) - int64(pre.Pin[c])
				}
			}
			for c, n := range pre.Pin {
				if _, ok := post.Pin[c]; !ok {
					r.PinDelta[c] -= int64(n)
				}
			}
			r.Run.Hist("gc.injected-at-" + map[string]string{"": "selection", "entry": "delfile-entry", "after": "after-delfile"}[op.At])
		}
		ncall := 0
		r.S.OnDelFile = func(root boson.Address, real func() error) error {
			k := ncall
			ncall++
			if op.At == "entry" && op.AtK == k {
				inject(root.Bytes())
			}
			_, dirtyNow := r.S.DB.VerifGCState()
			e := GcEntry{Root: root.ByteString(), S: r.Snap(), Dirty: root.MemberOf(dirtyNow)}
			err := real()
			d, derr := r.S.DB.VerifDump()
			if derr != nil {
				panic(derr)
			}
			running, dirty := r.S.DB.VerifGCState()
			p := r.S.Pyramid()
			r.prevRoots = map[string]bool{}
			for _, kk := range p.Roots {
				r.prevRoots[kk] = true
			}
			r.emit("XGcStep "+r.ai(root.Bytes()), "YDone", d, running, dirty, r.coqCI(p))
			r.Run.Hist("step.gc-delfile")
			if op.At == "after" && op.AtK == k {
				inject(root.Bytes())
				ps := r.Snap()
				e.Post = &ps
			}
			r.GcEntries = append(r.GcEntries, e)
			return err
		}
		coll, done, err := r.S.DB.VerifCollectGarbage(func() {
			started = true
			d, e := r.S.DB.VerifDump()
			if e != nil {
				panic(e)
			}
			running, dirty := r.S.DB.VerifGCState()
			r.emit(begin, "YLs (QGcBegin true)", d, running, dirty, "")
			if op.At == "" && len(op.Inner) > 0 {
				// f = -1 at this point: the oldest entry of the gc index (the first candidate)
				var first []byte
				if len(d.GC) > 0 {
					first = d.GC[0].Address
				}
				r.candFile = fileOf(first)
				if r.candFile < 0 {
					r.candFile = 0
				}
				inject(r.Files[r.candFile].Root.Bytes())
			}
		})
		r.S.OnDelFile = nil
		localstore.VerifSetGCBatchSize(prevBS)
		_ = r.S.DB.VerifGCTriggered()
		d, e := r.S.DB.VerifDump()
		if e != nil {
			panic(e)
		}
		running, dirty := r.S.DB.VerifGCState()
		ec := errClass(err)
		p := r.S.Pyramid()
		r.prevRoots = map[string]bool{}
		for _, k := range p.Roots {
			r.prevRoots[k] = true
		}
		if !started {
			if ec != 0 || coll != 0 || !done {
				r.emit(begin, fmt.Sprintf("YLs (QGcEnd %d %s)", coll+1000000+ec, hx.CoqBool(done)), d, running, dirty, r.coqCI(p))
			} else {
				r.emit(begin, "YLs (QGcBegin false)", d, running, dirty, r.coqCI(p))
			}
			r.Run.Hist("gc.nothing-to-do")
		} else {
			cobs := fmt.Sprintf("YLs (QGcEnd %d %s)", coll, hx.CoqBool(done))
			if ec != 0 {
				cobs = fmt.Sprintf("YLs (QGcEnd %d %s)", 1000000+ec, hx.CoqBool(done))
			}
			r.emit("XGcEnd", cobs, d, running, dirty, r.coqCI(p))
			if len(d.GC) < gcBefore {
				r.Recycled += gcBefore - len(d.GC)
				r.Run.Hist("gc.recycled-a-file")
			} else {
				r.Run.Hist("gc.recycled-nothing")
			}
		}
		if r.Orc != nil {
			r.Orc.After(r, "gc", op, started)
		}
	default:
		panic("unknown op " + op.K)
	}
}

// CoqCase renders the whole history as a term of Aurora.C12.Corr.case.
func (r *Runner) CoqCase() string {
	var sb strings.Builder
	sb.WriteString("(CSys ")
	sb.WriteString(nlBytes(unhex(r.H.Base)))
	fmt.Fprintf(&sb, " %d ", r.H.Cap)
	for _, u := range r.Univ {
		sb.WriteString("(UC ")
		sb.WriteString(nlBytes(u))
		sb.WriteString(" ")
	}
	sb.WriteString("UE")
	sb.WriteString(strings.Repeat(")", len(r.Univ)))
	sb.WriteString("\n ")
	seen := map[string]bool{}
	n := 0
	for _, f := range r.Files {
		if seen[f.Root.ByteString()] {
			continue
		}
		seen[f.Root.ByteString()] = true
		// what the manifest probe of the traversal reads besides root and edges: a bare reference's whole content
		var probe [][]byte
		if f.Spec.Kind != "aurora" {
			probe = f.Leaves
		}
		fmt.Fprintf(&sb, "(CC %s %s %s %s ", r.ai(f.Root.Bytes()), r.nlAddrs(f.Leaves), r.nlAddrs(f.Edges), r.nlAddrs(probe))
		n++
	}
	sb.WriteString("CE")
	sb.WriteString(strings.Repeat(")", n))
	sb.WriteString("\n")
	for _, s := range r.Steps {
		sb.WriteString("  (GSC ")
		sb.WriteString(s)
		sb.WriteString("\n")
	}
	sb.WriteString("  GSE")
	sb.WriteString(strings.Repeat(")", len(r.Steps)))
	sb.WriteString(")%N")
	return sb.String()
}

// ---------------------------------------------------------------- views for the oracles (public store API and chunkinfo tables)

// Snapshot of the store as the oracles see it.
type Snap struct {
	Data  map[string]bool
	Pin   map[string]uint64
	GC    map[string]string // gc entries (full key) -> root
	Roots map[string]bool // registered roots (raw address)
	Count map[string]uint // reference counts (raw address)
}

func (r *Runner) Snap() Snap {
	d, err := r.S.DB.VerifDump()
	if err != nil {
		panic(err)
	}
	s := Snap{Data: map[string]bool{}, Pin: map[string]uint64{}, GC: map[string]string{}, Roots: map[string]bool{}, Count: map[string]uint{}}
	for _, e := range d.Data {
		s.Data[string(e.Address)] = true
	}
	for _, e := range d.Pin {
		s.Pin[string(e.Address)] = e.PinCounter
	}
	for _, e := range d.GC {
		s.GC[gcKey(e)] = string(e.Address)
	}
	p := r.S.Pyramid()
	for _, k := range p.Roots {
		s.Roots[string(unhex(k))] = true
	}
	for _, k := range p.Chunks {
		s.Count[string(unhex(k))] = p.Count[k]
	}
	return s
}

// Readable: the file can be read back completely from the local store alone:
// the traversal of its root works, every chunk is present, and the joiner
// returns the original bytes.
func (r *Runner) Readable(f *FileInfo) bool {
	if _, err := r.S.Leaves(f.Root); err != nil {
		return false
	}
	for _, c := range f.Set {
		if !r.S.HasChunk(c) {
			return false
		}
	}
	b, err := r.S.ReadFile(nil, f.Inner, storage.ModeGetLookup)
	return err == nil && bytes.Equal(b, f.Content)
}

var _ = context.Background
