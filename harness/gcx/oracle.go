package gcx

import (
	"fmt"
	"os"

	"verifharness/hx"
)

// The oracles evaluate the property statements on the implementation:
// presence of chunks and pin counters as the store reports them, the
// registered files as chunkinfo reports them, real reads through the joiner.
// They do not use the Coq model.  What each file consists of comes from the
// traversal of the SOURCE node (FileInfo).

// filesWith: the history's files (by root) containing chunk a, restricted to roots for which keep() holds.
func (r *Runner) filesWith(a string, keep func(root string) bool) []string {
	var out []string
	seen := map[string]bool{}
	for i := range r.Files {
		f := &r.Files[i]
		k := f.Root.ByteString()
		if seen[k] || !keep(k) {
			continue
		}
		for _, c := range f.Set {
			if string(c) == a {
				out = append(out, k)
				seen[k] = true
				break
			}
		}
	}
	return out
}

// ---------------------------------------------------------------- C12

// C12Oracle: no collection run deletes a chunk whose pin count is positive or
// a chunk stored by local upload, and no run changes a pin count.
type C12Oracle struct {
	before Snap
	// per root, before the run: was every stored chunk cached under the root's context pinned through that context?
	fully map[string]bool
}

func (o *C12Oracle) Before(r *Runner, kind string, op Op) {
	if kind != "gc" {
		return
	}
	o.before = r.Snap()
	b := o.before
	o.fully = map[string]bool{}
	entries := map[string]int{}
	for _, root := range b.GC {
		entries[root]++
	}
	for root, cached := range r.CachedUnder {
		n := 0
		// only for a root whose gc bookkeeping saw nothing but request puts and pins under its context
		// (no unpin / removal under it, one gc entry): then "all pinned" means "no longer a candidate"
		ok := !r.Inflated[root] && entries[root] <= 1
		for c := range cached {
			if !b.Data[c] {
				continue
			}
			n++
			if b.Pin[c] == 0 || r.CtxPins[root][c] <= 0 {
				ok = false
			}
		}
		o.fully[root] = ok && n > 0
	}
}

func (o *C12Oracle) After(r *Runner, kind string, op Op, started bool) {
	if kind != "gc" {
		return
	}
	b, a := o.before, r.Snap()
	evicted := map[string]bool{} // roots of the gc entries the run removed (a root can have several entries)
	evictedUnregistered := false
	for key, root := range b.GC {
		if _, still := a.GC[key]; !still {
			evicted[root] = true
			if !b.Roots[root] {
				evictedUnregistered = true
			}
		}
	}
	// an evicted file every cached chunk of which was pinned through the file's own context: each such pin
	// takes the chunk out of the file's gc counter, so the file should not have been a candidate at all
	fullyPinned := o.fully
	class := func(addr string) string {
		for root := range evicted {
			if !fullyPinned[root] {
				continue
			}
			if addr == root || len(r.filesWith(addr, func(rt string) bool { return rt == root })) > 0 {
				return "evicted-file-fully-pinned-through-its-context"
			}
		}
		if evicted[addr] {
			return "root-of-evicted-file"
		}
		others := r.filesWith(addr, func(root string) bool { return b.Roots[root] && !evicted[root] })
		if len(others) > 0 {
			if os.Getenv("GCX_DEBUG") != "" {
				fmt.Fprintf(os.Stderr, "chunk %x: others %x evicted %x count-before %d roots-before %x\n", addr, others, keysOf(evicted), b.Count[addr], keysOf(b.Roots))
			}
			if evictedUnregistered {
				return "chunk-of-registered-file:evicted-file-unregistered"
			}
			return "chunk-of-registered-file"
		}
		return "not-covered-by-refcount"
	}
	viol := func(sig, detail string, impl, want interface{}) {
		r.Run.Violate(hx.Violation{Sig: sig, Detail: detail, Case: r.H, Impl: impl, Want: want})
	}
	// operations injected into the run change pin counts too: the run itself must leave "before + injected"
	want := func(addr string, pc uint64) uint64 { return uint64(int64(pc) + r.PinDelta[addr]) }
	// chunks of an evicted file that was TOUCHED (its root in dirtyAddresses) when its DelFile call started:
	// the closure must give up on such a file, so whatever happens to these chunks is due to a run that
	// ignored the touch — reported under its own class below, not under the classes of untouched files
	touched := map[string]bool{}
	for _, e := range r.GcEntries {
		if e.Dirty && evicted[e.Root] {
			touched[e.Root] = true
			for i := range r.Files {
				if r.Files[i].Root.ByteString() == e.Root {
					for _, c := range r.Files[i].Set {
						touched[string(c)] = true
					}
				}
			}
		}
	}
	for addr, pc := range b.Pin {
		r.Run.OracleChecked(2)
		if pc == 0 || touched[addr] {
			continue
		}
		if b.Data[addr] && !a.Data[addr] {
			viol("gc:pinned-chunk-deleted:"+class(addr), fmt.Sprintf("chunk %x had pin count %d before the run and is gone after it", addr, pc), "deleted", "kept")
		}
		if a.Pin[addr] != want(addr, pc) {
			viol("gc:pin-count-changed:"+class(addr), fmt.Sprintf("pin count of %x: %d before the run (%+d by injected operations), %d after", addr, pc, r.PinDelta[addr], a.Pin[addr]), a.Pin[addr], want(addr, pc))
		}
	}
	for addr := range a.Pin {
		if _, ok := b.Pin[addr]; !ok && r.PinDelta[addr] <= 0 {
			viol("gc:pin-count-changed:pin-appeared", fmt.Sprintf("pin entry of %x appeared during the run", addr), a.Pin[addr], 0)
		}
	}
	// the interleaving points: what was pinned when the DelFile call of a candidate started
	for _, e := range r.GcEntries {
		if !evicted[e.Root] {
			continue
		}
		chunks := []string{e.Root}
		for i := range r.Files {
			if r.Files[i].Root.ByteString() == e.Root {
				for _, c := range r.Files[i].Set {
					if string(c) != e.Root {
						chunks = append(chunks, string(c))
					}
				}
				break
			}
		}
		for _, c := range chunks {
			r.Run.OracleChecked(1)
			pinnedAfterClosure := e.Post != nil && e.Post.Pin[c] != e.S.Pin[c]
			if pinnedAfterClosure {
				// pinned between the closure of its file and the commit of the run's batch
				if e.Post.Pin[c] > 0 && e.Post.Data[c] && !a.Data[c] {
					viol("gc:pinned-chunk-deleted:pinned-between-closure-and-commit", fmt.Sprintf("chunk %x was pinned (count %d) after the DelFile call of its file %x returned and before the run committed; it is gone after the run", c, e.Post.Pin[c], e.Root), "deleted", "kept")
				}
				continue
			}
			pc := e.S.Pin[c]
			if pc == 0 || !e.S.Data[c] {
				continue
			}
			deleted, changed := !a.Data[c], a.Pin[c] != pc
			if !deleted && !changed {
				continue
			}
			switch {
			case e.Dirty:
				if deleted {
					viol("gc:pinned-chunk-deleted:file-touched-before-its-closure", fmt.Sprintf("chunk %x had pin count %d when the DelFile call of its file %x started; the file had been touched since candidate selection (root in dirtyAddresses) and was evicted all the same", c, pc, e.Root), "deleted", "kept")
				}
				if changed {
					viol("gc:pin-count-changed:file-touched-before-its-closure", fmt.Sprintf("pin count of %x: %d when the DelFile call of its touched file %x started, %d after the run", c, pc, e.Root, a.Pin[c]), a.Pin[c], pc)
				}
			case b.Pin[c] == pc:
				// pinned like this before the run already: reported above
			default:
				// pinned during the run, before the closure, without touching the root (no file context)
				if deleted {
					viol("gc:pinned-chunk-deleted:"+class(c), fmt.Sprintf("chunk %x had pin count %d when the DelFile call of its file %x started and is gone after the run", c, pc, e.Root), "deleted", "kept")
				}
			}
		}
	}
	for addr := range r.Uploaded {
		r.Run.OracleChecked(1)
		if b.Data[addr] && !a.Data[addr] {
			viol("gc:uploaded-chunk-deleted:"+class(addr), fmt.Sprintf("chunk %x was stored by a local upload and is gone after the run", addr), "deleted", "kept")
		}
	}
}

// ---------------------------------------------------------------- C16

// C16Oracle: deleting (DELETE /aurora/{root}) or evicting one file removes no
// chunk another locally known file needs (known = registered with chunkinfo):
// every other known file that was fully readable stays fully readable; after a
// successful delete no unpinned chunk used only by the deleted file remains.
type C16Oracle struct {
	before   Snap
	readable map[string]bool // root -> readable before
}

func (o *C16Oracle) Before(r *Runner, kind string, op Op) {
	o.before = r.Snap()
	o.readable = map[string]bool{}
	for i := range r.Files {
		f := &r.Files[i]
		if o.before.Roots[f.Root.ByteString()] {
			o.readable[f.Root.ByteString()] = r.Readable(f)
		}
	}
}

func (o *C16Oracle) After(r *Runner, kind string, op Op, ok bool) {
	b, a := o.before, r.Snap()
	gone := map[string]bool{} // the files this operation deleted / evicted
	goneUnregistered := false
	if kind == "delete" {
		if !ok {
			return
		}
		root := r.file(op.F).Root.ByteString()
		gone[root] = true
		goneUnregistered = !b.Roots[root]
	} else {
		for key, root := range b.GC {
			if _, still := a.GC[key]; !still {
				gone[root] = true
				if !b.Roots[root] {
					goneUnregistered = true
				}
			}
		}
	}
	if len(gone) == 0 {
		return
	}
	viol := func(sig, detail string, impl, want interface{}) {
		r.Run.Violate(hx.Violation{Sig: sig, Detail: detail, Case: r.H, Impl: impl, Want: want})
	}
	// every other known file stays readable
	seen := map[string]bool{}
	for i := range r.Files {
		f := &r.Files[i]
		k := f.Root.ByteString()
		if seen[k] || gone[k] || !b.Roots[k] || !o.readable[k] {
			continue
		}
		seen[k] = true
		r.Run.OracleChecked(1)
		if r.Readable(f) {
			continue
		}
		class := "shared-chunk-removed"
		missingRoot := false
		for _, c := range f.Set {
			if !a.Data[string(c)] && gone[string(c)] {
				missingRoot = true
			}
		}
		switch {
		case goneUnregistered:
			class = "deleted-file-unregistered"
		case missingRoot:
			class = "root-chunk-of-deleted-file-shared"
		}
		viol("others-readable:"+kind+":"+class, fmt.Sprintf("file %x was fully readable before the %s of %d file(s) and is not after it", k, kind, len(gone)), "unreadable", "readable")
	}
	// no unpinned orphan of a deleted file (only for files that were known)
	for root := range gone {
		if !b.Roots[root] {
			continue
		}
		var f *FileInfo
		for i := range r.Files {
			if r.Files[i].Root.ByteString() == root {
				f = &r.Files[i]
			}
		}
		if f == nil {
			continue
		}
		for _, c := range f.Set {
			r.Run.OracleChecked(1)
			cs := string(c)
			if !a.Data[cs] || a.Pin[cs] > 0 {
				continue
			}
			others := r.filesWith(cs, func(rt string) bool { return a.Roots[rt] })
			if len(others) > 0 {
				continue
			}
			class := "exclusive-chunk-kept"
			if uint(len(r.filesWith(cs, func(rt string) bool { return b.Roots[rt] }))) < b.Count[cs] {
				class = "refcount-above-known-files"
			}
			if len(gone) > 1 {
				class += ":several-files-evicted"
			}
			viol("orphan:"+kind+":"+class, fmt.Sprintf("chunk %x of the deleted file %x is used by no known file, has no pin and is still stored", c, root), "stored", "removed")
		}
	}
}

func keysOf(m map[string]bool) []string {
	var l []string
	for k := range m {
		l = append(l, k)
	}
	return l
}
