package gcx

import (
	"fmt"

	"verifharness/hx"
)

const baseKey = "a1b2000000000000000000000000000000000000000000000000000000000000"

func fa(name string, blocks ...int) FileSpec { return FileSpec{Name: name, Kind: "aurora", Blocks: blocks} }
func fb(name string, blocks ...int) FileSpec { return FileSpec{Name: name, Kind: "bytes", Blocks: blocks} }

func all(n int) []int {
	l := make([]int, n)
	for i := range l {
		l[i] = i
	}
	return l
}

// Corpus: the witnesses of the known findings and clean runs; executed on every seed.
func Corpus() []*Hist {
	A := fa("a.bin", 0, 1, 2)
	return []*Hist{
		// known (F-gc-unpins): a chunk pinned through POST /chunks is evicted with the cached file that contains it
		{Kind: "corpus-gc-deletes-pinned-chunk", Base: baseKey, Cap: 4, Files: []FileSpec{A}, Ops: []Op{
			{K: "upchunk", F: 0, L: 1, Pin: true}, {K: "fetchpyr", F: 0}, {K: "fetch", F: 0, Leaves: all(3)}, {K: "gc"}}},
		// known: pin count 2 > Number 1: the run writes pin count 1 and keeps the chunk
		{Kind: "corpus-gc-decrements-pin", Base: baseKey, Cap: 4, Files: []FileSpec{A}, Ops: []Op{
			{K: "upchunk", F: 0, L: 1, Pin: true}, {K: "upchunk", F: 0, L: 1, Pin: true}, {K: "fetchpyr", F: 0}, {K: "fetch", F: 0, Leaves: all(3)}, {K: "gc"}}},
		// known: a file uploaded through POST /bytes (not registered with chunkinfo) loses the chunk it shares with an evicted file
		{Kind: "corpus-gc-deletes-uploaded-chunk", Base: baseKey, Cap: 4, Files: []FileSpec{A, fb("b", 1, 3)}, Ops: []Op{
			{K: "upload", F: 1}, {K: "fetchpyr", F: 0}, {K: "fetch", F: 0, Leaves: all(3)}, {K: "gc"}}},
		// known: the root of the evicted file is pinned twice: the run writes pin count 1 and deletes the root chunk
		{Kind: "corpus-gc-deletes-pinned-root", Base: baseKey, Cap: 4, Files: []FileSpec{A}, Ops: []Op{
			{K: "fetchpyr", F: 0}, {K: "fetch", F: 0, Leaves: all(3)}, {K: "upchunk", F: 0, L: -1, Pin: true}, {K: "upchunk", F: 0, L: -1, Pin: true}, {K: "gc"}}},
		// fixed (fix-delfile-unregistered-root + fix-delete-shared-root): DELETE of a reference chunkinfo never registered (POST /bytes of
		// the same content) removed the chunks of the registered file
		{Kind: "corpus-delete-unregistered", Base: baseKey, Cap: 100, Files: []FileSpec{fa("a.bin", 0, 1), fb("b", 0, 1)}, Ops: []Op{
			{K: "upload", F: 0}, {K: "upload", F: 1}, {K: "delete", F: 1}}},
		// fixed (fix-delete-shared-root): the deleted file's root chunk is an inner chunk of another registered file: it was removed unconditionally
		{Kind: "corpus-delete-shared-root", Base: baseKey, Cap: 100, Files: []FileSpec{fa("a.bin", 0, 1), fb("b", 0, 1)}, Ops: []Op{
			{K: "upload", F: 0}, {K: "upload", F: 1}, {K: "transfer", F: 1}, {K: "delete", F: 1}}},
		// known: same through eviction: the bare one-chunk file is cached (a bare multi-chunk reference cannot be
		// fetched: the pyramid exchange needs the whole content to rule out a manifest), then the manifest over it is uploaded
		{Kind: "corpus-gc-shared-root", Base: baseKey, Cap: 1, Files: []FileSpec{fa("a.bin", 0), fb("b", 0)}, Ops: []Op{
			{K: "fetchpyr", F: 1}, {K: "upload", F: 0}, {K: "gc"}}},
		// clean: two cached files sharing a chunk; the older one is evicted, the shared chunk stays; then the second
		{Kind: "corpus-gc-clean-shared", Base: baseKey, Cap: 8, Files: []FileSpec{fa("a.bin", 0, 1), fa("c.bin", 1, 3)}, Ops: []Op{
			{K: "fetchpyr", F: 0}, {K: "fetch", F: 0, Leaves: all(2)}, {K: "fetchpyr", F: 1}, {K: "fetch", F: 1, Leaves: all(2)}, {K: "gc"}, {K: "gc"}, {K: "read", F: 1}}},
		// clean: uploaded files sharing chunks (one with a repeated chunk), delete one, then the other
		{Kind: "corpus-delete-clean-shared", Base: baseKey, Cap: 100, Files: []FileSpec{fa("a.bin", 0, 0, 1), fa("c.bin", 1, 3)}, Ops: []Op{
			{K: "upload", F: 0, Pin: true}, {K: "upload", F: 1}, {K: "delete", F: 0}, {K: "delete", F: 1}}},
		// seeded change C12-1 (setPin's gc counter decrement must be a DIRECT write): every chunk of a cached file is pinned by ONE
		// Set(ModeSetPin, a1..an) under the file context; the file leaves the gc index; cache pressure; the run must not touch it
		{Kind: "corpus-pinset-whole-cached-file", Base: baseKey, Cap: 4, Files: []FileSpec{A, fa("c.bin", 3, 4)}, Ops: []Op{
			{K: "fetchpyr", F: 0}, {K: "fetch", F: 0, Leaves: all(3)}, {K: "pinset", F: 0},
			{K: "fetchpyr", F: 1}, {K: "fetch", F: 1, Leaves: all(2)}, {K: "gc"}, {K: "unpinset", F: 0}, {K: "gc"}}},
		// the same with ONE Put(ModePutRequestPin, chunks...) for the data chunks after the pyramid was pinned by one Set call
		{Kind: "corpus-putpin-cached-file", Base: baseKey, Cap: 4, Files: []FileSpec{A, fa("c.bin", 3, 4)}, Ops: []Op{
			{K: "fetchpyr", F: 0}, {K: "pinset", F: 0, Leaves: []int{3, 4, 5, 6}}, {K: "putpin", F: 0, Leaves: all(3)},
			{K: "fetchpyr", F: 1}, {K: "fetch", F: 1, Leaves: all(2)}, {K: "gc"}}},
		// known (F-gc-unpins): only a SUBSET of the cached file's chunks is pinned by one Set call: the file stays a candidate, the
		// pinned chunks go with it
		{Kind: "corpus-pinset-subset-cached-file", Base: baseKey, Cap: 4, Files: []FileSpec{A, fa("c.bin", 3, 4)}, Ops: []Op{
			{K: "fetchpyr", F: 0}, {K: "fetch", F: 0, Leaves: all(3)}, {K: "pinset", F: 0, Leaves: []int{0, 2}},
			{K: "fetchpyr", F: 1}, {K: "fetch", F: 1, Leaves: all(2)}, {K: "gc"}}},
		// seeded change C12-2 (the dirty test must sit INSIDE the DelFile closure): interleavings inside a run. The first candidate (A) is
		// touched right before its DelFile call: every chunk pinned through its context by one Set call / read through its context
		{Kind: "corpus-gc-pin-at-delfile-entry", Base: baseKey, Cap: 4, Files: []FileSpec{A, fa("c.bin", 3, 4)}, Ops: []Op{
			{K: "fetchpyr", F: 0}, {K: "fetch", F: 0, Leaves: all(3)}, {K: "fetchpyr", F: 1}, {K: "fetch", F: 1, Leaves: all(2)},
			{K: "gc", At: "entry", AtK: 0, Inner: []Op{{K: "pinset", F: -1}}}, {K: "gc"}}},
		{Kind: "corpus-gc-read-at-delfile-entry", Base: baseKey, Cap: 4, Files: []FileSpec{A, fa("c.bin", 3, 4)}, Ops: []Op{
			{K: "fetchpyr", F: 0}, {K: "fetch", F: 0, Leaves: all(3)}, {K: "upchunk", F: 0, L: 0, Pin: true}, {K: "fetchpyr", F: 1}, {K: "fetch", F: 1, Leaves: all(2)},
			{K: "gc", At: "entry", AtK: 0, Inner: []Op{{K: "read", F: -1}}}}},
		// the same pin right after candidate selection
		{Kind: "corpus-gc-pin-at-selection", Base: baseKey, Cap: 4, Files: []FileSpec{A, fa("c.bin", 3, 4)}, Ops: []Op{
			{K: "fetchpyr", F: 0}, {K: "fetch", F: 0, Leaves: all(3)}, {K: "fetchpyr", F: 1}, {K: "fetch", F: 1, Leaves: all(2)},
			{K: "gc", Inner: []Op{{K: "pinset", F: -1}}}}},
		// known: the pin arrives after the DelFile call of the file returned, before the run commits its batch: the chunks go, the pins stay
		{Kind: "corpus-gc-pin-after-delfile", Base: baseKey, Cap: 4, Files: []FileSpec{A, fa("c.bin", 3, 4)}, Ops: []Op{
			{K: "fetchpyr", F: 0}, {K: "fetch", F: 0, Leaves: all(3)}, {K: "fetchpyr", F: 1}, {K: "fetch", F: 1, Leaves: all(2)},
			{K: "gc", At: "after", AtK: 0, Inner: []Op{{K: "pinset", F: -1}}}}},
		// DELETE of a bare multi-chunk reference of which only the root chunk is stored: the manifest probe of the
		// traversal needs the whole content -> 500, nothing changes (minimised correspondence disagreement)
		{Kind: "corpus-delete-bare-root-only", Base: baseKey, Cap: 100, Files: []FileSpec{fb("b", 3, 1)}, Ops: []Op{
			{K: "upchunk", F: 0, L: -1, Pin: true}, {K: "delete", F: 0}}},
		// a candidate is accessed between selection and eviction (dirty): it survives this run
		{Kind: "corpus-gc-dirty", Base: baseKey, Cap: 6, Files: []FileSpec{fa("a.bin", 0, 1), fa("c.bin", 1, 3)}, Ops: []Op{
			{K: "fetchpyr", F: 0}, {K: "fetch", F: 0, Leaves: all(2)}, {K: "fetchpyr", F: 1}, {K: "fetch", F: 1, Leaves: all(2)},
			{K: "gc", Inner: []Op{{K: "read", F: 0}}}, {K: "gc"}}},
	}
}

// Generate: a random history: 2..4 files over a pool of 5 blocks (so that files
// share chunks, repeat chunks, are prefixes of each other), some as bare /bytes
// references of the same content, small capacity.
func Generate(r *hx.Rand) *Hist {
	h := &Hist{Kind: "gen", Base: baseKey, Cap: uint64(2 + r.Intn(9))}
	nf := 2 + r.Intn(3)
	for i := 0; i < nf; i++ {
		var fs FileSpec
		if i > 0 && r.Chance(1, 5) {
			// the bare reference of an earlier file's content
			fs = FileSpec{Name: fmt.Sprintf("raw%d", i), Kind: "bytes", Blocks: h.Files[r.Intn(i)].Blocks, Tail: 0}
		} else {
			n := 1 + r.Intn(3)
			fs = FileSpec{Name: fmt.Sprintf("f%d.bin", i), Kind: "aurora"}
			if r.Chance(1, 6) {
				fs.Kind = "bytes"
			}
			if i > 0 && r.Chance(1, 4) {
				// chunk-aligned prefix / extension of an earlier file
				p := h.Files[r.Intn(i)].Blocks
				if len(p) > 1 && r.Bool() {
					fs.Blocks = append([]int{}, p[:len(p)-1]...)
				} else {
					fs.Blocks = append(append([]int{}, p...), r.Intn(5))
				}
			} else {
				for j := 0; j < n; j++ {
					fs.Blocks = append(fs.Blocks, r.Intn(5))
				}
			}
			if r.Chance(1, 5) {
				fs.Tail = 1 + r.Intn(5000)
			}
		}
		h.Files = append(h.Files, fs)
	}
	nops := 5 + r.Intn(10)
	cached := map[int]bool{}
	present := map[int]bool{}
	for i := 0; i < nops; i++ {
		f := r.Intn(nf)
		switch x := r.Intn(100); {
		case x < 16:
			h.Ops = append(h.Ops, Op{K: "upload", F: f, Pin: r.Chance(1, 3)})
			present[f] = true
		case x < 24:
			h.Ops = append(h.Ops, Op{K: "upchunk", F: f, L: r.Intn(8), Pin: r.Chance(2, 3)})
		case x < 44:
			h.Ops = append(h.Ops, Op{K: "fetchpyr", F: f})
			var ls []int
			if r.Chance(3, 4) {
				ls = all(4)
			} else {
				ls = []int{r.Intn(4)}
			}
			h.Ops = append(h.Ops, Op{K: "fetch", F: f, Leaves: ls})
			cached[f], present[f] = true, true
		case x < 50:
			h.Ops = append(h.Ops, Op{K: "read", F: f})
		case x < 53:
			// one Set(ModeSetPin) / Put(ModePutRequestPin) call over all or some chunks of a (mostly cached) file
			for k := 0; k < 3 && !cached[f]; k++ {
				f = r.Intn(nf)
			}
			op := Op{K: "pinset", F: f}
			if r.Chance(1, 3) {
				op.Leaves = []int{r.Intn(8), r.Intn(8), r.Intn(8)}
			}
			if r.Chance(1, 6) {
				op.K = "putpin"
			}
			if r.Chance(1, 8) {
				op.NoCtx = true
			}
			h.Ops = append(h.Ops, op)
		case x < 55:
			op := Op{K: "unpinset", F: f, NoCtx: r.Chance(1, 4)}
			if r.Chance(1, 2) {
				op.Leaves = []int{r.Intn(8), r.Intn(8)}
			}
			h.Ops = append(h.Ops, op)
		case x < 58:
			h.Ops = append(h.Ops, Op{K: "pin", F: f})
		case x < 62:
			h.Ops = append(h.Ops, Op{K: "unpin", F: f})
		case x < 66:
			h.Ops = append(h.Ops, Op{K: "transfer", F: f})
		case x < 80:
			// delete something that is there, mostly
			for k := 0; k < 3 && !present[f]; k++ {
				f = r.Intn(nf)
			}
			h.Ops = append(h.Ops, Op{K: "delete", F: f})
			delete(present, f)
		default:
			op := Op{K: "gc"}
			if r.Chance(2, 5) {
				// an operation inside the run: after selection, right before or right after the DelFile call of a candidate
				in := Op{K: "read", F: -1}
				switch r.Intn(5) {
				case 0, 1:
					in = Op{K: "pinset", F: -1}
				case 2:
					in = Op{K: "fetch", F: -1, Leaves: all(4)}
				case 3:
					in = Op{K: "pinset", F: -1, NoCtx: true, Leaves: []int{r.Intn(4), r.Intn(4)}}
				}
				if r.Chance(1, 4) {
					in.F = r.Intn(nf)
				}
				op.Inner = []Op{in}
				op.At = []string{"", "entry", "entry", "after"}[r.Intn(4)]
				op.AtK = r.Intn(2)
			}
			if r.Chance(1, 8) {
				op.BatchSize = uint64(1 + r.Intn(4))
			}
			h.Ops = append(h.Ops, op)
		}
	}
	if len(cached) > 0 {
		h.Ops = append(h.Ops, Op{K: "gc"})
	}
	return h
}
