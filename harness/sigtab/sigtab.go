// Package sigtab is shared by the C05 and C34 harnesses: it calls the REAL
// primitives (legacy Keccak-256, SHA3-256, the BMT hasher of bmtpool, btcec
// SignCompact / RecoverCompact, go-multiaddr's byte parser) and records every
// (input, output) pair as a Coq `entry` term (coq/theories/C05/Tables.v), so
// that the Coq model can be evaluated with table-backed primitives and what is
// compared with the implementation is only the logic around them.
package sigtab

import (
	"crypto/ecdsa"
	"crypto/elliptic"
	"fmt"
	"strings"

	"github.com/btcsuite/btcd/btcec"
	"github.com/gauss-project/aurorafs/pkg/bmtpool"
	"github.com/gauss-project/aurorafs/pkg/crypto"
	ma "github.com/multiformats/go-multiaddr"
	"golang.org/x/crypto/sha3"

	"verifharness/hx"
)

type Tab struct {
	ents []string
	seen map[string]bool
}

// B renders a byte string as the Coq term `(pk n [i1; i2; ...]%uint63)`:
// seven bytes per primitive-integer literal, big-endian (Tables.v).
func B(b []byte) string {
	if len(b) == 0 {
		return "(pk 0 nil)"
	}
	var sb strings.Builder
	fmt.Fprintf(&sb, "(pk %d [", len(b))
	for i := 0; i < len(b); i += 7 {
		j := i + 7
		if j > len(b) {
			j = len(b)
		}
		var v uint64
		for _, x := range b[i:j] {
			v = v<<8 | uint64(x)
		}
		if i > 0 {
			sb.WriteByte(';')
		}
		fmt.Fprintf(&sb, "%d", v)
	}
	sb.WriteString("]%uint63)")
	return sb.String()
}

func New() *Tab { return &Tab{seen: map[string]bool{}} }

func (t *Tab) add(s string) {
	if !t.seen[s] {
		t.seen[s] = true
		t.ents = append(t.ents, s)
	}
}

// Coq renders the table as a `list entry`.
func (t *Tab) Coq() string {
	if len(t.ents) == 0 {
		return "(@nil entry)"
	}
	return "[" + strings.Join(t.ents, "; ") + "]"
}
func (t *Tab) Len() int { return len(t.ents) }

func Keccak(x []byte) []byte {
	h := sha3.NewLegacyKeccak256()
	h.Write(x)
	return h.Sum(nil)
}

func (t *Tab) K(x []byte) []byte {
	y := Keccak(x)
	t.add(hx.CoqApp("EK", B(x), B(y)))
	return y
}

func (t *Tab) S3(x []byte) []byte {
	y := sha3.Sum256(x)
	t.add(hx.CoqApp("ES3", B(x), B(y[:])))
	return y[:]
}

// Bmt is what cac's hasher does: SetHeader(span); Write(payload); Hash.
func (t *Tab) Bmt(span, payload []byte) []byte {
	h := bmtpool.Get()
	defer bmtpool.Put(h)
	h.SetHeader(span)
	if _, err := h.Write(payload); err != nil {
		panic(err)
	}
	y, err := h.Hash(nil)
	if err != nil {
		panic(err)
	}
	y = append([]byte{}, y...)
	t.add(hx.CoqApp("EBmt", B(span), B(payload), B(y)))
	return y
}

// KeyBytes is the model's name of a private key: its 32-byte encoding.
func KeyBytes(k *ecdsa.PrivateKey) []byte { return crypto.EncodeSecp256k1PrivateKey(k) }

// Pub64 is X||Y of a public key (elliptic.Marshal without the leading 4).
func Pub64(p *ecdsa.PublicKey) []byte {
	return elliptic.Marshal(btcec.S256(), p.X, p.Y)[1:]
}

func (t *Tab) Pub(k *ecdsa.PrivateKey) []byte {
	y := Pub64(&k.PublicKey)
	t.add(hx.CoqApp("EPub", B(KeyBytes(k)), B(y)))
	return y
}

// Sign is btcec.SignCompact(key, digest, false): v || r || s.
func (t *Tab) Sign(k *ecdsa.PrivateKey, digest []byte) []byte {
	y, err := btcec.SignCompact(btcec.S256(), (*btcec.PrivateKey)(k), digest, false)
	if err != nil {
		panic(err)
	}
	t.add(hx.CoqApp("ESign", B(KeyBytes(k)), B(digest), B(y)))
	return y
}

// Rec is btcec.RecoverCompact(v || r || s, digest); nil on failure. A panic of
// the library is recorded as a failure as well.
func (t *Tab) Rec(btcsig, digest []byte) []byte {
	var pk []byte
	hx.Guard(func() {
		p, _, err := btcec.RecoverCompact(btcec.S256(), btcsig, digest)
		if err == nil && p != nil {
			pk = Pub64((*ecdsa.PublicKey)(p))
		}
	})
	r := "None"
	if pk != nil {
		r = hx.CoqSome(B(pk))
	}
	t.add(hx.CoqApp("ERec", B(btcsig), B(digest), r))
	return pk
}

func (t *Tab) Ma(x []byte) bool {
	ok := false
	hx.Guard(func() {
		_, err := ma.NewMultiaddrBytes(x)
		ok = err == nil
	})
	t.add(hx.CoqApp("EMa", B(x), hx.CoqBool(ok)))
	return ok
}

// RecoverFlow records what crypto.Recover(sig, data) asks of the primitives and
// returns the recovered key X||Y (nil if the raw recovery fails or the
// signature has not 65 bytes). With decoys, the neighbouring wrong layouts are
// recorded too (truthfully), so that a model or implementation that hashed or
// ordered the bytes differently gets a different, real answer.
func (t *Tab) RecoverFlow(sig, data []byte, decoys bool) []byte {
	pre := crypto.VerifAddEthereumPrefix(data)
	h := t.K(pre)
	if decoys {
		t.K(data)
	}
	if len(sig) != 65 {
		return nil
	}
	btcsig := append([]byte{sig[64]}, sig[:64]...)
	pk := t.Rec(btcsig, h)
	if decoys {
		t.Rec(sig, h)
		t.Rec(btcsig, Keccak(data))
	}
	return pk
}

// SignFlow records what defaultSigner.Sign(data) asks and returns r || s || v.
func (t *Tab) SignFlow(k *ecdsa.PrivateKey, data []byte) []byte {
	h := t.K(crypto.VerifAddEthereumPrefix(data))
	y := t.Sign(k, h)
	return append(append([]byte{}, y[1:]...), y[0])
}
