package pinx

import (
	"context"
	"fmt"
	"reflect"

	"github.com/gauss-project/aurorafs/pkg/storage"
	"verifharness/hx"
)

// Oracle is the independent reading of the C15 statement, evaluated on what
// the implementation did (never on the model):
//
//   - the chunks of a reference, with multiplicity, come from the harness's own
//     walk over the recorded upload (Built.Chunks), not from pkg/traversal;
//   - "listed" = the last pin/unpin operation on the reference was a pin;
//   - expected pin counter of a chunk = what direct store calls left there
//   - the multiplicities of every listed reference: a pin of an unlisted
//     reference adds its multiplicities once, an unpin of a listed one takes
//     them away, a repeated pin / unpin changes nothing.
//
// Every clause is judged at the level of the call that was made: "svc"
// (pinning.Service methods) or "api" (the /pins handlers).
type Oracle struct {
	st       *Store
	run      *hx.Run
	h        *Hist
	data     map[int][]byte // every recorded chunk content by universe index
	listed   map[int]bool
	expect   map[int]uint64
	disturb  map[int]bool // chunk touched by a direct unpin/remove: references containing it are no longer judged
	Findings int
}

func NewOracle(st *Store, run *hx.Run) *Oracle {
	o := &Oracle{st: st, run: run, h: st.H, data: map[int][]byte{}, listed: map[int]bool{}, expect: map[int]uint64{}, disturb: map[int]bool{}}
	for _, f := range st.H.Files {
		for _, p := range Build(f).Puts {
			o.data[st.Idx[string(p.Addr)]] = p.Data
		}
	}
	return o
}

// mult: the chunks below a universe address, with multiplicity (own walk).
func (o *Oracle) mult(ref int) map[int]int {
	out := map[int]int{}
	var rec func(a int)
	rec = func(a int) {
		out[a]++
		d, ok := o.data[a]
		if !ok || len(d) < 8 {
			return
		}
		var span uint64
		for i := 7; i >= 0; i-- {
			span = span<<8 | uint64(d[i])
		}
		pl := d[8:]
		if span <= uint64(len(pl)) {
			return
		}
		for i := 0; i+32 <= len(pl); i += 32 {
			if j, ok := o.st.Idx[string(pl[i:i+32])]; ok {
				rec(j)
			} else {
				out[-1]++ // a reference to a chunk the universe does not know: never stored
			}
		}
	}
	rec(ref)
	return out
}

// stored: every chunk below the reference is in the store (public API).
func (o *Oracle) stored(m map[int]int) bool {
	for c := range m {
		if c < 0 {
			return false
		}
		has, err := o.st.DB.Has(context.Background(), storage.ModeHasChunk, o.st.addr(c))
		if err != nil || !has {
			return false
		}
	}
	return true
}

func (o *Oracle) viol(sig, detail string, impl, want interface{}) {
	o.Findings++
	o.run.Violate(hx.Violation{Sig: sig, Detail: detail, Case: o.h, Impl: impl, Want: want})
}

func (o *Oracle) resync(actual map[int]uint64) {
	o.expect = map[int]uint64{}
	for k, v := range actual {
		o.expect[k] = v
	}
}
func (o *Oracle) resyncRoots(roots []int) {
	o.listed = map[int]bool{}
	for _, r := range roots {
		o.listed[r] = true
	}
}

func (o *Oracle) disturbed(m map[int]int) bool {
	for c := range m {
		if o.disturb[c] {
			return true
		}
	}
	return false
}

func (o *Oracle) countersMatch(actual map[int]uint64) (int, bool) {
	for i := range o.st.Univ {
		if actual[i] != o.expect[i] {
			return i, false
		}
	}
	return 0, true
}

func (o *Oracle) listedSet() []int {
	var l []int
	for r, b := range o.listed {
		if b {
			l = append(l, r)
		}
	}
	return sortedInts(l)
}

// Step judges one executed step.
func (o *Oracle) Step(info StepInfo) {
	st := o.st
	actual := st.PinCounts(info.Dump)
	roots := sortedInts(info.Roots)
	lvl := "svc"
	switch info.Kind {
	case "apipin", "apiunpin", "apiget", "apilist", "apibad":
		lvl = "api"
	}
	checkRoots := func(clause string) {
		o.run.OracleChecked(1)
		want := o.listedSet()
		if len(want) == 0 && len(roots) == 0 {
			return
		}
		if !reflect.DeepEqual(want, roots) {
			o.viol("listed-iff:"+lvl+":"+clause, fmt.Sprintf("after %s of reference %d the listed references are %v; those whose last pin/unpin was a pin are %v", info.Kind, info.Ref, roots, want), roots, want)
			o.resyncRoots(roots)
		}
	}
	switch info.Kind {
	case "put", "set":
		// direct store calls move the base line
		if info.Kind == "set" && (info.Op.K == "cunpin" || info.Op.K == "rm") {
			o.disturb[info.Ref] = true
		}
		o.resync(actual)
		return
	case "pin", "apipin":
		m := o.mult(info.Ref)
		if !o.stored(m) || o.disturbed(m) {
			o.run.Hist("oracle.pin-not-judged(not stored or disturbed)")
			o.resync(actual)
			o.resyncRoots(roots)
			return
		}
		ok := info.Err == 0
		if lvl == "api" {
			ok = info.Code == 200 || info.Code == 201
		}
		o.run.OracleChecked(1)
		if !ok {
			o.viol("marks-all:"+lvl+":pin-of-stored-reference-failed", fmt.Sprintf("pin of stored reference %d failed (err class %d, status %d)", info.Ref, info.Err, info.Code), info.Err, 0)
			o.resync(actual)
			o.resyncRoots(roots)
			return
		}
		was := o.listed[info.Ref]
		hollow := false // listed by a root record without traversal while its chunks are not pinned: outside the statement
		if was {
			for c, n := range m {
				if o.expect[c] < uint64(n) {
					hollow = true
				}
			}
		}
		if !was && !info.Op.NoTrav {
			for c, n := range m {
				o.expect[c] += uint64(n)
			}
		}
		o.listed[info.Ref] = true
		o.run.OracleChecked(1)
		if c, same := o.countersMatch(actual); !same {
			if was {
				o.viol("pin-idempotent:"+lvl+":counters-changed", fmt.Sprintf("repeated pin of reference %d changed the pin counter of chunk %d to %d (expected %d)", info.Ref, c, actual[c], o.expect[c]), actual[c], o.expect[c])
			} else {
				o.viol("marks-all:"+lvl+":counter-not-raised-by-multiplicity", fmt.Sprintf("pin of reference %d left the pin counter of chunk %d at %d (expected %d)", info.Ref, c, actual[c], o.expect[c]), actual[c], o.expect[c])
			}
			o.resync(actual)
		}
		if hollow {
			o.run.Hist("oracle.pin-of-hollow-root(not judged for chunk marks)")
		}
		if !info.Op.NoTrav && !hollow {
			for c := range m {
				o.run.OracleChecked(1)
				has, err := st.DB.Has(context.Background(), storage.ModeHasPin, st.addr(c))
				if err != nil || !has {
					o.viol("marks-all:"+lvl+":chunk-not-pinned", fmt.Sprintf("after pin of reference %d its chunk %d is not pinned", info.Ref, c), has, true)
				}
			}
		}
		o.run.OracleChecked(1)
		if has, err := st.Svc.HasPin(st.addr(info.Ref)); err != nil || !has {
			o.viol("listed-iff:"+lvl+":not-listed-after-pin", fmt.Sprintf("HasPin(%d) = %v after a successful pin", info.Ref, has), has, true)
		}
		checkRoots("list-changed-by-pin")
	case "unpin", "apiunpin":
		m := o.mult(info.Ref)
		was := o.listed[info.Ref]
		under := false
		for c, n := range m {
			if c >= 0 && was && o.expect[c] < uint64(n) {
				under = true // listed without its chunks being pinned (root recorded without traversal): outside the statement
			}
		}
		if !o.stored(m) || o.disturbed(m) || under {
			o.run.Hist("oracle.unpin-not-judged(not stored, disturbed or never pinned)")
			o.resync(actual)
			o.resyncRoots(roots)
			return
		}
		o.run.OracleChecked(1)
		if was {
			ok := info.Err == 0
			if lvl == "api" {
				ok = info.Code == 200
			}
			if !ok {
				o.viol("unpin-restores:"+lvl+":unpin-of-pinned-reference-failed", fmt.Sprintf("unpin of pinned reference %d failed (err class %d, status %d)", info.Ref, info.Err, info.Code), info.Err, 0)
				o.resync(actual)
				o.resyncRoots(roots)
				return
			}
			for c, n := range m {
				o.expect[c] -= uint64(n)
			}
			o.listed[info.Ref] = false
			if c, same := o.countersMatch(actual); !same {
				o.viol("unpin-restores:"+lvl+":count-not-restored", fmt.Sprintf("unpin of reference %d left the pin counter of chunk %d at %d (expected %d)", info.Ref, c, actual[c], o.expect[c]), actual[c], o.expect[c])
				o.resync(actual)
			}
		} else {
			// repeated unpin (or unpin of a reference that was never pinned): no pin state may change
			if c, same := o.countersMatch(actual); !same {
				o.viol("unpin-idempotent:"+lvl+":counters-changed", fmt.Sprintf("unpin of reference %d, which is not pinned, changed the pin counter of chunk %d to %d (expected %d)", info.Ref, c, actual[c], o.expect[c]), actual[c], o.expect[c])
				o.resync(actual)
			}
		}
		o.run.OracleChecked(1)
		if has, err := st.Svc.HasPin(st.addr(info.Ref)); err != nil || has {
			o.viol("listed-iff:"+lvl+":listed-after-unpin", fmt.Sprintf("HasPin(%d) = %v after unpin", info.Ref, has), has, false)
		}
		checkRoots("list-changed-by-unpin")
	case "has":
		o.run.OracleChecked(1)
		if info.Bool != o.listed[info.Ref] {
			o.viol("listed-iff:svc:has-disagrees", fmt.Sprintf("HasPin(%d) = %v, last pin/unpin was a pin: %v", info.Ref, info.Bool, o.listed[info.Ref]), info.Bool, o.listed[info.Ref])
		}
	case "apiget":
		o.run.OracleChecked(1)
		want := 404
		if o.listed[info.Ref] {
			want = 200
		}
		if info.Code != want {
			o.viol("listed-iff:api:has-disagrees", fmt.Sprintf("GET /pins/%d answered %d, want %d", info.Ref, info.Code, want), info.Code, want)
		}
	case "list", "apilist":
		o.run.OracleChecked(1)
		got, want := sortedInts(info.List), o.listedSet()
		if !(len(got) == 0 && len(want) == 0) && !reflect.DeepEqual(got, want) {
			o.viol("listed-iff:"+lvl+":list-disagrees", fmt.Sprintf("listed %v, references whose last pin/unpin was a pin: %v", got, want), got, want)
		}
	case "apibad":
		o.run.OracleChecked(1)
		if info.Code != 400 {
			o.viol("api:bad-reference-not-rejected", fmt.Sprintf("status %d for a non-hex reference", info.Code), info.Code, 400)
		}
	}
	// reads and rejected requests change nothing
	switch info.Kind {
	case "has", "list", "apiget", "apilist", "apibad":
		o.run.OracleChecked(1)
		if c, same := o.countersMatch(actual); !same {
			o.viol("read-only:"+lvl+":counters-changed", fmt.Sprintf("%s changed the pin counter of chunk %d", info.Kind, c), actual[c], o.expect[c])
			o.resync(actual)
		}
	}
}
