// Package pinx is the harness library of C15 (pin and unpin are idempotent
// inverses). It
//
//   - builds files by running the REAL upload pipeline
//     (pkg/file/pipeline/builder) once per distinct content against a
//     recording putter (BMT hashing of a 256 KiB chunk is expensive) and
//     replays the recorded Put calls, in the pipeline's order, on the store of
//     every history;
//   - opens, per history, a real localstore.DB (leveldb in memory, pinned
//     clock, background collection worker stopped), the in-memory leveldb
//     state store, the real traversal.New over that store, the real
//     pinning.NewService and the real api.New whose /pins handlers are driven
//     through ServeHTTP;
//   - executes replayable operations (upload / cache / chunk-level pin, unpin,
//     remove / service-level and handler-level pin, unpin, has, list) and
//     renders operation, result and the canonical dump of all localstore
//     indexes plus all state-store keys as a term of Aurora.C15.Corr;
//   - evaluates the property's own oracle (oracle.go) on what the
//     implementation did.
//
// The only nondeterminism of a pin call is the updateGC goroutine that a
// ModeGetRequest read starts: the traverser gets the store through a wrapper
// that waits for it after every Get (one admissible schedule).
package pinx

import (
	"bytes"
	"context"
	"encoding/hex"
	"encoding/json"
	"errors"
	"fmt"
	"io"
	"net/http"
	"net/http/httptest"
	"sort"
	"strings"
	"sync"

	"github.com/gauss-project/aurorafs/pkg/api"
	"github.com/gauss-project/aurorafs/pkg/boson"
	"github.com/gauss-project/aurorafs/pkg/file/pipeline/builder"
	"github.com/gauss-project/aurorafs/pkg/localstore"
	"github.com/gauss-project/aurorafs/pkg/logging"
	"github.com/gauss-project/aurorafs/pkg/pinning"
	"github.com/gauss-project/aurorafs/pkg/sctx"
	"github.com/gauss-project/aurorafs/pkg/shed/driver"
	sl "github.com/gauss-project/aurorafs/pkg/statestore/leveldb"
	"github.com/gauss-project/aurorafs/pkg/storage"
	"github.com/gauss-project/aurorafs/pkg/traversal"
	"verifharness/hx"
	"verifharness/lsx"
)

// ---------------------------------------------------------------- files

// Seg is a run of N equal bytes.
type Seg struct {
	B byte `json:"b"`
	N int  `json:"n"`
}

// FileSpec describes a file content: the concatenation of the segments, or raw bytes.
type FileSpec struct {
	Segs []Seg  `json:"segs,omitempty"`
	Raw  string `json:"raw,omitempty"` // hex
}

func (f FileSpec) Key() string { b, _ := json.Marshal(f); return string(b) }
func (f FileSpec) Content() []byte {
	if f.Raw != "" || len(f.Segs) == 0 {
		b, _ := hex.DecodeString(f.Raw)
		return b
	}
	var out []byte
	for _, s := range f.Segs {
		out = append(out, bytes.Repeat([]byte{s.B}, s.N)...)
	}
	return out
}

// PutRec is one Put call of the pipeline.
type PutRec struct {
	Addr []byte
	Data []byte
}

// Built is what the pipeline did for one content.
type Built struct {
	Ref  []byte
	Puts []PutRec
}

type recorder struct {
	mu   sync.Mutex
	puts []PutRec
}

func (r *recorder) Put(_ context.Context, _ storage.ModePut, chs ...boson.Chunk) ([]bool, error) {
	r.mu.Lock()
	defer r.mu.Unlock()
	for _, c := range chs {
		r.puts = append(r.puts, PutRec{Addr: append([]byte{}, c.Address().Bytes()...), Data: append([]byte{}, c.Data()...)})
	}
	return make([]bool, len(chs)), nil
}

var (
	libMu sync.Mutex
	lib   = map[string]*Built{}
)

// Build runs the real pipeline on the content (memoised per process).
func Build(f FileSpec) *Built {
	k := f.Key()
	libMu.Lock()
	b, ok := lib[k]
	libMu.Unlock()
	if ok {
		return b
	}
	rec := &recorder{}
	ctx := context.Background()
	pipe := builder.NewPipelineBuilder(ctx, rec, storage.ModePutUpload, false)
	ref, err := builder.FeedPipeline(ctx, pipe, bytes.NewReader(f.Content()))
	if err != nil {
		panic(err)
	}
	b = &Built{Ref: ref.Bytes(), Puts: rec.puts}
	libMu.Lock()
	lib[k] = b
	libMu.Unlock()
	return b
}

// BuildAll builds the given contents concurrently.
func BuildAll(fs []FileSpec) {
	var wg sync.WaitGroup
	sem := make(chan struct{}, 12)
	seen := map[string]bool{}
	for _, f := range fs {
		if seen[f.Key()] {
			continue
		}
		seen[f.Key()] = true
		wg.Add(1)
		go func(f FileSpec) {
			defer wg.Done()
			sem <- struct{}{}
			Build(f)
			<-sem
		}(f)
	}
	wg.Wait()
}

// Chunks is the harness's own reading of the recorded chunk tree (independent
// of pkg/traversal and pkg/file/joiner): every address the file consists of,
// with multiplicity — the root, and for an intermediate chunk (span larger
// than its payload) every 32-byte reference, recursively.
func (b *Built) Chunks() map[string]int {
	data := map[string][]byte{}
	for _, p := range b.Puts {
		data[string(p.Addr)] = p.Data
	}
	out := map[string]int{}
	var rec func(a []byte)
	rec = func(a []byte) {
		out[string(a)]++
		d, ok := data[string(a)]
		if !ok || len(d) < 8 {
			return
		}
		var span uint64
		for i := 7; i >= 0; i-- {
			span = span<<8 | uint64(d[i])
		}
		pl := d[8:]
		if span <= uint64(len(pl)) {
			return
		}
		for i := 0; i+32 <= len(pl); i += 32 {
			rec(pl[i : i+32])
		}
	}
	rec(b.Ref)
	return out
}

// ---------------------------------------------------------------- histories

// Op is one replayable operation. A = index into the history's address universe.
//
//	upload   F, Mode (1 upload, 2 upload-pin, 0 request under the file's root context: root chunk first)
//	cpin cunpin rm   A   (Set ModeSetPin / ModeSetUnpin / ModeSetRemove on one chunk, no context)
//	pin unpin has list   service level (A; pin: NoTrav = CreatePin(ref,false))
//	apipin apiunpin apiget apilist apibad   handler level (apibad: Mode 0 POST, 1 DELETE, 2 GET on a non-hex reference)
type Op struct {
	K      string `json:"k"`
	F      int    `json:"f,omitempty"`
	Mode   int    `json:"mode,omitempty"`
	A      int    `json:"a,omitempty"`
	NoTrav bool   `json:"notrav,omitempty"`
}

// Hist is a replayable history. The universe is: for every file in order the
// addresses of its recorded puts (first appearance), then Extra.
type Hist struct {
	Kind  string     `json:"kind"`
	Base  string     `json:"base"`
	Cap   uint64     `json:"cap"`
	Files []FileSpec `json:"files"`
	Extra []string   `json:"extra,omitempty"`
	Ops   []Op       `json:"ops"`
}

func (h *Hist) Key() string { b, _ := json.Marshal(h); return string(b) }

// Universe computes the address universe and the index of every file's reference.
func (h *Hist) Universe() (univ [][]byte, idx map[string]int, refs []int) {
	idx = map[string]int{}
	add := func(a []byte) int {
		if i, ok := idx[string(a)]; ok {
			return i
		}
		idx[string(a)] = len(univ)
		univ = append(univ, append([]byte{}, a...))
		return len(univ) - 1
	}
	for _, f := range h.Files {
		b := Build(f)
		for _, p := range b.Puts {
			add(p.Addr)
		}
		refs = append(refs, add(b.Ref))
	}
	for _, e := range h.Extra {
		x, _ := hex.DecodeString(e)
		add(x)
	}
	return
}

// ---------------------------------------------------------------- store under test

type syncStore struct{ db *localstore.DB }

func (s syncStore) Get(ctx context.Context, mode storage.ModeGet, addr boson.Address) (boson.Chunk, error) {
	ch, err := s.db.Get(ctx, mode, addr)
	s.db.VerifWaitUpdateGC()
	return ch, err
}
func (s syncStore) Put(ctx context.Context, mode storage.ModePut, chs ...boson.Chunk) ([]bool, error) {
	return s.db.Put(ctx, mode, chs...)
}

// StepInfo is what the oracle looks at.
type StepInfo struct {
	Op    Op
	Kind  string // put set pin unpin has list apipin apiunpin apiget apilist apibad
	Ref   int
	Err   uint64 // service error class
	Code  int    // HTTP status
	Bool  bool
	List  []int
	Dump  localstore.VerifDump
	Roots []int // listed references (state-store keys), universe indexes
}

// Store is one system under test plus the recorder.
type Store struct {
	H     *Hist
	DB    *localstore.DB
	Svc   *pinning.Service
	API   api.Service
	ss    storage.StateStorer
	Univ  [][]byte
	Idx   map[string]int
	Refs  []int
	Steps []string
	Trace []StepInfo

	dtab    []string
	dtabIdx map[string]int
	prev    dumpParts
	have    bool
	now     int64
}

var nowVal int64

// Open creates the system for a history.
func Open(h *Hist) *Store {
	lsx.Register()
	st := &Store{H: h, dtabIdx: map[string]int{}}
	st.Univ, st.Idx, st.Refs = h.Universe()
	base, _ := hex.DecodeString(h.Base)
	lg := logging.New(io.Discard, 0)
	db, err := localstore.New("", base, &localstore.Options{Capacity: h.Cap, Driver: `leveldb:{"WriteBuffer":1048576,"BlockCacheCapacity":262144}`}, lg)
	if err != nil {
		panic(err)
	}
	db.VerifStopGCWorker()
	localstore.VerifSetNow(func() int64 { return nowVal })
	ss, err := sl.NewInMemoryStateStore(lg)
	if err != nil {
		panic(err)
	}
	st.DB, st.ss = db, ss
	tr := traversal.New(syncStore{db})
	st.Svc = pinning.NewService(db, ss, tr)
	st.API = api.New(db, nil, boson.NewAddress(base), nil, tr, st.Svc, nil, lg, nil, nil, nil, nil, nil, nil, api.Options{})
	st.now = 1000
	return st
}

func (st *Store) Close() {
	_ = st.API.Close()
	_ = st.DB.Close()
	_ = st.ss.Close()
}

func (st *Store) addr(i int) boson.Address {
	if i < 0 || i >= len(st.Univ) {
		return boson.NewAddress([]byte{0xEE, 0xEE, 0xEE})
	}
	return boson.NewAddress(st.Univ[i])
}

func (st *Store) ai(b []byte) int {
	if i, ok := st.Idx[string(b)]; ok {
		return i
	}
	return 99999
}

// error class of a store call (as lsx) and of a service call
func storeErr(err error) uint64 {
	switch {
	case err == nil:
		return 0
	case errors.Is(err, driver.ErrNotFound):
		return 1
	case errors.Is(err, storage.ErrNotFound):
		return 2
	case errors.Is(err, localstore.ErrInvalidMode):
		return 3
	}
	return 9
}
func svcErr(err error) uint64 {
	switch {
	case err == nil:
		return 0
	case errors.Is(err, pinning.ErrTraversal):
		return 3
	case errors.Is(err, storage.ErrNotFound):
		return 2
	case errors.Is(err, driver.ErrNotFound):
		return 1
	}
	return 9
}

// ---------------------------------------------------------------- Coq rendering

func nlOf(xs []uint64) string {
	if len(xs) == 0 {
		return "E"
	}
	var sb strings.Builder
	for _, x := range xs {
		fmt.Fprintf(&sb, "(C %d ", x)
	}
	sb.WriteString("E")
	sb.WriteString(strings.Repeat(")", len(xs)))
	return sb.String()
}
func nlInts(l []int) string {
	xs := make([]uint64, len(l))
	for i, x := range l {
		xs[i] = uint64(x)
	}
	return nlOf(xs)
}
func nlBytes(b []byte) string {
	xs := make([]uint64, len(b))
	for i, x := range b {
		xs[i] = uint64(x)
	}
	return nlOf(xs)
}
func rowsOf(rows []string) string {
	if len(rows) == 0 {
		return "RE"
	}
	var sb strings.Builder
	for _, r := range rows {
		sb.WriteString("(")
		sb.WriteString(r)
		sb.WriteString(" ")
	}
	sb.WriteString("RE")
	sb.WriteString(strings.Repeat(")", len(rows)))
	return sb.String()
}
func coqRoot(r int) string {
	if r < 0 {
		return "NoRoot"
	}
	return fmt.Sprintf("(Root %d)", r)
}

// dataIdx interns a chunk content in the case's data table.
func (st *Store) dataIdx(d []byte) int {
	if i, ok := st.dtabIdx[string(d)]; ok {
		return i
	}
	var term string
	span := uint64(0)
	if len(d) >= 8 {
		for i := 7; i >= 0; i-- {
			span = span<<8 | uint64(d[i])
		}
	}
	switch {
	case len(d) >= 8+64 && allEqual(d[8:]):
		term = fmt.Sprintf("DFill %d %d %d", span, len(d)-8, d[8])
	case len(d) > 8 && (len(d)-8)%32 == 0 && st.allRefs(d[8:]) && span > uint64(len(d)-8):
		var refs []int
		for i := 8; i < len(d); i += 32 {
			refs = append(refs, st.Idx[string(d[i:i+32])])
		}
		term = fmt.Sprintf("DRefs %d %s", span, nlInts(refs))
	default:
		term = "DRaw \"" + hex.EncodeToString(d) + "\""
	}
	st.dtabIdx[string(d)] = len(st.dtab)
	st.dtab = append(st.dtab, term)
	return len(st.dtab) - 1
}
func allEqual(b []byte) bool {
	for _, x := range b {
		if x != b[0] {
			return false
		}
	}
	return true
}
func (st *Store) allRefs(b []byte) bool {
	for i := 0; i+32 <= len(b); i += 32 {
		if _, ok := st.Idx[string(b[i:i+32])]; !ok {
			return false
		}
	}
	return true
}

type dumpParts struct{ data, access, gc, pin, bins, roots string }

// roots reads every key of the state store.
func (st *Store) roots() (keys, vals []int) {
	err := st.ss.Iterate("", func(k, v []byte) (bool, error) {
		ks := string(k)
		if ks == "statestore_schema" {
			return false, nil // written once by the state store itself
		}
		if !strings.HasPrefix(ks, "root-pin-") {
			panic("unexpected state-store key " + ks)
		}
		kb, err := hex.DecodeString(strings.TrimPrefix(ks, "root-pin-"))
		if err != nil {
			panic("state-store key is not hex: " + ks)
		}
		var a boson.Address
		if err := json.Unmarshal(v, &a); err != nil {
			panic("state-store value: " + err.Error())
		}
		keys = append(keys, st.ai(kb))
		vals = append(vals, st.ai(a.Bytes()))
		return false, nil
	})
	if err != nil {
		panic(err)
	}
	return
}

func (st *Store) record(cop, cobs string, info StepInfo, full bool) {
	d, err := st.DB.VerifDump()
	if err != nil {
		panic(err)
	}
	running, dirty := st.DB.VerifGCState()
	if running || len(dirty) != 0 {
		panic("a collection is running in a C15 history")
	}
	keys, vals := st.roots()
	info.Dump = d
	info.Roots = keys
	var p dumpParts
	var rs []string
	for _, e := range d.Data {
		rs = append(rs, fmt.Sprintf("R4 %d %d %d %d", st.ai(e.Address), e.BinID, uint64(e.StoreTimestamp), st.dataIdx(e.Data)))
	}
	p.data = rowsOf(rs)
	rs = nil
	for _, e := range d.Access {
		rs = append(rs, fmt.Sprintf("R2 %d %d", st.ai(e.Address), uint64(e.AccessTimestamp)))
	}
	p.access = rowsOf(rs)
	rs = nil
	for _, e := range d.GC {
		rs = append(rs, fmt.Sprintf("R4 %d %d %d %d", uint64(e.AccessTimestamp), e.BinID, st.ai(e.Address), e.GCounter))
	}
	p.gc = rowsOf(rs)
	rs = nil
	for _, e := range d.Pin {
		rs = append(rs, fmt.Sprintf("R2 %d %d", st.ai(e.Address), e.PinCounter))
	}
	p.pin = rowsOf(rs)
	rs = nil
	for _, e := range d.BinIDs {
		rs = append(rs, fmt.Sprintf("R2 %d %d", e.PO, e.ID))
	}
	p.bins = rowsOf(rs)
	rs = nil
	for i := range keys {
		rs = append(rs, fmt.Sprintf("R2 %d %d", keys[i], vals[i]))
	}
	p.roots = rowsOf(rs)
	f := func(cur, prev string) string {
		if st.have && cur == prev {
			return "Same"
		}
		return "(Now " + cur + ")"
	}
	dump := fmt.Sprintf("(XD %s %s %s %s %s %d %s %s)", f(p.data, st.prev.data), f(p.access, st.prev.access), f(p.gc, st.prev.gc),
		f(p.pin, st.prev.pin), f(p.bins, st.prev.bins), d.GCSize, f(p.roots, st.prev.roots), hx.CoqBool(full))
	st.prev, st.have = p, true
	st.Steps = append(st.Steps, "("+cop+") ("+cobs+") "+dump)
	st.Trace = append(st.Trace, info)
}

// ---------------------------------------------------------------- execution

func (st *Store) tick() int64 { st.now++; nowVal = st.now; return st.now }

func (st *Store) put(mode int, root int, a []byte, data []byte, op Op, full bool) {
	t := st.tick()
	ctx := context.Background()
	if root >= 0 {
		ctx = sctx.SetRootHash(ctx, st.addr(root))
	}
	exist, err := st.DB.Put(ctx, storage.ModePut(mode), boson.NewChunk(boson.NewAddress(a), data))
	trig := st.DB.VerifGCTriggered()
	ec := storeErr(err)
	ex := []uint64{}
	if err == nil {
		for _, e := range exist {
			if e {
				ex = append(ex, 1)
			} else {
				ex = append(ex, 0)
			}
		}
	}
	st.record(fmt.Sprintf("XPut %d %d %s %d %d", t, mode, coqRoot(root), st.ai(a), st.dataIdx(data)),
		fmt.Sprintf("YPut %d %s %s", ec, nlOf(ex), hx.CoqBool(trig)), StepInfo{Op: op, Kind: "put", Err: ec}, full)
}

func (st *Store) apiDo(method, path string) (int, []byte) {
	req := httptest.NewRequest(method, path, nil)
	w := httptest.NewRecorder()
	st.API.ServeHTTP(w, req)
	st.DB.VerifWaitUpdateGC()
	return w.Code, w.Body.Bytes()
}

// Exec runs one operation; last marks the final operation of the history.
func (st *Store) Exec(op Op, last bool) {
	ctx := context.Background()
	switch op.K {
	case "upload":
		b := Build(st.H.Files[op.F])
		puts := b.Puts
		root := -1
		if op.Mode == int(storage.ModePutRequest) {
			// a retrieval caches the root chunk first, every chunk under the file's context
			root = st.Idx[string(b.Ref)]
			var o []PutRec
			for _, p := range puts {
				if bytes.Equal(p.Addr, b.Ref) {
					o = append([]PutRec{p}, o...)
				} else {
					o = append(o, p)
				}
			}
			puts = o
		}
		for i, p := range puts {
			st.put(op.Mode, root, p.Addr, p.Data, op, last && i == len(puts)-1)
		}
	case "cpin", "cunpin", "rm":
		mode := map[string]storage.ModeSet{"cpin": storage.ModeSetPin, "cunpin": storage.ModeSetUnpin, "rm": storage.ModeSetRemove}[op.K]
		t := st.tick()
		err := st.DB.Set(ctx, mode, st.addr(op.A))
		trig := st.DB.VerifGCTriggered()
		ec := storeErr(err)
		st.record(fmt.Sprintf("XSet %d %d NoRoot %d", t, int(mode), op.A), fmt.Sprintf("YSet %d %s", ec, hx.CoqBool(trig)),
			StepInfo{Op: op, Kind: "set", Ref: op.A, Err: ec}, last)
	case "pin":
		t := st.tick()
		err := st.Svc.CreatePin(ctx, st.addr(op.A), !op.NoTrav)
		st.DB.VerifWaitUpdateGC()
		_ = st.DB.VerifGCTriggered()
		ec := svcErr(err)
		st.record(fmt.Sprintf("XCreate %d %d %s", t, op.A, hx.CoqBool(!op.NoTrav)), fmt.Sprintf("YRes %d", ec),
			StepInfo{Op: op, Kind: "pin", Ref: op.A, Err: ec}, last)
	case "unpin":
		t := st.tick()
		err := st.Svc.DeletePin(ctx, st.addr(op.A))
		st.DB.VerifWaitUpdateGC()
		_ = st.DB.VerifGCTriggered()
		ec := svcErr(err)
		st.record(fmt.Sprintf("XDelete %d %d", t, op.A), fmt.Sprintf("YRes %d", ec),
			StepInfo{Op: op, Kind: "unpin", Ref: op.A, Err: ec}, last)
	case "has":
		b, err := st.Svc.HasPin(st.addr(op.A))
		if err != nil {
			panic(err)
		}
		st.record(fmt.Sprintf("XHas %d", op.A), "YHas "+hx.CoqBool(b), StepInfo{Op: op, Kind: "has", Ref: op.A, Bool: b}, last)
	case "list":
		l, err := st.Svc.Pins()
		if err != nil {
			panic(err)
		}
		var is []int
		for _, a := range l {
			is = append(is, st.ai(a.Bytes()))
		}
		st.record("XPins", "YPins "+nlInts(is), StepInfo{Op: op, Kind: "list", List: is}, last)
	case "apipin", "apiunpin", "apiget":
		method := map[string]string{"apipin": http.MethodPost, "apiunpin": http.MethodDelete, "apiget": http.MethodGet}[op.K]
		t := int64(0)
		if op.K != "apiget" {
			t = st.tick()
		}
		code, _ := st.apiDo(method, "/pins/"+hex.EncodeToString(st.addr(op.A).Bytes()))
		_ = st.DB.VerifGCTriggered()
		var cop string
		switch op.K {
		case "apipin":
			cop = fmt.Sprintf("XApiPin %d %d", t, op.A)
		case "apiunpin":
			cop = fmt.Sprintf("XApiUnpin %d %d", t, op.A)
		default:
			cop = fmt.Sprintf("XApiGet %d", op.A)
		}
		st.record(cop, fmt.Sprintf("YApi %d", code), StepInfo{Op: op, Kind: op.K, Ref: op.A, Code: code}, last)
	case "apilist":
		code, body := st.apiDo(http.MethodGet, "/pins")
		var out struct {
			References []boson.Address `json:"references"`
		}
		if code != 200 || json.Unmarshal(body, &out) != nil {
			st.record("XApiList", fmt.Sprintf("YApi %d", code), StepInfo{Op: op, Kind: "apilist", Code: code}, last)
			return
		}
		var is []int
		for _, a := range out.References {
			is = append(is, st.ai(a.Bytes()))
		}
		st.record("XApiList", "YApiList "+nlInts(is), StepInfo{Op: op, Kind: "apilist", Code: code, List: is}, last)
	case "apibad":
		method := []string{http.MethodPost, http.MethodDelete, http.MethodGet}[op.Mode%3]
		code, _ := st.apiDo(method, "/pins/zz"+strings.Repeat("q", op.Mode/3))
		st.record(fmt.Sprintf("XApiBad %d", op.Mode), fmt.Sprintf("YApi %d", code), StepInfo{Op: op, Kind: "apibad", Code: code}, last)
	default:
		panic("unknown op " + op.K)
	}
}

// CoqCase renders the recorded history as a term of Aurora.C15.Corr.case.
func (st *Store) CoqCase() string {
	var sb strings.Builder
	base, _ := hex.DecodeString(st.H.Base)
	sb.WriteString("(CPin \"")
	sb.WriteString(hex.EncodeToString(base))
	fmt.Fprintf(&sb, "\" %d ", st.H.Cap)
	for _, u := range st.Univ {
		sb.WriteString("(UH \"")
		sb.WriteString(hex.EncodeToString(u))
		sb.WriteString("\" ")
	}
	sb.WriteString("UX")
	sb.WriteString(strings.Repeat(")", len(st.Univ)))
	sb.WriteString("\n  ")
	for _, d := range st.dtab {
		sb.WriteString("(")
		sb.WriteString(d)
		sb.WriteString(" ")
	}
	sb.WriteString("DE")
	sb.WriteString(strings.Repeat(")", len(st.dtab)))
	sb.WriteString("\n")
	for _, s := range st.Steps {
		sb.WriteString("  (XC ")
		sb.WriteString(s)
		sb.WriteString("\n")
	}
	sb.WriteString("  XE")
	sb.WriteString(strings.Repeat(")", len(st.Steps)))
	sb.WriteString(")%N")
	return sb.String()
}

// PinCounts extracts the pin index of a dump as a map universe index -> counter.
func (st *Store) PinCounts(d localstore.VerifDump) map[int]uint64 {
	m := map[int]uint64{}
	for _, e := range d.Pin {
		m[st.ai(e.Address)] = e.PinCounter
	}
	return m
}

func sortedInts(l []int) []int { o := append([]int{}, l...); sort.Ints(o); return o }
