// C25 harness: the internal libp2p blocklist (Add / Remove / Exists / Peers)
// driven through pkg/p2p/libp2p/verifexport with a pinned clock, over the
// leveldb in-memory state store and the mock state store.
package main

import (
	"encoding/hex"
	"fmt"
	"io"
	"math"
	"math/big"
	"sort"
	"strings"
	"time"

	"github.com/gauss-project/aurorafs/pkg/boson"
	"github.com/gauss-project/aurorafs/pkg/logging"
	"github.com/gauss-project/aurorafs/pkg/p2p/libp2p/verifexport"
	"github.com/gauss-project/aurorafs/pkg/shed"
	sldb "github.com/gauss-project/aurorafs/pkg/shed/leveldb"
	ldbstate "github.com/gauss-project/aurorafs/pkg/statestore/leveldb"
	mockstate "github.com/gauss-project/aurorafs/pkg/statestore/mock"
	"github.com/gauss-project/aurorafs/pkg/storage"
	"verifharness/hx"
)

// one generated operation. "add" may carry a probe instant: the harness then
// lists at the probe instant before and after the Add (Peers has no side
// effect), which is how "never shortens" is observed on the implementation.
// "list" is Peers() followed by Exists(p) for every address of the pool at the
// same instant.
type jop struct {
	Kind   string `json:"k"` // add | remove | query | list
	Sec    int64  `json:"s"`
	Nsec   int64  `json:"ns"`
	Addr   string `json:"a,omitempty"`
	Dur    int64  `json:"d,omitempty"`
	Probe  bool   `json:"probe,omitempty"`
	PSec   int64  `json:"ps,omitempty"`
	PNsec  int64  `json:"pns,omitempty"`
}
type jcase struct {
	Store  string   `json:"store"`  // leveldb | mock
	Stream string   `json:"stream"` // domain (clock never goes back, 1970..2262) | wild
	Pool   []string `json:"pool"`
	Ops    []jop    `json:"ops"`
}

var billion = big.NewInt(1000000000)

func ns(sec, nsec int64) *big.Int {
	v := new(big.Int).Mul(big.NewInt(sec), billion)
	return v.Add(v, big.NewInt(nsec))
}
func coqZ(v *big.Int) string {
	if v.Sign() < 0 {
		return "(" + v.String() + ")%Z"
	}
	return v.String() + "%Z"
}
func unhex(s string) []byte { b, _ := hex.DecodeString(s); return b }

type req struct {
	t *big.Int
	d int64
}

// reference bookkeeping of the property statement, per peer
type ref struct {
	reqs map[string][]req // requests since the last removal (successful adds only)
}

var curNow time.Time

type exec struct {
	run    *hx.Run
	jc     jcase
	bl     *verifexport.Blocklist
	ref    ref
	coq    []string
	domain bool
	last   *big.Int // latest main-op clock value
	viol   func(sig, detail string, impl, want interface{})
}

func errb(err error) string { return hx.CoqBool(err != nil) }

// idx renders an address as its index in the case's pool.
func (e *exec) idx(addr []byte) string {
	h := hx.Hex(addr)
	for i, a := range e.jc.Pool {
		if a == h {
			return hx.CoqNat(i)
		}
	}
	panic("address not in pool: " + h)
}

func (e *exec) opAdd(sec, nsec int64, addr []byte, d int64) error {
	curNow = time.Unix(sec, nsec).UTC()
	err := e.bl.Add(boson.NewAddress(addr), time.Duration(d))
	e.coq = append(e.coq, hx.CoqPair(hx.CoqApp("IAdd", coqZ(ns(sec, nsec)), e.idx(addr), hx.CoqZ(d)), hx.CoqApp("IGAdd", errb(err))))
	return err
}
func (e *exec) opRemove(sec, nsec int64, addr []byte) error {
	curNow = time.Unix(sec, nsec).UTC()
	err := e.bl.Remove(boson.NewAddress(addr))
	e.coq = append(e.coq, hx.CoqPair(hx.CoqApp("IRemove", coqZ(ns(sec, nsec)), e.idx(addr)), hx.CoqApp("IGRemove", errb(err))))
	return err
}
func (e *exec) opQuery(sec, nsec int64, addr []byte) (bool, error) {
	curNow = time.Unix(sec, nsec).UTC()
	b, err := e.bl.Exists(boson.NewAddress(addr))
	e.coq = append(e.coq, hx.CoqPair(hx.CoqApp("IQuery", coqZ(ns(sec, nsec)), e.idx(addr)), hx.CoqApp("IGQuery", hx.CoqBool(b), errb(err))))
	return b, err
}

// opList returns the listed addresses (hex) in sorted order.
func (e *exec) opList(sec, nsec int64) ([]string, error) {
	curNow = time.Unix(sec, nsec).UTC()
	ps, err := e.bl.Peers()
	type ent struct {
		a  string
		ts int64
	}
	var ents []ent
	for _, p := range ps {
		tt, perr := time.Parse(time.RFC3339, p.Timestamp)
		if perr != nil {
			e.viol("list:timestamp-not-rfc3339", p.Timestamp, p.Timestamp, "RFC3339")
		}
		ents = append(ents, ent{p.Address.String(), tt.Unix()})
	}
	sort.SliceStable(ents, func(i, j int) bool { return ents[i].a < ents[j].a })
	el := make([]string, len(ents))
	out := make([]string, len(ents))
	for i, x := range ents {
		el[i] = hx.CoqPair(e.idx(unhex(x.a)), hx.CoqZ(x.ts))
		out[i] = x.a
	}
	e.coq = append(e.coq, hx.CoqPair(hx.CoqApp("IList", coqZ(ns(sec, nsec))), hx.CoqApp("IGList", hx.CoqList(el, "nat * Z"), errb(err))))
	return out, err
}

func contains(l []string, a string) bool {
	for _, x := range l {
		if x == a {
			return true
		}
	}
	return false
}

// checkAnswer evaluates the property clauses for one per-peer answer
// (blocked / listed = got) at instant t. later: t is not before the latest
// main-op clock value (the theorems' hypothesis).
func (e *exec) checkAnswer(where string, addr string, t *big.Int, got bool) {
	rs := e.ref.reqs[addr]
	e.run.OracleChecked(1)
	if len(rs) == 0 {
		if got {
			e.viol("removed-or-never-added:reported-blocked", fmt.Sprintf("%s: %s blocked at %v with no request since its last removal", where, addr, t), got, false)
		}
		return
	}
	zero := false
	maxd := int64(math.MinInt64)
	for _, r := range rs {
		if r.d == 0 {
			zero = true
		}
		if r.d > maxd {
			maxd = r.d
		}
	}
	if zero {
		if !got {
			e.viol("zero-duration:not-blocked", fmt.Sprintf("%s: %s not blocked at %v after a zero-duration request", where, addr, t), got, true)
		}
		return
	}
	if !e.domain || t.Cmp(e.last) < 0 {
		return
	}
	// during a requested period
	for _, r := range rs {
		end := new(big.Int).Add(r.t, big.NewInt(r.d))
		if r.t.Cmp(t) <= 0 && t.Cmp(end) <= 0 && !got {
			e.viol("requested-period:not-blocked", fmt.Sprintf("%s: %s not blocked at %v inside the requested period [%v, +%d]", where, addr, t, r.t, r.d), got, true)
			return
		}
	}
	// upper bound: latest request time + longest duration since the last removal
	lastReq := rs[len(rs)-1].t
	bound := new(big.Int).Add(lastReq, big.NewInt(maxd))
	if got && t.Cmp(bound) > 0 {
		e.viol("blocked-beyond:latest-request-plus-longest-duration", fmt.Sprintf("%s: %s blocked at %v, latest request %v, longest duration %d", where, addr, t, lastReq, maxd), got, false)
	}
}

func (e *exec) step(o jop) {
	addr := unhex(o.Addr)
	t := ns(o.Sec, o.Nsec)
	e.run.Hist("op." + o.Kind)
	switch o.Kind {
	case "add":
		var before []string
		if o.Probe {
			before, _ = e.opList(o.PSec, o.PNsec)
		}
		err := e.opAdd(o.Sec, o.Nsec, addr, o.Dur)
		if err == nil {
			e.ref.reqs[o.Addr] = append(e.ref.reqs[o.Addr], req{t, o.Dur})
		} else if e.domain {
			e.viol("add:error-in-domain", fmt.Sprintf("Add(%s,%d) at %v: %v", o.Addr, o.Dur, t, err), "error", nil)
		}
		if e.last == nil || t.Cmp(e.last) > 0 {
			e.last = t
		}
		switch {
		case o.Dur == 0:
			e.run.Hist("dur.zero")
		case o.Dur < 0:
			e.run.Hist("dur.negative")
		default:
			e.run.Hist("dur.positive")
		}
		if o.Probe {
			after, _ := e.opList(o.PSec, o.PNsec)
			if e.domain { // hypothesis of the property: the clock does not go back
				e.run.OracleChecked(len(before))
			}
			for _, a := range before {
				if e.domain && !contains(after, a) {
					e.viol("add:shortened-existing-block", fmt.Sprintf("%s listed at probe instant %v before Add(%s,%d) at %v, not after", a, ns(o.PSec, o.PNsec), o.Addr, o.Dur, t), after, before)
				}
			}
			pt := ns(o.PSec, o.PNsec)
			for _, a := range e.jc.Pool {
				e.checkAnswer("probe-list", a, pt, contains(after, a))
			}
			e.run.Hist("probe")
		}
	case "remove":
		if err := e.opRemove(o.Sec, o.Nsec, addr); err != nil {
			e.viol("remove:error", err.Error(), "error", nil)
		}
		delete(e.ref.reqs, o.Addr)
		if e.last == nil || t.Cmp(e.last) > 0 {
			e.last = t
		}
	case "query":
		b, err := e.opQuery(o.Sec, o.Nsec, addr)
		if err != nil {
			e.viol("query:error", err.Error(), "error", nil)
		}
		if e.last == nil || t.Cmp(e.last) > 0 {
			e.last = t
		}
		e.checkAnswer("exists", o.Addr, t, b)
	case "list":
		l, err := e.opList(o.Sec, o.Nsec)
		if err != nil {
			e.viol("list:error", err.Error(), "error", nil)
		}
		if e.last == nil || t.Cmp(e.last) > 0 {
			e.last = t
		}
		for i := 1; i < len(l); i++ {
			if l[i] == l[i-1] {
				e.viol("list:duplicate-address", l[i], l, "distinct")
			}
		}
		for _, a := range l {
			if !contains(e.jc.Pool, a) {
				e.viol("list:unknown-address", a, l, e.jc.Pool)
			}
		}
		for _, a := range e.jc.Pool {
			b, _ := e.opQuery(o.Sec, o.Nsec, unhex(a))
			e.run.OracleChecked(1)
			if b != contains(l, a) {
				e.viol("list:disagrees-with-exists", fmt.Sprintf("at %v: %s listed=%v exists=%v", t, a, contains(l, a), b), contains(l, a), b)
			}
			e.checkAnswer("list", a, t, contains(l, a))
		}
	}
}

func newStore(kind string) storage.StateStorer {
	if kind == "mock" {
		return mockstate.NewStateStore()
	}
	s, err := ldbstate.NewInMemoryStateStore(logging.New(io.Discard, 0))
	if err != nil {
		panic(err)
	}
	return s
}

func runCase(run *hx.Run, jc jcase) {
	st := newStore(jc.Store)
	defer st.Close()
	e := &exec{run: run, jc: jc, bl: verifexport.NewBlocklist(st), ref: ref{reqs: map[string][]req{}}, domain: jc.Stream == "domain"}
	seen := map[string]bool{}
	e.viol = func(sig, detail string, impl, want interface{}) {
		if seen[sig] {
			return
		}
		seen[sig] = true
		run.Violate(hx.Violation{Sig: sig, Detail: detail, Case: jc, Impl: impl, Want: want})
	}
	panicked, msg := hx.Guard(func() {
		for _, o := range jc.Ops {
			e.step(o)
		}
	})
	if panicked {
		e.viol("panic", msg, "panic", nil)
	}
	nontrivial := false
	adds := 0
	for _, o := range jc.Ops {
		if o.Kind == "add" {
			adds++
		}
	}
	nontrivial = adds >= 2
	key := fmt.Sprintf("%v", jc)
	pool := make([][]byte, len(jc.Pool))
	for i, a := range jc.Pool {
		pool[i] = unhex(a)
	}
	run.AddCase(hx.CoqApp("CHist", hx.CoqBytesList(pool), hx.CoqList(e.coq, "iop * igobs")), jc, key, nontrivial)
	run.Hist("store." + jc.Store)
	run.Hist("stream." + jc.Stream)
}

// ------------------------------------------------------------ generators

var durSet = []int64{0, 0, -1, -2, -5, 1, 2, 999999999, 1000000000, 1000000001, 1500000000, 60000000000,
	3600000000000, 3661000000001, math.MaxInt64, math.MinInt64, math.MaxInt64 - 1, math.MinInt64 + 1}

func genDur(r *hx.Rand) int64 {
	switch r.Intn(10) {
	case 0, 1, 2, 3:
		return durSet[r.Intn(len(durSet))]
	case 4:
		return -int64(r.U64() % 5000000000)
	default:
		return int64(r.U64() % 7200000000000) // up to 2h
	}
}

func genPool(r *hx.Rand) []string {
	base := r.Bytes(32)
	sib := append([]byte{}, base...)
	sib[31] ^= 1
	pref := append([]byte{}, base[:3]...)
	pool := [][]byte{base, sib, r.Bytes(32), pref}
	if r.Chance(1, 4) {
		pool = append(pool, []byte{})
	}
	if r.Chance(1, 3) {
		pool = append(pool, r.Bytes(1+r.Intn(4)))
	}
	seen := map[string]bool{}
	var out []string
	for _, p := range pool {
		h := hx.Hex(p)
		if !seen[h] {
			seen[h] = true
			out = append(out, h)
		}
	}
	return out
}

// domain stream: clock never goes back, instants in [0, 2^63) ns; the next
// instant is biased to the boundary of a running request (t0+d, t0+d+1).
func genDomain(r *hx.Rand, n int) jcase {
	jc := jcase{Store: "leveldb", Stream: "domain", Pool: genPool(r)}
	if r.Chance(1, 4) {
		jc.Store = "mock"
	}
	var now int64
	switch r.Intn(4) {
	case 0:
		now = 0
	case 1:
		now = int64(r.U64() % 4000000000000000000)
	default:
		now = 1600000000000000000 + int64(r.U64()%100000000000000000)
	}
	type rq struct{ t, d int64 }
	var live []rq
	incs := []int64{0, 0, 1, 999999999, 1000000000, 1000000001, 30000000000, 3600000000000}
	for i := 0; i < n; i++ {
		// advance the clock
		var next int64
		if len(live) > 0 && r.Chance(1, 2) {
			q := live[r.Intn(len(live))]
			if q.d > 0 && q.d < math.MaxInt64-q.t-2 {
				next = q.t + q.d + int64(r.Intn(3)) - 1
			}
		}
		if next < now {
			inc := incs[r.Intn(len(incs))]
			if r.Chance(1, 3) {
				inc = int64(r.U64() % 5400000000000)
			}
			if now > math.MaxInt64-inc-1 {
				inc = 0
			}
			next = now + inc
		}
		now = next
		a := jc.Pool[r.Intn(len(jc.Pool))]
		if r.Chance(2, 3) {
			a = jc.Pool[r.Intn(2)] // concentrate on two peers so that merges happen
		}
		o := jop{Sec: now / 1000000000, Nsec: now % 1000000000, Addr: a}
		switch k := r.Intn(20); {
		case k < 9:
			o.Kind = "add"
			o.Dur = genDur(r)
			if r.Chance(1, 2) {
				o.Probe = true
				var pt int64 = now
				if len(live) > 0 && r.Chance(2, 3) {
					q := live[r.Intn(len(live))]
					if q.d > 0 && q.d < math.MaxInt64-q.t-2 && q.t+q.d >= now {
						pt = q.t + q.d - int64(r.Intn(2))
					}
				} else if now < math.MaxInt64-7200000000001 {
					pt = now + int64(r.U64()%7200000000000)
				}
				o.PSec, o.PNsec = pt/1000000000, pt%1000000000
			}
			live = append(live, rq{now, o.Dur})
		case k < 11:
			o.Kind = "remove"
		case k < 16:
			o.Kind = "query"
		default:
			o.Kind = "list"
			o.Addr = ""
		}
		jc.Ops = append(jc.Ops, o)
	}
	return jc
}

// wild stream: clock values jump back and forth, far apart (Time.Sub
// saturates), and outside the range JSON can encode (Add fails).
func genWild(r *hx.Rand, n int) jcase {
	jc := jcase{Store: "leveldb", Stream: "wild", Pool: genPool(r)}
	if r.Chance(1, 4) {
		jc.Store = "mock"
	}
	secs := []int64{0, 1, -1, 1700000000, -62167219200, -62167219201, 253402300799, 253402300800,
		9223372036, 9223372037, -9223372037, 20000000000, -20000000000, 1 << 40, -(1 << 40)}
	for i := 0; i < n; i++ {
		sec := secs[r.Intn(len(secs))]
		if r.Chance(1, 3) {
			sec = int64(r.U64()%600000000000) - 100000000000
		}
		nsec := int64(r.Pick([]int{0, 1, 999999999, 500000000}))
		a := jc.Pool[r.Intn(len(jc.Pool))]
		o := jop{Sec: sec, Nsec: nsec, Addr: a}
		switch k := r.Intn(20); {
		case k < 9:
			o.Kind = "add"
			o.Dur = genDur(r)
			if r.Chance(1, 3) {
				o.Probe = true
				o.PSec, o.PNsec = secs[r.Intn(len(secs))], 0
			}
		case k < 11:
			o.Kind = "remove"
		case k < 16:
			o.Kind = "query"
		default:
			o.Kind = "list"
			o.Addr = ""
		}
		jc.Ops = append(jc.Ops, o)
	}
	return jc
}

// duration string round trip: Add(p, d) on an empty list, then probes at
// exactly t+d and t+d+1 reveal the stored duration.
func genRoundTrip(r *hx.Rand, d int64) jcase {
	jc := jcase{Store: "leveldb", Stream: "domain", Pool: genPool(r)}
	t := int64(1700000000000000000)
	a := jc.Pool[0]
	sp := func(v int64) (int64, int64) { return v / 1000000000, v % 1000000000 }
	s, n := sp(t)
	jc.Ops = append(jc.Ops, jop{Kind: "add", Sec: s, Nsec: n, Addr: a, Dur: d})
	if d > 0 && d < math.MaxInt64-t-2 {
		s1, n1 := sp(t + d)
		s2, n2 := sp(t + d + 1)
		// a second add for another peer carrying the probes (Peers has no side effect)
		jc.Ops = append(jc.Ops, jop{Kind: "add", Sec: s, Nsec: n, Addr: jc.Pool[2], Dur: 1, Probe: true, PSec: s1, PNsec: n1})
		jc.Ops = append(jc.Ops, jop{Kind: "add", Sec: s, Nsec: n, Addr: jc.Pool[2], Dur: 1, Probe: true, PSec: s2, PNsec: n2})
		jc.Ops = append(jc.Ops, jop{Kind: "query", Sec: s1, Nsec: n1, Addr: a})
		jc.Ops = append(jc.Ops, jop{Kind: "query", Sec: s2, Nsec: n2, Addr: a})
	} else {
		jc.Ops = append(jc.Ops, jop{Kind: "list", Sec: s, Nsec: n})
		jc.Ops = append(jc.Ops, jop{Kind: "list", Sec: s + 1000, Nsec: n})
	}
	return jc
}

// fixed corpus: hand-written histories that run on every seed.
func corpus() []jcase {
	a, b := strings.Repeat("aa", 32), strings.Repeat("ab", 32)
	pool := []string{a, b}
	S := int64(1700000000)
	return []jcase{
		// the repo's own unit-test scenario: two durations, second shorter
		{Store: "leveldb", Stream: "domain", Pool: pool, Ops: []jop{
			{Kind: "add", Sec: S, Addr: a, Dur: 60000000000}, {Kind: "add", Sec: S + 10, Addr: a, Dur: 1000000000, Probe: true, PSec: S + 60},
			{Kind: "query", Sec: S + 69, Addr: a}, {Kind: "query", Sec: S + 70, Addr: a}, {Kind: "query", Sec: S + 70, Nsec: 1, Addr: a}, {Kind: "list", Sec: S + 71}}},
		// expired-but-not-yet-deleted entry revived by a short Add (lazy expiry is not a removal)
		{Store: "leveldb", Stream: "domain", Pool: pool, Ops: []jop{
			{Kind: "add", Sec: S, Addr: a, Dur: 3600000000000}, {Kind: "add", Sec: S + 7200, Addr: a, Dur: 60000000000},
			{Kind: "query", Sec: S + 7200 + 3600, Addr: a}, {Kind: "query", Sec: S + 7200 + 3601, Addr: a}}},
		// zero then finite, finite then zero, negative on absent and on present
		{Store: "mock", Stream: "domain", Pool: pool, Ops: []jop{
			{Kind: "add", Sec: S, Addr: a, Dur: 0}, {Kind: "add", Sec: S + 1, Addr: a, Dur: 5}, {Kind: "query", Sec: S + 100000, Addr: a},
			{Kind: "add", Sec: S, Addr: b, Dur: -5}, {Kind: "query", Sec: S + 100000, Addr: b}, {Kind: "add", Sec: S + 100000, Addr: b, Dur: 7}, {Kind: "add", Sec: S + 100000, Addr: b, Dur: -9, Probe: true, PSec: S + 100000, PNsec: 7},
			{Kind: "list", Sec: S + 100000, Nsec: 7}, {Kind: "remove", Sec: S + 100001, Addr: a}, {Kind: "list", Sec: S + 100001}}},
		// saturation of Time.Sub and timestamps JSON cannot encode
		{Store: "leveldb", Stream: "wild", Pool: pool, Ops: []jop{
			{Kind: "add", Sec: 0, Addr: a, Dur: math.MaxInt64}, {Kind: "query", Sec: 20000000000, Addr: a},
			{Kind: "add", Sec: 253402300800, Addr: b, Dur: 5}, {Kind: "list", Sec: 0},
			{Kind: "add", Sec: 20000000000, Addr: b, Dur: math.MinInt64}, {Kind: "query", Sec: -20000000000, Addr: b}, {Kind: "list", Sec: -20000000000}}},
	}
}

func main() {
	shed.Register("leveldb", sldb.Driver{})
	prev := verifexport.SetBlocklistTimeNow(func() time.Time { return curNow })
	defer verifexport.SetBlocklistTimeNow(prev)
	run := hx.Start("C25", "Aurora.C25.Corr",
		"histories of Add/Remove/Exists/Peers on a fresh blocklist (leveldb in-memory and mock state store) with the package clock pinned per call: 'domain' stream = clock never goes back, instants in 1970..2262, next instant biased to t0+d-1/t0+d/t0+d+1 of a running request, durations from {0, negatives, 1ns..2h, int64 extremes}; half of the Adds are bracketed by a side-effect-free listing at a later probe instant; 'wild' stream = clock jumping back/forth, Time.Sub saturation, timestamps outside JSON range; non-trivial = history with at least two Adds; distinct by full history")
	if run.Replay != "" {
		var jc jcase
		if err := run.ReadReplay(&jc); err != nil {
			panic(err)
		}
		runCase(run, jc)
		run.Finish()
		return
	}
	for _, jc := range corpus() {
		runCase(run, jc)
	}
	r := run.R
	for _, d := range durSet {
		runCase(run, genRoundTrip(r, d))
	}
	for i := 0; i < run.N(6, 200); i++ {
		runCase(run, genRoundTrip(r, genDur(r)))
	}
	for i := 0; i < run.N(90, 1600); i++ {
		runCase(run, genDomain(r, 5+r.Intn(run.N(16, 30))))
	}
	for i := 0; i < run.N(25, 400); i++ {
		runCase(run, genWild(r, 5+r.Intn(run.N(10, 20))))
	}
	run.Finish()
}
