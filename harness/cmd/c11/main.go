// C11 harness: localstore.DB Put/Get/GetMulti/Has/HasMulti/Set on a real
// leveldb-backed store, every mode, batches with duplicates, with and without
// a root hash in the context; collection out of reach (huge capacity).
//
//   - correspondence: after EVERY operation the returned values and the
//     canonical dump of all indexes are compared with the Coq model
//     (Aurora.C11.Corr.check_case);
//   - oracle 1 (reference map, lsx.Ref): exists flags, Has/Get/GetMulti results
//     and a public-API audit of every address after every operation;
//   - oracle 2 (batch = sequence, lsx.TwinCompare): one multi-chunk put per
//     history is replaced, on a twin store, by one put per chunk; results and
//     full dumps must agree.
package main

import (
	"encoding/json"
	"fmt"
	"os"
	"runtime/pprof"

	"verifharness/hx"
	"verifharness/lsx"
)

const bigCap = 1 << 40

// corpus: witnesses of the known findings and hand-picked corner cases; run on every seed.
func corpus() []*lsx.Hist {
	u := []string{
		"a1000000000000000000000000000000000000000000000000000000000000aa",
		"a1000000000000000000000000000000000000000000000000000000000000bb",
		"21000000000000000000000000000000000000000000000000000000000000cc",
		"0100", "",
	}
	base := "a1ffffffffffffffffffffffffffffffffffffffffffffffffffffffffffffff"
	return []*lsx.Hist{
		// F-put-batch-context (a): Put(request, root=R, [R, c1]) fails, the two single puts succeed
		{Kind: "corpus-batch-root-first", Base: base, Cap: bigCap, Univ: u, Twin: 0, Ops: []lsx.Op{
			{K: "put", T: 10, Mode: 0, Root: 0, Chs: []lsx.Ch{{A: 0, D: "01"}, {A: 1, D: "02"}}},
			{K: "has", Mode: 1, A: 0, Root: -1},
		}},
		// F-put-batch-context (b): two new chunks of an existing root add 2 to gcSize and 1 to GCounter
		{Kind: "corpus-batch-two-new", Base: base, Cap: bigCap, Univ: u, Twin: 1, Ops: []lsx.Op{
			{K: "put", T: 10, Mode: 0, Root: 0, Chs: []lsx.Ch{{A: 0, D: "01"}}},
			{K: "put", T: 11, Mode: 0, Root: 0, Chs: []lsx.Ch{{A: 1, D: "02"}, {A: 2, D: "03"}}},
			{K: "get", T: 12, Mode: 0, Root: 0, A: 1},
		}},
		// pinned upload of the same chunk twice in one call pins once; one at a time pins twice
		{Kind: "corpus-uploadpin-duplicate", Base: base, Cap: bigCap, Univ: u, Twin: 0, Ops: []lsx.Op{
			{K: "put", T: 10, Mode: 2, Root: -1, Chs: []lsx.Ch{{A: 2, D: "07"}, {A: 2, D: "07"}}},
			{K: "set", T: 11, Mode: 1, Root: -1, Addrs: []int{2}},
			{K: "has", Mode: 1, A: 2, Root: -1},
		}},
		// same address, different bytes: the first stored bytes win; removal of a twice-pinned chunk only unpins
		{Kind: "corpus-first-bytes-win", Base: base, Cap: bigCap, Univ: u, Twin: -1, Ops: []lsx.Op{
			{K: "put", T: 10, Mode: 1, Root: -1, Chs: []lsx.Ch{{A: 3, D: "aa"}}},
			{K: "put", T: 11, Mode: 1, Root: -1, Chs: []lsx.Ch{{A: 3, D: "bb"}}},
			{K: "put", T: 12, Mode: 2, Root: -1, Chs: []lsx.Ch{{A: 3, D: "cc"}, {A: 4, D: "dd"}}},
			{K: "set", T: 13, Mode: 2, Root: -1, Addrs: []int{3}},
			{K: "set", T: 14, Mode: 1, Root: -1, Addrs: []int{3}},
			{K: "get", T: 15, Mode: 2, Root: -1, A: 3},
			{K: "set", T: 16, Mode: 1, Root: -1, Addrs: []int{3}},
			{K: "get", T: 17, Mode: 2, Root: -1, A: 3},
			{K: "get", T: 18, Mode: 3, Root: -1, A: 4},
			{K: "put", T: 19, Mode: 7, Root: -1, Chs: []lsx.Ch{{A: 4, D: "dd"}}},
			{K: "put", T: 19, Mode: 7, Root: -1, Chs: []lsx.Ch{{A: 0, D: "dd"}}},
			{K: "put", T: 20, Mode: 0, Root: 4, Chs: []lsx.Ch{{A: 0, D: "ee"}}},
		}},
	}
}

// volumes of the thorough tier; the -race build is an order of magnitude slower
func thoroughHist() int {
	if lsx.RaceEnabled {
		return 2000
	}
	return 6000
}
func thoroughConc() int {
	if lsx.RaceEnabled {
		return 50
	}
	return 60
}

func main() {
	if pf := os.Getenv("VERIF_PROF"); pf != "" {
		f, _ := os.Create(pf)
		_ = pprof.StartCPUProfile(f)
		defer pprof.StopCPUProfile()
	}
	run := hx.Start("C11", "Aurora.C11.Corr",
		"histories of 5..40 operations (Put in the four modes + an invalid one, single and batched with in-call duplicates, with/without a root hash in the context; Get/GetMulti in every mode; Has/HasMulti; Set sync/remove/pin/unpin, single and batched) over a 6-8 address universe that shares proximity bins, clock pinned per operation (also 0, negative, backwards), capacity 2^40; non-trivial = history that stores, finds, removes and re-stores at least one chunk or contains a multi-chunk put; distinct by (base key, operations)")

	doHist := func(h *lsx.Hist, st *lsx.Store) {
		nontrivial := false
		for _, op := range h.Ops {
			if op.K == "put" && len(op.Chs) > 1 || op.K == "set" && op.Mode == 1 {
				nontrivial = true
			}
			run.Hist(fmt.Sprintf("op.%s.mode%d", op.K, op.Mode))
			if op.K == "put" || op.K == "set" || op.K == "get" {
				if op.Root >= 0 {
					run.Hist("ctx.with-root")
				} else {
					run.Hist("ctx.none")
				}
			}
		}
		run.HistN("steps", len(st.Trace))
		run.AddCase(st.CoqCase(), h, h.Key(), nontrivial)
		if h.Twin >= 0 && h.Twin < len(h.Ops) && len(st.Trace) == len(h.Ops) {
			run.OracleChecked(1)
			sig, detail, err := lsx.TwinCompare(h, h.Twin, st)
			if err != nil {
				panic(err)
			}
			op := h.Ops[h.Twin]
			run.Hist(fmt.Sprintf("twin.mode%d.ctx=%v", op.Mode, op.Root >= 0))
			if sig != "" {
				run.Violate(hx.Violation{Sig: sig, Detail: fmt.Sprintf("put #%d of the history: one call with %d chunks differs from one call per chunk: %s", h.Twin, len(op.Chs), detail), Case: h})
			}
		}
	}

	replayHist := func(h *lsx.Hist) {
		st, err := lsx.Open(h)
		if err != nil {
			panic(err)
		}
		rf := lsx.NewRef()
		for _, op := range h.Ops {
			n := len(st.Trace)
			st.Exec(op, false)
			for _, info := range st.Trace[n:] {
				rf.Apply(st, info, run, h)
			}
		}
		doHist(h, st)
		st.Close()
	}

	if run.Replay != "" {
		var cc lsx.ConcCase
		if err := run.ReadReplay(&cc); err == nil && cc.Kind == "conc-put" {
			lsx.ConcPuts(run, cc)
			run.Finish()
			return
		}
		var h lsx.Hist
		if err := run.ReadReplay(&h); err != nil {
			panic(err)
		}
		replayHist(&h)
		run.Finish()
		return
	}

	for _, h := range corpus() {
		replayHist(h)
	}
	for _, f := range hx.CorpusFiles("C11") {
		var h lsx.Hist
		run.Replay = f
		b := struct {
			Case json.RawMessage `json:"case"`
		}{}
		_ = b
		if err := run.ReadReplay(&h); err == nil {
			replayHist(&h)
		}
		run.Replay = ""
	}

	for i := 0; i < run.N(150, thoroughHist()); i++ {
		g, err := lsx.NewGen(run.R.Fork(uint64(i)), "api", bigCap, false)
		if err != nil {
			panic(err)
		}
		rf := lsx.NewRef()
		g.After = func(g *lsx.Gen, info lsx.StepInfo) { rf.Apply(g.St, info, run, g.H) }
		g.Steps(5 + g.R.Intn(36))
		// twin: the last multi-chunk put of the history
		for k, op := range g.H.Ops {
			if op.K == "put" && len(op.Chs) > 1 && op.Mode <= 3 {
				g.H.Twin = k
			}
		}
		doHist(g.H, g.St)
		g.St.Close()
	}
	// concurrency layer: N single-chunk Puts of one new address released together while a large
	// batched Put holds batchMu (both non-pin modes; request mode also under a file context)
	for i := 0; i < run.N(6, thoroughConc()); i++ {
		cc := lsx.ConcCase{Kind: "conc-put", Seed: run.R.U64(), Mode: []int{1, 0, 0}[i%3], Ctx: i%3 == 2,
			Threads: 2 + run.R.Intn(4), Rounds: run.N(5, 12)}
		lsx.ConcPuts(run, cc)
	}
	run.Finish()
}
