// C28 harness: small networks of real routetab.Service instances (harness/routesim) driven
// one message at a time: FindRoute initiations, deliveries in random order, losses, real
// FindRoute calls that time out, relay next-hop decisions.  Oracle: the safety clauses of the
// property on every message sent and every path recorded, and drain-to-quiescence within a
// step budget (termination).
package main

import (
	"context"
	"encoding/json"
	"fmt"
	"runtime/debug"
	"sort"
	"strings"
	"sync/atomic"
	"time"

	"bytes"

	"github.com/gauss-project/aurorafs/pkg/aurora"
	"github.com/gauss-project/aurorafs/pkg/boson"
	"github.com/gauss-project/aurorafs/pkg/p2p"
	"github.com/gauss-project/aurorafs/pkg/p2p/protobuf"
	"github.com/gauss-project/aurorafs/pkg/routetab"
	"github.com/gauss-project/aurorafs/pkg/routetab/pb"
	"verifharness/hx"
	"verifharness/routesim"
)

type jev struct {
	Op     string `json:"op"`            // init find deliver lose dump relay relayfind drain
	Via    bool   `json:"via,omitempty"` // relayfind: through the real onRelayConnChain handler
	N      int    `json:"n,omitempty"`
	Target int    `json:"target,omitempty"`
	I      int    `json:"i,omitempty"`    // soup index (taken modulo the soup length)
	Path   []int  `json:"path,omitempty"` // relay: nodes already on the path (before n)
}
type jcase struct {
	Name   string   `json:"name,omitempty"`
	Seed   uint64   `json:"seed"` // node keys
	Nodes  int      `json:"nodes"`
	Edges  [][2]int `json:"edges"`
	Alpha  int      `json:"alpha"`
	MaxTTL int      `json:"maxttl"`
	Evs    []jev    `json:"evs"`
}

func nl(xs []int) string {
	s := make([]string, len(xs))
	for i, x := range xs {
		s[i] = fmt.Sprint(x)
	}
	return "[" + strings.Join(s, ";") + "]"
}
func lst(el []string) string { return "[" + strings.Join(el, "; ") + "]" }

type sim struct {
	run   *hx.Run
	jc    jcase
	net   *routesim.Net
	adj   [][]bool
	cevs  []string
	steps int
}

func (s *sim) violate(sig, detail string, impl, want interface{}) {
	s.run.Violate(hx.Violation{Sig: sig, Detail: detail, Case: s.jc, Impl: impl, Want: want})
}

func dupIn(p []int) bool {
	seen := map[int]bool{}
	for _, x := range p {
		if seen[x] {
			return true
		}
		seen[x] = true
	}
	return false
}
func (s *sim) walk(p []int) bool {
	for i := 0; i+1 < len(p); i++ {
		a, b := p[i], p[i+1]
		if a < 0 || b < 0 || a >= len(s.adj) || b >= len(s.adj) || !s.adj[a][b] {
			return false
		}
	}
	return true
}

// safety clauses on a message that a node just sent
func (s *sim) oracleMsg(m routesim.Msg, d routesim.Decoded) {
	s.run.OracleChecked(1)
	what := fmt.Sprintf("%s %d->%d target=%d paths=%v", d.Kind, m.From, m.To, d.Target, d.Paths)
	if !s.adj[m.From][m.To] {
		s.violate("msg:sent-to-non-neighbour", what, m.To, "a neighbour")
	}
	if len(d.Paths) != 1 {
		s.violate("msg:not-exactly-one-path", what, len(d.Paths), 1)
		return
	}
	p := d.Paths[0]
	if dupIn(p) {
		s.violate("path:duplicate-node-in-flight:"+d.Kind, what, p, "distinct nodes")
	}
	if !s.walk(p) {
		s.violate("path:not-a-walk-in-flight:"+d.Kind, what, p, "consecutive nodes are neighbours")
	}
	if len(p) == 0 || p[len(p)-1] != m.From {
		s.violate("path:does-not-end-at-sender:"+d.Kind, what, p, m.From)
	}
	if len(p) > s.jc.MaxTTL+1 {
		s.violate("path:too-long-in-flight:"+d.Kind, what, len(p), s.jc.MaxTTL+1)
	}
}

func (s *sim) stored(n int) [][]int {
	var out [][]int
	for _, e := range s.net.Nodes[n].Svc.VerifTable().VerifPaths() {
		var it []int
		for _, a := range e.Path.Items {
			it = append(it, s.net.Index(a.Bytes()))
		}
		out = append(out, it)
	}
	return out
}

// safety clauses on everything a node has recorded / returns
func (s *sim) oracleTables() {
	for n := range s.net.Nodes {
		chk := func(p []int, how string) {
			s.run.OracleChecked(1)
			what := fmt.Sprintf("node %d %s %v", n, how, p)
			if dupIn(p) {
				s.violate("path:duplicate-node-recorded", what, p, "distinct nodes")
			}
			if !s.walk(p) {
				s.violate("path:not-a-walk-recorded", what, p, "consecutive nodes are neighbours")
			}
			if len(p) > s.jc.MaxTTL {
				s.violate("path:too-long-recorded", what, len(p), s.jc.MaxTTL)
			}
			for _, x := range p {
				if x == n {
					s.violate("path:contains-recorder", what, p, "not the recording node")
				}
			}
			if len(p) > 0 && (p[len(p)-1] < 0 || !s.adj[p[len(p)-1]][n]) {
				s.violate("path:last-hop-not-a-neighbour", what, p, "last hop connected to the recorder")
			}
		}
		for _, p := range s.stored(n) {
			chk(p, "stores")
		}
		for t := range s.net.Nodes {
			ps, err := s.net.Nodes[n].Svc.GetRoute(s.net.Ctx, s.net.Nodes[t].Overlay)
			if err != nil {
				continue
			}
			for _, p := range ps {
				var it []int
				for _, a := range p.Items {
					it = append(it, s.net.Index(a.Bytes()))
				}
				chk(it, fmt.Sprintf("returns for %d", t))
			}
		}
	}
}

func coqMsg(m routesim.Msg, d routesim.Decoded) string {
	k := "KReq"
	if d.Kind == "resp" {
		k = "KResp"
	}
	var p []int
	if len(d.Paths) > 0 {
		p = d.Paths[0]
	}
	for i, x := range p {
		if x < 0 {
			p[i] = 999
		}
	}
	t := d.Target
	if t < 0 {
		t = 999
	}
	return fmt.Sprintf("(mkMsg %s %d %d %d %s)", k, m.From, m.To, t, nl(p))
}

func (s *sim) sentTerms(ms []routesim.Msg) (string, []int, bool) {
	var el []string
	var reqTo []int
	resp := false
	for _, m := range ms {
		d, err := s.net.Decode(m)
		if err != nil {
			s.violate("msg:undecodable", err.Error(), m.Stream, "a route request or response")
			continue
		}
		s.oracleMsg(m, d)
		el = append(el, coqMsg(m, d))
		if d.Kind == "req" {
			reqTo = append(reqTo, m.To)
		} else {
			resp = true
		}
		s.run.Hist("sent." + d.Kind)
	}
	return lst(el), reqTo, resp
}

func (s *sim) respCount(n, target int) int {
	key := boson.NewAddress(s.net.Nodes[target].Overlay.Bytes())
	m := s.net.Nodes[n].Svc.VerifPendingResp()
	for k, v := range m {
		if strings.EqualFold(strings.TrimPrefix(k, "0x"), key.String()) {
			return len(v)
		}
	}
	return 0
}

func (s *sim) reqKeys(n int) map[string]bool {
	out := map[string]bool{}
	for _, k := range s.net.Nodes[n].Svc.VerifPendingReq() {
		out[k] = true
	}
	return out
}

func (s *sim) doInit(n, target int) {
	if n == target {
		return
	}
	before := s.respCount(n, target)
	_, ms := s.net.StartFind(n, target)
	after := s.respCount(n, target)
	terms, reqTo, _ := s.sentTerms(ms)
	if after-before == 0 {
		return // no eligible neighbour: FindRoute returns an error, nothing happened
	}
	s.cevs = append(s.cevs, fmt.Sprintf("(CEv (EInit %d %d %s %d) %s)", n, target, nl(reqTo), after-before-len(reqTo), terms))
	s.run.Hist("ev.init")
}

// a real FindRoute that gives up after 15 ms: the sending half, then pendingCalls.Delete per neighbour
func (s *sim) doFind(n, target int) {
	if n == target {
		return
	}
	before := s.respCount(n, target)
	kb := s.reqKeys(n)
	done := make(chan struct{})
	var ms []routesim.Msg
	ok := hx.WithTimeout(5*time.Second, func() {
		_, _ = s.net.Nodes[n].Svc.FindRoute(context.Background(), s.net.Nodes[target].Overlay, 15*time.Millisecond)
		close(done)
	})
	if !ok {
		s.violate("find:hangs", fmt.Sprintf("FindRoute(%d -> %d) did not return within 5s of a 15ms timeout", n, target), "hang", "timeout error")
		return
	}
	ms = s.net.Flush()
	terms, reqTo, _ := s.sentTerms(ms)
	if len(ms) == 0 && s.respCount(n, target) == before {
		// either no neighbour, or everything suppressed and then deleted: look at the request log
		ka := s.reqKeys(n)
		same := len(ka) == len(kb)
		if same {
			return
		}
	}
	// the entries FindRoute added are gone again (remove()): reconstruct how many were added from
	// the request-log keys that disappeared
	ka := s.reqKeys(n)
	tk := s.net.Nodes[target].Overlay.String()
	var deleted []int
	for v := range s.net.Nodes {
		key := tk + s.net.Nodes[v].Overlay.String()
		sentTo := false
		for _, x := range reqTo {
			if x == v {
				sentTo = true
			}
		}
		if (kb[key] || sentTo) && !ka[key] {
			deleted = append(deleted, v)
		}
	}
	extra := len(deleted) - len(reqTo)
	if extra < 0 {
		extra = 0
	}
	s.cevs = append(s.cevs, fmt.Sprintf("(CEv (EInit %d %d %s %d) %s)", n, target, nl(reqTo), extra, terms))
	for _, v := range deleted {
		s.cevs = append(s.cevs, fmt.Sprintf("(CEv (EExpDelete %d %d %d) [])", n, target, v))
	}
	s.run.Hist("ev.find-timeout")
}

func (s *sim) doDeliver(i int) {
	if len(s.net.Soup) == 0 {
		return
	}
	i %= len(s.net.Soup)
	m := s.net.Soup[i]
	d, err := s.net.Decode(m)
	if err != nil {
		s.net.Lose(i)
		return
	}
	before := 0
	if d.Target >= 0 {
		before = s.respCount(m.To, d.Target)
	}
	var ms []routesim.Msg
	var herr error
	panicked, msg := hx.Guard(func() { ms, herr = s.net.Deliver(i) })
	if panicked {
		s.violate("handler:panic", msg, msg, "no panic")
		return
	}
	if herr != nil {
		s.violate("handler:error", herr.Error(), herr.Error(), "nil")
	}
	s.steps++
	terms, reqTo, resp := s.sentTerms(ms)
	ch := "ChNone"
	if d.Kind == "req" {
		if resp && len(ms) == 1 {
			dd, _ := s.net.Decode(ms[0])
			q := dd.Paths[0]
			ch = fmt.Sprintf("(ChResp %s)", nl(q[:len(q)-1]))
		} else {
			after := s.respCount(m.To, d.Target)
			extra := after - before - len(reqTo)
			if extra < 0 {
				extra = 0
			}
			ch = fmt.Sprintf("(ChFwd %s %d)", nl(reqTo), extra)
		}
	}
	s.cevs = append(s.cevs, fmt.Sprintf("(CEv (EDeliver %d %s) %s)", i, ch, terms))
	s.run.Hist("ev.deliver." + d.Kind)
}

func (s *sim) doLose(i int) {
	if len(s.net.Soup) == 0 {
		return
	}
	i %= len(s.net.Soup)
	s.net.Lose(i)
	s.cevs = append(s.cevs, fmt.Sprintf("(CEv (ELose %d) [])", i))
	s.run.Hist("ev.lose")
}

func (s *sim) doDump() {
	var el []string
	for n, nd := range s.net.Nodes {
		var rs []string
		for _, p := range s.stored(n) {
			rs = append(rs, nl(p))
		}
		var ps []string
		pr := nd.Svc.VerifPendingResp()
		var keys []string
		for k := range pr {
			keys = append(keys, k)
		}
		sort.Strings(keys)
		for _, k := range keys {
			t := -1
			for j, x := range s.net.Nodes {
				if strings.EqualFold(strings.TrimPrefix(k, "0x"), x.Overlay.String()) {
					t = j
				}
			}
			var srcs []int
			for _, a := range pr[k] {
				srcs = append(srcs, s.net.Index(a.Bytes()))
			}
			ps = append(ps, fmt.Sprintf("(%d,%s)", t, nl(srcs)))
		}
		var qs []string
		for _, k := range nd.Svc.VerifPendingReq() {
			t, v := -1, -1
			if len(k) == 128 {
				for j, x := range s.net.Nodes {
					if k[:64] == x.Overlay.String() {
						t = j
					}
					if k[64:] == x.Overlay.String() {
						v = j
					}
				}
			}
			if t < 0 || v < 0 {
				t, v = 999, 999
			}
			qs = append(qs, fmt.Sprintf("(%d,%d)", t, v))
		}
		el = append(el, fmt.Sprintf("(mkND %s %s %s)", lst(rs), lst(ps), lst(qs)))
	}
	s.cevs = append(s.cevs, fmt.Sprintf("(CDump %s)", lst(el)))
	s.oracleTables()
}

// relay decision of node n for target, the request having already visited path (then n)
func (s *sim) doRelay(n, target int, path []int) {
	if n == target {
		return
	}
	full := append(append([]int{}, path...), n)
	var raw [][]byte
	var skips []boson.Address
	for _, x := range full {
		raw = append(raw, s.net.Nodes[x].Overlay.Bytes())
		skips = append(skips, s.net.Nodes[x].Overlay)
	}
	tg := s.net.Nodes[target].Overlay
	offered := s.net.Nodes[n].Svc.VerifTable().GetNextHop(tg, skips...)
	var off []int
	for _, a := range offered {
		off = append(off, s.net.Index(a.Bytes()))
	}
	sort.Ints(off)
	next := s.net.Nodes[n].Svc.VerifRelayNext(tg, raw)
	obs := "None"
	s.run.OracleChecked(1)
	if !next.IsZero() {
		ni := s.net.Index(next.Bytes())
		obs = fmt.Sprintf("(Some %d)", ni)
		// "never forwarded to a node already on their path, except to deliver to the target"
		if ni != target {
			for _, x := range full {
				if x == ni {
					s.violate("relay:next-hop-already-on-path", fmt.Sprintf("node %d relays for %d with path %v to %d", n, target, full, ni), ni, "a node not on the path")
				}
			}
		}
		if ni < 0 || !s.adj[n][ni] {
			s.violate("relay:next-hop-not-a-neighbour", fmt.Sprintf("node %d relays for %d to %d", n, target, ni), ni, "a neighbour")
		}
	}
	s.cevs = append(s.cevs, fmt.Sprintf("(CRelay %d %d %s %s %s)", n, target, nl(full), nl(off), obs))
	s.run.Hist("ev.relay")
}

// the REAL GetNextHopRandomOrFind (direct, or inside the real onRelayConnChain handler) at node n for
// a relayed request that has visited path (then n).  The fallback FindRoute blocks until its answer
// arrives, so the call runs in a goroutine while this goroutine plays the network: the initiation
// and every delivery are recorded as ordinary events.
func (s *sim) doRelayFind(n, target int, path []int, via bool) {
	if n == target || len(path) == 0 || s.adj[n][target] {
		return
	}
	full := append(append([]int{}, path...), n)
	var raw [][]byte
	var skips []boson.Address
	for _, x := range full {
		raw = append(raw, s.net.Nodes[x].Overlay.Bytes())
		skips = append(skips, s.net.Nodes[x].Overlay)
	}
	tg := s.net.Nodes[target].Overlay
	svc := s.net.Nodes[n].Svc
	offered := func() []int {
		var off []int
		for _, a := range svc.VerifTable().GetNextHop(tg, skips...) {
			off = append(off, s.net.Index(a.Bytes()))
		}
		sort.Ints(off)
		return off
	}
	off1 := offered()
	before := s.respCount(n, target)
	kb := s.reqKeys(n)
	nrel := len(s.net.Relayed)
	var next boson.Address
	var err error
	done := make(chan struct{})
	go func() {
		defer close(done)
		if via {
			prev := path[len(path)-1]
			var buf bytes.Buffer
			_ = protobuf.NewWriter(&buf).WriteMsg(&pb.RouteRelayReq{Src: s.net.Nodes[path[0]].Overlay.Bytes(), Dest: tg.Bytes(),
				SrcMode: aurora.NewModel().SetMode(aurora.FullNode).Bv.Bytes(), Paths: raw[:len(raw)-1],
				ProtocolName: []byte("x"), ProtocolVersion: []byte("1"), StreamName: []byte("y")})
			h := s.net.RelayHandler(n, routetab.StreamOnRelayConnChain)
			err = h(s.net.Ctx, p2p.Peer{Address: s.net.Nodes[prev].Overlay, Mode: aurora.NewModel().SetMode(aurora.FullNode)}, routesim.NewInStream(buf.Bytes()))
		} else {
			next, err = svc.GetNextHopRandomOrFind(s.net.Ctx, tg, skips...)
		}
	}()
	finished := func() bool {
		select {
		case <-done:
			return true
		default:
			return false
		}
	}
	// wait for the call to finish or for FindRoute's requests to be out (doRouteReq sends them in
	// one tight loop and then blocks): the number of opened streams must be stable over 10 ms
	deadline := time.Now().Add(10 * time.Second)
	quiet := time.Now().Add(30 * time.Millisecond) // nothing sent by then: every forward was suppressed by the request log
	for !finished() && time.Now().Before(deadline) {
		c := s.net.PendingOut()
		if c > 0 {
			time.Sleep(10 * time.Millisecond)
			if s.net.PendingOut() == c {
				break
			}
			continue
		}
		if time.Now().After(quiet) {
			break
		}
		time.Sleep(time.Millisecond)
	}
	initiated := false
	var reqTo []int
	if !finished() || s.net.PendingOut() > 0 {
		ms := s.net.Flush()
		var terms string
		terms, reqTo, _ = s.sentTerms(ms)
		if grow := s.respCount(n, target) - before; grow > 0 || len(reqTo) > 0 {
			extra := grow - len(reqTo)
			if extra < 0 {
				extra = 0
			}
			s.cevs = append(s.cevs, fmt.Sprintf("(CEv (EInit %d %d %s %d) %s)", n, target, nl(reqTo), extra, terms))
			initiated = true
			s.run.Hist("ev.init-by-relay")
		}
	}
	// play the network until the call returns (FIFO deliveries; nothing is lost meanwhile)
	for !finished() && time.Now().Before(deadline) {
		if len(s.net.Soup) > 0 {
			s.doDeliver(0)
		} else {
			time.Sleep(time.Millisecond)
		}
	}
	if !finished() {
		s.violate("relay:next-hop-search-hangs", fmt.Sprintf("GetNextHopRandomOrFind at %d for %d path %v did not return", n, target, full), "hang", "a next hop or an error")
		return
	}
	s.net.Flush()
	if via {
		// what the handler opened a relay stream to
		next = boson.ZeroAddress
		if len(s.net.Relayed) > nrel {
			next = s.net.Nodes[s.net.Relayed[len(s.net.Relayed)-1].To].Overlay
		}
	}
	findOK := err == nil
	if via {
		findOK = !next.IsZero()
	}
	if !findOK {
		// a discovery that gave up: FindRoute's remove() = pendingCalls.Delete per chosen neighbour.
		// If the call returned before anything could be observed (every forward suppressed, then the
		// timeout), the initiation is reconstructed from the request-log keys that disappeared.
		ka := s.reqKeys(n)
		tk := tg.String()
		var deleted []int
		for v := range s.net.Nodes {
			key := tk + s.net.Nodes[v].Overlay.String()
			sentTo := false
			for _, x := range reqTo {
				if x == v {
					sentTo = true
				}
			}
			if (kb[key] || sentTo) && !ka[key] {
				deleted = append(deleted, v)
			}
		}
		if !initiated && len(deleted) > 0 {
			s.cevs = append(s.cevs, fmt.Sprintf("(CEv (EInit %d %d [] %d) [])", n, target, len(deleted)))
			initiated = true
			s.run.Hist("ev.init-by-relay")
		}
		if initiated {
			for _, v := range deleted {
				s.cevs = append(s.cevs, fmt.Sprintf("(CEv (EExpDelete %d %d %d) [])", n, target, v))
			}
		}
	}
	off2 := offered()
	obs := "None"
	s.run.OracleChecked(1)
	if !next.IsZero() {
		ni := s.net.Index(next.Bytes())
		obs = fmt.Sprintf("(Some %d)", ni)
		if ni != target {
			for _, x := range full {
				if x == ni {
					s.violate("relay:next-hop-already-on-path", fmt.Sprintf("node %d relays for %d with path %v to %d (GetNextHopRandomOrFind, discovery initiated=%v, via handler=%v)", n, target, full, ni, initiated, via), ni, "a node not on the path")
				}
			}
		}
		if ni < 0 || !s.adj[n][ni] {
			s.violate("relay:next-hop-not-a-neighbour", fmt.Sprintf("node %d relays for %d to %d", n, target, ni), ni, "a neighbour")
		}
	}
	fo := "false"
	if findOK {
		fo = "true"
	}
	s.cevs = append(s.cevs, fmt.Sprintf("(CRelayFind %d %d %s %s %s %s %s)", n, target, nl(full), nl(off1), fo, nl(off2), obs))
	if initiated {
		s.run.Hist("ev.relayfind.discovery")
	} else {
		s.run.Hist("ev.relayfind.direct")
	}
}

// deliver everything that is left, in pseudo-random order, within a budget
func (s *sim) drain(r *hx.Rand) {
	budget := 20000
	for len(s.net.Soup) > 0 && budget > 0 {
		s.doDeliver(r.Intn(len(s.net.Soup)))
		budget--
	}
	s.run.OracleChecked(1)
	if len(s.net.Soup) > 0 {
		s.violate("terminates:soup-not-drained", fmt.Sprintf("%d messages still in flight after 20000 deliveries", len(s.net.Soup)), len(s.net.Soup), 0)
	}
}

func runCase(run *hx.Run, jc jcase) {
	atomic.StoreInt32(&routetab.MaxTTL, int32(jc.MaxTTL))
	routetab.NeighborAlpha = int32(jc.Alpha)
	routetab.PendingTimeout = time.Hour
	routetab.VerifSetFindTimeout(300 * time.Millisecond)
	adj := make([][]bool, jc.Nodes)
	for i := range adj {
		adj[i] = make([]bool, jc.Nodes)
	}
	for _, e := range jc.Edges {
		adj[e[0]][e[1]] = true
		adj[e[1]][e[0]] = true
	}
	net, err := routesim.New(jc.Seed, adj)
	if err != nil {
		panic(err)
	}
	defer net.Close()
	s := &sim{run: run, jc: jc, net: net, adj: adj}
	cj, _ := json.Marshal(jc)
	dr := hx.NewRand(uint64(len(cj))*7919 + jc.Seed)
	for _, e := range jc.Evs {
		switch e.Op {
		case "init":
			s.doInit(e.N, e.Target)
		case "find":
			s.doFind(e.N, e.Target)
		case "deliver":
			s.doDeliver(e.I)
		case "lose":
			s.doLose(e.I)
		case "dump":
			s.doDump()
		case "relay":
			s.doRelay(e.N, e.Target, e.Path)
		case "relayfind":
			s.doRelayFind(e.N, e.Target, e.Path, e.Via)
		case "drain":
			s.drain(dr)
		}
	}
	s.drain(dr)
	s.doDump()
	// relay decisions against the tables the discoveries left behind, with the table's own first
	// choice already on the path (the case in which "not on the path" has to do something)
	nrel := 0
	for n := range net.Nodes {
		for t := range net.Nodes {
			if n == t || nrel >= 8 {
				continue
			}
			hops := net.Nodes[n].Svc.VerifTable().GetNextHop(net.Nodes[t].Overlay)
			if len(hops) == 0 {
				continue
			}
			var hi []int
			for _, h := range hops {
				hi = append(hi, net.Index(h.Bytes()))
			}
			sort.Ints(hi)
			s.doRelay(n, t, hi[:1])
			if len(hi) > 1 {
				s.doRelay(n, t, hi)
			}
			nrel++
		}
	}
	var al []string
	for i := range adj {
		var l []int
		for j := range adj {
			if adj[i][j] {
				l = append(l, j)
			}
		}
		al = append(al, nl(l))
	}
	coq := fmt.Sprintf("(CNet %d %d %s %s)", jc.Alpha, jc.MaxTTL, lst(al), lst(s.cevs))
	run.Hist(fmt.Sprintf("case.nodes=%d", jc.Nodes))
	run.HistN("steps", s.steps)
	run.AddCase(coq, jc, string(cj), s.steps >= 6)
}

func line(n int) [][2]int {
	var e [][2]int
	for i := 0; i+1 < n; i++ {
		e = append(e, [2]int{i, i + 1})
	}
	return e
}

func corpus() []jcase {
	return []jcase{
		{Name: "F-route-resp-dup: two requesters pending at one relay", Seed: 1, Nodes: 5, Edges: [][2]int{{0, 2}, {1, 2}, {2, 3}, {3, 4}}, Alpha: 2, MaxTTL: 10,
			Evs: []jev{{Op: "init", N: 0, Target: 4}, {Op: "init", N: 1, Target: 4}, {Op: "deliver", I: 0}, {Op: "deliver", I: 0}, {Op: "deliver", I: 0}, {Op: "deliver", I: 0},
				{Op: "deliver", I: 0}, {Op: "deliver", I: 0}, {Op: "deliver", I: 0}, {Op: "deliver", I: 0}, {Op: "dump"}, {Op: "drain"}, {Op: "relay", N: 0, Target: 4}, {Op: "relay", N: 2, Target: 4, Path: []int{0}}}},
		{Name: "seeded C28-1: relay at the end of a line must not bounce back (second lookup after FindRoute)", Seed: 4, Nodes: 4, Edges: line(4), Alpha: 2, MaxTTL: 10,
			Evs: []jev{{Op: "relayfind", N: 0, Target: 3, Path: []int{1}, Via: true}, {Op: "dump"}, {Op: "drain"}}},
		{Name: "seeded C28-1, direct call, branch in the middle", Seed: 5, Nodes: 5, Edges: [][2]int{{0, 1}, {1, 2}, {2, 3}, {1, 4}}, Alpha: 2, MaxTTL: 10,
			Evs: []jev{{Op: "relayfind", N: 4, Target: 3, Path: []int{0, 1}}, {Op: "dump"}, {Op: "relayfind", N: 0, Target: 3, Path: []int{1}}, {Op: "drain"}}},
		{Name: "line of 6, ttl cut", Seed: 2, Nodes: 6, Edges: line(6), Alpha: 2, MaxTTL: 3,
			Evs: []jev{{Op: "init", N: 0, Target: 5}, {Op: "drain"}, {Op: "dump"}, {Op: "init", N: 0, Target: 3}, {Op: "drain"}, {Op: "relay", N: 0, Target: 3}}},
		{Name: "ring with chord, loop back", Seed: 3, Nodes: 5, Edges: [][2]int{{0, 1}, {1, 2}, {2, 3}, {3, 4}, {0, 3}}, Alpha: 4, MaxTTL: 4,
			Evs: []jev{{Op: "init", N: 0, Target: 4}, {Op: "drain"}, {Op: "dump"}, {Op: "init", N: 1, Target: 4}, {Op: "drain"}, {Op: "find", N: 2, Target: 0}, {Op: "drain"}}},
	}
}

func genCase(r *hx.Rand) jcase {
	n := 3 + r.Intn(5)
	jc := jcase{Seed: r.U64() % 1000003, Nodes: n, Alpha: 1 + r.Intn(3), MaxTTL: r.Pick([]int{2, 3, 4, 5, 10})}
	// connected graph: random spanning tree + a few extra edges
	has := map[[2]int]bool{}
	add := func(a, b int) {
		if a == b {
			return
		}
		if a > b {
			a, b = b, a
		}
		if !has[[2]int{a, b}] {
			has[[2]int{a, b}] = true
			jc.Edges = append(jc.Edges, [2]int{a, b})
		}
	}
	for i := 1; i < n; i++ {
		add(i, r.Intn(i))
	}
	for k := r.Intn(n); k > 0; k-- {
		add(r.Intn(n), r.Intn(n))
	}
	nev := 6 + r.Intn(40)
	for i := 0; i < nev; i++ {
		switch x := r.Intn(100); {
		case x < 14:
			jc.Evs = append(jc.Evs, jev{Op: "init", N: r.Intn(n), Target: r.Intn(n)})
		case x < 17:
			jc.Evs = append(jc.Evs, jev{Op: "find", N: r.Intn(n), Target: r.Intn(n)})
		case x < 77:
			jc.Evs = append(jc.Evs, jev{Op: "deliver", I: r.Intn(64)})
		case x < 85:
			jc.Evs = append(jc.Evs, jev{Op: "lose", I: r.Intn(64)})
		case x < 90:
			jc.Evs = append(jc.Evs, jev{Op: "dump"})
		case x < 92 && jc.MaxTTL >= n:
			// the relayed request came in through one of the node's neighbours
			a := r.Intn(n)
			var nb []int
			for _, e := range jc.Edges {
				if e[0] == a {
					nb = append(nb, e[1])
				} else if e[1] == a {
					nb = append(nb, e[0])
				}
			}
			p := []int{nb[r.Intn(len(nb))]}
			if r.Bool() {
				p = append([]int{r.Intn(n)}, p...)
			}
			jc.Evs = append(jc.Evs, jev{Op: "relayfind", N: a, Target: r.Intn(n), Path: p, Via: r.Bool()})
		case x < 97:
			var p []int
			for k := r.Intn(3); k > 0; k-- {
				p = append(p, r.Intn(n))
			}
			jc.Evs = append(jc.Evs, jev{Op: "relay", N: r.Intn(n), Target: r.Intn(n), Path: p})
		default:
			jc.Evs = append(jc.Evs, jev{Op: "drain"})
		}
	}
	return jc
}

func main() {
	run := hx.Start("C28", "Aurora.C28.Corr",
		"executions of networks of 3-7 real routetab services over a controlled message soup: random connected topologies, alpha 1..3, MaxTTL 2..10, FindRoute initiations (hook and real with timeout), deliveries in random order, losses, relay next-hop decisions, drain to quiescence; non-trivial = at least 6 handler deliveries; distinct by the whole case")
	if run.Replay != "" {
		var jc jcase
		if err := run.ReadReplay(&jc); err != nil {
			panic(err)
		}
		runCase(run, jc)
		run.Finish()
		return
	}
	debug.SetGCPercent(20) // every network allocates some 40 MiB of leveldb write buffers: keep the heap small
	for _, jc := range corpus() {
		runCase(run, jc)
	}
	n := run.N(40, 600)
	for i := 0; i < n; i++ {
		runCase(run, genCase(run.R))
	}
	run.Finish()
}
