// C32 harness: pkg/accounting (Reserve / Credit / Debit / NotifyPayment / settle loop)
// against a settlement stub.
//
// Two kinds of cases:
//
//	hist  controlled interleavings: every worker goroutine (and the settle goroutine of the
//	      Accounting) parks inside the stub's settlement calls ("gates"); the harness lets exactly
//	      one goroutine run at a time, so the execution IS a list of macro steps "thread t runs to
//	      its next gate / end of operation / blocks". Observed: the status after every macro step and
//	      the complete state at the end. The Coq correspondence replays the same macro schedule on
//	      the micro-step model.
//	free  8 goroutines under the real scheduler (this is what -race looks at); programs are drawn
//	      from classes whose final observables do not depend on the interleaving.
//
// The oracle is a reference bookkeeping of the property statement (balance = credits monus
// payments in linearisation order, request iff at/above threshold, debit refused iff at/above
// tolerance and then not recorded, peer lock held wherever the unpaid balance is touched) kept by the
// scheduler from the events it sees; it does not use the Coq model.
package main

import (
	"context"
	"errors"
	"fmt"
	"io"
	"math/big"
	"os"
	"path/filepath"
	"regexp"
	"runtime"
	"sort"
	"strconv"
	"strings"
	"sync"
	"syscall"
	"time"

	"github.com/gauss-project/aurorafs/pkg/accounting"
	"github.com/gauss-project/aurorafs/pkg/boson"
	"github.com/gauss-project/aurorafs/pkg/logging"
	"github.com/gauss-project/aurorafs/pkg/settlement"
	"verifharness/hx"
)

// ---------------------------------------------------------------- case description

type jop struct {
	K string `json:"k"` // res cre deb not | avail settr fail
	P int    `json:"p"`
	T uint64 `json:"t,omitempty"` // traffic (res/cre/deb); fail kind index (fail)
	Z int64  `json:"z,omitempty"` // payment (not), value (avail, settr)
	B bool   `json:"b,omitempty"` // fail on/off
}

type jcase struct {
	Kind   string  `json:"kind"` // hist | free
	Thr    int64   `json:"thr"`
	Tol    int64   `json:"tol"`
	Retr   []int64 `json:"retr"`   // initial retrieve traffic per peer (len = number of peers)
	Transf []int64 `json:"transf"` // initial transfer traffic per peer
	Avail  int64   `json:"avail"`
	Progs  [][]jop `json:"progs"`
	Sched  []int   `json:"sched,omitempty"` // hist: chosen macro steps (0 = settle goroutine, k = thread k)
	Class  string  `json:"class,omitempty"` // free: paycount | mixed
	Note   string  `json:"note,omitempty"`
}

// program points of the model (Corr.pt_code)
const (
	ptAvail      = 5
	ptCPut       = 8
	ptDTransfer  = 11
	ptDPut       = 12
	resOk        = 0
	resLow       = 1
	resBlocked   = 2
	resErrGet    = 3
	resErrPut    = 4
	resErrAvail  = 5
	resErrTransf = 6
	resErrPutTr  = 7
	resPanic     = 8
	stNoop       = 0
	stBlk        = 1
	stPay        = 2
	stIdle       = 3
)

var failNames = []string{"FRetrieve", "FPutRetrieve", "FAvail", "FTransfer", "FPutTransfer"}

var (
	errRetrieve    = errors.New("stub: RetrieveTraffic fails")
	errPutRetrieve = errors.New("stub: PutRetrieveTraffic fails")
	errAvail       = errors.New("stub: AvailableBalance fails")
	errTransfer    = errors.New("stub: TransferTraffic fails")
	errPutTransfer = errors.New("stub: PutTransferTraffic fails")
)

func classify(err error) int {
	switch {
	case err == nil:
		return resOk
	case errors.Is(err, accounting.ErrLowAvailableExceeded):
		return resLow
	case errors.Is(err, accounting.ErrDisconnectThresholdExceeded):
		return resBlocked
	case errors.Is(err, errRetrieve):
		return resErrGet
	case errors.Is(err, errPutRetrieve):
		return resErrPut
	case errors.Is(err, errAvail):
		return resErrAvail
	case errors.Is(err, errTransfer):
		return resErrTransf
	case errors.Is(err, errPutTransfer):
		return resErrPutTr
	}
	return 99
}

func peerAddr(i int) boson.Address {
	b := make([]byte, 32)
	b[0] = byte(i + 1)
	b[31] = byte(i + 1)
	return boson.NewAddress(b)
}

func peerIndex(a boson.Address) int { return int(a.Bytes()[0]) - 1 }

func goid() uint64 {
	var buf [64]byte
	n := runtime.Stack(buf[:], false)
	f := strings.Fields(string(buf[:n]))
	id, _ := strconv.ParseUint(f[1], 10, 64)
	return id
}

// ---------------------------------------------------------------- stub settlement

type payRec struct {
	Peer int
	Amt  *big.Int
}
type putRec struct {
	Tid  int
	Peer int
	Amt  *big.Int
}

type stub struct {
	mu      sync.Mutex
	retr    []*big.Int
	transf  []*big.Int
	avail   *big.Int
	fails   [5]bool
	created []*big.Int // value handed out by the first successful RetrieveTraffic(p)
	pays    []payRec
	puts    []putRec
	w       *world // nil: free-running
	pubMu   sync.Mutex
	pub     map[*big.Int]*big.Int // every *big.Int that crossed the accounting/settlement boundary or sat in an unpaid field -> value when first seen
	pubKind map[*big.Int]string
}

// publish remembers the object x (not a copy) together with its present value.
func (s *stub) publish(x *big.Int, kind string) {
	if x == nil {
		return
	}
	s.pubMu.Lock()
	if _, ok := s.pub[x]; !ok {
		s.pub[x] = new(big.Int).Set(x)
		s.pubKind[x] = kind
	}
	s.pubMu.Unlock()
}

// mutated lists the published objects whose value is no longer the one they were published with.
// Only call while no accounting goroutine can be running.
func (s *stub) mutated() []string {
	s.pubMu.Lock()
	defer s.pubMu.Unlock()
	var out []string
	for x, v := range s.pub {
		if x.Cmp(v) != 0 {
			out = append(out, fmt.Sprintf("%s: published as %v, now %v", s.pubKind[x], v, x))
		}
	}
	sort.Strings(out)
	return out
}

func (s *stub) gate(kind, peer int) *thread {
	if s.w == nil {
		return nil
	}
	t := s.w.lookup()
	if t == nil {
		panic("settlement call from an unknown goroutine")
	}
	t.ev <- event{gate: kind, peer: peer}
	<-t.rel
	return t
}

func (s *stub) Pay(ctx context.Context, peer boson.Address, amt *big.Int) error {
	p := peerIndex(peer)
	s.publish(amt, "Pay amount (payment threshold)")
	if s.w != nil {
		s.w.settlerEv <- payRec{p, new(big.Int).Set(amt)}
		<-s.w.settlerRel
	}
	s.mu.Lock()
	s.pays = append(s.pays, payRec{p, new(big.Int).Set(amt)})
	s.mu.Unlock()
	if s.w != nil {
		s.w.settlerAck <- struct{}{}
	}
	return nil
}

func (s *stub) TransferTraffic(peer boson.Address) (*big.Int, error) {
	p := peerIndex(peer)
	t := s.gate(ptDTransfer, p)
	s.mu.Lock()
	defer s.mu.Unlock()
	if s.fails[3] {
		return nil, errTransfer
	}
	// the ledger entry itself is handed out (a settlement service may do that); the stub never
	// mutates an entry, it installs a new one
	v := s.transf[p]
	s.publish(v, "TransferTraffic result")
	if t != nil {
		t.lastTransf = new(big.Int).Set(v)
	}
	return v, nil
}

func (s *stub) RetrieveTraffic(peer boson.Address) (*big.Int, error) {
	p := peerIndex(peer)
	s.mu.Lock()
	defer s.mu.Unlock()
	if s.fails[0] {
		return nil, errRetrieve
	}
	if s.created[p] == nil {
		s.created[p] = new(big.Int).Set(s.retr[p])
	}
	s.publish(s.retr[p], "RetrieveTraffic result (settlement ledger entry)")
	return s.retr[p], nil
}

func (s *stub) PutRetrieveTraffic(peer boson.Address, traffic *big.Int) error {
	p := peerIndex(peer)
	s.gate(ptCPut, p)
	s.mu.Lock()
	defer s.mu.Unlock()
	if s.fails[1] {
		return errPutRetrieve
	}
	s.retr[p] = new(big.Int).Add(s.retr[p], traffic)
	return nil
}

func (s *stub) PutTransferTraffic(peer boson.Address, traffic *big.Int) error {
	p := peerIndex(peer)
	t := s.gate(ptDPut, p)
	s.mu.Lock()
	defer s.mu.Unlock()
	if s.fails[4] {
		return errPutTransfer
	}
	tid := 0
	if t != nil {
		tid = t.id
		t.putsThisOp++
	}
	s.puts = append(s.puts, putRec{tid, p, new(big.Int).Set(traffic)})
	s.transf[p] = new(big.Int).Add(s.transf[p], traffic)
	return nil
}

func (s *stub) AvailableBalance() (*big.Int, error) {
	s.gate(ptAvail, -1)
	s.mu.Lock()
	defer s.mu.Unlock()
	if s.fails[2] {
		return nil, errAvail
	}
	s.publish(s.avail, "AvailableBalance result")
	return s.avail, nil
}

func (s *stub) SetNotifyPaymentFunc(f settlement.NotifyPaymentFunc)   {}
func (s *stub) GetPeerBalance(peer boson.Address) (*big.Int, error)   { return big.NewInt(0), nil }
func (s *stub) GetUnPaidBalance(peer boson.Address) (*big.Int, error) { return big.NewInt(0), nil }

func newStub(jc *jcase) *stub {
	s := &stub{avail: big.NewInt(jc.Avail), pub: map[*big.Int]*big.Int{}, pubKind: map[*big.Int]string{}}
	for i := range jc.Retr {
		s.retr = append(s.retr, big.NewInt(jc.Retr[i]))
		s.transf = append(s.transf, big.NewInt(jc.Transf[i]))
		s.created = append(s.created, nil)
	}
	return s
}

func execOp(acc *accounting.Accounting, st *stub, op jop) (res int) {
	defer func() {
		if e := recover(); e != nil {
			res = resPanic
		}
	}()
	switch op.K {
	case "res":
		return classify(acc.Reserve(peerAddr(op.P), op.T))
	case "cre":
		return classify(acc.Credit(context.Background(), peerAddr(op.P), op.T))
	case "deb":
		return classify(acc.Debit(peerAddr(op.P), op.T))
	case "not":
		z := big.NewInt(op.Z)
		st.publish(z, "NotifyPayment argument")
		return classify(acc.NotifyPayment(peerAddr(op.P), z))
	case "avail":
		st.mu.Lock()
		st.avail = big.NewInt(op.Z)
		st.mu.Unlock()
	case "settr":
		st.mu.Lock()
		st.transf[op.P] = big.NewInt(op.Z)
		st.mu.Unlock()
	case "fail":
		st.mu.Lock()
		st.fails[op.T] = op.B
		st.mu.Unlock()
	}
	return resOk
}

var goName = map[string]string{"res": "Reserve", "cre": "Credit", "deb": "Debit", "not": "NotifyPayment", "avail": "env", "settr": "env", "fail": "env"}

func hasPeer(op jop) bool { return op.K == "res" || op.K == "cre" || op.K == "deb" || op.K == "not" }

// ---------------------------------------------------------------- controlled world

type event struct {
	fin  bool
	res  int
	gate int
	peer int
}

const (
	tReady = iota
	tParked
	tBlocked
	tDone
)

type thread struct {
	id          int
	prog        []jop
	next        int
	state       int
	rel         chan struct{}
	ev          chan event
	cur         jop
	gatePt      int
	holding     int // peer whose lock the thread was seen holding at a gate, -1 none
	blockedOn   int // peer lock it waits for, -1 none
	blockedChan bool
	results     []int
	lastTransf  *big.Int
	putsThisOp  int
	after       *big.Int // reference balance right after this thread's current credit
}

type world struct {
	run        *hx.Run
	jc         *jcase
	acc        *accounting.Accounting
	st         *stub
	threads    []*thread // index 0 unused
	goids      sync.Map
	settlerEv  chan payRec
	settlerRel chan struct{}
	settlerAck chan struct{}
	parked     *payRec // request the settle goroutine is parked with
	schedCoq   []string
	rowsCoq    []string             // per schedCoq entry: freshness row or None
	seenPtr    map[*big.Int]bool    // field objects seen at earlier observations
	immBad     bool
	chosen     []int
	ref        []*big.Int // reference unpaid balance per peer (nil: no accountingPeer yet)
	expReq     []payRec   // requests the property demands, in order
	thr, tol   *big.Int
	short      time.Duration
	long       time.Duration
	broken     bool
	reqDue     bool // the operation that just finished must have produced a payment request
	capacity   int
}

func (w *world) lookup() *thread {
	if v, ok := w.goids.Load(goid()); ok {
		return v.(*thread)
	}
	return nil
}

func (w *world) violate(sig, detail string) {
	w.run.Violate(hx.Violation{Sig: sig, Detail: detail, Case: w.jc})
}

func (w *world) lockHeld(p int) bool {
	held, _ := w.acc.VerifPeerLockHeld(peerAddr(p))
	return held
}

func (w *world) record(who int, status int) {
	ws := "Settler"
	if who > 0 {
		ws = fmt.Sprintf("W %d%%N", who)
	}
	w.schedCoq = append(w.schedCoq, fmt.Sprintf("(%s, %d%%N)", ws, status))
	w.rowsCoq = append(w.rowsCoq, "None")
}

// observe is called when nothing is running: pointer freshness of every observable unpaid field (attached to
// the last recorded macro step) and immutability of everything published so far.
func (w *world) observe() {
	var row []string
	for p := range w.ref {
		if w.lockHeld(p) {
			row = append(row, "None")
			continue
		}
		x, ok := w.acc.VerifUnpaidPtr(peerAddr(p))
		if !ok {
			row = append(row, "None")
			continue
		}
		w.st.publish(x, fmt.Sprintf("unPaidTraffic of peer %d", p))
		if w.seenPtr[x] {
			row = append(row, "(Some false)")
		} else {
			w.seenPtr[x] = true
			row = append(row, "(Some true)")
		}
	}
	if n := len(w.rowsCoq); n > 0 && w.rowsCoq[n-1] == "None" {
		w.rowsCoq[n-1] = "(Some " + hx.CoqList(row, "option bool") + ")"
	}
	w.run.OracleChecked(1)
	if bad := w.st.mutated(); len(bad) > 0 && !w.immBad {
		w.immBad = true
		w.violate("immutability:published-bigint-mutated", "a *big.Int that was handed across the accounting/settlement boundary or stored in an unpaid field changed its value afterwards: "+strings.Join(bad, "; "))
	}
}

// await waits for the next event of t and turns it into a status code.
func (w *world) await(t *thread, mayBlock bool) int {
	d := w.long
	if mayBlock {
		d = w.short
	}
	select {
	case e := <-t.ev:
		t.blockedOn, t.blockedChan = -1, false
		if e.fin {
			t.results = append(t.results, e.res)
			w.onFinished(t, e.res)
			if t.next >= len(t.prog) {
				t.state = tDone
			} else {
				t.state = tReady
			}
			return 100 + e.res
		}
		t.state = tParked
		t.gatePt = e.gate
		w.onGate(t, e)
		return 200 + e.gate
	case <-time.After(d):
		if mayBlock {
			t.state = tBlocked
			return stBlk
		}
		w.broken = true
		w.violate("hang:"+goName[t.cur.K], fmt.Sprintf("thread %d made no progress in %v on %+v with nothing holding it", t.id, d, t.cur))
		return stBlk
	}
}

// ---- the oracle's bookkeeping

func (w *world) syncCreated() {
	w.st.mu.Lock()
	for p, c := range w.st.created {
		if c != nil && w.ref[p] == nil {
			w.ref[p] = new(big.Int).Set(c)
		}
	}
	w.st.mu.Unlock()
}

func (w *world) onGate(t *thread, e event) {
	w.syncCreated()
	if e.gate == ptCPut || e.gate == ptDTransfer || e.gate == ptDPut {
		// inside the region of the operation: the peer lock must be held
		w.run.OracleChecked(1)
		if !w.lockHeld(e.peer) {
			w.violate("lock:not-held-in-"+goName[t.cur.K]+"-region", fmt.Sprintf("thread %d is inside %s(peer %d) at gate %d and the peer lock is free", t.id, t.cur.K, e.peer, e.gate))
		}
		t.holding = e.peer
	}
	if e.gate == ptCPut && w.ref[e.peer] != nil {
		// linearisation point of the credit has passed: unPaidTraffic was updated before PutRetrieveTraffic
		w.ref[e.peer] = new(big.Int).Add(w.ref[e.peer], new(big.Int).SetUint64(t.cur.T))
		t.after = new(big.Int).Set(w.ref[e.peer])
	}
}

func (w *world) onFinished(t *thread, res int) {
	w.syncCreated()
	op := t.cur
	switch op.K {
	case "not":
		if res == resOk && w.ref[op.P] != nil {
			u := w.ref[op.P]
			z := big.NewInt(op.Z)
			if u.Sign() > 0 {
				if u.Cmp(z) < 0 {
					w.ref[op.P] = big.NewInt(0)
				} else {
					w.ref[op.P] = new(big.Int).Sub(u, z)
				}
			}
		}
	case "cre":
		w.run.OracleChecked(1)
		if res == resOk {
			if t.after == nil {
				w.violate("credit:returned-without-recording", fmt.Sprintf("Credit(%d,%d) returned nil without calling PutRetrieveTraffic", op.P, op.T))
			} else if t.after.Cmp(w.thr) >= 0 {
				w.expReq = append(w.expReq, payRec{op.P, w.thr})
				w.reqDue = true
			}
		}
		t.after = nil
	case "deb":
		w.run.OracleChecked(1)
		switch res {
		case resBlocked:
			if t.lastTransf == nil || t.lastTransf.Cmp(w.tol) < 0 {
				w.violate("debit:refused-below-tolerance", fmt.Sprintf("Debit(%d,%d) refused although unsettled served traffic %v < tolerance %v", op.P, op.T, t.lastTransf, w.tol))
			}
			if t.putsThisOp != 0 {
				w.violate("debit:refused-but-recorded", fmt.Sprintf("Debit(%d,%d) was refused and still called PutTransferTraffic", op.P, op.T))
			}
		case resOk:
			if t.lastTransf == nil || t.lastTransf.Cmp(w.tol) >= 0 {
				w.violate("debit:served-at-or-above-tolerance", fmt.Sprintf("Debit(%d,%d) served although unsettled served traffic %v >= tolerance %v", op.P, op.T, t.lastTransf, w.tol))
			}
			if t.putsThisOp != 1 {
				w.violate("debit:served-not-recorded-once", fmt.Sprintf("Debit(%d,%d) returned nil with %d PutTransferTraffic calls", op.P, op.T, t.putsThisOp))
			}
		default:
			if t.putsThisOp != 0 && res != resErrPutTr {
				w.violate("debit:failed-but-recorded", fmt.Sprintf("Debit(%d,%d) failed (%d) after recording", op.P, op.T, res))
			}
		}
	}
}

// after a macro step: balances of all peers whose lock is free, request count
func (w *world) checkQuiescent() {
	w.syncCreated()
	for p := range w.ref {
		if w.lockHeld(p) {
			continue
		}
		v, ok := w.acc.VerifUnpaid(peerAddr(p))
		w.run.OracleChecked(1)
		if ok != (w.ref[p] != nil) {
			w.violate("balance:peer-existence", fmt.Sprintf("peer %d: accountingPeer exists=%v, reference says %v", p, ok, w.ref[p] != nil))
			continue
		}
		if !ok {
			continue
		}
		if v.Sign() < 0 && w.jc.Retr[p] >= 0 {
			w.violate("balance:negative", fmt.Sprintf("peer %d unpaid = %v", p, v))
		}
		if v.Cmp(w.ref[p]) != 0 {
			w.violate("balance:unpaid!=credits-monus-payments", fmt.Sprintf("peer %d unpaid = %v, credits monus payments in linearisation order = %v", p, v, w.ref[p]))
		}
	}
	w.st.mu.Lock()
	n := len(w.st.pays)
	w.st.mu.Unlock()
	if w.parked != nil {
		n++
	}
	n += w.acc.VerifPayChanLen()
	w.run.OracleChecked(1)
	if n < len(w.expReq) {
		w.violate("payment:not-requested", fmt.Sprintf("%d payment requests seen, %d credits left the balance at/above the threshold", n, len(w.expReq)))
	} else if n > len(w.expReq) {
		w.violate("payment:spurious-request", fmt.Sprintf("%d payment requests seen, only %d credits left the balance at/above the threshold", n, len(w.expReq)))
	}
}

// settlerPoll notices the settle goroutine arriving in settlement.Pay on its own.
func (w *world) settlerPoll(expect bool) {
	if w.parked != nil {
		return
	}
	if expect {
		select {
		case r := <-w.settlerEv:
			w.parked = &r
			w.record(0, stPay)
		case <-time.After(w.long):
			// reported by checkQuiescent as payment:not-requested
		}
		return
	}
	select {
	case r := <-w.settlerEv:
		w.parked = &r
		w.record(0, stPay)
	default:
	}
}

func (w *world) wake(pred func(*thread) bool) {
	for _, b := range w.threads[1:] {
		if b.state == tBlocked && pred(b) {
			st := w.await(b, false)
			w.record(b.id, st)
			w.after(b, st)
			return
		}
	}
}

// bookkeeping common to every worker macro step
func (w *world) after(t *thread, st int) {
	if st >= 100 && st < 200 {
		// a request is due iff the reference says this credit left the balance at/above the threshold
		expect := w.reqDue
		w.reqDue = false
		w.settlerPoll(expect)
		if h := t.holding; h >= 0 {
			t.holding = -1
			w.wake(func(b *thread) bool { return b.blockedOn == h })
		}
	}
}

func (w *world) goThread(t *thread) {
	mayBlock, lockWait := false, false
	switch t.state {
	case tReady:
		t.cur = t.prog[t.next]
		t.next++
		t.lastTransf, t.putsThisOp, t.after, t.holding = nil, 0, nil, -1
		if hasPeer(t.cur) && w.lockHeld(t.cur.P) {
			mayBlock, lockWait = true, true
		}
	case tParked:
		if t.cur.K == "cre" && t.gatePt == ptCPut && w.acc.VerifPayChanLen() >= w.capacity {
			mayBlock = true
		}
	default:
		return
	}
	t.rel <- struct{}{}
	st := w.await(t, mayBlock)
	w.record(t.id, st)
	if lockWait {
		w.run.OracleChecked(1)
		if st != stBlk {
			w.violate("lock:"+goName[t.cur.K]+"-ran-while-peer-lock-held", fmt.Sprintf("thread %d got through %s(peer %d) (status %d) while another goroutine was parked holding that peer's lock", t.id, t.cur.K, t.cur.P, st))
		}
	}
	if st == stBlk {
		if lockWait {
			t.blockedOn = t.cur.P
		} else {
			t.blockedChan = true
		}
	}
	w.after(t, st)
}

func (w *world) goSettler() {
	if w.parked == nil {
		return
	}
	l := w.acc.VerifPayChanLen()
	w.parked = nil
	w.settlerRel <- struct{}{}
	<-w.settlerAck
	if l > 0 {
		select {
		case r := <-w.settlerEv:
			w.parked = &r
			w.record(0, stPay)
		case <-time.After(w.long):
			w.broken = true
			w.violate("hang:settle", "settle goroutine did not pick up a queued request")
			w.record(0, stIdle)
		}
		w.wake(func(b *thread) bool { return b.blockedChan })
	} else {
		w.record(0, stIdle)
	}
}

// eligible: may be chosen as the next macro step
func (w *world) eligible(t *thread) bool {
	switch t.state {
	case tParked:
		return true
	case tReady:
		op := t.prog[t.next]
		if hasPeer(op) && w.lockHeld(op.P) {
			for _, b := range w.threads[1:] {
				if b.state == tBlocked && b.blockedOn == op.P {
					return false // never two waiters on one lock: the wake-up order would not be determined
				}
			}
		}
		return true
	}
	return false
}

func (w *world) eligibles() []int {
	var out []int
	if w.parked != nil {
		out = append(out, 0)
	}
	for _, t := range w.threads[1:] {
		if w.eligible(t) {
			out = append(out, t.id)
		}
	}
	return out
}

func opCoq(o jop) string {
	switch o.K {
	case "res":
		return hx.CoqApp("OReserve", hx.CoqN(uint64(o.P)), hx.CoqN(o.T))
	case "cre":
		return hx.CoqApp("OCredit", hx.CoqN(uint64(o.P)), hx.CoqN(o.T))
	case "deb":
		return hx.CoqApp("ODebit", hx.CoqN(uint64(o.P)), hx.CoqN(o.T))
	case "not":
		return hx.CoqApp("ONotify", hx.CoqN(uint64(o.P)), hx.CoqZ(o.Z))
	case "avail":
		return "(OEnv (ESetAvail " + hx.CoqZ(o.Z) + "))"
	case "settr":
		return "(OEnv (ESetTransfer " + hx.CoqN(uint64(o.P)) + " " + hx.CoqZ(o.Z) + "))"
	case "fail":
		return "(OEnv (ESetFail " + failNames[o.T] + " " + hx.CoqBool(o.B) + "))"
	}
	panic("bad op " + o.K)
}

func progsCoq(ps [][]jop) string {
	var l []string
	for _, p := range ps {
		var e []string
		for _, o := range p {
			e = append(e, opCoq(o))
		}
		l = append(l, hx.CoqList(e, "op"))
	}
	return hx.CoqList(l, "list op")
}

func assocCoq(v []int64) string {
	var e []string
	for i, x := range v {
		e = append(e, hx.CoqPair(hx.CoqN(uint64(i)), hx.CoqZ(x)))
	}
	return hx.CoqList(e, "N * Z")
}

func bigCoq(v *big.Int) string {
	if v.Sign() < 0 {
		return "(" + v.String() + ")%Z"
	}
	return v.String() + "%Z"
}

func bigsCoq(vs []*big.Int) string {
	var e []string
	for _, v := range vs {
		e = append(e, bigCoq(v))
	}
	return hx.CoqList(e, "Z")
}

func payCoq(r payRec) string { return hx.CoqPair(hx.CoqN(uint64(r.Peer)), bigCoq(r.Amt)) }

var raceMode = false

// runHist executes one controlled history. policy==nil: follow jc.Sched then finish deterministically.
func runHist(run *hx.Run, jc *jcase, r *hx.Rand) {
	np := len(jc.Retr)
	w := &world{run: run, jc: jc, st: newStub(jc), settlerEv: make(chan payRec), settlerRel: make(chan struct{}),
		settlerAck: make(chan struct{}), seenPtr: map[*big.Int]bool{}, ref: make([]*big.Int, np), thr: big.NewInt(jc.Thr), tol: big.NewInt(jc.Tol),
		short: 40 * time.Millisecond, long: 20 * time.Second}
	if raceMode {
		w.short = 200 * time.Millisecond
	}
	w.st.w = w
	w.acc = accounting.NewAccounting(w.tol, w.thr, logging.New(io.Discard, 0), nil, w.st)
	w.capacity = w.acc.VerifPayChanCap()
	w.threads = []*thread{nil}
	for i, p := range jc.Progs {
		t := &thread{id: i + 1, prog: p, rel: make(chan struct{}), ev: make(chan event, 1), holding: -1, blockedOn: -1}
		if len(p) == 0 {
			t.state = tDone
		}
		w.threads = append(w.threads, t)
		started := make(chan struct{})
		go func(t *thread) {
			w.goids.Store(goid(), t)
			close(started)
			for _, op := range t.prog {
				<-t.rel
				res := execOp(w.acc, w.st, op)
				t.ev <- event{fin: true, res: res}
			}
		}(t)
		<-started
	}
	do := func(who int) bool {
		if who == 0 {
			if w.parked == nil {
				return false
			}
			w.chosen = append(w.chosen, 0)
			w.goSettler()
		} else {
			if who >= len(w.threads) || !w.eligible(w.threads[who]) {
				return false
			}
			w.chosen = append(w.chosen, who)
			w.goThread(w.threads[who])
		}
		w.checkQuiescent()
		w.observe()
		return true
	}
	if r == nil {
		for _, who := range jc.Sched {
			if w.broken {
				break
			}
			do(who)
		}
	}
	for !w.broken {
		el := w.eligibles()
		if len(el) == 0 {
			break
		}
		who := el[0]
		if r != nil {
			// prefer workers; release the settle goroutine now and then so that requests queue up behind it
			who = el[r.Intn(len(el))]
			if who == 0 && len(el) > 1 && !r.Chance(1, 3) {
				who = el[1+r.Intn(len(el)-1)]
			}
		} else if who == 0 && len(el) > 1 {
			who = el[1]
		}
		do(who)
	}
	if w.broken {
		return
	}
	// late arrivals (a request nobody asked for)
	time.Sleep(2 * time.Millisecond)
	w.settlerPoll(false)
	for w.parked != nil {
		w.chosen = append(w.chosen, 0)
		w.goSettler()
	}
	w.checkQuiescent()
	w.observe()
	for _, t := range w.threads[1:] {
		if t.state != tDone {
			w.violate("hang:blocked-at-end", fmt.Sprintf("thread %d still blocked in %+v when everything else has finished", t.id, t.cur))
			return
		}
	}
	// the requests served, in order, are exactly the ones the property demands
	w.st.mu.Lock()
	pays := append([]payRec{}, w.st.pays...)
	w.st.mu.Unlock()
	run.OracleChecked(1)
	bad := len(pays) != len(w.expReq)
	for i := 0; !bad && i < len(pays); i++ {
		bad = pays[i].Peer != w.expReq[i].Peer || pays[i].Amt.Cmp(w.expReq[i].Amt) != 0
	}
	if bad {
		w.violate("payment:pay-calls!=credits-at-or-above-threshold", fmt.Sprintf("Pay calls %v, demanded %v", fmtPays(pays), fmtPays(w.expReq)))
	}

	// ---- observation for the correspondence
	jc.Sched = w.chosen
	var unp, locked []string
	for p := 0; p < np; p++ {
		v, ok := w.acc.VerifUnpaid(peerAddr(p))
		if ok {
			unp = append(unp, hx.CoqSome(bigCoq(v)))
		} else {
			unp = append(unp, "None")
		}
		locked = append(locked, hx.CoqBool(w.lockHeld(p)))
	}
	var ps []string
	for _, p := range pays {
		ps = append(ps, payCoq(p))
	}
	var rs []string
	for _, t := range w.threads[1:] {
		var e []string
		for _, x := range t.results {
			e = append(e, hx.CoqN(uint64(x)))
		}
		rs = append(rs, hx.CoqList(e, "N"))
	}
	fin := hx.CoqApp("Build_final", hx.CoqList(unp, "option Z"), hx.CoqList(locked, "bool"), bigsCoq(w.st.retr), bigsCoq(w.st.transf),
		hx.CoqList(ps, "N * Z"), "None", hx.CoqNat(w.acc.VerifPayChanLen()), hx.CoqList(rs, "list N"))
	coq := hx.CoqApp("CHist", hx.CoqZ(jc.Thr), hx.CoqZ(jc.Tol), hx.CoqNat(w.capacity), assocCoq(jc.Retr), assocCoq(jc.Transf), hx.CoqZ(jc.Avail),
		progsCoq(jc.Progs), hx.CoqList(w.schedCoq, "who * N"), fin, hx.CoqList(w.rowsCoq, "option (list (option bool))"))
	nblk := 0
	for _, s := range w.schedCoq {
		if strings.HasSuffix(s, ", 1%N)") {
			nblk++
		}
	}
	nt := len(jc.Progs) >= 2
	run.AddCase(coq, jc, fmt.Sprintf("hist|%v", *jc), nt)
	run.Hist(fmt.Sprintf("hist.threads=%d", len(jc.Progs)))
	run.HistN("hist.macro-steps", len(w.schedCoq))
	run.HistN("hist.blocked-on-lock", nblk)
	run.HistN("hist.requests", len(pays))
	for _, t := range w.threads[1:] {
		for i, x := range t.results {
			run.Hist(fmt.Sprintf("op.%s.res=%d", t.prog[i].K, x))
		}
	}
}

func fmtPays(p []payRec) string {
	var s []string
	for _, x := range p {
		s = append(s, fmt.Sprintf("(%d,%v)", x.Peer, x.Amt))
	}
	return "[" + strings.Join(s, " ") + "]"
}

// ---------------------------------------------------------------- free-running cases

func runFree(run *hx.Run, jc *jcase, addCoq bool) {
	np := len(jc.Retr)
	st := newStub(jc)
	acc := accounting.NewAccounting(big.NewInt(jc.Tol), big.NewInt(jc.Thr), logging.New(io.Discard, 0), nil, st)
	results := make([][]int, len(jc.Progs))
	var wg sync.WaitGroup
	startc := make(chan struct{})
	for i, p := range jc.Progs {
		wg.Add(1)
		go func(i int, p []jop) {
			defer wg.Done()
			<-startc
			for _, op := range p {
				results[i] = append(results[i], execOp(acc, st, op))
			}
		}(i, p)
	}
	close(startc)
	if !hx.WithTimeout(60*time.Second, wg.Wait) {
		run.Violate(hx.Violation{Sig: "hang:free-running", Detail: "goroutines did not finish in 60 s", Case: jc})
		return
	}
	// what the property demands, independent of the interleaving for these classes
	thr, tol := big.NewInt(jc.Thr), big.NewInt(jc.Tol)
	sumCr := make([]*big.Int, np)
	sumPay := make([]*big.Int, np)
	nCr := make([]int, np)
	crAmt := make([]uint64, np)
	nDeb := make([]int, np)
	debAmt := make([]uint64, np)
	touched := make([]bool, np)
	for p := 0; p < np; p++ {
		sumCr[p], sumPay[p] = new(big.Int), new(big.Int)
	}
	for _, pr := range jc.Progs {
		for _, o := range pr {
			if hasPeer(o) {
				touched[o.P] = true
			}
			switch o.K {
			case "cre":
				sumCr[o.P].Add(sumCr[o.P], new(big.Int).SetUint64(o.T))
				nCr[o.P]++
				crAmt[o.P] = o.T
			case "not":
				sumPay[o.P].Add(sumPay[o.P], big.NewInt(o.Z))
			case "deb":
				nDeb[o.P]++
				debAmt[o.P] = o.T
			}
		}
	}
	wantPays := make([]int, np)
	total := 0
	for p := 0; p < np; p++ {
		if jc.Class == "paycount" {
			b := big.NewInt(jc.Retr[p])
			for k := 0; k < nCr[p]; k++ {
				b.Add(b, new(big.Int).SetUint64(crAmt[p]))
				if b.Cmp(thr) >= 0 {
					wantPays[p]++
				}
			}
		}
		total += wantPays[p]
	}
	deadline := time.Now().Add(20 * time.Second)
	for {
		st.mu.Lock()
		n := len(st.pays)
		st.mu.Unlock()
		if n >= total || time.Now().After(deadline) {
			break
		}
		time.Sleep(200 * time.Microsecond)
	}
	time.Sleep(3 * time.Millisecond)
	st.mu.Lock()
	pays := append([]payRec{}, st.pays...)
	st.mu.Unlock()
	gotPays := make([]int, np)
	for _, x := range pays {
		gotPays[x.Peer]++
		if x.Amt.Cmp(thr) != 0 {
			run.Violate(hx.Violation{Sig: "payment:wrong-amount", Detail: fmt.Sprintf("Pay(%d, %v), threshold %v", x.Peer, x.Amt, thr), Case: jc})
		}
	}
	var unp []string
	for p := 0; p < np; p++ {
		v, ok := acc.VerifUnpaid(peerAddr(p))
		run.OracleChecked(3)
		if ok != touched[p] {
			run.Violate(hx.Violation{Sig: "balance:peer-existence", Detail: fmt.Sprintf("peer %d exists=%v touched=%v", p, ok, touched[p]), Case: jc})
		}
		if !ok {
			unp = append(unp, "None")
			continue
		}
		unp = append(unp, hx.CoqSome(bigCoq(v)))
		want := new(big.Int).Add(big.NewInt(jc.Retr[p]), sumCr[p])
		want.Sub(want, sumPay[p])
		if v.Sign() < 0 {
			run.Violate(hx.Violation{Sig: "balance:negative", Detail: fmt.Sprintf("peer %d unpaid = %v", p, v), Case: jc})
		}
		if v.Cmp(want) != 0 {
			run.Violate(hx.Violation{Sig: "balance:unpaid!=credits-monus-payments", Detail: fmt.Sprintf("free-running: peer %d unpaid = %v, credits minus payments = %v (no payment can hit zero in this class)", p, v, want), Case: jc, Impl: v.String(), Want: want.String()})
		}
		if gotPays[p] < wantPays[p] {
			run.Violate(hx.Violation{Sig: "payment:not-requested", Detail: fmt.Sprintf("free-running: peer %d: %d Pay calls, %d credits left the balance at/above the threshold", p, gotPays[p], wantPays[p]), Case: jc})
		} else if gotPays[p] > wantPays[p] {
			run.Violate(hx.Violation{Sig: "payment:spurious-request", Detail: fmt.Sprintf("free-running: peer %d: %d Pay calls, %d credits left the balance at/above the threshold", p, gotPays[p], wantPays[p]), Case: jc})
		}
		// debits: uniform amount d per peer; the check-and-record is atomic under the peer lock, so exactly
		// the first ceil((tol-init)/d) are served
		if nDeb[p] > 0 {
			served, refused := 0, 0
			for i, pr := range jc.Progs {
				for k, o := range pr {
					if o.K == "deb" && o.P == p {
						switch results[i][k] {
						case resOk:
							served++
						case resBlocked:
							refused++
						}
					}
				}
			}
			wantServed := 0
			b := big.NewInt(jc.Transf[p])
			for k := 0; k < nDeb[p] && b.Cmp(tol) < 0; k++ {
				b.Add(b, new(big.Int).SetUint64(debAmt[p]))
				wantServed++
			}
			run.OracleChecked(2)
			if served > wantServed {
				run.Violate(hx.Violation{Sig: "debit:served-at-or-above-tolerance", Detail: fmt.Sprintf("free-running: peer %d: %d debits served, only %d start below the tolerance", p, served, wantServed), Case: jc})
			} else if served < wantServed || served+refused != nDeb[p] {
				run.Violate(hx.Violation{Sig: "debit:refused-below-tolerance", Detail: fmt.Sprintf("free-running: peer %d: %d served %d refused of %d, %d start below the tolerance", p, served, refused, nDeb[p], wantServed), Case: jc})
			}
			if st.transf[p].Cmp(b) != 0 {
				run.Violate(hx.Violation{Sig: "debit:recorded-traffic-wrong", Detail: fmt.Sprintf("free-running: peer %d transfer traffic %v, want %v", p, st.transf[p], b), Case: jc})
			}
		}
	}
	// reserves: must succeed when available >= max possible balance + t, must fail when available < min possible + t
	for i, pr := range jc.Progs {
		for k, o := range pr {
			if o.K != "res" {
				continue
			}
			lo := new(big.Int).Sub(big.NewInt(jc.Retr[o.P]), sumPay[o.P])
			hi := new(big.Int).Add(big.NewInt(jc.Retr[o.P]), sumCr[o.P])
			t := new(big.Int).SetUint64(o.T)
			av := big.NewInt(jc.Avail)
			run.OracleChecked(1)
			if av.Cmp(new(big.Int).Add(hi, t)) >= 0 && results[i][k] != resOk {
				run.Violate(hx.Violation{Sig: "reserve:refused-with-enough-balance", Detail: fmt.Sprintf("Reserve(%d,%d) = %d", o.P, o.T, results[i][k]), Case: jc})
			}
			if av.Cmp(new(big.Int).Add(lo, t)) < 0 && results[i][k] != resLow {
				run.Violate(hx.Violation{Sig: "reserve:granted-beyond-balance", Detail: fmt.Sprintf("Reserve(%d,%d) = %d", o.P, o.T, results[i][k]), Case: jc})
			}
		}
	}
	for p := 0; p < np; p++ {
		if x, ok := acc.VerifUnpaidPtr(peerAddr(p)); ok {
			st.publish(x, fmt.Sprintf("unPaidTraffic of peer %d", p))
		}
	}
	run.OracleChecked(1)
	if bad := st.mutated(); len(bad) > 0 {
		run.Violate(hx.Violation{Sig: "immutability:published-bigint-mutated", Detail: "free-running: a *big.Int handed across the accounting/settlement boundary changed its value afterwards: " + strings.Join(bad, "; "), Case: jc})
	}
	var pc []uint64
	for p := 0; p < np; p++ {
		pc = append(pc, uint64(gotPays[p]))
	}
	coq := ""
	if addCoq {
		coq = hx.CoqApp("CFree", hx.CoqZ(jc.Thr), hx.CoqZ(jc.Tol), assocCoq(jc.Retr), assocCoq(jc.Transf), hx.CoqZ(jc.Avail),
			progsCoq(jc.Progs), hx.CoqList(unp, "option Z"), bigsCoq(st.retr), hx.CoqNList(pc))
	}
	run.AddCase(coq, jc, fmt.Sprintf("free|%v", *jc), true)
	run.Hist("free." + jc.Class)
	run.HistN("free.ops", countOps(jc))
}

func countOps(jc *jcase) int {
	n := 0
	for _, p := range jc.Progs {
		n += len(p)
	}
	return n
}

// ---------------------------------------------------------------- generators

var amounts = []uint64{0, 1, 1, 2, 3, 5, 7, 10, 256, 256, 1 << 32, 1<<63 - 1, 1 << 63, 1<<64 - 1}

func genHist(r *hx.Rand) *jcase {
	np := 1 + r.Intn(3)
	jc := &jcase{Kind: "hist"}
	jc.Thr = int64(r.Pick([]int{0, 1, 5, 10, 20, 50, 300, 1 << 40}))
	jc.Tol = int64(r.Pick([]int{0, 1, 8, 10, 30, 600, 1 << 40}))
	for i := 0; i < np; i++ {
		jc.Retr = append(jc.Retr, int64(r.Pick([]int{0, 0, 0, 3, 9, 17, 100})))
		jc.Transf = append(jc.Transf, int64(r.Pick([]int{0, 0, 2, 9, 29})))
	}
	jc.Avail = int64(r.Pick([]int{0, 5, 12, 40, 100, 1000, 1 << 50}))
	small := r.Chance(4, 5) // mostly small amounts so that thresholds are crossed and payments hit zero
	nt := 1 + r.Intn(4)
	hot := r.Intn(np) // most operations go to one peer, so that goroutines really contend
	for i := 0; i < nt; i++ {
		var p []jop
		for k := 0; k < 1+r.Intn(5); k++ {
			peer := hot
			if r.Chance(1, 4) {
				peer = r.Intn(np)
			}
			amt := uint64(r.Intn(12))
			if !small {
				amt = amounts[r.Intn(len(amounts))]
			}
			switch x := r.Intn(20); {
			case x < 6:
				p = append(p, jop{K: "cre", P: peer, T: amt})
			case x < 9:
				p = append(p, jop{K: "res", P: peer, T: amt})
			case x < 12:
				p = append(p, jop{K: "deb", P: peer, T: amt})
			case x < 16:
				z := int64(r.Intn(15))
				switch r.Intn(8) {
				case 0:
					z = -int64(r.Intn(5))
				case 1:
					z = 1 << 62
				}
				p = append(p, jop{K: "not", P: peer, Z: z})
			case x < 17:
				p = append(p, jop{K: "avail", Z: int64(r.Pick([]int{0, 3, 11, 60, 1 << 50}))})
			case x < 18:
				p = append(p, jop{K: "settr", P: peer, Z: int64(r.Pick([]int{0, 1, 7, 9, 31}))})
			default:
				p = append(p, jop{K: "fail", T: uint64(r.Intn(5)), B: r.Chance(2, 3)})
			}
		}
		jc.Progs = append(jc.Progs, p)
	}
	return jc
}

func genFree(r *hx.Rand, ops int) *jcase {
	np := 1 + r.Intn(2)
	jc := &jcase{Kind: "free"}
	jc.Class = []string{"paycount", "mixed"}[r.Intn(2)]
	g := 8
	cr := make([]uint64, np)
	db := make([]uint64, np)
	budget := make([]int64, np)
	for p := 0; p < np; p++ {
		cr[p] = uint64(1 + r.Intn(9))
		db[p] = uint64(1 + r.Intn(9))
		jc.Transf = append(jc.Transf, int64(r.Intn(5)))
		if jc.Class == "mixed" {
			budget[p] = int64(200 + r.Intn(2000))
			jc.Retr = append(jc.Retr, budget[p])
		} else {
			jc.Retr = append(jc.Retr, int64(r.Intn(20)))
		}
	}
	if jc.Class == "mixed" {
		jc.Thr = 1 << 60
	} else {
		jc.Thr = int64(r.Intn(g * ops * 5))
	}
	jc.Tol = int64(r.Intn(g*ops*3 + 1))
	jc.Avail = int64(r.Pick([]int{0, 50, 1 << 50}))
	for i := 0; i < g; i++ {
		var p []jop
		for k := 0; k < ops; k++ {
			peer := r.Intn(np)
			switch x := r.Intn(10); {
			case x < 4:
				amt := cr[peer]
				if jc.Class == "mixed" {
					amt = uint64(r.Intn(30))
				}
				p = append(p, jop{K: "cre", P: peer, T: amt})
			case x < 6:
				p = append(p, jop{K: "res", P: peer, T: uint64(r.Intn(40))})
			case x < 8:
				p = append(p, jop{K: "deb", P: peer, T: db[peer]})
			default:
				if jc.Class == "mixed" {
					z := int64(r.Intn(12))
					if z > budget[peer] {
						z = 0
					}
					budget[peer] -= z
					p = append(p, jop{K: "not", P: peer, Z: z})
				} else {
					p = append(p, jop{K: "res", P: peer, T: uint64(r.Intn(40))})
				}
			}
		}
		jc.Progs = append(jc.Progs, p)
	}
	return jc
}

// corpus: fixed cases that run on every seed
func corpus() []*jcase {
	c := func(peer int, t uint64) jop { return jop{K: "cre", P: peer, T: t} }
	return []*jcase{
		// F-reserve-race witness: Credit parked inside its region, Reserve on the same peer must wait for the lock
		{Kind: "hist", Thr: 100, Tol: 100, Retr: []int64{0}, Transf: []int64{0}, Avail: 4, Note: "F-reserve-race: Reserve || Credit",
			Progs: [][]jop{{c(0, 5)}, {{K: "res", P: 0, T: 1}}}, Sched: []int{1, 2, 1, 2}},
		// NotifyPayment and a second Credit wait behind a Credit; payment hits zero; threshold crossed twice
		{Kind: "hist", Thr: 5, Tol: 100, Retr: []int64{0}, Transf: []int64{0}, Avail: 100, Note: "lost-update guard",
			Progs: [][]jop{{c(0, 5), c(0, 1)}, {{K: "not", P: 0, Z: 7}, c(0, 6)}, {c(0, 2)}}, Sched: []int{1, 2, 1, 3, 1, 0, 2, 3, 0, 0}},
		// Debit check-then-record is atomic under the lock: second Debit waits and is refused
		{Kind: "hist", Thr: 100, Tol: 10, Retr: []int64{0}, Transf: []int64{9}, Avail: 100, Note: "debit tolerance",
			Progs: [][]jop{{{K: "deb", P: 0, T: 3}}, {{K: "deb", P: 0, T: 3}}}, Sched: []int{1, 2, 1, 1}},
		// failing PutRetrieveTraffic: the in-memory balance keeps the credit, no request is made
		{Kind: "hist", Thr: 3, Tol: 10, Retr: []int64{0}, Transf: []int64{0}, Avail: 100, Note: "failed settlement call",
			Progs: [][]jop{{{K: "fail", T: 1, B: true}, c(0, 5), {K: "fail", T: 1, B: false}, c(0, 1)}}, Sched: nil},
		// negative and zero payments, payment on a zero balance
		{Kind: "hist", Thr: 1000, Tol: 10, Retr: []int64{0}, Transf: []int64{0}, Avail: 100, Note: "odd payments",
			Progs: [][]jop{{{K: "not", P: 0, Z: 5}, c(0, 4), {K: "not", P: 0, Z: -3}, {K: "not", P: 0, Z: 0}, {K: "not", P: 0, Z: 7}, {K: "not", P: 0, Z: 1}}}},
		// requests queue up behind a parked settle goroutine and are served in order
		{Kind: "hist", Thr: 1, Tol: 10, Retr: []int64{0, 0}, Transf: []int64{0, 0}, Avail: 100, Note: "fifo",
			Progs: [][]jop{{c(0, 1), c(1, 1), c(0, 1)}, {c(1, 2)}}, Sched: []int{1, 1, 1, 1, 2, 2, 1, 1, 0, 0, 0, 0}},
	}
}

// capacity scenario: the settle goroutine parked, the channel filled, the next Credit blocks holding the lock
func capCase(capacity int) *jcase {
	jc := &jcase{Kind: "hist", Thr: 1, Tol: 10, Retr: []int64{0}, Transf: []int64{0}, Avail: 100, Note: "channel capacity"}
	var p []jop
	for i := 0; i < capacity+2; i++ {
		p = append(p, jop{K: "cre", P: 0, T: 1})
	}
	jc.Progs = [][]jop{p, {{K: "not", P: 0, Z: 1}}}
	for i := 0; i < 2*(capacity+2); i++ {
		jc.Sched = append(jc.Sched, 1)
	}
	jc.Sched = append(jc.Sched, 2, 0)
	return jc
}

// ---------------------------------------------------------------- race log (binary built with -race)

var accFn = regexp.MustCompile(`pkg/accounting\.\(\*Accounting\)\.(\w+)`)

func raceReports(prefix string) map[string]string {
	out := map[string]string{}
	files, _ := filepath.Glob(prefix + ".*")
	for _, f := range files {
		b, err := os.ReadFile(f)
		if err != nil {
			continue
		}
		for _, blk := range strings.Split(string(b), "==================") {
			if !strings.Contains(blk, "DATA RACE") {
				continue
			}
			set := map[string]bool{}
			for _, m := range accFn.FindAllStringSubmatch(blk, -1) {
				set[m[1]] = true
			}
			var names []string
			for n := range set {
				names = append(names, n)
			}
			sort.Strings(names)
			sig := "race:harness-or-runtime"
			if len(names) > 0 {
				sig = "race:accounting:" + strings.Join(names, "+")
			}
			if _, ok := out[sig]; !ok {
				if len(blk) > 1500 {
					blk = blk[:1500]
				}
				out[sig] = blk
			}
		}
	}
	return out
}


func main() {
	racePrefix := ""
	if raceEnabled {
		raceMode = true
		outDir := "."
		for i, a := range os.Args {
			if (a == "--out" || a == "-out") && i+1 < len(os.Args) {
				outDir = os.Args[i+1]
			}
		}
		racePrefix = outDir + "/racelog"
		if os.Getenv("C32_RACE_CHILD") == "" {
			os.MkdirAll(outDir, 0o755)
			env := append(os.Environ(), "C32_RACE_CHILD=1", "GORACE=log_path="+racePrefix+" halt_on_error=0 exitcode=0")
			if err := syscall.Exec(os.Args[0], os.Args, env); err != nil {
				panic(err)
			}
		}
	}
	run := hx.Start("C32", "Aurora.C32.Corr",
		"hist: 1-4 goroutines x 1-5 operations (Credit/Reserve/Debit/NotifyPayment + settlement-side changes) on 1-3 peers, mostly one hot peer, small amounts around the thresholds plus uint64 extremes; the interleaving is chosen step by step from the seed among the goroutines that can move (parked in a settlement call / about to start / settle loop); free: 8 goroutines under the Go scheduler on order-independent program classes. non-trivial = at least two goroutines; distinct by (configuration, programs, schedule)")
	run.SetExtra("race_detector", raceEnabled)

	if run.Replay != "" {
		var jc jcase
		if err := run.ReadReplay(&jc); err != nil {
			panic(err)
		}
		if jc.Kind == "free" {
			runFree(run, &jc, true)
		} else {
			runHist(run, &jc, nil)
		}
		finishRace(run, racePrefix)
		run.Finish()
		return
	}

	for _, jc := range corpus() {
		runHist(run, jc, nil)
	}
	{
		// capacity of the request channel as the implementation reports it
		probe := accounting.NewAccounting(big.NewInt(1), big.NewInt(1), logging.New(io.Discard, 0), nil, newStub(&jcase{Retr: []int64{0}, Transf: []int64{0}}))
		if c := probe.VerifPayChanCap(); c <= 1200 {
			runHist(run, capCase(c), nil)
		} else {
			run.Note(fmt.Sprintf("payChan capacity %d: capacity scenario skipped", c))
		}
	}
	rh := run.R.Fork(1)
	for i := 0; i < run.N(110, 1200); i++ {
		runHist(run, genHist(rh), rh)
	}
	rf := run.R.Fork(2)
	for i := 0; i < run.N(12, 60); i++ {
		runFree(run, genFree(rf, 12), true)
	}
	// longer free runs (no Coq term): contention for the oracle and for the race detector
	for i := 0; i < run.N(6, 40); i++ {
		runFree(run, genFree(rf, run.N(150, 400)), false)
	}
	finishRace(run, racePrefix)
	run.Finish()
}

func finishRace(run *hx.Run, prefix string) {
	if prefix == "" {
		return
	}
	reps := raceReports(prefix)
	run.OracleChecked(1)
	sigs := []string{}
	for sig, blk := range reps {
		sigs = append(sigs, sig)
		run.Violate(hx.Violation{Sig: sig, Detail: "Go race detector report:\n" + blk, Case: nil})
	}
	sort.Strings(sigs)
	run.SetExtra("race_reports", sigs)
}
