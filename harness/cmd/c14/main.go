// C14 harness: the local store across crashes at any storage write.
//
// A history of puts (all modes), gets, pins, unpins, removals and collection
// runs is executed on a real localstore.DB whose storage driver is the
// fault-injecting driver of harness/crashx (registered through the exported
// registry, shed.Register("verifcrash", ...); it wraps the repository's own
// goleveldb driver on goleveldb's in-memory storage, or on files for a share
// of the histories). For a TARGET operation the driver-level write groups
// (direct Put / Delete, batch Commit) are counted: n. For every k = 0..n the
// history is replayed on a fresh store, the first k groups of the target
// reach the storage, everything after is refused (the process stopped), then
// localstore.New is run again on the same storage and all indexes are dumped
// through the verif hook.
//
//   - correspondence (Aurora.C14.Corr): the store before the target, the
//     number of groups, and the dump after crash+reopen at EVERY k are
//     compared with the model inside Coq;
//   - oracle (independent of the model, on the dumps only), for every k:
//     (1) every chunk's record (data entry, access entry, gc keys, pinned or
//         not) is the one of before or of after the interrupted call, and for
//         a call that commits once the whole store (chunk records and bin ids)
//         is that of before or that of after — nothing in between;
//     (2) every pin counter equals its value before or after the call;
//     (3) gcSize >= the recomputed total of the GCounter values.
//
// quick: crash points of the last operation (and two more) of every history;
// thorough: of every operation. goleveldb's own atomicity and recovery are
// trusted (an in-memory store is "reopened" on the same open goleveldb handle).
package main

import (
	"bytes"
	"encoding/hex"
	"fmt"
	"io"
	"os"
	"runtime/pprof"
	"sort"
	"strings"

	"github.com/gauss-project/aurorafs/pkg/localstore"
	"github.com/gauss-project/aurorafs/pkg/logging"
	"verifharness/crashx"
	"verifharness/hx"
	"verifharness/lsx"
)

// ---------------------------------------------------------------- case

type Case struct {
	Hist    *lsx.Hist `json:"hist,omitempty"`
	Targets []int     `json:"targets,omitempty"`
	Big     int       `json:"big,omitempty"` // > 0: the big-operation history over this many chunks (generator descriptor, see bigHist)
}

func unhex(s string) []byte { b, _ := hex.DecodeString(s); return b }

// ---------------------------------------------------------------- Coq rendering of dumps (Aurora.C11.Corr.cdump)

type parts struct{ data, access, gc, pin, bins string }
type renderer struct {
	idx  map[string]int
	prev parts
	have bool
}

func newRenderer(h *lsx.Hist) *renderer {
	r := &renderer{idx: map[string]int{}}
	for i, u := range h.Univ {
		r.idx[string(unhex(u))] = i
	}
	return r
}
func (r *renderer) ai(b []byte) string {
	if i, ok := r.idx[string(b)]; ok {
		return fmt.Sprint(i)
	}
	return "99999"
}
func nl(xs []uint64) string {
	if len(xs) == 0 {
		return "E"
	}
	var sb strings.Builder
	for _, x := range xs {
		fmt.Fprintf(&sb, "(C %d ", x)
	}
	sb.WriteString("E")
	sb.WriteString(strings.Repeat(")", len(xs)))
	return sb.String()
}
func nlBytes(b []byte) string {
	xs := make([]uint64, len(b))
	for i, x := range b {
		xs[i] = uint64(x)
	}
	return nl(xs)
}
func rowsOf(rows []string) string {
	if len(rows) == 0 {
		return "RE"
	}
	var sb strings.Builder
	for _, r := range rows {
		sb.WriteString("(" + r + " ")
	}
	sb.WriteString("RE")
	sb.WriteString(strings.Repeat(")", len(rows)))
	return sb.String()
}
func (r *renderer) dump(d localstore.VerifDump) string {
	var p parts
	var rs []string
	for _, e := range d.Data {
		rs = append(rs, fmt.Sprintf("RD %s %d %d %s", r.ai(e.Address), e.BinID, uint64(e.StoreTimestamp), nlBytes(e.Data)))
	}
	p.data = rowsOf(rs)
	rs = nil
	for _, e := range d.Access {
		rs = append(rs, fmt.Sprintf("R2 %s %d", r.ai(e.Address), uint64(e.AccessTimestamp)))
	}
	p.access = rowsOf(rs)
	rs = nil
	for _, e := range d.GC {
		rs = append(rs, fmt.Sprintf("R4 %d %d %s %d", uint64(e.AccessTimestamp), e.BinID, r.ai(e.Address), e.GCounter))
	}
	p.gc = rowsOf(rs)
	rs = nil
	for _, e := range d.Pin {
		rs = append(rs, fmt.Sprintf("R2 %s %d", r.ai(e.Address), e.PinCounter))
	}
	p.pin = rowsOf(rs)
	rs = nil
	for _, e := range d.BinIDs {
		rs = append(rs, fmt.Sprintf("R2 %d %d", e.PO, e.ID))
	}
	p.bins = rowsOf(rs)
	f := func(cur, prev string) string {
		if r.have && cur == prev {
			return "Same"
		}
		return "(Now " + cur + ")"
	}
	out := fmt.Sprintf("(D %s %s %s %s %s %d false E)", f(p.data, r.prev.data), f(p.access, r.prev.access),
		f(p.gc, r.prev.gc), f(p.pin, r.prev.pin), f(p.bins, r.prev.bins), d.GCSize)
	r.prev, r.have = p, true
	return out
}

// firstGroup returns the first balanced parenthesised group of s.
func firstGroup(s string) string {
	depth := 0
	for i, c := range s {
		switch c {
		case '(':
			depth++
		case ')':
			depth--
			if depth == 0 {
				return s[:i+1]
			}
		}
	}
	return s
}
func copsOf(steps []string) string {
	var sb strings.Builder
	for _, s := range steps {
		sb.WriteString("(OC " + firstGroup(s) + " ")
	}
	sb.WriteString("OE")
	sb.WriteString(strings.Repeat(")", len(steps)))
	return sb.String()
}

// ---------------------------------------------------------------- crash machinery

type opRun struct {
	cops   string
	pre    localstore.VerifDump
	sub    []lsx.StepInfo // recorded sub-steps (one; several for a collection run)
	n      int            // write groups of the operation
	groups []crashx.Group
}

func mustDump(db *localstore.DB) localstore.VerifDump {
	d, err := db.VerifDump()
	if err != nil {
		panic(err)
	}
	return d
}

// fullRun executes the whole history once, without faults, and records per
// operation the Coq operations, the dump before, the dumps after every
// sub-step and the number of write groups.
func fullRun(h *lsx.Hist) []opRun {
	st, err := lsx.Open(h)
	if err != nil {
		panic(err)
	}
	defer st.Close()
	out := make([]opRun, len(h.Ops))
	for i, op := range h.Ops {
		var r opRun
		r.pre = mustDump(st.DB)
		m, mt := len(st.Steps), len(st.Trace)
		core := crashx.Last()
		core.Arm(-1)
		st.Exec(op, false)
		if crashx.Last() == core {
			r.n = core.Count()
			r.groups = core.Log
		}
		r.cops = copsOf(st.Steps[m:])
		r.sub = append([]lsx.StepInfo{}, st.Trace[mt:]...)
		out[i] = r
	}
	return out
}

// crashRun replays ops[0..i-1], lets k write groups of ops[i] through, refuses
// the rest, reopens the store on the same storage and returns the dump.
func crashRun(h *lsx.Hist, i, k int) (d localstore.VerifDump, applied int, crashed bool) {
	st, err := lsx.Open(h)
	if err != nil {
		panic(err)
	}
	for j := 0; j < i; j++ {
		st.Exec(h.Ops[j], false)
	}
	core := crashx.Last()
	core.Arm(k)
	st.Exec(h.Ops[i], false)
	applied, crashed = core.Count(), core.Crashed()
	core.Arm(-1)
	// the process is gone: nothing of the old DB object survives but the storage
	_ = st.DB.Close()
	st.DB = nil
	if !core.Persistent() {
		crashx.Reuse(core)
	}
	db, err := localstore.New(core.Path, unhex(h.Base), &localstore.Options{Capacity: h.Cap, Driver: "verifcrash:" + core.Config}, logging.New(io.Discard, 0))
	if err != nil {
		panic(err)
	}
	db.VerifStopGCWorker()
	d = mustDump(db)
	_ = db.Close()
	if !core.Persistent() {
		core.Destroy()
	}
	st.Close()
	return d, applied, crashed
}

// ---------------------------------------------------------------- oracle (dumps only)

type chunkRec struct {
	data, access, gckeys string
	pinned             bool
}

func addrsOf(ds ...localstore.VerifDump) [][]byte {
	seen := map[string]bool{}
	var out [][]byte
	add := func(a []byte) {
		if !seen[string(a)] {
			seen[string(a)] = true
			out = append(out, a)
		}
	}
	for _, d := range ds {
		for _, e := range d.Data {
			add(e.Address)
		}
		for _, e := range d.Access {
			add(e.Address)
		}
		for _, e := range d.GC {
			add(e.Address)
		}
		for _, e := range d.Pin {
			add(e.Address)
		}
	}
	return out
}

func recOf(d localstore.VerifDump, a []byte) chunkRec {
	var r chunkRec
	for _, e := range d.Data {
		if bytes.Equal(e.Address, a) {
			r.data = fmt.Sprintf("%d/%d/%x", e.BinID, e.StoreTimestamp, e.Data)
		}
	}
	for _, e := range d.Access {
		if bytes.Equal(e.Address, a) {
			r.access = fmt.Sprint(e.AccessTimestamp)
		}
	}
	var ks []string
	for _, e := range d.GC {
		if bytes.Equal(e.Address, a) {
			ks = append(ks, fmt.Sprintf("%d/%d", e.AccessTimestamp, e.BinID))
		}
	}
	sort.Strings(ks)
	r.gckeys = strings.Join(ks, ",")
	for _, e := range d.Pin {
		if bytes.Equal(e.Address, a) {
			r.pinned = true
		}
	}
	return r
}

func pinOf(d localstore.VerifDump, a []byte) int64 {
	for _, e := range d.Pin {
		if bytes.Equal(e.Address, a) {
			return int64(e.PinCounter)
		}
	}
	return -1 // not pinned
}

// shape is the whole store without the counter VALUES: chunk records and bin ids.
func shape(d localstore.VerifDump) string {
	var sb strings.Builder
	for _, e := range d.Data {
		fmt.Fprintf(&sb, "d%x:%d/%d/%x;", e.Address, e.BinID, e.StoreTimestamp, e.Data)
	}
	for _, e := range d.Access {
		fmt.Fprintf(&sb, "a%x:%d;", e.Address, e.AccessTimestamp)
	}
	for _, e := range d.GC {
		fmt.Fprintf(&sb, "g%d/%d/%x;", e.AccessTimestamp, e.BinID, e.Address)
	}
	for _, e := range d.Pin {
		fmt.Fprintf(&sb, "p%x;", e.Address)
	}
	for _, e := range d.BinIDs {
		fmt.Fprintf(&sb, "b%d:%d;", e.PO, e.ID)
	}
	return sb.String()
}

func clip(v interface{}) interface{} {
	if s, ok := v.(string); ok && len(s) > 400 {
		return s[:400] + "..."
	}
	return v
}

func opClass(op lsx.Op) string {
	switch op.K {
	case "put", "set", "get", "getmulti":
		return fmt.Sprintf("%s-mode%d", op.K, op.Mode)
	}
	return op.K
}

func oracle(run *hx.Run, c *Case, i, k int, op lsx.Op, pre localstore.VerifDump, sub []lsx.StepInfo, rec localstore.VerifDump) {
	class := opClass(op)
	viol := func(sig, detail string, impl, want interface{}) {
		run.Violate(hx.Violation{Sig: sig, Detail: fmt.Sprintf("op %d (%s) crash after %d write group(s): %s", i, class, k, detail),
			Case: &Case{Hist: c.Hist, Targets: []int{i}, Big: c.Big}, Impl: clip(impl), Want: want})
	}
	allowed := []localstore.VerifDump{pre}
	for _, s := range sub {
		allowed = append(allowed, s.Dump)
	}
	// (3) counter at least the recomputed total
	run.OracleChecked(1)
	if sum := lsx.GCSum(rec); rec.GCSize < sum {
		viol("counter:below-recomputed-total:"+class, "gcSize after reopen is below the total of the GCounter values", rec.GCSize, sum)
	}
	// (2) pin counters: value before or after
	all := append([]localstore.VerifDump{rec}, allowed...)
	for _, a := range addrsOf(all...) {
		got := pinOf(rec, a)
		ok := false
		var want []int64
		for _, d := range allowed {
			w := pinOf(d, a)
			want = append(want, w)
			if w == got {
				ok = true
			}
		}
		run.OracleChecked(1)
		if !ok {
			viol("pins:neither-before-nor-after:"+class, fmt.Sprintf("pin counter of %x (-1 = not pinned)", a), got, want)
			break
		}
	}
	// (1) every chunk fully as before or fully as after
	for _, a := range addrsOf(all...) {
		got := recOf(rec, a)
		ok := false
		for _, d := range allowed {
			if recOf(d, a) == got {
				ok = true
			}
		}
		run.OracleChecked(1)
		if !ok {
			viol("chunks:torn-record:"+class, fmt.Sprintf("chunk %x is neither as before nor as after the call", a), fmt.Sprintf("%+v", got), "record of before or after")
			break
		}
	}
	// a call that commits once: the whole store is that of before or of after
	if op.K != "getmulti" {
		got := shape(rec)
		ok := false
		for _, d := range allowed {
			if shape(d) == got {
				ok = true
			}
		}
		run.OracleChecked(1)
		if !ok {
			viol("chunks:mixed-before-after:"+class, "the recovered store mixes chunks of before and of after the call", got, "store of before or after")
		}
	}
}

// ---------------------------------------------------------------- one case

func process(run *hx.Run, c *Case) {
	h := c.Hist
	var full []opRun
	if p, msg := hx.Guard(func() { full = fullRun(h) }); p {
		run.Violate(hx.Violation{Sig: "harness:panic-in-full-run", Detail: msg, Case: c})
		return
	}
	if len(c.Targets) == 0 {
		// quick tier: the last operation, the operation with the most write groups, and one more with a write
		last := len(h.Ops) - 1
		c.Targets = []int{last}
		best, other := -1, -1
		for i := 0; i < last; i++ {
			if h.Ops[i].K == "reopen" || full[i].n == 0 {
				continue
			}
			if best < 0 || full[i].n > full[best].n {
				best = i
			}
			if (i*7+len(h.Ops))%3 == 0 {
				other = i
			}
		}
		for _, t := range []int{best, other} {
			if t >= 0 && t != c.Targets[0] && (len(c.Targets) < 2 || t != c.Targets[1]) {
				c.Targets = append(c.Targets, t)
			}
		}
		sort.Ints(c.Targets)
	}
	tset := map[int]bool{}
	for _, t := range c.Targets {
		if t >= 0 && t < len(h.Ops) && h.Ops[t].K != "reopen" {
			tset[t] = true
		}
	}
	rd := newRenderer(h)
	var sb strings.Builder
	sb.WriteString("(CCrash " + nlBytes(unhex(h.Base)) + fmt.Sprintf(" %d ", h.Cap))
	for _, u := range h.Univ {
		sb.WriteString("(UC " + nlBytes(unhex(u)) + " ")
	}
	sb.WriteString("UE" + strings.Repeat(")", len(h.Univ)) + "\n")
	nontrivial := false
	nsteps := 0
	for i, op := range h.Ops {
		r := full[i]
		if r.cops == "OE" { // an operation lsx skipped (reopen of an in-memory store)
			continue
		}
		nsteps++
		if !tset[i] {
			sb.WriteString("  (TC " + r.cops + " NoCrash\n")
			continue
		}
		run.Hist("target." + opClass(op))
		run.Hist(fmt.Sprintf("target.groups=%d", min(r.n, 6)))
		if r.n >= 2 {
			nontrivial = true
			run.Hist("target.with-direct-writes." + op.K)
		}
		var ds []string
		pre := rd.dump(r.pre)
		for k := 0; k <= r.n; k++ {
			var d localstore.VerifDump
			var applied int
			var crashed bool
			if p, msg := hx.Guard(func() { d, applied, crashed = crashRun(h, i, k) }); p {
				run.Violate(hx.Violation{Sig: "harness:panic-in-crash-run", Detail: fmt.Sprintf("op %d k %d: %s", i, k, msg), Case: c})
				return
			}
			if applied != k || crashed != (k < r.n) {
				run.Violate(hx.Violation{Sig: "harness:write-count-not-reproducible", Detail: fmt.Sprintf("op %d: %d groups in the full run; replay with limit %d applied %d (refused some: %v)", i, r.n, k, applied, crashed), Case: c})
				return
			}
			run.Hist("crash-points")
			oracle(run, c, i, k, op, r.pre, r.sub, d)
			ds = append(ds, rd.dump(d))
		}
		sb.WriteString("  (TC " + r.cops + " (Crash " + pre + " ")
		for _, d := range ds {
			sb.WriteString("(DC " + d + " ")
		}
		sb.WriteString("DE" + strings.Repeat(")", len(ds)) + ")\n")
	}
	sb.WriteString("  TE" + strings.Repeat(")", nsteps) + ")%N")
	run.AddCase(sb.String(), c, fmt.Sprintf("%s|%v", h.Key(), c.Targets), nontrivial)
}

func min(a, b int) int {
	if a < b {
		return a
	}
	return b
}

// ---------------------------------------------------------------- big operations

// bigHist is the history Aurora.C14.Corr.big_hist n describes: n chunks with
// addresses 01 hi lo 09: pinned upload of all in ONE call, one Set(ModeSetSync)
// of all, the first two pinned once more, one Set(ModeSetRemove) of all — single
// calls whose write batch holds thousands of index operations (3n for the
// removal). One batch must still be ONE driver write.
func bigHist(n int) *lsx.Hist {
	h := &lsx.Hist{Kind: fmt.Sprintf("big-%d", n), Base: "00000000", Cap: 1000000, Twin: -1}
	all := make([]int, n)
	put := lsx.Op{K: "put", T: 10, Mode: 2, Root: -1}
	for i := 0; i < n; i++ {
		h.Univ = append(h.Univ, fmt.Sprintf("01%02x%02x09", i/256, i%256))
		all[i] = i
		put.Chs = append(put.Chs, lsx.Ch{A: i, D: fmt.Sprintf("%02x", i%256)})
	}
	h.Ops = []lsx.Op{put,
		{K: "set", T: 20, Mode: 0, Root: -1, Addrs: all},
		{K: "set", T: 30, Mode: 2, Root: -1, Addrs: []int{0, 1}},
		{K: "set", T: 40, Mode: 1, Root: -1, Addrs: all}}
	return h
}

func summary(d localstore.VerifDump) []uint64 {
	var pins uint64
	for _, e := range d.Pin {
		pins += e.PinCounter
	}
	return []uint64{uint64(len(d.Data)), uint64(len(d.Access)), uint64(len(d.GC)), uint64(len(d.Pin)), d.GCSize, pins, lsx.GCSum(d)}
}

// processBig: every operation of the big history is a target; every driver
// write of it is a crash point. The Coq case carries the descriptor, the
// number of driver writes per operation and a 7-number summary per crash
// point; the oracle works on the full dumps.
func processBig(run *hx.Run, n int) {
	c := &Case{Big: n}
	h := bigHist(n)
	oc := c // violations carry the descriptor, not n addresses
	var full []opRun
	if p, msg := hx.Guard(func() { full = fullRun(h) }); p {
		run.Violate(hx.Violation{Sig: "harness:panic-in-full-run", Detail: msg, Case: c})
		return
	}
	var sb strings.Builder
	fmt.Fprintf(&sb, "(CBig %d ", n)
	for i, op := range h.Ops {
		r := full[i]
		run.Hist("big.target." + opClass(op))
		run.Hist(fmt.Sprintf("big.driver-writes=%d", min(r.n, 6)))
		var nums []uint64
		for k := 0; k <= r.n; k++ {
			var d localstore.VerifDump
			var applied int
			var crashed bool
			if p, msg := hx.Guard(func() { d, applied, crashed = crashRun(h, i, k) }); p {
				run.Violate(hx.Violation{Sig: "harness:panic-in-crash-run", Detail: fmt.Sprintf("big op %d k %d: %s", i, k, msg), Case: c})
				return
			}
			if applied != k || crashed != (k < r.n) {
				run.Violate(hx.Violation{Sig: "harness:write-count-not-reproducible", Detail: fmt.Sprintf("big op %d: %d driver writes in the full run; replay with limit %d applied %d", i, r.n, k, applied), Case: c})
				return
			}
			run.Hist("crash-points")
			oracle(run, oc, i, k, op, r.pre, r.sub, d)
			nums = append(nums, summary(d)...)
		}
		fmt.Fprintf(&sb, "(GO %d %s ", r.n, nl(nums))
	}
	sb.WriteString("GE" + strings.Repeat(")", len(h.Ops)) + ")%N")
	run.AddCase(sb.String(), c, fmt.Sprintf("big|%d", n), true)
}

// ---------------------------------------------------------------- corpus

func put1(t int64, mode, root, a int, d string) lsx.Op {
	return lsx.Op{K: "put", T: t, Mode: mode, Root: root, Chs: []lsx.Ch{{A: a, D: d}}}
}
func set1(t int64, mode, root, a int) lsx.Op {
	return lsx.Op{K: "set", T: t, Mode: mode, Root: root, Addrs: []int{a}}
}
func cat(l ...[]lsx.Op) []lsx.Op {
	var o []lsx.Op
	for _, x := range l {
		o = append(o, x...)
	}
	return o
}

func corpus() []*Case {
	u := []string{"a10000aa", "a10000bb", "210000cc", "a18000dd", "a14000ee", "e10000ff"}
	base := "a1ffffff"
	// file A: root 0, chunks 2 3; file B: root 1, chunks 2 4 (chunk 2 is shared)
	cacheA := []lsx.Op{put1(10, 0, 0, 0, "01"), put1(11, 0, 0, 2, "02"), put1(12, 0, 0, 3, "03")}
	cacheB := []lsx.Op{put1(13, 0, 1, 1, "04"), put1(14, 0, 1, 2, "02"), put1(15, 0, 1, 4, "05")}
	pyrAB := []lsx.Pyr{{Root: 0, Chunks: []lsx.PyrEnt{{A: 2, N: 1}, {A: 3, N: 1}}}, {Root: 1, Chunks: []lsx.PyrEnt{{A: 2, N: 1}, {A: 4, N: 1}}}}
	last := func(ops []lsx.Op) []int { return []int{len(ops) - 1} }
	mk := func(kind string, capacity uint64, ops []lsx.Op, targets []int) *Case {
		return &Case{Hist: &lsx.Hist{Kind: kind, Base: base, Cap: capacity, Univ: u, Twin: -1, Ops: ops}, Targets: targets}
	}
	var cs []*Case
	// KNOWN FINDING: a chunk pinned three times is part of two evicted files: the run writes its pin counter
	// directly, once per file (3 -> 2 -> 1); a crash between the two writes leaves 2: neither before nor after
	ops := cat(cacheA, cacheB, []lsx.Op{set1(20, 2, -1, 2), set1(21, 2, -1, 2), set1(22, 2, -1, 2), {K: "gc", Root: -1, Pyr: pyrAB}})
	cs = append(cs, mk("corpus-gc-shared-pinned-chunk", 2, ops, last(ops)))
	// the same chunk pinned twice: direct write 2 -> 1, then deleted with the batch
	ops = cat(cacheA, cacheB, []lsx.Op{set1(20, 2, -1, 2), set1(21, 2, -1, 2), {K: "gc", Root: -1, Pyr: pyrAB}})
	cs = append(cs, mk("corpus-gc-shared-pinned-then-deleted", 2, ops, last(ops)))
	// a collection run with one direct pin write (chunk of one file only): before/after holds
	ops = cat(cacheA, cacheB, []lsx.Op{set1(20, 2, -1, 3), set1(21, 2, -1, 3), {K: "gc", Root: -1, Pyr: pyrAB}})
	cs = append(cs, mk("corpus-gc-one-direct-write", 2, ops, last(ops)))
	// pin a cached 3-chunk file in one call: two direct GCounter writes (3 -> 2 -> 1), entry deleted with the batch
	ops = cat(cacheA, []lsx.Op{{K: "set", T: 20, Mode: 2, Root: 0, Addrs: []int{0, 2, 3}}})
	cs = append(cs, mk("corpus-setpin-file", 100, ops, last(ops)))
	// request-pin put of two new chunks under the context of a cached file
	ops = cat(cacheA, []lsx.Op{{K: "put", T: 20, Mode: 3, Root: 0, Chs: []lsx.Ch{{A: 4, D: "07"}, {A: 5, D: "08"}}}})
	cs = append(cs, mk("corpus-put-requestpin-batch", 100, ops, last(ops)))
	// pinned upload of present and new chunks under a context
	ops = cat(cacheA, []lsx.Op{{K: "put", T: 20, Mode: 2, Root: 0, Chs: []lsx.Ch{{A: 2, D: "02"}, {A: 5, D: "08"}}}})
	cs = append(cs, mk("corpus-put-uploadpin-context", 100, ops, last(ops)))
	// a failing batched pin: the direct write is all that reaches the storage
	ops = cat(cacheA, []lsx.Op{{K: "set", T: 20, Mode: 2, Root: 0, Addrs: []int{2, 5}}})
	cs = append(cs, mk("corpus-setpin-abort", 100, ops, last(ops)))
	// removal of a cached root without a file context: its gc entry stays behind (no crash needed:
	// theorem C14_chunks_clause_refuted_without_crash); the crash points themselves are atomic
	ops = []lsx.Op{put1(10, 0, 0, 0, "01"), set1(11, 1, -1, 0), put1(12, 0, 0, 0, "01")}
	cs = append(cs, mk("corpus-remove-cached-root", 100, ops, []int{1, 2}))
	// every operation of a small history with unpin, removal, access and a collection with an access at the iterator hook
	ops = cat(cacheA, cacheB, []lsx.Op{
		set1(20, 2, 0, 2), set1(21, 3, 0, 2), set1(22, 1, 1, 4),
		{K: "get", T: 23, Mode: 0, Root: 0, A: 0},
		{K: "getmulti", T: 24, Mode: 0, Root: -1, Addrs: []int{0, 1}},
		set1(25, 0, -1, 3),
		{K: "gc", Root: -1, Pyr: pyrAB, Inner: []lsx.Op{{K: "get", T: 30, Mode: 0, Root: 1, A: 1}, set1(31, 2, 0, 0)}},
		{K: "gc", Root: -1, Pyr: pyrAB},
	})
	all := []int{}
	for i := range ops {
		all = append(all, i)
	}
	cs = append(cs, mk("corpus-every-op", 3, ops, all))
	return cs
}

// ---------------------------------------------------------------- generator

// crashy operations: calls that perform direct writes before their batch
func crashyOp(g *lsx.Gen, t *int64) lsx.Op {
	r := g.R
	f := g.Files[r.Intn(len(g.Files))]
	all := append([]int{f.Root}, f.Chunks...)
	*t += 1 + int64(r.Intn(3))
	pyr := func() []lsx.Pyr {
		var ps []lsx.Pyr
		for _, ff := range g.Files {
			if r.Chance(1, 10) {
				continue
			}
			cnt := map[int]int{}
			var order []int
			for _, c := range ff.Chunks {
				if cnt[c] == 0 {
					order = append(order, c)
				}
				cnt[c]++
			}
			p := lsx.Pyr{Root: ff.Root}
			for _, c := range order {
				p.Chunks = append(p.Chunks, lsx.PyrEnt{A: c, N: cnt[c]})
			}
			ps = append(ps, p)
		}
		return ps
	}
	switch x := r.Intn(100); {
	case x < 25: // pin (part of) a cached file in one call
		k := 1 + r.Intn(len(all))
		return lsx.Op{K: "set", T: *t, Mode: 2, Root: f.Root, Addrs: append([]int{}, all[:k]...)}
	case x < 35: // request-pin put of the file under its context
		op := lsx.Op{K: "put", T: *t, Mode: 3, Root: f.Root}
		for _, c := range all {
			op.Chs = append(op.Chs, lsx.Ch{A: c, D: fmt.Sprintf("%02x", c+1)})
		}
		return op
	case x < 45: // pinned upload under a context
		op := lsx.Op{K: "put", T: *t, Mode: 2, Root: f.Root}
		for _, c := range all[:1+r.Intn(len(all))] {
			op.Chs = append(op.Chs, lsx.Ch{A: c, D: fmt.Sprintf("%02x", c+1)})
		}
		return op
	case x < 55: // unpin / remove several
		return lsx.Op{K: "set", T: *t, Mode: r.Pick([]int{1, 3, 3}), Root: r.Pick([]int{f.Root, -1}), Addrs: append([]int{}, all[:1+r.Intn(len(all))]...)}
	case x < 70: // pin one chunk without context (raises its counter above the pyramid number)
		return lsx.Op{K: "set", T: *t, Mode: 2, Root: -1, Addrs: []int{f.Chunks[r.Intn(len(f.Chunks))]}}
	default: // collection run
		op := lsx.Op{K: "gc", Root: -1, Pyr: pyr()}
		if r.Chance(1, 3) {
			ff := g.Files[r.Intn(len(g.Files))]
			*t++
			switch r.Intn(3) {
			case 0:
				op.Inner = append(op.Inner, lsx.Op{K: "get", T: *t, Mode: 0, Root: ff.Root, A: ff.Root})
			case 1:
				op.Inner = append(op.Inner, lsx.Op{K: "set", T: *t, Mode: 2, Root: ff.Root, Addrs: append([]int{ff.Root}, ff.Chunks...)})
			default:
				c := ff.Chunks[r.Intn(len(ff.Chunks))]
				op.Inner = append(op.Inner, lsx.Op{K: "put", T: *t, Mode: 0, Root: ff.Root, Chs: []lsx.Ch{{A: c, D: fmt.Sprintf("%02x", c+1)}}})
			}
		}
		return op
	}
}

// scenario: two or three cached files with shared chunks, some chunks pinned
// one to four times (with or without the file context), then collection runs
// over a pyramid table with numbers 1..2 — the runs perform direct pin writes.
func scenario(r *hx.Rand, thorough bool) *Case {
	base := r.Bytes(4)
	var univ []string
	have := map[string]bool{}
	for len(univ) < 8 {
		a := r.Bytes(4)
		if r.Bool() {
			a[0] = base[0]
		}
		if !have[string(a)] {
			have[string(a)] = true
			univ = append(univ, hx.Hex(a))
		}
	}
	nf := 2 + r.Intn(2)
	type file struct {
		root   int
		chunks []int
	}
	var files []file
	for f := 0; f < nf; f++ {
		fl := file{root: f}
		seen := map[int]bool{}
		for k := 0; k < 1+r.Intn(3); k++ {
			c := 3 + r.Intn(3) // small range: files share chunks
			if r.Chance(1, 3) {
				c = 3 + r.Intn(5)
			}
			if !seen[c] {
				seen[c] = true
				fl.chunks = append(fl.chunks, c)
			}
		}
		files = append(files, fl)
	}
	h := &lsx.Hist{Kind: "scenario", Base: hx.Hex(base), Cap: uint64(2 + r.Intn(3)), Disk: r.Chance(1, 12), Univ: univ, Twin: -1}
	t := int64(10)
	for _, f := range files {
		for _, c := range append([]int{f.root}, f.chunks...) {
			t += 1 + int64(r.Intn(2))
			h.Ops = append(h.Ops, lsx.Op{K: "put", T: t, Mode: 0, Root: f.root, Chs: []lsx.Ch{{A: c, D: fmt.Sprintf("%02x", c)}}})
		}
	}
	pyr := func() []lsx.Pyr {
		var ps []lsx.Pyr
		for _, f := range files {
			if r.Chance(1, 10) {
				continue
			}
			p := lsx.Pyr{Root: f.root}
			for _, c := range f.chunks {
				p.Chunks = append(p.Chunks, lsx.PyrEnt{A: c, N: 1 + r.Intn(2)})
			}
			if r.Chance(1, 8) && len(f.chunks) > 0 { // the same chunk twice in one pyramid
				p.Chunks = append(p.Chunks, lsx.PyrEnt{A: f.chunks[0], N: 1})
			}
			ps = append(ps, p)
		}
		return ps
	}
	for n := 0; n < 2+r.Intn(6); n++ {
		f := files[r.Intn(len(files))]
		c := f.chunks[r.Intn(len(f.chunks))]
		if r.Chance(1, 6) {
			c = f.root
		}
		root := -1
		if r.Chance(1, 3) {
			root = f.root
		}
		times := 1 + r.Intn(3)
		for k := 0; k < times; k++ {
			t++
			h.Ops = append(h.Ops, lsx.Op{K: "set", T: t, Mode: 2, Root: root, Addrs: []int{c}})
		}
		if r.Chance(1, 5) {
			t++
			h.Ops = append(h.Ops, lsx.Op{K: "set", T: t, Mode: 3, Root: root, Addrs: []int{c}})
		}
	}
	gc := lsx.Op{K: "gc", Root: -1, Pyr: pyr()}
	if r.Chance(1, 4) {
		f := files[r.Intn(len(files))]
		t++
		gc.Inner = []lsx.Op{{K: "set", T: t, Mode: 2, Root: f.root, Addrs: append([]int{f.root}, f.chunks...)}}
	}
	h.Ops = append(h.Ops, gc)
	if r.Bool() {
		h.Ops = append(h.Ops, lsx.Op{K: "gc", Root: -1, Pyr: pyr()})
	}
	c := &Case{Hist: h}
	if thorough {
		for i := range h.Ops {
			c.Targets = append(c.Targets, i)
		}
	}
	return c
}

func generate(r *hx.Rand, thorough bool) *Case {
	if r.Chance(1, 3) {
		return scenario(r, thorough)
	}
	capacity := uint64(2 + r.Intn(7))
	kind := "cache"
	if r.Chance(1, 5) {
		kind = "api"
		capacity = 1000
	}
	g, err := lsx.NewGen(r, kind, capacity, r.Chance(1, 10))
	if err != nil {
		panic(err)
	}
	n := 6 + r.Intn(20)
	t := int64(100000)
	for len(g.H.Ops) < n {
		if kind == "cache" && r.Chance(1, 4) {
			g.Do(crashyOp(g, &t))
		} else {
			g.Steps(len(g.H.Ops) + 1)
		}
	}
	if kind == "cache" { // end on a call that is likely to perform direct writes
		g.Do(crashyOp(g, &t))
	}
	g.St.Close()
	c := &Case{Hist: g.H}
	if thorough {
		for i := range g.H.Ops {
			c.Targets = append(c.Targets, i)
		}
	} // quick: chosen in process() once the write groups of every operation are known
	return c
}

func main() {
	run := hx.Start("C14", "Aurora.C14.Corr",
		"histories of 6..27 operations (files of a root and 1..5 chunks with shared and repeated chunks in a 6-8 address universe, capacity 2..8; every fifth history the plain API mix): request puts under a file context, batched and pinned puts, gets, pins/unpins/removals of one or several chunks with and without context, collection runs with a pyramid table and accesses at the iterator hook; every crash point k = 0..n of the target operations (quick: the last operation, the one with the most write groups and one more; thorough: every operation) replayed on a fresh store over the fault-injecting driver and reopened; non-trivial = a target with at least two write groups (direct writes before the batch); distinct by (base key, operations, targets)")
	if pf := os.Getenv("VERIF_C14_PROF"); pf != "" {
		f, _ := os.Create(pf)
		_ = pprof.StartCPUProfile(f)
		defer pprof.StopCPUProfile()
	}
	crashx.Register() // "verifcrash" + the name lsx opens its stores with
	lsx.Register()

	if run.Replay != "" {
		var c Case
		if err := run.ReadReplay(&c); err != nil {
			panic(err)
		}
		if c.Big > 0 {
			processBig(run, c.Big)
		} else {
			process(run, &c)
		}
		run.Finish()
		return
	}
	for _, c := range corpus() {
		process(run, c)
	}
	// operations whose single batch holds more than 4096 index operations (3n for the removal)
	processBig(run, 1400)
	for i := 0; i < run.N(0, 4); i++ {
		processBig(run, 1366+run.R.Fork(uint64(900000+i)).Intn(1100))
	}
	for i := 0; i < run.N(150, 3000); i++ {
		r := run.R.Fork(uint64(i))
		process(run, generate(r, run.Thorough()))
	}
	run.Finish()
}
