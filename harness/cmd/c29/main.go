// C29 harness: pkg/hive2 — the findNode handler (Service.onFindNode through
// Protocol()), against the Coq model Aurora.C29.
//
// Real parts: hive2.Service, kademlia.Kad (its connected / known pslices are
// filled directly through the exported accessors), addressbook over an
// in-memory leveldb state store, go-multiaddr underlays and manet's
// public/private classification, the protobuf framing. Stubs: the stream (an
// in-memory pipe: the request is written first, the handler runs synchronously
// under a panic guard, the reply is parsed from what it wrote).
package main

import (
	"bytes"
	"context"
	"fmt"
	"io"
	"sort"
	"time"

	"github.com/gauss-project/aurorafs/pkg/addressbook"
	"github.com/gauss-project/aurorafs/pkg/aurora"
	"github.com/gauss-project/aurorafs/pkg/boson"
	"github.com/gauss-project/aurorafs/pkg/hive2"
	"github.com/gauss-project/aurorafs/pkg/hive2/pb"
	"github.com/gauss-project/aurorafs/pkg/logging"
	"github.com/gauss-project/aurorafs/pkg/p2p"
	"github.com/gauss-project/aurorafs/pkg/p2p/protobuf"
	"github.com/gauss-project/aurorafs/pkg/shed"
	sldb "github.com/gauss-project/aurorafs/pkg/shed/leveldb"
	statestore "github.com/gauss-project/aurorafs/pkg/statestore/leveldb"
	"github.com/gauss-project/aurorafs/pkg/topology"
	"github.com/gauss-project/aurorafs/pkg/topology/kademlia"
	ma "github.com/multiformats/go-multiaddr"
	manet "github.com/multiformats/go-multiaddr/net"
	"verifharness/hx"
)

// ---- in-memory stream ------------------------------------------------------------------

type pipe struct {
	in  *bytes.Reader
	out bytes.Buffer
}

func (p *pipe) Read(b []byte) (int, error)   { return p.in.Read(b) }
func (p *pipe) Write(b []byte) (int, error)  { return p.out.Write(b) }
func (p *pipe) Close() error                 { return nil }
func (p *pipe) FullClose() error             { return nil }
func (p *pipe) Reset() error                 { return nil }
func (p *pipe) Headers() p2p.Headers         { return nil }
func (p *pipe) ResponseHeaders() p2p.Headers { return nil }

// p2p.Service stub: the Kad's blocker polls NetworkStatus from a background goroutine;
// nothing else is called because the Kad is never started.
type p2pStub struct{ p2p.Service }

func (p2pStub) NetworkStatus() p2p.NetworkStatus                            { return p2p.NetworkStatusAvailable }
func (p2pStub) Blocklist(boson.Address, time.Duration, string) error       { return nil }
func (p2pStub) Disconnect(boson.Address, string) error                     { return nil }

// ---- world ---------------------------------------------------------------------------------

type peerSpec struct {
	Overlay   string `json:"overlay"`             // hex
	Connected bool   `json:"connected,omitempty"` // in Kad.connectedPeers
	Known     bool   `json:"known,omitempty"`     // in Kad.knownPeers
	Underlay  string `json:"underlay,omitempty"`  // multiaddr text; "" = no address book record
	RecOver   string `json:"rec_overlay,omitempty"` // overlay stored in the record when it differs from the key (ill-formed book)
}

type worldSpec struct {
	Base  string     `json:"base"`
	Peers []peerSpec `json:"peers"`
}

type reqSpec struct {
	Requester string  `json:"requester"`
	Allow     bool    `json:"allow_private"`
	Target    string  `json:"target"`
	Pos       []int32 `json:"pos"`
	Limit     int32   `json:"limit"`
}

type jcase struct {
	World worldSpec `json:"world"`
	Reqs  []reqSpec `json:"reqs"`
}

type world struct {
	spec      worldSpec
	kad       *kademlia.Kad
	book      addressbook.Interface
	svc       *hive2.Service
	handler   p2p.HandlerFunc
	connOrder [][]byte
	knownOrd  [][]byte
	under     map[string]ma.Multiaddr // overlay hex -> underlay
	wf        bool
	closers   []io.Closer
	coqReqs   []string  // one Coq term per request run against this world
	reqs      []reqSpec
}

var (
	run     *hx.Run
	log     = logging.New(io.Discard, 0)
	underID = map[string]uint64{}
	nreqTotal int
)

func uid(m ma.Multiaddr) uint64 {
	k := m.String()
	if v, ok := underID[k]; ok {
		return v
	}
	underID[k] = uint64(len(underID) + 1)
	return underID[k]
}

func buildWorld(ws worldSpec) *world {
	w := &world{spec: ws, under: map[string]ma.Multiaddr{}, wf: true}
	base := boson.MustParseHexAddress(ws.Base)
	st, err := statestore.NewInMemoryStateStore(log)
	if err != nil {
		panic(err)
	}
	w.closers = append(w.closers, st)
	w.book = addressbook.New(st)
	mdb, err := shed.NewDB("", nil)
	if err != nil {
		panic(err)
	}
	w.closers = append(w.closers, mdb)
	w.kad, err = kademlia.New(base, w.book, nil, p2pStub{}, nil, nil, nil, mdb, log, nil, kademlia.Options{NodeMode: aurora.NewModel().SetMode(aurora.FullNode)})
	if err != nil {
		panic(err)
	}
	for _, p := range ws.Peers {
		o := boson.MustParseHexAddress(p.Overlay)
		if p.Connected {
			w.kad.ConnectedPeers().Add(o)
		}
		if p.Known {
			w.kad.KnownPeers().Add(o)
		}
		if p.Underlay != "" {
			m, err := ma.NewMultiaddr(p.Underlay)
			if err != nil {
				panic(err)
			}
			ro := o
			if p.RecOver != "" {
				ro = boson.MustParseHexAddress(p.RecOver)
				w.wf = false
			}
			if err := w.book.Put(o, aurora.Address{Underlay: m, Overlay: ro, Signature: []byte{1, 2, 3}}); err != nil {
				panic(err)
			}
			w.under[p.Overlay] = m
		}
	}
	_ = w.kad.EachPeer(func(a boson.Address, _ uint8) (bool, bool, error) {
		w.connOrder = append(w.connOrder, a.Bytes())
		return false, false, nil
	}, topology.Filter{Reachable: false})
	_ = w.kad.EachKnownPeer(func(a boson.Address, _ uint8) (bool, bool, error) {
		w.knownOrd = append(w.knownOrd, a.Bytes())
		return false, false, nil
	})
	w.svc = hive2.New(nil, w.book, 1, log)
	w.handler = w.svc.Protocol().StreamSpecs[0].Handler
	return w
}

// flush emits the correspondence case of this world: the world once, all its requests
func (w *world) flush() {
	if len(w.coqReqs) == 0 {
		return
	}
	run.AddCase(hx.CoqApp("CWorld", w.coqBook(), coqAddrs(w.connOrder), coqAddrs(w.knownOrd), hx.CoqList(w.coqReqs, "rq")),
		jcase{World: w.spec, Reqs: w.reqs}, fmt.Sprintf("world|%v|%d", w.spec, len(w.reqs)), true)
	w.coqReqs, w.reqs = nil, nil
}

func (w *world) close() {
	w.flush()
	_ = w.svc.Close()
	// Kad.Close would wait 5 s for a manage loop that was never started; the Kad is simply dropped
	for _, c := range w.closers {
		_ = c.Close()
	}
}

// ---- Coq rendering -----------------------------------------------------------------------

func coqAddrs(l [][]byte) string { return hx.CoqBytesList(l) }

func (w *world) coqBook() string {
	var el []string
	for _, p := range w.spec.Peers {
		if p.Underlay == "" {
			continue
		}
		key := unhex(p.Overlay)
		ro := key
		if p.RecOver != "" {
			ro = unhex(p.RecOver)
		}
		m := w.under[p.Overlay]
		el = append(el, hx.CoqPair(hx.CoqBytes(key), hx.CoqApp("Build_brec", hx.CoqBytes(ro), hx.CoqN(uid(m)), hx.CoqBool(manet.IsPrivateAddr(m)))))
	}
	return hx.CoqList(el, "addr * brec")
}

func coqZs(v []int32) string {
	z := make([]int64, len(v))
	for i, x := range v {
		z[i] = int64(x)
	}
	return hx.CoqZList(z)
}

// ---- one request ---------------------------------------------------------------------------

func lcpBits(x, y []byte) int {
	n := 0
	for i := range x {
		if i >= len(y) {
			break
		}
		d := x[i] ^ y[i]
		for j := 7; j >= 0; j-- {
			if d>>uint(j)&1 != 0 {
				return n
			}
			n++
		}
	}
	return n
}

// clear-cut classes for the oracle (RFC 1918 vs. ordinary public unicast), decided from the text the generator wrote
var privatePrefixes = []string{"/ip4/10.", "/ip4/192.168.", "/ip4/172.16.", "/ip4/172.31."}
var publicPrefixes = []string{"/ip4/8.8.", "/ip4/1.1.", "/ip4/93.184.", "/ip4/151.101.", "/ip6/2001:4860"}

func hasPrefix(s string, ps []string) bool {
	for _, p := range ps {
		if len(s) >= len(p) && s[:len(p)] == p {
			return true
		}
	}
	return false
}

func doRequest(w *world, rq reqSpec) {
	jc := jcase{World: w.spec, Reqs: []reqSpec{rq}}
	requester := boson.MustParseHexAddress(rq.Requester)
	w.svc.SetConfig(hive2.Config{Kad: w.kad, Base: boson.MustParseHexAddress(w.spec.Base), AllowPrivateCIDRs: rq.Allow})
	target := unhex(rq.Target)

	var reqBuf bytes.Buffer
	if err := protobuf.NewWriter(&reqBuf).WriteMsg(&pb.FindNodeReq{Target: target, Pos: rq.Pos, Limit: rq.Limit}); err != nil {
		panic(err)
	}
	st := &pipe{in: bytes.NewReader(reqBuf.Bytes())}
	var herr error
	var panicked bool
	var pmsg string
	finished := hx.WithTimeout(20*time.Second, func() {
		panicked, pmsg = hx.Guard(func() { herr = w.handler(context.Background(), p2p.Peer{Address: requester}, st) })
	})
	var reply pb.Peers
	ok := finished && !panicked && herr == nil
	if ok {
		if err := protobuf.NewReader(bytes.NewReader(st.out.Bytes())).ReadMsg(&reply); err != nil {
			ok = false
			herr = err
		}
	}

	// requester's address-book class as the handler sees it
	reqPublic := false
	if ra, err := w.book.Get(requester); err == nil && ra != nil {
		reqPublic = manet.IsPublicAddr(ra.Underlay)
	}
	reqClearlyPublic := false
	for _, p := range w.spec.Peers {
		if p.Overlay == rq.Requester && p.RecOver == "" && hasPrefix(p.Underlay, publicPrefixes) {
			reqClearlyPublic = true
		}
	}

	obs := "None"
	if ok {
		var el []string
		for _, p := range reply.Peers {
			m, err := ma.NewMultiaddrBytes(p.Underlay)
			id := uint64(0)
			if err == nil {
				id = uid(m)
			}
			el = append(el, hx.CoqPair(hx.CoqBytes(p.Overlay), hx.CoqN(id)))
		}
		obs = hx.CoqSome(hx.CoqList(el, "addr * N"))
	}
	nontrivial := ok && len(reply.Peers) > 0
	w.coqReqs = append(w.coqReqs, hx.CoqApp("Build_rq", hx.CoqBool(rq.Allow), hx.CoqBool(reqPublic), hx.CoqBytes(requester.Bytes()),
		hx.CoqApp("Build_request", hx.CoqBytes(target), coqZs(rq.Pos), hx.CoqZ(int64(rq.Limit))), obs))
	w.reqs = append(w.reqs, rq)
	nreqTotal++
	run.AddCase("", jc, fmt.Sprintf("%v|%v", w.spec, rq), nontrivial) // counted here; the Coq term is emitted per world
	run.Hist(fmt.Sprintf("reply.n=%d", len(reply.Peers)))
	lim := "limit>=3"
	if rq.Limit < 3 {
		lim = fmt.Sprintf("limit=%d", rq.Limit)
		if rq.Limit < 0 {
			lim = "limit<0"
		}
	}
	run.Hist(lim)
	if ok && len(reply.Peers) > 0 && (int32(len(reply.Peers)) == rq.Limit || (rq.Limit > 30 && len(reply.Peers) == 30)) {
		run.Hist("reply.fills-the-limit")
	}

	// ---- oracle: the property statement on the reply ----
	run.OracleChecked(1)
	if !finished {
		run.Violate(hx.Violation{Sig: "handler-hangs", Detail: "onFindNode did not return within 20 s", Case: jc})
		return
	}
	if panicked {
		run.Violate(hx.Violation{Sig: "handler-panics", Detail: pmsg, Case: jc})
		return
	}
	if herr != nil {
		run.Violate(hx.Violation{Sig: "handler-error-on-well-formed-request", Detail: herr.Error(), Case: jc})
		return
	}
	if !w.wf {
		return // ill-formed address book: correspondence only
	}
	honoured := int(rq.Limit)
	if honoured > 30 {
		honoured = 30
	}
	if honoured < 0 {
		honoured = 0
	}
	if len(reply.Peers) > honoured {
		cls := "limit>=2"
		if rq.Limit < 2 {
			cls = "limit-below-2"
		}
		run.Violate(hx.Violation{Sig: "limit:more-peers-than-requested:" + cls, Detail: fmt.Sprintf("limit %d, reply has %d peers", rq.Limit, len(reply.Peers)), Case: jc, Impl: len(reply.Peers), Want: honoured})
	}
	seen := map[string]bool{}
	inBook := map[string]peerSpec{}
	for _, p := range w.spec.Peers {
		inBook[p.Overlay] = p
	}
	for _, p := range reply.Peers {
		oh := hx.Hex(p.Overlay)
		if bytes.Equal(p.Overlay, requester.Bytes()) {
			run.Violate(hx.Violation{Sig: "requester-in-reply", Detail: "the reply offers the requester to itself", Case: jc})
		}
		if seen[oh] {
			run.Violate(hx.Violation{Sig: "duplicate-peer-in-reply", Detail: oh, Case: jc})
		}
		seen[oh] = true
		po := lcpBits(target, p.Overlay)
		if po > int(boson.MaxPO) {
			po = int(boson.MaxPO)
		}
		match := false
		for _, v := range rq.Pos {
			if int(v&0xff) == po {
				match = true
			}
		}
		if !match && len(target) >= 4 && len(p.Overlay) >= 4 { // below 4 bytes "proximity" is not the prefix length (C20's domain)
			run.Violate(hx.Violation{Sig: "orders:peer-outside-requested-orders", Detail: fmt.Sprintf("peer %s has proximity %d to the target, requested %v", oh, po, rq.Pos), Case: jc})
		}
		ps, known := inBook[oh]
		if !known || ps.Underlay == "" || !(ps.Connected || ps.Known) {
			run.Violate(hx.Violation{Sig: "reply-invents-peer", Detail: oh, Case: jc})
			continue
		}
		if m, err := ma.NewMultiaddrBytes(p.Underlay); err != nil || m.String() != w.under[oh].String() {
			run.Violate(hx.Violation{Sig: "reply-underlay-differs-from-address-book", Detail: oh, Case: jc})
		}
		if reqClearlyPublic && !rq.Allow && hasPrefix(ps.Underlay, privatePrefixes) {
			run.Violate(hx.Violation{Sig: "private:rfc1918-underlay-offered-to-public-requester", Detail: ps.Underlay, Case: jc})
		}
	}
}

// ---- generators ----------------------------------------------------------------------------

func withPO(r *hx.Rand, target []byte, po int, n int) []byte {
	a := r.Bytes(n)
	for k := 0; k < po && k < 8*n && k < 8*len(target); k++ {
		bit := target[k/8] >> uint(7-k%8) & 1
		a[k/8] = a[k/8]&^(0x80>>uint(k%8)) | bit<<uint(7-k%8)
	}
	if po < 8*n && po < 8*len(target) {
		bit := target[po/8] >> uint(7-po%8) & 1
		a[po/8] = a[po/8]&^(0x80>>uint(po%8)) | (1-bit)<<uint(7-po%8)
	}
	return a
}

func underlay(r *hx.Rand, class int) string {
	port := 1000 + r.Intn(60000)
	switch class {
	case 0: // public
		return fmt.Sprintf("/ip4/%s%d.%d/tcp/%d", []string{"8.8.", "1.1.", "93.184.", "151.101."}[r.Intn(4)], r.Intn(256), 1+r.Intn(254), port)
	case 1: // RFC 1918
		return fmt.Sprintf("/ip4/%s%d/tcp/%d", []string{"10.0.0.", "192.168.1.", "172.16.5.", "172.31.255.", "10.255.255."}[r.Intn(5)], 1+r.Intn(254), port)
	case 2: // loopback, link-local, CGNAT, unspecified, boundary of 172.16/12
		return fmt.Sprintf("/ip4/%s/tcp/%d", []string{"127.0.0.1", "169.254.1.1", "100.64.0.1", "0.0.0.0", "172.32.0.1", "172.15.255.255", "192.0.2.1", "224.0.0.1"}[r.Intn(8)], port)
	case 3: // ipv6
		return fmt.Sprintf("/ip6/%s/tcp/%d", []string{"2001:4860:4860::8888", "fd00::1", "fe80::1", "::1", "fc00::5"}[r.Intn(5)], port)
	}
	return fmt.Sprintf("/dns4/example.org/tcp/%d", port)
}

func genWorld(r *hx.Rand, target []byte, alen int, npeers int) worldSpec {
	ws := worldSpec{Base: hx.Hex(r.Bytes(32))} // the Kad needs a full-size base (bin prefixes)
	used := map[string]bool{}
	for i := 0; i < npeers; i++ {
		po := r.Pick([]int{0, 0, 1, 1, 2, 2, 3, 3, 4, 5, 6, 7, 8, 9, 12, 16, 30, 31, 32})
		o := withPO(r, target, po, alen)
		if used[hx.Hex(o)] {
			continue
		}
		used[hx.Hex(o)] = true
		p := peerSpec{Overlay: hx.Hex(o)}
		switch r.Intn(10) {
		case 0, 1, 2, 3:
			p.Connected, p.Known = true, true
		case 4, 5, 6, 7:
			p.Known = true
		case 8:
			p.Connected = true
		}
		if r.Chance(9, 10) {
			p.Underlay = underlay(r, r.Pick([]int{0, 0, 0, 1, 1, 1, 2, 3, 4}))
		}
		ws.Peers = append(ws.Peers, p)
	}
	return ws
}

func genPos(r *hx.Rand, present []int) []int32 {
	var pos []int32
	if len(present) > 0 && r.Chance(1, 2) { // orders that some peers of the world really have
		n := 1 + r.Intn(4)
		for i := 0; i < n; i++ {
			pos = append(pos, int32(present[r.Intn(len(present))]))
		}
		if r.Chance(1, 4) {
			pos = append(pos, int32(r.Intn(32)))
		}
		return pos
	}
	switch r.Intn(8) {
	case 0: // like lookupDistances
		po := int32(r.Intn(10))
		pos = []int32{po, po + 1}
		if po > 0 {
			pos = append(pos, po-1)
		}
	case 1:
		for i := int32(0); i < 32; i++ {
			pos = append(pos, i)
		}
	case 2:
		pos = nil
	case 3: // values outside 0..31, incl. ones that alias through uint8()
		pos = []int32{int32(256 + r.Intn(4)), -1, int32(r.Intn(4)) - 256, 1000, int32(r.Intn(6))}
	default:
		n := 1 + r.Intn(5)
		for i := 0; i < n; i++ {
			pos = append(pos, int32(r.Pick([]int{0, 1, 2, 3, 4, 5, 6, 7, 8, 16, 31})))
		}
	}
	return pos
}

func genLimit(r *hx.Rand) int32 {
	switch r.Intn(10) {
	case 2, 3, 4: // small limits: more candidates than the limit, so the shuffles decide
		return int32(3 + r.Intn(6))
	case 0:
		return int32(r.Pick([]int{0, 1, 2, 3}))
	case 1:
		return int32(r.Pick([]int{-1, -5, -2147483648, 2147483647, 1000, 29, 30, 31, 40}))
	}
	return int32(r.Intn(41))
}

func main() {
	run = hx.Start("C29", "Aurora.C29.Corr",
		"worlds of 0..28 peers (overlays with a chosen proximity to the target; connected and/or known; address-book record with public / RFC1918 / loopback-linklocal-CGNAT / ipv6 / dns underlay or none) x requests (limits 0..40 plus negative and huge, order lists incl. empty, full and out-of-range values, requesters inside and outside the peer set, with public / private / no record, AllowPrivateCIDRs on/off); non-trivial = a reply with at least one peer; distinct by (world, request)")
	r := run.R
	shed.Register("leveldb", sldb.Driver{})

	if run.Replay != "" {
		var jc jcase
		if err := run.ReadReplay(&jc); err != nil {
			panic(err)
		}
		w := buildWorld(jc.World)
		for _, rq := range jc.Reqs {
			doRequest(w, rq)
		}
		w.close()
		run.Finish()
		return
	}

	// corpus: F-hive-min-two witnesses — limits 0, 1 and negative against a node that has
	// a connected and a known candidate
	{
		target := []byte{0xaa, 0xbb, 0xcc, 0xdd, 0xee, 0xff}
		c := withPO(r, target, 2, 6)
		k := withPO(r, target, 2, 6)
		k2 := withPO(r, target, 3, 6)
		ws := worldSpec{Base: "0102030405060708091011121314151617181920212223242526272829303132", Peers: []peerSpec{
			{Overlay: hx.Hex(c), Connected: true, Known: true, Underlay: "/ip4/8.8.8.8/tcp/1634"},
			{Overlay: hx.Hex(k), Known: true, Underlay: "/ip4/1.1.1.1/tcp/1634"},
			{Overlay: hx.Hex(k2), Known: true, Underlay: "/ip4/10.0.0.7/tcp/1634"},
			{Overlay: "0f0e0d0c0b0a", Known: true, Connected: true, Underlay: "/ip4/93.184.216.34/tcp/1634"},
		}}
		w := buildWorld(ws)
		for _, lim := range []int32{0, 1, -1, -2147483648, 2, 3, 30, 31, 2147483647} {
			for _, reqr := range []string{"0f0e0d0c0b0a", "ffffffffffff"} {
				doRequest(w, reqSpec{Requester: reqr, Target: hx.Hex(target), Pos: []int32{2, 3}, Limit: lim})
				doRequest(w, reqSpec{Requester: reqr, Allow: true, Target: hx.Hex(target), Pos: []int32{2, 3}, Limit: lim})
			}
		}
		w.close()
	}

	// a crowded node: more candidates than maxPeersLimit in both passes (the 30 cap, 15 + 15)
	{
		target := []byte{0x55, 0x66, 0x77, 0x88}
		ws := worldSpec{Base: hx.Hex(r.Bytes(32))}
		used := map[string]bool{}
		for len(ws.Peers) < 44 {
			o := withPO(r, target, r.Intn(2), 4)
			if used[hx.Hex(o)] {
				continue
			}
			used[hx.Hex(o)] = true
			ws.Peers = append(ws.Peers, peerSpec{Overlay: hx.Hex(o), Known: true, Connected: len(ws.Peers)%2 == 0, Underlay: underlay(r, len(ws.Peers)%3%2)})
		}
		w := buildWorld(ws)
		for _, lim := range []int32{29, 30, 31, 40, 2147483647, 16, 7} {
			doRequest(w, reqSpec{Requester: ws.Peers[0].Overlay, Target: hx.Hex(target), Pos: []int32{0, 1}, Limit: lim})
			doRequest(w, reqSpec{Requester: "00000000", Allow: true, Target: hx.Hex(target), Pos: []int32{1, 0, 5}, Limit: lim})
		}
		w.close()
	}

	nworlds := run.N(40, 200)
	for wi := 0; wi < nworlds; wi++ {
		alen := r.Pick([]int{4, 6, 6, 6, 8, 32})
		target := r.Bytes(alen)
		npeers := r.Pick([]int{0, 1, 2, 4, 8, 12, 16, 20, 28})
		if alen == 32 && npeers > 8 {
			npeers = 8
		}
		ws := genWorld(r, target, alen, npeers)
		if wi%9 == 8 && len(ws.Peers) > 2 { // an ill-formed book: a record whose overlay is another peer's
			ws.Peers[0].RecOver = ws.Peers[1].Overlay
			if ws.Peers[0].Underlay == "" {
				ws.Peers[0].Underlay = underlay(r, 0)
			}
		}
		w := buildWorld(ws)
		var present []int
		for _, p := range ws.Peers {
			po := lcpBits(target, unhex(p.Overlay))
			if po > int(boson.MaxPO) {
				po = int(boson.MaxPO)
			}
			present = append(present, po)
		}
		nreq := run.N(30, 60)
		for q := 0; q < nreq; q++ {
			rq := reqSpec{Allow: r.Chance(1, 4), Pos: genPos(r, present), Limit: genLimit(r)}
			// requester: a peer of the world (with whatever record it has) or an outsider
			if len(ws.Peers) > 0 && r.Chance(3, 4) {
				rq.Requester = ws.Peers[r.Intn(len(ws.Peers))].Overlay
			} else {
				rq.Requester = hx.Hex(r.Bytes(alen))
			}
			switch r.Intn(12) {
			case 0:
				rq.Target = hx.Hex(r.Bytes(alen)) // unrelated target
			case 1:
				rq.Target = hx.Hex(target[:r.Intn(alen)]) // short / empty target
			case 2:
				rq.Target = hx.Hex(append(append([]byte{}, target...), r.Bytes(3)...))
			default:
				rq.Target = hx.Hex(target)
			}
			doRequest(w, rq)
		}
		w.close()
	}
	keys := make([]string, 0, len(underID))
	for k := range underID {
		keys = append(keys, k)
	}
	sort.Strings(keys)
	run.SetExtra("distinct_underlays", len(keys))
	run.SetExtra("requests_in_correspondence", nreqTotal)
	run.Finish()
}

func unhex(s string) []byte {
	b := make([]byte, len(s)/2)
	fmt.Sscanf(s, "%x", &b)
	return b
}
