package main

// routetab.relay = routetab.(*Service).onRelay.  onRelay calls p2p.Service.CallHandler (pkg/p2p/libp2p, which does
// not build here) before reading; that function starts the REAL routetab.PackRelayResp on a virtual stream, takes the
// first RouteRelayReq and decides forward := !MidCall && Dest != self.  relayP2P below replays exactly that part of
// libp2p.CallHandler (stream_virtual.go + the first 30 lines of CallHandler) so that PackRelayResp and the forward
// branch of onRelay run for real; a request addressed to this node would be dispatched to the named protocol handler
// by libp2p (outside routetab): the stub reports (forward=false, err=nil) for it.

import (
	"bytes"
	"context"
	"encoding/json"
	"sync/atomic"
	"time"

	"github.com/gauss-project/aurorafs/pkg/boson"
	"github.com/gauss-project/aurorafs/pkg/p2p"
	p2pmock "github.com/gauss-project/aurorafs/pkg/p2p/mock"
	"github.com/gauss-project/aurorafs/pkg/p2p/streamtest"
	"github.com/gauss-project/aurorafs/pkg/routetab"
	rpb "github.com/gauss-project/aurorafs/pkg/routetab/pb"
	"github.com/gauss-project/aurorafs/pkg/statestore/leveldb"
	"github.com/gogo/protobuf/proto"

	"verifharness/hx"
)

// copy of libp2p's virtualStream
type vStream struct {
	p2p.Stream
	buf    bytes.Buffer
	writer *p2p.WriterChan
	reader *p2p.ReaderChan
	done   chan struct{}
	closed int32
}

func newVStream(s p2p.Stream) *vStream {
	return &vStream{Stream: s, writer: &p2p.WriterChan{W: make(chan []byte, 1), Err: make(chan error, 1)},
		reader: &p2p.ReaderChan{R: make(chan []byte, 1), Err: make(chan error, 1)}, done: make(chan struct{}, 1)}
}
func (s *vStream) Read(p []byte) (int, error) {
	if s.buf.Len() == 0 {
		if atomic.LoadInt32(&s.closed) == 1 {
			return 0, p2p.ErrStreamClosed
		}
		select {
		case d := <-s.reader.R:
			s.buf.Write(d)
		case err := <-s.reader.Err:
			return 0, err
		}
	}
	return s.buf.Read(p)
}
func (s *vStream) Write(p []byte) (int, error) {
	if atomic.LoadInt32(&s.closed) == 1 {
		return 0, p2p.ErrStreamClosed
	}
	s.writer.W <- p
	return len(p), <-s.writer.Err
}
func (s *vStream) Reset() error                { atomic.StoreInt32(&s.closed, 1); return nil }
func (s *vStream) FullClose() error            { atomic.StoreInt32(&s.closed, 1); return nil }
func (s *vStream) UpdateStatRealStreamClosed() { atomic.StoreInt32(&s.closed, 1) }
func (s *vStream) Reader() *p2p.ReaderChan     { return s.reader }
func (s *vStream) Writer() *p2p.WriterChan     { return s.writer }
func (s *vStream) Done() chan struct{}         { return s.done }
func (s *vStream) RealStream() p2p.Stream      { return s.Stream }

type relayP2P struct {
	*p2pmock.Service
	self  boson.Address
	route *routetab.Service
}

func (r *relayP2P) CallHandlerWithConnChain(context.Context, p2p.Peer, p2p.Peer, p2p.Stream, string, string, string) error {
	return nil
}

func (r *relayP2P) CallHandler(ctx context.Context, last p2p.Peer, stream p2p.Stream) (relayData *rpb.RouteRelayReq, w *p2p.WriterChan, rd *p2p.ReaderChan, forward bool, err error) {
	reqCh := make(chan *rpb.RouteRelayReq, 1)
	vst := newVStream(stream)
	w, rd = vst.writer, vst.reader
	r.route.PackRelayResp(ctx, vst, reqCh) // REAL routetab code: reads the frames of the stream
	select {
	case relayData = <-reqCh:
		if relayData == nil {
			return
		}
		if !relayData.MidCall && !bytes.Equal(relayData.Dest, r.self.Bytes()) {
			forward = true
		}
		return // local dispatch to the named protocol handler is libp2p's business
	case <-ctx.Done():
		err = ctx.Err()
		return
	}
}

type rlMsg struct {
	Dest, Src, SrcMode string
	MidCall            bool
	Paths              []string
	Data               string
	More               []string // further frames (hex, raw) sent after the first request
}

func runRelay(e *env, c *Case) Obs {
	n := e.net()
	store, err := leveldb.NewInMemoryStateStore(e.logger)
	if err != nil {
		panic(err)
	}
	rec := streamtest.New(streamtest.WithProtocols(evilRouter(nil)), streamtest.WithBaseAddr(e.node.overlay))
	ps := &relayP2P{Service: n.p2ps, self: e.node.overlay}
	ctx, cancel := context.WithCancel(context.Background())
	defer cancel()
	svc := routetab.New(e.node.overlay, ctx, ps, relayStreamer{rec}, n.ab, networkID, n.light, n.kad, store, e.logger, routetab.Options{})
	ps.route = svc
	var chunks [][]byte
	orc := map[string]bool{}
	if c.Kind == "raw" {
		chunks = rawChunks(c)
	} else {
		var m rlMsg
		_ = json.Unmarshal(c.Msg, &m)
		b, _ := proto.Marshal(&rpb.RouteRelayReq{Src: unhex(m.Src), SrcMode: unhex(m.SrcMode), Dest: unhex(m.Dest), ProtocolName: []byte("x"),
			ProtocolVersion: []byte("1"), StreamName: []byte("s"), Data: unhex(m.Data), MidCall: m.MidCall, Paths: bytesList(m.Paths)})
		chunks = [][]byte{frame(b)}
		for _, x := range m.More {
			chunks = append(chunks, unhex(x))
		}
		orc["isconn"] = n.kad.ConnectedPeers().Exists(boson.NewAddress(unhex(m.Dest)))
	}
	res := driveInbound(svc.Protocol(), "relay", e.peer.overlay, false, chunks, 30*time.Second)
	return Obs{Panic: res.panicked, PMsg: res.pmsg, Hang: res.hang, Where: "handler", Err: errBit(res.err), Orc: orc}
}

func coqRelay(c *Case, o *Obs) (string, bool) {
	var m rlMsg
	_ = json.Unmarshal(c.Msg, &m)
	n, _ := idents()
	if len(m.More) > 0 {
		return "", true // further frames race with the forward branch: oracle only
	}
	req := hx.CoqApp("mkRelayReq", coqHB(unhex(m.Dest)), coqHB(unhex(m.Src)), coqHB(unhex(m.SrcMode)), hx.CoqBool(m.MidCall), coqBytesList(m.Paths))
	return hx.CoqApp("CRtRelay", coqHB(n.overlay.Bytes()), hx.CoqBool(o.Orc["isconn"]), hx.CoqSome(req), coqOutcome(o)), true
}

func genRelay(run *hx.Run, add func(*Case)) {
	r := run.R.Fork(0x524c)
	n, p := idents()
	conn, _ := netPeers(n.overlay)
	self, peer := hx.Hex(n.overlay.Bytes()), hx.Hex(p.overlay.Bytes())
	mk := func(cls string, m *rlMsg) {
		b, _ := json.Marshal(m)
		add(&Case{H: "routetab.relay", Kind: "msg", Msg: b, Class: cls})
	}
	nb := hx.Hex(conn[1].Bytes())
	for _, d := range []string{self, nb} {
		for _, mid := range []bool{false, true} {
			mk("relay-request", &rlMsg{Dest: d, Src: peer, SrcMode: "01", MidCall: mid, Paths: []string{peer}, Data: "0a0b"})
			mk("relay-request", &rlMsg{Dest: d, Src: "", SrcMode: "", MidCall: mid, Paths: []string{"", "01", hx.Hex(make([]byte, 40))}})
		}
		mk("relay-request-then-more", &rlMsg{Dest: d, Src: peer, SrcMode: "01", More: []string{hx.Hex(frame([]byte{0x3a, 0x01, 0x41})), "ff"}})
		mk("relay-request-then-more", &rlMsg{Dest: d, Src: peer, SrcMode: "01", More: []string{"00", "00", "00"}})
	}
	// a target that is neither this node nor a neighbour: the 3 s route search, then "nexthop not found"
	mk("relay-request-unknown-target", &rlMsg{Dest: "01", Src: peer, SrcMode: "01", Paths: []string{peer, hx.Hex(n.overlay.Bytes()[:1])}})
	if run.Thorough() {
		mk("relay-request-unknown-target", &rlMsg{Dest: "", Src: peer})
		mk("relay-request-unknown-target", &rlMsg{Dest: hx.Hex(r.Bytes(33)), Src: peer, MidCall: false})
	}
	v, _ := proto.Marshal(&rpb.RouteRelayReq{Dest: n.overlay.Bytes(), SrcMode: []byte{1}, ProtocolName: []byte("x")})
	for _, chunks := range rawStreams(r, v, run.N(6, 60)) {
		add(&Case{H: "routetab.relay", Kind: "raw", Raw: hexes(chunks...), Class: "raw-bytes"})
	}
}

func init() {
	register(&handlerDef{id: "routetab.relay", run: runRelay, coq: coqRelay})
	generators = append(generators, genRelay)
}
