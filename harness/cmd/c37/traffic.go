package main

// traffic.cheque = trafficprotocol.(*Service).handler      (stream "traffic": EmitCheque -> traffic.ReceiveCheque)
// traffic.initin = trafficprotocol.(*Service).initHandler  (stream "init", listening side)
// traffic.initout = trafficprotocol.(*Service).init        (ConnectOut: node dials, reads the peer's EmitCheque)
// All three run against the REAL traffic.Service + cheque store on an in-memory leveldb state store.

import (
	"context"
	"encoding/json"
	"math/big"
	"strings"
	"time"

	"github.com/ethereum/go-ethereum/common"
	"github.com/ethereum/go-ethereum/core/types"
	"github.com/gauss-project/aurorafs/pkg/boson"
	"github.com/gauss-project/aurorafs/pkg/p2p"
	"github.com/gauss-project/aurorafs/pkg/p2p/streamtest"
	"github.com/gauss-project/aurorafs/pkg/settlement/traffic"
	chequePkg "github.com/gauss-project/aurorafs/pkg/settlement/traffic/cheque"
	"github.com/gauss-project/aurorafs/pkg/settlement/traffic/trafficprotocol"
	tpb "github.com/gauss-project/aurorafs/pkg/settlement/traffic/trafficprotocol/pb"
	"github.com/gauss-project/aurorafs/pkg/statestore/leveldb"
	"github.com/gauss-project/aurorafs/pkg/subscribe"
	"github.com/gogo/protobuf/proto"

	"verifharness/hx"
)

const chainID = int64(7)

type chainStub struct{}

func (chainStub) TransferredAddress(common.Address) ([]common.Address, error) { return nil, nil }
func (chainStub) RetrievedAddress(common.Address) ([]common.Address, error)   { return nil, nil }
func (chainStub) BalanceOf(common.Address) (*big.Int, error)                  { return big.NewInt(1000000), nil }
func (chainStub) RetrievedTotal(common.Address) (*big.Int, error)             { return big.NewInt(0), nil }
func (chainStub) TransferredTotal(common.Address) (*big.Int, error)           { return big.NewInt(0), nil }
func (chainStub) TransAmount(_, _ common.Address) (*big.Int, error)           { return big.NewInt(0), nil }
func (chainStub) CashChequeBeneficiary(context.Context, boson.Address, common.Address, common.Address, *big.Int, []byte) (*types.Transaction, error) {
	return nil, nil
}

type trafficNode struct {
	proto   *trafficprotocol.Service
	svc     *traffic.Service
	nodeEth common.Address
	peerEth common.Address
}

// tmsg: the EmitCheque a peer sends. JSON is the literal SignedCheque field.
type tmsg struct {
	Addr string `json:"addr"` // hex
	JSON string `json:"json"` // raw text of the SignedCheque bytes
}

func ethOf(id *ident) common.Address {
	a, err := id.signer.EthereumAddress()
	if err != nil {
		panic(err)
	}
	return a
}

func signedChequeJSON(id *ident, recipient, beneficiary common.Address, payout int64) string {
	c := chequePkg.Cheque{Recipient: recipient, Beneficiary: beneficiary, CumulativePayout: big.NewInt(payout)}
	sig, err := chequePkg.NewChequeSigner(id.signer, chainID).Sign(&c)
	if err != nil {
		panic(err)
	}
	b, _ := json.Marshal(&chequePkg.SignedCheque{Cheque: c, Signature: sig})
	return string(b)
}

// scen: "u" peer unknown, "k" peer known (beneficiary registered), "kc" known + a received cheque of 100 on file
func newTrafficNode(e *env, scen string, streamer p2p.Streamer) *trafficNode {
	store, err := leveldb.NewInMemoryStateStore(e.logger)
	if err != nil {
		panic(err)
	}
	n := &trafficNode{nodeEth: ethOf(e.node), peerEth: ethOf(e.peer)}
	cs := chequePkg.NewChequeStore(store, n.nodeEth, chequePkg.RecoverCheque, chainID)
	ab := traffic.NewAddressBook(store)
	n.proto = trafficprotocol.New(streamer, e.logger, n.nodeEth)
	n.svc = traffic.New(e.logger, n.nodeEth, store, chainStub{}, cs, nil, nil, ab, chequePkg.NewChequeSigner(e.node.signer, chainID), n.proto, chainID, subscribe.NewSubPub())
	n.proto.SetTraffic(n.svc)
	if strings.HasPrefix(scen, "k") {
		if err := ab.PutBeneficiary(e.peer.overlay, n.peerEth); err != nil {
			panic(err)
		}
	}
	if scen == "ut" { // the address the peer will claim already belongs to another overlay
		if err := ab.PutBeneficiary(boson.NewAddress([]byte{1, 2, 3}), n.peerEth); err != nil {
			panic(err)
		}
	}
	if scen == "kc" {
		var sc chequePkg.SignedCheque
		_ = json.Unmarshal([]byte(signedChequeJSON(e.peer, n.nodeEth, n.peerEth, 100)), &sc)
		if _, err := cs.ReceiveCheque(context.Background(), &sc); err != nil {
			panic(err)
		}
	}
	return n
}

func tChunks(c *Case) ([][]byte, *tmsg) {
	if c.Kind == "raw" {
		var ch [][]byte
		for _, h := range c.Raw {
			ch = append(ch, rawBytes(h))
		}
		return ch, nil
	}
	var m tmsg
	if err := json.Unmarshal(c.Msg, &m); err != nil {
		panic(err)
	}
	b, _ := proto.Marshal(&tpb.EmitCheque{Address: unhex(m.Addr), SignedCheque: []byte(m.JSON)})
	return [][]byte{frame(b)}, &m
}

func errBit(err error) int {
	if err != nil {
		return 1
	}
	return 0
}

// what encoding/json and the cheque verification say about the same bytes (inputs of the model)
func tOracle(e *env, m *tmsg, scen string, n *trafficNode) map[string]bool {
	o := map[string]bool{}
	var p *chequePkg.SignedCheque
	err := json.Unmarshal([]byte(m.JSON), &p)
	o["json_ok"] = err == nil
	o["json_nil"] = err == nil && p == nil
	if err != nil {
		return o
	}
	var v chequePkg.SignedCheque // the init handlers decode into a value: "null" leaves the zero cheque
	_ = json.Unmarshal([]byte(m.JSON), &v)
	o["ben_is_peer"] = v.Beneficiary == n.peerEth
	o["rec_is_self"] = v.Recipient == n.nodeEth
	o["rec_is_peer"] = v.Recipient == n.peerEth
	o["sig_nil"] = v.Signature == nil
	o["payout_nil"] = v.CumulativePayout == nil
	issuer, rerr := func() (a common.Address, err error) {
		defer func() {
			if recover() != nil {
				err = context.Canceled
			}
		}()
		return chequePkg.RecoverCheque(&v, chainID)
	}()
	o["verified"] = rerr == nil
	o["issuer_self"] = rerr == nil && issuer == n.nodeEth
	last := int64(0)
	if scen == "kc" {
		last = 100
	}
	o["store_ok"] = v.Recipient == n.nodeEth && rerr == nil && issuer == v.Beneficiary && v.CumulativePayout != nil && v.CumulativePayout.Cmp(big.NewInt(last)) > 0
	o["taken"] = scen == "ut" && common.BytesToAddress(unhex(m.Addr)) == n.peerEth
	return o
}

func runTrafficIn(stream string) func(e *env, c *Case) Obs {
	return func(e *env, c *Case) Obs {
		n := newTrafficNode(e, c.Scen, relayStreamer{streamtest.New()})
		chunks, m := tChunks(c)
		res := driveInbound(n.proto.Protocol(), stream, e.peer.overlay, false, chunks, 20*time.Second)
		o := Obs{Panic: res.panicked, PMsg: res.pmsg, Hang: res.hang, Where: "handler", Err: errBit(res.err)}
		if m != nil {
			o.Orc = tOracle(e, m, c.Scen, n)
		}
		return o
	}
}

func runTrafficInitOut(e *env, c *Case) Obs {
	chunks, m := tChunks(c)
	rec := streamtest.New(streamtest.WithProtocols(evilPeer("pseudosettle", "1.0.0", "init", chunks)))
	n := newTrafficNode(e, c.Scen, relayStreamer{rec})
	r := guardClient(20*time.Second, func() error {
		return n.proto.Protocol().ConnectOut(context.Background(), p2p.Peer{Address: e.peer.overlay})
	})
	o := Obs{Panic: r.panicked, PMsg: r.pmsg, Hang: r.hang, Where: "client", Err: errBit(r.err)}
	if m != nil {
		o.Orc = tOracle(e, m, c.Scen, n)
	}
	return o
}

// ---------------------------------------------------------------- Coq

func coqTraffic(ctor string) func(c *Case, o *Obs) (string, bool) {
	return func(c *Case, o *Obs) (string, bool) {
		var m tmsg
		_ = json.Unmarshal(c.Msg, &m)
		if len(m.JSON) > 600 {
			return "", true
		}
		js := "JBad"
		if o.Orc["json_ok"] {
			f := hx.CoqApp("mkCF", hx.CoqBool(o.Orc["ben_is_peer"]), hx.CoqBool(o.Orc["rec_is_self"]), hx.CoqBool(o.Orc["store_ok"]),
				hx.CoqBool(o.Orc["sig_nil"]), hx.CoqBool(o.Orc["rec_is_peer"]), hx.CoqBool(o.Orc["verified"]), hx.CoqBool(o.Orc["issuer_self"]), hx.CoqBool(o.Orc["payout_nil"]))
			js = hx.CoqApp("JOk", hx.CoqBool(o.Orc["json_nil"]), f)
		}
		known := hx.CoqBool(strings.HasPrefix(c.Scen, "k"))
		return hx.CoqApp(ctor, known, hx.CoqBool(o.Orc["taken"]), hx.CoqApp("mkEmit", coqHB(unhex(m.Addr)), coqHB([]byte(m.JSON))), js, coqOutcome(o)), true
	}
}

// ---------------------------------------------------------------- generator

func genTraffic(run *hx.Run, add func(*Case)) {
	r := run.R.Fork(0x5452)
	e := newEnv()
	nodeEth, peerEth := ethOf(e.node), ethOf(e.peer)
	valid := signedChequeJSON(e.peer, nodeEth, peerEth, 150)
	jsons := []struct{ cls, js string }{
		{"cheque-json-null", "null"},
		{"cheque-valid", valid},
		{"cheque-low-payout", signedChequeJSON(e.peer, nodeEth, peerEth, 50)},
		{"cheque-wrong-recipient", signedChequeJSON(e.peer, peerEth, peerEth, 150)},
		{"cheque-wrong-beneficiary", signedChequeJSON(e.peer, nodeEth, nodeEth, 150)},
		{"cheque-foreign", signedChequeJSON(e.peer, peerEth, nodeEth, 150)},
		{"cheque-self-signed", signedChequeJSON(e.node, nodeEth, peerEth, 150)},
		{"cheque-own-returned", signedChequeJSON(e.node, peerEth, nodeEth, 150)},
		{"cheque-empty-object", "{}"},
		{"cheque-json-empty", ""},
		{"cheque-json-array", "[]"},
		{"cheque-json-number", "17"},
		{"cheque-json-string", "\"null\""},
		{"cheque-json-garbage", "{\"Recipient\":"},
		{"cheque-null-fields", "{\"Recipient\":null,\"Beneficiary\":null,\"CumulativePayout\":null,\"Signature\":null}"},
		{"cheque-nil-payout-with-sig", strings.Replace(valid, "\"CumulativePayout\":150", "\"CumulativePayout\":null", 1)},
		{"cheque-negative-payout", strings.Replace(valid, "\"CumulativePayout\":150", "\"CumulativePayout\":-150", 1)},
		{"cheque-huge-payout", strings.Replace(valid, "\"CumulativePayout\":150", "\"CumulativePayout\":1"+strings.Repeat("0", 90), 1)},
		{"cheque-float-payout", strings.Replace(valid, "\"CumulativePayout\":150", "\"CumulativePayout\":1.5", 1)},
		{"cheque-empty-sig", "{\"Recipient\":\"" + nodeEth.Hex() + "\",\"Beneficiary\":\"" + peerEth.Hex() + "\",\"CumulativePayout\":5,\"Signature\":\"\"}"},
		{"cheque-short-sig", "{\"Recipient\":\"" + nodeEth.Hex() + "\",\"Beneficiary\":\"" + peerEth.Hex() + "\",\"CumulativePayout\":5,\"Signature\":\"AAAA\"}"},
		{"cheque-bad-address", "{\"Recipient\":\"0x12\",\"Beneficiary\":\"zz\",\"CumulativePayout\":5}"},
		{"cheque-oversized", "{\"Signature\":\"" + strings.Repeat("A", 200000) + "\"}"},
	}
	addrs := []string{hx.Hex(peerEth.Bytes()), "", hx.Hex(nodeEth.Bytes()), hx.Hex(r.Bytes(7)), hx.Hex(r.Bytes(40))}
	for _, h := range []string{"traffic.cheque", "traffic.initin", "traffic.initout"} {
		for _, sc := range []string{"k", "u", "kc", "ut"} {
			for ji, j := range jsons {
				if !run.Thorough() && (sc == "kc" || sc == "ut") && ji > 6 && r.Intn(3) != 0 {
					continue
				}
				for ai, a := range addrs {
					if ai > 0 && !(run.Thorough() || r.Intn(10) == 0) {
						continue
					}
					b, _ := json.Marshal(&tmsg{Addr: a, JSON: j.js})
					add(&Case{H: h, Kind: "msg", Scen: sc, Msg: b, Class: j.cls})
				}
			}
		}
		vb, _ := proto.Marshal(&tpb.EmitCheque{Address: peerEth.Bytes(), SignedCheque: []byte(valid)})
		for _, chunks := range rawStreams(r, vb, run.N(10, 400)) {
			add(&Case{H: h, Kind: "raw", Scen: "k", Raw: hexes(chunks...), Class: "raw-bytes"})
		}
	}
}

func init() {
	register(&handlerDef{id: "traffic.cheque", run: runTrafficIn("traffic"), coq: coqTraffic("CTrCheque")})
	register(&handlerDef{id: "traffic.initin", run: runTrafficIn("init"), coq: coqTraffic("CTrInitIn")})
	register(&handlerDef{id: "traffic.initout", run: runTrafficInitOut, coq: coqTraffic("CTrInitOut")})
	generators = append(generators, genTraffic)
}
