package main

// hive2.findnode = hive2.(*Service).onFindNode   (FindNodeReq -> Peers), real kademlia + address book
// hive2.peers    = hive2.(*Service).DoFindNode   (client read of Peers) + checkAndAddPeers on the result

import (
	"context"
	"encoding/json"
	"errors"
	"time"

	"github.com/gauss-project/aurorafs/pkg/boson"
	"github.com/gauss-project/aurorafs/pkg/hive2"
	hpb "github.com/gauss-project/aurorafs/pkg/hive2/pb"
	"github.com/gauss-project/aurorafs/pkg/p2p/streamtest"
	"github.com/gogo/protobuf/proto"
	ma "github.com/multiformats/go-multiaddr"

	"verifharness/hx"
)

type fnMsg struct {
	Target string  `json:"target"`
	Pos    []int32 `json:"pos"`
	Limit  int32   `json:"limit"`
}
type hvPeer struct {
	U string `json:"u"`
	S string `json:"s"`
	O string `json:"o"`
}
type hvMsg struct {
	Peers []hvPeer `json:"peers"`
}

func runHiveFindNode(e *env, c *Case) Obs {
	n := e.net()
	svc := hive2.New(streamtest.New(), n.ab, networkID, e.logger)
	svc.SetConfig(hive2.Config{Kad: n.kad, Base: e.node.overlay, AllowPrivateCIDRs: true})
	defer svc.Close()
	var chunks [][]byte
	if c.Kind == "raw" {
		for _, h := range c.Raw {
			chunks = append(chunks, rawBytes(h))
		}
	} else {
		var m fnMsg
		_ = json.Unmarshal(c.Msg, &m)
		b, _ := proto.Marshal(&hpb.FindNodeReq{Target: unhex(m.Target), Pos: m.Pos, Limit: m.Limit})
		chunks = [][]byte{frame(b)}
	}
	res := driveInbound(svc.Protocol(), "findNode", e.peer.overlay, false, chunks, 20*time.Second)
	o := Obs{Panic: res.panicked, PMsg: res.pmsg, Hang: res.hang, Where: "handler", Err: errBit(res.err), Aux: map[string]int{"peers": -1}}
	if l, k := uvarint(res.reply); k > 0 && int(l) <= len(res.reply)-k {
		var p hpb.Peers
		if proto.Unmarshal(res.reply[k:k+int(l)], &p) == nil {
			o.Aux["peers"] = len(p.Peers)
		}
	}
	return o
}

func runHivePeers(e *env, c *Case) Obs {
	n := e.net()
	var chunks [][]byte
	var m *hvMsg
	if c.Kind == "raw" {
		for _, h := range c.Raw {
			chunks = append(chunks, rawBytes(h))
		}
	} else {
		m = &hvMsg{}
		_ = json.Unmarshal(c.Msg, m)
		pp := &hpb.Peers{}
		for _, p := range m.Peers {
			pp.Peers = append(pp.Peers, &hpb.AuroraAddress{Underlay: unhex(p.U), Signature: unhex(p.S), Overlay: unhex(p.O)})
		}
		b, _ := proto.Marshal(pp)
		chunks = [][]byte{frame(b)}
	}
	pingFail := c.Scen == "pingfail"
	rec := streamtest.New(streamtest.WithProtocols(evilPeer("hive2", "1.0.0", "findNode", chunks)),
		streamtest.WithPingErr(func(ma.Multiaddr) (time.Duration, error) {
			if pingFail {
				return 0, errors.New("unreachable")
			}
			return 0, nil
		}))
	svc := hive2.New(rec, n.ab, networkID, e.logger)
	svc.SetConfig(hive2.Config{Kad: n.kad, Base: e.node.overlay, AllowPrivateCIDRs: true})
	added := 0
	svc.SetAddPeersHandler(func(a ...boson.Address) { n.kad.AddPeers(a...) })
	defer svc.Close()
	r := guardClient(40*time.Second, func() error {
		ch, err := svc.DoFindNode(context.Background(), e.node.overlay, e.peer.overlay, []int32{0, 1}, 4)
		if err != nil {
			return err
		}
		for range ch { // closed by checkAndAddPeers when every peer was processed
			added++
		}
		return nil
	})
	o := Obs{Panic: r.panicked, PMsg: r.pmsg, Hang: r.hang, Where: "client", Err: errBit(r.err), Aux: map[string]int{"added": added}, Orc: map[string]bool{}}
	if m != nil {
		ok := 0
		for _, p := range m.Peers {
			if _, err := ma.NewMultiaddrBytes(unhex(p.U)); err == nil {
				ok++
			}
		}
		o.Aux["ma_ok"] = ok
	}
	// forget what this case added to the known peers (arbitrary-length overlays included)
	return o
}

// hive2.seq: message 1 = a Peers reply (client read) whose overlays, of any length, are filed into the known peers;
// message 2 = a FindNodeReq from the same peer, served by comparing its target with those stored overlays.
type hvSeq struct {
	Peers []hvPeer `json:"peers"`
	Req   fnMsg    `json:"req"`
}

func runHiveSeq(e *env, c *Case) Obs {
	var m hvSeq
	_ = json.Unmarshal(c.Msg, &m)
	n := newNet(e)
	pp := &hpb.Peers{}
	for _, p := range m.Peers {
		pp.Peers = append(pp.Peers, &hpb.AuroraAddress{Underlay: unhex(p.U), Signature: unhex(p.S), Overlay: unhex(p.O)})
	}
	b, _ := proto.Marshal(pp)
	rec := streamtest.New(streamtest.WithProtocols(evilPeer("hive2", "1.0.0", "findNode", [][]byte{frame(b)})))
	svc := hive2.New(rec, n.ab, networkID, e.logger)
	svc.SetConfig(hive2.Config{Kad: n.kad, Base: e.node.overlay, AllowPrivateCIDRs: true})
	svc.SetAddPeersHandler(func(a ...boson.Address) { n.kad.AddPeers(a...) })
	defer svc.Close()
	added := 0
	r := guardClient(40*time.Second, func() error {
		ch, err := svc.DoFindNode(context.Background(), e.node.overlay, e.peer.overlay, []int32{0, 1}, 4)
		if err != nil {
			return err
		}
		for range ch {
			added++
		}
		return nil
	})
	if r.panicked || r.hang {
		return Obs{Panic: r.panicked, PMsg: r.pmsg, Hang: r.hang, Where: "client(pre)"}
	}
	rb, _ := proto.Marshal(&hpb.FindNodeReq{Target: unhex(m.Req.Target), Pos: m.Req.Pos, Limit: m.Req.Limit})
	res := driveInbound(svc.Protocol(), "findNode", e.peer.overlay, false, [][]byte{frame(rb)}, 20*time.Second)
	o := Obs{Panic: res.panicked, PMsg: res.pmsg, Hang: res.hang, Where: "handler", Err: errBit(res.err), Aux: map[string]int{"peers": -1, "added": added}}
	if l, k := uvarint(res.reply); k > 0 && int(l) <= len(res.reply)-k {
		var p hpb.Peers
		if proto.Unmarshal(res.reply[k:k+int(l)], &p) == nil {
			o.Aux["peers"] = len(p.Peers)
		}
	}
	return o
}

func coqHiveSeq(c *Case, o *Obs) (string, bool) {
	var m hvSeq
	_ = json.Unmarshal(c.Msg, &m)
	n, p := idents()
	var added []string
	for _, q := range m.Peers {
		if _, err := ma.NewMultiaddrBytes(unhex(q.U)); err == nil {
			added = append(added, q.O)
		}
	}
	pos := make([]int64, len(m.Req.Pos))
	for i, x := range m.Req.Pos {
		pos[i] = int64(x)
	}
	return hx.CoqApp("CHiveSeq", coqHB(n.overlay.Bytes()), coqHB(p.overlay.Bytes()), coqBytesList(added),
		hx.CoqApp("mkFindNode", coqHB(unhex(m.Req.Target)), hx.CoqZList(pos), hx.CoqZ(int64(m.Req.Limit))), coqOutcome(o), hx.CoqZ(int64(o.Aux["peers"]))), true
}

func coqHiveFindNode(c *Case, o *Obs) (string, bool) {
	var m fnMsg
	_ = json.Unmarshal(c.Msg, &m)
	if len(m.Target) > 1200 || len(m.Pos) > 300 {
		return "", true
	}
	pos := make([]int64, len(m.Pos))
	for i, p := range m.Pos {
		pos[i] = int64(p)
	}
	n, p := idents()
	return hx.CoqApp("CHiveFind", coqHB(n.overlay.Bytes()), coqHB(p.overlay.Bytes()), hx.CoqApp("mkFindNode", coqHB(unhex(m.Target)), hx.CoqZList(pos), hx.CoqZ(int64(m.Limit))), coqOutcome(o), hx.CoqZ(int64(o.Aux["peers"]))), true
}

func coqHivePeers(c *Case, o *Obs) (string, bool) {
	var m hvMsg
	_ = json.Unmarshal(c.Msg, &m)
	tot := 0
	var el []string
	for _, p := range m.Peers {
		tot += len(p.U) + len(p.S) + len(p.O)
		_, err := ma.NewMultiaddrBytes(unhex(p.U))
		el = append(el, hx.CoqApp("mkHivePeer", coqHB(unhex(p.U)), coqHB(unhex(p.S)), coqHB(unhex(p.O)), hx.CoqBool(err == nil)))
	}
	if tot > 1500 {
		return "", true
	}
	n, _ := idents()
	return hx.CoqApp("CHivePeers", coqHB(n.overlay.Bytes()), hx.CoqBool(c.Scen != "pingfail"), hx.CoqList(el, "hive_peer"), coqOutcome(o), hx.CoqZ(int64(o.Aux["added"]))), len(m.Peers) > 0
}

func genHive2(run *hx.Run, add func(*Case)) {
	r := run.R.Fork(0x4856)
	e := newEnv()
	base := e.node.overlay.Bytes()
	conn, known := netPeers(e.node.overlay)
	targets := []string{hx.Hex(base), "", "00", hx.Hex(base[:5]), hx.Hex(conn[3].Bytes()), hx.Hex(known[2].Bytes()), hx.Hex(append(append([]byte{}, base...), 1, 2, 3)),
		hx.Hex(make([]byte, 255)), hx.Hex(make([]byte, 256)), hx.Hex(make([]byte, 257)), hx.Hex(r.Bytes(32)), hx.Hex(make([]byte, 70000))}
	poss := [][]int32{nil, {0}, {0, 1, 2, 3}, {256, 257}, {-1, -255}, {31, 32, 255}, {5, 8, 0, 0, 0}, {2147483647, -2147483648, 3}}
	limits := []int32{0, 1, 2, 3, 4, 5, 16, 30, 31, 1000, 2147483647, -1, -2147483648}
	mk := func(t string, p []int32, l int32) {
		b, _ := json.Marshal(&fnMsg{Target: t, Pos: p, Limit: l})
		add(&Case{H: "hive2.findnode", Kind: "msg", Msg: b, Class: "find-node-request"})
	}
	for _, l := range limits {
		mk(targets[0], poss[2], l)
	}
	for _, t := range targets {
		mk(t, poss[2], 30)
		mk(t, poss[r.Intn(len(poss))], limits[r.Intn(len(limits))])
	}
	for _, p := range poss {
		mk(targets[0], p, 30)
	}
	for i := 0; i < run.N(25, 500); i++ {
		t := append([]byte{}, base...)
		if r.Bool() {
			t = r.Bytes(r.Pick([]int{0, 1, 3, 31, 32, 33, 64}))
		} else {
			t[r.Intn(2)] ^= byte(1 << uint(r.Intn(8)))
		}
		var p []int32
		for k := r.Intn(6); k > 0; k-- {
			p = append(p, int32(r.Intn(10))-1+int32(r.Pick([]int{0, 0, 0, 256, -256})))
		}
		mk(hx.Hex(t), p, limits[r.Intn(len(limits))])
	}
	v, _ := proto.Marshal(&hpb.FindNodeReq{Target: base, Pos: []int32{0, 1}, Limit: 4})
	for _, chunks := range rawStreams(r, v, run.N(20, 400)) {
		add(&Case{H: "hive2.findnode", Kind: "raw", Raw: hexes(chunks...), Class: "raw-bytes"})
	}
	// ---- client read of Peers
	good := hvPeer{U: hx.Hex(e.peer.maBytes), S: hx.Hex(e.peer.bzz.Signature), O: hx.Hex(e.peer.overlay.Bytes())}
	variants := []hvPeer{good, {}, {U: good.U}, {U: good.U, O: "01"}, {U: "ffff", S: good.S, O: good.O}, {U: good.U, S: good.S, O: hx.Hex(make([]byte, 300))},
		{U: hx.Hex(e.peer.maBytes[:7]), O: good.O}, {U: good.U, S: hx.Hex(make([]byte, 1000)), O: hx.Hex(r.Bytes(32))}}
	mkp := func(scen string, ps []hvPeer) {
		b, _ := json.Marshal(&hvMsg{Peers: ps})
		add(&Case{H: "hive2.peers", Kind: "msg", Scen: scen, Msg: b, Class: "peers-reply"})
	}
	mkp("", nil)
	for _, vr := range variants {
		mkp("", []hvPeer{vr})
	}
	mkp("pingfail", variants[:4])
	for i := 0; i < run.N(2, 40); i++ {
		var ps []hvPeer
		for k := 1 + r.Intn(3); k > 0; k-- {
			ps = append(ps, variants[r.Intn(len(variants))])
		}
		mkp("", ps)
	}
	// ---- SEQUENCE: overlays of mixed length (0, 1, 31, 32, 33 bytes; short ones prefixes of the long one) stored by a
	// Peers reply, then find-node requests whose targets (also of mixed length) are compared with them
	long := append(append([]byte{}, base[:2]...), r.Bytes(31)...)
	ovs := []string{hx.Hex(long[:32]), hx.Hex(long[:1]), hx.Hex(long[:31]), hx.Hex(long), ""}
	var mixedPeers []hvPeer
	for _, o := range ovs {
		mixedPeers = append(mixedPeers, hvPeer{U: good.U, S: good.S, O: o})
	}
	allPos := []int32{0, 1, 2, 3, 4, 5, 6, 7, 8, 9, 10, 11, 12, 13, 14, 15, 16, 17, 18, 19, 20, 21, 22, 23, 24, 25, 26, 27, 28, 29, 30, 31}
	for i, tg := range []string{hx.Hex(long[:32]), hx.Hex(long[:1]), "", hx.Hex(long[:31]), hx.Hex(long), hx.Hex(base)} {
		if !run.Thorough() && i > 2 && r.Intn(2) != 0 {
			continue
		}
		b, _ := json.Marshal(&hvSeq{Peers: mixedPeers, Req: fnMsg{Target: tg, Pos: allPos, Limit: 30}})
		add(&Case{H: "hive2.seq", Kind: "msg", Msg: b, Class: "mixed-length-overlays-then-find-node"})
	}
	pv, _ := proto.Marshal(&hpb.Peers{Peers: []*hpb.AuroraAddress{{Underlay: e.peer.maBytes, Overlay: e.peer.overlay.Bytes()}}})
	for _, chunks := range rawStreams(r, pv, run.N(12, 300)) {
		add(&Case{H: "hive2.peers", Kind: "raw", Raw: hexes(chunks...), Class: "raw-bytes"})
	}
}

func init() {
	register(&handlerDef{id: "hive2.findnode", run: runHiveFindNode, coq: coqHiveFindNode})
	register(&handlerDef{id: "hive2.peers", run: runHivePeers, coq: coqHivePeers})
	register(&handlerDef{id: "hive2.seq", run: runHiveSeq, coq: coqHiveSeq})
	generators = append(generators, genHive2)
}
