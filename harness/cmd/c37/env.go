package main

import (
	"context"
	"crypto/ecdsa"
	"errors"
	"fmt"
	"io"
	"sync"
	"time"

	"github.com/gauss-project/aurorafs/pkg/aurora"
	"github.com/gauss-project/aurorafs/pkg/boson"
	"github.com/gauss-project/aurorafs/pkg/crypto"
	"github.com/gauss-project/aurorafs/pkg/logging"
	"github.com/gauss-project/aurorafs/pkg/p2p"
	"github.com/gauss-project/aurorafs/pkg/p2p/streamtest"
	ma "github.com/multiformats/go-multiaddr"
)

const networkID = uint64(7)

// fixed keys: everything the harness does is a function of the seed
var (
	nodeKeyHex = "4c0883a69102937d6231471b5dbb6204fe5129617082792ae468d01a3f362318"
	peerKeyHex = "a1b2c3d4e5f60718293a4b5c6d7e8f90112233445566778899aabbccddeeff01"
)

type ident struct {
	key     *ecdsa.PrivateKey
	signer  crypto.Signer
	overlay boson.Address
	ma      ma.Multiaddr // full multiaddr with /p2p/<id>
	maBytes []byte
	bzz     *aurora.Address
}

func mkIdent(keyHex, maStr string) *ident {
	k, err := crypto.DecodeSecp256k1PrivateKey(unhex(keyHex))
	if err != nil {
		panic(err)
	}
	id := &ident{key: k, signer: crypto.NewDefaultSigner(k)}
	id.overlay, err = crypto.NewOverlayAddress(k.PublicKey, networkID)
	if err != nil {
		panic(err)
	}
	id.ma, err = ma.NewMultiaddr(maStr)
	if err != nil {
		panic(err)
	}
	id.maBytes, _ = id.ma.MarshalBinary()
	id.bzz, err = aurora.NewAddress(id.signer, id.ma, id.overlay, networkID)
	if err != nil {
		panic(err)
	}
	return id
}

const (
	nodeMA = "/ip4/127.0.0.1/tcp/1634/p2p/16Uiu2HAkx8ULY8cTXhdVAcMmLcH9AsTKz6uBQ7DPLKRjMLgBVYkA"
	peerMA = "/ip4/10.1.2.3/tcp/1634/p2p/16Uiu2HAkx8ULY8cTXhdVAcMmLcH9AsTKz6uBQ7DPLKRjMLgBVYkS"
)

var (
	identOnce sync.Once
	nodeID    *ident
	peerID    *ident
)

func idents() (*ident, *ident) {
	identOnce.Do(func() {
		nodeID = mkIdent(nodeKeyHex, nodeMA)
		peerID = mkIdent(peerKeyHex, peerMA)
	})
	return nodeID, peerID
}

// env is the child's node: components are built on first use.
type env struct {
	logger logging.Logger
	node   *ident
	peer   *ident
	mu     sync.Mutex
	parts  map[string]interface{}
}

func newEnv() *env {
	n, p := idents()
	return &env{logger: logging.New(io.Discard, 0), node: n, peer: p, parts: map[string]interface{}{}}
}

// part memoises a component.
func (e *env) part(name string, mk func() interface{}) interface{} {
	e.mu.Lock()
	defer e.mu.Unlock()
	if v, ok := e.parts[name]; ok {
		return v
	}
	v := mk()
	e.parts[name] = v
	return v
}

// ---------------------------------------------------------------- driving a handler

type panicRec struct {
	mu  sync.Mutex
	hit bool
	msg string
}

func (p *panicRec) set(v interface{}) {
	p.mu.Lock()
	defer p.mu.Unlock()
	if !p.hit {
		p.hit = true
		p.msg = fmt.Sprint(v)
		if len(p.msg) > 200 {
			p.msg = p.msg[:200]
		}
	}
}
func (p *panicRec) get() (bool, string) {
	p.mu.Lock()
	defer p.mu.Unlock()
	return p.hit, p.msg
}

var errPanicked = errors.New("c37: handler panicked")

// recoverMW turns a panic of the handler goroutine into an observable.
func recoverMW(pr *panicRec) p2p.HandlerMiddleware {
	return func(f p2p.HandlerFunc) p2p.HandlerFunc {
		return func(ctx context.Context, p p2p.Peer, s p2p.Stream) (err error) {
			defer func() {
				if v := recover(); v != nil {
					pr.set(v)
					err = errPanicked
					_ = s.Reset()
				}
			}()
			return f(ctx, p, s)
		}
	}
}

type inboundResult struct {
	panicked bool
	pmsg     string
	hang     bool
	err      error
	reply    []byte // what the handler wrote
}

// driveInbound: the remote peer `from` opens <proto>/<stream> on the node, writes
// the chunks, closes its write side and waits for the handler to return.
func driveInbound(spec p2p.ProtocolSpec, streamName string, from boson.Address, light bool, chunks [][]byte, wait time.Duration) inboundResult {
	pr := &panicRec{}
	opts := []streamtest.Option{streamtest.WithProtocols(spec), streamtest.WithBaseAddr(from), streamtest.WithMiddlewares(recoverMW(pr))}
	if light {
		opts = append(opts, streamtest.WithLightNode())
	}
	rec := streamtest.New(opts...)
	target := boson.NewAddress([]byte{0xee}) // the recorder keys records by the dialled address
	st, err := rec.NewStream(context.Background(), target, nil, spec.Name, spec.Version, streamName)
	if err != nil {
		panic("driveInbound: " + err.Error())
	}
	for _, c := range chunks {
		if len(c) > 0 {
			_, _ = st.Write(c)
		}
	}
	_ = st.Close()
	var res inboundResult
	done := make(chan struct{})
	go func() {
		defer close(done)
		recs, rerr := rec.Records(target, spec.Name, spec.Version, streamName)
		if rerr == nil && len(recs) > 0 {
			res.err = recs[0].Err()
			res.reply = recs[0].Out()
		}
	}()
	select {
	case <-done:
	case <-time.After(wait):
		res.hang = true
		_ = st.Reset()
		select {
		case <-done:
		case <-time.After(2 * time.Second):
		}
	}
	res.panicked, res.pmsg = pr.get()
	return res
}

// evilPeer builds the protocol spec of a remote peer that answers every stream
// with the given chunks (after optionally reading what the node sent) and closes.
func evilPeer(name, version, streamName string, chunks [][]byte) p2p.ProtocolSpec {
	return p2p.ProtocolSpec{Name: name, Version: version, StreamSpecs: []p2p.StreamSpec{{
		Name: streamName,
		Handler: func(ctx context.Context, p p2p.Peer, s p2p.Stream) error {
			for _, c := range chunks {
				if len(c) > 0 {
					if _, err := s.Write(c); err != nil {
						return nil
					}
				}
			}
			return s.Close()
		},
	}}}
}

// relayStreamer adds the two relay constructors the Recorder leaves unimplemented.
type relayStreamer struct{ *streamtest.Recorder }

func (r relayStreamer) NewRelayStream(ctx context.Context, a boson.Address, h p2p.Headers, pr, v, s string, _ bool) (p2p.Stream, error) {
	return r.Recorder.NewStream(ctx, a, h, pr, v, s)
}
func (r relayStreamer) NewConnChainRelayStream(ctx context.Context, a boson.Address, h p2p.Headers, pr, v, s string) (p2p.Stream, error) {
	return r.Recorder.NewStream(ctx, a, h, pr, v, s)
}

// guardClient runs a client-side call of the node with recover + timeout.
type clientResult struct {
	panicked bool
	pmsg     string
	hang     bool
	err      error
}

func guardClient(wait time.Duration, f func() error) clientResult {
	ch := make(chan clientResult, 1)
	go func() {
		var r clientResult
		defer func() {
			if v := recover(); v != nil {
				r.panicked = true
				r.pmsg = fmt.Sprint(v)
				if len(r.pmsg) > 200 {
					r.pmsg = r.pmsg[:200]
				}
			}
			ch <- r
		}()
		r.err = f()
	}()
	select {
	case r := <-ch:
		return r
	case <-time.After(wait):
		return clientResult{hang: true}
	}
}

// coqHB renders bytes as `(hb "hex")` (decoded by Corr.hb): string literals parse fast.
func coqHB(b []byte) string {
	if len(b) == 0 {
		return "(@nil N)"
	}
	return "(hb \"" + hexStr(b) + "\")"
}
func hexStr(b []byte) string { return fmt.Sprintf("%x", b) }
