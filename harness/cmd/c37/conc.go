package main

// Concurrent-delivery layer: the p2p layer runs every inbound stream in its own goroutine, so a peer (or several) can
// have many handlers of the SAME service instance running at once.  For each stateful service a fixed mix of
// well-formed and malformed messages from the corpus is delivered K at a time on separate recorded streams from
// 1..3 peers, released by a common barrier, for R rounds.  Observable: no panic (recover in every handler goroutine;
// a panic in a goroutine the service spawns, or a fatal "concurrent map writes", kills this CHILD process, which the
// parent turns into a violation with the captured trace), and every handler returns within the timeout.
// Runs as `<binary> --c37conc <seed> <tier>`; prints one JSON line per scenario on stdout.

import (
	"context"
	"encoding/json"
	"fmt"
	"os"
	"runtime"
	"runtime/debug"
	"sync"
	"time"

	accmock "github.com/gauss-project/aurorafs/pkg/accounting/mock"
	"github.com/gauss-project/aurorafs/pkg/boson"
	"github.com/gauss-project/aurorafs/pkg/chunkinfo"
	cpb "github.com/gauss-project/aurorafs/pkg/chunkinfo/pb"
	"github.com/gauss-project/aurorafs/pkg/hive2"
	hpb "github.com/gauss-project/aurorafs/pkg/hive2/pb"
	mpb "github.com/gauss-project/aurorafs/pkg/multicast/pb"
	"github.com/gauss-project/aurorafs/pkg/p2p"
	"github.com/gauss-project/aurorafs/pkg/p2p/streamtest"
	"github.com/gauss-project/aurorafs/pkg/retrieval"
	rtpb "github.com/gauss-project/aurorafs/pkg/retrieval/pb"
	rmock "github.com/gauss-project/aurorafs/pkg/routetab/mock"
	rpb "github.com/gauss-project/aurorafs/pkg/routetab/pb"
	omock "github.com/gauss-project/aurorafs/pkg/settlement/chain/oracle/mock"
	"github.com/gauss-project/aurorafs/pkg/statestore/leveldb"
	"github.com/gauss-project/aurorafs/pkg/subscribe"
	"github.com/gogo/protobuf/proto"

	"verifharness/hx"
)

type concResult struct {
	Scenario   string `json:"scenario"`
	Rounds     int    `json:"rounds"`
	Deliveries int    `json:"deliveries"`
	Panics     int    `json:"panics"`
	Hangs      int    `json:"hangs"`
	First      string `json:"first,omitempty"` // first panic value + stack (diagnostics, goes into the replay file)
}

// one delivery: stream name, sending peer, bytes
type delivery struct {
	stream string
	from   boson.Address
	chunks [][]byte
}

// deliverAll opens one stream per delivery on the same service, releases all writers at once and waits for every handler.
func deliverAll(spec p2p.ProtocolSpec, ds []delivery, res *concResult, wait time.Duration) {
	var mu sync.Mutex
	guard := func(h p2p.HandlerFunc) p2p.HandlerFunc {
		return func(ctx context.Context, p p2p.Peer, s p2p.Stream) (err error) {
			defer func() {
				if r := recover(); r != nil {
					mu.Lock()
					res.Panics++
					if res.First == "" {
						st := string(debug.Stack())
						if len(st) > 2500 {
							st = st[:2500]
						}
						res.First = fmt.Sprintf("%v\n%s", r, st)
					}
					mu.Unlock()
					err = errPanicked
					_ = s.Reset()
				}
			}()
			return h(ctx, p, s)
		}
	}
	start := make(chan struct{})
	var wg sync.WaitGroup
	type pending struct {
		rec    *streamtest.Recorder
		target boson.Address
		stream string
	}
	var pend []pending
	recs := map[string]*streamtest.Recorder{}
	for i, d := range ds {
		rec := recs[d.from.String()]
		if rec == nil {
			rec = streamtest.New(streamtest.WithProtocols(spec), streamtest.WithBaseAddr(d.from), streamtest.WithMiddlewares(guard))
			recs[d.from.String()] = rec
		}
		target := boson.NewAddress([]byte{0xee, byte(i), byte(i >> 8)})
		st, err := rec.NewStream(context.Background(), target, nil, spec.Name, spec.Version, d.stream)
		if err != nil {
			panic("deliverAll: " + err.Error())
		}
		pend = append(pend, pending{rec, target, d.stream})
		wg.Add(1)
		go func(d delivery, st p2p.Stream) {
			defer wg.Done()
			<-start
			for _, c := range d.chunks {
				if len(c) > 0 {
					_, _ = st.Write(c)
				}
			}
			_ = st.Close()
		}(d, st)
	}
	close(start)
	wg.Wait()
	done := make(chan struct{})
	go func() {
		for _, p := range pend {
			_, _ = p.rec.Records(p.target, spec.Name, spec.Version, p.stream) // waits for the handler goroutine
		}
		close(done)
	}()
	select {
	case <-done:
	case <-time.After(wait):
		mu.Lock()
		res.Hangs++
		mu.Unlock()
		if os.Getenv("C37_CONC_DEBUG") != "" {
			buf := make([]byte, 1<<20)
			os.Stderr.Write(buf[:runtime.Stack(buf, true)])
			os.Exit(9)
		}
	}
	res.Deliveries += len(ds)
}

// ---------------------------------------------------------------- chunkinfo: answers of the asked peers arriving together

func concChunkinfo(e *env, r *hx.Rand, rounds int) concResult {
	res := concResult{Scenario: "chunkinfo:concurrent-resp"}
	f := e.file()
	for round := 0; round < rounds; round++ {
		store, err := leveldb.NewInMemoryStateStore(e.logger)
		if err != nil {
			panic(err)
		}
		rec := streamtest.New(streamtest.WithProtocols(evilChunkinfoPeer(nil)), streamtest.WithBaseAddr(e.node.overlay))
		route := rmock.NewMockRouteTable()
		ci := chunkinfo.New(e.node.overlay, relayStreamer{rec}, e.logger, f.trav, store, f.store, &route, omock.NewServer(), nil, subscribe.NewSubPub())
		if err := ci.InitChunkInfo(); err != nil {
			panic(err)
		}
		if err := ci.OnChunkTransferred(f.fileRef, f.root, e.peer.overlay, e.node.overlay); err != nil {
			panic(err)
		}
		// a discovery with PullingMax asked peers plus a SMALL backlog of peers still to ask
		backlog := 1 + r.Intn(4)
		var peers []boson.Address
		for i := 0; i < 11+backlog; i++ {
			peers = append(peers, boson.NewAddress(r.Bytes(32)))
		}
		findDone := make(chan struct{})
		go func() { ci.FindChunkInfo(context.Background(), nil, f.root, peers); close(findDone) }()
		deadline := time.Now().Add(5 * time.Second)
		for asked := 0; asked < 10 && time.Now().Before(deadline); {
			asked = 0
			for _, p := range peers[:10] {
				if recs, err := rec.Records(p, "chunkinfo", "2.0.0", "chunkinforeq"); err == nil && len(recs) > 0 {
					asked++
				}
			}
			if asked < 10 {
				time.Sleep(2 * time.Millisecond)
			}
		}
		resp := func(from boson.Address, presence map[string][]byte) delivery {
			b, _ := proto.Marshal(&cpb.ChunkInfoResp{RootCid: f.root.Bytes(), Target: from.Bytes(), Req: e.node.overlay.Bytes(), Presence: presence})
			return delivery{stream: "chunkinforesp", from: from, chunks: [][]byte{frame(b)}}
		}
		// the first answer alone (it also ends the synchronous FindChunkInfo call), then the others all at once
		warm := &concResult{}
		deliverAll(ci.Protocol(), []delivery{resp(peers[0], nil)}, warm, 10*time.Second)
		res.Panics += warm.Panics
		if res.First == "" {
			res.First = warm.First
		}
		// FindChunkInfo hands its one-slot result channel to the handlers; answers arriving before it has returned
		// block on that channel for ever (a goroutine leak on the unchanged code, not a panic): wait for it
		select {
		case <-findDone:
		case <-time.After(5 * time.Second):
		}
		var ds []delivery
		for i, p := range peers[1:11] {
			switch {
			case i == 3 && round%3 == 0:
				ds = append(ds, resp(p, map[string][]byte{"zz": {7}})) // malformed key
			case i == 5 && round%3 == 1:
				ds = append(ds, resp(p, map[string][]byte{p.String(): {}})) // too short a vector
			case i == 7 && round%4 == 0:
				ds = append(ds, delivery{stream: "chunkinforesp", from: p, chunks: [][]byte{{0x05, 0x0a}}}) // truncated frame
			default:
				ds = append(ds, resp(p, nil))
			}
		}
		// a second copy of some answers (duplicate delivery from the same peer) and a request stream in the mix
		for _, p := range peers[1:4] {
			ds = append(ds, resp(p, nil))
		}
		rq, _ := proto.Marshal(&cpb.ChunkInfoReq{RootCid: f.root.Bytes(), Target: e.node.overlay.Bytes(), Req: peers[2].Bytes()})
		ds = append(ds, delivery{stream: "chunkinforeq", from: peers[2], chunks: [][]byte{frame(rq)}})
		deliverAll(ci.Protocol(), ds, &res, 15*time.Second)
		// bounded state afterwards: never more discovered overlays than peers that answered
		if n := len(ci.GetChunkInfoDiscoverOverlays(f.root)); n > len(peers) {
			res.Panics++
			if res.First == "" {
				res.First = fmt.Sprintf("unbounded state: %d discover entries for %d peers", n, len(peers))
			}
		}
		res.Rounds++
	}
	return res
}

// ---------------------------------------------------------------- the other services that share state across streams

func concMulticast(e *env, r *hx.Rand, rounds int) concResult {
	res := concResult{Scenario: "multicast:concurrent-mix"}
	for round := 0; round < rounds; round++ {
		fr, _ := proto.Marshal(&mpb.FindGroupResp{Addresses: [][]byte{e.peer.overlay.Bytes(), {}, {1}}})
		svc := newMulticast(e, evilMulticastPeer([][]byte{frame(fr)}))
		peers := []boson.Address{e.peer.overlay, boson.NewAddress(r.Bytes(32)), boson.NewAddress(r.Bytes(32))}
		long := r.Bytes(33)
		gids := [][]byte{long[:32], long[:1], long[:31], long, {}, joinedGID.Bytes()}
		var ds []delivery
		for i := 0; i < 16; i++ {
			p := peers[i%3]
			var b []byte
			stream := ""
			switch i % 4 {
			case 0:
				stream = "handshake"
				b, _ = proto.Marshal(&mpb.GIDs{Gid: [][]byte{gids[i%6], gids[(i+1)%6]}})
			case 1:
				stream = "notify"
				b, _ = proto.Marshal(&mpb.Notify{Status: int32(1 + i%2), Gids: [][]byte{gids[i%6]}})
			case 2:
				stream = "multicast"
				b, _ = proto.Marshal(&mpb.MulticastMsg{Id: 1<<41 + uint64(round*64+i), Origin: p.Bytes(), Gid: r.Bytes(32), Data: []byte{1}})
			default:
				stream = "findGroup"
				b, _ = proto.Marshal(&mpb.FindGroupReq{Gid: gids[i%6], Limit: 2, Ttl: int32(i % 3)})
			}
			ds = append(ds, delivery{stream: stream, from: p, chunks: [][]byte{frame(b)}})
		}
		deliverAll(svc.Protocol(), ds, &res, 40*time.Second)
		res.Rounds++
	}
	return res
}

func concHive2(e *env, r *hx.Rand, rounds int) concResult {
	res := concResult{Scenario: "hive2:concurrent-findnode"}
	n := newNet(e)
	svc := hive2.New(streamtest.New(), n.ab, networkID, e.logger)
	svc.SetConfig(hive2.Config{Kad: n.kad, Base: e.node.overlay, AllowPrivateCIDRs: true})
	defer svc.Close()
	for round := 0; round < rounds; round++ {
		var ds []delivery
		for i := 0; i < 16; i++ {
			t := append([]byte{}, e.node.overlay.Bytes()...)
			t = t[:r.Pick([]int{0, 1, 31, 32})]
			b, _ := proto.Marshal(&hpb.FindNodeReq{Target: t, Pos: []int32{0, 1, 2, 3, 5, 8}, Limit: int32(r.Intn(40)) - 2})
			ch := [][]byte{frame(b)}
			if i%7 == 6 {
				ch = [][]byte{{0x81, 0x80, 0x40}}
			}
			ds = append(ds, delivery{stream: "findNode", from: boson.NewAddress(r.Bytes(32)), chunks: ch})
		}
		deliverAll(svc.Protocol(), ds, &res, 20*time.Second)
		res.Rounds++
	}
	return res
}

func concRoutetab(e *env, r *hx.Rand, rounds int) concResult {
	res := concResult{Scenario: "routetab:concurrent-route"}
	n, p := idents()
	conn, _ := netPeers(n.overlay)
	for round := 0; round < rounds; round++ {
		svc := newRoutetab(e, evilRouter(nil))
		var ds []delivery
		for i := 0; i < 16; i++ {
			items := [][]byte{r.Bytes(32), r.Bytes(r.Pick([]int{0, 1, 31, 32, 33})), conn[i%len(conn)].Bytes()}
			paths := []*rpb.Path{{Sign: []byte{1}, Bodys: [][]byte{{2}}, Items: items}}
			dest := [][]byte{items[0], n.overlay.Bytes(), p.overlay.Bytes(), {}}[i%4]
			var b []byte
			stream := "onRouteReq"
			if i%2 == 0 {
				b, _ = proto.Marshal(&rpb.RouteReq{Dest: dest, Alpha: 2, Paths: paths, UType: int32(i % 2)})
			} else {
				stream = "onRouteResp"
				b, _ = proto.Marshal(&rpb.RouteResp{Dest: dest, Paths: paths})
			}
			ds = append(ds, delivery{stream: stream, from: conn[i%3], chunks: [][]byte{frame(b)}})
		}
		deliverAll(svc.Protocol(), ds, &res, 30*time.Second)
		res.Rounds++
	}
	return res
}

func concRetrieval(e *env, r *hx.Rand, rounds int) concResult {
	res := concResult{Scenario: "retrieval:concurrent-requests"}
	f := e.file()
	ci := newCINode(e, "pyramid", nil)
	rec := streamtest.New(streamtest.WithProtocols(evilPeer("retrieval", "1.0.0", "retrieval", nil), evilChunkinfoPeer(nil)), streamtest.WithBaseAddr(e.node.overlay))
	route := rmock.NewMockRouteTable()
	svc := retrieval.New(e.node.overlay, relayStreamer{rec}, &route, f.store, true, e.logger, nil, accmock.NewAccounting(), subscribe.NewSubPub())
	svc.Config(ci.ci)
	for round := 0; round < rounds; round++ {
		var ds []delivery
		for i := 0; i < 16; i++ {
			chunk := [][]byte{f.leaf.Bytes(), f.fileRef.Bytes(), r.Bytes(32), {}}[i%4]
			target := [][]byte{e.node.overlay.Bytes(), e.peer.overlay.Bytes()}[i%2]
			b, _ := proto.Marshal(&rtpb.RequestChunk{TargetAddr: target, RootAddr: f.root.Bytes(), ChunkAddr: chunk})
			ds = append(ds, delivery{stream: "retrieval", from: boson.NewAddress(r.Bytes(32)), chunks: [][]byte{frame(b)}})
		}
		deliverAll(svc.Protocol(), ds, &res, 40*time.Second)
		res.Rounds++
	}
	return res
}

// concMain: child entry point
func concMain(seed uint64, thorough bool) {
	e := newEnv()
	r := hx.NewRand(seed ^ 0xc0c0)
	mul := 1
	if thorough {
		mul = 4
	}
	out := json.NewEncoder(os.Stdout)
	for _, f := range []func() concResult{
		func() concResult { return concChunkinfo(e, r.Fork(1), 320*mul) },
		func() concResult { return concHive2(e, r.Fork(2), 4*mul) },
		func() concResult { return concRoutetab(e, r.Fork(3), 3*mul) },
		func() concResult { return concRetrieval(e, r.Fork(4), 2*mul) },
		func() concResult { return concMulticast(e, r.Fork(5), 2*mul) },
	} {
		_ = out.Encode(f())
	}
}
