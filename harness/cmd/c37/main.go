// C37 harness: no byte sequence from a remote peer makes the node panic.
//
// Parent process: generates cases (corpus first, then structured messages with
// every subset of optional parts missing/empty/oversized/inconsistent, then raw
// malformed byte strings), hands them to a CHILD copy of this binary which
// drives the REAL handlers through pkg/p2p/streamtest, and reads one observation
// per case.  A panic inside a handler goroutine is caught by a recover()
// middleware; a panic in a goroutine the handler hands work to kills the child,
// which the parent observes (the case in flight is re-run alone to attribute it).
// Oracle (independent of the Coq model): the observation is not a panic and not
// a hang.  Structured cases are also emitted as Coq terms for the correspondence.
package main

import (
	"bufio"
	"bytes"
	"encoding/binary"
	"encoding/hex"
	"encoding/json"
	"fmt"
	"io"
	"os"
	"os/exec"
	"sort"
	"strings"
	"time"

	"verifharness/hx"
)

// Case is one replayable input: which handler, the frames the peer sends and,
// for structured cases, the message they were marshalled from.
type Case struct {
	H     string          `json:"h"`              // handler id, e.g. "handshake.out"
	Kind  string          `json:"kind"`           // "msg" (structured) | "raw"
	Scen  string          `json:"scen,omitempty"` // node state selector
	Msg   json.RawMessage `json:"msg,omitempty"`  // handler-specific structured message
	Raw   []string        `json:"raw,omitempty"`  // raw: hex chunks written to the stream, then closed
	Class string          `json:"class"`          // class of input (part of the violation signature)
}

// Obs is what the child observed.
type Obs struct {
	Panic bool                `json:"panic"`
	Where string              `json:"where,omitempty"` // handler | client | goroutine
	PMsg  string              `json:"pmsg,omitempty"`  // panic text (diagnostics only; never compared)
	Hang  bool                `json:"hang,omitempty"`
	Err   int                 `json:"err"`             // error class (handler specific small enum; 0 = nil)
	Orc   map[string]bool     `json:"orc,omitempty"`   // results of library parsers on the same bytes (inputs of the model)
	Aux   map[string]int      `json:"aux,omitempty"`   // further small observables
	Lists map[string][]string `json:"lists,omitempty"` // node state read by the front (hex), created by earlier messages
}

// handlerDef ties a handler id to its runner (child side) and its Coq emitter.
type handlerDef struct {
	id  string
	run func(e *env, c *Case) Obs
	// coq returns the Coq case term ("" = oracle only) and whether the case is non-trivial.
	coq func(c *Case, o *Obs) (string, bool)
}

var handlers = map[string]*handlerDef{}

func register(h *handlerDef) { handlers[h.id] = h }

// ---------------------------------------------------------------- wire helpers

func frame(b []byte) []byte {
	var l [binary.MaxVarintLen64]byte
	n := binary.PutUvarint(l[:], uint64(len(b)))
	return append(append([]byte{}, l[:n]...), b...)
}

func unhex(s string) []byte { b, _ := hex.DecodeString(s); return b }

// rawBytes decodes one raw chunk: hex, or "z<N>" = N zero bytes (keeps MiB-sized bodies out of the case files)
func rawBytes(s string) []byte {
	if strings.HasPrefix(s, "z") {
		n := 0
		fmt.Sscanf(s[1:], "%d", &n)
		return make([]byte, n)
	}
	return unhex(s)
}

// rawCase: malformed-stream case from literal chunk specs
func rawCase(h, scen, class string, chunks ...string) *Case {
	return &Case{H: h, Kind: "raw", Scen: scen, Raw: chunks, Class: class}
}

// frameLimitCases: bodies around the 1 MiB limit of the delimited reader actually present on the wire, and
// truncated / over-long varint length prefixes
func frameLimitCases(h, scen string) []*Case {
	return []*Case{
		rawCase(h, scen, "raw-frame-over-1MiB", "818040", "z1048577"),     // declared 1 MiB + 1, body present
		rawCase(h, scen, "raw-frame-exactly-1MiB", "808040", "z1048576"),  // declared exactly 1 MiB (largest accepted), zero body
		rawCase(h, scen, "raw-frame-4MiB-declared", "80808002", "z70000"), // 4 MiB declared, 70 kB sent
		rawCase(h, scen, "raw-varint-truncated", "80"),
		rawCase(h, scen, "raw-varint-truncated", "ffff"),
		rawCase(h, scen, "raw-varint-truncated", "ffffffffffffffffff"),    // 9 continuation bytes, stream ends
		rawCase(h, scen, "raw-varint-overlong", "ffffffffffffffffffff01"), // 11-byte varint
		rawCase(h, scen, "raw-varint-overlong", "80808080808080808080808000"),
	}
}

func hexes(bs ...[]byte) []string {
	out := make([]string, len(bs))
	for i, b := range bs {
		out[i] = hex.EncodeToString(b)
	}
	return out
}

// rawStreams produces malformed byte strings: random, framed garbage, huge /
// truncated length prefixes, valid frame followed by junk.
func rawStreams(r *hx.Rand, valid []byte, n int) [][][]byte {
	var out [][][]byte
	out = append(out,
		[][]byte{{}},                             // empty stream
		[][]byte{{0x00}},                         // zero-length message
		[][]byte{{0xff, 0xff, 0xff, 0xff, 0x0f}}, // length 4 GiB-1, nothing follows
		[][]byte{{0x81, 0x80, 0x40}},             // length 1 MiB + 1
		[][]byte{{0xff, 0xff, 0xff, 0xff, 0xff, 0xff, 0xff, 0xff, 0xff, 0x7f}}, // uvarint overflow
		[][]byte{{0x05, 0x0a}}, // truncated body
	)
	if len(valid) > 0 {
		out = append(out, [][]byte{frame(valid)[:len(frame(valid))-1]}) // valid frame minus last byte
		out = append(out, [][]byte{frame(valid), frame(valid), r.Bytes(7)})
	}
	for i := 0; i < n; i++ {
		switch r.Intn(5) {
		case 0:
			out = append(out, [][]byte{r.Bytes(r.Intn(64))})
		case 1:
			out = append(out, [][]byte{frame(r.Bytes(r.Intn(48)))})
		case 2: // framed field soup: random tags with random wire types
			var b []byte
			for k := r.Intn(6); k >= 0; k-- {
				b = append(b, byte(r.Intn(16)<<3|r.Intn(8)))
				b = append(b, r.Bytes(r.Intn(6))...)
			}
			out = append(out, [][]byte{frame(b)})
		case 3: // mutated valid message
			if len(valid) > 0 {
				m := append([]byte{}, valid...)
				for k := 0; k <= r.Intn(3); k++ {
					m[r.Intn(len(m))] ^= byte(1 << uint(r.Intn(8)))
				}
				out = append(out, [][]byte{frame(m)})
			} else {
				out = append(out, [][]byte{frame(r.Bytes(3))})
			}
		default: // length-delimited field with a length beyond the buffer
			out = append(out, [][]byte{frame([]byte{0x0a, byte(0x80 | r.Intn(128)), byte(1 + r.Intn(100))})})
		}
	}
	return out
}

// ---------------------------------------------------------------- parent: running cases in children

type childProc struct {
	cmd  *exec.Cmd
	in   io.WriteCloser
	out  *bufio.Reader
	errb *bytes.Buffer
}

func startChild() *childProc {
	cmd := exec.Command(os.Args[0], "--c37child")
	cmd.Env = append(os.Environ(), "C37_CHILD=1")
	in, _ := cmd.StdinPipe()
	outp, _ := cmd.StdoutPipe()
	eb := &bytes.Buffer{}
	cmd.Stderr = eb
	if err := cmd.Start(); err != nil {
		panic(err)
	}
	return &childProc{cmd: cmd, in: in, out: bufio.NewReaderSize(outp, 1<<20), errb: eb}
}

func (c *childProc) stop() {
	_ = c.in.Close()
	done := make(chan struct{})
	go func() { _ = c.cmd.Wait(); close(done) }()
	select {
	case <-done:
	case <-time.After(3 * time.Second):
		_ = c.cmd.Process.Kill()
		<-done
	}
}

// runOne sends one case; ok=false when the child died or stopped answering.
func (c *childProc) runOne(cs *Case) (o Obs, ok bool) {
	b, _ := json.Marshal(cs)
	if _, err := c.in.Write(append(b, '\n')); err != nil {
		return o, false
	}
	type res struct {
		line string
		err  error
	}
	ch := make(chan res, 1)
	go func() {
		l, err := c.out.ReadString('\n')
		ch <- res{l, err}
	}()
	select {
	case r := <-ch:
		if r.err != nil {
			return o, false
		}
		if err := json.Unmarshal([]byte(r.line), &o); err != nil {
			return o, false
		}
		return o, true
	case <-time.After(60 * time.Second):
		_ = c.cmd.Process.Kill()
		return Obs{Hang: true}, false
	}
}

// runAll executes the cases in order, restarting the child when it dies; a
// death is attributed by re-running the case in flight alone in a fresh child.
var handlerSecs = map[string]float64{}

func runAll(cases []*Case, note func(string)) []Obs {
	obs := make([]Obs, len(cases))
	var ch *childProc
	crashes := 0
	for i := 0; i < len(cases); i++ {
		if ch == nil {
			ch = startChild()
		}
		t0 := time.Now()
		o, ok := ch.runOne(cases[i])
		handlerSecs[cases[i].H] += time.Since(t0).Seconds()
		if ok {
			obs[i] = o
			continue
		}
		tail := tailOf(ch.errb.String())
		ch.stop()
		ch = nil
		crashes++
		if crashes > 12 { // many crashes (a broken build): attribute to the case in flight without the solo re-run
			obs[i] = Obs{Panic: !o.Hang, Hang: o.Hang, Where: "goroutine", PMsg: firstPanicLine(tail)}
			continue
		}
		// attribute: run case i alone
		solo := startChild()
		o2, ok2 := solo.runOne(cases[i])
		if ok2 {
			// give late goroutines of this case the chance to die
			time.Sleep(150 * time.Millisecond)
			_, alive := solo.runOne(&Case{H: "noop", Kind: "raw", Class: "noop"})
			if alive {
				solo.stop()
				obs[i] = o2
				note(fmt.Sprintf("child died around case %d (%s/%s) but the case alone does not reproduce it: %s", i, cases[i].H, cases[i].Class, tail))
				obs[i].Aux = map[string]int{"unattributed_crash": 1}
				continue
			}
		}
		t2 := tailOf(solo.errb.String())
		solo.stop()
		isPanic := strings.Contains(t2, "panic:") || strings.Contains(t2, "fatal error:") || strings.Contains(tail, "panic:")
		obs[i] = Obs{Panic: isPanic, Hang: !isPanic && o2.Hang, Where: "goroutine", PMsg: firstPanicLine(t2 + "\n" + tail)}
		if !isPanic && !o2.Hang {
			obs[i] = Obs{Panic: true, Where: "goroutine", PMsg: "child exited: " + t2}
		}
	}
	if ch != nil {
		ch.stop()
	}
	return obs
}

func tailOf(s string) string {
	if len(s) > 1500 {
		s = s[:1500]
	}
	return s
}
func firstPanicLine(s string) string {
	for _, l := range strings.Split(s, "\n") {
		if strings.HasPrefix(l, "panic:") || strings.HasPrefix(l, "fatal error:") {
			if len(l) > 200 {
				l = l[:200]
			}
			return l
		}
	}
	return ""
}

// runConcurrentLayer runs the concurrent-delivery layer in its own child process and turns a crash of that
// process, or a recovered panic / unbounded state reported by it, into violations.
func runConcurrentLayer(run *hx.Run) {
	t0 := time.Now()
	cmd := exec.Command(os.Args[0], "--c37conc", fmt.Sprint(run.Seed), run.Tier)
	var so, se bytes.Buffer
	cmd.Stdout, cmd.Stderr = &so, &se
	err := cmd.Start()
	if err != nil {
		panic(err)
	}
	done := make(chan error, 1)
	go func() { done <- cmd.Wait() }()
	limit := 150 * time.Second
	if run.Thorough() {
		limit = 12 * time.Minute
	}
	select {
	case err = <-done:
	case <-time.After(limit):
		_ = cmd.Process.Kill()
		<-done
		run.Violate(hx.Violation{Sig: "hang:concurrent-layer", Detail: "the concurrent-delivery child did not finish", Case: map[string]interface{}{"layer": "concurrent", "seed": run.Seed}})
		return
	}
	seen := ""
	for _, line := range strings.Split(so.String(), "\n") {
		var r concResult
		if json.Unmarshal([]byte(line), &r) != nil || r.Scenario == "" {
			continue
		}
		seen = r.Scenario
		run.OracleChecked(r.Deliveries)
		run.HistN("concurrent."+r.Scenario+".deliveries", r.Deliveries)
		run.HistN("concurrent."+r.Scenario+".rounds", r.Rounds)
		if r.Hangs > 0 {
			run.HistN("concurrent."+r.Scenario+".handlers-not-returned-in-time", r.Hangs)
			run.Note(fmt.Sprintf("concurrent layer %s: %d round(s) with a handler still running at the timeout", r.Scenario, r.Hangs))
		}
		if r.Panics > 0 {
			run.Violate(hx.Violation{Sig: "panic:" + r.Scenario, Detail: fmt.Sprintf("%d handler panic(s) under concurrent delivery (%d deliveries, %d rounds): %s", r.Panics, r.Deliveries, r.Rounds, r.First),
				Case: map[string]interface{}{"layer": "concurrent", "scenario": r.Scenario, "seed": run.Seed, "trace": r.First}, Impl: "panic", Want: "no panic under any interleaving of the streams"})
		}
	}
	stderr := se.String()
	if err != nil || strings.Contains(stderr, "panic:") || strings.Contains(stderr, "fatal error:") {
		// the process died: attribute to the scenario that was running (the one after the last reported)
		next := map[string]string{"": "chunkinfo:concurrent-resp", "chunkinfo:concurrent-resp": "hive2:concurrent-findnode", "hive2:concurrent-findnode": "routetab:concurrent-route",
			"routetab:concurrent-route": "retrieval:concurrent-requests", "retrieval:concurrent-requests": "multicast:concurrent-mix", "multicast:concurrent-mix": "after-all"}[seen]
		tr := stderr
		if i := strings.Index(tr, "panic:"); i >= 0 {
			tr = tr[i:]
		} else if i := strings.Index(tr, "fatal error:"); i >= 0 {
			tr = tr[i:]
		}
		if len(tr) > 3000 {
			tr = tr[:3000]
		}
		run.Violate(hx.Violation{Sig: "panic:" + next, Detail: "the concurrent-delivery child process died (panic outside a handler goroutine or fatal runtime error): " + firstPanicLine(stderr),
			Case: map[string]interface{}{"layer": "concurrent", "scenario": next, "seed": run.Seed, "trace": tr}, Impl: "process death", Want: "no panic under any interleaving of the streams"})
	}
	run.SetExtra("concurrent_layer_s", float64(int(time.Since(t0).Seconds()*10))/10)
}

// ---------------------------------------------------------------- child

func childMain() {
	e := newEnv()
	in := bufio.NewReaderSize(os.Stdin, 4<<20)
	out := bufio.NewWriter(os.Stdout)
	for {
		line, err := in.ReadBytes('\n')
		if len(line) > 0 {
			var c Case
			if jerr := json.Unmarshal(line, &c); jerr != nil {
				fmt.Fprintln(os.Stderr, "bad case:", jerr)
				os.Exit(3)
			}
			var o Obs
			if c.H != "noop" {
				h := handlers[c.H]
				if h == nil {
					fmt.Fprintln(os.Stderr, "unknown handler:", c.H)
					os.Exit(3)
				}
				o = h.run(e, &c)
			}
			b, _ := json.Marshal(o)
			out.Write(b)
			out.WriteByte('\n')
			out.Flush()
		}
		if err != nil {
			return
		}
	}
}

// ---------------------------------------------------------------- main

func main() {
	for _, a := range os.Args[1:] {
		if a == "--c37child" {
			childMain()
			return
		}
		if a == "--c37conc" { // --c37conc <seed> <tier>
			var seed uint64
			fmt.Sscanf(os.Args[len(os.Args)-2], "%d", &seed)
			concMain(seed, os.Args[len(os.Args)-1] == "thorough")
			return
		}
	}
	run := hx.Start("C37", "Aurora.C37.Corr",
		"per handler: (1) corpus = witnesses of every repaired panic, (2) structured messages: every subset of optional sub-messages absent x each bytes/repeated field {valid, empty, short, oversized, inconsistent with node state}, marshalled with the real protobuf encoder, (3) raw malformed byte strings (random, framed garbage, bad length prefixes, mutated valid frames); driven through pkg/p2p/streamtest against the real handler or client read; non-trivial = structured case that reaches the code after the message was decoded; distinct by (handler, scenario, message)")

	var cases []*Case
	concReplay := false
	if run.Replay != "" {
		var probe struct {
			Layer string `json:"layer"`
		}
		_ = run.ReadReplay(&probe)
		if probe.Layer == "concurrent" { // replay of a concurrent-layer finding: re-run that layer with the recorded seed
			concReplay = true
		} else {
			var c Case
			if err := run.ReadReplay(&c); err != nil {
				panic(err)
			}
			cases = []*Case{&c}
		}
	} else {
		cases = generate(run)
	}
	obs := runAll(cases, run.Note)

	perHandler := map[string]int{}
	for i, c := range cases {
		o := &obs[i]
		h := handlers[c.H]
		key := c.H + "|" + c.Scen + "|" + string(c.Msg) + "|" + strings.Join(c.Raw, ",")
		coq, nontriv := "", false
		if h != nil && h.coq != nil && c.Kind == "msg" && !o.Hang {
			coq, nontriv = h.coq(c, o)
		}
		run.AddCase(coq, c, key, nontriv)
		run.Hist(c.H + "." + c.Kind)
		run.Hist(fmt.Sprintf("%s.err=%d", c.H, o.Err))
		perHandler[c.H]++
		// ---- oracle: the property statement on the implementation
		run.OracleChecked(1)
		if o.Panic {
			run.Hist(c.H + ".PANIC")
			run.Violate(hx.Violation{Sig: c.H + ":panic:" + c.Class,
				Detail: fmt.Sprintf("%s panicked (%s) on %s input [%s]: %s", c.H, o.Where, c.Kind, c.Class, o.PMsg),
				Case:   c, Impl: "panic", Want: "stream fails or succeeds without panic"})
		} else if o.Hang {
			run.Violate(hx.Violation{Sig: c.H + ":hang:" + c.Class,
				Detail: fmt.Sprintf("%s did not finish on %s input [%s]", c.H, c.Kind, c.Class),
				Case:   c, Impl: "hang", Want: "handler returns"})
		}
		if o.Aux["unattributed_crash"] != 0 {
			run.Violate(hx.Violation{Sig: c.H + ":crash-unattributed", Detail: "child process died near this case; not reproduced alone", Case: c})
		}
	}
	if run.Replay == "" || concReplay {
		runConcurrentLayer(run)
	}
	names := make([]string, 0, len(perHandler))
	for k := range perHandler {
		names = append(names, k)
	}
	sort.Strings(names)
	run.SetExtra("handlers", names)
	for k, v := range handlerSecs {
		handlerSecs[k] = float64(int(v*10)) / 10
	}
	run.SetExtra("seconds_per_handler", handlerSecs)
	run.Finish()
}
