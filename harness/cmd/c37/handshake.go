package main

// handshake.out = (*handshake.Service).Handshake : the node dials, the remote answers SynAck.
// handshake.in  = (*handshake.Service).Handle    : the remote dials: Syn, then Ack.

import (
	"context"
	"encoding/json"
	"errors"
	"fmt"
	"strings"
	"time"

	"github.com/gauss-project/aurorafs/pkg/aurora"
	"github.com/gauss-project/aurorafs/pkg/boson"
	"github.com/gauss-project/aurorafs/pkg/p2p"
	vx "github.com/gauss-project/aurorafs/pkg/p2p/libp2p/verifexport"
	"github.com/gauss-project/aurorafs/pkg/p2p/streamtest"
	"github.com/gauss-project/aurorafs/pkg/topology/lightnode"
	"github.com/gogo/protobuf/proto"
	libp2ppeer "github.com/libp2p/go-libp2p-core/peer"
	ma "github.com/multiformats/go-multiaddr"

	"verifharness/hx"
)

type hsSyn struct {
	Obs string `json:"obs"`
}
type hsBzz struct {
	U string `json:"u"`
	S string `json:"s"`
	O string `json:"o"`
}
type hsAck struct {
	Addr    *hsBzz `json:"addr"`
	NetID   uint64 `json:"netid"`
	Mode    string `json:"mode"`
	Welcome string `json:"welcome"`
}
type hsMsg struct {
	Syn *hsSyn `json:"syn"`
	Ack *hsAck `json:"ack"`
}

func (m *hsMsg) pbSyn() *vx.H37Syn {
	if m.Syn == nil {
		return nil
	}
	return &vx.H37Syn{ObservedUnderlay: unhex(m.Syn.Obs)}
}
func (m *hsMsg) pbAck() *vx.H37Ack {
	if m.Ack == nil {
		return nil
	}
	a := &vx.H37Ack{NetworkID: m.Ack.NetID, NodeMode: unhex(m.Ack.Mode), WelcomeMessage: m.Ack.Welcome}
	if m.Ack.Addr != nil {
		a.Address = &vx.H37BzzAddress{Underlay: unhex(m.Ack.Addr.U), Signature: unhex(m.Ack.Addr.S), Overlay: unhex(m.Ack.Addr.O)}
	}
	return a
}

type okResolver struct{}

func (okResolver) Resolve(m ma.Multiaddr) (ma.Multiaddr, error) { return m, nil }

type stubPicker bool

func (p stubPicker) Pick(p2p.Peer) bool { return bool(p) }

const (
	hsOK = iota
	hsInvalidSyn
	hsNetID
	hsInvalidAck
	hsNodeMode
	hsPicker
	hsPickerLight
	hsOther
)

func hsClass(err error) int {
	switch {
	case err == nil:
		return hsOK
	case errors.Is(err, vx.H37ErrInvalidSyn):
		return hsInvalidSyn
	case errors.Is(err, vx.H37ErrNetworkIDIncompatible):
		return hsNetID
	case errors.Is(err, vx.H37ErrInvalidAck):
		return hsInvalidAck
	case errors.Is(err, aurora.ErrInvalidNodeMode):
		return hsNodeMode
	case errors.Is(err, vx.H37ErrPicker):
		return hsPicker
	case errors.Is(err, vx.H37ErrPickerLight):
		return hsPickerLight
	}
	return hsOther
}

// newHandshake builds the real service. scen: "p-" no picker, "p1"/"p0" picker answering true/false; "l1" light-node table full.
func newHandshake(e *env, scen string) *vx.H37Service {
	ai, err := libp2ppeer.AddrInfoFromP2pAddr(e.node.ma)
	if err != nil {
		panic(err)
	}
	light := lightnode.NewContainer(e.node.overlay)
	limit := 5
	if strings.Contains(scen, "l1") {
		limit = 0
	}
	svc, err := vx.H37New(e.node.signer, okResolver{}, e.node.overlay, networkID, aurora.NewModel().SetMode(aurora.FullNode), "hi", ai.ID, e.logger, light, limit)
	if err != nil {
		panic(err)
	}
	switch {
	case strings.Contains(scen, "p1"):
		svc.SetPicker(stubPicker(true))
	case strings.Contains(scen, "p0"):
		svc.SetPicker(stubPicker(false))
	}
	return svc
}

// library results on the same bytes: inputs of the model (third-party parsers are not modelled)
func hsOracle(m *hsMsg) map[string]bool {
	o := map[string]bool{}
	if m.Syn != nil {
		a, err := ma.NewMultiaddrBytes(unhex(m.Syn.Obs))
		o["ma"] = err == nil
		if err == nil {
			_, err2 := libp2ppeer.AddrInfoFromP2pAddr(a)
			o["ai"] = err2 == nil
		}
	}
	if m.Ack != nil && m.Ack.Addr != nil {
		_, err := aurora.ParseAddress(unhex(m.Ack.Addr.U), unhex(m.Ack.Addr.O), unhex(m.Ack.Addr.S), networkID)
		o["sig"] = err == nil
	}
	return o
}

func hsChunks(c *Case, inbound bool) ([][]byte, *hsMsg) {
	if c.Kind == "raw" {
		var ch [][]byte
		for _, h := range c.Raw {
			ch = append(ch, rawBytes(h))
		}
		return ch, nil
	}
	var m hsMsg
	if err := json.Unmarshal(c.Msg, &m); err != nil {
		panic(err)
	}
	var ch [][]byte
	if inbound {
		if m.Syn != nil {
			b, _ := proto.Marshal(m.pbSyn())
			ch = append(ch, frame(b))
			if m.Ack != nil {
				b2, _ := proto.Marshal(m.pbAck())
				ch = append(ch, frame(b2))
			}
		}
	} else {
		b, _ := proto.Marshal(&vx.H37SynAck{Syn: m.pbSyn(), Ack: m.pbAck()})
		ch = append(ch, frame(b))
	}
	return ch, &m
}

func runHandshakeOut(e *env, c *Case) Obs {
	svc := newHandshake(e, c.Scen)
	chunks, m := hsChunks(c, false)
	rec := streamtest.New(streamtest.WithProtocols(evilPeer("handshake", "4.0.0", "handshake", chunks)))
	st, err := rec.NewStream(context.Background(), e.peer.overlay, nil, "handshake", "4.0.0", "handshake")
	if err != nil {
		panic(err)
	}
	pai, _ := libp2ppeer.AddrInfoFromP2pAddr(e.peer.ma)
	bare, _ := ma.NewMultiaddr("/ip4/10.1.2.3/tcp/1634")
	r := guardClient(20*time.Second, func() error {
		_, err := svc.Handshake(context.Background(), st, bare, pai.ID)
		return err
	})
	o := Obs{Panic: r.panicked, PMsg: r.pmsg, Hang: r.hang, Where: "client", Err: hsClass(r.err)}
	if m != nil {
		o.Orc = hsOracle(m)
	}
	return o
}

func runHandshakeIn(e *env, c *Case) Obs {
	svc := newHandshake(e, c.Scen)
	chunks, m := hsChunks(c, true)
	pai, _ := libp2ppeer.AddrInfoFromP2pAddr(e.peer.ma)
	bare, _ := ma.NewMultiaddr("/ip4/10.1.2.3/tcp/1634")
	var herr error
	spec := p2p.ProtocolSpec{Name: "handshake", Version: "4.0.0", StreamSpecs: []p2p.StreamSpec{{Name: "handshake",
		Handler: func(ctx context.Context, p p2p.Peer, s p2p.Stream) error {
			_, herr = svc.Handle(ctx, s, bare, pai.ID)
			return herr
		}}}}
	res := driveInbound(spec, "handshake", e.peer.overlay, false, chunks, 20*time.Second)
	o := Obs{Panic: res.panicked, PMsg: res.pmsg, Hang: res.hang, Where: "handler", Err: hsClass(res.err)}
	if m != nil {
		o.Orc = hsOracle(m)
	}
	return o
}

// ---------------------------------------------------------------- Coq terms

func coqOpt(present bool, term string) string {
	if !present {
		return "None"
	}
	return hx.CoqSome(term)
}
func coqOutcome(o *Obs) string {
	if o.Panic {
		return "Panicked"
	}
	return hx.CoqApp("Done", hx.CoqN(uint64(o.Err)))
}
func coqSyn(s *hsSyn) string {
	if s == nil {
		return "None"
	}
	return hx.CoqSome(hx.CoqApp("mkSyn", coqHB(unhex(s.Obs))))
}
func coqAck(a *hsAck) string {
	if a == nil {
		return "None"
	}
	addr := "None"
	if a.Addr != nil {
		addr = hx.CoqSome(hx.CoqApp("mkBzz", coqHB(unhex(a.Addr.U)), coqHB(unhex(a.Addr.S)), coqHB(unhex(a.Addr.O))))
	}
	return hx.CoqSome(hx.CoqApp("mkAck", addr, hx.CoqN(a.NetID), coqHB(unhex(a.Mode)), coqHB([]byte(a.Welcome))))
}
func hsBig(m *hsMsg) bool {
	n := 0
	if m.Syn != nil {
		n += len(m.Syn.Obs)
	}
	if m.Ack != nil {
		n += len(m.Ack.Mode) + len(m.Ack.Welcome)
		if m.Ack.Addr != nil {
			n += len(m.Ack.Addr.U) + len(m.Ack.Addr.S) + len(m.Ack.Addr.O)
		}
	}
	return n > 1400
}
func coqHsOrc(o *Obs) string {
	return hx.CoqApp("mkHsOrc", hx.CoqBool(o.Orc["ma"]), hx.CoqBool(o.Orc["ai"]), hx.CoqBool(o.Orc["sig"]))
}

func coqHandshakeOut(c *Case, o *Obs) (string, bool) {
	var m hsMsg
	_ = json.Unmarshal(c.Msg, &m)
	if hsBig(&m) {
		return "", true
	}
	t := hx.CoqApp("CHsOut", hx.CoqN(networkID), coqHsOrc(o), hx.CoqApp("mkSynAck", coqSyn(m.Syn), coqAck(m.Ack)), coqOutcome(o))
	return t, true
}

func coqHandshakeIn(c *Case, o *Obs) (string, bool) {
	var m hsMsg
	_ = json.Unmarshal(c.Msg, &m)
	if hsBig(&m) {
		return "", true
	}
	picker := "None"
	if strings.Contains(c.Scen, "p1") {
		picker = "(Some true)"
	} else if strings.Contains(c.Scen, "p0") {
		picker = "(Some false)"
	}
	t := hx.CoqApp("CHsIn", hx.CoqN(networkID), picker, hx.CoqBool(strings.Contains(c.Scen, "l1")), coqHsOrc(o), coqSyn(m.Syn), coqAck(m.Ack), coqOutcome(o))
	return t, m.Syn != nil
}

// ---------------------------------------------------------------- generator

func hsClassOf(m *hsMsg, inbound bool) string {
	switch {
	case m.Syn == nil && !inbound:
		return "synack-without-syn"
	case m.Syn == nil:
		return "no-syn"
	case m.Ack == nil && !inbound:
		return "synack-without-ack"
	case m.Ack == nil:
		return "no-ack"
	case m.Ack.Addr == nil:
		return "ack-without-address"
	}
	return "complete-message"
}

func genHandshake(run *hx.Run, add func(*Case)) {
	r := run.R.Fork(0x4853)
	e := newEnv()
	validBzz := &hsBzz{U: hx.Hex(e.peer.maBytes), S: hx.Hex(e.peer.bzz.Signature), O: hx.Hex(e.peer.overlay.Bytes())}
	full := hx.Hex(aurora.NewModel().SetMode(aurora.FullNode).Bv.Bytes())
	light := hx.Hex(aurora.NewModel().Bv.Bytes())
	mk := func(h, scen string, m *hsMsg) {
		b, _ := json.Marshal(m)
		add(&Case{H: h, Kind: "msg", Scen: scen, Msg: b, Class: hsClassOf(m, h == "handshake.in")})
	}
	// --- corpus: witnesses of the repaired nil dereferences
	for _, h := range []string{"handshake.out", "handshake.in"} {
		mk(h, "p1", &hsMsg{Syn: nil, Ack: &hsAck{Addr: validBzz, NetID: networkID, Mode: full}})
		mk(h, "p1", &hsMsg{Syn: &hsSyn{Obs: hx.Hex(e.node.maBytes)}, Ack: nil})
		mk(h, "p1", &hsMsg{Syn: &hsSyn{Obs: hx.Hex(e.node.maBytes)}, Ack: &hsAck{Addr: nil, NetID: networkID, Mode: full}})
		mk(h, "p-", &hsMsg{Syn: &hsSyn{Obs: hx.Hex(e.node.maBytes)}, Ack: &hsAck{Addr: nil, NetID: networkID, Mode: light}})
		mk(h, "p1", &hsMsg{Syn: &hsSyn{Obs: hx.Hex(e.node.maBytes)}, Ack: &hsAck{Addr: validBzz, NetID: networkID, Mode: full, Welcome: "hello"}})
	}
	// --- structured sweep
	flip := func(h string) string {
		b := unhex(h)
		if len(b) > 0 {
			b[len(b)/2] ^= 0x40
		}
		return hx.Hex(b)
	}
	bareMA, _ := ma.NewMultiaddr("/ip4/127.0.0.1/tcp/1634")
	synVariants := []*hsSyn{nil, {Obs: hx.Hex(e.node.maBytes)}, {Obs: ""}, {Obs: hx.Hex(bareMA.Bytes())}, {Obs: hx.Hex(r.Bytes(9))}, {Obs: hx.Hex(e.node.maBytes[:len(e.node.maBytes)-3])}}
	bzzVariants := func() []*hsBzz {
		return []*hsBzz{nil, validBzz,
			{U: validBzz.U, S: flip(validBzz.S), O: validBzz.O},
			{U: validBzz.U, S: "", O: validBzz.O},
			{U: validBzz.U, S: validBzz.S[:40], O: validBzz.O},
			{U: "", S: validBzz.S, O: validBzz.O},
			{U: validBzz.U, S: validBzz.S, O: ""},
			{U: validBzz.U, S: validBzz.S, O: validBzz.O[:10]},
			{U: validBzz.U, S: validBzz.S, O: validBzz.O + "00"},
			{U: hx.Hex(r.Bytes(12)), S: hx.Hex(r.Bytes(65)), O: hx.Hex(r.Bytes(32))},
			{U: "", S: "", O: ""},
		}
	}
	modes := []string{full, light, "", "ff", "0000", hx.Hex(r.Bytes(5))}
	netids := []uint64{networkID, 0, networkID + 1, ^uint64(0)}
	scens := []string{"p-", "p1", "p0", "p1l1", "p-l1", "p0l1"}
	for _, h := range []string{"handshake.out", "handshake.in"} {
		for _, syn := range synVariants {
			mk(h, scens[r.Intn(len(scens))], &hsMsg{Syn: syn, Ack: nil})
			for _, bz := range bzzVariants() {
				for k := 0; k < run.N(1, 6); k++ {
					mk(h, scens[r.Intn(len(scens))], &hsMsg{Syn: syn, Ack: &hsAck{Addr: bz, NetID: netids[r.Pick([]int{0, 0, 0, 1, 2, 3})], Mode: modes[r.Pick([]int{0, 0, 1, 1, 2, 3, 4, 5})], Welcome: strings.Repeat("w", r.Pick([]int{0, 0, 5, 141}))}})
				}
			}
		}
		// every scenario on the fully valid message and on the address-less one
		for _, sc := range scens {
			for _, md := range []string{full, light} {
				mk(h, sc, &hsMsg{Syn: synVariants[1], Ack: &hsAck{Addr: validBzz, NetID: networkID, Mode: md}})
				mk(h, sc, &hsMsg{Syn: synVariants[1], Ack: &hsAck{Addr: nil, NetID: networkID, Mode: md}})
			}
		}
		// oversized fields (beyond and just below the 1 MiB frame limit): oracle only
		big := hx.Hex(make([]byte, 1<<20))
		mk(h, "p1", &hsMsg{Syn: &hsSyn{Obs: big}, Ack: &hsAck{Addr: validBzz, NetID: networkID, Mode: full}})
		mk(h, "p1", &hsMsg{Syn: synVariants[1], Ack: &hsAck{Addr: &hsBzz{U: big, S: validBzz.S, O: validBzz.O}, NetID: networkID, Mode: full}})
		mk(h, "p1", &hsMsg{Syn: synVariants[1], Ack: &hsAck{Addr: &hsBzz{U: validBzz.U, S: validBzz.S, O: hx.Hex(make([]byte, 70000))}, NetID: networkID, Mode: full}})
		mk(h, "p1", &hsMsg{Syn: synVariants[1], Ack: &hsAck{Addr: validBzz, NetID: networkID, Mode: hx.Hex(make([]byte, 300000)), Welcome: strings.Repeat("x", 5000)}})
		// --- raw malformed streams
		valid, _ := proto.Marshal(&vx.H37SynAck{Syn: (&hsMsg{Syn: synVariants[1]}).pbSyn(), Ack: (&hsMsg{Ack: &hsAck{Addr: validBzz, NetID: networkID, Mode: full}}).pbAck()})
		if h == "handshake.in" {
			valid, _ = proto.Marshal((&hsMsg{Syn: synVariants[1]}).pbSyn())
		}
		for _, chunks := range rawStreams(r, valid, run.N(15, 600)) {
			add(&Case{H: h, Kind: "raw", Scen: "p1", Raw: hexes(chunks...), Class: "raw-bytes"})
		}
	}
	_ = boson.ZeroAddress
	_ = fmt.Sprint
}

func init() {
	register(&handlerDef{id: "handshake.out", run: runHandshakeOut, coq: coqHandshakeOut})
	register(&handlerDef{id: "handshake.in", run: runHandshakeIn, coq: coqHandshakeIn})
}
