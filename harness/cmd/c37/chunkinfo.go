package main

// chunkinfo.resp    = (*ChunkInfo).handlerChunkInfoResp  -> onChunkInfoResp -> onFindChunkInfo -> updateQueue -> updateChunkInfo (background goroutine)
// chunkinfo.req     = (*ChunkInfo).handlerChunkInfoReq
// chunkinfo.pyramid = (*ChunkInfo).handlerPyramid        (serving side; relaying side reads the target's ChunkPyramidResp stream = client read)
// Real ChunkInfo on a real traversal service over a mock chunk store holding one uploaded file (manifest + 3 data chunks).

import (
	"bytes"
	"context"
	"encoding/json"
	"sort"
	"sync"
	"time"

	"github.com/gauss-project/aurorafs/pkg/boson"
	"github.com/gauss-project/aurorafs/pkg/chunkinfo"
	cpb "github.com/gauss-project/aurorafs/pkg/chunkinfo/pb"
	"github.com/gauss-project/aurorafs/pkg/file/loadsave"
	"github.com/gauss-project/aurorafs/pkg/file/pipeline"
	"github.com/gauss-project/aurorafs/pkg/file/pipeline/builder"
	"github.com/gauss-project/aurorafs/pkg/manifest"
	"github.com/gauss-project/aurorafs/pkg/p2p"
	"github.com/gauss-project/aurorafs/pkg/p2p/streamtest"
	rmock "github.com/gauss-project/aurorafs/pkg/routetab/mock"
	omock "github.com/gauss-project/aurorafs/pkg/settlement/chain/oracle/mock"
	"github.com/gauss-project/aurorafs/pkg/statestore/leveldb"
	"github.com/gauss-project/aurorafs/pkg/storage"
	smock "github.com/gauss-project/aurorafs/pkg/storage/mock"
	"github.com/gauss-project/aurorafs/pkg/subscribe"
	"github.com/gauss-project/aurorafs/pkg/traversal"
	"github.com/gogo/protobuf/proto"

	"verifharness/hx"
)

const fileChunks = 3 // data chunks of the uploaded file -> presence vectors are 1 byte (3 bits)

type fileEnv struct {
	store   storage.Storer
	trav    traversal.Traverser
	root    boson.Address // manifest reference (the "rootCid" of the protocol)
	fileRef boson.Address // the file's own root chunk (not a manifest)
	nChunks int           // chunkMax as ChunkInfo counts it
	leaf    boson.Address // one data chunk of the file
}

func (e *env) file() *fileEnv {
	return e.part("file", func() interface{} {
		ctx := context.Background()
		st := smock.NewStorer()
		data := make([]byte, boson.ChunkSize*fileChunks) // three distinct data chunks
		rnd := hx.NewRand(0xc37)
		for i := 0; i < len(data); i += 8 {
			v := rnd.U64()
			for k := 0; k < 8; k++ {
				data[i+k] = byte(v >> uint(8*k))
			}
		}
		pipe := builder.NewPipelineBuilder(ctx, st, storage.ModePutUpload, false)
		fr, err := builder.FeedPipeline(ctx, pipe, bytes.NewReader(data))
		if err != nil {
			panic(err)
		}
		ls := loadsave.New(st, func() pipeline.Interface { return builder.NewPipelineBuilder(ctx, st, storage.ModePutRequest, false) })
		m, err := manifest.NewDefaultManifest(ls, false)
		if err != nil {
			panic(err)
		}
		name := fr.String()
		if err := m.Add(ctx, "/", manifest.NewEntry(boson.ZeroAddress, map[string]string{manifest.WebsiteIndexDocumentSuffixKey: name, manifest.EntryMetadataDirnameKey: name})); err != nil {
			panic(err)
		}
		if err := m.Add(ctx, name, manifest.NewEntry(fr, map[string]string{manifest.EntryMetadataFilenameKey: name, manifest.EntryMetadataContentTypeKey: "text/plain"})); err != nil {
			panic(err)
		}
		root, err := m.Store(ctx)
		if err != nil {
			panic(err)
		}
		f := &fileEnv{store: st, trav: traversal.New(st), root: root, fileRef: fr}
		hashes, _, err := f.trav.GetChunkHashes(ctx, root, nil)
		if err != nil {
			panic(err)
		}
		seen := map[string]bool{}
		for _, p := range hashes {
			for _, x := range p {
				seen[string(x)] = true
				f.leaf = boson.NewAddress(x)
			}
		}
		f.nChunks = len(seen)
		return f
	}).(*fileEnv)
}

type ciNode struct {
	ci  *chunkinfo.ChunkInfo
	rec *streamtest.Recorder
	mu  sync.Mutex
}

// evil chunkinfo peer: swallows req/resp streams; on the pyramid stream answers with pyramidReply
func evilChunkinfoPeer(pyramidReply [][]byte) p2p.ProtocolSpec {
	sink := func(ctx context.Context, p p2p.Peer, s p2p.Stream) error { return s.Close() }
	return p2p.ProtocolSpec{Name: "chunkinfo", Version: "2.0.0", StreamSpecs: []p2p.StreamSpec{
		{Name: "chunkinforeq", Handler: sink},
		{Name: "chunkinforesp", Handler: sink},
		{Name: "chunkpyramid", Handler: func(ctx context.Context, p p2p.Peer, s p2p.Stream) error {
			for _, c := range pyramidReply {
				if len(c) > 0 {
					if _, err := s.Write(c); err != nil {
						return nil
					}
				}
			}
			return s.Close()
		}},
	}}
}

// scen: "fresh" | "pyramid" (pyramid of the file known) | "disc" (pyramid known + discovery of the root running: queue exists)
//
//	| "disc2" (as disc, and a presence vector from the peer is already on file)
func newCINode(e *env, scen string, pyramidReply [][]byte) *ciNode {
	f := e.file()
	store, err := leveldb.NewInMemoryStateStore(e.logger)
	if err != nil {
		panic(err)
	}
	rec := streamtest.New(streamtest.WithProtocols(evilChunkinfoPeer(pyramidReply)), streamtest.WithBaseAddr(e.node.overlay))
	route := rmock.NewMockRouteTable()
	n := &ciNode{rec: rec}
	n.ci = chunkinfo.New(e.node.overlay, relayStreamer{rec}, e.logger, f.trav, store, f.store, &route, omock.NewServer(), nil, subscribe.NewSubPub())
	if err := n.ci.InitChunkInfo(); err != nil {
		panic(err)
	}
	if scen == "fresh" {
		return n
	}
	// learn the pyramid from the local store (target == self: no network)
	if err := n.ci.OnChunkTransferred(f.fileRef, f.root, e.peer.overlay, e.node.overlay); err != nil {
		panic("pyramid setup: " + err.Error())
	}
	if scen == "pyramid" {
		return n
	}
	go n.ci.FindChunkInfo(context.Background(), nil, f.root, []boson.Address{e.peer.overlay})
	// wait until the request reached the peer: the queue exists and the peer is in Pulling
	deadline := time.Now().Add(5 * time.Second)
	for time.Now().Before(deadline) {
		if recs, err := rec.Records(e.peer.overlay, "chunkinfo", "2.0.0", "chunkinforeq"); err == nil && len(recs) > 0 {
			break
		}
		time.Sleep(5 * time.Millisecond)
	}
	if scen == "disc2" {
		b, _ := proto.Marshal(&cpb.ChunkInfoResp{RootCid: f.root.Bytes(), Target: e.peer.overlay.Bytes(), Req: e.node.overlay.Bytes(),
			Presence: map[string][]byte{e.peer.overlay.String(): {0x01}}})
		r := driveInbound(n.ci.Protocol(), "chunkinforesp", e.peer.overlay, false, [][]byte{frame(b)}, 10*time.Second)
		if r.panicked || r.hang {
			panic("disc2 setup failed")
		}
	}
	return n
}

// settle: a no-op request through the discover worker's channel; returns once everything queued before it was executed
func (n *ciNode) settle(root boson.Address) {
	done := make(chan struct{})
	go func() {
		n.ci.GetChunkInfoDiscoverOverlays(root)
		n.ci.DelDiscover(boson.NewAddress([]byte{0xfa, 0xfb}))
		close(done)
	}()
	select {
	case <-done:
	case <-time.After(3 * time.Second):
	}
}

type ciKV struct {
	K string `json:"k"` // hex of the key bytes (keys are arbitrary strings)
	V string `json:"v"` // hex
}
type ciMsg struct {
	Root     string  `json:"root"`
	Target   string  `json:"target"`
	Req      string  `json:"req"`
	Presence []ciKV  `json:"presence,omitempty"`
	Pyramid  []ciPyr `json:"pyramid,omitempty"` // chunkinfo.pyramid: what the relay target answers
	Pre      []ciMsg `json:"pre,omitempty"`     // earlier ChunkInfoResp messages of the same peer
	// chunkinfo.pyramid: the relay target answers with the honest pyramid of the uploaded file (expanded in the child)
	RealPyramid bool `json:"realpyramid,omitempty"`
}
type ciPyr struct {
	Hash  string `json:"hash"`
	Chunk string `json:"chunk"`
	Ok    bool   `json:"ok"`
}

func rawChunks(c *Case) [][]byte {
	var ch [][]byte
	for _, h := range c.Raw {
		ch = append(ch, rawBytes(h))
	}
	return ch
}

func ciRespBytes(m *ciMsg) []byte {
	pm := &cpb.ChunkInfoResp{RootCid: unhex(m.Root), Target: unhex(m.Target), Req: unhex(m.Req)}
	if m.Presence != nil {
		pm.Presence = map[string][]byte{}
		for _, kv := range m.Presence {
			pm.Presence[string(unhex(kv.K))] = unhex(kv.V)
		}
	}
	b, _ := proto.Marshal(pm)
	return b
}

func runCIResp(e *env, c *Case) Obs {
	f := e.file()
	n := newCINode(e, c.Scen, nil)
	var chunks [][]byte
	if c.Kind == "raw" {
		chunks = rawChunks(c)
	} else {
		var m ciMsg
		_ = json.Unmarshal(c.Msg, &m)
		for pi := range m.Pre {
			pr := driveInbound(n.ci.Protocol(), "chunkinforesp", e.peer.overlay, false, [][]byte{frame(ciRespBytes(&m.Pre[pi]))}, 20*time.Second)
			n.settle(f.root)
			if pr.panicked || pr.hang {
				return Obs{Panic: pr.panicked, PMsg: pr.pmsg, Hang: pr.hang, Where: "handler(pre)"}
			}
		}
		chunks = [][]byte{frame(ciRespBytes(&m))}
	}
	res := driveInbound(n.ci.Protocol(), "chunkinforesp", e.peer.overlay, false, chunks, 20*time.Second)
	n.settle(f.root)
	o := Obs{Panic: res.panicked, PMsg: res.pmsg, Hang: res.hang, Where: "handler", Err: errBit(res.err)}
	if !o.Panic && !o.Hang {
		// deferred use of the state the message created (retrieval asks where a chunk can be fetched)
		r := guardClient(5*time.Second, func() error {
			n.ci.GetChunkInfo(f.root, f.fileRef)
			n.ci.GetChunkInfoDiscoverOverlays(f.root)
			return nil
		})
		if r.panicked {
			o.Panic, o.PMsg, o.Where = true, r.pmsg, "deferred"
		}
	}
	return o
}

func runCIReq(e *env, c *Case) Obs {
	n := newCINode(e, c.Scen, nil)
	var chunks [][]byte
	if c.Kind == "raw" {
		chunks = rawChunks(c)
	} else {
		var m ciMsg
		_ = json.Unmarshal(c.Msg, &m)
		b, _ := proto.Marshal(&cpb.ChunkInfoReq{RootCid: unhex(m.Root), Target: unhex(m.Target), Req: unhex(m.Req)})
		chunks = [][]byte{frame(b)}
	}
	res := driveInbound(n.ci.Protocol(), "chunkinforeq", e.peer.overlay, false, chunks, 20*time.Second)
	return Obs{Panic: res.panicked, PMsg: res.pmsg, Hang: res.hang, Where: "handler", Err: errBit(res.err)}
}

func runCIPyramid(e *env, c *Case) Obs {
	f := e.file()
	var chunks, reply [][]byte
	var m *ciMsg
	if c.Kind == "raw" {
		// raw: the bytes are the TARGET's answer to a relayed request (client read)
		reply = rawChunks(c)
		b, _ := proto.Marshal(&cpb.ChunkPyramidReq{RootCid: bytes.Repeat([]byte{7}, 32), Target: e.peer.overlay.Bytes()})
		chunks = [][]byte{frame(b)}
		if c.Scen == "rawreq" {
			chunks, reply = reply, nil
		}
	} else {
		m = &ciMsg{}
		_ = json.Unmarshal(c.Msg, m)
		b, _ := proto.Marshal(&cpb.ChunkPyramidReq{RootCid: unhex(m.Root), Target: unhex(m.Target)})
		chunks = [][]byte{frame(b)}
		if m.RealPyramid { // the honest pyramid of the uploaded file, entry order fixed, then the Ok marker
			py, _ := f.trav.GetPyramid(context.Background(), f.root)
			keys := make([]string, 0, len(py))
			for k := range py {
				keys = append(keys, k)
			}
			sort.Strings(keys)
			for _, k := range keys {
				m.Pyramid = append(m.Pyramid, ciPyr{Hash: k, Chunk: hx.Hex(py[k])})
			}
			m.Pyramid = append(m.Pyramid, ciPyr{Ok: true})
		}
		for _, p := range m.Pyramid {
			pb, _ := proto.Marshal(&cpb.ChunkPyramidResp{Hash: unhex(p.Hash), Chunk: unhex(p.Chunk), Ok: p.Ok})
			reply = append(reply, frame(pb))
		}
	}
	scen := c.Scen
	if scen == "rawreq" {
		scen = "pyramid"
	}
	n := newCINode(e, scen, reply)
	o := Obs{Where: "handler", Orc: map[string]bool{}, Lists: map[string][]string{}}
	if m != nil {
		// the part of the node state / library answers the front depends on, taken before the message arrives
		root := boson.NewAddress(unhex(m.Root))
		o.Orc["root_known"] = scen != "fresh" && root.Equal(f.root)
		if py, err := f.trav.GetPyramid(context.Background(), root); err == nil {
			o.Orc["local_ok"] = true
			for k := range py {
				o.Lists["local"] = append(o.Lists["local"], k)
			}
			sort.Strings(o.Lists["local"])
		}
		// what traversal says about the relayed pyramid (collected entries up to the first Ok), on a separate store
		pm := map[string][]byte{}
		for _, p := range m.Pyramid {
			if p.Ok {
				break
			}
			pm[boson.NewAddress(unhex(p.Hash)).String()] = unhex(p.Chunk)
		}
		tr := traversal.New(smock.NewStorer())
		hashes, pieces, err := func() (h [][][]byte, p [][]byte, err error) {
			defer func() {
				if recover() != nil {
					err = context.Canceled
				}
			}()
			return tr.GetChunkHashes(context.Background(), root, pm)
		}()
		o.Orc["trav_ok"] = err == nil
		if err == nil {
			for _, hs := range hashes {
				for _, x := range hs {
					o.Lists["hashes"] = append(o.Lists["hashes"], hx.Hex(x))
				}
			}
			for _, x := range pieces {
				o.Lists["cids"] = append(o.Lists["cids"], hx.Hex(x))
			}
		}
	}
	res := driveInbound(n.ci.Protocol(), "chunkpyramid", e.peer.overlay, false, chunks, 45*time.Second)
	n.settle(f.root)
	o.Panic, o.PMsg, o.Hang, o.Err = res.panicked, res.pmsg, res.hang, errBit(res.err)
	o.Aux = map[string]int{"replies": countFrames(res.reply)}
	return o
}

func coqCIPyramid(c *Case, o *Obs) (string, bool) {
	var m ciMsg
	_ = json.Unmarshal(c.Msg, &m)
	n, _ := idents()
	if m.RealPyramid {
		f := newEnv().file()
		py, _ := f.trav.GetPyramid(context.Background(), f.root)
		keys := make([]string, 0, len(py))
		for k := range py {
			keys = append(keys, k)
		}
		sort.Strings(keys)
		for _, k := range keys {
			m.Pyramid = append(m.Pyramid, ciPyr{Hash: k, Chunk: ""}) // chunk bodies are not inspected by the model: left out of the Coq term
		}
		m.Pyramid = append(m.Pyramid, ciPyr{Ok: true})
	}
	sz := len(m.Root) + len(m.Target)
	var rs []string
	for _, p := range m.Pyramid {
		sz += len(p.Hash) + len(p.Chunk)
		rs = append(rs, hx.CoqApp("mkPyrResp", coqHB(unhex(p.Chunk)), coqHB(unhex(p.Hash)), hx.CoqBool(p.Ok)))
	}
	if sz > 2500 {
		return "", true
	}
	local := "None"
	if o.Orc["local_ok"] {
		local = hx.CoqSome(coqBytesList(o.Lists["local"]))
	}
	st := hx.CoqApp("mkPyrState", coqHB(n.overlay.Bytes()), hx.CoqBool(o.Orc["root_known"]), local)
	tv := hx.CoqApp("mkTrav", hx.CoqBool(o.Orc["trav_ok"]), coqBytesList(o.Lists["hashes"]), coqBytesList(o.Lists["cids"]))
	return hx.CoqApp("CCIPyramid", st, hx.CoqApp("mkPyrReq", coqHB(unhex(m.Root)), coqHB(unhex(m.Target))), hx.CoqList(rs, "pyr_resp"), tv,
		coqOutcome(o), hx.CoqZ(int64(o.Aux["replies"]))), true
}

// ---------------------------------------------------------------- Coq

func coqCIResp(c *Case, o *Obs) (string, bool) {
	var m ciMsg
	_ = json.Unmarshal(c.Msg, &m)
	n, p := idents()
	f := newEnvFileInfo()
	if len(m.Pre) > 0 {
		return "", true // queue / on-file state after earlier responses: oracle only
	}
	tot := len(m.Root) + len(m.Target) + len(m.Req)
	var kvs []string
	for _, kv := range m.Presence {
		tot += len(kv.K) + len(kv.V)
		kvs = append(kvs, hx.CoqPair(coqHB(unhex(kv.K)), coqHB(unhex(kv.V))))
	}
	if tot > 1500 {
		return "", true
	}
	pres := "None"
	if m.Presence != nil {
		pres = hx.CoqSome(hx.CoqList(kvs, "list N * list N"))
	}
	// state: chunk count known for this root? queue exists? presence vector of (root, target) on file (its byte length)?
	known := "None"
	queue := false
	onfile := "None"
	if c.Scen != "fresh" && m.Root == hx.Hex(f.root) {
		known = hx.CoqSome(hx.CoqN(uint64(f.nChunks)))
		if c.Scen == "disc" || c.Scen == "disc2" {
			queue = true
		}
		if c.Scen == "disc2" && m.Target == hx.Hex(p.overlay.Bytes()) {
			onfile = "(Some 1%nat)"
		}
	}
	st := hx.CoqApp("mkCIState", coqHB(n.overlay.Bytes()), known, hx.CoqBool(queue), onfile)
	msg := hx.CoqApp("mkCIResp", coqHB(unhex(m.Root)), coqHB(unhex(m.Target)), coqHB(unhex(m.Req)), pres)
	return hx.CoqApp("CCIResp", st, msg, coqOutcome(o)), m.Req == hx.Hex(n.overlay.Bytes())
}

var (
	fiOnce sync.Once
	fiVal  struct {
		root    []byte
		fileRef []byte
		nChunks int
		leaf    []byte
	}
)

// newEnvFileInfo: the parent needs the file's addresses for generation and Coq emission
func newEnvFileInfo() *struct {
	root    []byte
	fileRef []byte
	nChunks int
	leaf    []byte
} {
	fiOnce.Do(func() {
		f := newEnv().file()
		fiVal.root, fiVal.fileRef, fiVal.nChunks, fiVal.leaf = f.root.Bytes(), f.fileRef.Bytes(), f.nChunks, f.leaf.Bytes()
	})
	return &fiVal
}

func coqCIReq(c *Case, o *Obs) (string, bool) {
	var m ciMsg
	_ = json.Unmarshal(c.Msg, &m)
	n, _ := idents()
	if len(m.Root)+len(m.Target)+len(m.Req) > 1500 {
		return "", true
	}
	return hx.CoqApp("CCIReq", coqHB(n.overlay.Bytes()), hx.CoqApp("mkCIReq", coqHB(unhex(m.Root)), coqHB(unhex(m.Target)), coqHB(unhex(m.Req))), coqOutcome(o)), true
}

// ---------------------------------------------------------------- generator

func genChunkinfo(run *hx.Run, add func(*Case)) {
	r := run.R.Fork(0x4349)
	n, p := idents()
	f := newEnvFileInfo()
	self, peer, root := hx.Hex(n.overlay.Bytes()), hx.Hex(p.overlay.Bytes()), hx.Hex(f.root)
	peerKey := hx.Hex([]byte(p.overlay.String()))
	mk := func(h, scen, cls string, m *ciMsg) {
		b, _ := json.Marshal(m)
		add(&Case{H: h, Kind: "msg", Scen: scen, Msg: b, Class: cls})
	}
	// ---- corpus: the two repaired panics
	mk("chunkinfo.resp", "disc", "presence-key-not-hex", &ciMsg{Root: root, Target: peer, Req: self, Presence: []ciKV{{K: hx.Hex([]byte("zz")), V: "07"}}})
	mk("chunkinfo.resp", "disc", "presence-vector-too-short", &ciMsg{Root: root, Target: peer, Req: self, Presence: []ciKV{{K: peerKey, V: ""}}})
	mk("chunkinfo.resp", "pyramid", "presence-vector-too-short", &ciMsg{Root: root, Target: peer, Req: self, Presence: []ciKV{{K: peerKey, V: ""}}})
	// ---- structured sweep of ChunkInfoResp
	keys := []struct{ cls, k string }{
		{"presence-key-peer", peerKey}, {"presence-key-not-hex", hx.Hex([]byte("zz"))}, {"presence-key-odd-hex", hx.Hex([]byte("abc"))},
		{"presence-key-empty", ""}, {"presence-key-upper-hex", hx.Hex([]byte("ABCD"))}, {"presence-key-self", hx.Hex([]byte(n.overlay.String()))},
		{"presence-key-binary", "00ff80"}, {"presence-key-other-peer", hx.Hex([]byte("0102030405"))}, {"presence-key-long", hx.Hex(bytes.Repeat([]byte("ab"), 200))},
	}
	vals := []struct{ cls, v string }{{"vector-exact", "05"}, {"vector-too-short", ""}, {"vector-longer", "0500"}, {"vector-ff", "ff"}, {"vector-long", hx.Hex(make([]byte, 300))}}
	scens := []string{"disc", "pyramid", "fresh", "disc2"}
	roots := []string{root, "", hx.Hex(f.fileRef), hx.Hex(r.Bytes(32)), root[:20]}
	for _, sc := range scens {
		mk("chunkinfo.resp", sc, "presence-absent", &ciMsg{Root: root, Target: peer, Req: self})
		mk("chunkinfo.resp", sc, "presence-empty-map", &ciMsg{Root: root, Target: peer, Req: self, Presence: []ciKV{}})
		for _, k := range keys {
			for vi, v := range vals {
				if vi > 1 && !run.Thorough() && r.Intn(3) != 0 {
					continue
				}
				mk("chunkinfo.resp", sc, k.cls+"+"+v.cls, &ciMsg{Root: root, Target: peer, Req: self, Presence: []ciKV{{K: k.k, V: v.v}}})
			}
		}
		// two entries: the peer's own vector plus a second key
		for _, k := range keys[1:6] {
			mk("chunkinfo.resp", sc, "two-entries+"+k.cls, &ciMsg{Root: root, Target: peer, Req: self, Presence: []ciKV{{K: peerKey, V: "03"}, {K: k.k, V: "01"}}})
		}
		// other roots / targets / req (relay branch)
		for _, rt := range roots[1:] {
			mk("chunkinfo.resp", sc, "other-root", &ciMsg{Root: rt, Target: peer, Req: self, Presence: []ciKV{{K: peerKey, V: "05"}, {K: hx.Hex([]byte("zz")), V: ""}}})
		}
		mk("chunkinfo.resp", sc, "target-empty", &ciMsg{Root: root, Target: "", Req: self, Presence: []ciKV{{K: "", V: ""}}})
		mk("chunkinfo.resp", sc, "target-short", &ciMsg{Root: root, Target: "0102", Req: self, Presence: []ciKV{{K: hx.Hex([]byte("0102")), V: "01"}}})
		mk("chunkinfo.resp", sc, "req-other-node", &ciMsg{Root: root, Target: peer, Req: peer, Presence: []ciKV{{K: hx.Hex([]byte("zz")), V: ""}}})
		mk("chunkinfo.resp", sc, "req-empty", &ciMsg{Root: root, Target: peer, Req: "", Presence: []ciKV{{K: hx.Hex([]byte("zz")), V: ""}}})
	}
	// ---- SEQUENCES: a first response advertises overlays of mixed length (hex keys of 0, 1, 31, 32, 33 bytes; short
	// ones prefixes of the long one) with vectors of every size; they enter the discovery queue and are asked in turn;
	// later responses come "from" those odd overlays
	long := append(append([]byte{}, p.overlay.Bytes()[:1]...), r.Bytes(32)...)
	ovs := [][]byte{long[:32], long[:1], long[:31], long, {}}
	var adv []ciKV
	for i, o := range ovs {
		adv = append(adv, ciKV{K: hx.Hex([]byte(hx.Hex(o))), V: []string{"05", "", "0500", "ff", "01"}[i]})
	}
	adv = append(adv, ciKV{K: peerKey, V: "03"})
	for _, sc := range []string{"disc", "pyramid"} {
		for i, o := range ovs {
			if !run.Thorough() && i > 1 && r.Intn(2) != 0 {
				continue
			}
			first := ciMsg{Root: root, Target: peer, Req: self, Presence: adv}
			mk("chunkinfo.resp", sc, "mixed-length-overlays-then-response", &ciMsg{Root: root, Target: hx.Hex(o), Req: self,
				Presence: []ciKV{{K: hx.Hex([]byte(hx.Hex(o))), V: []string{"07", "", "0000"}[r.Intn(3)]}, {K: hx.Hex([]byte(hx.Hex(ovs[(i+1)%5]))), V: "01"}}, Pre: []ciMsg{first}})
		}
	}
	vresp, _ := proto.Marshal(&cpb.ChunkInfoResp{RootCid: f.root, Target: p.overlay.Bytes(), Req: n.overlay.Bytes(), Presence: map[string][]byte{p.overlay.String(): {5}}})
	for _, chunks := range rawStreams(r, vresp, run.N(15, 300)) {
		add(&Case{H: "chunkinfo.resp", Kind: "raw", Scen: "disc", Raw: hexes(chunks...), Class: "raw-bytes"})
	}
	// ---- ChunkInfoReq
	for _, sc := range []string{"pyramid", "fresh"} {
		for _, rt := range roots {
			for _, tg := range []string{self, peer, "", "01"} {
				for _, rq := range []string{peer, "", self} {
					if !run.Thorough() && r.Intn(3) != 0 {
						continue
					}
					mk("chunkinfo.req", sc, "chunk-info-request", &ciMsg{Root: rt, Target: tg, Req: rq})
				}
			}
		}
	}
	vreq, _ := proto.Marshal(&cpb.ChunkInfoReq{RootCid: f.root, Target: n.overlay.Bytes(), Req: p.overlay.Bytes()})
	for _, chunks := range rawStreams(r, vreq, run.N(10, 300)) {
		add(&Case{H: "chunkinfo.req", Kind: "raw", Scen: "pyramid", Raw: hexes(chunks...), Class: "raw-bytes"})
	}
	// ---- pyramid: serving side with odd roots, relaying side with malformed answers
	for _, sc := range []string{"pyramid", "fresh"} {
		for _, rt := range roots {
			mk("chunkinfo.pyramid", sc, "pyramid-request-to-self", &ciMsg{Root: rt, Target: self})
		}
	}
	unknown := hx.Hex(bytes.Repeat([]byte{7}, 32))
	pyrs := [][]ciPyr{
		nil,
		{{Ok: true}},
		{{Hash: unknown, Chunk: "", Ok: false}, {Ok: true}},
		{{Hash: unknown, Chunk: hx.Hex(r.Bytes(40)), Ok: false}, {Ok: true}},
		{{Hash: "", Chunk: "", Ok: false}, {Hash: "01", Chunk: "00", Ok: false}, {Ok: true}},
		{{Hash: unknown, Chunk: "0000000000000000", Ok: false}, {Ok: true}},
		{{Hash: unknown, Chunk: hx.Hex(append([]byte{8, 0, 0, 0, 0, 0, 0, 0}, r.Bytes(8)...)), Ok: false}, {Ok: true}},
		{{Hash: unknown, Chunk: hx.Hex(append([]byte{0xff, 0xff, 0xff, 0xff, 0xff, 0xff, 0xff, 0xff}, r.Bytes(64)...)), Ok: false}, {Ok: true}},
		{{Hash: unknown, Chunk: hx.Hex(make([]byte, 5000)), Ok: true}},
	}
	for _, py := range pyrs {
		mk("chunkinfo.pyramid", "fresh", "pyramid-relay-answer", &ciMsg{Root: unknown, Target: peer, Pyramid: py})
	}
	// the honest pyramid of the file relayed to a node that does not know it yet: accepted, books updated
	mk("chunkinfo.pyramid", "fresh", "pyramid-relay-answer-valid", &ciMsg{Root: root, Target: peer, RealPyramid: true})
	mk("chunkinfo.pyramid", "fresh", "pyramid-relay-answer-valid-other-root", &ciMsg{Root: unknown, Target: peer, RealPyramid: true})
	mk("chunkinfo.pyramid", "pyramid", "pyramid-request-known-root-other-target", &ciMsg{Root: root, Target: peer})
	for _, tg := range []string{"", "01", hx.Hex(make([]byte, 64))} {
		mk("chunkinfo.pyramid", "fresh", "pyramid-relay-odd-target", &ciMsg{Root: unknown, Target: tg, Pyramid: pyrs[2]})
	}
	vp, _ := proto.Marshal(&cpb.ChunkPyramidResp{Hash: bytes.Repeat([]byte{7}, 32), Chunk: []byte{1, 2, 3}, Ok: true})
	for _, chunks := range rawStreams(r, vp, run.N(10, 300)) {
		add(&Case{H: "chunkinfo.pyramid", Kind: "raw", Scen: "fresh", Raw: hexes(chunks...), Class: "raw-bytes"})
	}
	vq, _ := proto.Marshal(&cpb.ChunkPyramidReq{RootCid: f.root, Target: n.overlay.Bytes()})
	for _, chunks := range rawStreams(r, vq, run.N(8, 200)) {
		add(&Case{H: "chunkinfo.pyramid", Kind: "raw", Scen: "rawreq", Raw: hexes(chunks...), Class: "raw-bytes"})
	}
}

func init() {
	register(&handlerDef{id: "chunkinfo.resp", run: runCIResp, coq: coqCIResp})
	register(&handlerDef{id: "chunkinfo.req", run: runCIReq, coq: coqCIReq})
	register(&handlerDef{id: "chunkinfo.pyramid", run: runCIPyramid, coq: coqCIPyramid})
	generators = append(generators, genChunkinfo)
}
