package main

// routetab.req = onRouteReq, routetab.resp = onRouteResp, routetab.underlay = onFindUnderlay,
// routetab.connchain = onRelayConnChain (front up to the hand-off to p2p.CallHandlerWithConnChain / the next hop),
// routetab.findunderlay = FindUnderlay (client read of UnderlayResp).
// (onRelay hands the stream to pkg/p2p/libp2p CallHandler before reading anything: not reachable without libp2p.)
// Real routetab.Service on the real kademlia / address book of net.go.

import (
	"context"
	"encoding/json"
	"time"

	"github.com/gauss-project/aurorafs/pkg/aurora"
	"github.com/gauss-project/aurorafs/pkg/boson"
	"github.com/gauss-project/aurorafs/pkg/p2p"
	p2pmock "github.com/gauss-project/aurorafs/pkg/p2p/mock"
	"github.com/gauss-project/aurorafs/pkg/p2p/streamtest"
	"github.com/gauss-project/aurorafs/pkg/routetab"
	rpb "github.com/gauss-project/aurorafs/pkg/routetab/pb"
	"github.com/gauss-project/aurorafs/pkg/statestore/leveldb"
	"github.com/gogo/protobuf/proto"

	"verifharness/hx"
)

// the mock p2p service panics with "implement me" in CallHandlerWithConnChain: that is the hand-off point
type p2pStub struct{ *p2pmock.Service }

func (p2pStub) CallHandlerWithConnChain(ctx context.Context, last, src p2p.Peer, stream p2p.Stream, a, b, c string) error {
	return nil
}

type rtPath struct {
	Sign  string   `json:"sign"`
	Bodys []string `json:"bodys"`
	Items []string `json:"items"`
}
type rtU struct {
	Dest string `json:"dest"`
	U    string `json:"u"`
	S    string `json:"s"`
}
type rtMsg struct {
	Dest  string   `json:"dest"`
	Alpha int32    `json:"alpha"`
	UType int32    `json:"utype"`
	Paths []rtPath `json:"paths,omitempty"`
	UList []rtU    `json:"ulist,omitempty"`
	// relay conn chain
	Src, SrcMode, PName, PVer, SName string
	RPaths                           []string
	// earlier route requests / responses of the same peer (the paths they carry are stored)
	Pre []rtPre `json:"pre,omitempty"`
}

type rtPre struct {
	H string `json:"h"` // routetab.req | routetab.resp
	M rtMsg  `json:"m"`
}

func pbPaths(ps []rtPath) (out []*rpb.Path) {
	for _, p := range ps {
		out = append(out, &rpb.Path{Sign: unhex(p.Sign), Bodys: bytesList(p.Bodys), Items: bytesList(p.Items)})
	}
	return
}
func pbUList(us []rtU) (out []*rpb.UnderlayResp) {
	for _, u := range us {
		out = append(out, &rpb.UnderlayResp{Dest: unhex(u.Dest), Underlay: unhex(u.U), Signature: unhex(u.S)})
	}
	return
}

func newRoutetab(e *env, evil p2p.ProtocolSpec) *routetab.Service {
	n := e.net()
	store, err := leveldb.NewInMemoryStateStore(e.logger)
	if err != nil {
		panic(err)
	}
	rec := streamtest.New(streamtest.WithProtocols(evil), streamtest.WithBaseAddr(e.node.overlay))
	return routetab.New(e.node.overlay, context.Background(), p2pStub{n.p2ps}, relayStreamer{rec}, n.ab, networkID, n.light, n.kad, store, e.logger, routetab.Options{})
}

func evilRouter(underlayReply [][]byte) p2p.ProtocolSpec {
	sink := func(ctx context.Context, p p2p.Peer, s p2p.Stream) error { return s.Close() }
	rep := func(ctx context.Context, p p2p.Peer, s p2p.Stream) error {
		for _, c := range underlayReply {
			if len(c) > 0 {
				if _, err := s.Write(c); err != nil {
					return nil
				}
			}
		}
		return s.Close()
	}
	return p2p.ProtocolSpec{Name: "router", Version: "3.0.0", StreamSpecs: []p2p.StreamSpec{
		{Name: "onRouteReq", Handler: sink}, {Name: "onRouteResp", Handler: sink}, {Name: "onFindUnderlay", Handler: rep},
		{Name: "relay", Handler: sink}, {Name: "relayConnChain", Handler: sink}}}
}

func rtFrames(h string, c *Case) ([][]byte, *rtMsg) {
	if c.Kind == "raw" {
		return rawChunks(c), nil
	}
	var m rtMsg
	_ = json.Unmarshal(c.Msg, &m)
	return [][]byte{frame(rtMarshal(h, &m))}, &m
}

func rtMarshal(h string, m *rtMsg) []byte {
	var b []byte
	switch h {
	case "routetab.req":
		b, _ = proto.Marshal(&rpb.RouteReq{Dest: unhex(m.Dest), Alpha: m.Alpha, Paths: pbPaths(m.Paths), UType: m.UType, UList: pbUList(m.UList)})
	case "routetab.resp":
		b, _ = proto.Marshal(&rpb.RouteResp{Dest: unhex(m.Dest), Paths: pbPaths(m.Paths), UType: m.UType, UList: pbUList(m.UList)})
	case "routetab.underlay":
		b, _ = proto.Marshal(&rpb.UnderlayReq{Dest: unhex(m.Dest)})
	case "routetab.connchain":
		b, _ = proto.Marshal(&rpb.RouteRelayReq{Src: unhex(m.Src), SrcMode: unhex(m.SrcMode), Dest: unhex(m.Dest), ProtocolName: []byte(m.PName),
			ProtocolVersion: []byte(m.PVer), StreamName: []byte(m.SName), Paths: bytesList(m.RPaths)})
	case "routetab.findunderlay":
		var u rtU
		if len(m.UList) > 0 {
			u = m.UList[0]
		}
		b, _ = proto.Marshal(&rpb.UnderlayResp{Dest: unhex(u.Dest), Underlay: unhex(u.U), Signature: unhex(u.S)})
	}
	return b
}

func runRoutetabIn(h, stream string) func(e *env, c *Case) Obs {
	return func(e *env, c *Case) Obs {
		svc := newRoutetab(e, evilRouter(nil))
		chunks, m := rtFrames(h, c)
		orc := map[string]bool{}
		if m != nil { // the part of the node state the front reads, before the message arrives
			d := boson.NewAddress(unhex(m.Dest))
			a, err := e.net().ab.Get(d)
			orc["inbook"] = err == nil && a != nil
			orc["isconn"] = e.net().kad.ConnectedPeers().Exists(d)
		}
		if m != nil {
			for pi := range m.Pre {
				p := &m.Pre[pi]
				st := map[string]string{"routetab.req": "onRouteReq", "routetab.resp": "onRouteResp"}[p.H]
				pr := driveInbound(svc.Protocol(), st, e.peer.overlay, false, [][]byte{frame(rtMarshal(p.H, &p.M))}, 30*time.Second)
				if pr.panicked || pr.hang {
					return Obs{Panic: pr.panicked, PMsg: pr.pmsg, Hang: pr.hang, Where: "handler(pre:" + p.H + ")"}
				}
			}
		}
		res := driveInbound(svc.Protocol(), stream, e.peer.overlay, false, chunks, 30*time.Second)
		return Obs{Panic: res.panicked, PMsg: res.pmsg, Hang: res.hang, Where: "handler", Err: errBit(res.err), Orc: orc}
	}
}

func runRoutetabFindUnderlay(e *env, c *Case) Obs {
	chunks, m := rtFrames("routetab.findunderlay", c)
	svc := newRoutetab(e, evilRouter(chunks))
	r := guardClient(20*time.Second, func() error {
		_, err := svc.FindUnderlay(context.Background(), e.peer.overlay)
		return err
	})
	o := Obs{Panic: r.panicked, PMsg: r.pmsg, Hang: r.hang, Where: "client", Err: errBit(r.err), Orc: map[string]bool{}}
	if m != nil && len(m.UList) > 0 {
		_, err := aurora.ParseAddress(unhex(m.UList[0].U), unhex(m.UList[0].Dest), unhex(m.UList[0].S), networkID)
		o.Orc["sig"] = err == nil
	}
	return o
}

// ---------------------------------------------------------------- Coq

func coqPaths(ps []rtPath) string {
	var el []string
	for _, p := range ps {
		el = append(el, hx.CoqApp("mkRtPath", coqHB(unhex(p.Sign)), coqBytesList(p.Bodys), coqBytesList(p.Items)))
	}
	return hx.CoqList(el, "rt_path")
}
func rtSize(m *rtMsg) int {
	n := len(m.Dest) + len(m.Src) + len(m.SrcMode)
	for _, p := range m.Paths {
		n += len(p.Sign)
		for _, x := range append(append([]string{}, p.Bodys...), p.Items...) {
			n += len(x)
		}
	}
	for _, u := range m.UList {
		n += len(u.Dest) + len(u.U) + len(u.S)
	}
	for _, x := range m.RPaths {
		n += len(x)
	}
	return n
}

func coqRoutetab(h string) func(c *Case, o *Obs) (string, bool) {
	return func(c *Case, o *Obs) (string, bool) {
		var m rtMsg
		_ = json.Unmarshal(c.Msg, &m)
		if rtSize(&m) > 1500 {
			return "", true
		}
		n, _ := idents()
		inBook, isConn := o.Orc["inbook"], o.Orc["isconn"]
		if len(m.Pre) > 0 && (h == "routetab.connchain" || h == "routetab.underlay") {
			return "", true // a stored route / learnt underlay changes the outcome: oracle only
		}
		switch h {
		case "routetab.req":
			return hx.CoqApp("CRtReq", coqHB(n.overlay.Bytes()), coqHB(unhex(m.Dest)), coqPaths(m.Paths), hx.CoqN(uint64(len(m.UList))), coqOutcome(o)), true
		case "routetab.resp":
			return hx.CoqApp("CRtResp", coqHB(n.overlay.Bytes()), coqHB(unhex(m.Dest)), coqPaths(m.Paths), hx.CoqN(uint64(len(m.UList))), coqOutcome(o)), true
		case "routetab.underlay":
			return hx.CoqApp("CRtUnderlay", hx.CoqBool(inBook), coqHB(unhex(m.Dest)), coqOutcome(o)), true
		case "routetab.connchain":
			return hx.CoqApp("CRtConnChain", coqHB(n.overlay.Bytes()), hx.CoqBool(isConn), coqHB(unhex(m.Dest)), coqHB(unhex(m.SrcMode)), coqOutcome(o)), true
		case "routetab.findunderlay":
			return hx.CoqApp("CRtFindUnderlay", hx.CoqBool(o.Orc["sig"]), coqOutcome(o)), true
		}
		return "", true
	}
}

// ---------------------------------------------------------------- generator

func genRoutetab(run *hx.Run, add func(*Case)) {
	r := run.R.Fork(0x5254)
	n, p := idents()
	conn, known := netPeers(n.overlay)
	self, peer := hx.Hex(n.overlay.Bytes()), hx.Hex(p.overlay.Bytes())
	mk := func(h, cls string, m *rtMsg) {
		b, _ := json.Marshal(m)
		add(&Case{H: h, Kind: "msg", Msg: b, Class: cls})
	}
	dests := []string{self, peer, hx.Hex(conn[2].Bytes()), hx.Hex(known[1].Bytes()), "", "01", hx.Hex(r.Bytes(32)), hx.Hex(make([]byte, 300))}
	items := func(k int) []string {
		var o []string
		for i := 0; i < k; i++ {
			o = append(o, hx.Hex(r.Bytes(32)))
		}
		return o
	}
	pathVariants := [][]rtPath{nil, {{}}, {{Sign: "aa", Bodys: []string{"01"}, Items: []string{peer}}}, {{Sign: hx.Hex(r.Bytes(32)), Bodys: items(2), Items: append(items(2), peer)}},
		{{Items: []string{self, peer}}}, {{Items: items(11)}}, {{Items: items(10)}}, {{Items: []string{"", "", ""}}},
		{{Items: []string{"01", hx.Hex(make([]byte, 100))}}, {Sign: "", Bodys: nil, Items: items(3)}}, {{Sign: hx.Hex(make([]byte, 500)), Bodys: []string{"", ""}, Items: []string{peer, hx.Hex(conn[0].Bytes())}}}}
	validU := rtU{Dest: peer, U: hx.Hex(p.maBytes), S: hx.Hex(p.bzz.Signature)}
	uVariants := [][]rtU{nil, {validU}, {{}}, {{Dest: peer, U: "ffff", S: validU.S}}, {{Dest: "01", U: validU.U, S: ""}, validU}, {{Dest: peer, U: validU.U, S: hx.Hex(r.Bytes(65))}}}
	for _, h := range []string{"routetab.req", "routetab.resp"} {
		for _, d := range dests {
			for pi, pv := range pathVariants {
				if !run.Thorough() && r.Intn(3) != 0 && pi > 1 {
					continue
				}
				mk(h, "route-message", &rtMsg{Dest: d, Alpha: []int32{0, 2, -1, 2147483647}[r.Intn(4)], UType: []int32{0, 1, 2, -1}[r.Intn(4)], Paths: pv, UList: uVariants[r.Intn(len(uVariants))]})
			}
		}
	}
	for _, d := range dests {
		mk("routetab.underlay", "underlay-request", &rtMsg{Dest: d})
	}
	modes := []string{"01", "", "00", "ff02"}
	for di, d := range []string{self, hx.Hex(conn[2].Bytes()), "", hx.Hex(make([]byte, 300))} {
		for mi, md := range modes {
			if di > 1 && (mi > 0 || !run.Thorough()) { // each non-neighbour target waits for the 3 s route search
				continue
			}
			mk("routetab.connchain", "relay-conn-chain", &rtMsg{Dest: d, Src: peer, SrcMode: md, PName: "x", PVer: "1", SName: "s", RPaths: []string{peer, ""}})
		}
	}
	if run.Thorough() {
		mk("routetab.connchain", "relay-conn-chain-unknown-target", &rtMsg{Dest: hx.Hex(r.Bytes(32)), Src: "", SrcMode: "01"})
	}
	for _, uv := range uVariants {
		mk("routetab.findunderlay", "underlay-reply", &rtMsg{UList: uv})
	}
	// ---- SEQUENCES: paths whose items have mixed lengths (0, 1, 31, 32, 33 bytes; short ones prefixes of the long one)
	// are stored by a first request / response; later messages of the same peer look those routes up
	long := append(append([]byte{}, n.overlay.Bytes()[:1]...), r.Bytes(32)...)
	its := []string{hx.Hex(long[:32]), hx.Hex(long[:1]), hx.Hex(long[:31]), hx.Hex(long), ""}
	nb := hx.Hex(conn[0].Bytes()) // a connected peer as the last item = next hop
	mixedPaths := []rtPath{{Sign: "aa", Bodys: []string{"01"}, Items: append(append([]string{}, its...), nb)}, {Items: []string{its[1], its[0], peer}},
		{Items: []string{its[4], its[1]}}, {Items: []string{its[0], its[3], its[2], nb}}}
	pres := [][]rtPre{{{H: "routetab.req", M: rtMsg{Dest: self, Paths: mixedPaths[:1]}}}, {{H: "routetab.resp", M: rtMsg{Dest: its[0], Paths: mixedPaths}}},
		{{H: "routetab.req", M: rtMsg{Dest: peer, Paths: mixedPaths[1:3]}}, {H: "routetab.resp", M: rtMsg{Dest: its[1], Paths: mixedPaths[3:]}}}}
	for _, pre := range pres {
		for i, d := range its {
			if !run.Thorough() && i > 1 && r.Intn(2) != 0 {
				continue
			}
			mk("routetab.req", "mixed-length-paths-then-route-request", &rtMsg{Dest: d, Alpha: 2, UType: int32(r.Intn(2)), Paths: []rtPath{{Items: []string{peer}}}, Pre: pre})
			mk("routetab.resp", "mixed-length-paths-then-route-response", &rtMsg{Dest: d, Paths: []rtPath{{Items: []string{its[r.Intn(5)], peer}}}, Pre: pre})
			mk("routetab.connchain", "mixed-length-paths-then-relay", &rtMsg{Dest: d, Src: peer, SrcMode: "01", PName: "x", PVer: "1", SName: "s", RPaths: []string{its[1]}, Pre: pre})
		}
	}
	type rawdef struct {
		h     string
		valid proto.Message
	}
	for _, rd := range []rawdef{
		{"routetab.req", &rpb.RouteReq{Dest: p.overlay.Bytes(), Alpha: 2, Paths: []*rpb.Path{{Sign: []byte{1}, Bodys: [][]byte{{2}}, Items: [][]byte{p.overlay.Bytes()}}}}},
		{"routetab.resp", &rpb.RouteResp{Dest: p.overlay.Bytes(), Paths: []*rpb.Path{{Sign: []byte{1}, Bodys: [][]byte{{2}}, Items: [][]byte{p.overlay.Bytes()}}}}},
		{"routetab.underlay", &rpb.UnderlayReq{Dest: conn[0].Bytes()}},
		{"routetab.connchain", &rpb.RouteRelayReq{Dest: n.overlay.Bytes(), SrcMode: []byte{1}}},
		{"routetab.findunderlay", &rpb.UnderlayResp{Dest: p.overlay.Bytes(), Underlay: p.maBytes, Signature: p.bzz.Signature}},
	} {
		v, _ := proto.Marshal(rd.valid)
		k := run.N(8, 200)
		if rd.h == "routetab.connchain" {
			k = run.N(0, 30) // a decodable request for an unknown target costs the 3 s route search
		}
		for _, chunks := range rawStreams(r, v, k) {
			add(&Case{H: rd.h, Kind: "raw", Raw: hexes(chunks...), Class: "raw-bytes"})
		}
	}
}

func init() {
	for _, d := range []struct{ h, stream string }{{"routetab.req", "onRouteReq"}, {"routetab.resp", "onRouteResp"}, {"routetab.underlay", "onFindUnderlay"}, {"routetab.connchain", "relayConnChain"}} {
		register(&handlerDef{id: d.h, run: runRoutetabIn(d.h, d.stream), coq: coqRoutetab(d.h)})
	}
	register(&handlerDef{id: "routetab.findunderlay", run: runRoutetabFindUnderlay, coq: coqRoutetab("routetab.findunderlay")})
	generators = append(generators, genRoutetab)
}
