package main

// The node's topology: REAL kademlia + address book on in-memory stores, with a
// fixed set of connected and known-only peers spread over the proximity orders.

import (
	"context"
	"fmt"
	"time"

	"github.com/gauss-project/aurorafs/pkg/addressbook"
	"github.com/gauss-project/aurorafs/pkg/aurora"
	"github.com/gauss-project/aurorafs/pkg/boson"
	discmock "github.com/gauss-project/aurorafs/pkg/discovery/mock"
	"github.com/gauss-project/aurorafs/pkg/p2p"
	p2pmock "github.com/gauss-project/aurorafs/pkg/p2p/mock"
	ppmock "github.com/gauss-project/aurorafs/pkg/pingpong/mock"
	"github.com/gauss-project/aurorafs/pkg/shed"
	sldb "github.com/gauss-project/aurorafs/pkg/shed/leveldb"
	"github.com/gauss-project/aurorafs/pkg/statestore/leveldb"
	"github.com/gauss-project/aurorafs/pkg/storage"
	"github.com/gauss-project/aurorafs/pkg/subscribe"
	"github.com/gauss-project/aurorafs/pkg/topology/bootnode"
	"github.com/gauss-project/aurorafs/pkg/topology/kademlia"
	"github.com/gauss-project/aurorafs/pkg/topology/lightnode"
	ma "github.com/multiformats/go-multiaddr"
)

type netNode struct {
	kad    *kademlia.Kad
	ab     addressbook.Interface
	store  storage.StateStorer
	p2ps   *p2pmock.Service
	light  *lightnode.Container
	conn   []boson.Address // connected (and known)
	known  []boson.Address // known only
	subPub subscribe.SubPub
}

func init() { shed.Register("leveldb", sldb.Driver{}) }

// flipAt returns base with bit `po` flipped and a few low bits perturbed: proximity(base, result) == po.
func flipAt(base []byte, po int, salt byte) boson.Address {
	b := append([]byte{}, base...)
	b[po/8] ^= 0x80 >> uint(po%8)
	b[len(b)-1] ^= salt
	return boson.NewAddress(b)
}

// connPOs / knownPOs: proximity orders (w.r.t. the node) of the peers in the table
var connPOs = []int{0, 0, 1, 2, 3, 3, 5, 8}
var knownPOs = []int{0, 1, 1, 4, 6}

func netPeers(base boson.Address) (conn, known []boson.Address) {
	for i, po := range connPOs {
		conn = append(conn, flipAt(base.Bytes(), po, byte(i+1)))
	}
	for i, po := range knownPOs {
		known = append(known, flipAt(base.Bytes(), po, byte(0x40+i)))
	}
	return
}

func (e *env) net() *netNode {
	return e.part("net", func() interface{} { return newNet(e) }).(*netNode)
}

// newNet builds a fresh topology (for cases whose earlier messages change the peer tables)
func newNet(e *env) *netNode {
	{
		store, err := leveldb.NewInMemoryStateStore(e.logger)
		if err != nil {
			panic(err)
		}
		mdb, err := shed.NewDB("", &shed.Options{Driver: "leveldb"})
		if err != nil {
			panic(err)
		}
		n := &netNode{store: store, ab: addressbook.New(store), subPub: subscribe.NewSubPub()}
		n.p2ps = p2pmock.New()
		n.light = lightnode.NewContainer(e.node.overlay)
		pp := ppmock.New(func(context.Context, boson.Address, ...string) (time.Duration, error) { return 0, nil })
		n.kad, err = kademlia.New(e.node.overlay, n.ab, discmock.NewDiscovery(), n.p2ps, pp, n.light, bootnode.NewContainer(e.node.overlay), mdb, e.logger, n.subPub,
			kademlia.Options{NodeMode: aurora.NewModel().SetMode(aurora.FullNode)})
		if err != nil {
			panic(err)
		}
		n.conn, n.known = netPeers(e.node.overlay)
		for i, a := range append(append([]boson.Address{}, n.conn...), n.known...) {
			u, _ := ma.NewMultiaddr(fmt.Sprintf("/ip4/33.1.%d.%d/tcp/1634/p2p/16Uiu2HAkx8ULY8cTXhdVAcMmLcH9AsTKz6uBQ7DPLKRjMLgBVYkS", i/200, 1+i%200))
			if err := n.ab.Put(a, aurora.Address{Underlay: u, Overlay: a, Signature: make([]byte, 65)}); err != nil {
				panic(err)
			}
		}
		for _, a := range n.conn {
			if err := n.kad.Connected(context.Background(), p2p.Peer{Address: a, Mode: aurora.NewModel().SetMode(aurora.FullNode)}, true); err != nil {
				panic(err)
			}
		}
		n.kad.AddPeers(n.known...)
		return n
	}
}
