package main

// pingpong.in  = pingpong.(*Service).handler (loop: read Ping, write Pong)
// pingpong.out = pingpong.(*Service).Ping    (client read of Pong)

import (
	"context"
	"encoding/json"
	"time"

	"github.com/gauss-project/aurorafs/pkg/p2p/streamtest"
	"github.com/gauss-project/aurorafs/pkg/pingpong"
	ppb "github.com/gauss-project/aurorafs/pkg/pingpong/pb"
	"github.com/gogo/protobuf/proto"

	"verifharness/hx"
)

type ppMsg struct {
	Texts []string `json:"texts"` // one Ping/Pong per entry (hex of the string bytes: may be invalid UTF-8)
}

func ppChunks(c *Case, pong bool) ([][]byte, *ppMsg) {
	if c.Kind == "raw" {
		var ch [][]byte
		for _, h := range c.Raw {
			ch = append(ch, rawBytes(h))
		}
		return ch, nil
	}
	var m ppMsg
	_ = json.Unmarshal(c.Msg, &m)
	var ch [][]byte
	for _, t := range m.Texts {
		var b []byte
		if pong {
			b, _ = proto.Marshal(&ppb.Pong{Response: string(unhex(t))})
		} else {
			b, _ = proto.Marshal(&ppb.Ping{Greeting: string(unhex(t))})
		}
		ch = append(ch, frame(b))
	}
	return ch, &m
}

func runPingIn(e *env, c *Case) Obs {
	svc := pingpong.New(relayStreamer{streamtest.New()}, e.logger, nil)
	chunks, _ := ppChunks(c, false)
	res := driveInbound(svc.Protocol(), "pingpong", e.peer.overlay, false, chunks, 20*time.Second)
	return Obs{Panic: res.panicked, PMsg: res.pmsg, Hang: res.hang, Where: "handler", Err: errBit(res.err), Aux: map[string]int{"replies": countFrames(res.reply)}}
}

func runPingOut(e *env, c *Case) Obs {
	chunks, m := ppChunks(c, true)
	rec := streamtest.New(streamtest.WithProtocols(evilPeer("pingpong", "1.0.0", "pingpong", chunks)))
	svc := pingpong.New(relayStreamer{rec}, e.logger, nil)
	n := 2
	if m != nil && len(m.Texts) > 0 {
		n = len(m.Texts)
	}
	r := guardClient(20*time.Second, func() error {
		_, err := svc.Ping(context.Background(), e.peer.overlay, make([]string, n)...)
		return err
	})
	return Obs{Panic: r.panicked, PMsg: r.pmsg, Hang: r.hang, Where: "client", Err: errBit(r.err)}
}

// countFrames counts the well-formed delimited messages in a byte string.
func countFrames(b []byte) int {
	n := 0
	for len(b) > 0 {
		l, k := uvarint(b)
		if k <= 0 || int(l) > len(b)-k {
			break
		}
		b = b[k+int(l):]
		n++
	}
	return n
}
func uvarint(b []byte) (uint64, int) {
	var x uint64
	var s uint
	for i, c := range b {
		if i == 10 {
			return 0, -1
		}
		if c < 0x80 {
			return x | uint64(c)<<s, i + 1
		}
		x |= uint64(c&0x7f) << s
		s += 7
	}
	return 0, 0
}

func coqPing(ctor string) func(c *Case, o *Obs) (string, bool) {
	return func(c *Case, o *Obs) (string, bool) {
		var m ppMsg
		_ = json.Unmarshal(c.Msg, &m)
		var el []string
		tot := 0
		for _, t := range m.Texts {
			el = append(el, coqHB(unhex(t)))
			tot += len(t)
		}
		if tot > 1200 {
			return "", true
		}
		return hx.CoqApp(ctor, hx.CoqList(el, "list N"), coqOutcome(o), hx.CoqN(uint64(o.Aux["replies"]))), len(m.Texts) > 0
	}
}

func genPingpong(run *hx.Run, add func(*Case)) {
	r := run.R.Fork(0x5050)
	for _, h := range []string{"pingpong.in", "pingpong.out"} {
		sets := [][]string{{}, {""}, {hx.Hex([]byte("hi"))}, {hx.Hex([]byte("a")), "", hx.Hex([]byte("c"))}, {"fffe80"}, {hx.Hex(make([]byte, 70000))}, {hx.Hex(make([]byte, 1<<20))}}
		for i := 0; i < run.N(6, 60); i++ {
			var s []string
			for k := r.Intn(5); k > 0; k-- {
				s = append(s, hx.Hex(r.Bytes(r.Intn(12))))
			}
			sets = append(sets, s)
		}
		for _, s := range sets {
			b, _ := json.Marshal(&ppMsg{Texts: s})
			add(&Case{H: h, Kind: "msg", Msg: b, Class: "ping-sequence"})
		}
		v, _ := proto.Marshal(&ppb.Ping{Greeting: "x"})
		for _, chunks := range rawStreams(r, v, run.N(15, 300)) {
			add(&Case{H: h, Kind: "raw", Raw: hexes(chunks...), Class: "raw-bytes"})
		}
	}
}

func init() {
	register(&handlerDef{id: "pingpong.in", run: runPingIn, coq: coqPing("CPingIn")})
	register(&handlerDef{id: "pingpong.out", run: runPingOut, coq: coqPing("CPingOut")})
	generators = append(generators, genPingpong)
}
