package main

// retrieval.handler = retrieval.(*Service).handler (RequestChunk); when the chunk is not local and the target is another
// node the handler dials it and reads its Delivery (retrieveChunk = client read), validates it (cac/soc) and reports to
// the REAL chunkinfo.  Store: the mock chunk store holding the uploaded file.

import (
	"context"
	"encoding/json"
	"time"

	accmock "github.com/gauss-project/aurorafs/pkg/accounting/mock"
	"github.com/gauss-project/aurorafs/pkg/boson"
	"github.com/gauss-project/aurorafs/pkg/cac"
	"github.com/gauss-project/aurorafs/pkg/p2p"
	"github.com/gauss-project/aurorafs/pkg/p2p/streamtest"
	"github.com/gauss-project/aurorafs/pkg/retrieval"
	rtpb "github.com/gauss-project/aurorafs/pkg/retrieval/pb"
	rmock "github.com/gauss-project/aurorafs/pkg/routetab/mock"
	"github.com/gauss-project/aurorafs/pkg/soc"
	"github.com/gauss-project/aurorafs/pkg/storage"
	"github.com/gauss-project/aurorafs/pkg/subscribe"
	"github.com/gogo/protobuf/proto"

	"verifharness/hx"
)

type rqMsg struct {
	Target   string  `json:"target"`
	Root     string  `json:"root"`
	Chunk    string  `json:"chunk"`
	Delivery *string `json:"delivery"` // what the dialled target answers (hex of Delivery.Data); nil: closes without answering
}

func freshChunk() boson.Chunk {
	c, err := cac.New([]byte("c37 chunk that is not in the local store"))
	if err != nil {
		panic(err)
	}
	return c
}

// scen: "full" / "light" = mode of the requesting peer (a full peer's download is reported to chunkinfo)
func runRetrieval(e *env, c *Case) Obs {
	f := e.file()
	var chunks [][]byte
	var reply [][]byte
	var m *rqMsg
	if c.Kind == "raw" {
		if c.Scen == "rawreply" { // the raw bytes are the dialled target's answer
			reply = rawChunks(c)
			b, _ := proto.Marshal(&rtpb.RequestChunk{TargetAddr: e.peer.overlay.Bytes(), RootAddr: f.root.Bytes(), ChunkAddr: freshChunk().Address().Bytes()})
			chunks = [][]byte{frame(b)}
		} else {
			chunks = rawChunks(c)
		}
	} else {
		m = &rqMsg{}
		_ = json.Unmarshal(c.Msg, m)
		b, _ := proto.Marshal(&rtpb.RequestChunk{TargetAddr: unhex(m.Target), RootAddr: unhex(m.Root), ChunkAddr: unhex(m.Chunk)})
		chunks = [][]byte{frame(b)}
		if m.Delivery != nil {
			d, _ := proto.Marshal(&rtpb.Delivery{Data: unhex(*m.Delivery)})
			reply = [][]byte{frame(d)}
		}
	}
	ci := newCINode(e, "pyramid", nil)
	evil := evilPeer("retrieval", "1.0.0", "retrieval", reply)
	rec := streamtest.New(streamtest.WithProtocols(evil, evilChunkinfoPeer(nil)), streamtest.WithBaseAddr(e.node.overlay))
	route := rmock.NewMockRouteTable()
	svc := retrieval.New(e.node.overlay, relayStreamer{rec}, &route, f.store, true, e.logger, nil, accmock.NewAccounting(), subscribe.NewSubPub())
	svc.Config(ci.ci)
	res := driveInbound(svc.Protocol(), "retrieval", e.peer.overlay, c.Scen == "light", chunks, 40*time.Second)
	o := Obs{Panic: res.panicked, PMsg: res.pmsg, Hang: res.hang, Where: "handler", Err: errBit(res.err), Orc: map[string]bool{}}
	if m != nil {
		has, _ := f.store.Has(context.Background(), storage.ModeHasChunk, boson.NewAddress(unhex(m.Chunk)))
		o.Orc["has"] = has
		if m.Delivery != nil {
			ch := boson.NewChunk(boson.NewAddress(unhex(m.Chunk)), unhex(*m.Delivery))
			o.Orc["valid"] = cac.Valid(ch) || soc.Valid(ch)
		}
	}
	return o
}

var _ p2p.ProtocolSpec

func coqRetrieval(c *Case, o *Obs) (string, bool) {
	var m rqMsg
	_ = json.Unmarshal(c.Msg, &m)
	n, _ := idents()
	f := newEnvFileInfo()
	sz := len(m.Target) + len(m.Root) + len(m.Chunk)
	if m.Delivery != nil {
		sz += len(*m.Delivery)
	}
	if sz > 1500 {
		return "", true
	}
	deliv := "None"
	if m.Delivery != nil {
		deliv = hx.CoqSome(hx.CoqPair(coqHB(unhex(*m.Delivery)), hx.CoqBool(o.Orc["valid"])))
	}
	rootKnown := m.Root == hx.Hex(f.root)
	if c.Scen != "light" && !rootKnown && o.Orc["has"] {
		// the report to chunkinfo traverses an arbitrary local chunk as if it were a file root: oracle only
		return "", true
	}
	return hx.CoqApp("CRetrieval", coqHB(n.overlay.Bytes()), hx.CoqBool(o.Orc["has"]), hx.CoqBool(c.Scen != "light"), hx.CoqBool(rootKnown),
		hx.CoqApp("mkReqChunk", coqHB(unhex(m.Target)), coqHB(unhex(m.Root)), coqHB(unhex(m.Chunk))), deliv, coqOutcome(o)), true
}

func genRetrieval(run *hx.Run, add func(*Case)) {
	r := run.R.Fork(0x5245)
	n, p := idents()
	f := newEnvFileInfo()
	self, peer := hx.Hex(n.overlay.Bytes()), hx.Hex(p.overlay.Bytes())
	fc := freshChunk()
	mk := func(scen, cls string, m *rqMsg) {
		b, _ := json.Marshal(m)
		add(&Case{H: "retrieval.handler", Kind: "msg", Scen: scen, Msg: b, Class: cls})
	}
	sp := func(s string) *string { return &s }
	roots := []string{hx.Hex(f.root), hx.Hex(f.fileRef), hx.Hex(f.leaf), "", "01", hx.Hex(r.Bytes(32)), hx.Hex(make([]byte, 100))}
	chunksLocal := []string{hx.Hex(f.leaf), hx.Hex(f.fileRef), hx.Hex(f.root)}
	chunksOdd := []string{"", "01", hx.Hex(r.Bytes(32)), hx.Hex(r.Bytes(31)), hx.Hex(r.Bytes(33)), hx.Hex(make([]byte, 400))}
	targets := []string{self, peer, "", "0102", hx.Hex(make([]byte, 64))}
	for _, sc := range []string{"light", "full"} {
		for _, ch := range chunksLocal {
			for _, rt := range roots {
				if !run.Thorough() && r.Intn(3) != 0 {
					continue
				}
				mk(sc, "request-local-chunk", &rqMsg{Target: targets[r.Intn(len(targets))], Root: rt, Chunk: ch})
			}
		}
		for _, ch := range chunksOdd {
			mk(sc, "request-unknown-chunk", &rqMsg{Target: self, Root: roots[r.Intn(len(roots))], Chunk: ch})
			mk(sc, "request-unknown-chunk-relay", &rqMsg{Target: peer, Root: roots[r.Intn(len(roots))], Chunk: ch, Delivery: sp(hx.Hex(r.Bytes(r.Intn(20))))})
		}
		// relayed request with every kind of Delivery
		fresh := hx.Hex(fc.Address().Bytes())
		good := hx.Hex(fc.Data())
		for _, d := range []*string{nil, sp(""), sp("00"), sp("0000000000000000"), sp(good), sp(good[:len(good)-2]), sp(good + "00"), sp(hx.Hex(make([]byte, 8+4096))),
			sp(hx.Hex(r.Bytes(8 + 32 + 65 + 8 + 5))), sp(hx.Hex(make([]byte, 300000)))} {
			for _, rt := range []string{hx.Hex(f.root), hx.Hex(r.Bytes(32)), ""} {
				mk(sc, "relay-delivery", &rqMsg{Target: peer, Root: rt, Chunk: fresh, Delivery: d})
			}
		}
	}
	v, _ := proto.Marshal(&rtpb.RequestChunk{TargetAddr: n.overlay.Bytes(), RootAddr: f.root, ChunkAddr: f.leaf})
	for _, chunks := range rawStreams(r, v, run.N(10, 300)) {
		add(&Case{H: "retrieval.handler", Kind: "raw", Scen: "light", Raw: hexes(chunks...), Class: "raw-bytes"})
	}
	dv, _ := proto.Marshal(&rtpb.Delivery{Data: fc.Data()})
	for _, chunks := range rawStreams(r, dv, run.N(10, 300)) {
		add(&Case{H: "retrieval.handler", Kind: "raw", Scen: "rawreply", Raw: hexes(chunks...), Class: "raw-bytes-delivery"})
	}
}

func init() {
	register(&handlerDef{id: "retrieval.handler", run: runRetrieval, coq: coqRetrieval})
	generators = append(generators, genRetrieval)
}
