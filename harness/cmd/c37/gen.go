package main

import (
	"os"
	"strings"

	"verifharness/hx"
)

// generators run in the order the handlers were taken up; each has its own PRNG fork
var generators = []func(run *hx.Run, add func(*Case)){
	genHandshake,
}

func generate(run *hx.Run) []*Case {
	var cases []*Case
	add := func(c *Case) { cases = append(cases, c) }
	for _, g := range generators {
		g(run, add)
	}
	// every handler and client read gets the frame-limit / varint cases (scenario = the one its raw cases use)
	seenRaw := map[string]bool{}
	var order [][2]string
	for _, c := range cases {
		if c.Kind == "raw" && !seenRaw[c.H+"|"+c.Scen] {
			seenRaw[c.H+"|"+c.Scen] = true
			order = append(order, [2]string{c.H, c.Scen})
		}
	}
	for _, hs := range order {
		cases = append(cases, frameLimitCases(hs[0], hs[1])...)
	}
	if only := os.Getenv("C37_ONLY"); only != "" { // development aid: one handler family
		var f []*Case
		for _, c := range cases {
			if strings.HasPrefix(c.H, only) {
				f = append(f, c)
			}
		}
		return f
	}
	return cases
}
