package main

// multicast.handshake = (*Service).HandshakeIncoming   multicast.findgroup = onFindGroup
// multicast.multicast = onMulticast                    multicast.notify    = onNotify
// multicast.message   = onMessage (+ the reader goroutine notifyMessage starts for SendReceive)
// multicast.hsout     = Handshake (client read of GIDs) multicast.send     = Send / SendReceive (client read of GroupMsg)
// Real multicast.Service on the real kademlia of net.go.

import (
	"context"
	"encoding/json"
	"sync/atomic"
	"time"

	"github.com/gauss-project/aurorafs/pkg/aurora"
	"github.com/gauss-project/aurorafs/pkg/boson"
	"github.com/gauss-project/aurorafs/pkg/multicast"
	mpb "github.com/gauss-project/aurorafs/pkg/multicast/pb"
	"github.com/gauss-project/aurorafs/pkg/p2p"
	"github.com/gauss-project/aurorafs/pkg/p2p/streamtest"
	rmock "github.com/gauss-project/aurorafs/pkg/routetab/mock"
	"github.com/gauss-project/aurorafs/pkg/subscribe"
	"github.com/gogo/protobuf/proto"

	"verifharness/hx"
)

var joinedGID = multicast.GenerateGID("c37-joined")
var subbedGID = multicast.GenerateGID("c37-joined-subscribed")

type mcMsg struct {
	Gids   []string `json:"gids,omitempty"`  // GIDs / Notify
	Status int32    `json:"status"`          // Notify
	Gid    string   `json:"gid,omitempty"`   // FindGroupReq / MulticastMsg / GroupMsg
	Limit  int32    `json:"limit"`
	TTL    int32    `json:"ttl"`
	Paths  []string `json:"paths,omitempty"`
	ID     uint64   `json:"id"`
	Ctime  int64    `json:"ctime"`
	Origin string   `json:"origin,omitempty"`
	Data   string   `json:"data,omitempty"`
	Type   int32    `json:"type"`
	Err    string   `json:"err,omitempty"`
	Extra  string   `json:"extra,omitempty"` // bytes sent after the first message (hex)
}

func bytesList(hs []string) [][]byte {
	var out [][]byte
	for _, h := range hs {
		out = append(out, unhex(h))
	}
	return out
}

var mcSeq uint64

func newMulticast(e *env, evil p2p.ProtocolSpec) *multicast.Service {
	n := e.net()
	rec := streamtest.New(streamtest.WithProtocols(evil), streamtest.WithBaseAddr(e.node.overlay))
	route := rmock.NewMockRouteTable()
	svc := multicast.NewService(e.node.overlay, aurora.NewModel().SetMode(aurora.FullNode), n.p2ps, relayStreamer{rec}, n.kad, &route, e.logger, subscribe.NewSubPub(), multicast.Option{})
	svc.VerifC37JoinGroup(joinedGID, false)
	svc.VerifC37JoinGroup(subbedGID, true)
	return svc
}

// evil multicast peer: answers findGroup with the given chunks, swallows everything else
func evilMulticastPeer(findReply [][]byte) p2p.ProtocolSpec {
	sink := func(ctx context.Context, p p2p.Peer, s p2p.Stream) error { return s.Close() }
	rep := func(ctx context.Context, p p2p.Peer, s p2p.Stream) error {
		for _, c := range findReply {
			if len(c) > 0 {
				if _, err := s.Write(c); err != nil {
					return nil
				}
			}
		}
		return s.Close()
	}
	return p2p.ProtocolSpec{Name: "multicast", Version: "1.2.0", StreamSpecs: []p2p.StreamSpec{
		{Name: "handshake", Handler: rep}, {Name: "findGroup", Handler: rep}, {Name: "multicast", Handler: sink},
		{Name: "notify", Handler: sink}, {Name: "message", Handler: rep}}}
}

func mcFrames(h string, c *Case) ([][]byte, *mcMsg) {
	if c.Kind == "raw" {
		return rawChunks(c), nil
	}
	var m mcMsg
	_ = json.Unmarshal(c.Msg, &m)
	var b []byte
	switch h {
	case "multicast.handshake", "multicast.hsout":
		b, _ = proto.Marshal(&mpb.GIDs{Gid: bytesList(m.Gids)})
	case "multicast.notify":
		b, _ = proto.Marshal(&mpb.Notify{Status: m.Status, Gids: bytesList(m.Gids)})
	case "multicast.findgroup":
		b, _ = proto.Marshal(&mpb.FindGroupReq{Gid: unhex(m.Gid), Limit: m.Limit, Ttl: m.TTL, Paths: bytesList(m.Paths)})
	case "multicast.multicast":
		b, _ = proto.Marshal(&mpb.MulticastMsg{Id: m.ID, CreateTime: m.Ctime, Origin: unhex(m.Origin), Gid: unhex(m.Gid), Data: unhex(m.Data)})
	case "multicast.message", "multicast.send":
		b, _ = proto.Marshal(&mpb.GroupMsg{Gid: unhex(m.Gid), Data: unhex(m.Data), Type: m.Type, Err: m.Err})
	}
	ch := [][]byte{frame(b)}
	if m.Extra != "" {
		ch = append(ch, unhex(m.Extra))
	}
	return ch, &m
}

func runMulticastIn(h, stream string) func(e *env, c *Case) Obs {
	return func(e *env, c *Case) Obs {
		fr, _ := proto.Marshal(&mpb.FindGroupResp{Addresses: [][]byte{e.peer.overlay.Bytes(), {}, {1}}})
		svc := newMulticast(e, evilMulticastPeer([][]byte{frame(fr)}))
		chunks, m := mcFrames(h, c)
		if m != nil && h == "multicast.multicast" && m.ID == 0 {
			// a fresh id per run: the de-duplication cache is process-global
			m.ID = 1<<40 + atomic.AddUint64(&mcSeq, 1)
			b, _ := proto.Marshal(&mpb.MulticastMsg{Id: m.ID, CreateTime: m.Ctime, Origin: unhex(m.Origin), Gid: unhex(m.Gid), Data: unhex(m.Data)})
			chunks = [][]byte{frame(b)}
		}
		before := svc.VerifC37GroupCount()
		res := driveInbound(svc.Protocol(), stream, e.peer.overlay, false, chunks, 30*time.Second)
		if h == "multicast.message" {
			time.Sleep(30 * time.Millisecond) // the reader goroutine of a SendReceive session
		}
		return Obs{Panic: res.panicked, PMsg: res.pmsg, Hang: res.hang, Where: "handler", Err: errBit(res.err),
			Aux: map[string]int{"newgroups": svc.VerifC37GroupCount() - before, "replies": countFrames(res.reply)}}
	}
}

func runMulticastOut(h string) func(e *env, c *Case) Obs {
	return func(e *env, c *Case) Obs {
		chunks, _ := mcFrames(h, c)
		svc := newMulticast(e, evilMulticastPeer(chunks))
		r := guardClient(30*time.Second, func() error {
			switch {
			case h == "multicast.hsout":
				return svc.Handshake(context.Background(), e.peer.overlay)
			case c.Scen == "sr":
				_, err := svc.SendReceive(context.Background(), []byte("q"), joinedGID, e.peer.overlay)
				return err
			default:
				return svc.Send(context.Background(), []byte("q"), joinedGID, e.peer.overlay)
			}
		})
		return Obs{Panic: r.panicked, PMsg: r.pmsg, Hang: r.hang, Where: "client", Err: errBit(r.err)}
	}
}

// ---------------------------------------------------------------- Coq

func coqBytesList(hs []string) string {
	var el []string
	for _, h := range hs {
		el = append(el, coqHB(unhex(h)))
	}
	return hx.CoqList(el, "list N")
}
func mcSize(m *mcMsg) int {
	n := len(m.Gid) + len(m.Origin) + len(m.Data) + len(m.Err) + len(m.Extra)
	for _, g := range m.Gids {
		n += len(g)
	}
	for _, g := range m.Paths {
		n += len(g)
	}
	return n
}

func coqMulticast(h string) func(c *Case, o *Obs) (string, bool) {
	return func(c *Case, o *Obs) (string, bool) {
		var m mcMsg
		_ = json.Unmarshal(c.Msg, &m)
		if mcSize(&m) > 1500 {
			return "", true
		}
		n, _ := idents()
		switch h {
		case "multicast.handshake":
			return hx.CoqApp("CMcHandshake", coqBytesList(m.Gids), coqOutcome(o)), len(m.Gids) > 0
		case "multicast.notify":
			return hx.CoqApp("CMcNotify", hx.CoqZ(int64(m.Status)), coqBytesList(m.Gids), coqOutcome(o)), true
		case "multicast.findgroup":
			return hx.CoqApp("CMcFindGroup", hx.CoqApp("mkFindGroup", coqHB(unhex(m.Gid)), hx.CoqZ(int64(m.Limit)), hx.CoqZ(int64(m.TTL)), coqBytesList(m.Paths)),
				hx.CoqBool(m.Gid == hx.Hex(joinedGID.Bytes()) || m.Gid == hx.Hex(subbedGID.Bytes())), coqOutcome(o)), true
		case "multicast.multicast":
			return hx.CoqApp("CMcMulticast", coqHB(n.overlay.Bytes()), coqHB(unhex(m.Origin)), coqHB(unhex(m.Gid)), coqOutcome(o)), true
		case "multicast.message":
			joined := m.Gid == hx.Hex(joinedGID.Bytes()) || m.Gid == hx.Hex(subbedGID.Bytes())
			sub := m.Gid == hx.Hex(subbedGID.Bytes())
			// does a second well-delimited frame follow the first message?
			extra := false
			if l, k := uvarint(unhex(m.Extra)); k > 0 && int(l) <= len(unhex(m.Extra))-k && l <= 1<<20 {
				extra = true
			}
			return hx.CoqApp("CMcMessage", hx.CoqBool(joined), hx.CoqBool(sub), hx.CoqApp("mkGroupMsg", coqHB(unhex(m.Gid)), coqHB(unhex(m.Data)), hx.CoqZ(int64(m.Type)), coqHB([]byte(m.Err))),
				hx.CoqBool(extra), coqOutcome(o)), joined
		}
		return "", true
	}
}

// ---------------------------------------------------------------- generator

func genMulticast(run *hx.Run, add func(*Case)) {
	r := run.R.Fork(0x4d43)
	n, p := idents()
	self, peer := hx.Hex(n.overlay.Bytes()), hx.Hex(p.overlay.Bytes())
	jg, sg := hx.Hex(joinedGID.Bytes()), hx.Hex(subbedGID.Bytes())
	mk := func(h, scen, cls string, m *mcMsg) {
		b, _ := json.Marshal(m)
		add(&Case{H: h, Kind: "msg", Scen: scen, Msg: b, Class: cls})
	}
	gidv := []string{jg, sg, "", "01", hx.Hex(r.Bytes(32)), hx.Hex(r.Bytes(33)), hx.Hex(make([]byte, 300))}
	okFrame := hx.Hex(frame([]byte{0x0a, 0x01, 0x41}))
	// ---- corpus: SendReceive session on a subscribed group followed by a second frame (nil-message read)
	mk("multicast.message", "", "sendreceive-then-second-frame", &mcMsg{Gid: sg, Data: "01", Type: 1, Extra: okFrame})
	mk("multicast.message", "", "sendreceive-then-second-frame", &mcMsg{Gid: sg, Data: "", Type: 1, Extra: "00"})
	// ---- onMessage sweep
	for _, g := range gidv {
		for _, ty := range []int32{0, 1, 2, 3, -1, 2147483647} {
			for _, ex := range []string{"", okFrame, "00", "ff", "05aa", hx.Hex(r.Bytes(9))} {
				if !run.Thorough() && ex != "" && g != sg && r.Intn(4) != 0 {
					continue
				}
				cls := "group-message"
				if ex != "" {
					cls = "group-message-then-more-bytes"
				}
				mk("multicast.message", "", cls, &mcMsg{Gid: g, Data: hx.Hex(r.Bytes(r.Intn(5))), Type: ty, Err: []string{"", "x"}[r.Intn(2)], Extra: ex})
			}
		}
	}
	mk("multicast.message", "", "group-message-big", &mcMsg{Gid: sg, Data: hx.Hex(make([]byte, 100000)), Type: 0})
	// ---- handshake / notify (each new gid costs the 500 ms groupPeers throttle: few of them)
	mk("multicast.handshake", "", "gids", &mcMsg{})
	mk("multicast.handshake", "", "gids", &mcMsg{Gids: []string{jg}})
	mk("multicast.handshake", "", "gids", &mcMsg{Gids: []string{jg, sg, jg}})
	mk("multicast.handshake", "", "gids", &mcMsg{Gids: []string{""}})
	mk("multicast.handshake", "", "gids", &mcMsg{Gids: []string{"01", hx.Hex(make([]byte, 300))}})
	for _, st := range []int32{0, 1, 2, 3, -1} {
		mk("multicast.notify", "", "notify", &mcMsg{Status: st})
		mk("multicast.notify", "", "notify", &mcMsg{Status: st, Gids: []string{jg}})
	}
	mk("multicast.notify", "", "notify", &mcMsg{Status: 1, Gids: []string{"", hx.Hex(r.Bytes(5))}})
	mk("multicast.notify", "", "notify", &mcMsg{Status: 2, Gids: []string{"", hx.Hex(r.Bytes(40))}})
	// ---- findGroup
	for _, g := range gidv {
		for _, lim := range []int32{0, 1, 5, -1, 2147483647, -2147483648} {
			if !run.Thorough() && r.Intn(3) != 0 {
				continue
			}
			mk("multicast.findgroup", "", "find-group", &mcMsg{Gid: g, Limit: lim, TTL: []int32{0, 8, 9, 10, -5, 2147483647}[r.Intn(6)],
				Paths: [][]string{nil, {peer}, {self}, {"", "01", peer}, {hx.Hex(make([]byte, 200))}}[r.Intn(5)]})
		}
	}
	// ---- onMulticast
	for _, g := range gidv {
		for _, or := range []string{peer, self, "", "0102", hx.Hex(make([]byte, 100))} {
			if !run.Thorough() && r.Intn(2) != 0 {
				continue
			}
			mk("multicast.multicast", "", "multicast-message", &mcMsg{Gid: g, Origin: or, Data: hx.Hex(r.Bytes(r.Intn(6))), Ctime: int64(r.Intn(3)) - 1})
		}
	}
	mk("multicast.multicast", "", "multicast-duplicate", &mcMsg{ID: 77, Gid: jg, Origin: peer})
	mk("multicast.multicast", "", "multicast-duplicate", &mcMsg{ID: 77, Gid: jg, Origin: peer})
	// ---- client reads
	for _, gs := range [][]string{nil, {jg}, {"", "01"}, {hx.Hex(make([]byte, 500))}} {
		mk("multicast.hsout", "", "gids-reply", &mcMsg{Gids: gs})
	}
	for _, sc := range []string{"so", "sr"} {
		for _, m := range []*mcMsg{{}, {Err: "boom"}, {Err: "%s%d%!"}, {Gid: jg, Data: "0102", Type: 1}, {Data: hx.Hex(make([]byte, 70000))}} {
			mk("multicast.send", sc, "group-message-reply", m)
		}
	}
	// ---- raw
	type rawdef struct {
		h     string
		valid proto.Message
	}
	for _, rd := range []rawdef{
		{"multicast.handshake", &mpb.GIDs{Gid: [][]byte{joinedGID.Bytes()}}},
		{"multicast.findgroup", &mpb.FindGroupReq{Gid: joinedGID.Bytes(), Limit: 2}},
		{"multicast.multicast", &mpb.MulticastMsg{Id: 1 << 50, Origin: p.overlay.Bytes(), Gid: joinedGID.Bytes()}},
		{"multicast.notify", &mpb.Notify{Status: 1}},
		{"multicast.message", &mpb.GroupMsg{Gid: subbedGID.Bytes(), Type: 1}},
		{"multicast.hsout", &mpb.GIDs{Gid: [][]byte{joinedGID.Bytes()}}},
		{"multicast.send", &mpb.GroupMsg{}},
	} {
		v, _ := proto.Marshal(rd.valid)
		for _, chunks := range rawStreams(r, v, run.N(8, 200)) {
			add(&Case{H: rd.h, Kind: "raw", Raw: hexes(chunks...), Class: "raw-bytes"})
		}
	}
	_ = boson.ZeroAddress
}

func init() {
	for _, d := range []struct{ h, stream string }{{"multicast.handshake", "handshake"}, {"multicast.findgroup", "findGroup"}, {"multicast.multicast", "multicast"},
		{"multicast.notify", "notify"}, {"multicast.message", "message"}} {
		register(&handlerDef{id: d.h, run: runMulticastIn(d.h, d.stream), coq: coqMulticast(d.h)})
	}
	register(&handlerDef{id: "multicast.hsout", run: runMulticastOut("multicast.hsout"), coq: nil})
	register(&handlerDef{id: "multicast.send", run: runMulticastOut("multicast.send"), coq: nil})
	generators = append(generators, genMulticast)
}
