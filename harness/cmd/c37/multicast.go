package main

// multicast.handshake = (*Service).HandshakeIncoming   multicast.findgroup = onFindGroup
// multicast.multicast = onMulticast                    multicast.notify    = onNotify
// multicast.message   = onMessage (+ the reader goroutine notifyMessage starts for SendReceive)
// multicast.hsout     = Handshake (client read of GIDs) multicast.send     = Send / SendReceive (client read of GroupMsg)
// Real multicast.Service on the real kademlia of net.go.

import (
	"context"
	"encoding/json"
	"sync/atomic"
	"time"

	"github.com/gauss-project/aurorafs/pkg/aurora"
	"github.com/gauss-project/aurorafs/pkg/boson"
	"github.com/gauss-project/aurorafs/pkg/multicast"
	mpb "github.com/gauss-project/aurorafs/pkg/multicast/pb"
	"github.com/gauss-project/aurorafs/pkg/p2p"
	"github.com/gauss-project/aurorafs/pkg/p2p/streamtest"
	rmock "github.com/gauss-project/aurorafs/pkg/routetab/mock"
	"github.com/gauss-project/aurorafs/pkg/subscribe"
	"github.com/gogo/protobuf/proto"

	"verifharness/hx"
)

var joinedGID = multicast.GenerateGID("c37-joined")
var subbedGID = multicast.GenerateGID("c37-joined-subscribed")

type mcMsg struct {
	Gids   []string `json:"gids,omitempty"` // GIDs / Notify
	Status int32    `json:"status"`         // Notify
	Gid    string   `json:"gid,omitempty"`  // FindGroupReq / MulticastMsg / GroupMsg
	Limit  int32    `json:"limit"`
	TTL    int32    `json:"ttl"`
	Paths  []string `json:"paths,omitempty"`
	ID     uint64   `json:"id"`
	Ctime  int64    `json:"ctime"`
	Origin string   `json:"origin,omitempty"`
	Data   string   `json:"data,omitempty"`
	Type   int32    `json:"type"`
	Err    string   `json:"err,omitempty"`
	Extra  string   `json:"extra,omitempty"` // bytes sent after the first message (hex)
	// earlier messages of the SAME peer on the same node (state they create is used by this one)
	Pre []mcPre `json:"pre,omitempty"`
}

type mcPre struct {
	H string `json:"h"` // multicast.handshake | multicast.notify | multicast.findgroup | multicast.multicast
	M mcMsg  `json:"m"`
}

var mcStreams = map[string]string{"multicast.handshake": "handshake", "multicast.findgroup": "findGroup", "multicast.multicast": "multicast",
	"multicast.notify": "notify", "multicast.message": "message"}

func mcMarshal(h string, m *mcMsg) []byte {
	var b []byte
	switch h {
	case "multicast.handshake", "multicast.hsout":
		b, _ = proto.Marshal(&mpb.GIDs{Gid: bytesList(m.Gids)})
	case "multicast.notify":
		b, _ = proto.Marshal(&mpb.Notify{Status: m.Status, Gids: bytesList(m.Gids)})
	case "multicast.findgroup":
		b, _ = proto.Marshal(&mpb.FindGroupReq{Gid: unhex(m.Gid), Limit: m.Limit, Ttl: m.TTL, Paths: bytesList(m.Paths)})
	case "multicast.multicast":
		b, _ = proto.Marshal(&mpb.MulticastMsg{Id: m.ID, CreateTime: m.Ctime, Origin: unhex(m.Origin), Gid: unhex(m.Gid), Data: unhex(m.Data)})
	case "multicast.message", "multicast.send":
		b, _ = proto.Marshal(&mpb.GroupMsg{Gid: unhex(m.Gid), Data: unhex(m.Data), Type: m.Type, Err: m.Err})
	}
	return b
}

func bytesList(hs []string) [][]byte {
	var out [][]byte
	for _, h := range hs {
		out = append(out, unhex(h))
	}
	return out
}

var mcSeq uint64

func newMulticast(e *env, evil p2p.ProtocolSpec) *multicast.Service {
	n := e.net()
	rec := streamtest.New(streamtest.WithProtocols(evil), streamtest.WithBaseAddr(e.node.overlay))
	route := rmock.NewMockRouteTable()
	svc := multicast.NewService(e.node.overlay, aurora.NewModel().SetMode(aurora.FullNode), n.p2ps, relayStreamer{rec}, n.kad, &route, e.logger, subscribe.NewSubPub(), multicast.Option{})
	svc.VerifC37JoinGroup(joinedGID, false)
	svc.VerifC37JoinGroup(subbedGID, true)
	return svc
}

// evil multicast peer: answers findGroup with the given chunks, swallows everything else
func evilMulticastPeer(findReply [][]byte) p2p.ProtocolSpec {
	sink := func(ctx context.Context, p p2p.Peer, s p2p.Stream) error { return s.Close() }
	rep := func(ctx context.Context, p p2p.Peer, s p2p.Stream) error {
		for _, c := range findReply {
			if len(c) > 0 {
				if _, err := s.Write(c); err != nil {
					return nil
				}
			}
		}
		return s.Close()
	}
	return p2p.ProtocolSpec{Name: "multicast", Version: "1.2.0", StreamSpecs: []p2p.StreamSpec{
		{Name: "handshake", Handler: rep}, {Name: "findGroup", Handler: rep}, {Name: "multicast", Handler: sink},
		{Name: "notify", Handler: sink}, {Name: "message", Handler: rep}}}
}

func mcFrames(h string, c *Case) ([][]byte, *mcMsg) {
	if c.Kind == "raw" {
		return rawChunks(c), nil
	}
	var m mcMsg
	_ = json.Unmarshal(c.Msg, &m)
	b := mcMarshal(h, &m)
	ch := [][]byte{frame(b)}
	if m.Extra != "" {
		ch = append(ch, unhex(m.Extra))
	}
	return ch, &m
}

func runMulticastIn(h, stream string) func(e *env, c *Case) Obs {
	return func(e *env, c *Case) Obs {
		fr, _ := proto.Marshal(&mpb.FindGroupResp{Addresses: [][]byte{e.peer.overlay.Bytes(), {}, {1}}})
		svc := newMulticast(e, evilMulticastPeer([][]byte{frame(fr)}))
		chunks, m := mcFrames(h, c)
		if m != nil && h == "multicast.multicast" && m.ID == 0 {
			// a fresh id per run: the de-duplication cache is process-global
			m.ID = 1<<40 + atomic.AddUint64(&mcSeq, 1)
			b, _ := proto.Marshal(&mpb.MulticastMsg{Id: m.ID, CreateTime: m.Ctime, Origin: unhex(m.Origin), Gid: unhex(m.Gid), Data: unhex(m.Data)})
			chunks = [][]byte{frame(b)}
		}
		if m != nil {
			for pi := range m.Pre { // the same peer's earlier messages, each on its own stream
				p := &m.Pre[pi]
				if p.H == "multicast.multicast" && p.M.ID == 0 {
					p.M.ID = 1<<40 + atomic.AddUint64(&mcSeq, 1)
				}
				pr := driveInbound(svc.Protocol(), mcStreams[p.H], e.peer.overlay, false, [][]byte{frame(mcMarshal(p.H, &p.M))}, 30*time.Second)
				if pr.panicked || pr.hang {
					return Obs{Panic: pr.panicked, PMsg: pr.pmsg, Hang: pr.hang, Where: "handler(pre:" + p.H + ")"}
				}
			}
		}
		kn, jn := svc.VerifC37GroupsWithPeers() // state the front reads (created by the earlier messages)
		before := svc.VerifC37GroupCount()
		res := driveInbound(svc.Protocol(), stream, e.peer.overlay, false, chunks, 30*time.Second)
		if h == "multicast.message" {
			time.Sleep(30 * time.Millisecond) // the reader goroutine of a SendReceive session
		}
		return Obs{Panic: res.panicked, PMsg: res.pmsg, Hang: res.hang, Where: "handler", Err: errBit(res.err),
			Aux: map[string]int{"newgroups": svc.VerifC37GroupCount() - before, "replies": countFrames(res.reply)}, Lists: map[string][]string{"known": hexes(kn...), "joined": hexes(jn...)}}
	}
}

func runMulticastOut(h string) func(e *env, c *Case) Obs {
	return func(e *env, c *Case) Obs {
		chunks, _ := mcFrames(h, c)
		svc := newMulticast(e, evilMulticastPeer(chunks))
		r := guardClient(30*time.Second, func() error {
			switch {
			case h == "multicast.hsout":
				return svc.Handshake(context.Background(), e.peer.overlay)
			case c.Scen == "sr":
				_, err := svc.SendReceive(context.Background(), []byte("q"), joinedGID, e.peer.overlay)
				return err
			default:
				return svc.Send(context.Background(), []byte("q"), joinedGID, e.peer.overlay)
			}
		})
		return Obs{Panic: r.panicked, PMsg: r.pmsg, Hang: r.hang, Where: "client", Err: errBit(r.err)}
	}
}

// multicast.discover: the node's own discovery round for a joined group whose only member is the peer:
// getGroupNode(peer) reads the peer's FindGroupResp (addresses of any length, filed with g.add), then
// HandshakeAllPeers on the known members reads the peer's GIDs replies.
var discGID = multicast.GenerateGID("c37-discover")

func runMulticastDiscover(e *env, c *Case) Obs {
	var m mcMsg
	_ = json.Unmarshal(c.Msg, &m)
	fr, _ := proto.Marshal(&mpb.FindGroupResp{Addresses: bytesList(m.Paths)})
	gr, _ := proto.Marshal(&mpb.GIDs{Gid: bytesList(m.Gids)})
	findReply, hsReply := [][]byte{frame(fr)}, [][]byte{frame(gr)}
	if c.Kind == "raw" {
		findReply = rawChunks(c)
		if c.Scen == "rawgids" {
			findReply, hsReply = [][]byte{frame(fr)}, rawChunks(c)
		}
	}
	reply := func(chunks [][]byte) p2p.HandlerFunc {
		return func(ctx context.Context, p p2p.Peer, s p2p.Stream) error {
			for _, ch := range chunks {
				if len(ch) > 0 {
					if _, err := s.Write(ch); err != nil {
						return nil
					}
				}
			}
			return s.Close()
		}
	}
	evil := p2p.ProtocolSpec{Name: "multicast", Version: "1.2.0", StreamSpecs: []p2p.StreamSpec{
		{Name: "handshake", Handler: reply(hsReply)}, {Name: "findGroup", Handler: reply(findReply)}}}
	svc := newMulticast(e, evil)
	svc.VerifC37JoinGroup(discGID, false)
	// the peer becomes a (kept) member through its own handshake
	hb, _ := proto.Marshal(&mpb.GIDs{Gid: [][]byte{discGID.Bytes()}})
	pr := driveInbound(svc.Protocol(), "handshake", e.peer.overlay, false, [][]byte{frame(hb)}, 30*time.Second)
	if pr.panicked || pr.hang {
		return Obs{Panic: pr.panicked, PMsg: pr.pmsg, Hang: pr.hang, Where: "handler(pre)"}
	}
	r := guardClient(40*time.Second, func() error { svc.VerifC37Discover(discGID, 8); return nil })
	_, _, kn := svc.VerifC37GroupSizes(discGID)
	return Obs{Panic: r.panicked, PMsg: r.pmsg, Hang: r.hang, Where: "client", Aux: map[string]int{"known": kn}}
}

// ---------------------------------------------------------------- Coq

func coqBytesList(hs []string) string {
	var el []string
	for _, h := range hs {
		el = append(el, coqHB(unhex(h)))
	}
	return hx.CoqList(el, "list N")
}
func mcSize(m *mcMsg) int {
	n := len(m.Gid) + len(m.Origin) + len(m.Data) + len(m.Err) + len(m.Extra)
	for _, g := range m.Gids {
		n += len(g)
	}
	for _, g := range m.Paths {
		n += len(g)
	}
	return n
}

func coqMulticast(h string) func(c *Case, o *Obs) (string, bool) {
	return func(c *Case, o *Obs) (string, bool) {
		var m mcMsg
		_ = json.Unmarshal(c.Msg, &m)
		if mcSize(&m) > 1500 {
			return "", true
		}
		n, p37 := idents()
		switch h {
		case "multicast.handshake":
			return hx.CoqApp("CMcHandshake", coqBytesList(m.Gids), coqOutcome(o)), len(m.Gids) > 0
		case "multicast.notify":
			return hx.CoqApp("CMcNotify", hx.CoqZ(int64(m.Status)), coqBytesList(m.Gids), coqOutcome(o)), true
		case "multicast.findgroup":
			if mcListSize(o) > 1500 {
				return "", true
			}
			return hx.CoqApp("CMcFindGroup", hx.CoqApp("mkFindGroup", coqHB(unhex(m.Gid)), hx.CoqZ(int64(m.Limit)), hx.CoqZ(int64(m.TTL)), coqBytesList(m.Paths)),
				hx.CoqBool(mcHas(o, m.Gid) && !inStrs(hx.Hex(p37.overlay.Bytes()), m.Paths)), coqBytesList(o.Lists["known"]), coqBytesList(o.Lists["joined"]), coqOutcome(o)), true
		case "multicast.multicast":
			if mcListSize(o) > 1500 {
				return "", true
			}
			return hx.CoqApp("CMcMulticast", coqHB(n.overlay.Bytes()), coqHB(unhex(m.Origin)), coqHB(unhex(m.Gid)), hx.CoqBool(mcExists(o, &m)),
				coqBytesList(o.Lists["known"]), coqBytesList(o.Lists["joined"]), coqOutcome(o)), true
		case "multicast.hsout":
			return hx.CoqApp("CMcHsOut", coqBytesList(m.Gids), coqOutcome(o)), true
		case "multicast.send":
			return hx.CoqApp("CMcSend", hx.CoqApp("mkGroupMsg", coqHB(unhex(m.Gid)), coqHB(unhex(m.Data)), hx.CoqZ(int64(m.Type)), coqHB([]byte(m.Err))), coqOutcome(o)), true
		case "multicast.discover":
			return hx.CoqApp("CMcDiscover", coqHB(n.overlay.Bytes()), coqBytesList(m.Paths), coqBytesList(m.Gids), coqOutcome(o), hx.CoqZ(int64(o.Aux["known"]))), true
		case "multicast.message":
			joined := m.Gid == hx.Hex(joinedGID.Bytes()) || m.Gid == hx.Hex(subbedGID.Bytes())
			sub := m.Gid == hx.Hex(subbedGID.Bytes())
			// does a second well-delimited frame follow the first message?
			extra := false
			if l, k := uvarint(unhex(m.Extra)); k > 0 && int(l) <= len(unhex(m.Extra))-k && l <= 1<<20 {
				extra = true
			}
			return hx.CoqApp("CMcMessage", hx.CoqBool(joined), hx.CoqBool(sub), hx.CoqApp("mkGroupMsg", coqHB(unhex(m.Gid)), coqHB(unhex(m.Data)), hx.CoqZ(int64(m.Type)), coqHB([]byte(m.Err))),
				hx.CoqBool(extra), coqOutcome(o)), joined
		}
		return "", true
	}
}

// mcHas: a group object with members exists for gid (then it serves the request itself)
func mcHas(o *Obs, gid string) bool {
	for _, l := range [][]string{o.Lists["known"], o.Lists["joined"]} {
		for _, g := range l {
			if g == gid {
				return true
			}
		}
	}
	return false
}
func inStrs(x string, l []string) bool {
	for _, y := range l {
		if x == y {
			return true
		}
	}
	return false
}

// mcExists: a group OBJECT exists for the message's gid (joined, or created by an earlier handshake / notify of the peer)
func mcExists(o *Obs, m *mcMsg) bool {
	if mcHas(o, m.Gid) || m.Gid == hx.Hex(joinedGID.Bytes()) || m.Gid == hx.Hex(subbedGID.Bytes()) {
		return true
	}
	for _, p := range m.Pre {
		if (p.H == "multicast.handshake" || p.H == "multicast.notify") && inStrs(m.Gid, p.M.Gids) {
			if p.H == "multicast.notify" && p.M.Status != 1 && p.M.Status != 2 {
				continue
			}
			return true
		}
	}
	return false
}
func mcListSize(o *Obs) int {
	n := 0
	for _, l := range o.Lists {
		for _, g := range l {
			n += len(g)
		}
	}
	return n
}

// ---------------------------------------------------------------- generator

func genMulticast(run *hx.Run, add func(*Case)) {
	r := run.R.Fork(0x4d43)
	n, p := idents()
	self, peer := hx.Hex(n.overlay.Bytes()), hx.Hex(p.overlay.Bytes())
	jg, sg := hx.Hex(joinedGID.Bytes()), hx.Hex(subbedGID.Bytes())
	mk := func(h, scen, cls string, m *mcMsg) {
		b, _ := json.Marshal(m)
		add(&Case{H: h, Kind: "msg", Scen: scen, Msg: b, Class: cls})
	}
	gidv := []string{jg, sg, "", "01", hx.Hex(r.Bytes(32)), hx.Hex(r.Bytes(33)), hx.Hex(make([]byte, 300))}
	okFrame := hx.Hex(frame([]byte{0x0a, 0x01, 0x41}))
	// ---- corpus: SendReceive session on a subscribed group followed by a second frame (nil-message read)
	mk("multicast.message", "", "sendreceive-then-second-frame", &mcMsg{Gid: sg, Data: "01", Type: 1, Extra: okFrame})
	mk("multicast.message", "", "sendreceive-then-second-frame", &mcMsg{Gid: sg, Data: "", Type: 1, Extra: "00"})
	// ---- onMessage sweep
	for _, g := range gidv {
		for _, ty := range []int32{0, 1, 2, 3, -1, 2147483647} {
			for _, ex := range []string{"", okFrame, "00", "ff", "05aa", hx.Hex(r.Bytes(9))} {
				if !run.Thorough() && ex != "" && g != sg && r.Intn(4) != 0 {
					continue
				}
				cls := "group-message"
				if ex != "" {
					cls = "group-message-then-more-bytes"
				}
				mk("multicast.message", "", cls, &mcMsg{Gid: g, Data: hx.Hex(r.Bytes(r.Intn(5))), Type: ty, Err: []string{"", "x"}[r.Intn(2)], Extra: ex})
			}
		}
	}
	mk("multicast.message", "", "group-message-big", &mcMsg{Gid: sg, Data: hx.Hex(make([]byte, 100000)), Type: 0})
	// ---- handshake / notify (each new gid costs the 500 ms groupPeers throttle: few of them)
	mk("multicast.handshake", "", "gids", &mcMsg{})
	mk("multicast.handshake", "", "gids", &mcMsg{Gids: []string{jg}})
	mk("multicast.handshake", "", "gids", &mcMsg{Gids: []string{jg, sg, jg}})
	mk("multicast.handshake", "", "gids", &mcMsg{Gids: []string{""}})
	mk("multicast.handshake", "", "gids", &mcMsg{Gids: []string{"01", hx.Hex(make([]byte, 300))}})
	for _, st := range []int32{0, 1, 2, 3, -1} {
		mk("multicast.notify", "", "notify", &mcMsg{Status: st})
		mk("multicast.notify", "", "notify", &mcMsg{Status: st, Gids: []string{jg}})
	}
	mk("multicast.notify", "", "notify", &mcMsg{Status: 1, Gids: []string{"", hx.Hex(r.Bytes(5))}})
	mk("multicast.notify", "", "notify", &mcMsg{Status: 2, Gids: []string{"", hx.Hex(r.Bytes(40))}})
	// ---- findGroup
	for _, g := range gidv {
		for _, lim := range []int32{0, 1, 5, -1, 2147483647, -2147483648} {
			if !run.Thorough() && r.Intn(3) != 0 {
				continue
			}
			mk("multicast.findgroup", "", "find-group", &mcMsg{Gid: g, Limit: lim, TTL: []int32{0, 8, 9, 10, -5, 2147483647}[r.Intn(6)],
				Paths: [][]string{nil, {peer}, {self}, {"", "01", peer}, {hx.Hex(make([]byte, 200))}}[r.Intn(5)]})
		}
	}
	// ---- onMulticast
	for _, g := range gidv {
		for _, or := range []string{peer, self, "", "0102", hx.Hex(make([]byte, 100))} {
			if !run.Thorough() && r.Intn(2) != 0 {
				continue
			}
			mk("multicast.multicast", "", "multicast-message", &mcMsg{Gid: g, Origin: or, Data: hx.Hex(r.Bytes(r.Intn(6))), Ctime: int64(r.Intn(3)) - 1})
		}
	}
	mk("multicast.multicast", "", "multicast-duplicate", &mcMsg{ID: 77, Gid: jg, Origin: peer})
	mk("multicast.multicast", "", "multicast-duplicate", &mcMsg{ID: 77, Gid: jg, Origin: peer})
	// ---- SEQUENCES: gids of mixed length announced by the peer (handshake / notify / find-group), then a message that
	// makes the node compare them (forwarding picks the "closest" known group): 0, 1, 31, 32, 33 bytes, short ones
	// prefixes of long ones
	long := r.Bytes(33)
	mixed := []string{hx.Hex(long[:32]), hx.Hex(long[:1]), hx.Hex(long[:31]), hx.Hex(long), "", hx.Hex(r.Bytes(32)), hx.Hex(r.Bytes(1))}
	unknown := hx.Hex(r.Bytes(32))
	seq := func(h, cls string, pre []mcPre, m *mcMsg) {
		m.Pre = pre
		mk(h, "", cls, m)
	}
	hs := func(gids ...string) mcPre { return mcPre{H: "multicast.handshake", M: mcMsg{Gids: gids}} }
	nt := func(st int32, gids ...string) mcPre {
		return mcPre{H: "multicast.notify", M: mcMsg{Status: st, Gids: gids}}
	}
	// corpus: the witness of seeded change C37-1 (32-byte gid + its 1-byte prefix, then a message for an unknown group)
	seq("multicast.multicast", "mixed-length-gids-then-multicast", []mcPre{hs(mixed[0], mixed[1])}, &mcMsg{Gid: unknown, Origin: peer, Data: "01"})
	seq("multicast.findgroup", "mixed-length-gids-then-findgroup", []mcPre{hs(mixed[0], mixed[1])}, &mcMsg{Gid: unknown, Limit: 2, TTL: 1})
	pres := [][]mcPre{
		{hs(mixed[1], mixed[0])}, {hs(mixed...)}, {nt(1, mixed[0], mixed[2])}, {nt(1, mixed[3]), hs(mixed[0], mixed[1], mixed[4])},
		{hs(mixed[0]), nt(1, mixed[1])}, {hs(mixed[0], mixed[1]), nt(2, mixed[0])}, {hs(jg, mixed[1])}, {hs(jg, sg, mixed[2])},
		{hs(mixed[5], mixed[6])}, {hs(mixed[4], mixed[0], mixed[1])},
		{mcPre{H: "multicast.findgroup", M: mcMsg{Gid: mixed[1], Limit: 1}}, hs(mixed[0], mixed[3])},
	}
	if !run.Thorough() {
		pres = append(pres[:3:3], pres[5], pres[6], pres[10]) // every new group costs the 500 ms groupPeers throttle
	}
	for pi, pre := range pres {
		for _, g := range []string{unknown, "", hx.Hex(long[:1]), hx.Hex(long[:31]), hx.Hex(long), hx.Hex(long[:32])} {
			if !run.Thorough() && r.Intn(2) != 0 {
				continue
			}
			seq("multicast.multicast", "mixed-length-gids-then-multicast", pre, &mcMsg{Gid: g, Origin: peer, Data: "02"})
			seq("multicast.findgroup", "mixed-length-gids-then-findgroup", pre, &mcMsg{Gid: g, Limit: 3, TTL: int32(r.Intn(3))})
		}
		if !run.Thorough() && pi > 1 {
			continue
		}
		seq("multicast.handshake", "mixed-length-gids-then-handshake", pre, &mcMsg{Gids: []string{mixed[r.Intn(len(mixed))]}})
		seq("multicast.notify", "mixed-length-gids-then-notify", pre, &mcMsg{Status: 2, Gids: []string{mixed[0], mixed[1]}})
		seq("multicast.message", "mixed-length-gids-then-message", pre, &mcMsg{Gid: mixed[1], Type: 0})
	}
	// ---- the node's own discovery round: find-group reply with addresses of every length (the peer itself, the
	// node itself, prefixes), then the GIDs replies of the handshakes with the members it learnt
	dg := hx.Hex(discGID.Bytes())
	addrSets := [][]string{nil, {peer}, {self}, {hx.Hex(long[:32]), hx.Hex(long[:1]), hx.Hex(long[:31]), hx.Hex(long), ""}, {peer, self, "", "01", hx.Hex(make([]byte, 200))},
		{hx.Hex(long[:1]), hx.Hex(long[:1]), hx.Hex(long[:32])}}
	gidSets := [][]string{nil, {dg}, {dg, mixed[1], mixed[0]}, {"", hx.Hex(long[:31])}}
	for i, as := range addrSets {
		for k, gs := range gidSets {
			if !run.Thorough() && k != i%len(gidSets) && !(k == 1 && i == 3) {
				continue
			}
			mk("multicast.discover", "", "find-group-reply-then-gids-replies", &mcMsg{Paths: as, Gids: gs})
		}
	}
	// ---- client reads
	for _, gs := range [][]string{nil, {jg}, {"", "01"}, {hx.Hex(make([]byte, 500))}} {
		mk("multicast.hsout", "", "gids-reply", &mcMsg{Gids: gs})
	}
	for _, sc := range []string{"so", "sr"} {
		for _, m := range []*mcMsg{{}, {Err: "boom"}, {Err: "%s%d%!"}, {Gid: jg, Data: "0102", Type: 1}, {Data: hx.Hex(make([]byte, 70000))}} {
			mk("multicast.send", sc, "group-message-reply", m)
		}
	}
	// ---- raw
	type rawdef struct {
		h     string
		valid proto.Message
	}
	for _, rd := range []rawdef{
		{"multicast.handshake", &mpb.GIDs{Gid: [][]byte{joinedGID.Bytes()}}},
		{"multicast.findgroup", &mpb.FindGroupReq{Gid: joinedGID.Bytes(), Limit: 2}},
		{"multicast.multicast", &mpb.MulticastMsg{Id: 1 << 50, Origin: p.overlay.Bytes(), Gid: joinedGID.Bytes()}},
		{"multicast.notify", &mpb.Notify{Status: 1}},
		{"multicast.message", &mpb.GroupMsg{Gid: subbedGID.Bytes(), Type: 1}},
		{"multicast.hsout", &mpb.GIDs{Gid: [][]byte{joinedGID.Bytes()}}},
		{"multicast.send", &mpb.GroupMsg{}},
		{"multicast.discover", &mpb.FindGroupResp{Addresses: [][]byte{p.overlay.Bytes()}}},
	} {
		v, _ := proto.Marshal(rd.valid)
		for _, chunks := range rawStreams(r, v, run.N(8, 200)) {
			add(&Case{H: rd.h, Kind: "raw", Raw: hexes(chunks...), Class: "raw-bytes"})
		}
	}
	gv, _ := proto.Marshal(&mpb.GIDs{Gid: [][]byte{discGID.Bytes()}})
	for _, chunks := range rawStreams(r, gv, run.N(2, 150)) {
		add(&Case{H: "multicast.discover", Kind: "raw", Scen: "rawgids", Raw: hexes(chunks...), Class: "raw-bytes-gids-reply"})
	}
	_ = boson.ZeroAddress
}

func init() {
	for _, d := range []struct{ h, stream string }{{"multicast.handshake", "handshake"}, {"multicast.findgroup", "findGroup"}, {"multicast.multicast", "multicast"},
		{"multicast.notify", "notify"}, {"multicast.message", "message"}} {
		register(&handlerDef{id: d.h, run: runMulticastIn(d.h, d.stream), coq: coqMulticast(d.h)})
	}
	register(&handlerDef{id: "multicast.hsout", run: runMulticastOut("multicast.hsout"), coq: coqMulticast("multicast.hsout")})
	register(&handlerDef{id: "multicast.send", run: runMulticastOut("multicast.send"), coq: coqMulticast("multicast.send")})
	register(&handlerDef{id: "multicast.discover", run: runMulticastDiscover, coq: coqMulticast("multicast.discover")})
	generators = append(generators, genMulticast)
}
