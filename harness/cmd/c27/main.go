// C27 harness: histories of SavePath / Delete / Gc / UsedTime changes / reload on a real
// routetab.Table over the in-memory leveldb state store, with Get / GetNextHop / full dumps
// as observations.  Oracle: the property statement evaluated against a reference set of
// live paths kept by the harness itself.
package main

import (
	"bytes"
	"crypto/sha256"
	"encoding/hex"
	"encoding/json"
	"fmt"
	"io"
	"math"
	"sort"
	"strings"
	"sync/atomic"
	"time"

	"github.com/ethereum/go-ethereum/common"
	"github.com/gauss-project/aurorafs/pkg/boson"
	"github.com/gauss-project/aurorafs/pkg/logging"
	"github.com/gauss-project/aurorafs/pkg/routetab"
	"github.com/gauss-project/aurorafs/pkg/routetab/pb"
	"github.com/gauss-project/aurorafs/pkg/statestore/leveldb"
	"github.com/gauss-project/aurorafs/pkg/storage"
	"verifharness/hx"
)

const (
	routePrefix = "route_index_"   // table.go routePrefix
	pathPrefix  = "route_pathKey_" // table.go pathPrefix
)

type jop struct {
	Op    string `json:"op"` // save delete gc age resume get next dump
	P     []int  `json:"p,omitempty"`
	T     int    `json:"t,omitempty"`
	Skips []int  `json:"skips,omitempty"`
	E     int    `json:"e,omitempty"`
	A     int    `json:"a,omitempty"`
}
type jcase struct {
	Name   string   `json:"name,omitempty"`
	Alpha  int      `json:"alpha"`
	MaxTTL int      `json:"maxttl"`
	Univ   []string `json:"univ"` // hex addresses
	Ops    []jop    `json:"ops"`
}

func natList(xs []int) string {
	s := make([]string, len(xs))
	for i, x := range xs {
		s[i] = fmt.Sprint(x)
	}
	return "[" + strings.Join(s, ";") + "]"
}

// reference bookkeeping of the oracle: which item lists are "stored paths" by the
// property's own words (saved, and not deleted / expired / dropped at reload since)
type refPath struct {
	items []int
	age   int
}

type runner struct {
	run      *hx.Run
	jc       jcase
	univ     [][]byte
	idx      map[string]int
	wellform bool // every universe address has 32 bytes (the theorem's domain)
	store    storage.StateStorer
	tab      *routetab.Table
	live     map[string]*refPath // key: concat of the item bytes
	removed  map[string]string   // concat -> why it left the live set
	tbl      map[string][]int    // idx-list string -> idx list (for the digest table)
	t0       time.Time
	ops      []string
	sr       *hx.Rand       // skip lists of the oracle sweeps: derived from the case, so that a replay repeats them
	keys     [][]byte       // every 32-byte key that occurs in the case, emitted once
	keyIdx   map[string]int // key -> index in keys
}

func hexList(bs [][]byte) string {
	el := make([]string, len(bs))
	for i, b := range bs {
		el[i] = "\"" + hex.EncodeToString(b) + "\""
	}
	return lst(el)
}

func lst(el []string) string { return "[" + strings.Join(el, "; ") + "]" }

// kx returns the index of a key in the case's key table (added on first use)
func (r *runner) kx(k []byte) int {
	if i, ok := r.keyIdx[string(k)]; ok {
		return i
	}
	r.keyIdx[string(k)] = len(r.keys)
	r.keys = append(r.keys, append([]byte{}, k...))
	return len(r.keys) - 1
}

func (r *runner) items(p []int) [][]byte {
	out := make([][]byte, len(p))
	for i, x := range p {
		out[i] = r.univ[x]
	}
	return out
}
func (r *runner) cat(p []int) string { return string(bytes.Join(r.items(p), nil)) }
func (r *runner) addrs(p []int) []boson.Address {
	out := make([]boson.Address, len(p))
	for i, x := range p {
		out[i] = boson.NewAddress(r.univ[x])
	}
	return out
}
func (r *runner) note(p []int) { r.tbl[fmt.Sprint(p)] = append([]int{}, p...) }
func (r *runner) ix(b []byte) int {
	if i, ok := r.idx[string(b)]; ok {
		return i
	}
	return 999
}
func (r *runner) ixs(as []boson.Address) []int {
	out := make([]int, len(as))
	for i, a := range as {
		out[i] = r.ix(a.Bytes())
	}
	return out
}

func (r *runner) violate(sig, detail string, impl, want interface{}) {
	r.run.Violate(hx.Violation{Sig: sig, Detail: detail, Case: r.jc, Impl: impl, Want: want})
}

// position of target before the last hop
func beforeLast(items []int, t int) bool {
	for k, v := range items {
		if k <= len(items)-2 && v == t {
			return true
		}
	}
	return false
}

// the property statement, for one target, on the implementation's answers
func (r *runner) oracleTarget(t int, skips []int, when string) {
	alpha := r.jc.Alpha
	target := boson.NewAddress(r.univ[t])
	paths, err := r.tab.Get(target)
	r.run.OracleChecked(1)
	if err == nil {
		if len(paths) > alpha {
			r.violate("bounded:get-returns-more-than-alpha", fmt.Sprintf("%s: Get(%d) returned %d paths, alpha=%d", when, t, len(paths), alpha), len(paths), alpha)
		}
		for _, p := range paths {
			it := r.ixs(p.Items)
			if !r.wellform {
				continue
			}
			if !beforeLast(it, t) {
				r.violate("get:target-not-before-last-hop", fmt.Sprintf("%s: Get(%d) returned %v", when, t, it), it, "target at an index <= len-2")
			}
			c := r.cat(it)
			if lp, ok := r.live[c]; !ok || fmt.Sprint(lp.items) != fmt.Sprint(it) {
				why := r.removed[c]
				if why == "" {
					why = "unknown"
				}
				r.violate("get:returns-"+why+"-path", fmt.Sprintf("%s: Get(%d) returned %v which is not a stored path (%s)", when, t, it, why), it, "a stored path")
			}
		}
	}
	nh := r.tab.GetNextHop(target, r.addrs(skips)...)
	r.run.OracleChecked(1)
	seen := map[string]bool{}
	for _, h := range nh {
		hs := h.String()
		if seen[hs] {
			r.violate("nexthop:duplicate", fmt.Sprintf("%s: GetNextHop(%d,%v) = %v", when, t, skips, r.ixs(nh)), r.ixs(nh), "distinct")
		}
		seen[hs] = true
		hi := r.ix(h.Bytes())
		for _, s := range skips {
			if bytes.Equal(r.univ[s], h.Bytes()) {
				r.violate("nexthop:in-skip-list", fmt.Sprintf("%s: GetNextHop(%d,%v) offers %d", when, t, skips, hi), hi, "not skipped")
			}
		}
		if !r.wellform {
			continue
		}
		ok := false
		for _, lp := range r.live {
			if lp.items[len(lp.items)-1] == hi && beforeLast(lp.items, t) {
				ok = true
			}
		}
		if !ok {
			sig := "nexthop:no-stored-path-with-target"
			for c, why := range r.removed {
				_ = why
				it := r.unCat(c)
				if it != nil && it[len(it)-1] == hi && beforeLast(it, t) {
					sig = "nexthop:last-hop-of-removed-path"
				}
			}
			r.violate(sig, fmt.Sprintf("%s: GetNextHop(%d,%v) offers %d but no stored path contains %d before its last hop %d", when, t, skips, hi, t, hi), hi, "last hop of a stored path containing the target")
		}
	}
	if len(nh) > alpha {
		r.violate("bounded:nexthops-more-than-alpha", fmt.Sprintf("%s: GetNextHop(%d) returned %d hops, alpha=%d", when, t, len(nh), alpha), len(nh), alpha)
	}
}

// only in the well-formed universe (all 32 bytes): split a concat back into indices
func (r *runner) unCat(c string) []int {
	if !r.wellform || len(c)%32 != 0 {
		return nil
	}
	var out []int
	for i := 0; i < len(c); i += 32 {
		out = append(out, r.ix([]byte(c[i:i+32])))
	}
	return out
}

func (r *runner) oracleSweep(when string) {
	for _, e := range r.tab.VerifRoutes() {
		r.run.OracleChecked(1)
		if len(e.Routes) > r.jc.Alpha {
			r.violate("bounded:routes-more-than-alpha", fmt.Sprintf("%s: target key %x has %d routes, alpha=%d", when, e.Target[:4], len(e.Routes), r.jc.Alpha), len(e.Routes), r.jc.Alpha)
		}
	}
	for t := range r.univ {
		var skips []int
		if r.sr.Chance(1, 3) {
			for s := range r.univ {
				if r.sr.Chance(1, 3) {
					skips = append(skips, s)
				}
			}
		}
		r.oracleTarget(t, skips, when)
	}
}

func (r *runner) dump() string {
	var ps, rs, sps, srs []string
	for _, e := range r.tab.VerifPaths() {
		age := int(math.Round(r.t0.Sub(e.Path.UsedTime).Hours()))
		if age < 0 {
			age = 0
		}
		ps = append(ps, fmt.Sprintf("(%d,(%s,%d))", r.kx(e.Key[:]), natList(r.ixs(e.Path.Items)), age))
	}
	rl := func(l []routetab.TargetRoute) string {
		var el []string
		for _, v := range l {
			el = append(el, fmt.Sprintf("(%d,%d)", r.ix(v.Neighbor.Bytes()), r.kx(v.PathKey[:])))
		}
		return lst(el)
	}
	for _, e := range r.tab.VerifRoutes() {
		rs = append(rs, fmt.Sprintf("(%d,%s)", r.kx(e.Target[:]), rl(e.Routes)))
	}
	_ = r.store.Iterate(pathPrefix, func(k, v []byte) (bool, error) {
		key := common.HexToHash(strings.TrimPrefix(string(k), pathPrefix))
		var p routetab.Path
		if err := json.Unmarshal(v, &p); err != nil {
			sps = append(sps, fmt.Sprintf("(%d,[998])", r.kx(key[:])))
			return false, nil
		}
		sps = append(sps, fmt.Sprintf("(%d,%s)", r.kx(key[:]), natList(r.ixs(p.Items))))
		return false, nil
	})
	_ = r.store.Iterate(routePrefix, func(k, v []byte) (bool, error) {
		raw, _ := hex.DecodeString(strings.TrimPrefix(string(k), routePrefix))
		var l []routetab.TargetRoute
		_ = json.Unmarshal(v, &l)
		r.run.OracleChecked(1)
		if len(l) > r.jc.Alpha {
			r.violate("bounded:persisted-routes-more-than-alpha", fmt.Sprintf("persisted route list of %x has %d entries", raw, len(l)), len(l), r.jc.Alpha)
		}
		srs = append(srs, fmt.Sprintf("(%d,%s)", r.ix(raw), rl(l)))
		return false, nil
	})
	return hx.CoqApp("mkDump", lst(ps), lst(rs), lst(sps), lst(srs))
}

func (r *runner) exec(o jop) {
	switch o.Op {
	case "save":
		r.note(o.P)
		r.tab.SavePath(&pb.Path{Items: r.items(o.P)})
		if len(o.P) >= 2 {
			c := r.cat(o.P)
			r.live[c] = &refPath{items: append([]int{}, o.P...)}
			delete(r.removed, c)
		}
		r.ops = append(r.ops, hx.CoqApp("KSave", natList(o.P)))
	case "delete":
		r.note(o.P)
		r.tab.Delete(&routetab.Path{Items: r.addrs(o.P)})
		c := r.cat(o.P)
		if _, ok := r.live[c]; ok {
			delete(r.live, c)
			r.removed[c] = "deleted"
		}
		r.ops = append(r.ops, hx.CoqApp("KDelete", natList(o.P)))
	case "gc":
		r.tab.Gc(time.Duration(o.E)*time.Hour + 30*time.Minute)
		for c, lp := range r.live {
			if lp.age > o.E {
				delete(r.live, c)
				r.removed[c] = "expired"
			}
		}
		r.ops = append(r.ops, fmt.Sprintf("(KGc %d)", o.E))
	case "age":
		r.note(o.P)
		s := make([]byte, 0)
		for _, b := range r.items(o.P) {
			s = append(s, b...)
		}
		if r.tab.VerifSetUsedTime(sha256.Sum256(s), time.Now().Add(-time.Duration(o.A)*time.Hour)) {
			if lp, ok := r.live[string(s)]; ok {
				lp.age = o.A
			}
		}
		r.ops = append(r.ops, fmt.Sprintf("(KAge %s %d)", natList(o.P), o.A))
	case "resume":
		// a new process over the same store: Service.start does ResumeRoutes, ResumePaths
		r.tab = routetab.VerifNewTable(boson.NewAddress(bytes.Repeat([]byte{0xee}, 32)), r.store)
		r.tab.ResumeRoutes()
		r.tab.ResumePaths()
		for c, lp := range r.live {
			lp.age = 0
			if len(lp.items) > r.jc.MaxTTL {
				delete(r.live, c)
				r.removed[c] = "dropped-at-reload"
			}
		}
		r.ops = append(r.ops, "KResume")
	case "get":
		paths, err := r.tab.Get(boson.NewAddress(r.univ[o.T]))
		obs := "None"
		if err == nil {
			var el []string
			for _, p := range paths {
				el = append(el, natList(r.ixs(p.Items)))
			}
			obs = hx.CoqSome(lst(el))
		}
		r.ops = append(r.ops, hx.CoqApp("KGet", fmt.Sprint(o.T), obs))
		r.oracleTarget(o.T, nil, "get")
		return
	case "next":
		nh := r.tab.GetNextHop(boson.NewAddress(r.univ[o.T]), r.addrs(o.Skips)...)
		ix := r.ixs(nh)
		sort.Ints(ix)
		r.ops = append(r.ops, hx.CoqApp("KNext", fmt.Sprint(o.T), natList(o.Skips), natList(ix)))
		r.oracleTarget(o.T, o.Skips, "next")
		return
	case "dump":
		r.ops = append(r.ops, hx.CoqApp("KDump", r.dump()))
		return
	default:
		panic("unknown op " + o.Op)
	}
	r.oracleSweep("after " + o.Op)
}

func runCase(run *hx.Run, jc jcase) {
	atomic.StoreInt32(&routetab.MaxTTL, int32(jc.MaxTTL))
	routetab.NeighborAlpha = int32(jc.Alpha)
	st, err := leveldb.NewInMemoryStateStore(logging.New(io.Discard, 0))
	if err != nil {
		panic(err)
	}
	defer st.Close()
	r := &runner{run: run, jc: jc, store: st, idx: map[string]int{}, live: map[string]*refPath{}, removed: map[string]string{},
		tbl: map[string][]int{}, t0: time.Now(), wellform: true, keyIdx: map[string]int{}}
	for i, h := range jc.Univ {
		b, _ := hex.DecodeString(h)
		r.univ = append(r.univ, b)
		r.idx[string(b)] = i
		if len(b) != 32 {
			r.wellform = false
		}
	}
	r.tab = routetab.VerifNewTable(boson.NewAddress(bytes.Repeat([]byte{0xee}, 32)), st)
	cj, _ := json.Marshal(jc)
	cd := sha256.Sum256(cj)
	r.sr = hx.NewRand(uint64(cd[0]) | uint64(cd[1])<<8 | uint64(cd[2])<<16 | uint64(cd[3])<<24)
	nt := false
	panicked, msg := hx.Guard(func() {
		for _, o := range jc.Ops {
			r.exec(o)
			if o.Op == "resume" || o.Op == "gc" || o.Op == "delete" {
				nt = true
			}
			run.Hist("op." + o.Op)
		}
	})
	if panicked {
		r.violate("table:panic", "panic in the route table: "+msg, msg, "no panic")
		return
	}
	// digest table: computed here, not taken from the table under test
	var keys []string
	for k := range r.tbl {
		keys = append(keys, k)
	}
	sort.Strings(keys)
	var tb []string
	for _, k := range keys {
		p := r.tbl[k]
		d := sha256.Sum256([]byte(r.cat(p)))
		tb = append(tb, fmt.Sprintf("(%s,%d)", natList(p), r.kx(d[:])))
	}
	coq := hx.CoqApp("CHist", fmt.Sprint(jc.Alpha), fmt.Sprint(jc.MaxTTL), hexList(r.univ), hexList(r.keys),
		lst(tb), lst(r.ops))
	kind := "wf"
	if !r.wellform {
		kind = "malformed"
	}
	run.Hist(fmt.Sprintf("case.%s.alpha=%d", kind, jc.Alpha))
	kb, _ := json.Marshal(jc)
	run.AddCase(coq, jc, string(kb), nt && len(jc.Ops) >= 5)
}

func addr32(i int) string {
	b := sha256.Sum256([]byte{byte(i), 0x27})
	return hex.EncodeToString(b[:])
}

func wfUniv(n int) []string {
	out := make([]string, n)
	for i := range out {
		out[i] = addr32(i)
	}
	return out
}

func corpus() []jcase {
	u := wfUniv(6)
	return []jcase{
		{Name: "F-route-resume: save, delete, reload, next hop", Alpha: 2, MaxTTL: 10, Univ: u, Ops: []jop{
			{Op: "save", P: []int{1, 2, 3}}, {Op: "next", T: 1}, {Op: "delete", P: []int{1, 2, 3}}, {Op: "next", T: 1}, {Op: "dump"},
			{Op: "resume"}, {Op: "dump"}, {Op: "next", T: 1}, {Op: "next", T: 2}, {Op: "get", T: 1}}},
		{Name: "expired then reload", Alpha: 2, MaxTTL: 10, Univ: u, Ops: []jop{
			{Op: "save", P: []int{0, 1, 2}}, {Op: "save", P: []int{0, 3}}, {Op: "age", P: []int{0, 1, 2}, A: 3}, {Op: "gc", E: 2}, {Op: "dump"},
			{Op: "next", T: 0}, {Op: "resume"}, {Op: "next", T: 0}, {Op: "get", T: 0}, {Op: "dump"}}},
		{Name: "eviction at alpha", Alpha: 2, MaxTTL: 10, Univ: u, Ops: []jop{
			{Op: "save", P: []int{0, 1}}, {Op: "save", P: []int{0, 2}}, {Op: "save", P: []int{0, 3}}, {Op: "save", P: []int{0, 4}}, {Op: "save", P: []int{0, 2}},
			{Op: "get", T: 0}, {Op: "next", T: 0}, {Op: "next", T: 0, Skips: []int{4}}, {Op: "dump"}, {Op: "resume"}, {Op: "get", T: 0}, {Op: "dump"}}},
		{Name: "loops and duplicates", Alpha: 1, MaxTTL: 4, Univ: u, Ops: []jop{
			{Op: "save", P: []int{0, 1, 0, 2}}, {Op: "save", P: []int{3, 3}}, {Op: "save", P: []int{1, 1, 1}}, {Op: "save", P: []int{0}}, {Op: "save", P: nil},
			{Op: "save", P: []int{0, 1, 2, 3, 4, 5}}, {Op: "get", T: 0}, {Op: "get", T: 3}, {Op: "get", T: 2}, {Op: "next", T: 1}, {Op: "dump"},
			{Op: "resume"}, {Op: "get", T: 0}, {Op: "next", T: 0}, {Op: "dump"}, {Op: "delete", P: []int{3, 3}}, {Op: "get", T: 3}, {Op: "dump"}}},
		{Name: "framing: items of other lengths", Alpha: 2, MaxTTL: 10, Univ: []string{"01", "0001", "", "0100", addr32(1), addr32(2) + "ff", "00" + addr32(2)}, Ops: []jop{
			{Op: "save", P: []int{0, 1, 4}}, {Op: "save", P: []int{3, 0, 4}}, {Op: "save", P: []int{2, 0, 3}}, {Op: "save", P: []int{5, 4}}, {Op: "save", P: []int{6, 0}},
			{Op: "get", T: 0}, {Op: "get", T: 1}, {Op: "get", T: 5}, {Op: "get", T: 6}, {Op: "next", T: 1}, {Op: "dump"}, {Op: "resume"}, {Op: "dump"},
			{Op: "get", T: 0}, {Op: "get", T: 1}, {Op: "delete", P: []int{0, 0, 3}}, {Op: "dump"}}},
	}
}

func genCase(r *hx.Rand, nops int) jcase {
	jc := jcase{Alpha: 1 + r.Intn(3), MaxTTL: r.Pick([]int{2, 3, 4, 4, 6, 10})}
	if r.Chance(1, 7) {
		// malformed stream: addresses of other lengths, prefixes of each other
		jc.Univ = []string{"01", "0001", "", "0100", addr32(1), addr32(2) + "ff", "00" + addr32(2), addr32(1)[:62]}
	} else {
		jc.Univ = wfUniv(4 + r.Intn(4))
	}
	n := len(jc.Univ)
	var saved [][]int
	randPath := func() []int {
		l := r.Pick([]int{0, 1, 2, 2, 2, 3, 3, 3, 4, 4, 5, jc.MaxTTL, jc.MaxTTL + 1})
		p := make([]int, l)
		loopy := r.Chance(1, 4)
		perm := make([]int, n)
		for i := range perm {
			perm[i] = i
		}
		for i := n - 1; i > 0; i-- {
			j := r.Intn(i + 1)
			perm[i], perm[j] = perm[j], perm[i]
		}
		for i := range p {
			if loopy || i >= n {
				p[i] = r.Intn(n)
			} else {
				p[i] = perm[i]
			}
		}
		return p
	}
	pickSaved := func() []int {
		if len(saved) > 0 && !r.Chance(1, 6) {
			return saved[r.Intn(len(saved))]
		}
		return randPath()
	}
	hot := r.Intn(n) // bias paths towards one target so that its route list fills up
	for i := 0; i < nops; i++ {
		switch x := r.Intn(100); {
		case x < 42:
			p := randPath()
			if len(saved) > 0 && r.Chance(1, 6) {
				p = saved[r.Intn(len(saved))]
			} else if len(p) >= 2 && r.Chance(1, 2) {
				p[r.Intn(len(p)-1)] = hot
			}
			saved = append(saved, p)
			jc.Ops = append(jc.Ops, jop{Op: "save", P: p})
		case x < 54:
			jc.Ops = append(jc.Ops, jop{Op: "delete", P: pickSaved()})
		case x < 62:
			jc.Ops = append(jc.Ops, jop{Op: "gc", E: r.Intn(4)})
		case x < 72:
			jc.Ops = append(jc.Ops, jop{Op: "age", P: pickSaved(), A: r.Intn(5)})
		case x < 78:
			jc.Ops = append(jc.Ops, jop{Op: "dump"}, jop{Op: "resume"}, jop{Op: "dump"})
		case x < 88:
			t := r.Intn(n)
			if r.Bool() {
				t = hot
			}
			jc.Ops = append(jc.Ops, jop{Op: "get", T: t})
		default:
			t := r.Intn(n)
			if r.Bool() {
				t = hot
			}
			var sk []int
			for s := 0; s < n; s++ {
				if r.Chance(1, 4) {
					sk = append(sk, s)
				}
			}
			jc.Ops = append(jc.Ops, jop{Op: "next", T: t, Skips: sk})
		}
	}
	jc.Ops = append(jc.Ops, jop{Op: "dump"})
	return jc
}

func main() {
	run := hx.Start("C27", "Aurora.C27.Corr",
		"histories of SavePath/Delete/Gc/UsedTime/reload with Get/GetNextHop/dump observations on a real routetab.Table over in-memory leveldb; paths over 4-7 node universes (32-byte addresses; 1 in 7 a malformed universe with other lengths), loops, duplicates, re-saves, alpha 1..3, MaxTTL 2..10; non-trivial = at least 5 ops including a delete, gc or reload; distinct by the whole history")
	if run.Replay != "" {
		var jc jcase
		if err := run.ReadReplay(&jc); err != nil {
			panic(err)
		}
		runCase(run, jc)
		run.Finish()
		return
	}
	for _, jc := range corpus() {
		runCase(run, jc)
	}
	n := run.N(100, 2400)
	for i := 0; i < n; i++ {
		runCase(run, genCase(run.R, 8+run.R.Intn(30)))
	}
	run.Finish()
}
