package main

import (
	"encoding/hex"
	"fmt"

	"github.com/gauss-project/aurorafs/pkg/boson"
	"verifharness/hx"
)

func unhex(s string) []byte {
	b, _ := hex.DecodeString(s)
	return b
}

// universe builds a base address and, per requested bin, n distinct peer
// addresses whose proximity to the base is exactly that bin (bins >= MaxPO all
// land in bin MaxPO).
type universe struct {
	base  []byte
	addrs [][]byte
	bins  []int // proximity of addrs[i]
}

func mkUniverse(r *hx.Rand, sizes map[int]int, order []int) *universe {
	u := &universe{base: r.Bytes(32)}
	seen := map[string]bool{}
	for _, b := range order {
		for k := 0; k < sizes[b]; k++ {
			for {
				a := append([]byte{}, u.base...)
				bit := b
				if b >= int(boson.MaxPO) {
					bit = int(boson.MaxPO) + r.Intn(20) // still proximity MaxPO
				}
				a[bit/8] ^= 0x80 >> uint(bit%8)
				for j := bit + 1; j < 256; j++ {
					if r.Bool() {
						a[j/8] ^= 0x80 >> uint(j%8)
					}
				}
				if !seen[string(a)] {
					seen[string(a)] = true
					u.addrs = append(u.addrs, a)
					u.bins = append(u.bins, int(boson.Proximity(u.base, a)))
					break
				}
			}
		}
	}
	return u
}

func (u *universe) jcase(tag string) jcase {
	jc := jcase{Tag: tag, Base: hx.Hex(u.base)}
	for _, a := range u.addrs {
		jc.Addrs = append(jc.Addrs, hx.Hex(a))
	}
	return jc
}

func (u *universe) inBin(b int) []int {
	var r []int
	for i, x := range u.bins {
		if x == b {
			r = append(r, i)
		}
	}
	return r
}

func sizesFor(over int, r *hx.Rand) (map[int]int, []int) {
	nb := 3 + r.Intn(3)
	sizes := map[int]int{}
	var order []int
	for b := 0; b < nb; b++ {
		order = append(order, b)
		switch {
		case b < 2:
			sizes[b] = over + 2 + r.Intn(3)
		default:
			sizes[b] = 2 + r.Intn(4)
		}
	}
	if r.Chance(1, 3) {
		order = append(order, 31)
		sizes[31] = 1 + r.Intn(3)
	}
	return sizes, order
}

// allPublic / addAll prefixes shared by several generators
func evReachAll(u *universe, r *hx.Rand, pct int) []jevent {
	var ev []jevent
	for i := range u.addrs {
		if r.Intn(100) < pct {
			ev = append(ev, jevent{K: "reach", P: i, F1: true})
		}
	}
	return ev
}

func evAddBatches(u *universe, r *hx.Rand, pct int) []jevent {
	var ev []jevent
	var batch []int
	for i := range u.addrs {
		if r.Intn(100) < pct {
			batch = append(batch, i)
			if r.Chance(1, 6) {
				ev = append(ev, jevent{K: "add", Ps: batch})
				batch = nil
			}
		}
	}
	ev = append(ev, jevent{K: "add", Ps: batch}) // possibly the empty batch
	return ev
}

// random tail, state-aware through an over-approximation [live] of the connected set
// (assumes every Connected succeeds), so that "outbound boot node" is only generated
// for peers certainly not connected unless illFormed is set.
func evRandom(u *universe, r *hx.Rand, n int, live map[int]bool, illFormed bool, cur *int) []jevent {
	var ev []jevent
	np := len(u.addrs)
	pickPeer := func(wantLive bool) int {
		for try := 0; try < 8; try++ {
			i := r.Intn(np)
			if live[i] == wantLive {
				return i
			}
		}
		return r.Intn(np)
	}
	for k := 0; k < n; k++ {
		x := r.Intn(100)
		switch {
		case x < 40:
			p := pickPeer(r.Chance(1, 6))
			if r.Chance(2, 3) { // bias to the two shallow (large) bins
				c := u.inBin(r.Intn(2))
				if len(c) > 0 {
					p = c[r.Intn(len(c))]
				}
			}
			ev = append(ev, jevent{K: "conn", P: p, F1: r.Chance(1, 8), F2: r.Chance(1, 8)})
			live[p] = true
		case x < 48:
			p := pickPeer(false)
			boot := r.Chance(1, 3)
			if boot && live[p] && !illFormed {
				boot = false
			}
			if boot && illFormed && r.Bool() {
				p = pickPeer(true)
			}
			ev = append(ev, jevent{K: "out", P: p, F1: boot})
			if !boot {
				live[p] = true
			}
		case x < 62:
			p := pickPeer(r.Chance(5, 6))
			ev = append(ev, jevent{K: "disc", P: p})
			delete(live, p)
		case x < 69:
			p := pickPeer(r.Chance(5, 6))
			ev = append(ev, jevent{K: "force", P: p, F1: r.Chance(1, 7), F2: r.Chance(1, 7)})
		case x < 79:
			ev = append(ev, jevent{K: "pick", P: r.Intn(np)})
		case x < 84:
			var ps []int
			for j := r.Intn(5); j > 0; j-- {
				ps = append(ps, r.Intn(np))
				if r.Chance(1, 4) { // the same address twice in one batch
					ps = append(ps, ps[r.Intn(len(ps))])
				}
			}
			ev = append(ev, jevent{K: "add", Ps: ps})
		case x < 89:
			var ps []int
			for j := r.Intn(4); j > 0; j-- {
				ps = append(ps, r.Intn(np))
			}
			ev = append(ev, jevent{K: "prot", Ps: ps})
		case x < 91 && r.Chance(1, 2):
			// another Kad is created in the process: rewrites the live package variables
			b := r.Pick([]int{0, 3, 5, 7, 10, 12, 20})
			ev = append(ev, jevent{K: "newkad", P: b})
			if b > 0 {
				*cur = roundOver(b)
			}
		default:
			ev = append(ev, jevent{K: "reach", P: r.Intn(np), F1: r.Chance(7, 10), F2: r.Bool()})
		}
	}
	return ev
}

// ramp: fill the deeper bins, then push one shallow bin over the threshold with a
// Pick before every Connected.
func evRamp(u *universe, r *hx.Rand, bin int, live map[int]bool) []jevent {
	var ev []jevent
	for i, b := range u.bins {
		if b > bin && r.Chance(4, 5) {
			ev = append(ev, jevent{K: "conn", P: i})
			live[i] = true
		}
	}
	for _, i := range u.inBin(bin) {
		if r.Chance(1, 2) {
			ev = append(ev, jevent{K: "pick", P: i})
		}
		ev = append(ev, jevent{K: "conn", P: i, F1: r.Chance(1, 10)})
		live[i] = true
	}
	return ev
}

func generate() {
	r := run.R
	type plan struct {
		binMax, n int
	}
	// BinMaxPeers = 0 keeps whatever the package variables hold at that moment
	// (the defaults in a fresh process, later the values of the previous New).
	plans := []plan{{0, run.N(4, 40)}, {5, run.N(45, 900)}, {0, run.N(6, 100)}, {10, run.N(14, 300)}, {7, run.N(6, 100)}, {20, run.N(3, 60)}, {5, run.N(25, 600)}}
	cur := 20
	for _, pl := range plans {
		if pl.binMax > 0 {
			cur = roundOver(pl.binMax)
		}
		for k := 0; k < pl.n; k++ {
			rr := r.Fork(uint64(k))
			boot := rr.Chance(1, 6)
			over := cur
			if boot && over < 20 {
				over = 20 // bootNodeOverSaturationPeers
			}
			sizes, order := sizesFor(over, rr)
			u := mkUniverse(rr, sizes, order)
			flavour := rr.Pick([]int{0, 0, 1, 1, 1, 2})
			tag := []string{"random", "ramp", "illformed"}[flavour]
			jc := u.jcase(fmt.Sprintf("%s/binmax=%d", tag, pl.binMax))
			jc.BinMax, jc.Boot, jc.Disc, jc.CB = pl.binMax, boot, rr.Bool(), !rr.Chance(1, 5)
			if rr.Chance(1, 3) {
				for j := 1 + rr.Intn(2); j > 0; j-- {
					jc.Static = append(jc.Static, rr.Intn(len(u.addrs)))
				}
			}
			live := map[int]bool{}
			var ev []jevent
			if rr.Chance(5, 6) {
				ev = append(ev, evAddBatches(u, rr, 60+rr.Intn(41))...)
			}
			ev = append(ev, evReachAll(u, rr, 60+rr.Intn(41))...)
			if rr.Chance(1, 4) {
				var ps []int
				for j := rr.Intn(3); j > 0; j-- {
					ps = append(ps, rr.Intn(len(u.addrs)))
				}
				ev = append(ev, jevent{K: "prot", Ps: ps})
			}
			if flavour == 1 {
				ev = append(ev, evRamp(u, rr, rr.Intn(2), live)...)
			}
			ev = append(ev, evRandom(u, rr, 15+rr.Intn(30)+over, live, flavour == 2, &cur)...)
			jc.Events = ev
			run.Hist("flavour." + tag)
			runCase(jc)
		}
	}
}

// corpus: fixed histories that run on every seed.
func corpus() []jcase {
	var cs []jcase
	r := hx.NewRand(424242)

	// 1. the hypothesis of C24_connected_subset_known is needed: an outbound boot-node
	//    connection reported for a peer that is counted as connected removes it from the
	//    known peers only.
	{
		u := mkUniverse(r, map[int]int{0: 2, 1: 2}, []int{0, 1})
		jc := u.jcase("corpus/illformed-outbound-bootnode-on-connected-peer")
		jc.BinMax, jc.CB = 5, true
		jc.Events = []jevent{{K: "conn", P: 0}, {K: "out", P: 0, F1: true}, {K: "pick", P: 0}, {K: "disc", P: 0}}
		cs = append(cs, jc)
	}
	// 2. ramp over the threshold (BinMaxPeers 5): rejection, forced and protected admission
	{
		u := mkUniverse(r, map[int]int{0: 9, 1: 3, 2: 3}, []int{0, 1, 2})
		jc := u.jcase("corpus/ramp-over-5")
		jc.BinMax, jc.CB, jc.Disc = 5, true, true
		ev := []jevent{{K: "add", Ps: seqInts(len(u.addrs))}}
		for i := range u.addrs {
			ev = append(ev, jevent{K: "reach", P: i, F1: true})
		}
		for _, i := range append(u.inBin(2), u.inBin(1)...) {
			ev = append(ev, jevent{K: "conn", P: i})
		}
		b0 := u.inBin(0)
		for _, i := range b0[:6] {
			ev = append(ev, jevent{K: "pick", P: i}, jevent{K: "conn", P: i})
		}
		ev = append(ev, jevent{K: "conn", P: b0[6], F1: true}, // forced
			jevent{K: "prot", Ps: []int{b0[7]}}, jevent{K: "pick", P: b0[7]}, jevent{K: "conn", P: b0[7]}, // protected
			jevent{K: "reach", P: b0[0]}, jevent{K: "reach", P: b0[1], F2: true}, jevent{K: "reach", P: b0[2]}, // three become unreachable: no longer counted
			jevent{K: "pick", P: b0[8]}, jevent{K: "conn", P: b0[8]},
			jevent{K: "disc", P: b0[3]}, jevent{K: "force", P: b0[4]}, jevent{K: "pick", P: b0[5]})
		jc.Events = ev
		cs = append(cs, jc)
	}
	// 3. bootnode mode: eviction of a random peer once 20 are counted
	{
		u := mkUniverse(r, map[int]int{0: 24, 1: 3, 2: 3}, []int{0, 1, 2})
		jc := u.jcase("corpus/bootnode-eviction")
		jc.BinMax, jc.CB, jc.Boot = 5, true, true
		jc.Static = []int{u.inBin(0)[1]}
		ev := []jevent{{K: "add", Ps: seqInts(len(u.addrs))}}
		for i := range u.addrs {
			ev = append(ev, jevent{K: "reach", P: i, F1: true})
		}
		for _, i := range append(append(u.inBin(2), u.inBin(1)...), u.inBin(0)...) {
			ev = append(ev, jevent{K: "conn", P: i})
		}
		ev = append(ev, jevent{K: "pick", P: u.inBin(0)[0]}, jevent{K: "conn", P: u.inBin(0)[0]})
		jc.Events = ev
		cs = append(cs, jc)
		jc2 := jc
		jc2.Tag = "corpus/bootnode-eviction-without-callback"
		jc2.CB = false
		cs = append(cs, jc2)
	}
	// 4. failed announce disconnects the peer (which may have been connected already)
	{
		u := mkUniverse(r, map[int]int{0: 3, 1: 2}, []int{0, 1})
		jc := u.jcase("corpus/announce-failure")
		jc.BinMax, jc.CB, jc.Disc = 5, true, true
		jc.Events = []jevent{{K: "conn", P: 0, F2: true}, {K: "reach", P: 0, F1: true}, {K: "conn", P: 1, F2: true}, {K: "conn", P: 1},
			{K: "reach", P: 1, F1: true}, {K: "conn", P: 0, F2: true}, {K: "conn", P: 3, F2: true}, {K: "out", P: 3}, {K: "conn", P: 3, F2: true}}
		cs = append(cs, jc)
		jc2 := jc
		jc2.Tag = "corpus/announce-failure-without-callback"
		jc2.CB = false
		cs = append(cs, jc2)
	}
	// 5. DisconnectForce error paths, empty / single / repeated AddPeers
	{
		u := mkUniverse(r, map[int]int{0: 3, 1: 2, 31: 2}, []int{0, 1, 31})
		jc := u.jcase("corpus/force-errors-and-addpeers")
		jc.BinMax, jc.CB = 5, true
		jc.Events = []jevent{{K: "add"}, {K: "add", Ps: []int{0}}, {K: "add", Ps: []int{0}}, {K: "add", Ps: []int{0, 1, 5}}, {K: "add", Ps: []int{3, 3}}, {K: "add", Ps: []int{4, 0, 4, 1}},
			{K: "conn", P: 2}, {K: "out", P: 5}, {K: "out", P: 6}, {K: "force", P: 2, F1: true}, {K: "force", P: 2, F2: true}, {K: "force", P: 5, F2: true},
			{K: "force", P: 5}, {K: "force", P: 0}, {K: "out", P: 1, F1: true}, {K: "disc", P: 6}, {K: "disc", P: 6}}
		cs = append(cs, jc)
	}
	// 6. another kademlia.New in the process rewrites quick/saturation thresholds of a live Kad
	//    (its over-saturation amount stays the one captured at its own New)
	{
		u := mkUniverse(r, map[int]int{0: 8, 1: 4, 2: 3}, []int{0, 1, 2})
		jc := u.jcase("corpus/thresholds-rewritten-by-another-new")
		jc.BinMax, jc.CB = 5, true
		ev := []jevent{{K: "add", Ps: seqInts(len(u.addrs))}}
		for i := range u.addrs {
			ev = append(ev, jevent{K: "reach", P: i, F1: true})
		}
		for _, i := range append(u.inBin(2), u.inBin(1)...) {
			ev = append(ev, jevent{K: "conn", P: i})
		}
		b0 := u.inBin(0)
		for _, i := range b0[:5] {
			ev = append(ev, jevent{K: "conn", P: i})
		}
		ev = append(ev, jevent{K: "pick", P: b0[5]}, jevent{K: "newkad", P: 20}, jevent{K: "pick", P: b0[5]}, jevent{K: "conn", P: b0[5]},
			jevent{K: "disc", P: b0[0]}, jevent{K: "pick", P: b0[6]}, jevent{K: "newkad", P: 5}, jevent{K: "pick", P: b0[6]}, jevent{K: "conn", P: b0[6]},
			jevent{K: "newkad", P: 0}, jevent{K: "conn", P: b0[7]})
		jc.Events = ev
		cs = append(cs, jc)
	}
	return cs
}

// roundOver is what kademlia.New makes of a positive BinMaxPeers.
func roundOver(b int) int {
	if b < 5 {
		b = 5
	}
	if b%5 != 0 {
		b = b - b%5 + 5
	}
	return b
}

func seqInts(n int) []int {
	r := make([]int, n)
	for i := range r {
		r[i] = i
	}
	return r
}
