// C24 harness: connection tracking of kademlia.Kad (Connected / Outbound /
// Disconnected / DisconnectForce / Pick / AddPeers / RefreshProtectPeer /
// Reachable, binSaturated) driven synchronously over event histories against a
// real Kad built with small stubs (stubs.go).  No background manage loop.
package main

import (
	"errors"
	"fmt"
	"sort"
	"strings"
	"sync/atomic"
	"time"

	"github.com/gauss-project/aurorafs/pkg/boson"
	"github.com/gauss-project/aurorafs/pkg/p2p"
	"github.com/gauss-project/aurorafs/pkg/topology"
	"github.com/gauss-project/aurorafs/pkg/topology/kademlia"
	"verifharness/hx"
)

type jevent struct {
	K  string `json:"k"` // conn out disc force pick add prot reach newkad (P = BinMaxPeers of another kademlia.New in the process)
	P  int    `json:"p"`
	Ps []int  `json:"ps,omitempty"`
	F1 bool   `json:"f1,omitempty"` // conn: force; out: bootnode; force: p2p.Disconnect fails; reach: public
	F2 bool   `json:"f2,omitempty"` // conn: broadcast fails; force: addressbook.Remove fails; reach(non-public): private rather than unknown
}

type jcase struct {
	Tag    string   `json:"tag"`
	Base   string   `json:"base"`
	Addrs  []string `json:"addrs"` // peer universe; an event refers to a peer by index
	BinMax int      `json:"bin_max"`
	Boot   bool     `json:"boot"`
	Static []int    `json:"static,omitempty"`
	Disc   bool     `json:"disc"`
	CB     bool     `json:"cb"`
	Events []jevent `json:"events"`
}

var run *hx.Run

// ---------------------------------------------------------------- Coq rendering

type peerID struct {
	x  int // boson.Proximity(base, addr)
	id int
}

// compact list of peer indexes: [1;2;3]%N
func coqIDs(ix []int) string {
	if len(ix) == 0 {
		return "e"
	}
	var sb strings.Builder
	sb.WriteString("[")
	for i, x := range ix {
		if i > 0 {
			sb.WriteByte(';')
		}
		fmt.Fprintf(&sb, "%d", x)
	}
	sb.WriteString("]%N")
	return sb.String()
}
func coqID(i int) string { return fmt.Sprintf("%d", i) }

// ---------------------------------------------------------------- one history

type world struct {
	jc    jcase
	base  boson.Address
	addrs []boson.Address
	ids   []peerID
	byKey map[string]int
	e     *env
}

func (w *world) peer(i int) p2p.Peer { return p2p.Peer{Address: w.addrs[i], Mode: fullMode()} }

func (w *world) dump(known bool) (order []int, pos []uint8, unknownAddr bool) {
	f := func(a boson.Address, po uint8) (bool, bool, error) {
		i, ok := w.byKey[a.ByteString()]
		if !ok {
			unknownAddr = true
			return false, false, nil
		}
		order = append(order, i)
		pos = append(pos, po)
		return false, false, nil
	}
	if known {
		_ = w.e.kad.EachKnownPeer(f)
	} else {
		_ = w.e.kad.EachPeer(f, topology.Filter{})
	}
	return
}

func (w *world) idsOf(ix []int) []peerID {
	r := make([]peerID, len(ix))
	for i, x := range ix {
		r[i] = w.ids[x]
	}
	return r
}

func violate(jc jcase, sig, detail string, impl, want interface{}) {
	run.Violate(hx.Violation{Sig: sig, Detail: detail, Case: jc, Impl: impl, Want: want})
}

// runCase drives one history; returns false if the case could not be built.
func runCase(jc jcase) {
	w := &world{jc: jc, byKey: map[string]int{}}
	w.base = boson.NewAddress(unhex(jc.Base))
	for i, s := range jc.Addrs {
		a := boson.NewAddress(unhex(s))
		w.addrs = append(w.addrs, a)
		w.ids = append(w.ids, peerID{x: int(boson.Proximity(w.base.Bytes(), a.Bytes())), id: i})
		w.byKey[a.ByteString()] = i
	}
	var static []boson.Address
	isStatic := map[int]bool{}
	for _, i := range jc.Static {
		static = append(static, w.addrs[i])
		isStatic[i] = true
	}
	e, err := newEnv(w.base, jc.BinMax, jc.Boot, static, jc.Disc, jc.CB)
	if err != nil {
		panic(err)
	}
	w.e = e
	defer e.close()
	nn, qs, sat, over, bootOver := kademlia.VerifConnThresholds()
	if nn < 0 || qs < 0 || sat < 0 || over < 0 || bootOver < 0 {
		violate(jc, "thresholds:negative", fmt.Sprint(nn, qs, sat, over, bootOver), nil, nil)
		return
	}
	liveSat := sat // saturationPeers is read live by binSaturated; another New may rewrite it
	effOver := over
	if jc.Boot && effOver < bootOver {
		effOver = bootOver
	}
	run.Hist(fmt.Sprintf("cfg.over=%d", over))
	if jc.Boot {
		run.Hist("cfg.bootnode-mode")
	}

	// ---- independent reference of the property statement (oracle state) ----
	live := map[int]bool{}      // connected and not since disconnected
	public := map[int]bool{}    // last Reachable status recorded by the harness
	protected := map[int]bool{} // last RefreshProtectPeer
	wellFormed := true          // no outbound-bootnode event for a peer counted as connected so far

	var evCoq, obCoq []string
	var pendingRs []int
	steps := 0
	nontrivial := false
	reachedOver := false
	var key strings.Builder
	fmt.Fprintf(&key, "%s|%d|%v|%v|%v|%v|", jc.Base[:8], jc.BinMax, jc.Boot, jc.Static, jc.Disc, jc.CB)

	finished := hx.WithTimeout(60*time.Second, func() {
		for step, ev := range jc.Events {
			fmt.Fprintf(&key, "%s%d%v%v%v;", ev.K, ev.P, ev.Ps, ev.F1, ev.F2)
			run.Hist("ev." + ev.K)
			if !(ev.K == "reach" && ev.F1) {
				pendingRs = nil
			}
			steps++
			bin := uint8(0)
			if ev.K != "add" && ev.K != "prot" && ev.K != "newkad" {
				bin = uint8(w.ids[ev.P].x)
			}
			preConn, _, _ := w.dump(false)
			preSat, preOver := e.kad.VerifConnBinSaturation(bin)
			satBefore := liveSat
			prePot := e.kad.VerifConnPotentialDepth()
			if preOver {
				reachedOver = true
			}
			e.p2p.takeCalls()
			resp := "ROk"
			victim := 0
			var callErr error
			var pickRes bool
			panicked, pmsg := hx.Guard(func() {
				switch ev.K {
				case "conn":
					if ev.F2 {
						atomic.StoreInt32(&e.disc.failNext, 1)
					}
					callErr = e.kad.Connected(mainCtx, w.peer(ev.P), ev.F1)
					atomic.StoreInt32(&e.disc.failNext, 0)
				case "out":
					pr := w.peer(ev.P)
					if ev.F1 {
						pr.Mode = bootMode()
					}
					e.kad.Outbound(pr)
				case "disc":
					e.kad.Disconnected(w.peer(ev.P), "harness")
				case "force":
					e.p2p.failNext = ev.F1
					e.ab.failNext = ev.F2
					callErr = e.kad.DisconnectForce(w.addrs[ev.P], "harness force")
					e.p2p.failNext, e.ab.failNext = false, false
				case "pick":
					pickRes = e.kad.Pick(w.peer(ev.P))
				case "add":
					var as []boson.Address
					for _, i := range ev.Ps {
						as = append(as, w.addrs[i])
					}
					e.kad.AddPeers(as...)
				case "prot":
					var as []boson.Address
					for _, i := range ev.Ps {
						as = append(as, w.addrs[i])
					}
					e.kad.RefreshProtectPeer(as)
				case "reach":
					st := p2p.ReachabilityStatusUnknown
					if ev.F1 {
						st = p2p.ReachabilityStatusPublic
					} else if ev.F2 {
						st = p2p.ReachabilityStatusPrivate
					}
					e.kad.Reachable(w.addrs[ev.P], st)
				case "newkad":
					other := append([]byte{}, w.base.Bytes()...)
					other[0] ^= 0xff
					e2, err := newEnv(boson.NewAddress(other), ev.P, false, nil, false, false)
					if err != nil {
						panic(err)
					}
					e2.close()
					_, _, liveSat, _, _ = kademlia.VerifConnThresholds()
				default:
					panic("bad event kind " + ev.K)
				}
			})
			if panicked {
				violate(jc, "panic:"+ev.K, fmt.Sprintf("step %d: %s", step, pmsg), pmsg, "no panic")
				return
			}
			calls := e.p2p.takeCallsFull()
			var callIx []int
			for _, c := range calls {
				i, ok := w.byKey[c.addr.ByteString()]
				if !ok {
					violate(jc, "p2p:disconnect-of-unknown-address", fmt.Sprintf("step %d", step), hx.Hex(c.addr.Bytes()), nil)
					return
				}
				callIx = append(callIx, i)
			}
			switch {
			case ev.K == "pick":
				resp = "(RBool " + hx.CoqBool(pickRes) + ")"
			case callErr == nil:
			case errors.Is(callErr, topology.ErrOversaturated):
				resp = "RErrOversaturated"
			case errors.Is(callErr, errBroadcast):
				resp = "RErrAnnounce"
			case errors.Is(callErr, p2p.ErrPeerNotFound):
				resp = "RErrP2P"
			case errors.Is(callErr, errABRemove):
				resp = "RErrAddressbook"
			case ev.K == "conn" && jc.Boot:
				resp = "RErrEmptyBin"
			default:
				violate(jc, "error:unexpected-class:"+ev.K, fmt.Sprintf("step %d: %v", step, callErr), callErr.Error(), nil)
				return
			}
			run.Hist("resp." + strings.Trim(strings.Fields(resp)[0], "()"))

			// eviction of a random peer (bootnode mode): the drawn index is fed to the model
			evicted := -1
			if ev.K == "conn" && len(calls) > 0 && strings.HasPrefix(calls[0].reason, "kicking out") {
				evicted = callIx[0]
				var cands []int
				for _, i := range preConn {
					if w.ids[i].x == int(bin) && !isStatic[i] {
						cands = append(cands, i)
					}
				}
				victim = -1
				for k, i := range cands {
					if i == evicted {
						victim = k
					}
				}
				run.OracleChecked(1)
				if victim < 0 {
					violate(jc, "evict:victim-not-a-connected-nonstatic-peer-of-the-bin", fmt.Sprintf("step %d: evicted %v", step, w.ids[evicted]), w.ids[evicted], "a non-static connected peer of bin "+fmt.Sprint(bin))
					victim = 0
				}
				run.Hist("evictions")
			}

			// ---- the reference: who is connected and not since disconnected ----
			if jc.CB {
				for _, i := range callIx {
					delete(live, i)
				}
			}
			switch ev.K {
			case "conn":
				if callErr == nil {
					live[ev.P] = true
				}
			case "out":
				if !ev.F1 {
					live[ev.P] = true
				} else if live[ev.P] {
					wellFormed = false
					run.Hist("illformed.outbound-bootnode-on-live-peer")
				}
			case "disc":
				delete(live, ev.P)
			case "force":
				if callErr == nil {
					delete(live, ev.P)
				}
			case "reach":
				if ev.F1 {
					public[ev.P] = true
				} else {
					delete(public, ev.P)
				}
			case "prot":
				protected = map[int]bool{}
				for _, i := range ev.Ps {
					protected[i] = true
				}
			}
			wasProtected := protected[ev.P]
			if ev.K == "prot" || ev.K == "newkad" {
				wasProtected = false
			}

			// ---- observations after the call ----
			connOrder, connPo, bad1 := w.dump(false)
			knownOrder, knownPo, bad2 := w.dump(true)
			if bad1 || bad2 {
				violate(jc, "report:address-never-given", fmt.Sprintf("step %d", step), nil, nil)
				return
			}
			depth := e.kad.NeighborhoodDepth()
			postSat, postOver := e.kad.VerifConnBinSaturation(bin)

			// ---- oracle: the statement of C24 on the implementation's reports ----
			run.OracleChecked(3)
			seen := map[int]int{}
			for k, i := range connOrder {
				seen[i]++
				if int(connPo[k]) != w.ids[i].x {
					violate(jc, "exact:reported-bin-differs-from-proximity", fmt.Sprintf("step %d peer %v reported in bin %d", step, w.ids[i], connPo[k]), connPo[k], w.ids[i].x)
				}
			}
			for i, n := range seen {
				if n > 1 {
					violate(jc, "exact:peer-reported-twice", fmt.Sprintf("step %d peer %v x%d", step, w.ids[i], n), n, 1)
				}
				if !live[i] {
					sig := "exact:reports-peer-not-connected"
					if ev.K == "out" && ev.F1 && i == ev.P {
						sig = "exact:outbound-bootnode-counted"
					}
					violate(jc, sig, fmt.Sprintf("step %d (%s): peer %v reported connected but is not live", step, ev.K, w.ids[i]), w.idsOf(connOrder), sortedKeys(live))
				}
			}
			for i := range live {
				if seen[i] == 0 {
					violate(jc, "exact:live-peer-not-reported", fmt.Sprintf("step %d (%s): peer %v is connected and not since disconnected but not reported", step, ev.K, w.ids[i]), w.idsOf(connOrder), sortedKeys(live))
				}
			}
			if n := e.kad.Snapshot().Connected; n != len(live) {
				violate(jc, "exact:snapshot-count", fmt.Sprintf("step %d: Snapshot().Connected=%d live=%d", step, n, len(live)), n, len(live))
			}
			kn := map[int]bool{}
			for k, i := range knownOrder {
				kn[i] = true
				if int(knownPo[k]) != w.ids[i].x {
					violate(jc, "known:reported-bin-differs-from-proximity", fmt.Sprintf("step %d peer %v", step, w.ids[i]), knownPo[k], w.ids[i].x)
				}
			}
			if wellFormed {
				for _, i := range connOrder {
					if !kn[i] {
						violate(jc, "known:connected-peer-not-known", fmt.Sprintf("step %d (%s): peer %v connected but not known", step, ev.K, w.ids[i]), w.idsOf(knownOrder), w.ids[i])
					}
				}
			}
			// admission
			cnt := 0 // counted peers of the bin before the call: connected, reachable, non-static
			for _, i := range preConn {
				if w.ids[i].x == int(bin) && public[i] && !isStatic[i] {
					cnt++
				}
			}
			if ev.K == "reach" { // the reference already holds the post-call status; undo for the pre-call count
				cnt = -1
			}
			if cnt >= 0 {
				run.OracleChecked(1)
				// binSaturated = (bin below the potential depth) and (counted peers >= threshold)
				wantOver := bin < prePot && cnt >= effOver
				wantSat := bin < prePot && cnt >= satBefore
				if preOver && !wantOver {
					violate(jc, "sat:oversaturated-below-threshold", fmt.Sprintf("step %d: bin %d (potential depth %d) has %d counted peers, threshold %d, but is reported oversaturated", step, bin, prePot, cnt, effOver), cnt, effOver)
				}
				if !preOver && wantOver {
					violate(jc, "sat:not-oversaturated-at-threshold", fmt.Sprintf("step %d: bin %d (potential depth %d) has %d counted peers >= threshold %d but is not reported oversaturated", step, bin, prePot, cnt, effOver), cnt, effOver)
				}
				if preSat != wantSat {
					violate(jc, "sat:saturated-flag", fmt.Sprintf("step %d: bin %d (potential depth %d) has %d counted peers, saturation %d, reported saturated=%v", step, bin, prePot, cnt, satBefore, preSat), preSat, wantSat)
				}
			}
			switch ev.K {
			case "conn":
				run.OracleChecked(1)
				admitted := callErr == nil
				if admitted && preOver && !wasProtected && !jc.Boot && !ev.F1 {
					violate(jc, "admit:unprotected-inbound-admitted-into-oversaturated-bin", fmt.Sprintf("step %d: peer %v bin %d (%d counted peers, threshold %d)", step, w.ids[ev.P], bin, cnt, effOver), "admitted", "ErrOversaturated")
				}
				if resp == "RErrOversaturated" && !(preOver && !wasProtected && !jc.Boot && !ev.F1) {
					violate(jc, "admit:rejected-although-not-oversaturated-or-exempt", fmt.Sprintf("step %d: peer %v bin %d over=%v protected=%v force=%v", step, w.ids[ev.P], bin, preOver, wasProtected, ev.F1), "ErrOversaturated", "admitted")
				}
				if evicted >= 0 && !(jc.Boot && preOver && !wasProtected) {
					violate(jc, "evict:eviction-without-oversaturation", fmt.Sprintf("step %d", step), w.ids[evicted], nil)
				}
				if admitted && preOver && !wasProtected && jc.Boot && evicted < 0 {
					violate(jc, "evict:bootnode-admits-into-oversaturated-bin-without-eviction", fmt.Sprintf("step %d", step), nil, nil)
				}
				if preOver && !wasProtected {
					nontrivial = true
				}
			case "pick":
				run.OracleChecked(1)
				want := jc.Boot || wasProtected || !preOver
				if pickRes != want {
					violate(jc, "pick:disagrees-with-oversaturation", fmt.Sprintf("step %d: Pick(%v)=%v over=%v protected=%v bootmode=%v", step, w.ids[ev.P], pickRes, preOver, wasProtected, jc.Boot), pickRes, want)
				}
			}

			// ---- Coq rendering (compact: the cost of a case file is per token) ----
			switch ev.K {
			case "conn":
				if !ev.F1 && !ev.F2 && victim == 0 {
					evCoq = append(evCoq, "(KC "+coqID(ev.P)+")")
				} else {
					evCoq = append(evCoq, hx.CoqApp("KConn", coqID(ev.P), hx.CoqBool(ev.F1), hx.CoqBool(ev.F2), coqID(victim)))
				}
			case "out":
				evCoq = append(evCoq, hx.CoqApp("KOut", coqID(ev.P), hx.CoqBool(ev.F1)))
			case "disc":
				evCoq = append(evCoq, hx.CoqApp("KDisc", coqID(ev.P)))
			case "force":
				evCoq = append(evCoq, hx.CoqApp("KForce", coqID(ev.P), hx.CoqBool(ev.F1), hx.CoqBool(ev.F2)))
			case "pick":
				evCoq = append(evCoq, hx.CoqApp("KPick", coqID(ev.P)))
			case "add":
				evCoq = append(evCoq, hx.CoqApp("KAdd", coqIDs(ev.Ps)))
			case "prot":
				evCoq = append(evCoq, hx.CoqApp("KProt", coqIDs(ev.Ps)))
			case "newkad":
				evCoq = append(evCoq, hx.CoqApp("KNew", coqID(ev.P)))
			case "reach":
				if ev.F1 {
					if n := len(evCoq); n > 0 && len(pendingRs) > 0 && len(calls) == 0 {
						// coalesce a run of Reachable(.., Public) calls into one KRs with the last observation
						pendingRs = append(pendingRs, ev.P)
						evCoq[n-1] = hx.CoqApp("KRs", coqIDs(pendingRs))
						obCoq = obCoq[:n-1]
						steps--
					} else {
						pendingRs = []int{ev.P}
						evCoq = append(evCoq, "(KR "+coqID(ev.P)+")")
					}
				} else {
					evCoq = append(evCoq, hx.CoqApp("KReach", coqID(ev.P), "false"))
				}
			}
			if depth > 31 || bin > 31 {
				violate(jc, "depth:exceeds-maxpo", fmt.Sprintf("step %d: depth %d bin %d", step, depth, bin), depth, "<= 31")
				return
			}
			code := respCode[resp]*4096 + int(depth)*128 + int(bin)*4
			if postSat {
				code += 2
			}
			if postOver {
				code++
			}
			switch {
			case step == len(jc.Events)-1 || step%16 == 15 || len(calls) > 0:
				obCoq = append(obCoq, hx.CoqApp("OD", coqID(code), coqIDs(callIx), coqIDs(connOrder), coqIDs(knownOrder)))
			default:
				obCoq = append(obCoq, "(O1 "+coqID(code)+")")
			}
		}
	})
	if !finished {
		violate(jc, "hang:history", "history did not finish in 60s", nil, nil)
		return
	}
	if reachedOver {
		run.Hist("histories.reaching-oversaturation")
	}
	if len(obCoq) != steps || len(evCoq) != steps {
		return // a violation cut the history short; nothing to correspond
	}
	univ := make([]int, len(w.ids))
	for i, p := range w.ids {
		univ[i] = p.x
	}
	term := hx.CoqApp("CHist", hx.CoqN(uint64(nn)), hx.CoqN(uint64(qs)), hx.CoqN(uint64(sat)), hx.CoqN(uint64(over)), hx.CoqN(uint64(bootOver)),
		hx.CoqBool(jc.Boot), coqIDs(jc.Static), hx.CoqBool(jc.Disc), hx.CoqBool(jc.CB), coqIDs(univ),
		hx.CoqList(evCoq, "cev"), hx.CoqList(obCoq, "obs"))
	run.AddCase(term, jc, key.String(), nontrivial)
}

var respCode = map[string]int{"ROk": 0, "(RBool false)": 1, "(RBool true)": 2, "RErrOversaturated": 3, "RErrEmptyBin": 4,
	"RErrAnnounce": 5, "RErrP2P": 6, "RErrAddressbook": 7}

func sortedKeys(m map[int]bool) []int {
	var r []int
	for k := range m {
		r = append(r, k)
	}
	sort.Ints(r)
	return r
}

func main() {
	run = hx.Start("C24", "Aurora.C24.Corr",
		"event histories (Connected/Outbound/Disconnected/DisconnectForce/Pick/AddPeers/Protect/Reachable) against a fresh kademlia.Kad per history; peers in 3-5 bins, BinMaxPeers 5/10/default so that over-saturation is reachable; non-trivial = the history contains an inbound Connected of an unprotected peer into an oversaturated bin; distinct by (config, event list)")
	if run.Replay != "" {
		var jc jcase
		if err := run.ReadReplay(&jc); err != nil {
			panic(err)
		}
		runCase(jc)
		run.Finish()
		return
	}
	for _, jc := range corpus() {
		runCase(jc)
	}
	generate()
	run.Finish()
}
