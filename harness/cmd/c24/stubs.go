package main

import (
	"context"
	"errors"
	"fmt"
	"io"
	"sync"
	"sync/atomic"
	"time"

	"github.com/gauss-project/aurorafs/pkg/addressbook"
	"github.com/gauss-project/aurorafs/pkg/aurora"
	"github.com/gauss-project/aurorafs/pkg/boson"
	"github.com/gauss-project/aurorafs/pkg/discovery"
	"github.com/gauss-project/aurorafs/pkg/logging"
	"github.com/gauss-project/aurorafs/pkg/p2p"
	"github.com/gauss-project/aurorafs/pkg/shed"
	sldb "github.com/gauss-project/aurorafs/pkg/shed/leveldb"
	"github.com/gauss-project/aurorafs/pkg/subscribe"
	"github.com/gauss-project/aurorafs/pkg/topology/kademlia"
)

// ---- p2p.Service stub: only what kademlia's connection tracking calls ----

type p2pStub struct {
	p2p.Service // nil: any other method is a (guarded) panic, which would be reported
	mu          sync.Mutex
	kad         *kademlia.Kad
	callback    bool // like libp2p: Disconnect notifies the topology (Disconnected) synchronously
	failNext    bool // next Disconnect returns ErrPeerNotFound (peer not in the registry)
	calls       []discCall
}

type discCall struct {
	addr   boson.Address
	reason string
}

func (s *p2pStub) Disconnect(a boson.Address, reason string) error {
	s.mu.Lock()
	fail := s.failNext
	s.failNext = false
	if !fail {
		s.calls = append(s.calls, discCall{a, reason})
	}
	cb, k := s.callback, s.kad
	s.mu.Unlock()
	if fail {
		return p2p.ErrPeerNotFound
	}
	if cb && k != nil {
		k.Disconnected(p2p.Peer{Address: a, Mode: fullMode()}, reason)
	}
	return nil
}
func (s *p2pStub) NetworkStatus() p2p.NetworkStatus { return p2p.NetworkStatusAvailable }
func (s *p2pStub) Blocklist(boson.Address, time.Duration, string) error { return nil }
func (s *p2pStub) takeCallsFull() []discCall {
	s.mu.Lock()
	defer s.mu.Unlock()
	c := s.calls
	s.calls = nil
	return c
}
func (s *p2pStub) takeCalls() { s.takeCallsFull() }

// ---- discovery stub ----

type discStub struct {
	discovery.Driver
	started   bool
	failNext  int32 // BroadcastPeers to the new peer fails
	broadcast int32
}

func (d *discStub) IsStart() bool { return d.started }
func (d *discStub) IsHive2() bool { return false }
func (d *discStub) BroadcastPeers(ctx context.Context, addressee boson.Address, peers ...boson.Address) error {
	atomic.AddInt32(&d.broadcast, 1)
	if len(peers) > 0 && ctx == mainCtx && atomic.LoadInt32(&d.failNext) != 0 {
		return errBroadcast
	}
	return nil
}
func (d *discStub) NotifyDiscoverWork(...boson.Address) {}

var (
	errBroadcast = errors.New("stub: broadcast failed")
	errABRemove  = errors.New("stub: addressbook remove failed")
)

var mainCtx = context.WithValue(context.Background(), ctxKey{}, 1)

type ctxKey struct{}

// ---- addressbook stub ----

type abStub struct {
	addressbook.Interface
	failNext bool
	removed  int
}

func (a *abStub) Remove(boson.Address) error {
	if a.failNext {
		a.failNext = false
		return errABRemove
	}
	a.removed++
	return nil
}

// ---- subscribe stub ----

type subStub struct{}

func (subStub) Subscribe(subscribe.INotifier, string, string, string) error { return nil }
func (subStub) Publish(string, string, string, interface{}) error            { return nil }
func (subStub) PublishArray(string, string, string, []interface{}) error     { return nil }

func fullMode() aurora.Model { return aurora.NewModel().SetMode(aurora.FullNode) }
func bootMode() aurora.Model {
	return aurora.NewModel().SetMode(aurora.FullNode).SetMode(aurora.BootNode)
}

var (
	registerOnce sync.Once
	sharedDB     *shed.DB
)

type env struct {
	kad  *kademlia.Kad
	p2p  *p2pStub
	disc *discStub
	ab   *abStub
	db   *shed.DB
}

func newEnv(base boson.Address, binMax int, bootnode bool, static []boson.Address, discStarted, callback bool) (*env, error) {
	// One in-memory metrics DB for the whole run: opening a leveldb costs a large zeroed
	// write buffer, and nothing is ever flushed to it (the manage loop is not started and
	// Close is not called), so every collector starts empty.
	var err error
	registerOnce.Do(func() {
		shed.Register("leveldb", sldb.Driver{})
		sharedDB, err = shed.NewDB("", &shed.Options{Driver: "leveldb"})
	})
	if err != nil || sharedDB == nil {
		return nil, fmt.Errorf("metrics db: %v", err)
	}
	db := sharedDB
	e := &env{p2p: &p2pStub{callback: callback}, disc: &discStub{started: discStarted}, ab: &abStub{}, db: db}
	mode := fullMode()
	if bootnode {
		mode = bootMode()
	}
	k, err := kademlia.New(base, e.ab, e.disc, e.p2p, nil, nil, nil, db, logging.New(io.Discard, 0), subStub{},
		kademlia.Options{NodeMode: mode, BinMaxPeers: binMax, StaticNodes: static})
	if err != nil {
		return nil, err
	}
	e.kad = k
	e.p2p.kad = k
	return e, nil
}

func (e *env) close() {
	e.kad.VerifConnShutdown()
}
