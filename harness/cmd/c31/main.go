// C31 harness: the REAL traffic service (traffic.New over an in-memory leveldb state store, real
// cheque store / address book / EIP-712 signer, stub chain client, cash-out service, cheque
// protocol and p2p) driven through histories of registration, credited traffic, pay attempts
// (delivery or signing may fail), 24 h refresh (TrafficInit), cash-out receipts and restarts.
package main

import (
	"context"
	"errors"
	"fmt"
	"math/big"
	"strings"
	"time"

	"github.com/ethereum/go-ethereum/common"
	"github.com/gauss-project/aurorafs/pkg/boson"
	"github.com/gauss-project/aurorafs/pkg/settlement/traffic"
	chequePkg "github.com/gauss-project/aurorafs/pkg/settlement/traffic/cheque"
	"verifharness/hx"
	"verifharness/pay"
)

// universe: address 0 = this node; 1..3 = chain addresses of peers; 4 = an address no peer ever announces
// peers 0..3 (peer i announces address i+1 by default; peer 3 is used for conflicts / never registered)
var addrs []common.Address
var peers []boson.Address

func initUniverse() {
	for i := 0; i < 5; i++ {
		addrs = append(addrs, pay.AddrOf(pay.Key(i)))
	}
	for i := 0; i < 4; i++ {
		b := make([]byte, 32)
		b[0], b[31] = 0xb0, byte(i+1)
		peers = append(peers, boson.NewAddress(b))
	}
}

type jtrans struct {
	Addr int     `json:"addr"`
	T    *string `json:"t"` // TransAmount(addr, self): transferred total; null = call fails
	R    *string `json:"r"` // TransAmount(self, addr): retrieved total (what addr cashed from us)
}

type jop struct {
	Op      string   `json:"op"` // hs | tr | tx | pay | refresh | restart | cash
	Peer    int      `json:"peer,omitempty"`
	Addr    int      `json:"addr,omitempty"`
	Bal     *string  `json:"bal,omitempty"` // hs: BalanceOf(peer address); refresh/restart/cash: BalanceOf(self); absent = fails
	Amt     string   `json:"amt,omitempty"`
	Thr     string   `json:"thr,omitempty"`
	Sign    bool     `json:"sign,omitempty"`
	Deliver bool     `json:"deliver,omitempty"`
	Lists   []int    `json:"lists,omitempty"`
	ListsOK bool     `json:"listsok,omitempty"`
	Trans   []jtrans `json:"trans,omitempty"`
	Paid    *string  `json:"paid,omitempty"`
	CashOK  bool     `json:"cashok,omitempty"`
	Receipt int      `json:"receipt,omitempty"` // -1: WaitForReceipt fails; else status
	BalPeer *string  `json:"balpeer,omitempty"`
}

type jcase struct {
	Consistent bool  `json:"consistent"` // chain answers are monotone, amounts >= 0, thresholds > 0 (the oracle's domain for formula/payout checks)
	Ops        []jop `json:"ops"`
}

func bigOf(s string) *big.Int {
	x, ok := new(big.Int).SetString(s, 10)
	if !ok {
		panic("bad number " + s)
	}
	return x
}
func sp(x *big.Int) *string { s := x.String(); return &s }
func optZ(s *string) string {
	if s == nil {
		return "None"
	}
	return hx.CoqSome(pay.CoqZBig(bigOf(*s)))
}

var run *hx.Run

func classOf(err error) uint64 {
	switch {
	case err == nil:
		return 0
	case errors.Is(err, traffic.ErrUnknownBeneficary), errors.Is(err, chequePkg.ErrNoCheque):
		return 1
	case errors.Is(err, traffic.ErrInsufficientFunds):
		return 2
	case errors.Is(err, pay.ErrSign):
		return 3
	case errors.Is(err, pay.ErrDeliver):
		return 4
	case errors.Is(err, pay.ErrCash):
		return 8
	case errors.Is(err, pay.ErrStub):
		return 6 // a chain error handed through unwrapped: BalanceOf in UpdatePeerBalance
	// trafficInit builds its errors with fmt.Errorf(... %v): no sentinel to test, the fixed message prefix is the class
	case strings.HasPrefix(err.Error(), "traffic: Failed to get chain node information"):
		return 5
	case strings.HasPrefix(err.Error(), "failed to get the chain balance"):
		return 6
	case strings.HasPrefix(err.Error(), "failed to get the chain totalPaidOut"):
		return 7
	case strings.HasPrefix(err.Error(), "overlay is exists"):
		return 9
	default:
		return 99
	}
}

func setChainView(e *pay.Env, o jop) {
	e.Chain.Set(func() {
		e.Chain.ListFail = !o.ListsOK
		e.Chain.Retrieved, e.Chain.Transferred = nil, nil
		for i, a := range o.Lists {
			if i%2 == 0 {
				e.Chain.Retrieved = append(e.Chain.Retrieved, addrs[a])
			} else {
				e.Chain.Transferred = append(e.Chain.Transferred, addrs[a])
			}
		}
		for _, a := range addrs {
			delete(e.Chain.Trans, [2]common.Address{a, e.Self})
			delete(e.Chain.Trans, [2]common.Address{e.Self, a})
			delete(e.Chain.TransFail, [2]common.Address{a, e.Self})
			delete(e.Chain.TransFail, [2]common.Address{e.Self, a})
		}
		for _, t := range o.Trans {
			setTrans(e, t)
		}
		e.Chain.BalFail[e.Self] = o.Bal == nil
		if o.Bal != nil {
			e.Chain.Bal[e.Self] = bigOf(*o.Bal)
		}
		e.Chain.PaidOutFail = o.Paid == nil
		if o.Paid != nil {
			e.Chain.PaidOut = bigOf(*o.Paid)
		}
	})
}

func setTrans(e *pay.Env, t jtrans) {
	kt, kr := [2]common.Address{addrs[t.Addr], e.Self}, [2]common.Address{e.Self, addrs[t.Addr]}
	e.Chain.TransFail[kt], e.Chain.TransFail[kr] = t.T == nil, t.R == nil
	if t.T != nil {
		e.Chain.Trans[kt] = bigOf(*t.T)
	}
	if t.R != nil {
		e.Chain.Trans[kr] = bigOf(*t.R)
	}
}

func coqCV(enc *pay.Enc, o jop) string {
	lists := "None"
	if o.ListsOK {
		var l []string
		for _, a := range o.Lists {
			l = append(l, enc.Addr(addrs[a]))
		}
		lists = hx.CoqSome(hx.CoqList(l, "addr"))
	}
	var tr []string
	for _, t := range o.Trans {
		tr = append(tr, hx.CoqPair(enc.Addr(addrs[t.Addr]), hx.CoqPair(optZ(t.T), optZ(t.R))))
	}
	return hx.CoqApp("CV", lists, hx.CoqList(tr, "addr * (option Z * option Z)"), optZ(o.Bal), optZ(o.Paid))
}

func waitFor(what string, cond func() bool) bool {
	deadline := time.Now().Add(3 * time.Second)
	for !cond() {
		if time.Now().After(deadline) {
			return false
		}
		time.Sleep(200 * time.Microsecond)
	}
	return true
}

type snapshot struct {
	recs   map[common.Address]traffic.VerifTraffic
	keys   []common.Address // sorted by encoding order (universe index)
	cashed map[common.Address]*big.Int
}

func snap(e *pay.Env) snapshot {
	s := snapshot{recs: map[common.Address]traffic.VerifTraffic{}, cashed: map[common.Address]*big.Int{}}
	for _, d := range e.Svc.VerifDump() {
		a := common.HexToAddress(d.Key)
		s.recs[a] = d
		s.cashed[a] = d.Vals[1]
	}
	for _, a := range addrs {
		if _, ok := s.recs[a]; ok {
			s.keys = append(s.keys, a)
		}
	}
	return s
}

func runCase(jc jcase) {
	e := pay.NewEnv(pay.Key(0))
	enc := pay.NewEnc(addrs, peers)
	ctx := context.Background()
	var coqOps []string
	nEmitted, nInit := 0, 0

	// ---- the oracle's own bookkeeping (reference values of the three quantities of the property)
	refOwed := map[common.Address]*big.Int{}       // total traffic owed per peer
	lastDelivered := map[common.Address]*big.Int{} // payout of the last cheque delivered per peer
	lastEmitted := map[common.Address]*big.Int{}
	get := func(m map[common.Address]*big.Int, a common.Address) *big.Int {
		if x, ok := m[a]; ok {
			return x
		}
		return big.NewInt(0)
	}
	hung := false

	for i, o := range jc.Ops {
		before := snap(e)
		availBefore, _ := e.Svc.AvailableBalance()
		nLog, nNot := len(e.Proto.Log), len(e.Notifies)
		var err error
		var coqOp string
		// persisted served / consumed traffic totals (what TotalSent / TotalReceived are restored from after a restart)
		storedTotals := func() map[common.Address][2]*big.Int {
			m := map[common.Address][2]*big.Int{}
			for _, a := range addrs {
				t, _ := e.CS.GetTransferTraffic(a)
				r, _ := e.CS.GetRetrieveTraffic(a)
				m[a] = [2]*big.Int{t, r}
			}
			return m
		}
		var totalsBefore map[common.Address][2]*big.Int
		if o.Op == "cash" {
			totalsBefore = storedTotals()
		}
		switch o.Op {
		case "hs":
			a := addrs[o.Addr]
			target := a
			if reg, known := e.Book.Beneficiary(peers[o.Peer]); known {
				target = reg
			}
			e.Chain.Set(func() {
				e.Chain.BalFail[target] = o.Bal == nil
				if o.Bal != nil {
					e.Chain.Bal[target] = bigOf(*o.Bal)
				}
			})
			err = e.Svc.Handshake(peers[o.Peer], a, chequePkg.SignedCheque{})
			coqOp = hx.CoqApp("OHandshake", enc.Overlay(peers[o.Peer]), enc.Addr(a), optZ(o.Bal))
		case "tr":
			err = e.Svc.PutRetrieveTraffic(peers[o.Peer], bigOf(o.Amt))
			coqOp = hx.CoqApp("OTraffic", enc.Overlay(peers[o.Peer]), pay.CoqZBig(bigOf(o.Amt)))
			if err == nil {
				if a, known := e.Book.Beneficiary(peers[o.Peer]); known {
					refOwed[a] = new(big.Int).Add(get(refOwed, a), bigOf(o.Amt))
				}
			}
		case "tx":
			err = e.Svc.PutTransferTraffic(peers[o.Peer], bigOf(o.Amt))
			coqOp = hx.CoqApp("OTransfer", enc.Overlay(peers[o.Peer]), pay.CoqZBig(bigOf(o.Amt)))
		case "pay":
			e.Signer.Fail, e.Proto.Fail = !o.Sign, !o.Deliver
			err = e.Svc.Pay(ctx, peers[o.Peer], bigOf(o.Thr))
			coqOp = hx.CoqApp("OPay", enc.Overlay(peers[o.Peer]), pay.CoqZBig(bigOf(o.Thr)), hx.CoqBool(o.Sign), hx.CoqBool(o.Deliver))
		case "refresh":
			setChainView(e, o)
			err = e.Svc.TrafficInit()
			coqOp = hx.CoqApp("ORefresh", coqCV(enc, o))
			nInit++
		case "restart":
			setChainView(e, o)
			e.Boot()
			err = e.Svc.Init()
			coqOp = hx.CoqApp("ORestart", coqCV(enc, o))
			nInit++
		case "cash":
			a, known := e.Book.Beneficiary(peers[o.Peer])
			var t jtrans
			if len(o.Trans) > 0 {
				t = o.Trans[0]
			}
			if known {
				e.Chain.Set(func() {
					t.Addr = indexOf(a)
					setTrans(e, t)
					e.Chain.BalFail[e.Self] = o.Bal == nil
					if o.Bal != nil {
						e.Chain.Bal[e.Self] = bigOf(*o.Bal)
					}
					e.Chain.BalFail[a] = o.BalPeer == nil
					if o.BalPeer != nil {
						e.Chain.Bal[a] = bigOf(*o.BalPeer)
					}
				})
			}
			e.Cash.Set(func() {
				e.Cash.CashErr = !o.CashOK
				e.Cash.WaitErr = o.Receipt < 0
				if o.Receipt >= 0 {
					e.Cash.Status = uint64(o.Receipt)
				}
			})
			waits0 := e.Cash.Waits
			callsSelf0, callsPeer0 := e.Chain.BalCallsOf(e.Self), 0
			var pb0 *big.Int
			if known {
				callsPeer0 = e.Chain.BalCallsOf(a)
				if r, ok := before.recs[a]; ok {
					pb0 = r.Ptrs[0]
				}
			}
			_, err = e.Svc.CashCheque(ctx, peers[o.Peer])
			if err == nil {
				// the receipt loop runs in its own goroutine: wait for the last action of the branch it takes
				ok := waitFor("receipt", func() bool { w := 0; e.Cash.Set(func() { w = e.Cash.Waits }); return w > waits0 })
				ok = ok && waitFor("status", func() bool { return e.Svc.VerifDump() != nil && snap(e).recs[a].Status == 0 })
				if ok && o.Receipt == 1 {
					ok = waitFor("balance-of-self", func() bool { return e.Chain.BalCallsOf(e.Self) > callsSelf0 })
					if ok && o.Bal != nil {
						ok = waitFor("balance-of-peer", func() bool { return e.Chain.BalCallsOf(a) > callsPeer0 })
						if ok && o.BalPeer != nil {
							ok = waitFor("peer-balance-stored", func() bool { return snap(e).recs[a].Ptrs[0] != pb0 })
						}
					}
				}
				if !ok {
					hung = true
				}
			}
			rc := "None"
			if o.Receipt >= 0 {
				rc = hx.CoqSome(hx.CoqN(uint64(o.Receipt)))
			}
			coqOp = hx.CoqApp("OCashout", enc.Overlay(peers[o.Peer]), hx.CoqBool(o.CashOK), rc, optZ(o.Bal), hx.CoqPair(optZ(t.T), optZ(t.R)), optZ(o.BalPeer))
		default:
			panic("bad op " + o.Op)
		}
		if hung {
			run.Violate(hx.Violation{Sig: "cashout:receipt-loop-did-not-finish", Detail: fmt.Sprintf("op %d: the receipt loop did not reach its last action within 3 s", i), Case: jc})
			return
		}
		cl := classOf(err)
		if cl == 99 {
			run.Violate(hx.Violation{Sig: "error:unclassified", Detail: fmt.Sprintf("op %d (%s): unexpected error %v", i, o.Op, err), Case: jc})
		}
		run.Hist(fmt.Sprintf("%s.class=%d", o.Op, cl))
		// outputs of the op
		emit, notify := "None", "None"
		var em *pay.Emitted
		if len(e.Proto.Log) > nLog {
			em = &e.Proto.Log[len(e.Proto.Log)-1]
			emit = hx.CoqSome(hx.CoqTuple(enc.Addr(em.Recipient), pay.CoqZBig(em.Payout), hx.CoqBool(em.Delivered)))
			nEmitted++
		}
		if len(e.Notifies) > nNot {
			notify = hx.CoqSome(pay.CoqZBig(e.Notifies[len(e.Notifies)-1].Amount))
		}
		avail, _ := e.Svc.AvailableBalance()
		coqOps = append(coqOps, hx.CoqPair(coqOp, hx.CoqTuple(hx.CoqN(cl), emit, notify, pay.CoqZBig(avail))))
		after := snap(e)

		// O0: a cash-out (whatever its receipt) records chain state only: the persisted served / consumed traffic
		// totals, from which the totals are restored after a restart, are exactly what they were
		if o.Op == "cash" {
			for a, v := range storedTotals() {
				run.OracleChecked(2)
				if v[0].Cmp(totalsBefore[a][0]) != 0 {
					run.Violate(hx.Violation{Sig: "cash:served-total-overwritten", Detail: fmt.Sprintf("op %d: persisted transferred-traffic total of %s was %v, is %v after the cash-out receipt (a restart would restore TotalSent from it)", i, a.Hex(), totalsBefore[a][0], v[0]),
						Case: jc, Impl: v[0].String(), Want: totalsBefore[a][0].String()})
				}
				if v[1].Cmp(totalsBefore[a][1]) != 0 {
					run.Violate(hx.Violation{Sig: "cash:consumed-total-overwritten", Detail: fmt.Sprintf("op %d: persisted retrieved-traffic total of %s was %v, is %v after the cash-out receipt", i, a.Hex(), totalsBefore[a][1], v[1]),
						Case: jc, Impl: v[1].String(), Want: totalsBefore[a][1].String()})
				}
			}
		}
		// ---------------- oracle (the property statement on the implementation) ----------------
		chainConsulted := o.Op == "refresh" || o.Op == "restart" || o.Op == "cash"
		// O1: only operations that ask the chain may change a "cashed by the peer" record; in particular issuing never does
		if !chainConsulted {
			for a, v := range before.cashed {
				run.OracleChecked(1)
				if w, ok := after.cashed[a]; !ok || w.Cmp(v) != 0 {
					sig := o.Op + ":cashed-record-changed"
					run.Violate(hx.Violation{Sig: sig, Detail: fmt.Sprintf("op %d (%s): retrieveChainTraffic of %s was %v, is %v; the chain was not consulted", i, o.Op, a.Hex(), v, after.cashed[a]),
						Case: jc, Impl: fmt.Sprint(after.cashed[a]), Want: v.String()})
				}
			}
		}
		// O1b: a pay attempt (whatever its outcome) leaves the reported available balance as it was
		if o.Op == "pay" {
			run.OracleChecked(1)
			if avail.Cmp(availBefore) != 0 {
				run.Violate(hx.Violation{Sig: "pay:available-balance-changed", Detail: fmt.Sprintf("op %d: AvailableBalance %v -> %v across a pay attempt (err=%v)", i, availBefore, avail, err),
					Case: jc, Impl: avail.String(), Want: availBefore.String()})
			}
		}
		if jc.Consistent {
			// O2: available = on-chain balance + cashed amounts - total traffic owed, from the oracle's own books:
			//   on-chain balance = last answer of BalanceOf(self) (0 after a restart that did not get one),
			//   cashed(a)        = last answer of TransAmount(self, a),
			//   owed(a)          = traffic credited for a (a peer cannot have cashed more than is owed, so at least cashed(a));
			// summed over the peers the service has a record for. Skipped while a chain call for one of them has
			// failed (the service then falls back to its stored copy).
			fallback := false
			sum := new(big.Int)
			if b, ok := e.Chain.LastBal[e.Self]; ok && !(o.Op == "restart" && o.Bal == nil) {
				sum.Set(b)
			}
			for _, a := range after.keys {
				k := [2]common.Address{e.Self, a}
				if e.Chain.TransFailed[k] {
					fallback = true
				}
				c := big.NewInt(0)
				if x, ok := e.Chain.LastTrans[k]; ok {
					c = x
				}
				if (o.Op == "refresh" || o.Op == "restart") && o.ListsOK && get(refOwed, a).Cmp(c) < 0 {
					refOwed[a] = new(big.Int).Set(c)
				}
				sum.Add(sum, c)
				sum.Sub(sum, get(refOwed, a))
			}
			if !fallback && !restartWithoutBalance(jc.Ops[:i+1]) {
				run.OracleChecked(1)
				if avail.Cmp(sum) != 0 {
					run.Violate(hx.Violation{Sig: "available:!=balance+cashed-owed", Detail: fmt.Sprintf("after op %d (%s): AvailableBalance = %v, chain balance + cashed - owed = %v", i, o.Op, avail, sum),
						Case: jc, Impl: avail.String(), Want: sum.String()})
				}
			}
			// O3: payouts sent to a peer: never above the traffic owed to it, delivered ones strictly increase,
			// and no attempt is below the last delivered one
			if em != nil {
				a := em.Recipient
				run.OracleChecked(3)
				if em.Payout.Cmp(get(refOwed, a)) > 0 {
					run.Violate(hx.Violation{Sig: "payout:exceeds-owed", Detail: fmt.Sprintf("op %d: cheque payout %v, traffic owed %v", i, em.Payout, get(refOwed, a)), Case: jc, Impl: em.Payout.String(), Want: "<= " + get(refOwed, a).String()})
				}
				if ld, ok := lastDelivered[a]; ok && (em.Payout.Cmp(ld) < 0 || (em.Delivered && em.Payout.Cmp(ld) == 0)) {
					run.Violate(hx.Violation{Sig: "payout:not-increasing", Detail: fmt.Sprintf("op %d: cheque payout %v after a delivered cheque of %v", i, em.Payout, ld), Case: jc, Impl: em.Payout.String(), Want: "> " + ld.String()})
				}
				if le, ok := lastEmitted[a]; ok && em.Payout.Cmp(le) < 0 {
					run.Violate(hx.Violation{Sig: "payout:below-earlier-attempt", Detail: fmt.Sprintf("op %d: cheque payout %v after an attempt of %v", i, em.Payout, le), Case: jc})
				}
				lastEmitted[a] = em.Payout
				if em.Delivered {
					lastDelivered[a] = em.Payout
				}
			}
		}
	}

	// ---------------- final dump for the correspondence ----------------
	fin := snap(e)
	var recs, alias, disk []string
	var ptrs []*big.Int
	for _, a := range fin.keys {
		d := fin.recs[a]
		var vals []string
		for k := 0; k < 7; k++ {
			vals = append(vals, pay.CoqZBig(d.Vals[k]))
			ptrs = append(ptrs, d.Ptrs[k])
		}
		recs = append(recs, hx.CoqPair(enc.Addr(a), hx.CoqPair(hx.CoqList(vals, "Z"), hx.CoqN(uint64(d.Status)))))
	}
	if len(fin.keys) != len(fin.recs) {
		run.Violate(hx.Violation{Sig: "record:for-address-outside-universe", Detail: "a Traffic record exists for an address outside the universe of the run", Case: jc})
	}
	ptrs = append(ptrs, e.Svc.VerifBalancePtr())
	shared := false
	for i, p := range ptrs {
		first := i
		for j := 0; j < i; j++ {
			if ptrs[j] == p {
				first = j
				break
			}
		}
		if first != i {
			shared = true
		}
		alias = append(alias, hx.CoqN(uint64(first)))
	}
	bal, _ := e.Svc.VerifBalance()
	for _, a := range addrs {
		var last *big.Int
		if c, err := e.CS.LastSendCheque(a); err == nil {
			last = c.CumulativePayout
		}
		ls := "None"
		if last != nil {
			ls = hx.CoqSome(pay.CoqZBig(last))
		}
		r, _ := e.CS.GetRetrieveTraffic(a)
		t, _ := e.CS.GetTransferTraffic(a)
		cr, _ := e.CS.GetChainRetrieveTraffic(a)
		ct, _ := e.CS.GetChainTransferTraffic(a)
		disk = append(disk, hx.CoqPair(enc.Addr(a), hx.CoqTuple(ls, pay.CoqZBig(r), pay.CoqZBig(t), pay.CoqZBig(cr), pay.CoqZBig(ct))))
	}
	term := hx.CoqApp("CHist", hx.CoqList(coqOps, "op * obs"),
		hx.CoqApp("FIN", hx.CoqList(recs, "addr * (list Z * N)"), hx.CoqList(alias, "N"), pay.CoqZBig(bal), hx.CoqList(disk, "addr * (option Z * Z * Z * Z * Z)")))
	if shared {
		run.Hist("final.fields-share-a-bigint")
	}
	run.AddCase(term, jc, keyOf(jc), nEmitted >= 1 && nInit >= 1)
}

func restartWithoutBalance(ops []jop) bool {
	// the service balance is the constructor's 0 from a restart whose BalanceOf failed until the next successful one
	bad := false
	for _, o := range ops {
		switch o.Op {
		case "restart":
			bad = !(o.ListsOK && o.Bal != nil)
		case "refresh":
			if o.ListsOK && o.Bal != nil {
				bad = false
			}
		case "cash":
			// handled conservatively: a successful receipt refreshes the balance
			if o.CashOK && o.Receipt == 1 && o.Bal != nil {
				bad = false
			}
		}
	}
	return bad
}

func indexOf(a common.Address) int {
	for i, x := range addrs {
		if x == a {
			return i
		}
	}
	return 0
}

func keyOf(jc jcase) string {
	b := fmt.Sprintf("%v", jc.Consistent)
	for _, o := range jc.Ops {
		b += fmt.Sprintf("|%s,%d,%d,%s,%s,%s,%v,%v,%v,%v,%s,%v,%d,%s", o.Op, o.Peer, o.Addr, ps(o.Bal), o.Amt, o.Thr, o.Sign, o.Deliver, o.Lists, o.ListsOK, ps(o.Paid), o.CashOK, o.Receipt, ps(o.BalPeer))
		for _, t := range o.Trans {
			b += fmt.Sprintf(";%d,%s,%s", t.Addr, ps(t.T), ps(t.R))
		}
	}
	return b
}
func ps(s *string) string {
	if s == nil {
		return "-"
	}
	return *s
}

// ---------------------------------------------------------------- generator

type gen struct {
	r          *hx.Rand
	consistent bool
	reg        map[int]int      // peer -> address index (generator's guess of the book; steers only)
	listed     map[int]bool     // addresses the chain lists (only grows when consistent)
	cashed     map[int]*big.Int // retrieved total per address on chain (non-decreasing when consistent)
	transd     map[int]*big.Int
	delivered  map[int]*big.Int // generator's guess of the delivered cheque total (bounds what a peer can cash)
	owed       map[int]*big.Int
}

func (g *gen) small() *big.Int {
	switch g.r.Intn(10) {
	case 0:
		return big.NewInt(0)
	case 1:
		return new(big.Int).Lsh(big.NewInt(1), uint(64+g.r.Intn(40)))
	default:
		return big.NewInt(int64(1 + g.r.Intn(500)))
	}
}

func (g *gen) z(m map[int]*big.Int, k int) *big.Int {
	if x, ok := m[k]; ok {
		return x
	}
	return big.NewInt(0)
}

func (g *gen) chainView(o *jop, failing bool) {
	r := g.r
	o.ListsOK = !(failing && r.Chance(1, 6))
	// lists
	if g.consistent {
		for a := 1; a <= 3; a++ {
			if !g.listed[a] && g.z(g.cashed, a).Sign() > 0 {
				g.listed[a] = true
			}
			if !g.listed[a] && r.Chance(1, 5) {
				g.listed[a] = true
			}
		}
		for a := 1; a <= 4; a++ {
			if g.listed[a] {
				o.Lists = append(o.Lists, a)
				if r.Chance(1, 4) {
					o.Lists = append(o.Lists, a) // the same address in both chain lists
				}
			}
		}
	} else {
		for k := 0; k < r.Intn(4); k++ {
			o.Lists = append(o.Lists, 1+r.Intn(4))
		}
	}
	// per-address totals
	for a := 1; a <= 4; a++ {
		if g.consistent {
			// a peer may cash part of what was delivered to it and not yet cashed
			room := new(big.Int).Sub(g.z(g.delivered, a), g.z(g.cashed, a))
			if room.Sign() > 0 && r.Chance(1, 2) {
				inc := new(big.Int).Mod(new(big.Int).SetBytes(r.Bytes(len(room.Bytes())+2)), new(big.Int).Add(room, big.NewInt(1)))
				g.cashed[a] = new(big.Int).Add(g.z(g.cashed, a), inc)
			}
		} else if r.Chance(1, 2) {
			g.cashed[a] = g.small()
			g.transd[a] = g.small()
		}
		if g.z(g.cashed, a).Sign() == 0 && g.z(g.transd, a).Sign() == 0 && !r.Chance(1, 3) {
			continue
		}
		t := jtrans{Addr: a, T: sp(g.z(g.transd, a)), R: sp(g.z(g.cashed, a))}
		if failing && r.Chance(1, 8) {
			t.R = nil
		}
		if failing && r.Chance(1, 8) {
			t.T = nil
		}
		o.Trans = append(o.Trans, t)
	}
	if !(failing && r.Chance(1, 8)) {
		o.Bal = sp(new(big.Int).Add(big.NewInt(int64(r.Intn(3000))), new(big.Int).Mul(g.small(), big.NewInt(int64(r.Intn(3))))))
	}
	if !(failing && r.Chance(1, 10)) {
		o.Paid = sp(g.small())
	}
}

func genCase(r *hx.Rand, n int) jcase {
	g := &gen{r: r, consistent: r.Chance(4, 5), reg: map[int]int{}, listed: map[int]bool{}, cashed: map[int]*big.Int{}, transd: map[int]*big.Int{},
		delivered: map[int]*big.Int{}, owed: map[int]*big.Int{}}
	jc := jcase{Consistent: g.consistent}
	// a node starts with Init
	start := jop{Op: "restart"}
	g.chainView(&start, false)
	jc.Ops = append(jc.Ops, start)
	for p := 0; p < 3; p++ {
		if r.Chance(5, 6) {
			jc.Ops = append(jc.Ops, jop{Op: "hs", Peer: p, Addr: p + 1, Bal: sp(g.small())})
			g.reg[p] = p + 1
		}
	}
	for len(jc.Ops) < n {
		p := r.Intn(3)
		if r.Chance(1, 12) {
			p = 3
		}
		a := g.reg[p]
		switch k := r.Intn(100); {
		case k < 30:
			amt := g.small()
			if !g.consistent && r.Chance(1, 6) {
				amt = big.NewInt(-int64(r.Intn(50)))
			}
			jc.Ops = append(jc.Ops, jop{Op: "tr", Peer: p, Amt: amt.String()})
			if a > 0 {
				g.owed[a] = new(big.Int).Add(g.z(g.owed, a), amt)
			}
		case k < 36:
			jc.Ops = append(jc.Ops, jop{Op: "tx", Peer: p, Amt: g.small().String()})
		case k < 66:
			thr := big.NewInt(int64(1 + r.Intn(120)))
			if out := new(big.Int).Sub(g.z(g.owed, a), g.z(g.delivered, a)); a > 0 && out.Sign() > 0 && r.Chance(1, 4) {
				thr = out // boundary: the threshold is (the generator's estimate of) exactly the outstanding amount
			}
			if !g.consistent && r.Chance(1, 4) {
				thr = big.NewInt(int64(r.Intn(3)) - 1)
			}
			o := jop{Op: "pay", Peer: p, Thr: thr.String(), Sign: !r.Chance(1, 10), Deliver: !r.Chance(1, 4)}
			jc.Ops = append(jc.Ops, o)
			if a > 0 && o.Sign && o.Deliver {
				g.delivered[a] = g.z(g.owed, a) // a guess (insufficient funds etc. make it an over-estimate; only bounds cashing)
			}
		case k < 78:
			o := jop{Op: "refresh"}
			g.chainView(&o, true)
			jc.Ops = append(jc.Ops, o)
		case k < 86:
			o := jop{Op: "restart"}
			g.chainView(&o, !g.consistent)
			jc.Ops = append(jc.Ops, o)
		case k < 94:
			o := jop{Op: "cash", Peer: p, CashOK: !r.Chance(1, 6), Receipt: r.Pick([]int{1, 1, 1, 1, 0, -1, 2})}
			if !r.Chance(1, 8) {
				o.Bal = sp(big.NewInt(int64(r.Intn(3000))))
			}
			if !r.Chance(1, 8) {
				o.BalPeer = sp(g.small())
			}
			t := jtrans{Addr: a, T: sp(g.z(g.transd, a)), R: sp(g.z(g.cashed, a))}
			if r.Chance(1, 6) {
				t.R = nil
			}
			if r.Chance(1, 6) {
				t.T = nil
			}
			o.Trans = []jtrans{t}
			jc.Ops = append(jc.Ops, o)
		default:
			q := r.Intn(4)
			ad := 1 + r.Intn(4)
			o := jop{Op: "hs", Peer: q, Addr: ad}
			if !r.Chance(1, 6) {
				o.Bal = sp(g.small())
			}
			jc.Ops = append(jc.Ops, o)
			if _, known := g.reg[q]; !known {
				taken := false
				for _, x := range g.reg {
					if x == ad {
						taken = true
					}
				}
				if !taken {
					g.reg[q] = ad
				}
			}
		}
	}
	return jc
}

func s(x int64) *string { return sp(big.NewInt(x)) }

// corpus: the F-bigint-alias witness and relatives (run on every seed)
func corpus() []jcase {
	init1 := jop{Op: "restart", ListsOK: true, Lists: []int{1}, Trans: []jtrans{{Addr: 1, T: s(0), R: s(0)}}, Bal: s(1000), Paid: s(0)}
	return []jcase{
		// after Init the three retrieve fields of peer 1 share one big.Int; pay a cheque of 100, then a failing delivery
		{Consistent: true, Ops: []jop{init1, {Op: "hs", Peer: 0, Addr: 1, Bal: s(5)}, {Op: "tr", Peer: 0, Amt: "100"}, {Op: "pay", Peer: 0, Thr: "50", Sign: true, Deliver: true},
			{Op: "tr", Peer: 0, Amt: "30"}, {Op: "pay", Peer: 0, Thr: "10", Sign: true, Deliver: false}, {Op: "pay", Peer: 0, Thr: "10", Sign: false, Deliver: true},
			{Op: "pay", Peer: 0, Thr: "10", Sign: true, Deliver: true}}},
		// refresh between payments, cash-out, restart
		{Consistent: true, Ops: []jop{init1, {Op: "hs", Peer: 0, Addr: 1, Bal: s(5)}, {Op: "tr", Peer: 0, Amt: "100"}, {Op: "pay", Peer: 0, Thr: "1", Sign: true, Deliver: true},
			{Op: "refresh", ListsOK: true, Lists: []int{1}, Trans: []jtrans{{Addr: 1, T: s(0), R: s(60)}}, Bal: s(940), Paid: s(60)},
			{Op: "tr", Peer: 0, Amt: "40"}, {Op: "pay", Peer: 0, Thr: "1", Sign: true, Deliver: true},
			{Op: "cash", Peer: 0, CashOK: true, Receipt: 1, Bal: s(940), BalPeer: s(7), Trans: []jtrans{{Addr: 1, T: s(0), R: s(60)}}},
			{Op: "restart", ListsOK: true, Lists: []int{1}, Trans: []jtrans{{Addr: 1, T: s(0), R: s(100)}}, Bal: s(900), Paid: s(100)},
			{Op: "tr", Peer: 0, Amt: "5"}, {Op: "pay", Peer: 0, Thr: "1", Sign: true, Deliver: true}}},
		// insufficient funds; unknown peer; chain failures during refresh
		{Consistent: true, Ops: []jop{{Op: "restart", ListsOK: true, Bal: s(50), Paid: s(0)}, {Op: "hs", Peer: 1, Addr: 2, Bal: s(1)}, {Op: "tr", Peer: 1, Amt: "30"}, {Op: "pay", Peer: 1, Thr: "1", Sign: true, Deliver: true},
			{Op: "pay", Peer: 3, Thr: "1", Sign: true, Deliver: true}, {Op: "tr", Peer: 1, Amt: "10"},
			{Op: "refresh", ListsOK: false, Bal: s(50), Paid: s(0)}, {Op: "refresh", ListsOK: true, Lists: []int{2}, Trans: []jtrans{{Addr: 2, T: nil, R: nil}}, Paid: s(0)},
			{Op: "pay", Peer: 1, Thr: "1", Sign: true, Deliver: true}}},
	}
}

func main() {
	run = hx.Start("C31", "Aurora.C31.Corr",
		"histories (8..30 ops) over three registered peers on the real traffic service: Init, registration, credited traffic, pay attempts (signing or delivery may fail), 24 h refresh, cash-out receipts, restarts; 4/5 of the histories have consistent chain answers (monotone totals, positive thresholds, non-negative amounts), 1/5 arbitrary ones; non-trivial = at least one cheque emitted and at least one Init/refresh/restart consulted the chain; distinct by the full op list")
	initUniverse()
	if run.Replay != "" {
		var jc jcase
		if err := run.ReadReplay(&jc); err != nil {
			panic(err)
		}
		runCase(jc)
		run.Finish()
		return
	}
	for _, jc := range corpus() {
		runCase(jc)
	}
	n := run.N(150, 2500)
	for i := 0; i < n; i++ {
		runCase(genCase(run.R.Fork(uint64(i)), 8+run.R.Intn(23)))
	}
	run.Finish()
}
