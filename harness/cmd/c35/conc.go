// C35 harness, concurrent stage: Enforce and RefreshKey are called from many
// goroutines at once on ONE Authenticator. The property quantifies over inputs
// and histories; the model says a call's answer depends on (key, token, clock,
// path, method) only — no state is shared between calls — so every concurrent
// call must give the answer the same call gives sequentially.
//
// The tokens are authentic and their plaintext records have EQUAL byte length
// (valid / expired x consumer / creator / maintainer), so that a call that
// reads another call's record (shared scratch memory) still parses it and turns
// into a wrong verdict instead of a JSON error.
package main

import (
	"fmt"
	"runtime"
	"sort"
	"sync"
	"sync/atomic"
	"time"

	"verifharness/hx"
)

type ctoken struct {
	name    string // e.g. "valid-consumer"
	role    string
	expired bool
	tok     string
}

type ccall struct {
	refresh      bool
	tok          int
	path, method string
}

// answer of one call, in comparable form
type cans struct {
	Panicked bool   `json:"panicked,omitempty"`
	Ok       bool   `json:"ok,omitempty"`    // Enforce: allowed; RefreshKey: a token came back
	Err      string `json:"err,omitempty"`   // error class
	Role     string `json:"role,omitempty"`  // RefreshKey: role carried by the new token
	Opens    bool   `json:"opens,omitempty"` // RefreshKey: the new token opens under the node's key
	newTok   string
}

func (a cans) key() string {
	return fmt.Sprintf("%v|%v|%s|%s|%v", a.Panicked, a.Ok, a.Err, a.Role, a.Opens)
}

func runCall(tokens []ctoken, c ccall) (ans cans) {
	defer func() {
		if e := recover(); e != nil {
			ans = cans{Panicked: true}
		}
	}()
	if c.refresh {
		nt, err := a.RefreshKey(tokens[c.tok].tok, 3600)
		if err != nil {
			return cans{Err: classify(err)}
		}
		t := mkTables(nt)
		return cans{Ok: true, Role: t.role, Opens: t.opened && t.parsed, newTok: nt}
	}
	ok, err := a.Enforce(tokens[c.tok].tok, c.path, c.method)
	if err != nil {
		return cans{Ok: ok, Err: classify(err)}
	}
	return cans{Ok: ok}
}

type cjcase struct {
	Kind     string `json:"kind"` // "conc"
	Token    string `json:"token_name"`
	Tok      string `json:"tok"`
	Refresh  bool   `json:"refresh,omitempty"`
	Path     string `json:"path,omitempty"`
	Method   string `json:"method,omitempty"`
	Seq      cans   `json:"sequential_answer"`
	Conc     cans   `json:"concurrent_answer"`
	Count    int64  `json:"times_observed"`
	Workers  int    `json:"goroutines"`
	Duration string `json:"duration"`
}

func concSig(tk ctoken, c ccall, seq, got cans) string {
	switch {
	case got.Panicked:
		return "conc:panic"
	case !c.refresh && got.Ok && tk.expired:
		return "conc:expired-token-honoured"
	case !c.refresh && got.Ok && !seq.Ok:
		return "conc:role-escalation"
	case !c.refresh:
		return "conc:enforce-answer-differs-from-sequential"
	case got.Ok && tk.expired:
		return "conc:refresh-revived-expired-token"
	case got.Ok && got.Role != tk.role:
		return "conc:refresh-changed-role"
	}
	return "conc:refresh-answer-differs-from-sequential"
}

// doConcurrent is the concurrent stage. workers goroutines for d.
func doConcurrent(workers int, d time.Duration) {
	r := run.R.Fork(0xC0C)
	future := "2031-01-01T00:00:00Z"
	past := "2021-01-01T00:00:00Z"
	// equal-length records: the role is padded with JSON whitespace after the string
	mk := func(role, e string) string {
		pad := len("maintainer") - len(role)
		sp := ""
		for i := 0; i < pad; i++ {
			sp += " "
		}
		return `{"r":"` + role + `"` + sp + `,"e":"` + e + `"}`
	}
	var tokens []ctoken
	for _, role := range []string{"consumer", "creator", "maintainer"} {
		tokens = append(tokens,
			ctoken{"valid-" + role, role, false, craft(r.Bytes(nsz), mk(role, future))},
			ctoken{"expired-" + role, role, true, craft(r.Bytes(nsz), mk(role, past))})
	}
	l0 := len(tokens[0].tok)
	for _, t := range tokens {
		if len(t.tok) != l0 {
			panic("concurrent stage: tokens of different length")
		}
	}
	pairs := [][2]string{{"/bytes/abc", "GET"}, {"/bytes", "POST"}, {"/topology", "GET"}, {"/v1/pins/abc", "DELETE"}}
	var calls []ccall
	for ti := range tokens {
		for _, p := range pairs {
			calls = append(calls, ccall{tok: ti, path: p[0], method: p[1]})
		}
		calls = append(calls, ccall{refresh: true, tok: ti})
	}
	// sequential answers, computed beforehand (three times: they must be stable)
	seq := make([]cans, len(calls))
	for i, c := range calls {
		seq[i] = runCall(tokens, c)
		for k := 0; k < 2; k++ {
			if again := runCall(tokens, c); again.key() != seq[i].key() {
				run.Violate(hx.Violation{Sig: "conc:sequential-answer-unstable", Detail: fmt.Sprintf("%+v then %+v", seq[i], again), Case: cjcase{Kind: "conc", Token: tokens[c.tok].name, Tok: tokens[c.tok].tok}})
			}
		}
	}

	type obsKey struct {
		call int
		ans  string
	}
	var mu sync.Mutex
	observed := map[obsKey]*cans{}
	counts := map[obsKey]*int64{}
	var total, deviations int64
	tlo := time.Now()
	stop := make(chan struct{})
	var wg sync.WaitGroup
	// more runnable goroutines than processors, so that calls are preempted half-way
	prev := runtime.GOMAXPROCS(0)
	if prev > 4 {
		runtime.GOMAXPROCS(4)
	}
	for w := 0; w < workers; w++ {
		wr := r.Fork(uint64(w))
		wg.Add(1)
		go func() {
			defer wg.Done()
			for n := 0; ; n++ {
				select {
				case <-stop:
					return
				default:
				}
				ci := wr.Intn(len(calls))
				got := runCall(tokens, calls[ci])
				atomic.AddInt64(&total, 1)
				k := obsKey{ci, got.key()}
				mu.Lock()
				if counts[k] == nil {
					g := got
					observed[k] = &g
					counts[k] = new(int64)
				}
				*counts[k]++
				mu.Unlock()
				if got.key() != seq[ci].key() {
					atomic.AddInt64(&deviations, 1)
				}
			}
		}()
	}
	// the pool-style caches of the runtime are emptied by a collection: provoke a few
	deadline := time.After(d)
	tick := time.NewTicker(50 * time.Millisecond)
loop:
	for {
		select {
		case <-deadline:
			break loop
		case <-tick.C:
			runtime.GC()
			if atomic.LoadInt64(&deviations) > 200 {
				break loop
			}
		}
	}
	tick.Stop()
	close(stop)
	wg.Wait()
	runtime.GOMAXPROCS(prev)
	thi := time.Now()

	// every DISTINCT observed answer becomes one oracle check and one correspondence case
	keys := make([]obsKey, 0, len(observed))
	for k := range observed {
		keys = append(keys, k)
	}
	sort.Slice(keys, func(i, j int) bool {
		if keys[i].call != keys[j].call {
			return keys[i].call < keys[j].call
		}
		return keys[i].ans < keys[j].ans
	})
	perTok := map[int][]string{}
	var viol []hx.Violation
	for _, k := range keys {
		c := calls[k.call]
		tk := tokens[c.tok]
		got := *observed[k]
		jc := cjcase{Kind: "conc", Token: tk.name, Tok: tk.tok, Refresh: c.refresh, Path: c.path, Method: c.method,
			Seq: seq[k.call], Conc: got, Count: *counts[k], Workers: workers, Duration: d.String()}
		run.OracleChecked(1)
		dev := got.key() != seq[k.call].key()
		if dev {
			viol = append(viol, hx.Violation{Sig: concSig(tk, c, seq[k.call], got),
				Detail: fmt.Sprintf("%s: concurrent answer %+v (seen %d times among %d concurrent calls), sequential answer %+v", tk.name, got, *counts[k], total, seq[k.call]),
				Case:   jc, Impl: got, Want: seq[k.call]})
		}
		if c.refresh {
			sc, _ := sealedCoq(got.newTok, got.Ok)
			obs := "Panic"
			if !got.Panicked {
				if got.Ok {
					obs = "(Ok " + S(got.newTok) + ")"
				} else {
					obs = "(Err " + got.Err + ")"
				}
			}
			run.AddCase(hx.CoqApp("CConcRefresh", S(tk.tok), mkTables(tk.tok).coq(), z64(3600), zlit(znano(tlo)), zlit(znano(thi)), sc, obs),
				jc, fmt.Sprintf("conc|%s|refresh|%s", tk.name, got.key()), true)
		} else {
			obs := "Panic"
			if !got.Panicked {
				if got.Err != "" {
					obs = "(Err " + got.Err + ")"
				} else {
					obs = "(Ok " + hx.CoqBool(got.Ok) + ")"
				}
			}
			perTok[c.tok] = append(perTok[c.tok], hx.CoqTuple(S(c.path), S(c.method), obs))
			run.AddCase("", jc, fmt.Sprintf("conc|%s|%s|%s|%s", tk.name, c.path, c.method, got.key()), true)
		}
		run.Hist(fmt.Sprintf("conc.distinct-answers.deviating=%v", dev))
	}
	tis := make([]int, 0, len(perTok))
	for ti := range perTok {
		tis = append(tis, ti)
	}
	sort.Ints(tis)
	for _, ti := range tis {
		tk := tokens[ti]
		run.AddCase(hx.CoqApp("CConcEnforce", S(tk.tok), mkTables(tk.tok).coq(), zlit(znano(tlo)), zlit(znano(thi)),
			hx.CoqList(perTok[ti], "bytes * bytes * res bool")),
			cjcase{Kind: "conc", Token: tk.name, Tok: tk.tok}, "conc-enforce|"+tk.name+fmt.Sprint(perTok[ti]), true)
	}
	// the most telling deviations first (the first violation is the one the check reports)
	rank := map[string]int{"conc:expired-token-honoured": 0, "conc:role-escalation": 1, "conc:refresh-revived-expired-token": 2, "conc:refresh-changed-role": 3, "conc:panic": 4}
	sort.SliceStable(viol, func(i, j int) bool {
		ri, oi := rank[viol[i].Sig]
		rj, oj := rank[viol[j].Sig]
		if !oi {
			ri = 9
		}
		if !oj {
			rj = 9
		}
		return ri < rj
	})
	for _, v := range viol {
		run.Violate(v)
	}
	run.HistN("conc.calls", int(total))
	run.HistN("conc.deviating-calls", int(deviations))
	run.SetExtra("concurrent_stage", map[string]interface{}{"goroutines": workers, "duration": d.String(), "calls": total, "deviating_calls": deviations})
}
